(* Model of cspuz/generator/segmentation.py :: SegmentationBuilder2D
   (__init__ defaults, initial, candidates, copy_with_update), split_block and
   _is_connected.  Definitions only; the proofs are in SegReach.v, SegLists.v,
   SegInv.v.

   Randomness: every value the Python draws from its PRNG (random.randint in
   split_block, random.choice in initial) is an element of the explicit input
   [draws : list nat]; a draw d stands for the value  a + d mod (b-a+1)  of
   randint(a,b) and for  seq[d mod len(seq)]  of choice(seq).

   Where the Python iterates a `set` (the adjacent pairs of the merge part of
   candidates) the order is unspecified; the model lists that part sorted
   lexicographically without duplicates and the correspondence check sorts the
   Python side the same way.

   Cells are pairs (y, x) of Z.  Supplied blocks are assumed to contain only
   cells inside the board (Python would wrap negative indices / raise
   IndexError when filling block_id). *)
From Coq Require Import ZArith List Bool Arith Permutation.
From Cspuz Require Import Lib.PyErr.
Import ListNotations.
Open Scope res_scope.

Definition cell := (Z * Z)%type.
Definition block := list cell.
Definition blocks := list block.
(* an update is the pair (exclude, append) of the Python *)
Definition update := (list nat * list block)%type.

Definition cell_eqb (a b : cell) : bool := (fst a =? fst b)%Z && (snd a =? snd b)%Z.
Definition memc (c : cell) (l : list cell) : bool := existsb (cell_eqb c) l.
Definition memn (n : nat) (l : list nat) : bool := existsb (Nat.eqb n) l.
Definition zlen {A} (l : list A) : Z := Z.of_nat (length l).

Record config := {
  height : Z; width : Z;
  min_num : Z; max_num : Z; min_size : Z; max_size : Z;
  allow_unmet : bool }.

(* `x or d` on an optional int *)
Definition py_or (o : option Z) (d : Z) : Z :=
  match o with None => d | Some v => if (v =? 0)%Z then d else v end.

Definition make_config (h w : Z) (mn mx ms xs : option Z) (allow : bool) : config :=
  {| height := h; width := w;
     min_num := py_or mn 1; max_num := py_or mx (h * w);
     min_size := py_or ms 1; max_size := py_or xs (h * w);
     allow_unmet := allow |}.

(* range(n) *)
Definition zrange (n : Z) : list Z := map Z.of_nat (seq 0 (Z.to_nat n)).
(* for y in range(h): for x in range(w): (y, x) *)
Definition board_cells (h w : Z) : list cell := list_prod (zrange h) (zrange w).

(* block_id[y][x]: the last block (in list order) that contains the cell, None for -1 *)
Fixpoint block_id_from (k : nat) (bs : blocks) (c : cell) : option nat :=
  match bs with
  | [] => None
  | b :: r => match block_id_from (S k) r c with
              | Some i => Some i
              | None => if memc c b then Some k else None
              end
  end.
Definition block_id (bs : blocks) (c : cell) : option nat := block_id_from 0 bs c.

Definition oid_eqb (a b : option nat) : bool :=
  match a, b with
  | Some i, Some j => Nat.eqb i j
  | None, None => true
  | _, _ => false
  end.

Definition blk (bs : blocks) (i : nat) : block := nth i bs [].

(* ---------------------------------------------------------------- merge *)

Definition order_pair (i j : nat) : nat * nat := if Nat.ltb i j then (i, j) else (j, i).

(* one adjacency test of the merge scan: Some [] = nothing, None = `continue` *)
Definition merge_probe (cfg : config) (bs : blocks) (inside : bool) (i : nat) (oj : option nat)
  : option (list (nat * nat)) :=
  match oj with
  | Some j =>
      if inside && negb (Nat.eqb i j) then
        if (zlen (blk bs i) + zlen (blk bs j) >? max_size cfg)%Z then None
        else Some [order_pair i j]
      else Some []
  | None => Some []
  end.

Definition merge_at (cfg : config) (bs : blocks) (c : cell) : list (nat * nat) :=
  let '(y, x) := c in
  match block_id bs c with
  | None => []
  | Some i =>
      match merge_probe cfg bs (y <? height cfg - 1)%Z i (block_id bs (y + 1, x)%Z) with
      | None => []
      | Some l1 =>
          match merge_probe cfg bs (x <? width cfg - 1)%Z i (block_id bs (y, x + 1)%Z) with
          | None => l1
          | Some l2 => l1 ++ l2
          end
      end
  end.

Definition pair_ltb (p q : nat * nat) : bool :=
  Nat.ltb (fst p) (fst q) || (Nat.eqb (fst p) (fst q) && Nat.ltb (snd p) (snd q)).
Definition pair_eqb (p q : nat * nat) : bool := Nat.eqb (fst p) (fst q) && Nat.eqb (snd p) (snd q).
Fixpoint ins_pair (p : nat * nat) (l : list (nat * nat)) : list (nat * nat) :=
  match l with
  | [] => [p]
  | q :: r => if pair_ltb p q then p :: l else if pair_eqb p q then l else q :: ins_pair p r
  end.
(* the `set` of adjacent pairs, listed in a canonical (sorted) order *)
Definition sort_pairs (l : list (nat * nat)) : list (nat * nat) := fold_right ins_pair [] l.

Definition merge_pairs (cfg : config) (bs : blocks) : list (nat * nat) :=
  sort_pairs (flat_map (merge_at cfg bs) (board_cells (height cfg) (width cfg))).

Definition merge_upd (bs : blocks) (p : nat * nat) : update :=
  ([fst p; snd p], [blk bs (fst p) ++ blk bs (snd p)]).

Definition merges (cfg : config) (bs : blocks) : list update :=
  if (zlen bs >? min_num cfg)%Z then map (merge_upd bs) (merge_pairs cfg bs) else [].

(* ---------------------------------------------------------------- split *)

(* orthogonal adjacency *)
Definition adjb (a b : cell) : bool := (Z.abs (fst a - fst b) + Z.abs (snd a - snd b) =? 1)%Z.

(* one BFS level: the cells of B already reached or next to a reached cell *)
Definition grow (B : block) (cur : list cell) : list cell :=
  filter (fun v => memc v cur || existsb (adjb v) cur) B.

(* [cur; grow cur; grow (grow cur); ...]  (n + 1 entries) *)
Fixpoint balls (B : block) (cur : list cell) (n : nat) : list (list cell) :=
  match n with
  | O => [cur]
  | S n' => cur :: balls B (grow B cur) n'
  end.

Fixpoint first_idx (v : cell) (ls : list (list cell)) (k : nat) : option nat :=
  match ls with
  | [] => None
  | l :: r => if memc v l then Some k else first_idx v r (S k)
  end.

(* the dict returned by bfs(seed): distance of v = index of the first ball that
   contains it; None = key absent (not reachable inside the block) *)
Definition dist_map (B : block) (s : cell) : list (list cell) := balls B [s] (length B).
Definition dist (dm : list (list cell)) (v : cell) : option nat := first_idx v dm 0.

(* the `while True` loop drawing two indices until they differ *)
Fixpoint pick_seeds (n : nat) (draws : list nat) : res (nat * nat * list nat) :=
  match draws with
  | a :: r1 =>
      match r1 with
      | b :: rest =>
          if Nat.eqb (a mod n) (b mod n) then pick_seeds n rest
          else Ok (a mod n, b mod n, rest)
      | [] => Err OtherError
      end
  | [] => Err OtherError     (* draws exhausted *)
  end.

Definition is_some {A} (o : option A) : bool := match o with Some _ => true | None => false end.
Definition le_opt (a b : option nat) : bool :=
  match a, b with Some x, Some y => Nat.leb x y | _, _ => false end.

Definition voronoi (B : block) (sa sb : cell) : res (block * block) :=
  let da := dist_map B sa in
  let db := dist_map B sb in
  if forallb (fun v => is_some (dist da v) && is_some (dist db v)) B then
    Ok (filter (fun v => le_opt (dist da v) (dist db v)) B,
        filter (fun v => negb (le_opt (dist da v) (dist db v))) B)
  else Err KeyError.

Definition split_block (B : block) (draws : list nat) : res (block * block * list nat) :=
  if Nat.ltb (length B) 2 then Err AssertionError else
  let* '(ia, ib, rest) := pick_seeds (length B) draws in
  let* '(a, b) := voronoi B (nth ia B (0, 0)%Z) (nth ib B (0, 0)%Z) in
  Ok (a, b, rest).

Fixpoint split_reps (cfg : config) (n : nat) (i : nat) (B : block) (draws : list nat)
  : res (list update * list nat) :=
  match n with
  | O => Ok ([], draws)
  | S n' =>
      let* '(a, b, d1) := split_block B draws in
      let* '(us, d2) := split_reps cfg n' i B d1 in
      Ok ((if (zlen a >=? min_size cfg)%Z && (zlen b >=? min_size cfg)%Z then [([i], [a; b])] else []) ++ us, d2)
  end.

Fixpoint splits_from (cfg : config) (i : nat) (bs : blocks) (draws : list nat)
  : res (list update * list nat) :=
  match bs with
  | [] => Ok ([], draws)
  | B :: r =>
      let* '(u1, d1) :=
        (if (zlen B >=? min_size cfg * 2)%Z then split_reps cfg (2 * (length B - 1)) i B draws
         else Ok ([], draws)) in
      let* '(u2, d2) := splits_from cfg (S i) r d1 in
      Ok (u1 ++ u2, d2)
  end.

Definition splits (cfg : config) (bs : blocks) (draws : list nat) : res (list update * list nat) :=
  if (zlen bs <? max_num cfg)%Z then splits_from cfg 0 bs draws else Ok ([], draws).

(* ---------------------------------------------------------------- move one cell *)

Fixpoint dedup (l : list cell) : list cell :=
  match l with
  | [] => []
  | a :: r => if memc a r then dedup r else a :: dedup r
  end.

Definition remove_cell (c : cell) (B : block) : block := filter (fun p => negb (cell_eqb p c)) B.

(* _is_connected(block, excluded) *)
Definition is_connected (B : block) (excl : option cell) : bool :=
  if Nat.eqb (length B) 1 then (match excl with None => true | Some _ => false end)
  else
    let b0 := nth 0 B (0, 0)%Z in
    let start := match excl with
                 | Some e => if cell_eqb b0 e then nth 1 B (0, 0)%Z else b0
                 | None => b0
                 end in
    let bset := dedup B in
    let B' := match excl with Some e => remove_cell e bset | None => bset end in
    let visited := if memc start B' then Nat.iter (length B') (grow B') [start] else [] in
    Nat.eqb (length visited)
            (length bset - (match excl with Some e => if memc e B then 1 else 0 | None => 0 end)).

(* (exclude, [donor without c, receiver + [c]]) *)
Definition move_upd (excl : list nat) (donor recv : block) (c : cell) : update :=
  (excl, [remove_cell c donor; recv ++ [c]]).

(* the two `if`s for a pair of different neighbouring blocks i (cell ci) and j (cell cj) *)
Definition move_pair (cfg : config) (bs : blocks) (i j : nat) (ci cj : cell) : list update :=
  (if (zlen (blk bs i) >? min_size cfg)%Z && (zlen (blk bs j) <? max_size cfg)%Z
      && is_connected (blk bs i) (Some ci)
   then [move_upd [i; j] (blk bs i) (blk bs j) ci] else [])
  ++
  (if (zlen (blk bs j) >? min_size cfg)%Z && (zlen (blk bs i) <? max_size cfg)%Z
      && is_connected (blk bs j) (Some cj)
   then [move_upd [i; j] (blk bs j) (blk bs i) cj] else []).

(* None = `continue` *)
Definition move_probe (cfg : config) (bs : blocks) (inside : bool) (c c' : cell) : option (list update) :=
  let a := block_id bs c in
  let b := block_id bs c' in
  if inside && negb (oid_eqb a b) then
    match a, b with
    | Some i, Some j => Some (move_pair cfg bs i j c c')
    | _, _ => None
    end
  else Some [].

Definition move_at (cfg : config) (bs : blocks) (c : cell) : list update :=
  let '(y, x) := c in
  match move_probe cfg bs (y <? height cfg - 1)%Z c (y + 1, x)%Z with
  | None => []
  | Some l1 =>
      match move_probe cfg bs (x <? width cfg - 1)%Z c (y, x + 1)%Z with
      | None => l1
      | Some l2 => l1 ++ l2
      end
  end.

Definition moves (cfg : config) (bs : blocks) : list update :=
  flat_map (move_at cfg bs) (board_cells (height cfg) (width cfg)).

(* ---------------------------------------------------------------- candidates / apply / initial *)

Definition candidates (cfg : config) (bs : blocks) (draws : list nat) : res (list update * list nat) :=
  let* '(sp, rest) := splits cfg bs draws in
  Ok (merges cfg bs ++ sp ++ moves cfg bs, rest).

(* [previous[i] for i in range(len(previous)) if i not in exclude] *)
Definition keep_idx (excl : list nat) (bs : blocks) : blocks :=
  map snd (filter (fun p => negb (memn (fst p) excl)) (combine (seq 0 (length bs)) bs)).

(* copy_with_update / _copy_with_update as values *)
Definition apply_update (bs : blocks) (u : update) : blocks := keep_idx (fst u) bs ++ snd u.

Definition size_ok (cfg : config) (b : block) : bool :=
  (min_size cfg <=? zlen b)%Z && (zlen b <=? max_size cfg)%Z.
Definition is_met (cfg : config) (bs : blocks) : bool :=
  (min_num cfg <=? zlen bs)%Z && (zlen bs <=? max_num cfg)%Z && forallb (size_ok cfg) bs.

Fixpoint initial_loop (cfg : config) (fuel : nat) (bs : blocks) (draws : list nat)
  : res (blocks * list nat) :=
  if is_met cfg bs then Ok (bs, draws) else
  match fuel with
  | O => Err OtherError
  | S f =>
      let* '(cands, d1) := candidates cfg bs draws in
      match cands with
      | [] => Err IndexError                      (* random.choice([]) *)
      | _ =>
          match d1 with
          | [] => Err OtherError                  (* draws exhausted *)
          | k :: d2 => initial_loop cfg f (apply_update bs (nth (k mod length cands) cands ([], []))) d2
          end
      end
  end.

Definition initial (cfg : config) (ib : option blocks) (draws : list nat) (fuel : nat)
  : res (blocks * list nat) :=
  let b0 := match ib with None => [board_cells (height cfg) (width cfg)] | Some b => b end in
  if allow_unmet cfg then Ok (b0, draws) else initial_loop cfg fuel b0 draws.

(* ---------------------------------------------------------------- specification vocabulary *)

Definition adj (a b : cell) : Prop := (Z.abs (fst a - fst b) + Z.abs (snd a - snd b) = 1)%Z.

(* walks inside B *)
Inductive reach (B : block) : cell -> cell -> Prop :=
  | reach_refl : forall u, In u B -> reach B u u
  | reach_step : forall u v w, reach B u v -> In w B -> adj v w -> reach B u w.

Definition connected_block (B : block) : Prop :=
  B <> [] /\ forall u v, In u B -> In v B -> reach B u v.

Definition partition_of_board (h w : Z) (bs : blocks) : Prop :=
  Permutation (concat bs) (board_cells h w).

Definition bounds_ok (cfg : config) (bs : blocks) : Prop :=
  (min_num cfg <= zlen bs <= max_num cfg)%Z /\
  Forall (fun b => (min_size cfg <= zlen b <= max_size cfg)%Z) bs.

(* partition into connected blocks (without the bounds) *)
Definition WInv (cfg : config) (bs : blocks) : Prop :=
  partition_of_board (height cfg) (width cfg) bs /\ Forall connected_block bs.

Definition Inv (cfg : config) (bs : blocks) : Prop := WInv cfg bs /\ bounds_ok cfg bs.

(* u is one of the updates proposed for bs (for the draws ds) *)
Definition proposed (cfg : config) (bs : blocks) (ds : list nat) (u : update) : Prop :=
  exists l rest, candidates cfg bs ds = Ok (l, rest) /\ In u l.

(* a sequence of (draws, update) steps, each update proposed for the value reached so far *)
Fixpoint valid_walk (cfg : config) (bs : blocks) (steps : list (list nat * update)) : Prop :=
  match steps with
  | [] => True
  | (ds, u) :: r => proposed cfg bs ds u /\ valid_walk cfg (apply_update bs u) r
  end.

(* every value along the walk, the start included *)
Fixpoint walk_values (bs : blocks) (us : list update) : list blocks :=
  match us with
  | [] => [bs]
  | u :: r => bs :: walk_values (apply_update bs u) r
  end.
