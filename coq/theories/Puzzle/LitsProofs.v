(* C11 Tier 1 - lits: for every board shape and every room layout, the program posted by solve_lits (model Lits.v:
   the connectivity helper of property C04, the 2x2 constraints, the auxiliary variables num_straight / has_t and the
   constraints of the rooms and of the room borders) has a model reading as [ans] exactly when [ans] obeys Rules_lits.
   The auxiliary variables are existential: from a rule-obeying grid they are set to the kind of the tetromino of each
   room (LitsLocal.lits_local); connectivity of the black cells through property C04's theorems avc_eval /
   avc_exact_models. *)
From Coq Require Import ZArith List Bool Arith Lia.
From Cspuz Require Import Lib.PyErr Core.Expr Core.Program Graph.GraphModel Graph.ReachProofs
     Graph.Avc Graph.AvcSem Graph.AvcProofs Graph.AcyclicGraphFacts
     Puzzle.PuzzleBase Puzzle.SatAbs Puzzle.ModelBase Puzzle.ModelLemmas Puzzle.AkariLemmas Puzzle.CreekProofs
     Puzzle.Rules_norinori Puzzle.Norinori Puzzle.NurimisakiProofs Puzzle.HeyawakeProofs
     Puzzle.Rules_lits Puzzle.Lits Puzzle.LitsShapes Puzzle.LitsSem Puzzle.LitsLocal.
Import ListNotations.
Local Open Scope nat_scope.

Notation b2z := PuzzleBase.b2z.

(* ------------------------------------------------------------------ the certificate checker of C04 only looks at the
   vertices of the graph *)
Lemma cert_avc_ext_below g act1 act2 rank1 rank2 root1 root2 :
  wf_graph g = true ->
  (forall v, v < nv g -> act1 v = act2 v) -> (forall v, v < nv g -> rank1 v = rank2 v) ->
  (forall v, v < nv g -> root1 v = root2 v) ->
  cert_avc g false act1 rank1 root1 = cert_avc g false act2 rank2 root2.
Proof.
  intros W Ha Hr Ho. unfold cert_avc. f_equal.
  - apply ModelLemmas.forallb_ext_in. intros i Hi. apply in_seq in Hi. unfold vertex_ok, lower_cnt. cbn [andb].
    assert (E : map (fun jk : nat * nat => Avc.b2z ((rank1 (fst jk) <? rank1 i)%Z && act1 (fst jk))) (incident g i) =
                map (fun jk : nat * nat => Avc.b2z ((rank2 (fst jk) <? rank2 i)%Z && act2 (fst jk))) (incident g i)).
    { apply map_ext_in. intros [j e] Hin. destruct (incident_lt g i j e W Hin) as [_ Hj]. cbn [fst].
      rewrite (Hr j Hj), (Ha j Hj), (Hr i) by lia. reflexivity. }
    rewrite E, (Ha i), (Ho i) by lia. reflexivity.
  - f_equal. f_equal. apply map_ext_in. intros j Hj. apply in_seq in Hj. rewrite Ho by lia. reflexivity.
Qed.

(* ------------------------------------------------------------------ composition with C04 for a solver that declares
   further variables after the connectivity helper *)
Theorem lits_compose h w k (extra : list expr) (loc : answer -> bool) st1 ans :
  post_avc (bool_grid_state (h * w) []) (map BVar (seq 0 (h * w))) (grid_graph h w) false false = Ok st1 ->
  let st := {| vars := vars st1 ++ repeat (DInt 0 2) k ++ repeat DBool k;
               keys := keys st1 ++ repeat false (k + k);
               cons := Program.cons st1 ++ extra |} in
  (forall en, forallb (holds gsem_avc en) extra = true -> loc (map (fun i => b2z (eb en i)) (seq 0 (h * w))) = true) ->
  (forall en, loc (map (fun i => b2z (eb en i)) (seq 0 (h * w))) = true ->
     exists en', agree_below (next_id st1) en en' /\
                 (forall j, j < k -> (0 <= ei en' (next_id st1 + j) <= 2)%Z) /\
                 forallb (holds gsem_avc en') extra = true) ->
  ((exists en, model_of gsem_avc en st /\ reads st en (seq 0 (h * w)) = ans)
   <-> Nat.eqb (length ans) (h * w) && forallb is01 ans &&
       cells_connected h w (fun v => isb (getz ans v)) && loc ans = true).
Proof.
  set (n := h * w). set (st0 := bool_grid_state n []). set (acts := map BVar (seq 0 n)).
  intros Hp st H1 H2.
  destruct (AvcSem.avc_eval _ _ _ _ _ Hp) as [Hv [_ [cs [Hc Hev]]]].
  assert (Hn0 : next_id st0 = n) by (unfold next_id, st0; simpl; apply repeat_length).
  assert (Hnv : nv (grid_graph h w) = n) by reflexivity.
  assert (Hn1 : next_id st1 = n + (n + n)).
  { unfold next_id. rewrite Hv, !app_length, !repeat_length. unfold st0. cbn [vars bool_grid_state]. rewrite repeat_length. reflexivity. }
  assert (Hmod0 : forall en, model_of gsem_avc en st0).
  { intros en. split; [apply in_bounds_bool_grid|reflexivity]. }
  pose proof (avc_exact_models false st0 acts (grid_graph h w) st1) as EX.
  assert (Hfr : fresh_below (next_id st0) acts) by (rewrite Hn0; apply acts_fresh).
  assert (Hfc : fresh_below (next_id st0) (Program.cons st0)) by (intros a []).
  assert (Hcs : Program.cons st1 = cs) by (rewrite Hc; reflexivity).
  assert (Hsplit : forall en, model_of gsem_avc en st <->
                    (model_of gsem_avc en st1 /\ (forall j, j < k -> (0 <= ei en (next_id st1 + j) <= 2)%Z) /\
                     forallb (holds gsem_avc en) extra = true)).
  { intros en. unfold model_of, in_bounds, satisfies, st. cbn [vars Program.cons].
    rewrite forallb_app, in_bounds_from_app, in_bounds_from_app, in_bounds_from_bools, andb_true_r.
    rewrite !andb_true_iff. rewrite in_bounds_from_ints. cbn [Nat.add]. fold (next_id st1). tauto. }
  assert (Hreads : forall en, reads st en (seq 0 n) = map (fun i => b2z (eb en i)) (seq 0 n)).
  { intros en. eapply reads_bool_prefix. unfold st. cbn [vars]. rewrite Hv. unfold st0. cbn [vars bool_grid_state].
    rewrite <- !app_assoc. reflexivity. }
  split.
  - intros [en [Hm Hr]]. rewrite Hreads in Hr. subst ans.
    apply Hsplit in Hm. destruct Hm as [Hm1 [_ Hcl]].
    replace (Nat.eqb (length (map (fun i => b2z (eb en i)) (seq 0 n))) n) with true
      by (rewrite map_length, seq_length; symmetry; apply Nat.eqb_refl).
    replace (forallb is01 (map (fun i => b2z (eb en i)) (seq 0 n))) with true
      by (rewrite forallb_map; symmetry; apply forallb_forall; intros; apply is01_b2z).
    simpl andb. apply andb_true_iff. split.
    + unfold cells_connected, board.
      rewrite (connected_b_ext _ _ (pattern en acts) (grid_wf h w) (reading_act n en)).
      apply (connected_b_spec _ _ (grid_wf h w)).
      apply (EX en (grid_wf h w) Hfr Hfc (acts_def n en) (Hmod0 en) Hp).
      exists en. split; [|exact Hm1]. intros i _. split; reflexivity.
    + apply H1. exact Hcl.
  - intros Hr.
    apply andb_true_iff in Hr. destruct Hr as [Hr Hcl].
    apply andb_true_iff in Hr. destruct Hr as [Hr Hconn].
    apply andb_true_iff in Hr. destruct Hr as [Hlen H01]. apply Nat.eqb_eq in Hlen.
    set (en0 := env_of_answer ans).
    pose proof (answer_as_reading ans n Hlen H01) as Ha. fold en0 in Ha.
    assert (Hspec : spec_avc false (grid_graph h w) (pattern en0 acts)).
    { simpl. apply (connected_b_spec _ _ (grid_wf h w)).
      rewrite <- (connected_b_ext _ _ (pattern en0 acts) (grid_wf h w) (reading_act n en0)).
      rewrite Ha. exact Hconn. }
    apply (EX en0 (grid_wf h w) Hfr Hfc (acts_def n en0) (Hmod0 en0) Hp) in Hspec.
    destruct Hspec as [en1 [Hag Hm1]]. rewrite Hn0 in Hag.
    assert (Hsame : map (fun i => b2z (eb en1 i)) (seq 0 n) = ans).
    { rewrite <- Ha. apply map_ext_in. intros i Hi. apply in_seq in Hi.
      destruct (Hag i ltac:(lia)) as [E _]. rewrite E. reflexivity. }
    rewrite <- Hsame in Hcl. destruct (H2 en1 Hcl) as [en2 [Hag2 [Hb2 Hx2]]].
    assert (Hsame2 : map (fun i => b2z (eb en2 i)) (seq 0 n) = ans).
    { rewrite <- Hsame. apply map_ext_in. intros i Hi. apply in_seq in Hi.
      destruct (Hag2 i ltac:(lia)) as [E _]. rewrite E. reflexivity. }
    exists en2. split; [|rewrite Hreads; exact Hsame2].
    apply Hsplit. split; [|split; [exact Hb2|exact Hx2]].
    destruct Hm1 as [Hb1 Hs1]. split.
    + unfold in_bounds. rewrite <- (in_bounds_from_agree en1 en2 (vars st1) 0); [exact Hb1|].
      intros j Hj. simpl. apply Hag2. exact Hj.
    + unfold satisfies in *. rewrite Hcs in *.
      rewrite (Hev en2 (acts_def n en2)). rewrite (Hev en1 (acts_def n en1)) in Hs1. rewrite <- Hs1.
      apply cert_avc_ext_below; [apply grid_wf| | |]; rewrite ?Hnv, ?Hn0; intros v Hv'.
      * symmetry. apply (pattern_agree n en1 en2 acts); [|apply acts_fresh].
        intros i Hi. apply Hag2. lia.
      * symmetry. apply Hag2. lia.
      * symmetry. apply Hag2. lia.
Qed.

(* ------------------------------------------------------------------ the local predicates only look at the board *)
Section Ext.
  Variables (h w : nat) (region : list Z) (k : nat) (lit1 lit2 : nat * nat -> bool).
  Hypothesis E : forall y x, y < h -> x < w -> lit1 (y, x) = lit2 (y, x).

  Lemma blackset_ext i : blackset h w region lit1 i = blackset h w region lit2 i.
  Proof.
    unfold blackset. apply filter_ext_in. intros [y x] Hc. apply cells_in in Hc. rewrite (E y x) by tauto. reflexivity.
  Qed.
  Lemma shapeR_ext i : shapeR h w region lit1 i = shapeR h w region lit2 i.
  Proof. rewrite !shapeR_B, blackset_ext. reflexivity. Qed.

  Lemma rules_local_ext : rules_local h w region k lit1 = rules_local h w region k lit2.
  Proof.
    unfold rules_local. apply (f_equal2 andb); [apply (f_equal2 andb)|].
    - apply ModelLemmas.forallb_ext_in. intros i _. rewrite shapeR_ext. reflexivity.
    - apply (f_equal negb). unfold has_2x2. apply existsb_ext_in. intros [y x] Hc. apply cells_in in Hc.
      rewrite !E by lia. reflexivity.
    - apply ModelLemmas.forallb_ext_in. intros [y x] Hc. apply cells_in in Hc. destruct Hc as [Hy Hx].
      apply ModelLemmas.forallb_ext_in. intros [y' x'] Hn. pose proof (nbr4_in h w y x y' x' Hy Hx Hn) as [Hy' Hx'].
      rewrite !shapeR_ext, (E y x Hy Hx), (E y' x' Hy' Hx'). reflexivity.
  Qed.

  Lemma lits_sem_ext nsv htv : lits_sem h w region k lit1 nsv htv = lits_sem h w region k lit2 nsv htv.
  Proof.
    unfold lits_sem. apply (f_equal2 andb); [apply (f_equal2 andb)|].
    - apply ModelLemmas.forallb_ext_in. intros [y x] Hc. apply cells_in in Hc. unfold no2_sem.
      rewrite !E by lia. reflexivity.
    - apply ModelLemmas.forallb_ext_in. intros i _. rewrite !blk_sem_abs. unfold blk_abs. rewrite blackset_ext. reflexivity.
    - apply ModelLemmas.forallb_ext_in. intros [y x] Hc. apply cells_in in Hc. destruct Hc as [Hy Hx]. unfold border_sem.
      rewrite (E y x Hy Hx). apply (f_equal2 andb).
      + destruct (Nat.ltb_spec (S y) h) as [L|L]; [|reflexivity]. rewrite (E (S y) x L Hx). reflexivity.
      + destruct (Nat.ltb_spec (S x) w) as [L|L]; [|reflexivity]. rewrite (E y (S x) Hy L). reflexivity.
  Qed.
End Ext.

(* ------------------------------------------------------------------ the problem encoding *)
Lemma fold_max_ge l z : In z l -> (z <= fold_right Z.max (-1) l)%Z.
Proof. induction l as [|a r IH]; simpl; [tauto|]. intros [->|H]; [lia|]. specialize (IH H). lia. Qed.

Lemma region_ok h w region :
  forallb (fun z => (0 <=? z)%Z) region = true -> h * w <= length region ->
  forall y x, y < h -> x < w -> (0 <= at2 region w y x)%Z /\ zn (at2 region w y x) < n_regions region.
Proof.
  intros H0 Hl y x Hy Hx. unfold at2, getz.
  assert (Hi : y * w + x < length region) by (pose proof (cidx_lt h w y x Hy Hx) as C; unfold cidx in C; simpl in C; lia).
  pose proof (nth_In region 0%Z Hi) as Hin. set (z := nth (y * w + x) region 0%Z) in *.
  rewrite forallb_forall in H0. specialize (H0 z Hin). apply Z.leb_le in H0.
  pose proof (fold_max_ge region z Hin). unfold n_regions, zn. split; [exact H0|]. lia.
Qed.

Lemma lits_reassoc (a b c d e f : bool) : a && b && c && d && e && f = a && b && f && (c && d && e).
Proof. destruct a, b, c, d, e, f; reflexivity. Qed.

Lemma rules_lits_split h w region ans :
  rules_lits [[Z.of_nat h; Z.of_nat w]; region] ans =
  Nat.eqb (length ans) (h * w) && forallb is01 ans && cells_connected h w (fun v => isb (getz ans v)) &&
  rules_local h w region (n_regions region) (fun c => isb (at2 ans w (fst c) (snd c))).
Proof.
  unfold rules_lits, rules_local, shapeR.
  destruct (dims2h h w [region]) as [-> ->].
  change (sec [[Z.of_nat h; Z.of_nat w]; region] 1) with region.
  rewrite lits_reassoc. reflexivity.
Qed.

Section Core.
  Variables (h w : nat) (en : env).
  Let ans := map (fun i => b2z (eb en i)) (seq 0 (h * w)).
  Lemma lits_black_lit y x : y < h -> x < w ->
    (fun c : nat * nat => isb (at2 ans w (fst c) (snd c))) (y, x) = (fun c => eb en (cidx w c)) (y, x).
  Proof.
    intros Hy Hx. cbn beta. cbn [fst snd]. unfold at2, ans.
    rewrite getz_map_seq by (apply (cidx_lt h w y x); assumption). apply b2z_isb.
  Qed.
End Core.

Theorem lits_exact h w region st ans :
  solve_lits_model [[Z.of_nat h; Z.of_nat w]; region] = Ok st ->
  ((exists en, model_of gsem_avc en st /\ reads st en (seq 0 (h * w)) = ans)
   <-> rules_lits [[Z.of_nat h; Z.of_nat w]; region] ans = true).
Proof.
  unfold solve_lits_model. destruct (dims2h h w [region]) as [-> ->].
  change (sec [[Z.of_nat h; Z.of_nat w]; region] 1) with region.
  destruct (negb (forallb (fun z => (0 <=? z)%Z) region) || Nat.ltb (length region) (h * w)) eqn:G; [discriminate|].
  apply orb_false_iff in G. destruct G as [G1 G2]. apply negb_false_iff in G1. apply Nat.ltb_ge in G2.
  pose proof (region_ok h w region G1 G2) as Hreg.
  destruct (post_avc (bool_grid_state (h * w) []) (map BVar (seq 0 (h * w))) (grid_graph h w) false false)
    as [st1|e] eqn:Hp; [|discriminate].
  intros H. inversion H; subst st; clear H.
  rewrite rules_lits_split. set (k := n_regions region).
  apply (lits_compose h w k (lits_constraints h w region k (next_id st1))
           (fun a => rules_local h w region k (fun c => isb (at2 a w (fst c) (snd c)))) st1 ans Hp).
  - (* every model obeys the rules *)
    intros en Hx. rewrite (lits_constraints_sem gsem_avc en h w region k (next_id st1)) in Hx.
    rewrite (rules_local_ext h w region k _ (fun c => eb en (cidx w c)) (lits_black_lit h w en)).
    apply (lits_local h w region k _ Hreg).
    exists (fun i => ei en (next_id st1 + i)), (fun i => eb en (next_id st1 + k + i)). split; [|exact Hx].
    (* the bounds are not needed in this direction *)
    intros i Hi.
    (* they follow from the room constraints anyway *)
    unfold lits_sem in Hx. apply andb_true_iff in Hx. destruct Hx as [Hx _]. apply andb_true_iff in Hx. destruct Hx as [_ HK].
    rewrite forallb_forall in HK. specialize (HK i ltac:(apply in_seq; lia)). rewrite blk_sem_abs in HK.
    destruct (shape_of_room h w region _ i _ _ HK) as [s [_ [_ [Ns _]]]]. rewrite Ns. pose proof (ns_of_le s). lia.
  - (* every rule-obeying grid extends to a model *)
    intros en Hl.
    rewrite (rules_local_ext h w region k _ (fun c => eb en (cidx w c)) (lits_black_lit h w en)) in Hl.
    apply (lits_local h w region k _ Hreg) in Hl. destruct Hl as [nsv [htv [Hb Hs]]].
    set (base := next_id st1) in *.
    set (en' := {| eb := fun i => if Nat.ltb i base then eb en i else htv (i - (base + k));
                   ei := fun i => if Nat.ltb i base then ei en i else nsv (i - base) |}).
    exists en'. split; [|split].
    + intros i Hi. unfold en'. cbn [eb ei]. destruct (Nat.ltb_spec i base); [split; reflexivity|lia].
    + intros j Hj. unfold en'. cbn [ei]. destruct (Nat.ltb_spec (base + j) base); [lia|].
      replace (base + j - base) with j by lia. apply Hb. exact Hj.
    + rewrite (lits_constraints_sem gsem_avc en' h w region k base).
      assert (Hbase : h * w <= base).
      { unfold base, next_id. destruct (AvcSem.avc_eval _ _ _ _ _ Hp) as [Hv _]. rewrite Hv, app_length.
        cbn [vars bool_grid_state]. rewrite repeat_length. lia. }
      rewrite (lits_sem_ext h w region k (fun c => eb en' (cidx w c)) (fun c => eb en (cidx w c))).
      2:{ intros y x Hy Hx. unfold en'. cbn [eb]. pose proof (cidx_lt h w y x Hy Hx).
          destruct (Nat.ltb_spec (cidx w (y, x)) base); [reflexivity|lia]. }
      rewrite <- Hs. unfold lits_sem. apply (f_equal2 andb); [apply (f_equal2 andb)|].
      * reflexivity.
      * apply ModelLemmas.forallb_ext_in. intros i _. unfold blk_sem. unfold en'. cbn [eb ei].
        destruct (Nat.ltb_spec (base + i) base); [lia|]. destruct (Nat.ltb_spec (base + k + i) base); [lia|].
        replace (base + i - base) with i by lia. replace (base + k + i - (base + k)) with i by lia. reflexivity.
      * apply ModelLemmas.forallb_ext_in. intros [y x] _. unfold border_sem, differ_sem. unfold en'. cbn [eb ei].
        repeat match goal with |- context [Nat.ltb (base + ?a) base] => destruct (Nat.ltb_spec (base + a) base); [lia|] end.
        repeat match goal with |- context [Nat.ltb (base + k + ?a) base] => destruct (Nat.ltb_spec (base + k + a) base); [lia|] end.
        repeat match goal with |- context [base + ?a - base] => replace (base + a - base) with a by lia end.
        repeat match goal with |- context [base + k + ?a - (base + k)] => replace (base + k + a - (base + k)) with a by lia end.
        reflexivity.
Qed.

Example lits_model_ok :
  exists st, solve_lits_model [[2; 3]; [0; 1; 1; 1; 1; 1]]%Z = Ok st.
Proof. vm_compute. eexists. reflexivity. Qed.

(* the theorem is not vacuous: a 1x4 board with one room has a model, and the rules accept the all-black grid *)
Example lits_rules_ok : rules_lits [[1; 4]; [0; 0; 0; 0]]%Z [1; 1; 1; 1]%Z = true.
Proof. vm_compute. reflexivity. Qed.
