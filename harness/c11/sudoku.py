"""C11 plug-in: sudoku (solve_sudoku(problem, n))."""
import c11lib as L

NAME = "sudoku"
MODULE = "cspuz.puzzle.sudoku"
FUNC = "solve_sudoku"
MAX_ANSWERS = 400000
T2_PER_FILE = 1
TIER1 = ("Sudoku", "solve_sudoku_model")


def call(mod, pb):
    return mod.solve_sudoku(pb["grid"], n=pb["n"])


def ncand(pb):
    import math
    return math.factorial(pb['n'] ** 2) ** (pb['n'] ** 2)


def encode(pb):
    return [[pb["n"]], L.flat(pb["grid"])]


def _n2_grids(rng, k):
    """4x4 problems: clue sets cut out of valid grids (satisfiable, from empty to full),
    and random clue grids (mostly contradictory or loose), values 0..5 incl. out-of-range givens"""
    base = [[1, 2, 3, 4], [3, 4, 1, 2], [2, 1, 4, 3], [4, 3, 2, 1]]
    out = [[[0] * 4 for _ in range(4)]]
    for _ in range(k):
        perm = [1, 2, 3, 4]
        rng.shuffle(perm)
        g = [[perm[v - 1] for v in row] for row in base]
        if rng.random() < 0.5:
            g = [list(r) for r in zip(*g)]
        keep = rng.choice([0.1, 0.25, 0.4, 0.7, 1.0])
        g = [[v if rng.random() < keep else 0 for v in row] for row in g]
        if rng.random() < 0.4:
            y, x = rng.randrange(4), rng.randrange(4)
            g[y][x] = rng.choice([-1, 0, 1, 2, 3, 4, 5])
        out.append(g)
    return out


def families(tier, rng):
    for v in (-1, 0, 1, 2):
        yield {"n": 1, "grid": [[v]]}
    for g in _n2_grids(rng, 60 if tier == "thorough" else 10):
        yield {"n": 2, "grid": g}


def tier2(tier, rng):
    for v in (-1, 0, 1, 2):
        yield {"n": 1, "grid": [[v]]}
    if tier == "thorough":
        for g in _n2_grids(rng, 3):
            yield {"n": 2, "grid": g}


def tier1_problems(tier, rng):
    """program-capture tie: all sizes the model covers, clue values around every boundary"""
    th = tier == "thorough"
    yield {"n": 0, "grid": []}
    for n in (1, 2, 3, 4) + ((5,) if th else ()):
        size = n * n
        vals = [-1, 0, 0, 0, 1, 2, size - 1, size, size + 1]
        yield {"n": n, "grid": [[0] * size for _ in range(size)]}
        yield {"n": n, "grid": [[((x + y) % size) + 1 for x in range(size)] for y in range(size)]}
        for _ in range((40 if th else 8) if n <= 3 else 3):
            yield {"n": n, "grid": [[rng.choice(vals) for _ in range(size)] for _ in range(size)]}
