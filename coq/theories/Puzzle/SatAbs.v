(* C11 Tier 2 - a small executable decision procedure for captured programs:
     sat_abs st kids order ans = true
       <->  some assignment of ALL variables of the program st respects the
            declared domains, satisfies every posted constraint, and gives the
            answer variables kids (in this order) the values ans.
   It enumerates the finite domains of the non-answer variables (in the
   order [order], then whatever is left, by id) with early pruning: after each
   choice the constraints mentioning the chosen variable are evaluated in
   three-valued logic, and the branch is dropped when one is already false.
   The leaf test is the real [satisfies]/[in_bounds] of Core/Program.v.
   No proofs here (see SatAbsProofs.v). *)
From Coq Require Import ZArith List Bool Arith.
From Cspuz Require Import Core.Expr Core.Program Graph.GraphModel Puzzle.PuzzleBase.
Import ListNotations.
Open Scope Z_scope.

(* partial assignment, indexed by variable id; a bool is stored as 1 / 0 *)
Definition penv := list (option Z).
Definition plook (pe : penv) (i : nat) : option Z := nth i pe None.
Definition pset (pe : penv) (i : nat) (z : Z) : penv := set_nth pe i (Some z).

Definition env_of (pe : penv) : env :=
  {| eb := fun i => match plook pe i with Some z => z =? 1 | None => false end;
     ei := fun i => match plook pe i with Some z => z | None => 0 end |}.

Definition is_vfalse (v : option value) : bool := match v with Some (VB false) => true | _ => false end.
Definition is_vtrue (v : option value) : bool := match v with Some (VB true) => true | _ => false end.

(* three-valued evaluation: None = not yet determined (or ill-typed) *)
Fixpoint peval (pe : penv) (e : expr) : option value :=
  match e with
  | PyBool b => Some (VB b)
  | PyInt z => Some (VI z)
  | PyNone => None
  | BVar i => option_map (fun z => VB (z =? 1)) (plook pe i)
  | IVar i _ _ => option_map VI (plook pe i)
  | BNode o args =>
      let vs := map (peval pe) args in
      match o with
      | AND => if existsb is_vfalse vs then Some (VB false) else eval_bop no_graph AND vs
      | OR => if existsb is_vtrue vs then Some (VB true) else eval_bop no_graph OR vs
      | IMP => match vs with
               | [a; b] => if is_vfalse a || is_vtrue b then Some (VB true) else eval_bop no_graph IMP vs
               | _ => None
               end
      | _ => eval_bop no_graph o vs
      end
  | INode o args => eval_iop o (map (peval pe) args)
  end.

Fixpoint mentions (i : nat) (e : expr) : bool :=
  match e with
  | BVar j | IVar j _ _ => Nat.eqb i j
  | BNode _ args | INode _ args => existsb (mentions i) args
  | _ => false
  end.

(* vm_compute and the extracted code are call-by-value: [a && b] and
   [existsb]/[forallb] would evaluate everything; these variants stop early
   (they are equal to the standard ones, SatAbsProofs.v) *)
Notation "a &&& b" := (if a then b else false) (at level 40, left associativity).
Fixpoint exists_lazy {A} (f : A -> bool) (l : list A) : bool :=
  match l with [] => false | a :: r => if f a then true else exists_lazy f r end.
Fixpoint forall_lazy {A} (f : A -> bool) (l : list A) : bool :=
  match l with [] => true | a :: r => if f a then forall_lazy f r else false end.

Definition prune_ok (cs : list expr) (pe : penv) : bool :=
  forall_lazy (fun c => negb (is_vfalse (peval pe c))) cs.

Definition dom_of (d : vdecl) : list Z :=
  match d with DBool => [0; 1] | DInt lo hi => zrange lo hi end.

(* value of the answer variables under a total assignment *)
Definition read_var (st : state) (en : env) (i : nat) : Z :=
  match nth_error (vars st) i with
  | Some DBool => b2z (eb en i)
  | Some (DInt _ _) => ei en i
  | None => 0
  end.
Definition reads (st : state) (en : env) (kids : list nat) : list Z := map (read_var st en) kids.

Fixpoint zlist_eqb (a b : list Z) : bool :=
  match a, b with
  | [], [] => true
  | x :: r, y :: s => (x =? y) && zlist_eqb r s
  | _, _ => false
  end.

Definition step := (nat * list Z * list expr)%type.   (* variable, its domain, constraints watching it *)

Definition plan_of (st : state) (order : list nat) : list step :=
  flat_map (fun v => match nth_error (vars st) v with
                     | Some d => [(v, dom_of d, filter (mentions v) (cons st))]
                     | None => []
                     end) order.

Section Search.
  Variable leaf : penv -> bool.
  Fixpoint search (plan : list step) (pe : penv) : bool :=
    match plan with
    | [] => leaf pe
    | (v, dom, cs) :: r =>
        exists_lazy (fun z => let pe' := pset pe v z in prune_ok cs pe' &&& search r pe') dom
    end.
End Search.

Definition leaf_ok (st : state) (kids : list nat) (ans : list Z) (pe : penv) : bool :=
  let en := env_of pe in
  in_bounds en st &&& forall_lazy (holds no_graph en) (cons st) &&& zlist_eqb (reads st en kids) ans.

Definition full_order (st : state) (kids order : list nat) : list nat :=
  order ++ filter (fun i => negb (mem i kids) && negb (mem i order)) (seq 0 (length (vars st))).

Definition init_penv (n : nat) (kids : list nat) (ans : list Z) : penv :=
  fold_left (fun pe '(i, z) => pset pe i z) (combine kids ans) (repeat None n).

Definition sat_abs_plan (st : state) (kids : list nat) (plan : list step) (ans : list Z) : bool :=
  let pe0 := init_penv (length (vars st)) kids ans in
  Nat.eqb (length kids) (length ans) &&& prune_ok (cons st) pe0 &&&
  search (leaf_ok st kids ans) plan pe0.

Definition sat_abs (st : state) (kids order : list nat) (ans : list Z) : bool :=
  sat_abs_plan st kids (plan_of st (full_order st kids order)) ans.

(* every variable occurrence in a constraint matches its declaration (Program.refs_ok),
   answer ids are declared *)
Definition wf_prog (st : state) (kids : list nat) : bool :=
  forallb (refs_ok (vars st)) (cons st) &&
  forallb (fun i => Nat.ltb i (length (vars st))) kids.

(* the per-instance Tier-2 obligation: on every candidate answer the captured
   program admits it exactly when the rule specification does *)
Definition tier2_ok (st : state) (kids order : list nat) (rules : answer -> bool)
           (answers : list answer) : bool :=
  wf_prog st kids &&
  let plan := plan_of st (full_order st kids order) in
  forallb (fun ans => Bool.eqb (sat_abs_plan st kids plan ans) (rules ans)) answers.
