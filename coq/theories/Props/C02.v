From Coq Require Import ZArith List.
From Cspuz Require Import Lib.PyErr Core.Expr Core.Program Backend.Z3 Backend.SolveLoop.
Import ListNotations.
Theorem scripted_unsat_first : forall vs ks fuel script,
  solve_scripted vs ks fuel (None :: script) = Ok (Unsat, {| sc_log := []; sc_script := None :: script |}).
Proof. reflexivity. Qed.
Print Assumptions scripted_unsat_first.
