(* C17: the Rooms decoder never fails with anything but ValueError: every index of the flood
   fill is in range, its work list empties within the fuel, every cell ends up in a room whose
   index is in range. *)
From Coq Require Import ZArith List Ascii Bool NArith Lia.
From Cspuz Require Import Lib.PyErr Codec.Comb Codec.CombWf Codec.RoomsGrid Codec.TotalModel Codec.TotalLeaf.
Import ListNotations.
Local Open Scope Z_scope.

(* ------------------------------------------------------------------ counting the unassigned cells of a grid *)
Definition cnt (row : list Z) : nat := count_occ Z.eq_dec row (-1).
Definition unassigned_n (g : list (list Z)) : nat := list_sum (map cnt g).

Lemma cnt_le row : (cnt row <= length row)%nat.
Proof. unfold cnt. induction row as [|a row IH]; simpl; [lia|]. destruct (Z.eq_dec a (-1)); lia. Qed.

Lemma unassigned_bound H W g : wfg H W g -> (unassigned_n g <= H * W)%nat.
Proof.
  intros [Hl Hr]. subst H. unfold unassigned_n. induction Hr as [|r g Hr1 Hr IH]; simpl; [lia|].
  pose proof (cnt_le r). lia.
Qed.

Lemma cnt_set_nth v : v <> -1 -> forall row x, nth_error row x = Some (-1) ->
  (cnt (set_nth row x v) + 1 = cnt row)%nat.
Proof.
  intros Hv. unfold cnt. induction row as [|a row IH]; intros [|x] Hx; simpl in *; try discriminate.
  - inversion Hx; subst. destruct (Z.eq_dec v (-1)); [contradiction|]. destruct (Z.eq_dec (-1) (-1)); lia.
  - specialize (IH x Hx). destruct (Z.eq_dec a (-1)); lia.
Qed.

Lemma sum_set_nth (f : list Z -> nat) : forall g y r r', nth_error g y = Some r -> (f r' + 1 = f r)%nat ->
  (list_sum (map f (set_nth g y r')) + 1 = list_sum (map f g))%nat.
Proof.
  induction g as [|a g IH]; intros [|y] r r' Hy Hf; simpl in *; try discriminate.
  - inversion Hy; subst. lia.
  - specialize (IH y r r' Hy Hf). lia.
Qed.

Lemma grid_get_inv g y x v : grid_get g y x = Ok v ->
  exists row, nth_error g y = Some row /\ nth_error row x = Some v.
Proof.
  unfold grid_get, nth_res. destruct (nth_error g y) as [row|]; [|discriminate].
  destruct (nth_error row x) as [v'|] eqn:E; [|discriminate]. intros H. inversion H; subst. eauto.
Qed.

Lemma unassigned_set g y x v : grid_get g y x = Ok (-1) -> v <> -1 ->
  (unassigned_n (grid_set g y x v) + 1 = unassigned_n g)%nat.
Proof.
  intros Hg Hv. destruct (grid_get_inv g y x (-1) Hg) as (row & E1 & E2).
  unfold grid_set, unassigned_n. rewrite E1. apply sum_set_nth with (r := row); auto.
  apply cnt_set_nth; auto.
Qed.

(* ------------------------------------------------------------------ one direction of the fill *)
Definition dpush (cond : bool) (flag : Z) (nb : nat * nat) (st : list (nat * nat)) : list (nat * nat) :=
  if cond then (if flag =? 0 then nb :: st else st) else st.

Lemma dpush_eq (cond : bool) g yy xx flag nb st :
  (cond = true -> grid_get g yy xx = Ok flag) ->
  (if cond then match grid_get g yy xx with
                | Err e => Err e
                | Ok b => Ok (if b =? 0 then nb :: st else st)
                end
   else Ok st) = Ok (dpush cond flag nb st).
Proof. intros Hg. unfold dpush. destruct cond; auto. rewrite (Hg eq_refl). reflexivity. Qed.

Lemma dpush_length cond flag nb st : (length (dpush cond flag nb st) <= S (length st))%nat.
Proof. unfold dpush. destruct cond; [destruct (flag =? 0)|]; simpl; lia. Qed.

Lemma dpush_incl cond flag nb st c : In c st -> In c (dpush cond flag nb st).
Proof. unfold dpush. destruct cond; [destruct (flag =? 0)|]; simpl; auto. Qed.

Lemma dpush_forall (P : nat * nat -> Prop) cond flag nb st :
  (cond = true -> P nb) -> Forall P st -> Forall P (dpush cond flag nb st).
Proof. unfold dpush. intros Hn Hs. destruct cond; auto. destruct (flag =? 0); auto. Qed.

Ltac split5 := refine (conj _ (conj _ (conj _ (conj _ _)))).
Ltac split6 := refine (conj _ (conj _ (conj _ (conj _ (conj _ _))))).

Section Fill.
  Variables (H W : nat).
  Variables (vg hg : list (list Z)).
  Hypothesis Hvg : wfg H (W - 1) vg.
  Hypothesis Hhg : wfg (H - 1) W hg.

  Definition inb (c : nat * nat) : Prop := (fst c < H)%nat /\ (snd c < W)%nat.
  Definition getc (g : list (list Z)) (c : nat * nat) : res Z := grid_get g (fst c) (snd c).
  Definition flag_of (g : list (list Z)) (y x : nat) : Z := match grid_get g y x with Ok b => b | Err _ => 0 end.

  Lemma flag_of_eq HH WW g y x : wfg HH WW g -> (y < HH)%nat -> (x < WW)%nat -> grid_get g y x = Ok (flag_of g y x).
  Proof. intros Hw Hy Hx. unfold flag_of. destruct (grid_get_in HH WW g y x Hw Hy Hx) as [v ->]. reflexivity. Qed.

  Definition pushes (y x : nat) (st : list (nat * nat)) : list (nat * nat) :=
    dpush (Z.of_nat x <? Z.of_nat W - 1) (flag_of vg y x) (y, (x + 1)%nat)
      (dpush (0 <? Z.of_nat x) (flag_of vg y (x - 1)) (y, (x - 1)%nat)
         (dpush (Z.of_nat y <? Z.of_nat H - 1) (flag_of hg y x) ((y + 1)%nat, x)
            (dpush (0 <? Z.of_nat y) (flag_of hg (y - 1) x) ((y - 1)%nat, x) st))).

  Lemma fill_loop_unfold f g y x st id : inb (y, x) ->
    fill_loop (S f) (Z.of_nat H) (Z.of_nat W) vg hg g ((y, x) :: st) id =
    match grid_get g y x with
    | Err e => Err e
    | Ok v => if negb (v =? -1) then fill_loop f (Z.of_nat H) (Z.of_nat W) vg hg g st id
              else fill_loop f (Z.of_nat H) (Z.of_nat W) vg hg (grid_set g y x id) (pushes y x st) id
    end.
  Proof.
    intros [Hy Hx]. simpl in Hy, Hx. cbn [fill_loop]. destruct (grid_get g y x) as [v|]; auto.
    destruct (negb (v =? -1)); auto.
    rewrite (dpush_eq (0 <? Z.of_nat y) hg (y - 1) x (flag_of hg (y - 1) x)).
    2:{ intros Hc. apply Z.ltb_lt in Hc. apply (flag_of_eq (H - 1) W); auto; lia. }
    rewrite (dpush_eq (Z.of_nat y <? Z.of_nat H - 1) hg y x (flag_of hg y x)).
    2:{ intros Hc. apply Z.ltb_lt in Hc. apply (flag_of_eq (H - 1) W); auto; lia. }
    rewrite (dpush_eq (0 <? Z.of_nat x) vg y (x - 1) (flag_of vg y (x - 1))).
    2:{ intros Hc. apply Z.ltb_lt in Hc. apply (flag_of_eq H (W - 1)); auto; lia. }
    rewrite (dpush_eq (Z.of_nat x <? Z.of_nat W - 1) vg y x (flag_of vg y x)).
    2:{ intros Hc. apply Z.ltb_lt in Hc. apply (flag_of_eq H (W - 1)); auto; lia. }
    reflexivity.
  Qed.

  Lemma pushes_length y x st : (length (pushes y x st) <= length st + 4)%nat.
  Proof.
    unfold pushes.
    match goal with |- (length (dpush ?c4 ?f4 ?n4 (dpush ?c3 ?f3 ?n3 (dpush ?c2 ?f2 ?n2 (dpush ?c1 ?f1 ?n1 st)))) <= _)%nat =>
      pose proof (dpush_length c1 f1 n1 st);
      pose proof (dpush_length c2 f2 n2 (dpush c1 f1 n1 st));
      pose proof (dpush_length c3 f3 n3 (dpush c2 f2 n2 (dpush c1 f1 n1 st)));
      pose proof (dpush_length c4 f4 n4 (dpush c3 f3 n3 (dpush c2 f2 n2 (dpush c1 f1 n1 st))))
    end. lia.
  Qed.

  Lemma pushes_incl y x st c : In c st -> In c (pushes y x st).
  Proof. intros Hc. unfold pushes. repeat apply dpush_incl. exact Hc. Qed.

  Lemma pushes_inb y x st : inb (y, x) -> Forall inb st -> Forall inb (pushes y x st).
  Proof.
    intros [Hy Hx] Hs. simpl in Hy, Hx. unfold pushes.
    repeat apply dpush_forall; auto; intros Hc; apply Z.ltb_lt in Hc; split; simpl; lia.
  Qed.

  (* the fill: every index in range, the work list empties within the fuel *)
  Lemma fill_loop_ok id : id <> -1 -> forall fuel g st,
    wfg H W g -> Forall inb st -> (length st + 4 * unassigned_n g < fuel)%nat ->
    exists g', fill_loop fuel (Z.of_nat H) (Z.of_nat W) vg hg g st id = Ok g' /\ wfg H W g' /\
      (forall c v, inb c -> getc g c = Ok v -> v <> -1 -> getc g' c = Ok v) /\
      (forall c v, inb c -> getc g' c = Ok v -> getc g c = Ok v \/ v = id) /\
      (forall c, In c st -> getc g' c <> Ok (-1)).
  Proof.
    intros Hid. induction fuel as [|f IH]; intros g st Hw Hst Hm; [lia|].
    destruct st as [|[y x] st].
    { exists g. simpl. split5; auto; try (intros c []). }
    inversion Hst as [|? ? Hc Hst']; subst.
    rewrite (fill_loop_unfold f g y x st id Hc).
    destruct Hc as [Hy Hx]; simpl in Hy, Hx.
    destruct (grid_get_in H W g y x Hw Hy Hx) as [v Hv]. rewrite Hv.
    destruct (Z.eqb_spec v (-1)) as [Ev|Ev]; simpl.
    - subst v.
      assert (Hw1 : wfg H W (grid_set g y x id)) by (apply grid_set_wfg; auto).
      destruct (IH (grid_set g y x id) (pushes y x st) Hw1) as (g' & E & Hw' & Hb & Hc' & Hd).
      { apply pushes_inb; auto. split; auto. }
      { pose proof (pushes_length y x st). pose proof (unassigned_set g y x id Hv Hid). simpl in Hm. lia. }
      assert (Hsame : getc (grid_set g y x id) (y, x) = Ok id) by (apply (grid_get_set_same H W); auto).
      exists g'. split5; auto.
      + intros c v Hcb Hg Hne. apply Hb; auto.
        unfold getc. rewrite grid_get_set_other; auto.
        intros Eq. destruct c as [cy cx]. inversion Eq; subst. unfold getc in Hg. simpl in Hg. congruence.
      + intros c v Hcb Hg. destruct (Hc' c v Hcb Hg) as [Hg1|]; auto.
        destruct c as [cy cx]. destruct (Nat.eq_dec cy y) as [->|Ny]; [destruct (Nat.eq_dec cx x) as [->|Nx]|].
        * right. congruence.
        * left. unfold getc in *. simpl in *. rewrite grid_get_set_other in Hg1; auto. congruence.
        * left. unfold getc in *. simpl in *. rewrite grid_get_set_other in Hg1; auto. congruence.
      + intros c [Ec|Hin].
        * subst c. rewrite (Hb (y, x) id); auto; [congruence|split; auto].
        * apply Hd. apply pushes_incl. exact Hin.
    - destruct (IH g st Hw Hst') as (g' & E & Hw' & Hb & Hc' & Hd); [simpl in Hm; lia|].
      exists g'. split5; auto.
      intros c [Ec|Hin]; auto. subst c.
      rewrite (Hb (y, x) v); auto; [congruence|split; auto].
  Qed.

  (* values of a grid: unassigned or a room index below n *)
  Definition vals_lt (g : list (list Z)) (n : Z) : Prop :=
    forall c v, inb c -> getc g c = Ok v -> v = -1 \/ 0 <= v < n.

  Lemma fill_all_ok : forall cells g last_id,
    Forall inb cells -> wfg H W g -> 0 <= last_id -> vals_lt g last_id ->
    exists g' n', fill_all (Z.of_nat H) (Z.of_nat W) vg hg cells g last_id = Ok (g', n') /\
      wfg H W g' /\ last_id <= n' /\ vals_lt g' n' /\
      (forall c v, inb c -> getc g c = Ok v -> v <> -1 -> getc g' c = Ok v) /\
      (forall c, In c cells -> getc g' c <> Ok (-1)).
  Proof.
    induction cells as [|[y x] cells IH]; intros g last_id Hc Hw Hn Hv.
    { exists g, last_id. simpl. split6; auto; try lia; try (intros c []). }
    inversion Hc as [|? ? Hyx Hc']; subst. cbn [fill_all].
    destruct Hyx as [Hy Hx]; simpl in Hy, Hx.
    destruct (grid_get_in H W g y x Hw Hy Hx) as [v Hg]. rewrite Hg.
    destruct (Z.eqb_spec v (-1)) as [Ev|Ev].
    - subst v.
      destruct (fill_loop_ok last_id ltac:(lia) (fill_fuel (Z.of_nat H) (Z.of_nat W)) g [(y, x)] Hw) as (g1 & E1 & Hw1 & Hb1 & Hc1 & Hd1).
      { constructor; [split; auto|constructor]. }
      { pose proof (unassigned_bound H W g Hw). unfold fill_fuel. rewrite !Nat2Z.id. simpl length. lia. }
      rewrite E1.
      destruct (IH g1 (last_id + 1) Hc' Hw1 ltac:(lia)) as (g' & n' & E & Hw' & Hle & Hv' & Hb & Hd).
      { intros c v Hcb Hgc. destruct (Hc1 c v Hcb Hgc) as [Hg0| ->]; [|right; lia].
        destruct (Hv c v Hcb Hg0); [auto|right; lia]. }
      exists g', n'. split6; auto; try lia; try (intros c v Hcb Hgc Hne; apply Hb; auto; fail).
      intros c [Ec|Hin]; auto. subst c.
      destruct (grid_get_in H W g1 y x Hw1 Hy Hx) as [v1 Hg1].
      assert (v1 <> -1). { intros ->. apply (Hd1 (y, x)); [left; auto|exact Hg1]. }
      rewrite (Hb (y, x) v1); auto; [congruence|split; auto].
    - destruct (IH g last_id Hc' Hw Hn Hv) as (g' & n' & E & Hw' & Hle & Hv' & Hb & Hd).
      exists g', n'. split6; auto.
      intros c [Ec|Hin]; auto. subst c. rewrite (Hb (y, x) v); auto; [congruence|split; auto].
  Qed.

  Lemma redundant_ok g : wfg H W g -> forall cells, Forall inb cells ->
    safe (redundant_check (Z.of_nat H) (Z.of_nat W) vg hg g cells).
  Proof.
    intros Hw. induction cells as [|[y x] cells IH]; intros Hc; [exact I|].
    inversion Hc as [|? ? [Hy Hx] Hc']; subst; simpl in Hy, Hx. cbn [redundant_check].
    destruct (Z.ltb_spec (Z.of_nat y) (Z.of_nat H - 1)) as [L1|L1].
    - rewrite (flag_of_eq (H - 1) W hg y x) by (auto; lia).
      destruct (flag_of hg y x =? 0).
      + destruct (Z.ltb_spec (Z.of_nat x) (Z.of_nat W - 1)) as [L2|L2]; [|auto].
        rewrite (flag_of_eq H (W - 1) vg y x) by (auto; lia).
        destruct (flag_of vg y x =? 0); [auto|].
        destruct (grid_get_in H W g y x Hw Hy Hx) as [a ->].
        destruct (grid_get_in H W g y (x + 1) Hw Hy ltac:(lia)) as [a' ->].
        destruct (a =? a'); [reflexivity|auto].
      + destruct (grid_get_in H W g y x Hw Hy Hx) as [a ->].
        destruct (grid_get_in H W g (y + 1) x Hw ltac:(lia) Hx) as [a' ->].
        destruct (a =? a'); [reflexivity|].
        destruct (Z.ltb_spec (Z.of_nat x) (Z.of_nat W - 1)) as [L2|L2]; [|auto].
        rewrite (flag_of_eq H (W - 1) vg y x) by (auto; lia).
        destruct (flag_of vg y x =? 0); [auto|].
        destruct (grid_get_in H W g y (x + 1) Hw Hy ltac:(lia)) as [a'' ->].
        destruct (a =? a''); [reflexivity|auto].
    - destruct (Z.ltb_spec (Z.of_nat x) (Z.of_nat W - 1)) as [L2|L2]; [|auto].
      rewrite (flag_of_eq H (W - 1) vg y x) by (auto; lia).
      destruct (flag_of vg y x =? 0); [auto|].
      destruct (grid_get_in H W g y x Hw Hy Hx) as [a ->].
      destruct (grid_get_in H W g y (x + 1) Hw Hy ltac:(lia)) as [a' ->].
      destruct (a =? a'); [reflexivity|auto].
  Qed.

  Lemma collect_ok g n : wfg H W g ->
    (forall c v, inb c -> getc g c = Ok v -> 0 <= v < Z.of_nat n) ->
    forall cells rooms, Forall inb cells -> length rooms = n ->
    exists rooms', collect_rooms g cells rooms = Ok rooms' /\ length rooms' = n.
  Proof.
    intros Hw Hv. induction cells as [|[y x] cells IH]; intros rooms Hc Hl.
    { exists rooms. auto. }
    inversion Hc as [|? ? [Hy Hx] Hc']; subst; simpl in Hy, Hx. cbn [collect_rooms].
    destruct (grid_get_in H W g y x Hw Hy Hx) as [v Hg]. rewrite Hg.
    assert (Hr : 0 <= v < Z.of_nat (length rooms)) by (apply (Hv (y, x)); [split; auto|exact Hg]).
    destruct (Z.eqb_spec v (-1)); [lia|].
    unfold wrap_index.
    destruct (Z.leb_spec 0 v); [|lia]. destruct (Z.ltb_spec v (Z.of_nat (length rooms))); [|lia]. simpl.
    apply IH; auto. apply set_nth_length.
  Qed.
End Fill.

(* ------------------------------------------------------------------ after the borders have been read *)
Lemma cells_inb H W : Forall (inb H W) (cells_of (Z.of_nat H) (Z.of_nat W)).
Proof. apply Forall_forall. intros [y x] Hin. apply cells_of_in in Hin. exact Hin. Qed.

Lemma neg_grid_wfg H W : wfg H W (neg_grid (Z.of_nat H) (Z.of_nat W)).
Proof. rewrite neg_grid_mk. apply mk_grid_wfg. Qed.

Lemma rooms_of_borders_ok H W allow vg hg : wfg H (W - 1) vg -> wfg (H - 1) W hg ->
  safe (rooms_of_borders (Z.of_nat H) (Z.of_nat W) allow vg hg) /\
  forall v, rooms_of_borders (Z.of_nat H) (Z.of_nat W) allow vg hg = Ok v -> exists rs, v = VList (map VList rs).
Proof.
  intros Hv Hh. unfold rooms_of_borders.
  destruct (fill_all_ok H W vg hg Hv Hh (cells_of (Z.of_nat H) (Z.of_nat W)) (neg_grid (Z.of_nat H) (Z.of_nat W)) 0)
    as (g & n & E & Hw & Hn & Hvals & _ & Hd).
  { apply cells_inb. } { apply neg_grid_wfg. } { lia. }
  { intros c v [Hy Hx] Hg. left. unfold getc in Hg. rewrite neg_grid_mk, mk_grid_get in Hg by auto. congruence. }
  rewrite E.
  assert (Hred : safe (if allow then Ok tt else redundant_check (Z.of_nat H) (Z.of_nat W) vg hg g (cells_of (Z.of_nat H) (Z.of_nat W)))).
  { destruct allow; [exact I|]. apply redundant_ok; auto. apply cells_inb. }
  destruct (if allow then Ok tt else redundant_check (Z.of_nat H) (Z.of_nat W) vg hg g (cells_of (Z.of_nat H) (Z.of_nat W))) as [u|err].
  2:{ split; [exact Hred|discriminate]. }
  destruct (collect_ok H W g (Z.to_nat n) Hw) with (cells := cells_of (Z.of_nat H) (Z.of_nat W)) (rooms := repeat (@nil pv) (Z.to_nat n))
    as (rooms' & Ec & _).
  { intros c v Hc Hg. destruct (Hvals c v Hc Hg) as [->|Hr]; [|lia].
    exfalso. apply (Hd c); [|exact Hg]. destruct c as [y x]. apply cells_of_in. exact Hc. }
  { apply cells_inb. } { apply repeat_length. }
  rewrite Ec. split; [exact I|]. intros v Hv'. inversion Hv'; subst. eauto.
Qed.

(* ------------------------------------------------------------------ the decoded border bitmaps *)
Definition isint (v : pv) : Prop := is_int v = true.

Lemma mapM_ints : forall cells, Forall isint cells ->
  exists zs, mapM (fun c => match c with VInt z => Ok z | _ => Err TypeError end) cells = Ok zs /\ length zs = length cells.
Proof.
  induction cells as [|c cells IH]; intros Hc; [exists []; auto|].
  inversion Hc as [|? ? Hi Hc']; subst. destruct c; try discriminate.
  destruct (IH Hc') as (zs & E & Hl). exists (z :: zs). simpl. rewrite E. simpl. auto.
Qed.

Lemma as_int_grid_rows W : forall H d2, Forall isint d2 -> length d2 = (H * W)%nat ->
  exists g, as_int_grid (VList (grid_rows d2 H W)) = Ok g /\ wfg H W g.
Proof.
  unfold as_int_grid. induction H as [|H IH]; intros d2 Hi Hl.
  { exists []. simpl. split; auto. split; auto. }
  cbn [grid_rows mapM].
  destruct (mapM_ints (firstn W d2)) as (zs & E & Hz). { apply Forall_firstn; auto. }
  rewrite E. simpl bind.
  destruct (IH (skipn W d2)) as (g & Eg & Hg1 & Hg2).
  { clear -Hi. revert d2 Hi. induction W; intros [|x d2] Hi; simpl; auto. inversion Hi; subst. auto. }
  { rewrite skipn_length. lia. }
  rewrite Eg. simpl. exists (zs :: g). split; auto. split; simpl; [lia|].
  constructor; auto. rewrite Hz, firstn_length. lia.
Qed.

(* ------------------------------------------------------------------ Rooms.deserialize *)
Lemma rooms_raw_good e allow s :
  safe (rooms_de_raw e allow s) /\
  forall k l, rooms_de_raw e allow s = Ok (Some (k, l)) ->
    (k <= length s)%nat /\ exists rs, l = [VList (map VList rs)].
Proof.
  unfold rooms_de_raw. cbv zeta.
  destruct (Z.leb_spec (height e) 0) as [Hh|Hh]; simpl orb; [split; [reflexivity|discriminate]|].
  destruct (Z.leb_spec (width e) 0) as [Hw|Hw]; simpl orb; [split; [reflexivity|discriminate]|].
  pose proof (grid_de_good (md_de 2 5) false isint e (Some (height e, width e - 1)) (md_good 2 5)) as G1.
  pose proof (grid_de_good (md_de 2 5) false isint e (Some (height e - 1, width e)) (md_good 2 5)) as G2.
  simpl fst in *; simpl snd in *.
  specialize (G1 ltac:(nia) s). destruct G1 as [S1 R1].
  destruct (grid_de (md_de 2 5) e (Some (height e, width e - 1)) s) as [[[n1 v1]|]|] eqn:E1.
  2:{ split; [reflexivity|discriminate]. }
  2:{ split; [exact S1|discriminate]. }
  destruct (R1 n1 v1 eq_refl) as (B1 & d1 & -> & L1 & I1).
  specialize (G2 ltac:(nia) (skipn n1 s)). destruct G2 as [S2 R2].
  destruct (grid_de (md_de 2 5) e (Some (height e - 1, width e)) (skipn n1 s)) as [[[n2 v2]|]|] eqn:E2.
  2:{ split; [reflexivity|discriminate]. }
  2:{ split; [exact S2|discriminate]. }
  destruct (R2 n2 v2 eq_refl) as (B2 & d2 & -> & L2 & I2).
  set (H := Z.to_nat (height e)). set (W := Z.to_nat (width e)).
  assert (EH : height e = Z.of_nat H) by (unfold H; lia).
  assert (EW : width e = Z.of_nat W) by (unfold W; lia).
  destruct (as_int_grid_rows (W - 1) H d1 I1) as (vg & Ev & Hvg). { nia. }
  destruct (as_int_grid_rows W (H - 1) d2 I2) as (hg & Eh & Hhg). { nia. }
  replace (Z.to_nat (width e - 1)) with (W - 1)%nat by (unfold W; lia).
  replace (Z.to_nat (height e - 1)) with (H - 1)%nat by (unfold H; lia).
  fold H W. rewrite Ev, Eh. rewrite EH, EW.
  destruct (rooms_of_borders_ok H W allow vg hg Hvg Hhg) as [S3 R3].
  destruct (rooms_of_borders (Z.of_nat H) (Z.of_nat W) allow vg hg) as [v|err].
  2:{ split; [exact S3|discriminate]. }
  split; [exact I|]. intros k l Hk. inversion Hk; subst.
  rewrite skipn_length in B2. split; [lia|].
  destruct (R3 v eq_refl) as (rs & ->). eauto.
Qed.

Lemma skip_value_error_safe {A} skip (r : res (option A)) : safe r -> safe (skip_value_error skip r).
Proof. destruct r as [a|err]; simpl; auto. intros ->. destruct skip; [exact I|reflexivity]. Qed.

Lemma skip_value_error_some {A} skip (r : res (option A)) x : skip_value_error skip r = Ok (Some x) -> r = Ok (Some x).
Proof. destruct r as [a|err]; simpl; auto. destruct err; try discriminate. destruct skip; discriminate. Qed.

Lemma rooms_good e skip allow : good e (Rooms skip allow).
Proof.
  intros s. simpl. unfold rooms_de. destruct (rooms_raw_good e allow s) as [H1 H2]. split.
  - apply skip_value_error_safe; auto.
  - intros k l Hk. apply skip_value_error_some in Hk. destruct (H2 k l Hk) as (A & rs & ->).
    repeat split; auto using Forall_anyv. intros _; right; discriminate.
Qed.

(* ------------------------------------------------------------------ ValuedRooms.deserialize *)
Lemma vrooms_good e vc skip allow : good e vc -> productive vc = true -> good e (ValuedRooms vc skip allow).
Proof.
  intros Hvc Hp s. simpl. unfold vrooms_de, rooms_de.
  destruct (rooms_raw_good e allow s) as [H1 H2].
  pose proof (skip_value_error_safe skip _ H1) as H1'.
  destruct (skip_value_error skip (rooms_de_raw e allow s)) as [[[ofs rooms]|]|] eqn:E.
  2:{ split; [exact I|discriminate]. }
  2:{ split; [exact H1'|discriminate]. }
  apply skip_value_error_some in E. destruct (H2 ofs rooms E) as (A & rs & ->). simpl.
  unfold good in Hvc. rewrite Hp in Hvc.
  destruct (seq_de_good (de e vc) (single vc) anyv Hvc (Z.of_nat (length (map VList rs))) (skipn ofs s)) as [S1 R1].
  destruct (seq_de (de e vc) (Z.of_nat (length (map VList rs))) (skipn ofs s)) as [[[ofs2 values]|]|] eqn:E2.
  2:{ split; [exact I|discriminate]. }
  2:{ split; [exact S1|discriminate]. }
  destruct (R1 ofs2 values eq_refl) as (B & ret & -> & _ & _). simpl.
  split; [exact I|]. intros k l Hk. inversion Hk; subst.
  rewrite skipn_length in B. repeat split; auto using Forall_anyv; try lia. intros _; right; discriminate.
Qed.
