(* C08: mirror of cspuz/graph.py::active_vertices_not_adjacent and
   active_vertices_not_adjacent_and_not_segmenting (level E: the posted
   program, statement by statement), the certificate of the specialised grid
   encoding and the graph-theoretic specifications (level S).
   Definitions only, no proofs here.

   The callee active_vertices_connected is the model of the C04 development
   (Graph/Avc.v); array slicing is the model of C13 (Array/Slice.v); the two
   elementwise array operators used here (BoolArray2D.__and__, __invert__) are
   mirrored locally. *)
From Coq Require Import ZArith List Bool Arith.
From Cspuz Require Import Lib.PyErr Core.Expr Core.Program Core.Build
  Graph.GraphModel Graph.Avc Array.Slice.
Import ListNotations.
Local Open Scope res_scope.

(* ------------------------------------------------------------------------ *)
(* level E: helpers                                                          *)

(* post the constraint lists produced for the items of a loop, one item after
   the other; stop at the first error, keeping what was posted before it (the
   Python loop appends to solver.constraints as it goes) *)
Fixpoint post_each {A} (f : A -> res (list expr)) (st : state) (l : list A)
    : state * option pyerr :=
  match l with
  | [] => (st, None)
  | a :: r =>
      match f a with
      | Err e => (st, Some e)
      | Ok cs =>
          match ensure_list st cs with
          | (st', None) => post_each f st' r
          | (st', Some e) => (st', Some e)
          end
      end
  end.

(*  both_active = is_active[i] & is_active[j]
    solver.ensure((not both_active) if isinstance(both_active, bool) else ~both_active)
    - two Python bools give a Python bool;
    - a BoolExpr with a BoolExpr / bool (either side, through __and__ or
      __rand__) gives BoolExpr(AND, [a, b]) and ~ gives BoolExpr(NOT, [.]);
    - every other combination ends in TypeError (unsupported operand, or an int
      reaching Solver.ensure) with nothing posted for this edge.             *)
Definition na_edge_constraint (a b : expr) : res expr :=
  match a, b with
  | PyBool x, PyBool y => Ok (PyBool (negb (x && y)))
  | _, _ =>
      if is_bool_expr_like a && is_bool_expr_like b
      then Ok (b_not (b_and a b)) else Err TypeError
  end.

(*  for i, j in graph: solver.ensure(~(is_active[i] & is_active[j]))        *)
Definition na_edge (acts : list expr) (e : nat * nat) : res (list expr) :=
  let* a := nth_res acts (fst e) in
  let* b := nth_res acts (snd e) in
  let* c := na_edge_constraint a b in
  Ok [c].

(* array.py::_elementwise for BoolArray2D.__and__ (shape check, then one
   BoolExpr(AND, [a.data[i], b.data[i]]) per position) and __invert__ *)
Definition ew_and (a b : result expr) : res (result expr) :=
  match a, b with
  | R2 ha wa la, R2 hb wb lb =>
      if (ha =? hb)%Z && (wa =? wb)%Z
      then Ok (R2 ha wa (map (fun p : expr * expr => b_and (fst p) (snd p)) (combine la lb)))
      else Err ValueError
  | _, _ => Err TypeError
  end.
Definition ew_not (a : result expr) : res (result expr) :=
  match a with
  | R2 h w l => Ok (R2 h w (map b_not l))
  | R1 l => Ok (R1 (map b_not l))
  | RScalar _ => Err TypeError
  end.
(* what Solver.ensure iterates over (constraints.flatten_iterator) *)
Definition result_items {A} (r : result A) : list A :=
  match r with RScalar a => [a] | R1 l => l | R2 _ _ l => l end.

Definition sl (a b : option Z) : key := KSlice a b None.

(*  solver.ensure(~(is_active[1:, :] & is_active[:-1, :]))
    solver.ensure(~(is_active[:, 1:] & is_active[:, :-1]))                  *)
Definition na_grid_rows (h w : nat) (l : list expr) : res (list expr) :=
  let H := Z.of_nat h in let W := Z.of_nat w in
  let* a := getitem2 H W l (K2 (sl (Some 1%Z) None) (sl None None)) in
  let* b := getitem2 H W l (K2 (sl None (Some (-1)%Z)) (sl None None)) in
  let* c := ew_and a b in
  let* n := ew_not c in
  Ok (result_items n).
Definition na_grid_cols (h w : nat) (l : list expr) : res (list expr) :=
  let H := Z.of_nat h in let W := Z.of_nat w in
  let* a := getitem2 H W l (K2 (sl None None) (sl (Some 1%Z) None)) in
  let* b := getitem2 H W l (K2 (sl None None) (sl None (Some (-1)%Z))) in
  let* c := ew_and a b in
  let* n := ew_not c in
  Ok (result_items n).

(* active_vertices_not_adjacent(solver, is_active, graph=None) *)
Definition post_not_adjacent (st : state) (a : avc_arg) (g : option graph)
    : state * option pyerr :=
  match g, a with
  | None, AArr2 h w l =>
      post_each (fun f : nat -> nat -> list expr -> res (list expr) => f h w l) st
                [na_grid_rows; na_grid_cols]
  | None, _ => (st, Some TypeError)
  | Some _, AArr2 _ _ _ => (st, Some TypeError)
  | Some g, ASeq l => post_each (na_edge l) st (edges g)
  | Some g, AArr1 l => post_each (na_edge l) st (edges g)
  end.

(* ---- the specialised grid encoding *)

(*  for dy in [-1, 1]: for dx in [-1, 1]:   *)
Definition dirs : list (Z * Z) := [(-1, -1); (-1, 1); (1, -1); (1, 1)]%Z.

(*  0 <= y2 < height and 0 <= x2 < width  *)
Definition in_grid (h w y x : Z) : bool :=
  ((0 <=? y) && (y <? h) && (0 <=? x) && (x <? w))%Z.

(*  (y2, x2) < (y, x)   -- Python tuple comparison  *)
Definition lex_lt (y2 x2 y x : Z) : bool :=
  ((y2 <? y) || ((y2 =? y) && (x2 <? x)))%Z.

(* a[y, x] on an Array2D of width w whose indices are known to be in range *)
Definition at2 (w : Z) (l : list expr) (y x : Z) : res expr :=
  nth_res l (Z.to_nat (y * w + x)).

(* BoolExpr.then(other): self must be a BoolExpr object *)
Definition b_then (a c : expr) : res expr :=
  match a with
  | BVar _ | BNode _ _ => Ok (b_imp a c)
  | _ => Err OtherError          (* AttributeError: 'bool' object has no attribute 'then' *)
  end.

(* the body of the loop over the cells:
     less_ranks = [] ; nonzero = False
     for dy, dx: if in grid: less_ranks.append((ranks[y2,x2] < ranks[y,x]) & is_active[y2,x2])
                             if (y2,x2) < (y,x): solver.ensure(ranks[y2,x2] != ranks[y,x])
                 else: nonzero = True
     solver.ensure(is_active[y,x].then(count_true(less_ranks) <= (0 if nonzero else 1)))  *)
Definition diag_cell (h w : Z) (ranks acts : list expr) (yx : Z * Z) : res (list expr) :=
  let y := fst yx in let x := snd yx in
  let inside := filter (fun d : Z * Z => in_grid h w (y + fst d) (x + snd d)) dirs in
  let nonzero := existsb (fun d : Z * Z => negb (in_grid h w (y + fst d) (x + snd d))) dirs in
  let* ri := at2 w ranks y x in
  let* less := mapM (fun d : Z * Z =>
                  let* rj := at2 w ranks (y + fst d) (x + snd d) in
                  let* aj := at2 w acts (y + fst d) (x + snd d) in
                  py_and (i_lt rj ri) aj) inside in
  let* nes := mapM (fun d : Z * Z =>
                  let* rj := at2 w ranks (y + fst d) (x + snd d) in
                  Ok (i_ne rj ri))
                (filter (fun d : Z * Z => lex_lt (y + fst d) (x + snd d) y x) inside) in
  let* ai := at2 w acts y x in
  let* ct := count_true less in
  let* c := b_then ai (i_le ct (PyInt (if nonzero then 0 else 1))) in
  Ok (nes ++ [c]).

(*  for y in range(height): for x in range(width):  *)
Definition cells (h w : nat) : list (Z * Z) :=
  flat_map (fun y => map (fun x => (Z.of_nat y, Z.of_nat x)) (seq 0 w)) (seq 0 h).

(*  ranks = solver.int_array((height, width), 0, (height * width - 1) // 2) ; loop  *)
Definition post_diag (st : state) (h w : nat) (l : list expr) : state * option pyerr :=
  match int_array st (h * w) 0 ((Z.of_nat (h * w) - 1) / 2) with
  | Err e => (st, Some e)
  | Ok (st1, ranks) =>
      post_each (diag_cell (Z.of_nat h) (Z.of_nat w) ranks l) st1 (cells h w)
  end.

(* BoolArray1D.__invert__ / BoolArray2D.__invert__ on the data list *)
Definition invert1 (l : list expr) : list expr := map b_not l.

(* active_vertices_not_adjacent_and_not_segmenting(solver, is_active, graph=None);
   [cfg_prim] is config.use_graph_primitive (read by the callee) *)
Definition post_not_segmenting (cfg_prim : bool) (st : state) (a : avc_arg) (g : option graph)
    : state * option pyerr :=
  match g, a with
  | None, AArr2 h w l =>
      match post_not_adjacent st a None with
      | (st1, Some e) => (st1, Some e)
      | (st1, None) =>
          (* if height == 1 or width == 1: active_vertices_connected(solver, ~is_active); return *)
          if Nat.eqb h 1 || Nat.eqb w 1 then
            match active_vertices_connected cfg_prim st1 (AArr2 h w (invert1 l)) None false None with
            | Ok st2 => (st2, None)
            | Err e => (st1, Some e)
            end
          else post_diag st1 h w l
      end
  | None, _ => (st, Some TypeError)
  | Some _, AArr2 _ _ _ => (st, Some TypeError)
  | Some g', _ =>
      match post_not_adjacent st a g with
      | (st1, Some e) => (st1, Some e)
      | (st1, None) =>
          match a with
          | AArr1 l =>
              match active_vertices_connected cfg_prim st1 (AArr1 (invert1 l)) (Some g') false None with
              | Ok st2 => (st2, None)
              | Err e => (st1, Some e)
              end
          | _ => (st1, Some TypeError)      (* ~ on a list / tuple *)
          end
      end
  end.

(* ------------------------------------------------------------------------ *)
(* level S: specifications                                                   *)

(* no edge of the graph has both endpoints active *)
Definition independent (g : graph) (act : nat -> bool) : Prop :=
  forall a b, In (a, b) (edges g) -> ~ (act a = true /\ act b = true).
Definition independent_b (g : graph) (act : nat -> bool) : bool :=
  forallb (fun e : nat * nat => negb (act (fst e) && act (snd e))) (edges g).

Definition inactive (act : nat -> bool) : nat -> bool := fun v => negb (act v).

(* not adjacent, and the inactive vertices induce a connected subgraph *)
Definition spec_not_segmenting (g : graph) (act : nat -> bool) : Prop :=
  independent g act /\ connected g (inactive act).
Definition spec_not_segmenting_b (g : graph) (act : nat -> bool) : bool :=
  independent_b g act && connected_b g (inactive act).

(* ---- the diagonal structure of a grid, cells numbered y * w + x *)

Definition cell_y (w v : nat) : nat := v / w.
Definition cell_x (w v : nat) : nat := v mod w.

(* in-grid diagonal neighbours of cell v, in the order of the dy / dx loops *)
Definition diag_nbrs (h w v : nat) : list nat :=
  let y := Z.of_nat (cell_y w v) in let x := Z.of_nat (cell_x w v) in
  map (fun d : Z * Z => Z.to_nat ((y + fst d) * Z.of_nat w + (x + snd d)))
      (filter (fun d : Z * Z => in_grid (Z.of_nat h) (Z.of_nat w) (y + fst d) (x + snd d)) dirs).

(* a cell with a diagonal neighbour outside the grid (= a cell of the outer ring) *)
Definition on_border (h w v : nat) : bool :=
  let y := Z.of_nat (cell_y w v) in let x := Z.of_nat (cell_x w v) in
  existsb (fun d : Z * Z => negb (in_grid (Z.of_nat h) (Z.of_nat w) (y + fst d) (x + snd d))) dirs.

(* certificate of the rank block: ranks differ on every diagonal pair (posted
   from the later cell), and an active cell has at most one active diagonal
   neighbour of smaller rank -- none at all when it is on the border *)
Definition diag_cell_ok (h w : nat) (act : nat -> bool) (rank : nat -> Z) (v : nat) : bool :=
  forallb (fun u => negb (rank u =? rank v)%Z) (filter (fun u => Nat.ltb u v) (diag_nbrs h w v))
  && implb (act v)
       (Nat.leb (length (filter (fun u => (rank u <? rank v)%Z && act u) (diag_nbrs h w v)))
                (if on_border h w v then 0 else 1)).
Definition cert_diag (h w : nat) (act : nat -> bool) (rank : nat -> Z) : bool :=
  forallb (diag_cell_ok h w act rank) (seq 0 (h * w)).
Definition diag_ranks_in_range (h w : nat) (rank : nat -> Z) : Prop :=
  forall v, (v < h * w)%nat -> (0 <= rank v <= (Z.of_nat (h * w) - 1) / 2)%Z.

(* walks through active vertices of a graph given by neighbour lists [nb] on
   the vertices 0..n-1, optionally never using the step between the two
   vertices of [avoid] (in either direction) *)
Definition same_pair (a b c d : nat) : Prop := (a = c /\ b = d) \/ (a = d /\ b = c).
Inductive gwalk (n : nat) (nb : nat -> list nat) (act : nat -> bool) (avoid : option (nat * nat))
    : nat -> nat -> Prop :=
  | gwalk_refl v : (v < n)%nat -> act v = true -> gwalk n nb act avoid v v
  | gwalk_step u v x : gwalk n nb act avoid u v -> In x (nb v) -> act x = true ->
      (forall a b, avoid = Some (a, b) -> ~ same_pair v x a b) ->
      gwalk n nb act avoid u x.

(* the graph induced on the active vertices is a forest: every pair of
   adjacent active vertices is a bridge (without that step its two ends are not
   joined); and no two distinct pinned vertices are joined *)
Definition g_forest (n : nat) (nb : nat -> list nat) (act : nat -> bool) : Prop :=
  forall a b, (a < n)%nat -> act a = true -> act b = true -> In b (nb a) ->
              ~ gwalk n nb act (Some (a, b)) a b.
Definition g_one_pin (n : nat) (nb : nat -> list nat) (act pin : nat -> bool) : Prop :=
  forall u v, pin u = true -> pin v = true -> gwalk n nb act None u v -> u = v.

(* the diagonal-adjacency graph on the active cells is a forest, and a tree
   contains at most one border cell *)
Definition dwalk (h w : nat) := gwalk (h * w) (diag_nbrs h w).
Definition diag_forest (h w : nat) (act : nat -> bool) : Prop :=
  g_forest (h * w) (diag_nbrs h w) act.
Definition diag_one_border (h w : nat) (act : nat -> bool) : Prop :=
  g_one_pin (h * w) (diag_nbrs h w) act (on_border h w).
Definition spec_diag (h w : nat) (act : nat -> bool) : Prop :=
  diag_forest h w act /\ diag_one_border h w act.

(* ---- executable order construction (used by the completeness proof and as
   the decision procedure for [spec_diag]): start from the active pinned
   vertices, then repeatedly take the least unlisted active vertex that touches
   the list, or else the least unlisted active vertex; finally the inactive
   vertices. *)
Definition g_touches (nb : nat -> list nat) (acc : list nat) (v : nat) : bool :=
  existsb (fun u => mem u acc) (nb v).
Definition g_pick (n : nat) (nb : nat -> list nat) (act : nat -> bool) (acc : list nat) : option nat :=
  match find (fun v => act v && negb (mem v acc) && g_touches nb acc v) (seq 0 n) with
  | Some v => Some v
  | None => find (fun v => act v && negb (mem v acc)) (seq 0 n)
  end.
Fixpoint g_grow (n : nat) (nb : nat -> list nat) (act : nat -> bool) (fuel : nat) (acc : list nat)
    : list nat :=
  match fuel with
  | O => acc
  | S f => match g_pick n nb act acc with
           | Some v => g_grow n nb act f (acc ++ [v])
           | None => acc
           end
  end.
Definition g_order (n : nat) (nb : nat -> list nat) (act pin : nat -> bool) : list nat :=
  g_grow n nb act n (filter (fun v => act v && pin v) (seq 0 n))
  ++ filter (fun v => negb (act v)) (seq 0 n).

Definition diag_order (h w : nat) (act : nat -> bool) : list nat :=
  g_order (h * w) (diag_nbrs h w) act (on_border h w).

(* The rank of a cell is the number of cells of its own colour class
   ((y + x) mod 2; diagonal neighbours share it) listed before it. *)
Definition colour (w v : nat) : bool := Nat.even (cell_y w v + cell_x w v).
Fixpoint rank_in (w : nat) (l : list nat) (v : nat) : nat :=
  match l with
  | [] => 0
  | x :: r => if Nat.eqb x v then 0
              else (if Bool.eqb (colour w x) (colour w v) then 1 else 0) + rank_in w r v
  end.
Definition diag_rank (h w : nat) (act : nat -> bool) (v : nat) : Z :=
  Z.of_nat (rank_in w (diag_order h w act) v).

(* (the order is computed once; this is cert_diag h w act (diag_rank h w act)) *)
Definition spec_diag_b (h w : nat) (act : nat -> bool) : bool :=
  let L := diag_order h w act in
  cert_diag h w act (fun v => Z.of_nat (rank_in w L v)).

(* ---- the unbounded equivalence (a discrete planar separation theorem,
   proved in NotAdjPlanarMain.v::diag_equiv): on an independent pattern the
   diagonal forest condition says exactly that the inactive cells stay connected *)
Definition diag_equiv_statement : Prop :=
  forall h w act, (2 <= h)%nat -> (2 <= w)%nat -> independent (grid_graph h w) act ->
    (spec_diag h w act <-> connected (grid_graph h w) (inactive act)).

(* enumeration used by the bounded version: all patterns on n cells as bit lists *)
Fixpoint all_patterns (n : nat) : list (list bool) :=
  match n with
  | O => [[]]
  | S k => flat_map (fun p => [false :: p; true :: p]) (all_patterns k)
  end.
Definition pat_of (p : list bool) : nat -> bool := fun v => nth v p false.

Definition diag_equiv_on (h w : nat) : bool :=
  forallb (fun p => let act := pat_of p in
             if independent_b (grid_graph h w) act
             then Bool.eqb (spec_diag_b h w act) (connected_b (grid_graph h w) (inactive act))
             else true)
          (all_patterns (h * w)).

(* all shapes (h, w) with 2 <= h, 2 <= w, h * w <= n (single rows / columns do
   not use the diagonal encoding, and the equivalence is false there: 010 on
   1 x 3 has no diagonal pair at all, yet the middle cell separates) *)
Definition shapes_upto (n : nat) : list (nat * nat) :=
  flat_map (fun h => flat_map (fun w => if Nat.leb (h * w) n then [(h, w)] else [])
                              (seq 2 n)) (seq 2 n).
