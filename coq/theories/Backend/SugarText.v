(* The fragment of CPython's str API that cspuz/backend/sugar_like.py uses, over
   Coq strings (ASCII): str.split(sep) with a one-character separator,
   sep.join, str.strip(), "needle in s", s[k:], len, int(s), str(int),
   list item assignment with a possibly negative index.  Definitions only. *)
From Coq Require Import ZArith List Bool String Ascii Decimal DecimalString.
From Cspuz Require Import Lib.PyErr.
Import ListNotations.
Open Scope string_scope.

Definition ch_nl : ascii := "010"%char.
Definition ch_tab : ascii := "009"%char.
Definition ch_sp : ascii := " "%char.
Definition s_nl : string := String ch_nl "".
Definition s_tab : string := String ch_tab "".

(* s.split(c), c one character: never empty, "" -> [""] *)
Fixpoint split_on (c : ascii) (s : string) : list string :=
  match s with
  | "" => [""]
  | String a r =>
      if Ascii.eqb a c then "" :: split_on c r
      else match split_on c r with
           | [] => [String a ""]
           | p :: ps => String a p :: ps
           end
  end.

(* sep.join(l) *)
Fixpoint join (sep : string) (l : list string) : string :=
  match l with
  | [] => ""
  | x :: r => match r with [] => x | _ => x ++ sep ++ join sep r end
  end.

(* lines printed one by one, each followed by the line separator *)
Fixpoint unlines (l : list string) : string :=
  match l with
  | [] => ""
  | x :: r => x ++ s_nl ++ unlines r
  end.

(* str.isspace() on the ASCII range: \t \n \v \f \r, \x1c-\x1f, space *)
Definition is_py_space (c : ascii) : bool :=
  let n := nat_of_ascii c in
  (Nat.leb 9 n && Nat.leb n 13) || (Nat.leb 28 n && Nat.leb n 32).

Fixpoint lstrip (s : string) : string :=
  match s with
  | "" => ""
  | String a r => if is_py_space a then lstrip r else s
  end.
Fixpoint rstrip (s : string) : string :=
  match s with
  | "" => ""
  | String a r =>
      match rstrip r with
      | "" => if is_py_space a then "" else String a ""
      | r' => String a r'
      end
  end.
Definition strip (s : string) : string := rstrip (lstrip s).

(* the whitespace int() skips is narrower than str.isspace: \t \n \v \f \r and space *)
Definition is_int_space (c : ascii) : bool :=
  let n := nat_of_ascii c in (Nat.leb 9 n && Nat.leb n 13) || Nat.eqb n 32.
Fixpoint lstrip_i (s : string) : string :=
  match s with
  | "" => ""
  | String a r => if is_int_space a then lstrip_i r else s
  end.
Fixpoint rstrip_i (s : string) : string :=
  match s with
  | "" => ""
  | String a r =>
      match rstrip_i r with
      | "" => if is_int_space a then "" else String a ""
      | r' => String a r'
      end
  end.

(* needle in s *)
Fixpoint contains (needle s : string) : bool :=
  prefix needle s || match s with "" => false | String _ r => contains needle r end.

(* s[k:] for k >= 0 *)
Fixpoint drop (k : nat) (s : string) : string :=
  match k, s with
  | O, _ => s
  | S k', String _ r => drop k' r
  | S _, "" => ""
  end.

(* str(z) for a Python int; "{}".format(n) *)
Definition pz (z : Z) : string := NilZero.string_of_int (Z.to_int z).
Definition pn (n : nat) : string := pz (Z.of_nat n).

(* int(s), base 10: surrounding whitespace, one optional sign, digits with
   single underscores between digits; anything else is ValueError *)
Definition is_digit (c : ascii) : bool :=
  let n := nat_of_ascii c in Nat.leb 48 n && Nat.leb n 57.
Fixpoint digits_ok (prev_digit : bool) (s : string) : bool :=
  match s with
  | "" => prev_digit
  | String c r =>
      if is_digit c then digits_ok true r
      else if Ascii.eqb c "_" then prev_digit && digits_ok false r
      else false
  end.
Fixpoint remove_us (s : string) : string :=
  match s with
  | "" => ""
  | String c r => if Ascii.eqb c "_" then remove_us r else String c (remove_us r)
  end.
Definition py_int (s : string) : res Z :=
  let t := rstrip_i (lstrip_i s) in
  let '(neg, body) :=
    match t with
    | String c r => if Ascii.eqb c "-" then (true, r) else if Ascii.eqb c "+" then (false, r) else (false, t)
    | "" => (false, t)
    end in
  if digits_ok false body then
    match NilEmpty.uint_of_string (remove_us body) with
    | Some d => Ok (if neg then (- Z.of_uint d)%Z else Z.of_uint d)
    | None => Err ValueError
    end
  else Err ValueError.

(* l[k] = v  on a Python list (negative k counts from the end) *)
Fixpoint set_at {A} (l : list A) (n : nat) (a : A) : list A :=
  match l, n with
  | [], _ => []
  | _ :: r, O => a :: r
  | x :: r, S k => x :: set_at r k a
  end.
Definition py_setitem {A} (l : list A) (k : Z) (a : A) : res (list A) :=
  let n := Z.of_nat (List.length l) in
  if (0 <=? k)%Z && (k <? n)%Z then Ok (set_at l (Z.to_nat k) a)
  else if (k <? 0)%Z && (- n <=? k)%Z then Ok (set_at l (Z.to_nat (n + k)) a)
  else Err IndexError.
