(* The text a combinator term serializes to contains no newline (so the regular expression's
   `.*` reads the whole body back), provided its FixStr / Dict strings contain none. *)
From Coq Require Import ZArith List Ascii Bool NArith Lia.
From Cspuz Require Import Lib.PyErr Codec.Comb Codec.CombWf Codec.CombBasics Codec.CombLeaf Codec.CombRoundTrip
  Codec.Url.
Import ListNotations.
Local Open Scope Z_scope.

Definition okc (ch : ascii) : bool := negb (is_newline ch).
Definition good (s : str) : Prop := Forall (fun c => is_newline c = false) s.

Lemma good_valid_body s : good s -> valid_body s.
Proof. exact (fun H => H). Qed.

Lemma good_app a b : good a -> good b -> good (a ++ b).
Proof. intros Ha Hb. apply Forall_app. split; assumption. Qed.

Lemma good_forallb s : forallb okc s = true -> good s.
Proof.
  intros H. apply Forall_forall. intros c Hc. rewrite forallb_forall in H.
  specialize (H c Hc). unfold okc in H. apply negb_true_iff in H. exact H.
Qed.

Lemma clean36_good_char ch : cleanb 36 ch = true -> is_newline ch = false.
Proof.
  revert ch.
  assert (H : forall ch, (negb (cleanb 36 ch) || negb (is_newline ch)) = true).
  { apply forall_chars. vm_compute. reflexivity. }
  intros ch Hc. specialize (H ch). rewrite Hc in H. simpl in H. apply negb_true_iff in H. exact H.
Qed.

Lemma cleanb_weaken36 b ch : b <= 36 -> cleanb b ch = true -> cleanb 36 ch = true.
Proof.
  unfold cleanb. intros Hb. destruct (digit_val ch); [|discriminate]. intros H.
  apply andb_true_iff in H as [H1 H2]. apply Z.ltb_lt in H1. rewrite H2, andb_true_r. apply Z.ltb_lt. lia.
Qed.

Lemma to_base_good b n : 2 <= b <= 36 -> 0 <= n -> good (to_base b n).
Proof.
  intros Hb Hn. destruct (to_base_spec b n Hb Hn) as (_ & Hc & _).
  rewrite forallb_forall in Hc. apply Forall_forall. intros c Hin.
  apply clean36_good_char. apply (cleanb_weaken36 b); [lia|]. apply Hc. exact Hin.
Qed.

Lemma to_base36_good v s : to_base36 v = Ok s -> good s.
Proof.
  unfold to_base36. destruct (Z.ltb_spec v 0) as [Hv|Hv]; [discriminate|]. intros E. inversion E. apply to_base_good; lia.
Qed.

Lemma py_str_int_good z : 0 <= z -> good (py_str_int z).
Proof. intros Hz. unfold py_str_int. destruct (Z.ltb_spec z 0); [lia|]. apply to_base_good; lia. Qed.

Lemma to_base16_good z : 0 <= z -> good (to_base16 z).
Proof. intros Hz. unfold to_base16. destruct (Z.ltb_spec z 0); [lia|]. apply to_base_good; lia. Qed.

(* ------------------------------------------------------------------ leaves *)
Lemma dict_ser_good v : forall before after k a,
  forallb (forallb okc) after = true -> dict_ser v before after = Ok (Some (k, a)) -> good a.
Proof.
  induction before as [|b before IH]; intros after k a Hg H; simpl in H; [discriminate|].
  destruct (pv_eqb v b).
  - destruct after as [|a0 after]; [discriminate|]. inversion H; subst. simpl in Hg.
    apply andb_true_iff in Hg as [Hg _]. apply good_forallb. exact Hg.
  - apply (IH (tl after) k a); [|exact H]. destruct after; simpl in *; [reflexivity|].
    apply andb_true_iff in Hg as [_ Hg]. exact Hg.
Qed.

Lemma md_ser_good b d data idx k s : md_ser b d data idx = Ok (Some (k, s)) -> good s.
Proof.
  unfold md_ser. intros H. apply with_item_inv_pv in H as (l & v & _ & _ & H).
  destruct (md_ser_loop b d (skipn idx l) 0) as [[value|]|]; try discriminate.
  destruct (to_base36 value) eqn:E; try discriminate. inversion H; subst. eapply to_base36_good; eauto.
Qed.

(* ------------------------------------------------------------------ loops *)
Definition sgood (f : pv -> nat -> sres) : Prop := forall d i k s, f d i = Ok (Some (k, s)) -> good s.

Lemma seq_ser_loop_good serc n d : sgood serc -> forall fuel nr ret s,
  good ret -> seq_ser_loop serc n d fuel nr ret = Ok (Some s) -> good s.
Proof.
  intros Hs. induction fuel as [|fuel IH]; intros nr ret s Hret H; simpl in H.
  - destruct (Z.of_nat nr <? n); [discriminate|].
    destruct (Z.of_nat nr =? n); [|discriminate]. inversion H; subst. exact Hret.
  - destruct (Z.of_nat nr <? n).
    + destruct (serc d nr) as [[[ofs d2]|]|] eqn:E; try discriminate.
      destruct ofs; [discriminate|]. eapply IH; [|exact H]. apply good_app; [exact Hret|]. eapply Hs; eauto.
    + destruct (Z.of_nat nr =? n); [|discriminate]. inversion H; subst. exact Hret.
Qed.

Lemma seq_ser_good serc n : sgood serc -> sgood (seq_ser serc n).
Proof.
  intros Hs data idx k s H. apply seq_ser_inv in H as (l & d & _ & _ & _ & H).
  eapply seq_ser_loop_good; [exact Hs| |exact H]. constructor.
Qed.

Lemma grid_ser_good serc e hw : sgood serc -> sgood (grid_ser serc e hw).
Proof.
  intros Hs data idx k s H. unfold grid_ser in H.
  destruct (py_items data) as [l|]; try discriminate.
  destruct (Nat.eqb idx (length l)); try discriminate.
  destruct (nth_res l idx) as [v|]; try discriminate.
  destruct v; try discriminate.
  destruct (grid_dims e hw) as [h w].
  destruct (grid_flatten l0 (Z.to_nat h) 0); try discriminate.
  eapply seq_ser_good; eauto.
Qed.

Lemma tupl_ser_good e : forall l, Forall (fun c => sgood (ser e c)) l ->
  forall d parts k s, good parts -> tupl_ser e l d parts = Ok (Some (k, s)) -> good s.
Proof.
  induction 1 as [|c l Hc Hl IH]; intros d parts k s Hp H; simpl in H.
  - inversion H; subst. exact Hp.
  - destruct d as [|di d']; [discriminate|].
    destruct (ser e c di 0) as [[[k1 s1]|]|] eqn:E; try discriminate.
    eapply IH; [|exact H]. apply good_app; [exact Hp|]. eapply Hc; eauto.
Qed.

Lemma oneof_ser_good e data idx : forall l, Forall (fun c => sgood (ser e c)) l ->
  forall k s, oneof_ser e data idx l = Ok (Some (k, s)) -> good s.
Proof.
  induction 1 as [|c l Hc Hl IH]; intros k s H; simpl in H; [discriminate|].
  destruct (ser e c data idx) as [[[k1 s1]|]|] eqn:E; try discriminate.
  - inversion H; subst. eapply Hc; eauto.
  - eapply IH; eauto.
Qed.

Lemma rooms_ser_good e skip : sgood (rooms_ser e skip).
Proof.
  intros data idx k s H. unfold rooms_ser, skip_value_error in H.
  assert (Hraw : rooms_ser_raw e data idx = Ok (Some (k, s))).
  { destruct (rooms_ser_raw e data idx) as [r|er]; [exact H|]. destruct er; try discriminate. destruct skip; discriminate. }
  clear H. unfold rooms_ser_raw in Hraw.
  destruct (py_items data) as [l|]; try discriminate.
  destruct (Nat.eqb idx (length l)); try discriminate.
  destruct (nth_res l idx) as [v|]; try discriminate.
  destruct v; try discriminate.
  destruct (rooms_assign (height e) (width e) (neg_grid (height e) (width e)) 0 l0) as [rid|]; try discriminate.
  destruct (all_assigned rid); try discriminate.
  destruct (grid_ser (md_ser 2 5) e (Some (height e, width e - 1)) _ 0) as [[[k1 s1]|]|] eqn:E1; try discriminate.
  destruct (grid_ser (md_ser 2 5) e (Some (height e - 1, width e)) _ 0) as [[[k2 s2]|]|] eqn:E2; try discriminate.
  inversion Hraw; subst.
  assert (Hmd : sgood (md_ser 2 5)) by (intros d i k0 s0 H0; eapply md_ser_good; eauto).
  apply good_app; eapply grid_ser_good; eauto.
Qed.

(* ------------------------------------------------------------------ all terms *)
Fixpoint nl_free (c : comb) : bool :=
  match c with
  | FixStr s => forallb okc s
  | Dict _ after => forallb (forallb okc) after
  | OneOf l | Tupl l => forallb nl_free l
  | Seq c1 _ | Grid c1 _ | ValuedRooms c1 _ _ => nl_free c1
  | _ => true
  end.

(* what is assumed about the serialize methods of Combinator subclasses *)
Definition cust_good (e : env) : Prop :=
  forall k data idx n s, cu_ser (cust e) k data idx = Ok (Some (n, s)) -> good s.

Lemma forall_sgood e l :
  Forall (fun c => nl_free c = true -> sgood (ser e c)) l -> forallb nl_free l = true ->
  Forall (fun c => sgood (ser e c)) l.
Proof.
  induction 1 as [|c l Hc _ IH]; intros Hf; constructor; simpl in Hf; apply andb_true_iff in Hf as [H1 H2]; auto.
Qed.

Theorem ser_good e : cust_good e -> forall c, nl_free c = true -> sgood (ser e c).
Proof.
  intros Hcu. induction c using comb_ind'; intros Hnl data idx k0 s0 Hser.
  - simpl in Hser. inversion Hser; subst. apply good_forallb. exact Hnl.
  - simpl in Hser. unfold dict_ser_at in Hser. apply with_item_inv_pv in Hser as (l & v & _ & _ & Hser).
    eapply dict_ser_good; eauto.
  - simpl in Hser. unfold spaces_ser in Hser. apply with_item_inv_pv in Hser as (l & v & _ & _ & Hser).
    destruct (negb (pv_eqb v sp)); try discriminate.
    destruct (to_base36 _) eqn:E; try discriminate. inversion Hser; subst. eapply to_base36_good; eauto.
  - simpl in Hser. unfold decint_ser in Hser. apply with_item_inv_pv in Hser as (l & v & _ & _ & Hser).
    destruct v; try discriminate. destruct (Z.ltb_spec z 0); try discriminate.
    inversion Hser; subst. apply py_str_int_good. lia.
  - simpl in Hser. apply hexint_ser_inv in Hser as (l & z & _ & _ & Hz & _ & ->).
    apply good_app; [|apply to_base_good; lia].
    unfold hex_prefix. destruct ((16 <=? z) && (z <? 256)); [repeat constructor|].
    destruct (256 <=? z); repeat constructor.
  - simpl in Hser. unfold intspaces_ser in Hser. apply with_item_inv_pv in Hser as (l & v & _ & _ & Hser).
    destruct v; try discriminate. destruct (negb _); try discriminate.
    destruct (to_base36 _) eqn:E; try discriminate. inversion Hser; subst. eapply to_base36_good; eauto.
  - simpl in Hser. eapply md_ser_good; eauto.
  - rewrite ser_oneof in Hser. eapply oneof_ser_good; [|exact Hser]. apply forall_sgood; auto.
  - rewrite ser_tupl in Hser. apply with_item_inv_pv in Hser as (l0 & v & _ & _ & Hser).
    destruct v; try discriminate. destruct (negb _); try discriminate.
    eapply tupl_ser_good; [|constructor|exact Hser]. apply forall_sgood; auto.
  - simpl in Hser. eapply seq_ser_good; [|exact Hser]. apply IHc. exact Hnl.
  - simpl in Hser. eapply grid_ser_good; [|exact Hser]. apply IHc. exact Hnl.
  - simpl in Hser. eapply rooms_ser_good; eauto.
  - simpl in Hser. unfold vrooms_ser in Hser. apply with_item_inv_pv in Hser as (l & v & _ & _ & Hser).
    destruct v as [| | | |tl]; try discriminate.
    destruct tl as [|d0 [|d1 [|? ?]]]; try discriminate.
    destruct (py_items d0) as [rooms0|]; try discriminate.
    destruct (py_items d1) as [values0|]; try discriminate.
    destruct (vr_sorted rooms0 values0) as [sorted|]; try discriminate.
    destruct sorted as [|p sorted']; try discriminate.
    destruct (rooms_ser e s _ 0) as [[[k1 s1]|]|] eqn:E1; try discriminate.
    destruct (seq_ser (ser e c) _ _ 0) as [[[k2 s2]|]|] eqn:E2; try discriminate.
    inversion Hser; subst. apply good_app.
    + eapply rooms_ser_good; eauto.
    + eapply seq_ser_good; [|exact E2]. apply IHc. exact Hnl.
  - simpl in Hser. eapply Hcu; eauto.
Qed.

Lemma no_custom_good h w : cust_good (mk_env h w).
Proof. intros k data idx n s H. discriminate. Qed.
