(* C11: well-formedness (Backend/Z3SolveProofs.v::wf_state, Backend/SolveZ3Proofs.v::wf_keys) of the programs
   the Tier-1 models build - shared lemmas.  [ok vs b e]: the tree e is well typed at kind b (true = boolean,
   false = integer) and every variable occurrence matches its declaration in vs (an IVar must carry the
   declared domain). *)
From Coq Require Import ZArith List Bool Arith Lia.
From Cspuz Require Import Lib.PyErr Core.Expr Core.Program Core.Build Backend.Z3SolveProofs Backend.SolveZ3Proofs
     Puzzle.PuzzleBase Puzzle.ModelBase Puzzle.ModelLemmas.
Import ListNotations.
Local Open Scope nat_scope.

Definition ok (vs : list vdecl) (b : bool) (e : expr) : bool := wt b e && refs_ok vs e.

Lemma wf_cons_ok vs cs : wf_cons vs cs <-> forallb (ok vs true) cs = true.
Proof. reflexivity. Qed.

Lemma forallb_ok vs b l : forallb (ok vs b) l = forallb (wt b) l && forallb (refs_ok vs) l.
Proof. unfold ok. apply forallb_and. Qed.

Lemma forallb_In {A} (f : A -> bool) l : (forall x, In x l -> f x = true) -> forallb f l = true.
Proof. intros H. apply forallb_forall. exact H. Qed.

(* ---------------------------------------------------------------- node by node *)
Lemma ok_pybool vs c : ok vs true (PyBool c) = true.
Proof. reflexivity. Qed.
Lemma ok_pyint vs z : ok vs false (PyInt z) = true.
Proof. reflexivity. Qed.
Lemma ok_bvar vs i : ok vs true (BVar i) = match nth_error vs i with Some DBool => true | _ => false end.
Proof. reflexivity. Qed.
Lemma ok_ivar vs i lo hi :
  ok vs false (IVar i lo hi) = match nth_error vs i with Some (DInt l h) => (l =? lo)%Z && (h =? hi)%Z | _ => false end.
Proof. reflexivity. Qed.
Lemma ok_bconst vs c : ok vs true (BNode BOOL_CONSTANT [PyBool c]) = true.
Proof. reflexivity. Qed.
Lemma ok_iconst vs z : ok vs false (INode INT_CONSTANT [PyInt z]) = true.
Proof. reflexivity. Qed.

Lemma ok_not vs a : ok vs true (BNode NOT [a]) = ok vs true a.
Proof. unfold ok; simpl. rewrite !andb_true_r. reflexivity. Qed.
Lemma ok_and vs l : ok vs true (BNode AND l) = forallb (ok vs true) l.
Proof. rewrite forallb_ok. reflexivity. Qed.
Lemma ok_or vs l : ok vs true (BNode OR l) = forallb (ok vs true) l.
Proof. rewrite forallb_ok. reflexivity. Qed.
Lemma ok_alldiff vs l : ok vs true (BNode ALLDIFF l) = forallb (ok vs false) l.
Proof. rewrite forallb_ok. reflexivity. Qed.

Lemma ok_bin2 vs (a b : expr) (k : bool) :
  (wt k a && (wt k b && true)) && (refs_ok vs a && (refs_ok vs b && true)) = ok vs k a && ok vs k b.
Proof. unfold ok. destruct (wt k a), (wt k b), (refs_ok vs a), (refs_ok vs b); reflexivity. Qed.

Lemma ok_imp vs a b : ok vs true (BNode IMP [a; b]) = ok vs true a && ok vs true b.
Proof. exact (ok_bin2 vs a b true). Qed.
Lemma ok_iff vs a b : ok vs true (BNode IFF [a; b]) = ok vs true a && ok vs true b.
Proof. exact (ok_bin2 vs a b true). Qed.
Lemma ok_xor vs a b : ok vs true (BNode XOR [a; b]) = ok vs true a && ok vs true b.
Proof. exact (ok_bin2 vs a b true). Qed.
Lemma ok_eq vs a b : ok vs true (BNode EQ [a; b]) = ok vs false a && ok vs false b.
Proof. exact (ok_bin2 vs a b false). Qed.
Lemma ok_ne vs a b : ok vs true (BNode NE [a; b]) = ok vs false a && ok vs false b.
Proof. exact (ok_bin2 vs a b false). Qed.
Lemma ok_le vs a b : ok vs true (BNode LE [a; b]) = ok vs false a && ok vs false b.
Proof. exact (ok_bin2 vs a b false). Qed.
Lemma ok_lt vs a b : ok vs true (BNode LT [a; b]) = ok vs false a && ok vs false b.
Proof. exact (ok_bin2 vs a b false). Qed.
Lemma ok_ge vs a b : ok vs true (BNode GE [a; b]) = ok vs false a && ok vs false b.
Proof. exact (ok_bin2 vs a b false). Qed.
Lemma ok_gt vs a b : ok vs true (BNode GT [a; b]) = ok vs false a && ok vs false b.
Proof. exact (ok_bin2 vs a b false). Qed.

Lemma ok_add vs a l : ok vs false (INode ADD (a :: l)) = forallb (ok vs false) (a :: l).
Proof. rewrite forallb_ok. reflexivity. Qed.
Lemma ok_sub vs a l : ok vs false (INode SUB (a :: l)) = forallb (ok vs false) (a :: l).
Proof. rewrite forallb_ok. reflexivity. Qed.
Lemma ok_neg vs a : ok vs false (INode NEG [a]) = ok vs false a.
Proof. unfold ok; simpl. rewrite !andb_true_r. reflexivity. Qed.
Lemma ok_if vs c t f : ok vs false (INode IF [c; t; f]) = ok vs true c && ok vs false t && ok vs false f.
Proof.
  unfold ok; simpl.
  destruct (wt true c), (wt false t), (wt false f), (refs_ok vs c), (refs_ok vs t), (refs_ok vs f); reflexivity.
Qed.
Lemma ok_cond vs c : ok vs false (INode IF [c; PyInt 1; PyInt 0]) = ok vs true c.
Proof. rewrite ok_if, !ok_pyint, !andb_true_r. reflexivity. Qed.

Lemma ok_add_map {A} vs (f : A -> expr) l :
  l <> [] -> ok vs false (INode ADD (map f l)) = forallb (fun x => ok vs false (f x)) l.
Proof. destruct l as [|a l]; [congruence|]. intros _. cbn [map]. rewrite ok_add. change (f a :: map f l) with (map f (a :: l)). apply forallb_map. Qed.

Lemma forallb_cons {A} (f : A -> bool) a l : forallb f (a :: l) = f a && forallb f l.
Proof. reflexivity. Qed.
Lemma forallb_nil {A} (f : A -> bool) : forallb f [] = true.
Proof. reflexivity. Qed.

Global Hint Rewrite @forallb_cons @forallb_nil andb_true_r andb_true_l : okdb.
Global Hint Rewrite ok_pybool ok_pyint ok_bconst ok_iconst ok_not ok_and ok_or ok_alldiff ok_imp ok_iff ok_xor
  ok_eq ok_ne ok_le ok_lt ok_ge ok_gt ok_add ok_sub ok_neg ok_cond ok_if : okdb.

(* ---------------------------------------------------------------- more declarations keep a tree ok *)
Lemma ok_more vs more b e : ok vs b e = true -> ok (vs ++ more) b e = true.
Proof.
  unfold ok. intros H. apply andb_prop in H. destruct H as [W R].
  rewrite W, (refs_ok_app vs more e R). reflexivity.
Qed.
Lemma forallb_ok_more vs more b l : forallb (ok vs b) l = true -> forallb (ok (vs ++ more) b) l = true.
Proof. rewrite !forallb_forall. intros H x Hx. apply ok_more. exact (H x Hx). Qed.

(* ---------------------------------------------------------------- variables of the declaration blocks *)
Lemma nth_error_repeat {A} (a : A) n i : i < n -> nth_error (repeat a n) i = Some a.
Proof. revert i. induction n as [|n IH]; intros [|i] H; simpl; try lia; [reflexivity|]. apply IH. lia. Qed.

Lemma ok_bvar_repeat n i : i < n -> ok (repeat DBool n) true (BVar i) = true.
Proof. intros H. rewrite ok_bvar, nth_error_repeat by exact H. reflexivity. Qed.
Lemma ok_ivar_repeat lo hi n i : i < n -> ok (repeat (DInt lo hi) n) false (IVar i lo hi) = true.
Proof. intros H. rewrite ok_ivar, nth_error_repeat by exact H. rewrite !Z.eqb_refl. reflexivity. Qed.

(* a variable of a block declared after [pre] *)
Lemma ok_bvar_block pre n post i : length pre <= i < length pre + n ->
  ok (pre ++ repeat DBool n ++ post) true (BVar i) = true.
Proof.
  intros H. rewrite ok_bvar, nth_error_app2 by lia. rewrite nth_error_app1 by (rewrite repeat_length; lia).
  rewrite nth_error_repeat by lia. reflexivity.
Qed.
Lemma ok_ivar_block pre lo hi n post i : length pre <= i < length pre + n ->
  ok (pre ++ repeat (DInt lo hi) n ++ post) false (IVar i lo hi) = true.
Proof.
  intros H. rewrite ok_ivar, nth_error_app2 by lia. rewrite nth_error_app1 by (rewrite repeat_length; lia).
  rewrite nth_error_repeat by lia. rewrite !Z.eqb_refl. reflexivity.
Qed.

(* ---------------------------------------------------------------- the building blocks of the models *)
Lemma ok_ct_vars vs ids : ok vs false (ct_vars ids) = forallb (fun i => ok vs true (BVar i)) ids.
Proof.
  destruct ids as [|i r]; [reflexivity|]. unfold ct_vars.
  rewrite ok_add_map by discriminate. apply forallb_ext_in. intros x _. apply ok_cond.
Qed.

Lemma ok_ct_vars_lt vs ids : (forall i, In i ids -> ok vs true (BVar i) = true) -> ok vs false (ct_vars ids) = true.
Proof. intros H. rewrite ok_ct_vars. apply forallb_In. exact H. Qed.

(* constraints.count_true / fold_or / fold_and of Core/Build.v on ok operands *)
Lemma ok_count_true_go vs l : forall ops c ops' c',
  forallb (ok vs true) l = true -> forallb (ok vs false) ops = true ->
  count_true_go l ops c = Ok (ops', c') -> forallb (ok vs false) ops' = true.
Proof.
  induction l as [|x l IH]; intros ops c ops' c' Hl Hops H; simpl in H.
  - inversion H; subst. exact Hops.
  - simpl in Hl. apply andb_prop in Hl. destruct Hl as [Hx Hl].
    destruct x; try discriminate.
    + eapply IH; eauto.
    + eapply IH; [exact Hl| |exact H]. rewrite forallb_app, Hops. simpl. unfold i_cond. rewrite ok_cond, Hx. reflexivity.
    + eapply IH; [exact Hl| |exact H]. rewrite forallb_app, Hops. simpl. unfold i_cond. rewrite ok_cond, Hx. reflexivity.
Qed.

Lemma ok_count_true vs l ct : forallb (ok vs true) l = true -> count_true l = Ok ct -> ok vs false ct = true.
Proof.
  intros Hl H. unfold count_true in H.
  destruct (count_true_go l [] 0) as [[ops c]|] eqn:E; [|discriminate].
  pose proof (ok_count_true_go vs l [] 0%Z ops c Hl eq_refl E) as Hops.
  assert (Hops' : forallb (ok vs false) (if (0 <? c)%Z then ops ++ [PyInt c] else ops) = true).
  { destruct (0 <? c)%Z; [|exact Hops]. rewrite forallb_app, Hops. reflexivity. }
  destruct (if (0 <? c)%Z then ops ++ [PyInt c] else ops) as [|a r]; inversion H; subst; [reflexivity|].
  rewrite ok_add. exact Hops'.
Qed.

(* ---------------------------------------------------------------- states *)
Lemma wf_state_ensure st l : wf_state st -> wf_cons (vars st) l -> wf_state (ensure st l).
Proof. intros W Wl. unfold wf_state; simpl. apply wf_cons_app; assumption. Qed.
Lemma wf_keys_ensure st l : wf_keys st -> wf_keys (ensure st l).
Proof. intros K. exact K. Qed.

Lemma wf_bool_grid_state n cs : forallb (ok (repeat DBool n) true) cs = true ->
  wf_state (bool_grid_state n cs) /\ wf_keys (bool_grid_state n cs).
Proof.
  intros H. split; [exact H|]. unfold wf_keys, bool_grid_state; simpl. rewrite !repeat_length. reflexivity.
Qed.

(* cells of a board are declared *)
Lemma ok_cell h w y x : y < h -> x < w -> ok (repeat DBool (h * w)) true (BVar (cidx w (y, x))) = true.
Proof. intros Hy Hx. apply ok_bvar_repeat. apply cidx_lt; assumption. Qed.

Lemma forallb_cells (f : nat * nat -> bool) h w :
  (forall y x, y < h -> x < w -> f (y, x) = true) -> forallb f (cells h w) = true.
Proof. intros H. apply forallb_In. intros [y x] Hc. apply cells_in in Hc. apply H; tauto. Qed.
Lemma forallb_seq (f : nat -> bool) s n :
  (forall i, s <= i < s + n -> f i = true) -> forallb f (seq s n) = true.
Proof. intros H. apply forallb_In. intros i Hi. apply in_seq in Hi. apply H. exact Hi. Qed.

(* the answer ids 0 .. n-1 of a grid state are keys *)
Lemma repeat_keys n i : In i (seq 0 n) -> nth_error (repeat true n) i = Some true.
Proof. intros H. apply in_seq in H. apply nth_error_repeat. lia. Qed.

(* ---------------------------------------------------------------- the conclusion of Props/C11.v::C11_solve_reports *)
From Cspuz Require Import Backend.Z3 Backend.Z3Oracle Backend.SolveLoop Puzzle.SatAbs Puzzle.SolveCompose.

Definition solve_reports (oracle : list zterm -> option zmodel) (st : state) (ids : list nat)
    (rules : list Z -> bool) : Prop :=
  exists r, solve oracle st = Ok r /\
    match r with
    | Unsat => forall ans, rules ans = false
    | Sat sol =>
        (exists ans, rules ans = true) /\
        forall k i, nth_error ids k = Some i ->
          exists a, nth_error sol i = Some a /\
            (forall z, (exists v, a = Some v /\ zval v = z) <->
                       (forall ans, rules ans = true -> nth_error ans k = Some z)) /\
            (a = None <-> exists a1 a2, rules a1 = true /\ rules a2 = true /\ nth_error a1 k <> nth_error a2 k)
    | OutOfFuel => False
    end.

Lemma solve_reports_intro oracle gsem st ids rules :
  oracle_sound_on oracle -> oracle_complete_on oracle ->
  wf_state st /\ wf_keys st ->
  (forall i, In i ids -> nth_error (keys st) i = Some true) ->
  (forall ans, (exists en, model_of gsem en st /\ reads st en ids = ans) <-> rules ans = true) ->
  solve_reports oracle st ids rules.
Proof.
  intros Os Oc [W K] Ik Ex. exact (solve_puzzle_exact oracle Os Oc gsem st ids rules W K Ik Ex).
Qed.

(* the problem sections *)
Lemma dim2_0 (h w : nat) r : dim ([Z.of_nat h; Z.of_nat w] :: r) 0 = h.
Proof. unfold dim, zn, getz, sec; simpl. apply Nat2Z.id. Qed.
Lemma dim2_1 (h w : nat) r : dim ([Z.of_nat h; Z.of_nat w] :: r) 1 = w.
Proof. unfold dim, zn, getz, sec; simpl. apply Nat2Z.id. Qed.
Lemma dim1_0 (n : nat) t r : dim ((Z.of_nat n :: t) :: r) 0 = n.
Proof. unfold dim, zn, getz, sec; simpl. apply Nat2Z.id. Qed.

(* ================================================================ the graph helpers the models call *)
From Cspuz Require Import Graph.GraphModel Graph.CycleLemmas.

(* state invariant of the loops: declarations and keys fixed, every posted constraint ok *)
Definition good (vs : list vdecl) (ks : list bool) (st : state) : Prop :=
  vars st = vs /\ keys st = ks /\ wf_state st.

Lemma good_ensure vs ks st l : good vs ks st -> forallb (ok vs true) l = true -> good vs ks (ensure st l).
Proof.
  intros [Hv [Hk W]] Hl. split; [exact Hv|]. split; [exact Hk|].
  apply wf_state_ensure; [exact W|]. rewrite Hv. exact Hl.
Qed.
Lemma good_ensure1 vs ks st c : good vs ks st -> ok vs true c = true -> good vs ks (ensure st [c]).
Proof. intros G H. apply good_ensure; [exact G|]. simpl. rewrite H. reflexivity. Qed.

Lemma good_wf vs ks st : good vs ks st -> length ks = length vs -> wf_state st /\ wf_keys st.
Proof. intros [Hv [Hk W]] L. split; [exact W|]. unfold wf_keys. rewrite Hv, Hk. exact L. Qed.

(* list[i]: Avc.nth_res, Acyclic.py_get, Cycle.py_nth are this match *)
Lemma nth_ok_in {A} (P : A -> bool) (l : list A) i x :
  match nth_error l i with Some y => Ok y | None => Err IndexError end = Ok x ->
  forallb P l = true -> P x = true.
Proof.
  destruct (nth_error l i) eqn:E; intros H F; inversion H; subst.
  rewrite forallb_forall in F. apply F. eapply nth_error_In. exact E.
Qed.

Lemma mapM_forallb {A B} (f : A -> res B) (P : B -> bool) l : forall out,
  (forall x y, In x l -> f x = Ok y -> P y = true) -> mapM f l = Ok out -> forallb P out = true.
Proof.
  induction l as [|a l IH]; intros out H E; simpl in E.
  - inversion E. reflexivity.
  - unfold bind in E. destruct (f a) as [y|] eqn:Ea; [|discriminate].
    destruct (mapM f l) as [ys|] eqn:El; [|discriminate]. inversion E; subst. simpl.
    rewrite (H a y (or_introl eq_refl) Ea). simpl. apply IH; [|reflexivity].
    intros x z Hx. apply H. right. exact Hx.
Qed.

Lemma make_and_ok vs a b e : make_bool_expr AND [a; b] = Ok e ->
  ok vs true a = true -> ok vs true b = true -> ok vs true e = true.
Proof.
  simpl. destruct (is_bool_expr_like a && (is_bool_expr_like b && true)); intros H Ha Hb; inversion H; subst.
  autorewrite with okdb. rewrite Ha, Hb. reflexivity.
Qed.

(* the variable lists bool_array / int_array return, in the extended declaration list *)
Lemma ok_new_bools pre n post :
  forallb (ok (pre ++ repeat DBool n ++ post) true) (map BVar (seq (length pre) n)) = true.
Proof. rewrite forallb_map. apply forallb_seq. intros i Hi. apply ok_bvar_block. exact Hi. Qed.
Lemma ok_new_ints pre lo hi n post :
  forallb (ok (pre ++ repeat (DInt lo hi) n ++ post) false) (map (fun i => IVar i lo hi) (seq (length pre) n)) = true.
Proof. rewrite forallb_map. apply forallb_seq. intros i Hi. apply ok_ivar_block. exact Hi. Qed.

(* ---------------------------------------------------------------- Graph/Avc.v::post_avc (auxiliary-variable route) *)
From Cspuz Require Graph.Avc.

Section AvcWf.
  Variables (vs : list vdecl) (ks : list bool) (ranks roots acts : list expr) (g : graph).
  Hypothesis Hranks : forallb (ok vs false) ranks = true.
  Hypothesis Hroots : forallb (ok vs true) roots = true.
  Hypothesis Hacts : forallb (ok vs true) acts = true.

  Lemma less_rank_ok i jk e : Avc.less_rank ranks acts i jk = Ok e -> ok vs true e = true.
  Proof.
    unfold Avc.less_rank, bind. intros H.
    destruct (Avc.nth_res ranks (fst jk)) as [rj|] eqn:E1; [|discriminate].
    destruct (Avc.nth_res ranks i) as [ri|] eqn:E2; [|discriminate].
    destruct (Avc.nth_res acts (fst jk)) as [aj|] eqn:E3; [|discriminate].
    unfold Avc.py_and in H. destruct (is_bool_expr_like aj); inversion H; subst.
    unfold b_and, i_lt. autorewrite with okdb.
    rewrite (nth_ok_in _ _ _ _ E1 Hranks), (nth_ok_in _ _ _ _ E2 Hranks), (nth_ok_in _ _ _ _ E3 Hacts). reflexivity.
  Qed.

  Lemma post_ne_good i : forall inc st st', good vs ks st -> Avc.post_ne st ranks i inc = Ok st' -> good vs ks st'.
  Proof.
    induction inc as [|[j k] inc IH]; intros st st' G H; simpl in H.
    - inversion H; subst. exact G.
    - destruct (Nat.ltb i j); [|eapply IH; eauto].
      unfold bind in H. destruct (Avc.nth_res ranks j) as [rj|] eqn:E1; [|discriminate].
      destruct (Avc.nth_res ranks i) as [ri|] eqn:E2; [|discriminate].
      eapply IH; [|exact H]. apply good_ensure1; [exact G|]. unfold i_ne. autorewrite with okdb.
      rewrite (nth_ok_in _ _ _ _ E1 Hranks), (nth_ok_in _ _ _ _ E2 Hranks). reflexivity.
  Qed.

  Lemma post_vertex_good acyclic st i st' :
    good vs ks st -> Avc.post_vertex acyclic ranks roots acts g st i = Ok st' -> good vs ks st'.
  Proof.
    intros G H. unfold Avc.post_vertex, bind in H.
    destruct (mapM (Avc.less_rank ranks acts i) (incident g i)) as [less|] eqn:E1; [|discriminate].
    destruct (if acyclic then Avc.post_ne st ranks i (incident g i) else Ok st) as [st1|] eqn:E2; [|discriminate].
    destruct (Avc.nth_res acts i) as [ai|] eqn:E3; [|discriminate].
    destruct (Avc.nth_res roots i) as [ri|] eqn:E4; [|discriminate].
    destruct (count_true (less ++ [ri])) as [ct|] eqn:E5; [|discriminate].
    unfold Avc.py_then in H. destruct (_ && _); inversion H; subst st'. clear H.
    assert (G1 : good vs ks st1).
    { destruct acyclic; [eapply post_ne_good; eauto|inversion E2; subst; exact G]. }
    apply good_ensure1; [exact G1|].
    assert (Hless : forallb (ok vs true) less = true).
    { eapply mapM_forallb; [|exact E1]. intros x y _ Hy. eapply less_rank_ok. exact Hy. }
    assert (Hct : ok vs false ct = true).
    { eapply ok_count_true; [|exact E5]. rewrite forallb_app, Hless. simpl.
      rewrite (nth_ok_in _ _ _ _ E4 Hroots). reflexivity. }
    unfold b_imp. rewrite ok_imp, (nth_ok_in _ _ _ _ E3 Hacts).
    destruct acyclic; unfold i_eq, i_ge; autorewrite with okdb; rewrite Hct; reflexivity.
  Qed.

  Lemma avc_fold_good acyclic : forall l st st',
    good vs ks st -> Avc.foldM (Avc.post_vertex acyclic ranks roots acts g) st l = Ok st' -> good vs ks st'.
  Proof.
    induction l as [|i l IH]; intros st st' G H; simpl in H.
    - inversion H; subst. exact G.
    - unfold bind in H. destruct (Avc.post_vertex acyclic ranks roots acts g st i) as [st1|] eqn:E; [|discriminate].
      eapply IH; [|exact H]. eapply post_vertex_good; eauto.
  Qed.
End AvcWf.

Lemma wf_cons_good_more st more mk :
  wf_state st -> good (vars st ++ more) (keys st ++ mk)
                      {| vars := vars st ++ more; keys := keys st ++ mk; cons := cons st |}.
Proof. intros W. split; [reflexivity|]. split; [reflexivity|]. unfold wf_state; simpl. apply wf_cons_more. exact W. Qed.

Theorem post_avc_wf st acts g acyclic st' :
  Avc.post_avc st acts g acyclic false = Ok st' ->
  wf_state st -> wf_keys st -> forallb (ok (vars st) true) acts = true ->
  (wf_state st' /\ wf_keys st') /\
  vars st' = vars st ++ repeat (DInt 0 (Z.of_nat (nv g) - 1)) (nv g) ++ repeat DBool (nv g) /\
  keys st' = keys st ++ repeat false (nv g) ++ repeat false (nv g).
Proof.
  intros H W K Ha. unfold Avc.post_avc in H. simpl andb in H. cbv iota in H. unfold bind in H.
  unfold int_array in H. destruct (Z.of_nat (nv g) - 1 <? 0)%Z; [discriminate|].
  rewrite int_vars_spec in H. unfold bool_array in H. rewrite bool_vars_spec in H. cbn [vars keys cons] in H.
  set (n := nv g) in *. set (hi := (Z.of_nat n - 1)%Z) in *.
  set (vs' := vars st ++ repeat (DInt 0 hi) n ++ repeat DBool n).
  set (ks' := keys st ++ repeat false n ++ repeat false n).
  match type of H with context [Avc.foldM ?f ?s ?l] => set (st2 := s) in H; destruct (Avc.foldM f st2 l) as [st3|] eqn:E3 end;
    [|discriminate].
  destruct (count_true _) as [ct|] eqn:E4; [|discriminate].
  inversion H; subst st'. clear H.
  assert (G2 : good vs' ks' st2).
  { unfold st2, vs', ks'. rewrite !app_assoc. split; [reflexivity|]. split; [reflexivity|].
    unfold wf_state; simpl. rewrite <- app_assoc. apply wf_cons_more. exact W. }
  assert (Hn2 : next_id {| vars := vars st ++ repeat (DInt 0 hi) n; keys := keys st ++ repeat false n; cons := cons st |}
                = length (vars st ++ repeat (DInt 0 hi) n)) by reflexivity.
  rewrite Hn2 in E3, E4.
  assert (Hroots : forallb (ok vs' true) (map BVar (seq (length (vars st ++ repeat (DInt 0 hi) n)) n)) = true).
  { unfold vs'. rewrite app_assoc. rewrite <- (app_nil_r (repeat DBool n)). apply ok_new_bools. }
  assert (Hranks : forallb (ok vs' false) (map (fun i => IVar i 0 hi) (seq (next_id st) n)) = true).
  { unfold vs', next_id. apply ok_new_ints. }
  assert (Hacts : forallb (ok vs' true) acts = true) by (unfold vs'; apply forallb_ok_more; exact Ha).
  pose proof (avc_fold_good vs' ks' _ _ _ g Hranks Hroots Hacts acyclic _ _ _ G2 E3) as G3.
  assert (G4 : good vs' ks' (ensure st3 [i_le ct (PyInt 1)])).
  { apply good_ensure1; [exact G3|]. unfold i_le. autorewrite with okdb. eapply ok_count_true; [|exact E4]. exact Hroots. }
  split; [|split; [exact (proj1 G4)|exact (proj1 (proj2 G4))]].
  apply (good_wf _ _ _ G4). unfold ks', vs'. rewrite !app_length, !repeat_length. unfold wf_keys in K. lia.
Qed.

(* constraints over the first declarations, appended after a helper declared more variables *)
Lemma wf_ensure_prefix st pre more l :
  wf_state st /\ wf_keys st -> vars st = pre ++ more -> forallb (ok pre true) l = true ->
  wf_state (ensure st l) /\ wf_keys (ensure st l).
Proof.
  intros [W K] Hv Hl. split; [|exact K]. apply wf_state_ensure; [exact W|].
  rewrite Hv. apply forallb_ok_more. exact Hl.
Qed.

Lemma keys_prefix n r i : In i (seq 0 n) -> nth_error (repeat true n ++ r) i = Some true.
Proof.
  intros H. apply in_seq in H. rewrite nth_error_app1 by (rewrite repeat_length; lia).
  apply nth_error_repeat. lia.
Qed.

Lemma ok_grid_vars n : forallb (ok (repeat DBool n) true) (map BVar (seq 0 n)) = true.
Proof. rewrite forallb_map. apply forallb_seq. intros i Hi. apply ok_bvar_repeat. lia. Qed.

(* ---------------------------------------------------------------- Graph/Acyclic.v::post_acyclic *)
From Cspuz Require Graph.Acyclic.

Section AcyWf.
  Variables (vs : list vdecl) (ks : list bool) (ranks flags : list expr) (g : graph).
  Hypothesis Hranks : forallb (ok vs false) ranks = true.
  Hypothesis Hflags : forallb (ok vs true) flags = true.

  Lemma acy_edge_loop_good i : forall inc st less st' less',
    good vs ks st -> forallb (ok vs true) less = true ->
    Acyclic.acy_edge_loop st ranks flags i inc less = Ok (st', less') ->
    good vs ks st' /\ forallb (ok vs true) less' = true.
  Proof.
    induction inc as [|[j e] inc IH]; intros st less st' less' G Hl H; cbn [Acyclic.acy_edge_loop] in H.
    - inversion H; subst. split; assumption.
    - unfold bind in H.
      destruct (Acyclic.py_get ranks j) as [rj|] eqn:E1; [|discriminate].
      destruct (Acyclic.py_get ranks i) as [ri|] eqn:E2; [|discriminate].
      destruct (Acyclic.py_get flags e) as [f|] eqn:E3; [|discriminate].
      destruct (Acyclic.py_dunder (make_bool_expr AND [i_lt rj ri; f])) as [a|] eqn:E4; [|discriminate].
      pose proof (nth_ok_in _ _ _ _ E1 Hranks) as Hrj. pose proof (nth_ok_in _ _ _ _ E2 Hranks) as Hri.
      pose proof (nth_ok_in _ _ _ _ E3 Hflags) as Hf.
      assert (Ha : ok vs true a = true).
      { unfold Acyclic.py_dunder in E4.
        destruct (make_bool_expr AND [i_lt rj ri; f]) as [a'|er] eqn:E5; [|destruct er; discriminate].
        inversion E4; subst a'. eapply make_and_ok; [exact E5| |exact Hf].
        unfold i_lt. autorewrite with okdb. rewrite Hrj, Hri. reflexivity. }
      eapply IH; [| |exact H].
      + destruct (Nat.ltb i j); [|exact G]. apply good_ensure1; [exact G|].
        unfold i_ne. autorewrite with okdb. rewrite Hrj, Hri. reflexivity.
      + rewrite forallb_app, Hl. simpl. rewrite Ha. reflexivity.
  Qed.

  Lemma acy_vertex_loop_good : forall l st st',
    good vs ks st -> Acyclic.acy_vertex_loop st ranks flags g l = Ok st' -> good vs ks st'.
  Proof.
    induction l as [|i l IH]; intros st st' G H; simpl in H.
    - inversion H; subst. exact G.
    - unfold bind in H.
      destruct (Acyclic.acy_edge_loop st ranks flags i (incident g i) []) as [[st1 less]|] eqn:E1; [|discriminate].
      destruct (count_true less) as [c|] eqn:E2; [|discriminate].
      destruct (acy_edge_loop_good _ _ _ [] _ _ G eq_refl E1) as [G1 Hless].
      eapply IH; [|exact H]. apply good_ensure1; [exact G1|].
      unfold i_le. autorewrite with okdb. eapply ok_count_true; eauto.
  Qed.
End AcyWf.

Theorem post_acyclic_wf st flags g st' :
  Acyclic.post_acyclic st flags g = Ok st' ->
  wf_state st -> wf_keys st -> forallb (ok (vars st) true) flags = true ->
  (wf_state st' /\ wf_keys st') /\
  vars st' = vars st ++ repeat (DInt 0 (Z.of_nat (nv g) - 1)) (nv g) /\
  keys st' = keys st ++ repeat false (nv g).
Proof.
  intros H W K Hf. unfold Acyclic.post_acyclic, bind in H.
  unfold int_array in H. destruct (Z.of_nat (nv g) - 1 <? 0)%Z; [discriminate|].
  rewrite int_vars_spec in H.
  set (n := nv g) in *. set (hi := (Z.of_nat n - 1)%Z) in *.
  set (vs' := vars st ++ repeat (DInt 0 hi) n). set (ks' := keys st ++ repeat false n).
  assert (Hranks : forallb (ok vs' false) (map (fun i => IVar i 0 hi) (seq (next_id st) n)) = true).
  { unfold vs', next_id. rewrite <- (app_nil_r (repeat (DInt 0 hi) n)). apply ok_new_ints. }
  assert (Hflags : forallb (ok vs' true) flags = true) by (unfold vs'; apply forallb_ok_more; exact Hf).
  pose proof (acy_vertex_loop_good vs' ks' _ _ g Hranks Hflags _ _ _ (wf_cons_good_more st _ _ W) H) as G.
  split; [|split; [exact (proj1 G)|exact (proj1 (proj2 G))]].
  apply (good_wf _ _ _ G). unfold ks', vs'. rewrite !app_length, !repeat_length. unfold wf_keys in K. lia.
Qed.

(* ---------------------------------------------------------------- Graph/Cycle.v::post_cycle (auxiliary-variable route) *)
From Cspuz Require Graph.Cycle Graph.CycleFrame.

Section CycWf.
  Variables (vs : list vdecl) (ks : list bool) (acts passed rank root : list expr) (g : graph).
  Hypothesis Hacts : forallb (ok vs true) acts = true.
  Hypothesis Hpassed : forallb (ok vs true) passed = true.
  Hypothesis Hrank : forallb (ok vs false) rank = true.
  Hypothesis Hroot : forallb (ok vs true) root = true.

  Lemma degree_expr_ok i d : Cycle.degree_expr acts g i = Ok d -> ok vs false d = true.
  Proof.
    unfold Cycle.degree_expr, Cycle.edge_items, bind. intros H.
    destruct (mapM _ (incident g i)) as [l|] eqn:E; [|discriminate].
    eapply ok_count_true; [|exact H]. eapply mapM_forallb; [|exact E].
    intros je y _ Hy. exact (nth_ok_in _ _ _ _ Hy Hacts).
  Qed.

  Lemma ge_items_ok i l : Cycle.ge_items acts rank g i = Ok l -> forallb (ok vs true) l = true.
  Proof.
    unfold Cycle.ge_items. intros H. eapply mapM_forallb; [|exact H].
    intros je y _ Hy. unfold bind in Hy.
    destruct (Cycle.py_nth acts (snd je)) as [a|] eqn:E1; [|discriminate].
    destruct (Cycle.py_nth rank (fst je)) as [rj|] eqn:E2; [|discriminate].
    destruct (Cycle.py_nth rank i) as [ri|] eqn:E3; [|discriminate].
    unfold Cycle.py_and in Hy. destruct (make_bool_expr AND [a; i_ge rj ri]) as [e|] eqn:E4; [|discriminate].
    inversion Hy; subst y. eapply make_and_ok; [exact E4|exact (nth_ok_in _ _ _ _ E1 Hacts)|].
    unfold i_ge. autorewrite with okdb.
    rewrite (nth_ok_in _ _ _ _ E2 Hrank), (nth_ok_in _ _ _ _ E3 Hrank). reflexivity.
  Qed.

  Lemma cycle_step_good i st st' :
    good vs ks st -> Cycle.cycle_step acts passed rank root g i st = Ok st' -> good vs ks st'.
  Proof.
    intros G H. unfold Cycle.cycle_step, bind in H.
    destruct (Cycle.degree_expr acts g i) as [deg|] eqn:E1; [|discriminate].
    destruct (Cycle.py_nth passed i) as [p|] eqn:E2; [|discriminate].
    destruct (Cycle.ge_items acts rank g i) as [items|] eqn:E3; [|discriminate].
    destruct (count_true items) as [cnt|] eqn:E4; [|discriminate].
    destruct (Cycle.py_nth root i) as [r|] eqn:E5; [|discriminate].
    inversion H; subst st'. clear H.
    pose proof (nth_ok_in _ _ _ _ E2 Hpassed) as Hp. pose proof (nth_ok_in _ _ _ _ E5 Hroot) as Hr.
    apply good_ensure1; [apply good_ensure1; [exact G|]|].
    - unfold i_eq, i_cond. autorewrite with okdb. rewrite (degree_expr_ok _ _ E1), Hp. reflexivity.
    - unfold b_imp, i_le, i_cond. autorewrite with okdb.
      rewrite Hp, Hr, (ok_count_true _ _ _ (ge_items_ok _ _ E3) E4). reflexivity.
  Qed.

  Lemma cycle_for_each_good : forall l st st',
    good vs ks st -> Cycle.for_each (Cycle.cycle_step acts passed rank root g) l st = Ok st' -> good vs ks st'.
  Proof.
    induction l as [|i l IH]; intros st st' G H; simpl in H.
    - inversion H; subst. exact G.
    - unfold bind in H. destruct (Cycle.cycle_step acts passed rank root g i st) as [st1|] eqn:E; [|discriminate].
      eapply IH; [|exact H]. eapply cycle_step_good; eauto.
  Qed.
End CycWf.

Theorem post_cycle_wf st acts g st' passed :
  Cycle.post_cycle st acts g false = Ok (st', passed) ->
  wf_state st -> wf_keys st -> forallb (ok (vars st) true) acts = true ->
  (wf_state st' /\ wf_keys st') /\
  vars st' = vars st ++ repeat DBool (nv g) ++ repeat (DInt 0 (Z.of_nat (nv g) - 1)) (nv g) ++ repeat DBool (nv g) /\
  keys st' = keys st ++ repeat false (nv g) ++ repeat false (nv g) ++ repeat false (nv g) /\
  passed = map BVar (seq (next_id st) (nv g)).
Proof.
  intros H W K Ha. unfold Cycle.post_cycle in H. unfold bool_array, int_array in H.
  rewrite bool_vars_spec in H. destruct (Z.of_nat (nv g) - 1 <? 0)%Z; [discriminate|].
  rewrite int_vars_spec in H. cbn [bind] in H. rewrite bool_vars_spec in H.
  unfold next_id in H. cbn [vars keys cons] in H.
  set (n := nv g) in *. set (hi := (Z.of_nat n - 1)%Z) in *.
  set (vs' := vars st ++ repeat DBool n ++ repeat (DInt 0 hi) n ++ repeat DBool n).
  set (ks' := keys st ++ repeat false n ++ repeat false n ++ repeat false n).
  unfold bind in H.
  match type of H with context [Cycle.for_each ?f ?l ?s] =>
    set (st3 := s) in H; destruct (Cycle.for_each f l st3) as [st4|] eqn:E4 end; [|discriminate].
  destruct (count_true _) as [cr|] eqn:E5; [|discriminate].
  inversion H; subst st' passed. clear H.
  assert (G3 : good vs' ks' st3).
  { unfold st3, vs', ks'. rewrite <- !app_assoc. split; [reflexivity|]. split; [reflexivity|].
    unfold wf_state; simpl. apply wf_cons_more. exact W. }
  assert (Hacts : forallb (ok vs' true) acts = true) by (unfold vs'; apply forallb_ok_more; exact Ha).
  assert (Hpassed : forallb (ok vs' true) (map BVar (seq (length (vars st)) n)) = true).
  { unfold vs'. apply ok_new_bools. }
  assert (Hrank : forallb (ok vs' false) (map (fun i => IVar i 0 hi) (seq (length (vars st ++ repeat DBool n)) n)) = true).
  { unfold vs'. rewrite (app_assoc (vars st)). apply ok_new_ints. }
  assert (Hroot : forallb (ok vs' true)
            (map BVar (seq (length ((vars st ++ repeat DBool n) ++ repeat (DInt 0 hi) n)) n)) = true).
  { unfold vs'. rewrite (app_assoc (vars st)), (app_assoc (vars st ++ _)).
    rewrite <- (app_nil_r (repeat DBool n)) at 2. apply ok_new_bools. }
  pose proof (cycle_for_each_good vs' ks' _ _ _ _ g Hacts Hpassed Hrank Hroot _ _ _ G3 E4) as G4.
  assert (G5 : good vs' ks' (ensure st4 [i_eq cr (PyInt 1)])).
  { apply good_ensure1; [exact G4|]. unfold i_eq. autorewrite with okdb. eapply ok_count_true; [|exact E5]. exact Hroot. }
  split; [|split; [exact (proj1 G5)|split; [exact (proj1 (proj2 G5))|reflexivity]]].
  apply (good_wf _ _ _ G5). unfold ks', vs'. rewrite !app_length, !repeat_length. unfold wf_keys in K. lia.
Qed.

(* the loop puzzles: graph.active_edges_single_cycle on the fresh BoolGridFrame (Puzzle/CycleFrameBase.v) *)
From Cspuz Require Import Puzzle.CycleFrameBase Puzzle.CycleCompose.

Theorem frame_cycle_wf h w st1 res : frame_cycle h w = Ok (st1, res) ->
  (wf_state st1 /\ wf_keys st1) /\
  (exists more, vars st1 = repeat DBool (frame_n h w) ++ more) /\
  (exists r, keys st1 = repeat true (frame_n h w) ++ r) /\
  vars st1 = repeat DBool (frame_n h w) ++ repeat DBool (S h * S w) ++
             repeat (DInt 0 (Z.of_nat (S h * S w) - 1)) (S h * S w) ++ repeat DBool (S h * S w).
Proof.
  unfold frame_cycle. intros H.
  destruct (CycleFrame.cycle_frame h w _ _ (frame_hor_length h w) (frame_ver_length h w))
    as [_ [Hnv [_ [_ [_ [Hc _]]]]]].
  rewrite Hc in H. clear Hc.
  destruct (Cycle.post_cycle _ _ _ false) as [[st' p]|] eqn:E; [|discriminate].
  inversion H; subst st1 res. clear H.
  destruct (post_cycle_wf _ _ _ _ _ E) as [WK [Hv [Hk _]]].
  - reflexivity.
  - unfold wf_keys; simpl. rewrite !repeat_length. reflexivity.
  - simpl. apply forallb_In. intros e He.
    apply (CycleFrame.frame_edges_in h w _ _ (frame_hor_length h w) (frame_ver_length h w)) in He.
    destruct He as [He|He]; apply in_map_iff in He; destruct He as [k [<- Hk']]; apply in_seq in Hk';
      apply ok_bvar_repeat; unfold frame_n; lia.
  - rewrite Hnv in Hv, Hk. simpl vars in Hv. simpl keys in Hk.
    split; [exact WK|]. split; [eexists; exact Hv|]. split; [eexists; exact Hk|exact Hv].
Qed.

(* ---------------------------------------------------------------- Graph/Division.v::post_division (auxiliary-variable route) *)
From Cspuz Require Graph.Division Graph.DivisionEval Puzzle.DivisionCompose.

Definition oks (vs : list vdecl) (b : bool) (l : list expr) : Prop := Forall (fun e => ok vs b e = true) l.

Lemma oks_forallb vs b l : oks vs b l <-> forallb (ok vs b) l = true.
Proof. unfold oks. rewrite Forall_forall, forallb_forall. tauto. Qed.

Lemma py_eq_ok vs a b : ok vs false a = true -> ok vs false b = true -> ok vs true (Division.py_eq a b) = true.
Proof.
  intros Ha Hb. destruct a, b; cbn [Division.py_eq]; try reflexivity; try discriminate;
    autorewrite with okdb; rewrite ?Ha, ?Hb; reflexivity.
Qed.

Lemma ok_count_true_F vs l ct : oks vs true l -> count_true l = Ok ct -> ok vs false ct = true.
Proof. intros H. apply ok_count_true. apply oks_forallb. exact H. Qed.

Section DivWf.
  Variables (vs : list vdecl) (labels rank root sf : list expr).
  Hypothesis Hlab : oks vs false labels.
  Hypothesis Hrank : oks vs false rank.
  Hypothesis Hroot : oks vs true root.
  Hypothesis Hsf : oks vs true sf.

  Lemma edge_item_ok i je less cs :
    Division.edge_item labels rank sf i je = Ok (less, cs) -> ok vs true less = true /\ oks vs true cs.
  Proof.
    destruct je as [j e]. unfold Division.edge_item.
    destruct (Division.nth_res sf e) as [sfe|] eqn:E1; simpl; [|discriminate].
    destruct (Division.nth_res rank i) as [ri|] eqn:E2; simpl; [|discriminate].
    destruct (Division.nth_res rank j) as [rj|] eqn:E3; simpl; [|discriminate].
    pose proof (DivisionCompose.nth_res_Forall _ _ _ _ Hsf E1) as H1.
    pose proof (DivisionCompose.nth_res_Forall _ _ _ _ Hrank E2) as H2.
    pose proof (DivisionCompose.nth_res_Forall _ _ _ _ Hrank E3) as H3.
    cbv beta in H1, H2, H3.
    assert (Hless : ok vs true (b_and sfe (i_gt ri rj)) = true).
    { unfold b_and, i_gt. autorewrite with okdb. rewrite H1, H2, H3. reflexivity. }
    destruct (Nat.ltb i j).
    - destruct (Division.nth_res labels i) as [di|] eqn:E4; simpl; [|discriminate].
      destruct (Division.nth_res labels j) as [dj|] eqn:E5; simpl; [|discriminate].
      pose proof (DivisionCompose.nth_res_Forall _ _ _ _ Hlab E4) as H4.
      pose proof (DivisionCompose.nth_res_Forall _ _ _ _ Hlab E5) as H5. cbv beta in H4, H5.
      intros H; inversion H; subst. split; [exact Hless|].
      constructor; [|constructor]. unfold b_imp, b_and, i_ne. autorewrite with okdb.
      rewrite H1, H2, H3, (py_eq_ok _ _ _ H4 H5). reflexivity.
    - intros H; inversion H; subst. split; [exact Hless|constructor].
  Qed.

  Lemma vertex_cons_ok g i cs : Division.vertex_cons labels rank root sf g i = Ok cs -> oks vs true cs.
  Proof.
    unfold Division.vertex_cons.
    destruct (mapM (Division.edge_item labels rank sf i) (incident g i)) as [items|] eqn:E; simpl; [|discriminate].
    pose proof (DivisionCompose.mapM_Forall _ (fun p => ok vs true (fst p) = true /\ oks vs true (snd p)) _ _
                  (fun a b _ Hb => edge_item_ok i a (fst b) (snd b)
                                     (eq_trans Hb (f_equal Ok (surjective_pairing b)))) E) as HF.
    destruct (count_true (map fst items)) as [ct|] eqn:E2; simpl; [|discriminate].
    destruct (Division.nth_res root i) as [rt|] eqn:E3; simpl; [|discriminate].
    intros H; inversion H; subst. apply Forall_app. split.
    - apply DivisionCompose.Forall_concat. rewrite Forall_map. eapply Forall_impl; [|exact HF]. intros a [_ Ha]; exact Ha.
    - constructor; [|constructor]. unfold i_eq, i_cond. autorewrite with okdb.
      pose proof (DivisionCompose.nth_res_Forall _ _ _ _ Hroot E3) as Hrt. cbv beta in Hrt. rewrite Hrt.
      rewrite (ok_count_true_F vs (map fst items) ct); [reflexivity| |exact E2].
      unfold oks. rewrite Forall_map. eapply Forall_impl; [|exact HF]. intros a [Ha _]; exact Ha.
  Qed.

  Lemma region_count_ok aeg c e : Division.region_count labels root aeg c = Ok e -> ok vs true e = true.
  Proof.
    unfold Division.region_count.
    destruct (count_true _) as [ct|] eqn:E; simpl; [|discriminate].
    intros H; inversion H; subst.
    assert (Hct : ok vs false ct = true).
    { eapply ok_count_true_F; [|exact E].
      apply (DivisionCompose.Forall_zip_with _ (fun e => ok vs true e = true) (fun e => ok vs false e = true));
        [|exact Hroot|exact Hlab].
      intros a b Ha Hb. unfold b_and. autorewrite with okdb. rewrite Ha, (py_eq_ok _ _ _ Hb (ok_pyint _ _)). reflexivity. }
    destruct aeg; unfold i_le, i_eq; autorewrite with okdb; exact Hct.
  Qed.

  Lemma aux_roots_ok rs : forall c cs, Division.aux_roots labels root c rs = Ok cs -> oks vs true cs.
  Proof.
    induction rs as [|a rs IH]; intros c cs H; simpl in H.
    - inversion H; constructor.
    - destruct a as [|z|l]; [eapply IH; exact H| |discriminate].
      destruct (Division.py_nth labels z) as [d|] eqn:E1; simpl in H; [|discriminate].
      destruct (Division.py_nth root z) as [r|] eqn:E2; simpl in H; [|discriminate].
      destruct (Division.aux_roots labels root (S c) rs) as [rest|] eqn:E3; simpl in H; [|discriminate].
      inversion H; subst. constructor; [|constructor].
      + apply py_eq_ok; [|reflexivity].
        exact (DivisionCompose.py_nth_Forall (fun e => ok vs false e = true) labels z d Hlab E1).
      + exact (DivisionCompose.py_nth_Forall (fun e => ok vs true e = true) root z r Hroot E2).
      + eapply IH; exact E3.
  Qed.

  Lemma aux_constraints_ok g R roots aeg cs :
    Division.aux_constraints labels rank root sf g R roots aeg = Ok cs -> oks vs true cs.
  Proof.
    unfold Division.aux_constraints.
    destruct (mapM (Division.vertex_cons labels rank root sf g) (seq 0 (nv g))) as [vs'|] eqn:E1; simpl; [|discriminate].
    destruct (mapM (Division.region_count labels root aeg) (seq 0 R)) as [rc|] eqn:E2; simpl; [|discriminate].
    destruct (Division.opt_roots (Division.aux_roots labels root 0) roots) as [rs|] eqn:E3; simpl; [|discriminate].
    intros H; inversion H; subst. apply Forall_app. split; [|apply Forall_app; split].
    - apply DivisionCompose.Forall_concat. eapply DivisionCompose.mapM_Forall; [|exact E1].
      intros a b _ Hb. eapply vertex_cons_ok; exact Hb.
    - eapply DivisionCompose.mapM_Forall; [|exact E2]. intros a b _ Hb. eapply region_count_ok; exact Hb.
    - destruct roots as [l|]; simpl in E3; [eapply aux_roots_ok; exact E3|inversion E3; constructor].
  Qed.
End DivWf.

Theorem post_division_wf st s R g roots aeg st' :
  Division.post_division st s R g roots aeg false = Ok st' ->
  wf_state st -> wf_keys st -> forallb (ok (vars st) false) (Division.seq_data s) = true ->
  (wf_state st' /\ wf_keys st') /\
  vars st' = vars st ++ repeat (DInt 0 (Z.of_nat (nv g) - 1)) (nv g) ++ repeat DBool (nv g) ++
             repeat DBool (length (edges g)) /\
  keys st' = keys st ++ repeat false (nv g + nv g + length (edges g)).
Proof.
  intros H W K Hl.
  pose proof (DivisionCompose.post_division_keys _ _ _ _ _ _ _ H) as Hk.
  destruct (DivisionCompose.post_division_shape _ _ _ _ _ _ _ H) as [cs [E Hcs]].
  set (n := nv g) in *. set (m := length (edges g)) in *. set (hi := (Z.of_nat n - 1)%Z) in *.
  set (vs' := vars st ++ repeat (DInt 0 hi) n ++ repeat DBool n ++ repeat DBool m).
  assert (Hv : vars st' = vs').
  { rewrite E. unfold ensure, DivisionEval.add_decls; simpl. unfold vs'. rewrite <- !app_assoc. reflexivity. }
  assert (Hcs' : oks vs' true cs).
  { eapply aux_constraints_ok; [| | | |exact Hcs].
    - apply oks_forallb. unfold vs'. apply forallb_ok_more. exact Hl.
    - apply oks_forallb. rewrite forallb_map. apply forallb_seq. intros i Hi. unfold vs', next_id.
      apply ok_ivar_block. lia.
    - apply oks_forallb. rewrite forallb_map. apply forallb_seq. intros i Hi. unfold vs', next_id.
      rewrite (app_assoc (vars st)). apply ok_bvar_block. rewrite app_length, repeat_length. lia.
    - apply oks_forallb. rewrite forallb_map. apply forallb_seq. intros i Hi. unfold vs', next_id.
      rewrite (app_assoc (vars st)), (app_assoc (vars st ++ _)). rewrite <- (app_nil_r (repeat DBool m)).
      apply ok_bvar_block. rewrite !app_length, !repeat_length. lia. }
  split; [split|split; [exact Hv|exact Hk]].
  - unfold wf_state. rewrite Hv. rewrite E. unfold ensure, DivisionEval.add_decls; simpl. apply wf_cons_app.
    + unfold vs'. apply wf_cons_more. exact W.
    + apply oks_forallb. exact Hcs'.
  - unfold wf_keys. rewrite Hv, Hk. unfold vs'. rewrite !app_length, !repeat_length. unfold wf_keys in K. lia.
Qed.

(* the grid form of division_connected *)
Theorem division_connected_grid_wf st h w data R roots aeg st' :
  Division.division_connected st (Division.D2 h w data) R None roots aeg false = Ok st' ->
  wf_state st -> wf_keys st -> forallb (ok (vars st) false) data = true ->
  (wf_state st' /\ wf_keys st') /\
  vars st' = vars st ++ repeat (DInt 0 (Z.of_nat (h * w) - 1)) (h * w) ++ repeat DBool (h * w) ++
             repeat DBool (length (grid_edges h w)) /\
  keys st' = keys st ++ repeat false (h * w + h * w + length (grid_edges h w)).
Proof.
  unfold Division.division_connected. intros H W K Hl. unfold bind in H.
  destruct (match roots with None => Ok None | Some rs => rmap Some (mapM (Division.conv_root w) rs) end) as [rc|];
    [|discriminate].
  exact (post_division_wf _ _ _ _ _ _ _ H W K Hl).
Qed.

(* ids read by the Tier-1 theorems stated with DivisionCompose.key_ids are keys *)
Lemma key_ids_keys st i : In i (DivisionCompose.key_ids st) -> nth_error (keys st) i = Some true.
Proof.
  unfold DivisionCompose.key_ids. intros H. apply filter_In in H. destruct H as [Hi Ht]. apply in_seq in Hi.
  rewrite (nth_error_nth' _ false) by lia. rewrite Ht. reflexivity.
Qed.

Lemma post_division_nonempty st s R g roots aeg st' :
  Division.post_division st s R g roots aeg false = Ok st' -> 1 <= nv g.
Proof.
  unfold Division.post_division, int_array, bind.
  destruct (Z.ltb_spec (Z.of_nat (nv g) - 1) 0); [discriminate|]. intros _. lia.
Qed.
Lemma division_connected_grid_nonempty st h w data R roots aeg st' :
  Division.division_connected st (Division.D2 h w data) R None roots aeg false = Ok st' -> 1 <= h * w.
Proof.
  unfold Division.division_connected. intros H. unfold bind in H.
  destruct (match roots with None => Ok None | Some rs => rmap Some (mapM (Division.conv_root w) rs) end) as [rc|];
    [|discriminate].
  exact (post_division_nonempty _ _ _ _ _ _ _ H).
Qed.
