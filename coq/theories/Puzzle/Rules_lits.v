(* C11 rule specification - LITS.
   Published rules (Nikoli, "LITS"):
     1. Paint four connected cells (a tetromino) black in every region.
     2. Black cells cannot form a 2x2 square.
     3. Tetrominoes of the same shape (L, I, T or S; rotations and reflections
        count as the same shape) cannot be adjacent horizontally or vertically.
     4. All black cells must be connected horizontally or vertically.

   problem = [[h; w]; region]   region: h*w region ids 0..k-1 row-major
   answer  = h*w cells row-major, 1 = black *)
From Coq Require Import ZArith List Bool Arith.
From Cspuz Require Import Graph.GraphModel Puzzle.PuzzleBase Puzzle.Rules_norinori.
Import ListNotations.

(* all 19 fixed tetrominoes, cells in row-major order with the bounding box at
   the origin; 0 = I, 1 = L, 2 = T, 3 = S, 4 = O *)
Definition tetrominoes : list (list (nat * nat) * nat) :=
  [([(0, 0); (0, 1); (0, 2); (0, 3)], 0);
   ([(0, 0); (1, 0); (2, 0); (3, 0)], 0);
   ([(0, 0); (0, 1); (0, 2); (1, 0)], 1);
   ([(0, 0); (0, 1); (0, 2); (1, 2)], 1);
   ([(0, 0); (0, 1); (1, 0); (2, 0)], 1);
   ([(0, 0); (0, 1); (1, 1); (2, 1)], 1);
   ([(0, 0); (1, 0); (1, 1); (1, 2)], 1);
   ([(0, 0); (1, 0); (2, 0); (2, 1)], 1);
   ([(0, 1); (1, 1); (2, 0); (2, 1)], 1);
   ([(0, 2); (1, 0); (1, 1); (1, 2)], 1);
   ([(0, 0); (0, 1); (0, 2); (1, 1)], 2);
   ([(0, 0); (1, 0); (1, 1); (2, 0)], 2);
   ([(0, 1); (1, 0); (1, 1); (1, 2)], 2);
   ([(0, 1); (1, 0); (1, 1); (2, 1)], 2);
   ([(0, 0); (0, 1); (1, 1); (1, 2)], 3);
   ([(0, 0); (1, 0); (1, 1); (2, 1)], 3);
   ([(0, 1); (0, 2); (1, 0); (1, 1)], 3);
   ([(0, 1); (1, 0); (1, 1); (2, 0)], 3);
   ([(0, 0); (0, 1); (1, 0); (1, 1)], 4)].

Fixpoint cells_eqb (a b : list (nat * nat)) : bool :=
  match a, b with
  | [], [] => true
  | (y, x) :: r, (y', x') :: s => Nat.eqb y y' && Nat.eqb x x' && cells_eqb r s
  | _, _ => false
  end.
(* shape of a set of cells given in row-major order; None if it is not a tetromino *)
Definition shape_of (cs : list (nat * nat)) : option nat :=
  let least := fun l => match l with [] => 0 | a :: r => fold_right Nat.min a r end in
  let my := least (map fst cs) in
  let mx := least (map snd cs) in
  let n := map (fun '(y, x) => (y - my, x - mx)) cs in
  match filter (fun '(t, _) => cells_eqb t n) tetrominoes with
  | (_, s) :: _ => Some s
  | [] => None
  end.

Definition rules_lits (pb : problem) (ans : answer) : bool :=
  let h := dim pb 0 in let w := dim pb 1 in
  let region := sec pb 1 in
  let black := fun '(y, x) => isb (at2 ans w y x) in
  let cs := cells h w in
  let shape := fun i => shape_of (filter (fun '(y, x) => (at2 region w y x =? Z.of_nat i)%Z && black (y, x)) cs) in
  let shape_at := fun '(y, x) => shape (zn (at2 region w y x)) in
  Nat.eqb (length ans) (h * w) && forallb is01 ans &&
  forallb (fun i => match shape i with Some _ => true | None => false end) (seq 0 (n_regions region)) &&
  negb (has_2x2 h w (fun y x => black (y, x))) &&
  forallb (fun '(y, x) => forallb (fun '(y', x') =>
     negb (black (y, x) && black (y', x') && negb (at2 region w y x =? at2 region w y' x')%Z) ||
     match shape_at (y, x), shape_at (y', x') with
     | Some a, Some b => negb (Nat.eqb a b)
     | _, _ => false
     end) (nbr4 h w y x)) cs &&
  cells_connected h w (fun v => isb (getz ans v)).

Definition answers_lits (pb : problem) : list answer :=
  all_answers (bool_doms (dim pb 0 * dim pb 1)).
