(* C11 Tier 1 - view: the four sight distances of a cell as functions of the set of number cells (their
   recurrences are the recurrences the solver posts for to_up / to_down / to_left / to_right), the meaning of the
   posted constraint shapes, and list facts. *)
From Coq Require Import ZArith List Bool Arith Lia.
From Cspuz Require Import Lib.PyErr Core.Expr Core.Program Graph.Avc
     Puzzle.PuzzleBase Puzzle.SatAbs Puzzle.ModelBase Puzzle.ModelLemmas Puzzle.AkariLemmas Puzzle.View.
Import ListNotations.
Local Open Scope nat_scope.

(* ---- lists *)
Lemma vw_take_while_le {A} (f : A -> bool) l : length (take_while f l) <= length l.
Proof. induction l as [|a r IH]; simpl; [lia|]. destruct (f a); simpl; lia. Qed.
Lemma vw_take_while_ext_in {A} (f g : A -> bool) l :
  (forall a, In a l -> f a = g a) -> take_while f l = take_while g l.
Proof.
  induction l as [|a r IH]; intros E; simpl; [reflexivity|].
  rewrite (E a (or_introl eq_refl)), IH by (intros; apply E; right; assumption). reflexivity.
Qed.
Lemma up_cells_length x y : length (up_cells x y) = y.
Proof. induction y; simpl; congruence. Qed.
Lemma left_cells_length y x : length (left_cells y x) = x.
Proof. induction x; simpl; congruence. Qed.
Lemma map_seq_from {A} (f : nat -> A) k : forall b, map f (seq b k) = map (fun j => f (b + j)) (seq 0 k).
Proof.
  induction k as [|k IH]; intros b; [reflexivity|]. cbn [seq map]. rewrite Nat.add_0_r. f_equal.
  rewrite (IH (S b)), <- seq_shift, map_map. apply map_ext. intros j. f_equal. lia.
Qed.
Lemma firstn_app_len {A} (a b : list A) k : length a = k -> firstn k (a ++ b) = a.
Proof. intros <-. rewrite firstn_app, Nat.sub_diag, firstn_all. simpl. apply app_nil_r. Qed.
Lemma skipn_app_len {A} (a b : list A) k : length a = k -> skipn k (a ++ b) = b.
Proof. intros <-. rewrite skipn_app, Nat.sub_diag, skipn_all. reflexivity. Qed.
Lemma getz_app1 a b k : k < length a -> getz (a ++ b) k = getz a k.
Proof. intros H. unfold getz. apply app_nth1. exact H. Qed.
Lemma getz_app2 a b k : getz (a ++ b) (length a + k) = getz b k.
Proof. unfold getz. apply app_nth2_plus. Qed.
Lemma getz_overflow l k : length l <= k -> getz l k = 0%Z.
Proof. intros H. unfold getz. apply nth_overflow. exact H. Qed.

Lemma cidx_div w y x : x < w -> cidx w (y, x) / w = y.
Proof.
  intros H. unfold cidx. cbn [fst snd]. rewrite Nat.div_add_l by lia. rewrite Nat.div_small by exact H. lia.
Qed.
Lemma cidx_mod w y x : x < w -> cidx w (y, x) mod w = x.
Proof.
  intros H. unfold cidx. cbn [fst snd]. rewrite Nat.add_comm, Nat.mod_add by lia. apply Nat.mod_small. exact H.
Qed.

Lemma nbr4_iff h w y x q :
  In q (nbr4 h w y x) <->
  ((0 < y /\ q = (y - 1, x)) \/ (S y < h /\ q = (S y, x)) \/ (0 < x /\ q = (y, x - 1)) \/ (S x < w /\ q = (y, S x))).
Proof.
  unfold nbr4. rewrite !in_app_iff.
  destruct (Nat.ltb_spec 0 y), (Nat.ltb_spec (S y) h), (Nat.ltb_spec 0 x), (Nat.ltb_spec (S x) w); simpl;
    intuition (try lia; auto).
Qed.

(* ---- what is seen from (y, x) in the four directions: the run of cells without a number *)
Section Runs.
  Variables (h w : nat) (has : nat * nat -> bool).

  Definition run_up (y x : nat) : nat := length (take_while (fun q => negb (has q)) (up_cells x y)).
  Definition run_down (y x : nat) : nat :=
    length (take_while (fun q => negb (has q)) (map (fun y' => (y', x)) (seq (S y) (h - S y)))).
  Definition run_left (y x : nat) : nat := length (take_while (fun q => negb (has q)) (left_cells y x)).
  Definition run_right (y x : nat) : nat :=
    length (take_while (fun q => negb (has q)) (map (fun x' => (y, x')) (seq (S x) (w - S x)))).

  Lemma run_up_0 x : run_up 0 x = 0.
  Proof. reflexivity. Qed.
  Lemma run_up_S y x : run_up (S y) x = if has (y, x) then 0 else S (run_up y x).
  Proof. unfold run_up. simpl. destruct (has (y, x)); reflexivity. Qed.
  Lemma run_left_0 y : run_left y 0 = 0.
  Proof. reflexivity. Qed.
  Lemma run_left_S y x : run_left y (S x) = if has (y, x) then 0 else S (run_left y x).
  Proof. unfold run_left. simpl. destruct (has (y, x)); reflexivity. Qed.
  Lemma run_down_last y x : h <= S y -> run_down y x = 0.
  Proof. intros H. unfold run_down. replace (h - S y) with 0 by lia. reflexivity. Qed.
  Lemma run_down_S y x : S y < h -> run_down y x = if has (S y, x) then 0 else S (run_down (S y) x).
  Proof.
    intros H. unfold run_down. replace (h - S y) with (S (h - S (S y))) by lia. simpl.
    destruct (has (S y, x)); reflexivity.
  Qed.
  Lemma run_right_last y x : w <= S x -> run_right y x = 0.
  Proof. intros H. unfold run_right. replace (w - S x) with 0 by lia. reflexivity. Qed.
  Lemma run_right_S y x : S x < w -> run_right y x = if has (y, S x) then 0 else S (run_right y (S x)).
  Proof.
    intros H. unfold run_right. replace (w - S x) with (S (w - S (S x))) by lia. simpl.
    destruct (has (y, S x)); reflexivity.
  Qed.

  Lemma run_up_le y x : run_up y x <= y.
  Proof. unfold run_up. etransitivity; [apply vw_take_while_le|]. rewrite up_cells_length. lia. Qed.
  Lemma run_left_le y x : run_left y x <= x.
  Proof. unfold run_left. etransitivity; [apply vw_take_while_le|]. rewrite left_cells_length. lia. Qed.
  Lemma run_down_le y x : run_down y x <= h - S y.
  Proof. unfold run_down. etransitivity; [apply vw_take_while_le|]. rewrite map_length, seq_length. lia. Qed.
  Lemma run_right_le y x : run_right y x <= w - S x.
  Proof. unfold run_right. etransitivity; [apply vw_take_while_le|]. rewrite map_length, seq_length. lia. Qed.

  (* the sum the rules take over the four rays *)
  Lemma rays_total y x : y < h -> x < w ->
    fold_right Nat.add 0
      (map (fun '(dy, dx) => length (take_while (fun q => negb (has q)) (ray h w y x dy dx)))
           [((-1)%Z, 0%Z); (1%Z, 0%Z); (0%Z, (-1)%Z); (0%Z, 1%Z)]) =
    run_up y x + run_down y x + run_left y x + run_right y x.
  Proof.
    intros Hy Hx. cbn [map fold_right].
    rewrite (ray_up h w y x Hy Hx), (ray_down h w y x Hy Hx), (ray_left h w y x Hy Hx), (ray_right h w y x Hy Hx).
    unfold run_up, run_down, run_left, run_right. lia.
  Qed.
End Runs.

Lemma run_ext h w has1 has2 :
  (forall y x, y < h -> x < w -> has1 (y, x) = has2 (y, x)) ->
  forall y x, y < h -> x < w ->
  run_up has1 y x = run_up has2 y x /\ run_down h has1 y x = run_down h has2 y x /\
  run_left has1 y x = run_left has2 y x /\ run_right w has1 y x = run_right w has2 y x.
Proof.
  intros E y x Hy Hx.
  assert (Hr : forall dy dx, take_while (fun q => negb (has1 q)) (ray h w y x dy dx) =
                             take_while (fun q => negb (has2 q)) (ray h w y x dy dx)).
  { intros dy dx. apply vw_take_while_ext_in. intros [y' x'] Hq. apply ray_in in Hq. cbn [fst snd] in Hq.
    rewrite E by tauto. reflexivity. }
  pose proof (Hr (-1)%Z 0%Z) as H1. pose proof (Hr 1%Z 0%Z) as H2.
  pose proof (Hr 0%Z (-1)%Z) as H3. pose proof (Hr 0%Z 1%Z) as H4.
  rewrite (ray_up h w y x Hy Hx) in H1. rewrite (ray_down h w y x Hy Hx) in H2.
  rewrite (ray_left h w y x Hy Hx) in H3. rewrite (ray_right h w y x Hy Hx) in H4.
  unfold run_up, run_down, run_left, run_right. rewrite H1, H2, H3, H4. repeat split; reflexivity.
Qed.

(* ---- the posted constraint shapes *)
Section Sem.
  Variable gsem : op -> list (option value) -> option bool.
  Variable en : env.
  Notation hold := (holds gsem en).

  Lemma hold_vw_zero i lo hi : hold (vw_zero (IVar i lo hi)) = true <-> ei en i = 0%Z.
  Proof.
    unfold holds, vw_zero. cbn. destruct (Z.eqb_spec (ei en i) 0); split; intros; try assumption; try reflexivity;
      try discriminate; contradiction.
  Qed.
  Lemma hold_vw_step i lo hi b j lo' hi' :
    hold (vw_step (IVar i lo hi) (BVar b) (IVar j lo' hi')) = true <->
    ei en i = (if eb en b then 0 else ei en j + 1)%Z.
  Proof.
    unfold holds, vw_step. cbn. destruct (eb en b).
    - destruct (Z.eqb_spec (ei en i) 0); split; intros; try assumption; try reflexivity; try discriminate; contradiction.
    - match goal with |- context [(?a =? ?b)%Z] => destruct (Z.eqb_spec a b) end;
        split; intros; try reflexivity; try discriminate; lia.
  Qed.
  Lemma hold_bvar i : hold (BVar i) = true <-> eb en i = true.
  Proof. unfold holds. cbn. destruct (eb en i); split; intros; try reflexivity; discriminate. Qed.
  Lemma hold_num_eq i lo hi v : hold (BNode EQ [IVar i lo hi; PyInt v]) = true <-> ei en i = v.
  Proof.
    unfold holds. cbn. destruct (Z.eqb_spec (ei en i) v); split; intros; try assumption; try reflexivity;
      try discriminate; contradiction.
  Qed.

  Variables h w : nat.
  Notation n := (h * w).

  Lemma hold_view_sum c :
    hold (view_sum h w c) = true <->
    (eb en (cidx w c) = true ->
     ei en (3 * n + cidx w c) =
     (ei en (4 * n + cidx w c) + ei en (6 * n + cidx w c) + ei en (5 * n + cidx w c) + ei en (7 * n + cidx w c))%Z).
  Proof.
    unfold holds, view_sum, vw_has, vw_num, vw_up, vw_down, vw_left, vw_right. cbn.
    destruct (eb en (cidx w c)); cbn.
    - match goal with |- context [(?a =? ?b)%Z] => destruct (Z.eqb_spec a b) end;
        split; intros H; try reflexivity; try discriminate; [lia|].
      exfalso. specialize (H eq_refl). lia.
    - split; intros; [discriminate|reflexivity].
  Qed.
  Lemma hold_view_ne a b :
    hold (view_ne h w a b) = true <->
    (eb en (cidx w a) = true -> eb en (cidx w b) = true -> ei en (3 * n + cidx w a) <> ei en (3 * n + cidx w b)).
  Proof.
    unfold holds, view_ne, vw_has, vw_num. cbn.
    destruct (eb en (cidx w a)), (eb en (cidx w b)); cbn;
      try (split; intros; [discriminate|reflexivity]).
    match goal with |- context [(?p =? ?q)%Z] => destruct (Z.eqb_spec p q) end; cbn;
      split; intros H; try reflexivity; try discriminate; auto.
    exfalso. apply (H eq_refl eq_refl). assumption.
  Qed.
  Lemma hold_view_blank c :
    hold (view_blank h w c) = true <-> (eb en (cidx w c) = false -> ei en (3 * n + cidx w c) = 0%Z).
  Proof.
    unfold holds, view_blank, vw_has, vw_num. cbn -[Nat.mul]. destruct (eb en (cidx w c)); cbn -[Nat.mul].
    - split; intros; [discriminate|reflexivity].
    - destruct (Z.eqb_spec (ei en (3 * n + cidx w c)) 0) as [E|E]; split; intros H; try reflexivity; try discriminate.
      + intros _. exact E.
      + exfalso. apply E. apply H. reflexivity.
  Qed.
  Lemma hold_view_clue grid c :
    forallb hold (view_clue h w grid c) = true <->
    ((0 <= at2 grid w (fst c) (snd c))%Z ->
     ei en (3 * n + cidx w c) = at2 grid w (fst c) (snd c) /\ eb en (cidx w c) = true).
  Proof.
    unfold view_clue. destruct (Z.leb_spec 0 (at2 grid w (fst c) (snd c))) as [L|L].
    - cbn [forallb]. rewrite andb_true_r, andb_true_iff. unfold vw_num, vw_has.
      rewrite hold_num_eq, hold_bvar. tauto.
    - cbn [forallb]. split; [intros _ H; lia|reflexivity].
  Qed.
End Sem.
