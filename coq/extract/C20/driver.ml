open Model
open Zutil

(* ---- Coq string (char list under ExtrOcamlString) <-> OCaml string, hex on the wire ---- *)
let cs_of_string (s : String.t) : char list = List.init (String.length s) (String.get s)
let string_of_cs (cs : char list) : String.t =
  let b = Buffer.create 16 in List.iter (Buffer.add_char b) cs; Buffer.contents b
let hex_of (s : String.t) : String.t =
  if s = "" then "." else
  String.concat "" (List.map (fun c -> Printf.sprintf "%02x" (Char.code c)) (cs_of_string s))
let unhex (h : String.t) : String.t =
  if h = "." then "" else
  String.init (String.length h / 2) (fun i -> Char.chr (int_of_string ("0x" ^ String.sub h (2 * i) 2)))
let cs_of_hex h = cs_of_string (unhex h)
let hex_of_cs cs = hex_of (string_of_cs cs)

(* optional string on the wire: "-" = absent, otherwise hex ("." = empty string) *)
let opt_of tok = if tok = "-" then None else Some (cs_of_hex tok)
let show_opt = function None -> "-" | Some s -> hex_of_cs s

let err e = "E " ^ string_of_int (int_of_nat (pyerr_code e))
let b01 b = if b then "1" else "0"
let bool_of tok = (tok = "1")

let t = the_tables

let env_of d p g v =
  let add k o l = match o with None -> l | Some s -> (k, s) :: l in
  env_of_list (add t.t_env_backend (opt_of d) (add t.t_env_path (opt_of p)
               (add t.t_env_prim (opt_of g) (add t.t_env_div (opt_of v) []))))

(* availability: 4 flags for the modules cspuz_core enigma_csp pycsugar z3 *)
let avail_of a =
  let names = ["cspuz_core"; "enigma_csp"; "pycsugar"; "z3"] in
  let l = List.filteri (fun i _ -> a.[i] = '1') names in
  avail_of_list (List.map cs_of_string l)

let show_cfg = function
  | Err e -> err e
  | Ok c -> Printf.sprintf "OK %s %s %s %s" (hex_of_cs c.default_backend) (show_opt c.backend_path)
              (b01 c.use_graph_primitive) (b01 c.use_graph_division_primitive)

let cfg_of db bp p d =
  { default_backend = cs_of_hex db; backend_path = opt_of bp;
    use_graph_primitive = bool_of p; use_graph_division_primitive = bool_of d }

let barg_of kind v = match kind with
  | "N" -> BNone
  | "S" -> BName (cs_of_hex v)
  | "C" -> BClass (cs_of_hex v)
  | _ -> failwith "barg"

let show_cls = function
  | ClsNamed q -> "named:" ^ string_of_cs q
  | ClsUser id -> "user:" ^ string_of_cs id

let show_entry = function
  | CallSubprocess a -> "subprocess:" ^ hex_of_cs a
  | CallModule m -> "module:" ^ string_of_cs m
  | CallUser id -> "user:" ^ string_of_cs id

let arg_of = function "N" -> None | "T" -> Some true | "F" -> Some false | _ -> failwith "arg"

let show_ops = function
  | Err e -> err e
  | Ok l ->
      let has o = List.exists (fun x -> x = o) l in
      Printf.sprintf "OK avc=%s div=%s" (b01 (has OpAVC)) (b01 (has OpDIV))

let handle toks = match toks with
  | ["CFG"; infer; d; p; g; v; a] ->
      show_cfg (config_of_env t (bool_of infer) (env_of d p g v) (avail_of a))
  | ["STB"; s] ->
      (match strtobool t (cs_of_hex s) with Ok b -> "OK " ^ b01 b | Err e -> err e)
  | ["DET"; a] -> "OK " ^ string_of_cs (detect_backend t (avail_of a))
  | ["NAME"; s] ->
      (match backend_by_name t (cs_of_hex s) with Ok q -> "OK " ^ string_of_cs q | Err e -> err e)
  | ["RCV"; kind; v; db; bp] ->
      (match solve_receiver t (barg_of kind v) (cfg_of db bp "0" "0") with
       | Ok (c, e) -> "OK " ^ show_cls c ^ " " ^ show_entry e
       | Err e -> err e)
  | ["GB"; kind; v; db] ->
      (match get_backend t (barg_of kind v) (cfg_of db "-" "0" "0") with
       | Ok c -> "OK " ^ show_cls c | Err e -> err e)
  | ["PRIM"; fn; p; d; arg; acyclic; explicit; dd] ->
      show_ops (emits t (cs_of_string fn) (cfg_of "." "-" p d) (arg_of arg) (bool_of acyclic) (bool_of explicit) (bool_of dd))
  | ["SITE"; fn; p; d; arg; acyclic] ->
      (match resolve_primitive t (cs_of_string fn) (cfg_of "." "-" p d) (arg_of arg) (bool_of acyclic) with
       | None -> "NONE" | Some b -> "OK " ^ b01 b)
  | _ -> "EXN bad request"

let () = main_loop handle
