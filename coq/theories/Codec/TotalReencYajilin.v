(* C17: re-encodability of yajilin.  The term Grid(OneOf(YajilinClue(), Spaces("..", "a"))) uses a
   Combinator subclass (Codec/Yajilin.v), outside C15's wf.  Whatever YajilinClue.deserialize returns
   is "??" or an arrow character followed by the decimal text of a number 0..4095 - the domain on
   which C16 (Codec/YajilinProofs.v) proves serialize total and the round trip; hence every decoded
   yajilin problem is serialized again and its canonical text decodes to the same problem, for
   every declared size (zero included). *)
From Coq Require Import ZArith List Ascii Bool NArith Lia.
From Cspuz Require Import Lib.PyErr Codec.Comb Codec.CombWf Codec.CombBasics Codec.CombLeaf Codec.CombRoundTrip
  Codec.Yajilin Codec.Puzzles Codec.PuzzleProofs Codec.YajilinProofs
  Codec.TotalModel Codec.TotalLeaf Codec.Total Codec.TotalReencModel Codec.TotalReencLeaf Codec.TotalReenc Gen.Codecs.
Import ListNotations.
Local Open Scope Z_scope.

(* ------------------------------------------------------------------ int(s, base) is below base ^ len(s) *)
Lemma parse_digits_bound base : 1 <= base -> forall s us acc v, 0 <= acc ->
  parse_digits base s us acc = Some v -> v < (acc + 1) * base ^ Z.of_nat (length s).
Proof.
  intros Hb. induction s as [|c t IH]; intros us acc v Ha H; simpl in H.
  - destruct us; [discriminate|]. inversion H; subst. simpl. lia.
  - assert (Hpow : 0 < base ^ Z.of_nat (length t)) by (apply Z.pow_pos_nonneg; lia).
    replace (Z.of_nat (length (c :: t))) with (Z.succ (Z.of_nat (length t))) by (simpl length; lia).
    rewrite Z.pow_succ_r by lia.
    destruct (ascii_eqb c "_"%char).
    + destruct us; [discriminate|]. apply IH in H; auto. nia.
    + destruct (digit_val c) as [d|] eqn:Ed; [|discriminate].
      destruct (Z.ltb_spec d base); [|discriminate].
      pose proof (digit_val_range c d Ed). apply IH in H; [|nia]. nia.
Qed.

Lemma lstrip_length s : (length (lstrip s) <= length s)%nat.
Proof. induction s as [|c s IH]; simpl; auto. destruct (is_space_c c); simpl; lia. Qed.

Lemma rstrip_length s : (length (rstrip s) <= length s)%nat.
Proof. unfold rstrip. rewrite rev_length. pose proof (lstrip_length (rev s)). rewrite rev_length in H. exact H. Qed.

Lemma int_sign_length s : (length (snd (int_sign s)) <= length s)%nat.
Proof.
  destruct s as [|c t]; simpl; auto. destruct (ascii_eqb c "+"%char); simpl; [lia|].
  destruct (ascii_eqb c "-"%char); simpl; lia.
Qed.

Lemma int_prefix_length base s : (length (int_prefix base s) <= length s)%nat.
Proof.
  unfold int_prefix. destruct (base =? 16); auto.
  destruct s as [|c0 [|c1 t]]; auto.
  destruct (ascii_eqb c0 "0"%char && (ascii_eqb c1 "x"%char || ascii_eqb c1 "X"%char)); auto.
  destruct t as [|c2 t']; simpl; [lia|]. destruct (ascii_eqb c2 "_"%char); simpl; lia.
Qed.

Lemma py_int_bound s base v : 1 <= base -> py_int s base = Ok v -> v < base ^ Z.of_nat (length s).
Proof.
  intros Hb. unfold py_int. set (t := rstrip (lstrip s)). set (u := int_prefix base (snd (int_sign t))).
  assert (Hlen : (length u <= length s)%nat).
  { unfold u, t. pose proof (int_prefix_length base (snd (int_sign (rstrip (lstrip s))))).
    pose proof (int_sign_length (rstrip (lstrip s))). pose proof (rstrip_length (lstrip s)). pose proof (lstrip_length s). lia. }
  unfold int_body. destruct u as [|c u']; [discriminate|].
  destruct (ascii_eqb c "_"%char); [discriminate|].
  destruct (parse_digits base (c :: u') false 0) as [v0|] eqn:E; [|discriminate].
  pose proof (parse_digits_bound base Hb (c :: u') false 0 v0 ltac:(lia) E) as Hv.
  pose proof (parse_digits_nonneg base ltac:(lia) (c :: u') false 0 v0 ltac:(lia) E) as Hv0.
  assert (Hmono : base ^ Z.of_nat (length (c :: u')) <= base ^ Z.of_nat (length s)) by (apply Z.pow_le_mono_r; lia).
  assert (Hpos : 0 < base ^ Z.of_nat (length s)) by (apply Z.pow_pos_nonneg; lia).
  intros H. inversion H; subst. destruct (fst (int_sign t)); lia.
Qed.

(* ------------------------------------------------------------------ what YajilinClue.deserialize returns *)
Lemma dir_table ch : in_1234 ch = true -> exists d, dir_code (dir_char (ord ch - 48)) = Ok d.
Proof.
  assert (T : forall c, (negb (in_1234 c) || match dir_code (dir_char (ord c - 48)) with Ok _ => true | Err _ => false end) = true).
  { apply forall_chars. vm_compute. reflexivity. }
  intros Hd. specialize (T ch). rewrite Hd in T. simpl in T.
  destruct (dir_code (dir_char (ord ch - 48))) as [d|]; [eauto|discriminate].
Qed.

Lemma yajilin_finish_ok dir num n_read n items : (length num <= 3)%nat ->
  yajilin_finish dir num n_read = Ok (Some (n, items)) -> exists v, items = [v] /\ yajilin_cell_ok v.
Proof.
  intros Hl. unfold yajilin_finish.
  destruct (ascii_eqb dir "0"%char). { intros H; inversion H. exists (VStr s_qq). split; auto. right; left; auto. }
  destruct (in_1234 dir) eqn:Ed; cbn [negb]; [|discriminate].
  destruct (str_eqb num ["."%char]). { intros H; inversion H. exists (VStr s_qq). split; auto. right; left; auto. }
  destruct (py_int num 16) as [v|] eqn:Ev; cbn [bind]; [|discriminate].
  destruct (Z.ltb_spec v 0) as [Hneg|Hnn]; [discriminate|].
  intros Hr; inversion Hr. eexists; split; [reflexivity|]. right; right.
  destruct (dir_table dir Ed) as (d & Hd).
  exists (dir_char (ord dir - 48)), d, v. split; [exact Hd|]. split; [|reflexivity].
  pose proof (py_int_bound num 16 v ltac:(lia) Ev) as Hb.
  assert (Hle : 16 ^ Z.of_nat (length num) <= 16 ^ 3) by (apply Z.pow_le_mono_r; lia).
  change (16 ^ 3) with 4096 in Hle. lia.
Qed.

Lemma yajilin_de_ok s n items : yajilin_de s = Ok (Some (n, items)) -> exists v, items = [v] /\ yajilin_cell_ok v.
Proof.
  unfold yajilin_de. destruct s as [|c [|c1 t1]]; try discriminate.
  destruct (ascii_eqb c "-"%char).
  { destruct (Nat.ltb (length (c :: c1 :: t1)) 5); [discriminate|].
    apply yajilin_finish_ok. rewrite firstn_length. lia. }
  destruct (in_56789 c).
  { destruct (Nat.ltb (length (c :: c1 :: t1)) 3); [discriminate|].
    apply yajilin_finish_ok. rewrite firstn_length. lia. }
  apply yajilin_finish_ok. simpl. lia.
Qed.

Lemma ycell_de_ok h w s n items : de (cu_env yajilin_custom h w) ycell s = Ok (Some (n, items)) ->
  Forall yajilin_cell_ok items.
Proof.
  rewrite ycell_de_unfold.
  destruct (yajilin_de s) as [[[k0 it0]|]|] eqn:E; try discriminate.
  - intros H; inversion H; subst. destruct (yajilin_de_ok s n items E) as (v & -> & Hv). constructor; auto.
  - unfold spaces_de. destruct s as [|c0 s']; [discriminate|].
    destruct (negb (is_alnum_lower [c0])); [discriminate|].
    destruct (from_base36 [c0]) as [i|]; [|discriminate].
    destruct (spaces_offset "a"%char <? i); [|discriminate].
    intros H; inversion H; subst. apply Forall_repeat. left; reflexivity.
Qed.

Lemma Forall_concat_inv {A} (P : A -> Prop) (ls : list (list A)) : Forall P (concat ls) -> Forall (Forall P) ls.
Proof.
  induction ls as [|l ls IH]; simpl; intros H; constructor.
  - apply Forall_app in H. tauto.
  - apply IH. apply Forall_app in H. tauto.
Qed.

Lemma ycell_conditions : dec_ok ycell = true /\ productive ycell = true /\ YAJILIN_COMBINATOR = yterm.
Proof. repeat split; reflexivity. Qed.

(* every decoded yajilin problem is serialized again; the canonical text decodes to it *)
Theorem yajilin_reencodable_lemma s h w p : 0 <= h -> 0 <= w ->
  deserialize_problem_cu yajilin_custom YAJILIN_COMBINATOR s h w = Ok (Some p) ->
  exists t, serialize_problem_cu yajilin_custom YAJILIN_COMBINATOR p h w = Ok t /\
            deserialize_problem_cu yajilin_custom YAJILIN_COMBINATOR t h w = Ok (Some p).
Proof.
  intros Hh Hw. destruct ycell_conditions as (Hok & Hp & ->). intros Hd.
  set (e := cu_env yajilin_custom h w).
  assert (Hgd : gooddec (de e ycell) true (single ycell) yajilin_cell_ok).
  { apply gooddec_strengthen.
    - pose proof (de_good e ltac:(unfold env_nonneg, e; simpl; nia) ycell Hok (or_introl yajilin_custom_total)) as Hg.
      unfold good in Hg. rewrite Hp in Hg. exact Hg.
    - intros s0 k l H. eapply ycell_de_ok; eauto. }
  unfold deserialize_problem_cu in Hd. fold e in Hd.
  destruct (de e yterm s) as [[[k l]|]|] eqn:E; try discriminate.
  destruct l as [|p0 [|q l]]; try discriminate.
  assert (p0 = p) by (inversion Hd; reflexivity). subst p0. clear Hd.
  unfold yterm in E. simpl de in E.
  destruct (grid_de_good (de e ycell) (single ycell) _ e None Hgd ltac:(simpl; nia) s) as [_ H2].
  destruct (H2 k [p] E) as (_ & d2 & Ep & Hl & HQ). simpl fst in *; simpl snd in *.
  destruct (grid_rows_rows (Z.to_nat w) (Z.to_nat h) d2) as (rows & Er & L & F & C). { nia. }
  inversion Ep; subst p. rewrite Er.
  apply (yajilin_body_roundtrip_gen h w (VList (map VList rows)) rows).
  - split; [reflexivity|]. split; [lia|]. eapply Forall_impl; [|exact F]. simpl. intros r Hr. lia.
  - apply Forall_concat_inv. rewrite C. exact HQ.
Qed.
