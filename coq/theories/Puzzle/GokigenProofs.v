(* C11 Tier 1 - gokigen: for every board shape and every layout of point clues, the program posted by
   solve_gokigen (model Gokigen.v: the acyclicity helper of property C09 on the graph of both diagonals of
   every cell with flags edge_type / ~edge_type, and one count per clue point) has a model reading as [ans]
   exactly when [ans] obeys Rules_gokigen (one diagonal per cell, clue = number of lines meeting at the point,
   no closed loop in the sense #lines + #components = #points). *)
From Coq Require Import ZArith List Bool Arith Lia.
From Cspuz Require Import Lib.PyErr Core.Expr Core.Program Graph.GraphModel
     Graph.Acyclic Graph.AcyclicGraphFacts Graph.AcyclicUnionFind Graph.AcyclicFlags
     Puzzle.PuzzleBase Puzzle.SatAbs Puzzle.ModelBase Puzzle.ModelLemmas
     Puzzle.GokigenForest Puzzle.GokigenCompose Puzzle.Rules_gokigen Puzzle.Gokigen.
Import ListNotations.
Local Open Scope nat_scope.

Notation b2z := PuzzleBase.b2z.

(* ---------------------------------------------------------------- cells in row-major order *)

Lemma gk_map_add_seq a w : forall s, map (fun x => a + x) (seq s w) = seq (a + s) w.
Proof.
  induction w as [|w IH]; intros s; [reflexivity|]. simpl. f_equal.
  rewrite IH. f_equal. lia.
Qed.

Lemma gk_cells_S h w : cells (S h) w = cells h w ++ map (fun x => (h, x)) (seq 0 w).
Proof. unfold cells. rewrite seq_S, flat_map_app. simpl. rewrite app_nil_r. reflexivity. Qed.

Lemma gk_cells_idx h w : map (cidx w) (cells h w) = seq 0 (h * w).
Proof.
  induction h as [|h IH]; [reflexivity|].
  rewrite gk_cells_S, map_app, IH, map_map.
  replace (S h * w) with (h * w + w) by lia. rewrite seq_app. f_equal.
  unfold cidx. cbn [fst snd]. rewrite gk_map_add_seq. f_equal. lia.
Qed.

Lemma gk_cells_NoDup h w : NoDup (cells h w).
Proof. apply (NoDup_map_inv (cidx w)). rewrite gk_cells_idx. apply seq_NoDup. Qed.

Lemma gk_cells_nth h w i c : nth_error (cells h w) i = Some c -> cidx w c = i /\ In c (cells h w).
Proof.
  intros H. split; [|eapply nth_error_In; exact H].
  pose proof (map_nth_error (cidx w) _ _ H) as Hm. rewrite gk_cells_idx in Hm.
  assert (Hi : i < h * w).
  { rewrite <- (seq_length (h * w) 0). apply nth_error_Some. congruence. }
  apply (nth_error_nth _ _ 0) in Hm. rewrite seq_nth in Hm by exact Hi. simpl in Hm. congruence.
Qed.

(* ---------------------------------------------------------------- lists with two entries per cell *)

Lemma gk_pairs_nth {C B} (f1 f2 : C -> B) cs : forall i,
  nth_error (flat_map (fun c => [f1 c; f2 c]) cs) (2 * i) = option_map f1 (nth_error cs i) /\
  nth_error (flat_map (fun c => [f1 c; f2 c]) cs) (2 * i + 1) = option_map f2 (nth_error cs i).
Proof.
  induction cs as [|c r IH]; intros i.
  - simpl. destruct (2 * i), (2 * i + 1), i; split; reflexivity.
  - destruct i as [|i].
    + split; reflexivity.
    + replace (2 * S i) with (S (S (2 * i))) by lia. replace (S (S (2 * i)) + 1) with (S (S (2 * i + 1))) by lia.
      cbn [flat_map app nth_error]. apply IH.
Qed.

Lemma gk_pairs_length {C B} (f1 f2 : C -> B) cs : length (flat_map (fun c => [f1 c; f2 c]) cs) = 2 * length cs.
Proof. induction cs as [|c r IH]; [reflexivity|]. cbn [flat_map app length]. rewrite IH. lia. Qed.

(* ---------------------------------------------------------------- the lattice graph *)

Lemma gk_pt_eqb w a b y x : b <= w -> x <= w -> Nat.eqb (gk_pt w a b) (gk_pt w y x) = Nat.eqb a y && Nat.eqb b x.
Proof.
  intros Hb Hx. unfold gk_pt.
  destruct (Nat.eqb_spec a y) as [->|Hay], (Nat.eqb_spec b x) as [->|Hbx]; simpl.
  - apply Nat.eqb_refl.
  - apply Nat.eqb_neq. lia.
  - apply Nat.eqb_neq. nia.
  - apply Nat.eqb_neq. nia.
Qed.

Lemma gk_edge_ok h w c e :
  In c (cells h w) -> e = gk_back w c \/ e = gk_slash w c ->
  fst e < S h * S w /\ snd e < S h * S w /\ fst e <> snd e.
Proof.
  destruct c as [y x]. intros Hc He. apply cells_in in Hc. destruct Hc as [Hy Hx].
  destruct He as [->| ->]; unfold gk_back, gk_slash, gk_pt; cbn [fst snd]; repeat split; nia.
Qed.

Lemma gk_graph_wf h w : wf_graph (gk_graph h w) = true.
Proof.
  unfold wf_graph, gk_graph. cbn [nv edges]. apply forallb_forall. intros [a b] He.
  apply in_flat_map in He. destruct He as [c [Hc He]].
  destruct (gk_edge_ok h w c (a, b) Hc) as [H1 [H2 _]].
  { destruct He as [He|[He|[]]]; auto. }
  cbn [fst snd] in *. apply andb_true_iff. split; apply Nat.ltb_lt; assumption.
Qed.

Lemma gk_graph_lf h w : loop_free (gk_graph h w) = true.
Proof.
  unfold loop_free, gk_graph. cbn [nv edges]. apply forallb_forall. intros [a b] He.
  apply in_flat_map in He. destruct He as [c [Hc He]].
  destruct (gk_edge_ok h w c (a, b) Hc) as [_ [_ H3]].
  { destruct He as [He|[He|[]]]; auto. }
  cbn [fst snd] in *. apply negb_true_iff. apply Nat.eqb_neq. exact H3.
Qed.

Lemma gk_flags_simple h w e :
  e < length (edges (gk_graph h w)) -> exists f, nth_error (gk_flags h w) e = Some f /\ simple_flag (h * w) f.
Proof.
  intros He. unfold gk_graph in He. cbn [edges] in He. rewrite gk_pairs_length in He.
  destruct (nth_error (gk_flags h w) e) as [f|] eqn:Hn.
  - exists f. split; [reflexivity|]. apply nth_error_In in Hn. unfold gk_flags in Hn.
    apply in_flat_map in Hn. destruct Hn as [[y x] [Hc Hf]]. apply cells_in in Hc.
    assert (Hi : cidx w (y, x) < h * w) by (apply cidx_lt; tauto).
    destruct Hf as [<-|[<-|[]]]; [apply sf_var|apply sf_not]; exact Hi.
  - exfalso. apply nth_error_None in Hn. unfold gk_flags in Hn. rewrite gk_pairs_length in Hn. lia.
Qed.

(* ---------------------------------------------------------------- the drawn lines *)

(* the line drawn in cell c when [lit c] says "\" *)
Definition gk_line (w : nat) (lit : nat * nat -> bool) (c : nat * nat) : nat * nat :=
  if lit c then gk_back w c else gk_slash w c.
Definition gk_drawn (h w : nat) (lit : nat * nat -> bool) : graph :=
  {| nv := S h * S w; edges := map (gk_line w lit) (cells h w) |}.

(* the graph Rules_gokigen builds from an answer *)
Definition gk_rules_graph (h w : nat) (ans : answer) : graph :=
  {| nv := S h * S w;
     edges := map (fun '(y, x) => if isb (at2 ans w y x) then (y * S w + x, S y * S w + S x)
                                  else (y * S w + S x, S y * S w + x)) (cells h w) |}.

Lemma gk_rules_graph_drawn h w en :
  gk_rules_graph h w (map (fun i => b2z (eb en i)) (seq 0 (h * w))) = gk_drawn h w (fun c => eb en (cidx w c)).
Proof.
  unfold gk_rules_graph, gk_drawn. f_equal. apply map_ext_in. intros [y x] Hc. apply cells_in in Hc.
  unfold at2. rewrite getz_map_seq by (apply (cidx_lt h w y x); tauto). rewrite b2z_isb.
  unfold gk_line, gk_back, gk_slash, gk_pt, cidx. cbn [fst snd]. reflexivity.
Qed.

Lemma gk_drawn_wf h w lit : wf_graph (gk_drawn h w lit) = true.
Proof.
  unfold wf_graph, gk_drawn. cbn [nv edges]. apply forallb_forall. intros [a b] He.
  apply in_map_iff in He. destruct He as [c [He Hc]].
  destruct (gk_edge_ok h w c (a, b) Hc) as [H1 [H2 _]].
  { rewrite <- He. unfold gk_line. destruct (lit c); auto. }
  cbn [fst snd] in *. apply andb_true_iff. split; apply Nat.ltb_lt; assumption.
Qed.

Lemma gk_drawn_lf h w lit : forallb (fun '(a, b) => negb (Nat.eqb a b)) (edges (gk_drawn h w lit)) = true.
Proof.
  unfold gk_drawn. cbn [nv edges]. apply forallb_forall. intros [a b] He.
  apply in_map_iff in He. destruct He as [c [He Hc]].
  destruct (gk_edge_ok h w c (a, b) Hc) as [_ [_ H3]].
  { rewrite <- He. unfold gk_line. destruct (lit c); auto. }
  cbn [fst snd] in *. apply negb_true_iff. apply Nat.eqb_neq. exact H3.
Qed.

(* ---------------------------------------------------------------- forest: both diagonals with a pattern
   versus the drawn diagonals alone *)

Lemma gk_uf_select {C} (F1 F2 : C -> nat * nat) (sel : C -> bool) (A : nat -> bool) : forall cs uf k k',
  (forall i c, nth_error cs i = Some c -> A (k + 2 * i) = sel c /\ A (k + 2 * i + 1) = negb (sel c)) ->
  uf_forest_from uf k (flat_map (fun c => [F1 c; F2 c]) cs) A =
  uf_forest_from uf k' (map (fun c => if sel c then F1 c else F2 c) cs) (fun _ => true).
Proof.
  induction cs as [|c r IH]; intros uf k k' HA; [reflexivity|].
  destruct (HA 0 c eq_refl) as [H0 H1].
  replace (k + 2 * 0) with k in H0 by lia. replace (k + 2 * 0 + 1) with (S k) in H1 by lia.
  assert (HA' : forall i c', nth_error r i = Some c' ->
                  A (S (S k) + 2 * i) = sel c' /\ A (S (S k) + 2 * i + 1) = negb (sel c')).
  { intros i c' Hn. destruct (HA (S i) c' Hn) as [E1 E2].
    replace (S (S k) + 2 * i) with (k + 2 * S i) by lia.
    replace (S (S k) + 2 * i + 1) with (k + 2 * S i + 1) by lia. split; assumption. }
  cbn [flat_map app map]. destruct (F1 c) as [a1 b1] eqn:E1, (F2 c) as [a2 b2] eqn:E2.
  cbn [uf_forest_from]. rewrite H0. destruct (sel c).
  - destruct (Nat.eqb (uf a1) (uf b1)); [reflexivity|].
    cbn [uf_forest_from]. rewrite H1. cbn [negb]. apply IH. exact HA'.
  - cbn [negb] in H1. rewrite H1.
    destruct (Nat.eqb (uf a2) (uf b2)); [reflexivity|]. apply IH. exact HA'.
Qed.

Section Sem.
  Variable gsem : op -> list (option value) -> option bool.
  Variable en : env.
  Variables (h w : nat).
  Let hold := holds gsem en.
  Let lit (c : nat * nat) : bool := eb en (cidx w c).

  Lemma gk_hold_var c : hold (gk_var w c) = lit c.
  Proof. unfold hold, holds, gk_var, lit. simpl. destruct (eb en (cidx w c)); reflexivity. Qed.
  Lemma gk_hold_nvar c : hold (gk_nvar w c) = negb (lit c).
  Proof. unfold hold, holds, gk_nvar, lit. simpl. destruct (eb en (cidx w c)); reflexivity. Qed.

  Lemma gk_pattern i c :
    nth_error (cells h w) i = Some c ->
    pattern_of gsem en (gk_flags h w) (0 + 2 * i) = lit c /\
    pattern_of gsem en (gk_flags h w) (0 + 2 * i + 1) = negb (lit c).
  Proof.
    intros Hn. unfold pattern_of, gk_flags. cbn [Nat.add].
    destruct (gk_pairs_nth (gk_var w) (gk_nvar w) (cells h w) i) as [E1 E2]. rewrite Hn in E1, E2. simpl in E1, E2.
    rewrite (nth_error_nth _ _ _ E1), (nth_error_nth _ _ _ E2). split; [apply gk_hold_var|apply gk_hold_nvar].
  Qed.

  Lemma gk_forest_drawn :
    forest (gk_graph h w) (pattern_of gsem en (gk_flags h w)) <->
    edges_acyclic (gk_drawn h w lit) (fun _ => true) = true.
  Proof.
    rewrite (edges_acyclic_forest _ _ (gk_drawn_wf h w lit)).
    rewrite <- !uf_forest_spec. unfold uf_forest, gk_graph, gk_drawn. cbn [edges].
    rewrite (gk_uf_select (gk_back w) (gk_slash w) lit _ (cells h w) (fun v => v) 0 0 gk_pattern).
    reflexivity.
  Qed.

  (* ---------------------------------------------------------------- counting the lines at a point *)

  Lemma gk_eval_count l :
    (forall e, In e l -> exists b, eval gsem en e = Some (VB b)) ->
    eval gsem en (gk_count l) = Some (VI (Z.of_nat (count hold l))).
  Proof.
    intros Hb. destruct l as [|e0 r]; [reflexivity|].
    unfold gk_count. set (l := e0 :: r) in *.
    assert (Hne : l <> []) by discriminate. clearbody l.
    cbn [eval]. rewrite map_map.
    rewrite (map_ext_in _ (fun e => Some (VI (if hold e then 1 else 0)%Z))).
    2:{ intros e He. destruct (Hb e He) as [b Ev]. cbn [eval map]. rewrite Ev.
        unfold hold, holds. rewrite Ev. destruct b; reflexivity. }
    rewrite <- (map_map (fun e => (if hold e then 1 else 0)%Z) (fun z => Some (VI z))).
    rewrite eval_iop_add_ints by (destruct l; [contradiction|discriminate]).
    f_equal. f_equal. clear. unfold count, zsum.
    induction l as [|b r IH]; [reflexivity|]. cbn [map fold_right filter].
    destruct (hold b); cbn [length]; rewrite IH; lia.
  Qed.

  Lemma gk_related_bool y x e : In e (gk_related h w y x) -> exists b, eval gsem en e = Some (VB b).
  Proof.
    unfold gk_related. rewrite !in_app_iff.
    intros [H|[H|[H|H]]];
      (match type of H with In _ (if ?c then _ else _) => destruct c end;
       [destruct H as [<-|[]]; eexists; reflexivity|destruct H]).
  Qed.

  Lemma gk_hold_clue y x c :
    hold (BNode EQ [gk_count (gk_related h w y x); PyInt c]) =
    (Z.of_nat (count hold (gk_related h w y x)) =? c)%Z.
  Proof.
    unfold hold at 1, holds. cbn [eval map]. rewrite (gk_eval_count _ (gk_related_bool y x)). cbn.
    destruct (Z.of_nat (count hold (gk_related h w y x)) =? c)%Z; reflexivity.
  Qed.
End Sem.

Lemma gk_count_app {A} (f : A -> bool) l1 l2 : count f (l1 ++ l2) = count f l1 + count f l2.
Proof. unfold count. rewrite filter_app, app_length. reflexivity. Qed.

Lemma gk_count_or {A} (f g : A -> bool) l :
  (forall c, In c l -> f c = true -> g c = true -> False) ->
  count (fun c => f c || g c) l = count f l + count g l.
Proof.
  induction l as [|a r IH]; intros H; [reflexivity|]. rewrite !gkf_count_cons.
  rewrite IH by (intros c Hc; apply H; right; exact Hc).
  pose proof (H a (or_introl eq_refl)) as Ha.
  destruct (f a), (g a); simpl; try lia. all: exfalso; apply Ha; reflexivity.
Qed.

Lemma gk_count_none {A} (s : A -> bool) l : (forall c, In c l -> s c = false) -> count s l = 0.
Proof.
  induction l as [|a r IH]; intros H; [reflexivity|]. rewrite gkf_count_cons.
  rewrite (H a (or_introl eq_refl)), IH by (intros c Hc; apply H; right; exact Hc). reflexivity.
Qed.

Lemma gk_count_unique {A} (s : A -> bool) p l :
  NoDup l -> In p l -> (forall c, In c l -> s c = true -> c = p) -> count s l = if s p then 1 else 0.
Proof.
  induction l as [|a r IH]; intros Hnd Hin Hu; [destruct Hin|].
  rewrite gkf_count_cons. inversion Hnd as [|? ? Hna Hnd']; subst.
  destruct Hin as [->|Hin].
  - assert (Hr : count s r = 0).
    { apply gk_count_none. intros c Hc.
      destruct (s c) eqn:E; [|reflexivity]. exfalso. apply Hna.
      rewrite <- (Hu c (or_intror Hc) E). exact Hc. }
    rewrite Hr. lia.
  - rewrite IH by (auto; intros c Hc; apply Hu; right; exact Hc).
    destruct (s a) eqn:E; [|reflexivity]. exfalso. apply Hna.
    rewrite (Hu a (or_introl eq_refl) E). exact Hin.
Qed.

Lemma gk_filter_all {A B} (l : list (A * B)) : filter (fun '(_, _) => true) l = l.
Proof. induction l as [|[a b] r IH]; [reflexivity|]. simpl. rewrite IH. reflexivity. Qed.

Lemma gk_incident_len v : forall es k,
  forallb (fun '(a, b) => negb (Nat.eqb a b)) es = true ->
  length (incident_from v k es) = count (fun '(a, b) => Nat.eqb a v || Nat.eqb b v) es.
Proof.
  induction es as [|[a b] r IH]; intros k H; [reflexivity|].
  cbn [forallb] in H. apply andb_true_iff in H. destruct H as [Hab H].
  apply negb_true_iff in Hab. apply Nat.eqb_neq in Hab.
  cbn [incident_from]. rewrite !app_length, (IH (S k) H), gkf_count_cons.
  destruct (Nat.eqb_spec a v), (Nat.eqb_spec b v); simpl; lia.
Qed.

Section Degree.
  Variables (h w : nat) (lit : nat * nat -> bool).
  Variables (y x : nat).
  Hypothesis Hy : y <= h.
  Hypothesis Hx : x <= w.

  (* the four cells around lattice point (y, x), in the order of `related` *)
  Let f_ul (c : nat * nat) := lit c && (Nat.eqb (S (fst c)) y && Nat.eqb (S (snd c)) x).
  Let f_ur (c : nat * nat) := negb (lit c) && (Nat.eqb (S (fst c)) y && Nat.eqb (snd c) x).
  Let f_ll (c : nat * nat) := negb (lit c) && (Nat.eqb (fst c) y && Nat.eqb (S (snd c)) x).
  Let f_lr (c : nat * nat) := lit c && (Nat.eqb (fst c) y && Nat.eqb (snd c) x).

  Lemma gk_degree_split :
    degree (gk_drawn h w lit) (fun _ => true) (gk_pt w y x) =
    count f_ul (cells h w) + count f_ur (cells h w) + count f_ll (cells h w) + count f_lr (cells h w).
  Proof.
    unfold degree. rewrite gk_filter_all. unfold incident.
    rewrite (gk_incident_len _ _ 0 (gk_drawn_lf h w lit)). unfold gk_drawn. cbn [edges]. rewrite count_map.
    rewrite (count_ext_in _ (fun c => ((f_ul c || f_ur c) || f_ll c) || f_lr c)).
    - rewrite !gk_count_or; [reflexivity| | |];
        intros [cy cx] _; unfold f_ul, f_ur, f_ll, f_lr; cbn [fst snd];
        repeat match goal with |- context [Nat.eqb ?a ?b] => destruct (Nat.eqb_spec a b) end;
        destruct (lit (cy, cx)); simpl; intros; try discriminate; lia.
    - intros [cy cx] Hc. apply cells_in in Hc. destruct Hc as [Hcy Hcx].
      unfold gk_line, gk_back, gk_slash, f_ul, f_ur, f_ll, f_lr. cbn [fst snd].
      destruct (lit (cy, cx)); rewrite !gk_pt_eqb by lia; cbn [andb orb negb];
        repeat match goal with |- context [Nat.eqb ?a ?b] => destruct (Nat.eqb_spec a b) end;
        cbn [andb orb negb]; try reflexivity; lia.
  Qed.

  Lemma gk_count_at (s : nat * nat -> bool) (cy cx : nat) (guard : bool) (lv : bool) :
    (guard = true -> cy < h /\ cx < w) ->
    (forall c, In c (cells h w) -> s c = true -> guard = true /\ c = (cy, cx)) ->
    (guard = true -> s (cy, cx) = lv) ->
    count s (cells h w) = if guard then (if lv then 1 else 0) else 0.
  Proof.
    intros Hg Hu Hv. destruct guard.
    - destruct (Hg eq_refl) as [H1 H2]. rewrite <- (Hv eq_refl).
      apply gk_count_unique; [apply gk_cells_NoDup|apply cells_in; auto|].
      intros c Hc Hs. apply (Hu c Hc Hs).
    - apply gk_count_none. intros c Hc. destruct (s c) eqn:E; [|reflexivity].
      destruct (Hu c Hc E) as [Hd _]. discriminate.
  Qed.

  Lemma gk_count_ul :
    count f_ul (cells h w) = if Nat.ltb 0 y && Nat.ltb 0 x then (if lit (y - 1, x - 1) then 1 else 0) else 0.
  Proof.
    apply (gk_count_at _ (y - 1) (x - 1)).
    - intros Hg. apply andb_true_iff in Hg. destruct Hg as [H1 H2]. apply Nat.ltb_lt in H1, H2. lia.
    - intros [cy cx] Hc Hs. unfold f_ul in Hs. cbn [fst snd] in Hs.
      apply andb_true_iff in Hs. destruct Hs as [_ Hs]. apply andb_true_iff in Hs. destruct Hs as [E1 E2].
      apply Nat.eqb_eq in E1, E2. subst y x. split; [reflexivity|]. f_equal; lia.
    - intros Hg. apply andb_true_iff in Hg. destruct Hg as [H1 H2]. apply Nat.ltb_lt in H1, H2.
      unfold f_ul. cbn [fst snd]. replace (S (y - 1)) with y by lia. replace (S (x - 1)) with x by lia.
      rewrite !Nat.eqb_refl. apply andb_true_r.
  Qed.

  Lemma gk_count_ur :
    count f_ur (cells h w) = if Nat.ltb 0 y && Nat.ltb x w then (if negb (lit (y - 1, x)) then 1 else 0) else 0.
  Proof.
    apply (gk_count_at _ (y - 1) x).
    - intros Hg. apply andb_true_iff in Hg. destruct Hg as [H1 H2]. apply Nat.ltb_lt in H1, H2. lia.
    - intros [cy cx] Hc Hs. apply cells_in in Hc. unfold f_ur in Hs. cbn [fst snd] in Hs.
      apply andb_true_iff in Hs. destruct Hs as [_ Hs]. apply andb_true_iff in Hs. destruct Hs as [E1 E2].
      apply Nat.eqb_eq in E1, E2. subst y x. split.
      + apply andb_true_iff. split; apply Nat.ltb_lt; lia.
      + f_equal; lia.
    - intros Hg. apply andb_true_iff in Hg. destruct Hg as [H1 H2]. apply Nat.ltb_lt in H1, H2.
      unfold f_ur. cbn [fst snd]. replace (S (y - 1)) with y by lia.
      rewrite !Nat.eqb_refl. apply andb_true_r.
  Qed.

  Lemma gk_count_ll :
    count f_ll (cells h w) = if Nat.ltb y h && Nat.ltb 0 x then (if negb (lit (y, x - 1)) then 1 else 0) else 0.
  Proof.
    apply (gk_count_at _ y (x - 1)).
    - intros Hg. apply andb_true_iff in Hg. destruct Hg as [H1 H2]. apply Nat.ltb_lt in H1, H2. lia.
    - intros [cy cx] Hc Hs. apply cells_in in Hc. unfold f_ll in Hs. cbn [fst snd] in Hs.
      apply andb_true_iff in Hs. destruct Hs as [_ Hs]. apply andb_true_iff in Hs. destruct Hs as [E1 E2].
      apply Nat.eqb_eq in E1, E2. subst y x. split.
      + apply andb_true_iff. split; apply Nat.ltb_lt; lia.
      + f_equal; lia.
    - intros Hg. apply andb_true_iff in Hg. destruct Hg as [H1 H2]. apply Nat.ltb_lt in H1, H2.
      unfold f_ll. cbn [fst snd]. replace (S (x - 1)) with x by lia.
      rewrite !Nat.eqb_refl. apply andb_true_r.
  Qed.

  Lemma gk_count_lr :
    count f_lr (cells h w) = if Nat.ltb y h && Nat.ltb x w then (if lit (y, x) then 1 else 0) else 0.
  Proof.
    apply (gk_count_at _ y x).
    - intros Hg. apply andb_true_iff in Hg. destruct Hg as [H1 H2]. apply Nat.ltb_lt in H1, H2. lia.
    - intros [cy cx] Hc Hs. apply cells_in in Hc. unfold f_lr in Hs. cbn [fst snd] in Hs.
      apply andb_true_iff in Hs. destruct Hs as [_ Hs]. apply andb_true_iff in Hs. destruct Hs as [E1 E2].
      apply Nat.eqb_eq in E1, E2. subst y x. split.
      + apply andb_true_iff. split; apply Nat.ltb_lt; lia.
      + reflexivity.
    - intros Hg. unfold f_lr. cbn [fst snd]. rewrite !Nat.eqb_refl. apply andb_true_r.
  Qed.
End Degree.

(* the number of drawn lines meeting at lattice point (y, x) is the number of true `related` flags *)
Lemma gk_degree_related gsem en h w y x :
  y <= h -> x <= w ->
  degree (gk_drawn h w (fun c => eb en (cidx w c))) (fun _ => true) (gk_pt w y x) =
  count (holds gsem en) (gk_related h w y x).
Proof.
  intros Hy Hx. rewrite (gk_degree_split h w _ y x Hy Hx).
  rewrite gk_count_ul, gk_count_ur, gk_count_ll, gk_count_lr by assumption.
  unfold gk_related. rewrite !gk_count_app.
  destruct (Nat.ltb 0 y && Nat.ltb 0 x), (Nat.ltb 0 y && Nat.ltb x w),
           (Nat.ltb y h && Nat.ltb 0 x), (Nat.ltb y h && Nat.ltb x w);
    rewrite ?gkf_count_cons, ?gk_hold_var, ?gk_hold_nvar; unfold count; cbn [filter length]; lia.
Qed.

(* ---------------------------------------------------------------- the rule specification, split *)

Lemma gk_dims h w (rest : list (list Z)) :
  dim ([Z.of_nat h; Z.of_nat w] :: rest) 0 = h /\ dim ([Z.of_nat h; Z.of_nat w] :: rest) 1 = w.
Proof. unfold dim, zn, getz, sec; simpl. rewrite !Nat2Z.id. split; reflexivity. Qed.

Definition gk_local (h w : nat) (clue : list Z) (ans : answer) : bool :=
  forallb (fun v => let c := getz clue v in
                    (c <? 0)%Z || (Z.of_nat (degree (gk_rules_graph h w ans) (fun _ => true) v) =? c)%Z)
          (seq 0 (S h * S w)).

Lemma rules_gokigen_split h w clue ans :
  rules_gokigen [[Z.of_nat h; Z.of_nat w]; clue] ans =
  Nat.eqb (length ans) (h * w) && forallb is01 ans &&
  edges_acyclic (gk_rules_graph h w ans) (fun _ => true) && gk_local h w clue ans.
Proof.
  unfold rules_gokigen, gk_local, gk_rules_graph. destruct (gk_dims h w [clue]) as [-> ->].
  change (sec [[Z.of_nat h; Z.of_nat w]; clue] 1) with clue. reflexivity.
Qed.

Lemma gk_local_core gsem h w clue en :
  gk_local h w clue (map (fun i => b2z (eb en i)) (seq 0 (h * w))) =
  forallb (holds gsem en) (gk_clues h w clue).
Proof.
  unfold gk_local, gk_clues. rewrite gk_rules_graph_drawn.
  rewrite <- (gk_cells_idx (S h) (S w)), forallb_map, forallb_flat_map.
  apply forallb_ext_in. intros [y x] Hc. apply cells_in in Hc. destruct Hc as [Hy Hx].
  unfold gk_clue. cbn [fst snd].
  change (getz clue (cidx (S w) (y, x))) with (at2 clue (S w) y x).
  change (cidx (S w) (y, x)) with (gk_pt w y x).
  destruct (at2 clue (S w) y x <? 0)%Z; [reflexivity|].
  cbn [forallb orb]. rewrite andb_true_r, gk_hold_clue.
  rewrite (gk_degree_related gsem en h w y x) by lia. reflexivity.
Qed.

Theorem gokigen_exact h w clue st ans :
  solve_gokigen_model [[Z.of_nat h; Z.of_nat w]; clue] = Ok st ->
  ((exists en, model_of no_graph en st /\ reads st en (seq 0 (h * w)) = ans)
   <-> rules_gokigen [[Z.of_nat h; Z.of_nat w]; clue] ans = true).
Proof.
  unfold solve_gokigen_model. destruct (gk_dims h w [clue]) as [-> ->].
  change (sec [[Z.of_nat h; Z.of_nat w]; clue] 1) with clue.
  destruct (post_acyclic (bool_grid_state (h * w) []) (gk_flags h w) (gk_graph h w)) as [st1|e] eqn:Hp; [|discriminate].
  destruct (Nat.ltb (length clue) (S h * S w)); [discriminate|].
  intros H. inversion H; subst st; clear H.
  rewrite rules_gokigen_split.
  rewrite (acyclic_grid_compose no_graph (h * w) (gk_flags h w) (gk_graph h w) (gk_clues h w clue)
             (fun a => edges_acyclic (gk_rules_graph h w a) (fun _ => true) = true)
             (gk_local h w clue) st1 ans
             (gk_graph_wf h w) (gk_graph_lf h w)).
  - rewrite !andb_true_iff, Nat.eqb_eq. tauto.
  - unfold gk_graph. cbn [nv]. lia.
  - apply gk_flags_simple.
  - exact Hp.
  - intros en. rewrite gk_rules_graph_drawn. apply gk_forest_drawn.
  - intros en. apply gk_local_core.
Qed.

(* the model accepts every board whose clue grid is complete *)
Example gokigen_model_ok :
  exists st, solve_gokigen_model [[2; 3]; [1; -1; -1; 0; -1; 4; -1; 2; -1; -1; 1; -1]]%Z = Ok st.
Proof. vm_compute. eexists. reflexivity. Qed.
