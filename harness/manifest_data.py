NOTES = ("Each check: (1) scan for forbidden constructs, (2) regenerate translator output from /repo, (3) full .vo build of Props/Cxx.v "
         "and Print Assumptions, (4) correspondence of the extracted model with the implementation, (5) property-level search, "
         "(6) verdict + evidence.  See DESIGN.md and harness/README.md.")
CLAIMED = {
 "C13": {
  "text": "Theorem getitem_eq_spec: for every shape, every key (ints, slices with any start/stop/step, pairs, coordinate lists) the model of Array2D._getitem_impl equals the nested-list specification (elements, order, shape, error kind); proved in Coq for all sizes. The model is tied to array.py by running both on ~700k keys per run; the specification is validated against real Python lists on the same keys.",
  "design_ref": "DESIGN.md 4 C13",
  "note": "Trusted: Coq kernel; CPython slice.indices/range/list-index semantics as transcribed in Array/Slice.v (validated against the interpreter each run); extraction (ExtrOcamlBasic) + driver.ml; the correspondence harness. The Python source is modelled by hand, not verified directly.",
  "technique": "Coq proof over hand-written Gallina model + extracted-model/implementation correspondence",
 },
 "C14": {
  "text": "Coq theorems, for every height/width >= 0 and every coordinate, about a model of BoolGridFrame/BoolInnerGridFrame and graph._from_grid_frame: frame[Y,X] is the variable on the segment with that doubled midpoint and every other position raises IndexError; cell_neighbors / vertex_neighbors return exactly the segments bordering the cell / ending at the point, each once; all_edges and iteration enumerate every segment once; _from_grid_frame returns in lock-step each segment's variable and the edge joining its two ends in the (h+1)(w+1)-vertex lattice graph (also for inner.dual(), the cell-adjacency graph with border variables); dual moves each variable to the border between the cells corresponding to its ends, dual of dual is the identity; the constructor puts distinct fresh variables on distinct segments. Tied to grid_frame.py/graph.py by exhaustive correspondence (h,w <= 4, all coordinates in [-3,2h+3]^2, both classes, all accessors and call forms; thorough h,w <= 6) plus an independent geometric oracle run on the real accessors.",
  "design_ref": "DESIGN.md 4 C14",
  "note": "Full: all design theorems proved unbounded (14/14 closed under the global context). Trusted: the reading 'horizontal[y][x] lies on (y,x)-(y,x+1), vertical[y][x] on (y,x)-(y+1,x)' and row-major vertex numbering (frame_of, point_id); the Array2D index model of Array/Slice.v (tied by C13); Coq kernel; extraction + driver.ml; the harness. Python is modelled by hand; coordinates are ints only.",
  "technique": "Coq proof over hand-written Gallina model with layout-independent lattice specification + exhaustive extracted-model/implementation correspondence + geometric-oracle search",
 },
}
NOT_CLAIMED = {}
