(* C11 - bundled puzzle solvers agree with the published rules: final theorems only. *)
From Coq Require Import ZArith List Bool.
From Cspuz Require Import Core.Expr Core.Program Puzzle.PuzzleBase Puzzle.SatAbs Puzzle.SatAbsProofs.

(* Tier 2 evaluator: sat_abs decides "some assignment of all variables respects
   the declared domains, satisfies every posted constraint and reads as ans on
   the answer variables" for every well-formed captured program *)
Theorem C11_sat_abs_correct : forall st kids order ans,
  wf_prog st kids = true ->
  (sat_abs st kids order ans = true <->
   exists en, model_of no_graph en st /\ reads st en kids = ans).
Proof. exact sat_abs_correct. Qed.
Print Assumptions C11_sat_abs_correct.

(* what each generated, kernel-evaluated instance goal [tier2_ok ... = true] establishes:
   on every candidate answer, the captured program of the real solve_<p> admits it
   exactly when the rule specification does *)
Theorem C11_tier2_ok_meaning : forall st kids order rules answers,
  tier2_ok st kids order rules answers = true ->
  forall ans, In ans answers ->
    ((exists en, model_of no_graph en st /\ reads st en kids = ans) <-> rules ans = true).
Proof. exact tier2_ok_meaning. Qed.
Print Assumptions C11_tier2_ok_meaning.

(* Tier 1, sudoku, every n: the program posted by solve_sudoku (model Puzzle/Sudoku.v,
   tied to the Python by program capture) has a model reading as [ans] on the answer
   grid exactly when [ans] obeys the published rules and keeps the given numbers *)
From Cspuz Require Import Lib.PyErr Puzzle.Rules_sudoku Puzzle.Sudoku Puzzle.SudokuProofs.
Theorem C11_sudoku_exact : forall n clues st ans,
  solve_sudoku_model (List.cons (List.cons (Z.of_nat n) nil) (List.cons clues nil)) = Ok st ->
  ((exists en, model_of no_graph en st /\
               reads st en (seq 0 ((n * n) * (n * n))) = ans)
   <-> rules_sudoku (List.cons (List.cons (Z.of_nat n) nil) (List.cons clues nil)) ans = true).
Proof. exact sudoku_exact. Qed.
Print Assumptions C11_sudoku_exact.

(* Tier 1, norinori, every board shape and region layout *)
From Cspuz Require Import Puzzle.Rules_norinori Puzzle.Norinori Puzzle.NorinoriProofs.
Theorem C11_norinori_exact : forall h w region st ans,
  solve_norinori_model (List.cons (List.cons (Z.of_nat h) (List.cons (Z.of_nat w) nil)) (List.cons region nil)) = Ok st ->
  ((exists en, model_of no_graph en st /\ reads st en (seq 0 (h * w)) = ans)
   <-> rules_norinori (List.cons (List.cons (Z.of_nat h) (List.cons (Z.of_nat w) nil)) (List.cons region nil)) ans = true).
Proof. exact norinori_exact. Qed.
Print Assumptions C11_norinori_exact.

(* Tier 1, putteria, every board shape and region layout *)
From Cspuz Require Import Puzzle.Rules_putteria Puzzle.Putteria Puzzle.PutteriaProofs.
Theorem C11_putteria_exact : forall h w region st ans,
  solve_putteria_model (List.cons (List.cons (Z.of_nat h) (List.cons (Z.of_nat w) nil)) (List.cons region nil)) = Ok st ->
  ((exists en, model_of no_graph en st /\ reads st en (seq 0 (h * w)) = ans)
   <-> rules_putteria (List.cons (List.cons (Z.of_nat h) (List.cons (Z.of_nat w) nil)) (List.cons region nil)) ans = true).
Proof. exact putteria_exact. Qed.
Print Assumptions C11_putteria_exact.

(* Tier 1, star battle, every n, k >= 0 and region layout *)
From Cspuz Require Import Puzzle.Rules_star_battle Puzzle.StarBattle Puzzle.StarBattleProofs.
Theorem C11_star_battle_exact : forall n k region st ans,
  (0 <= k)%Z ->
  solve_star_battle_model (List.cons (List.cons (Z.of_nat n) (List.cons k nil)) (List.cons region nil)) = Ok st ->
  ((exists en, model_of no_graph en st /\ reads st en (seq 0 (n * n)) = ans)
   <-> rules_star_battle (List.cons (List.cons (Z.of_nat n) (List.cons k nil)) (List.cons region nil)) ans = true).
Proof. exact star_battle_exact. Qed.
Print Assumptions C11_star_battle_exact.

(* Tier 1, aquarium (after fix 97459c5), every board shape, every layout of orthogonally connected
   tanks, all clues: rule specification = one water level across the full width of a tank *)
From Cspuz Require Import Graph.GraphModel Puzzle.Rules_aquarium Puzzle.Aquarium Puzzle.AquariumProofs.
Theorem C11_aquarium_exact : forall h w region rows cols st ans,
  (forall i : Z, connected (board h w) (fun v => (getz region v =? i)%Z)) ->
  solve_aquarium_model (List.cons (List.cons (Z.of_nat h) (List.cons (Z.of_nat w) nil))
                          (List.cons region (List.cons rows (List.cons cols nil)))) = Ok st ->
  ((exists en, model_of no_graph en st /\ reads st en (seq 0 (h * w)) = ans)
   <-> rules_aquarium (List.cons (List.cons (Z.of_nat h) (List.cons (Z.of_nat w) nil))
                          (List.cons region (List.cons rows (List.cons cols nil)))) ans = true).
Proof. exact aquarium_exact. Qed.
Print Assumptions C11_aquarium_exact.

(* Tier 1, creek, every board shape and all point clues; the connectivity rule is discharged by
   property C04's theorems about graph.active_vertices_connected (Avc.post_avc on the grid graph).
   Programs of this module contain no native graph operator, so gsem_avc only fixes the evaluator. *)
From Cspuz Require Import Graph.Avc Puzzle.Rules_creek Puzzle.Creek Puzzle.CreekProofs.
Theorem C11_creek_exact : forall h w clue st ans,
  solve_creek_model (List.cons (List.cons (Z.of_nat h) (List.cons (Z.of_nat w) nil)) (List.cons clue nil)) = Ok st ->
  ((exists en, model_of gsem_avc en st /\ reads st en (seq 0 (h * w)) = ans)
   <-> rules_creek (List.cons (List.cons (Z.of_nat h) (List.cons (Z.of_nat w) nil)) (List.cons clue nil)) ans = true).
Proof. exact creek_exact. Qed.
Print Assumptions C11_creek_exact.

(* Tier 1, akari, every board shape and every layout of white / black / numbered cells *)
From Cspuz Require Import Puzzle.Rules_akari Puzzle.Akari Puzzle.AkariProofs.
Theorem C11_akari_exact : forall h w grid st ans,
  solve_akari_model (List.cons (List.cons (Z.of_nat h) (List.cons (Z.of_nat w) nil)) (List.cons grid nil)) = Ok st ->
  ((exists en, model_of no_graph en st /\ reads st en (seq 0 (h * w)) = ans)
   <-> rules_akari (List.cons (List.cons (Z.of_nat h) (List.cons (Z.of_nat w) nil)) (List.cons grid nil)) ans = true).
Proof. exact akari_exact. Qed.
Print Assumptions C11_akari_exact.

(* Tier 1, building (skyscrapers), every n and all clues (for n = 0 the solver raises ValueError) *)
From Cspuz Require Import Puzzle.Rules_building Puzzle.Building Puzzle.BuildingProofs.
Theorem C11_building_exact : forall n up dw lf rg st ans,
  solve_building_model (List.cons (List.cons (Z.of_nat n) nil)
      (List.cons up (List.cons dw (List.cons lf (List.cons rg nil))))) = Ok st ->
  ((exists en, model_of no_graph en st /\ reads st en (seq 0 (n * n)) = ans)
   <-> rules_building (List.cons (List.cons (Z.of_nat n) nil)
      (List.cons up (List.cons dw (List.cons lf (List.cons rg nil))))) ans = true).
Proof. exact building_exact. Qed.
Print Assumptions C11_building_exact.

(* Tier 1, doppelblock, every n and all clues (for n < 2 the solver raises ValueError) *)
From Cspuz Require Import Puzzle.Rules_doppelblock Puzzle.Doppelblock Puzzle.DoppelblockProofs.
Theorem C11_doppelblock_exact : forall n rows cols st ans,
  solve_doppelblock_model (List.cons (List.cons (Z.of_nat n) nil) (List.cons rows (List.cons cols nil))) = Ok st ->
  ((exists en, model_of no_graph en st /\ reads st en (seq 0 (n * n)) = ans)
   <-> rules_doppelblock (List.cons (List.cons (Z.of_nat n) nil) (List.cons rows (List.cons cols nil))) ans = true).
Proof. exact doppelblock_exact. Qed.
Print Assumptions C11_doppelblock_exact.

(* Tier 1, nurimisaki (after fix f977eba), every board shape, circles without number and with any number
   n >= 1 (the model rejects cell values below -1, which are outside the module's alphabet); connectivity
   through property C04's theorems as for creek *)
From Cspuz Require Import Puzzle.Rules_nurimisaki Puzzle.Nurimisaki Puzzle.NurimisakiProofs.
Theorem C11_nurimisaki_exact : forall h w grid st ans,
  solve_nurimisaki_model (List.cons (List.cons (Z.of_nat h) (List.cons (Z.of_nat w) nil)) (List.cons grid nil)) = Ok st ->
  ((exists en, model_of gsem_avc en st /\ reads st en (seq 0 (h * w)) = ans)
   <-> rules_nurimisaki (List.cons (List.cons (Z.of_nat h) (List.cons (Z.of_nat w) nil)) (List.cons grid nil)) ans = true).
Proof. exact nurimisaki_exact. Qed.
Print Assumptions C11_nurimisaki_exact.

(* Tier 1, heyawake, every board shape, every room layout and all room clues; the connectivity of the white
   cells through property C04's theorems, the adjacency rule through the two shifted-slice conjunctions the grid
   form of active_vertices_not_adjacent posts, the "no white line across two room borders" rule proved
   equivalent to the posted per-border windows *)
From Cspuz Require Import Puzzle.Rules_heyawake Puzzle.Heyawake Puzzle.HeyawakeProofs.
Theorem C11_heyawake_exact : forall h w room clue st ans,
  solve_heyawake_model (List.cons (List.cons (Z.of_nat h) (List.cons (Z.of_nat w) nil))
                          (List.cons room (List.cons clue nil))) = Ok st ->
  ((exists en, model_of gsem_avc en st /\ reads st en (seq 0 (h * w)) = ans)
   <-> rules_heyawake (List.cons (List.cons (Z.of_nat h) (List.cons (Z.of_nat w) nil))
                          (List.cons room (List.cons clue nil))) ans = true).
Proof. exact heyawake_exact. Qed.
Print Assumptions C11_heyawake_exact.
