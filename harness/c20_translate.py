"""C20 translator (tie T): reads the constant tables and the decision structure that the
C20 model is parameterised by out of /repo's *current* source with Python's ast, and
renders them as coq/theories/Gen/ConfigTables.v.

Fail-closed: every function that is read is matched against the exact statement shapes
the Coq model (Backend/Config.v) gives a meaning to; anything else raises TranslateError
(the check then reports the translator as a tie that no longer holds).

  configuration.py  _get_default, _strtobool, _detect_backend, Config.__init__, `config = Config()`
  solver.py         _get_backend_by_name (if/elif chain), _get_default_backend, _get_backend,
                    Solver.find_answer / Solver.solve (class instantiated = _get_backend(backend))
  backend/sugar_like.py, backend/z3.py   the external entry point of every class in the chain
  graph.py          every `use_graph_primitive` decision site, its guard, every call that forwards
                    (or fixes) the argument, every place a native operator is emitted
"""
import ast
import os


class TranslateError(Exception):
    pass


def fail(msg, node=None, path=None):
    where = ""
    if node is not None and hasattr(node, "lineno"):
        where = " (line %d)" % node.lineno
    raise TranslateError("%s%s%s" % ((path + ": ") if path else "", msg, where))


# ------------------------------------------------------------------ generic helpers

def parse_file(path):
    with open(path) as f:
        return ast.parse(f.read(), path)


def body_nodoc(fn):
    b = list(fn.body)
    if b and isinstance(b[0], ast.Expr) and isinstance(b[0].value, ast.Constant) and isinstance(b[0].value.value, str):
        b = b[1:]
    return b


class _Strip(ast.NodeTransformer):
    def visit_arg(self, node):
        node.annotation = None
        node.type_comment = None
        return node

    def visit_FunctionDef(self, node):
        self.generic_visit(node)
        node.returns = None
        node.type_comment = None
        node.body = body_nodoc(node) or [ast.Pass()]
        return node

    def visit_AnnAssign(self, node):
        self.generic_visit(node)
        if node.value is None:
            return None
        return ast.Assign(targets=[node.target], value=node.value)


def norm(node):
    """dump of a function with annotations and docstring removed"""
    import copy
    n = _Strip().visit(copy.deepcopy(node))
    return ast.dump(n, annotate_fields=True, include_attributes=False)


def norm_src(src):
    return norm(ast.parse(src).body[0])


def is_overload(fn):
    for d in fn.decorator_list:
        if isinstance(d, ast.Name) and d.id == "overload":
            return True
        if isinstance(d, ast.Attribute) and d.attr == "overload":
            return True
    return False


def module_funcs(mod, path):
    out = {}
    for n in mod.body:
        if isinstance(n, ast.FunctionDef) and not is_overload(n):
            if n.name in out:
                fail("function %s defined twice" % n.name, n, path)
            out[n.name] = n
    return out


def module_class(mod, name, path):
    cs = [n for n in mod.body if isinstance(n, ast.ClassDef) and n.name == name]
    if len(cs) != 1:
        fail("expected exactly one class %s" % name, None, path)
    return cs[0]


def class_methods(cls, path):
    out = {}
    for n in cls.body:
        if isinstance(n, ast.FunctionDef) and not is_overload(n):
            if n.name in out:
                fail("method %s.%s defined twice" % (cls.name, n.name), n, path)
            out[n.name] = n
    return out


def const_str(n, path, what):
    if isinstance(n, ast.Constant) and isinstance(n.value, str):
        return n.value
    fail("%s: expected a string literal" % what, n, path)


def str_tuple(n, path, what):
    if isinstance(n, (ast.Tuple, ast.List)) and all(isinstance(e, ast.Constant) and isinstance(e.value, str) for e in n.elts):
        return [e.value for e in n.elts]
    fail("%s: expected a tuple of string literals" % what, n, path)


def is_name(n, ident):
    return isinstance(n, ast.Name) and n.id == ident


def is_self_attr(n, attr=None):
    return isinstance(n, ast.Attribute) and is_name(n.value, "self") and (attr is None or n.attr == attr)


def dotted(n):
    parts = []
    while isinstance(n, ast.Attribute):
        parts.append(n.attr)
        n = n.value
    if isinstance(n, ast.Name):
        parts.append(n.id)
        return ".".join(reversed(parts))
    return None


def has_import_from(mod, module, name, level):
    for n in mod.body:
        if isinstance(n, ast.ImportFrom) and (n.module or "") == module and n.level == level:
            for a in n.names:
                if a.name == name and a.asname in (None, name):
                    return True
    return False


def assigned_names(mod):
    """module-level names bound more than once / rebound would change what a Name means"""
    cnt = {}
    for n in ast.walk(mod):
        if isinstance(n, ast.Global):
            for x in n.names:
                cnt[x] = cnt.get(x, 0) + 100
    for n in mod.body:
        tg = []
        if isinstance(n, ast.Assign):
            tg = n.targets
        elif isinstance(n, (ast.AnnAssign, ast.AugAssign)):
            tg = [n.target]
        for t in tg:
            for m in ast.walk(t):
                if isinstance(m, ast.Name):
                    cnt[m.id] = cnt.get(m.id, 0) + 1
        if isinstance(n, (ast.FunctionDef, ast.ClassDef)) and not (isinstance(n, ast.FunctionDef) and is_overload(n)):
            cnt[n.name] = cnt.get(n.name, 0) + 1
        if isinstance(n, (ast.Import, ast.ImportFrom)):
            for a in n.names:
                nm = (a.asname or a.name).split(".")[0]
                cnt[nm] = cnt.get(nm, 0) + 1
    return cnt


def require_single_binding(mod, names, path):
    cnt = assigned_names(mod)
    for nm in names:
        if cnt.get(nm, 0) != 1:
            fail("module-level name %s is bound %d times (expected exactly once)" % (nm, cnt.get(nm, 0)), None, path)


# ------------------------------------------------------------------ configuration.py

T_GET_DEFAULT = '''
def _get_default(infer_from_env, env_key, default):
    if infer_from_env:
        return os.environ.get(env_key, default)
    else:
        return default
'''


def read_configuration(path):
    mod = parse_file(path)
    fs = module_funcs(mod, path)
    for need in ("_get_default", "_strtobool", "_detect_backend"):
        if need not in fs:
            fail("function %s not found" % need, None, path)
    require_single_binding(mod, ["_get_default", "_strtobool", "_detect_backend", "Config", "config", "os"], path)
    if not any(isinstance(n, ast.Import) and any(a.name == "os" and a.asname is None for a in n.names) for n in mod.body):
        fail("`import os` not found", None, path)
    if norm(fs["_get_default"]) != norm_src(T_GET_DEFAULT):
        fail("_get_default has an unexpected body", fs["_get_default"], path)

    # _strtobool
    f = fs["_strtobool"]
    if [a.arg for a in f.args.args] != ["s"] or f.args.vararg or f.args.kwarg or f.args.kwonlyargs:
        fail("_strtobool: unexpected signature", f, path)
    b = body_nodoc(f)
    if len(b) != 2 or ast.dump(b[0]) != ast.dump(ast.parse("s = s.lower()").body[0]):
        fail("_strtobool: expected `s = s.lower()` followed by one if-chain", f, path)

    def in_test(t):
        if isinstance(t, ast.Compare) and is_name(t.left, "s") and len(t.ops) == 1 and isinstance(t.ops[0], ast.In):
            return str_tuple(t.comparators[0], path, "_strtobool")
        fail("_strtobool: expected `s in (<strings>)`", t, path)

    def ret_bool(body, want):
        if len(body) == 1 and isinstance(body[0], ast.Return) and isinstance(body[0].value, ast.Constant) and body[0].value.value is want:
            return
        fail("_strtobool: expected `return %s`" % want, body[0] if body else None, path)

    i1 = b[1]
    if not isinstance(i1, ast.If):
        fail("_strtobool: expected if-chain", i1, path)
    t_true = in_test(i1.test)
    ret_bool(i1.body, True)
    if len(i1.orelse) != 1 or not isinstance(i1.orelse[0], ast.If):
        fail("_strtobool: expected elif", i1, path)
    i2 = i1.orelse[0]
    t_false = in_test(i2.test)
    ret_bool(i2.body, False)
    if not (len(i2.orelse) == 1 and isinstance(i2.orelse[0], ast.Raise) and isinstance(i2.orelse[0].exc, ast.Call)
            and is_name(i2.orelse[0].exc.func, "ValueError")):
        fail("_strtobool: the chain must end with `raise ValueError(...)`", i2, path)

    # _detect_backend
    f = fs["_detect_backend"]
    if f.args.args or f.args.vararg or f.args.kwarg or f.args.kwonlyargs:
        fail("_detect_backend: unexpected signature", f, path)
    b = body_nodoc(f)
    detect = []
    if not b or not isinstance(b[-1], ast.Return):
        fail("_detect_backend: must end with `return <name>`", f, path)
    fallback = const_str(b[-1].value, path, "_detect_backend fallback")
    for st in b[:-1]:
        ok = (isinstance(st, ast.Try) and len(st.body) == 2 and not st.orelse and not st.finalbody
              and isinstance(st.body[0], ast.Import) and len(st.body[0].names) == 1 and st.body[0].names[0].asname is None
              and isinstance(st.body[1], ast.Return)
              and len(st.handlers) == 1 and is_name(st.handlers[0].type, "ImportError") and st.handlers[0].name is None
              and len(st.handlers[0].body) == 1 and isinstance(st.handlers[0].body[0], ast.Pass))
        if not ok:
            fail("_detect_backend: expected `try: import M; return NAME  except ImportError: pass`", st, path)
        detect.append((st.body[0].names[0].name, const_str(st.body[1].value, path, "_detect_backend")))

    # Config
    cls = module_class(mod, "Config", path)
    if cls.decorator_list or cls.keywords or not (len(cls.bases) == 0 or (len(cls.bases) == 1 and is_name(cls.bases[0], "object"))):
        fail("class Config: unexpected bases/decorators", cls, path)
    for n in cls.body:
        if isinstance(n, ast.Expr) and isinstance(n.value, ast.Constant) and isinstance(n.value.value, str):
            continue
        if isinstance(n, ast.AnnAssign) and n.value is None:
            continue
        if isinstance(n, ast.FunctionDef) and n.name == "__init__":
            continue
        fail("class Config: unexpected member (only annotations and __init__ are modelled)", n, path)
    init = class_methods(cls, path).get("__init__")
    if init is None:
        fail("Config.__init__ not found", cls, path)
    a = init.args
    if ([x.arg for x in a.args] != ["self", "infer_from_env"] or a.vararg or a.kwarg or a.kwonlyargs or a.posonlyargs
            or len(a.defaults) != 1 or not (isinstance(a.defaults[0], ast.Constant) and a.defaults[0].value is True)):
        fail("Config.__init__: expected (self, infer_from_env=True)", init, path)
    b = body_nodoc(init)
    if len(b) != 8:
        fail("Config.__init__: expected 8 statements, found %d" % len(b), init, path)

    def get_default_call(n, what):
        """_get_default(infer_from_env, "<ENV>", <default expr>) -> (env, default node)"""
        if (isinstance(n, ast.Call) and is_name(n.func, "_get_default") and len(n.args) == 3 and not n.keywords
                and is_name(n.args[0], "infer_from_env")):
            return const_str(n.args[1], path, what), n.args[2]
        fail("%s: expected _get_default(infer_from_env, <ENV>, <default>)" % what, n, path)

    def assign1(st, what):
        if isinstance(st, ast.Assign) and len(st.targets) == 1:
            return st.targets[0], st.value
        fail("%s: expected a simple assignment" % what, st, path)

    # 0: default_backend = _get_default(infer_from_env, ENV, "auto")
    tg, val = assign1(b[0], "Config.__init__[0]")
    if not isinstance(tg, ast.Name):
        fail("Config.__init__[0]: expected a local name", b[0], path)
    v0 = tg.id
    env_backend, d = get_default_call(val, "Config.__init__[0]")
    backend_default = const_str(d, path, "default of " + env_backend)
    # 1: if default_backend == "auto": self.default_backend = _detect_backend() else: self.default_backend = default_backend
    st = b[1]
    ok = (isinstance(st, ast.If) and isinstance(st.test, ast.Compare) and is_name(st.test.left, v0)
          and len(st.test.ops) == 1 and isinstance(st.test.ops[0], ast.Eq)
          and len(st.body) == 1 and len(st.orelse) == 1)
    if not ok:
        fail("Config.__init__[1]: expected `if %s == <auto>: ... else: ...`" % v0, st, path)
    auto = const_str(st.test.comparators[0], path, "auto name")
    tg, val = assign1(st.body[0], "Config.__init__[1] then")
    if not (is_self_attr(tg, "default_backend") and isinstance(val, ast.Call) and is_name(val.func, "_detect_backend")
            and not val.args and not val.keywords):
        fail("Config.__init__[1]: expected self.default_backend = _detect_backend()", st.body[0], path)
    tg, val = assign1(st.orelse[0], "Config.__init__[1] else")
    if not (is_self_attr(tg, "default_backend") and is_name(val, v0)):
        fail("Config.__init__[1]: expected self.default_backend = %s" % v0, st.orelse[0], path)
    # 2: self.backend_path = _get_default(infer_from_env, ENV, None)
    tg, val = assign1(b[2], "Config.__init__[2]")
    if not is_self_attr(tg, "backend_path"):
        fail("Config.__init__[2]: expected self.backend_path = ...", b[2], path)
    env_path, d = get_default_call(val, "Config.__init__[2]")
    if not (isinstance(d, ast.Constant) and d.value is None):
        fail("Config.__init__[2]: default of backend_path must be None", b[2], path)

    # 3, 4: if self.default_backend in (...): X = "True" else: X = "False"
    def default_block(st, what):
        ok = (isinstance(st, ast.If) and isinstance(st.test, ast.Compare) and is_self_attr(st.test.left, "default_backend")
              and len(st.test.ops) == 1 and isinstance(st.test.ops[0], ast.In) and len(st.body) == 1 and len(st.orelse) == 1)
        if not ok:
            fail("%s: expected `if self.default_backend in (...): X = <on> else: X = <off>`" % what, st, path)
        names = str_tuple(st.test.comparators[0], path, what)
        t1, v1 = assign1(st.body[0], what)
        t2, v2 = assign1(st.orelse[0], what)
        if not (isinstance(t1, ast.Name) and isinstance(t2, ast.Name) and t1.id == t2.id):
            fail("%s: both branches must assign the same local" % what, st, path)
        return t1.id, names, const_str(v1, path, what), const_str(v2, path, what)

    g1, on1, s_on1, s_off1 = default_block(b[3], "Config.__init__[3]")
    g2, on2, s_on2, s_off2 = default_block(b[4], "Config.__init__[4]")
    if g1 == g2 or g1 == v0 or g2 == v0:
        fail("Config.__init__: the default locals must be distinct", b[4], path)
    if (s_on1, s_off1) != (s_on2, s_off2):
        fail("Config.__init__: the two default blocks use different on/off strings", b[4], path)
    blocks = {g1: on1, g2: on2}

    # 5, 6: self.<flag> = _strtobool(_get_default(infer_from_env, ENV, X))
    flags = {}
    for k in (5, 6):
        tg, val = assign1(b[k], "Config.__init__[%d]" % k)
        if not (is_self_attr(tg) and isinstance(val, ast.Call) and is_name(val.func, "_strtobool") and len(val.args) == 1 and not val.keywords):
            fail("Config.__init__[%d]: expected self.<flag> = _strtobool(_get_default(...))" % k, b[k], path)
        env, d = get_default_call(val.args[0], "Config.__init__[%d]" % k)
        if not (isinstance(d, ast.Name) and d.id in blocks):
            fail("Config.__init__[%d]: default must be one of the locals %s" % (k, sorted(blocks)), b[k], path)
        if tg.attr in flags:
            fail("Config.__init__: flag %s assigned twice" % tg.attr, b[k], path)
        flags[tg.attr] = (env, blocks[d.id], d.id)
    if sorted(flags) != ["use_graph_division_primitive", "use_graph_primitive"]:
        fail("Config.__init__: expected the flags use_graph_primitive and use_graph_division_primitive, found %s" % sorted(flags), init, path)
    if flags["use_graph_primitive"][2] == flags["use_graph_division_primitive"][2]:
        fail("Config.__init__: both flags use the same default local", init, path)
    # 7: self.solver_timeout = None
    tg, val = assign1(b[7], "Config.__init__[7]")
    if not (is_self_attr(tg, "solver_timeout") and isinstance(val, ast.Constant) and val.value is None):
        fail("Config.__init__[7]: expected self.solver_timeout = None", b[7], path)
    # module level: config = Config()
    cfg_assign = [n for n in mod.body if isinstance(n, ast.Assign) and len(n.targets) == 1 and is_name(n.targets[0], "config")]
    if len(cfg_assign) != 1 or not (isinstance(cfg_assign[0].value, ast.Call) and is_name(cfg_assign[0].value.func, "Config")
                                    and not cfg_assign[0].value.args and not cfg_assign[0].value.keywords):
        fail("expected module-level `config = Config()`", None, path)
    return {
        "detect": detect, "fallback": fallback, "env_backend": env_backend, "backend_default": backend_default,
        "auto": auto, "env_path": env_path,
        "env_prim": flags["use_graph_primitive"][0], "prim_on": flags["use_graph_primitive"][1],
        "env_div": flags["use_graph_division_primitive"][0], "div_on": flags["use_graph_division_primitive"][1],
        "on_str": s_on1, "off_str": s_off1, "true": t_true, "false": t_false,
    }


# ------------------------------------------------------------------ solver.py

T_GET_DEFAULT_BACKEND = '''
def _get_default_backend():
    backend_name = config.default_backend
    return _get_backend_by_name(backend_name)
'''

T_GET_BACKEND = '''
def _get_backend(backend):
    if backend is None:
        return _get_default_backend()
    elif isinstance(backend, str):
        return _get_backend_by_name(backend)
    else:
        return backend
'''


def read_solver(path):
    mod = parse_file(path)
    fs = module_funcs(mod, path)
    for need in ("_get_backend_by_name", "_get_default_backend", "_get_backend"):
        if need not in fs:
            fail("function %s not found" % need, None, path)
    require_single_binding(mod, ["_get_backend_by_name", "_get_default_backend", "_get_backend", "config", "backend", "Solver"], path)
    if not has_import_from(mod, "", "backend", 1):
        fail("`from . import backend` not found", None, path)
    if not has_import_from(mod, "configuration", "config", 1):
        fail("`from .configuration import config` not found", None, path)
    if norm(fs["_get_default_backend"]) != norm_src(T_GET_DEFAULT_BACKEND):
        fail("_get_default_backend has an unexpected body", fs["_get_default_backend"], path)
    if norm(fs["_get_backend"]) != norm_src(T_GET_BACKEND):
        fail("_get_backend has an unexpected body", fs["_get_backend"], path)

    f = fs["_get_backend_by_name"]
    a = f.args
    if len(a.args) != 1 or a.vararg or a.kwarg or a.kwonlyargs or a.posonlyargs or a.defaults:
        fail("_get_backend_by_name: unexpected signature", f, path)
    p = a.args[0].arg
    b = body_nodoc(f)
    if len(b) != 1 or not isinstance(b[0], ast.If):
        fail("_get_backend_by_name: expected a single if/elif chain", f, path)
    chain = []
    cur = b[0]
    while True:
        t = cur.test
        if not (isinstance(t, ast.Compare) and is_name(t.left, p) and len(t.ops) == 1 and isinstance(t.ops[0], ast.Eq)):
            fail("_get_backend_by_name: expected `%s == <name>`" % p, t, path)
        name = const_str(t.comparators[0], path, "_get_backend_by_name")
        if not (len(cur.body) == 1 and isinstance(cur.body[0], ast.Return)):
            fail("_get_backend_by_name: expected `return backend.<module>.<Class>`", cur, path)
        q = dotted(cur.body[0].value)
        if q is None or not q.startswith("backend.") or q.count(".") != 2:
            fail("_get_backend_by_name: expected `return backend.<module>.<Class>`", cur.body[0], path)
        chain.append((name, q[len("backend."):]))
        if len(cur.orelse) == 1 and isinstance(cur.orelse[0], ast.If):
            cur = cur.orelse[0]
            continue
        r = cur.orelse
        if not (len(r) == 1 and isinstance(r[0], ast.Raise) and isinstance(r[0].exc, ast.Call) and is_name(r[0].exc.func, "ValueError")):
            fail("_get_backend_by_name: the chain must end with `else: raise ValueError(...)`", cur, path)
        break

    # Solver.find_answer / Solver.solve: class instantiated is _get_backend(backend)
    cls = module_class(mod, "Solver", path)
    ms = class_methods(cls, path)
    for mname in ("find_answer", "solve"):
        m = ms.get(mname)
        if m is None:
            fail("Solver.%s not found" % mname, cls, path)
        a = m.args
        if ([x.arg for x in a.args] != ["self", "backend"] or a.vararg or a.kwarg or a.kwonlyargs or a.posonlyargs
                or len(a.defaults) != 1 or not (isinstance(a.defaults[0], ast.Constant) and a.defaults[0].value is None)):
            fail("Solver.%s: expected (self, backend=None)" % mname, m, path)
        gb = [n for n in ast.walk(m) if isinstance(n, ast.Call) and is_name(n.func, "_get_backend")]
        if len(gb) != 1 or len(gb[0].args) != 1 or gb[0].keywords or not is_name(gb[0].args[0], "backend"):
            fail("Solver.%s: expected exactly one `_get_backend(backend)`" % mname, m, path)
        asg = [n for n in body_nodoc(m) if isinstance(n, ast.Assign) and n.value is gb[0]]
        if len(asg) != 1 or len(asg[0].targets) != 1 or not isinstance(asg[0].targets[0], ast.Name):
            fail("Solver.%s: `_get_backend(backend)` must be assigned to a local at the top level" % mname, m, path)
        bt = asg[0].targets[0].id
        stores = [n for n in ast.walk(m) if isinstance(n, ast.Name) and n.id in (bt, "backend") and isinstance(n.ctx, (ast.Store, ast.Del))]
        if len(stores) != 1:
            fail("Solver.%s: `%s`/`backend` re-assigned" % (mname, bt), m, path)
        inst = [n for n in ast.walk(m) if isinstance(n, ast.Call) and is_name(n.func, bt)]
        uses = [n for n in ast.walk(m) if isinstance(n, ast.Name) and n.id == bt and isinstance(n.ctx, ast.Load)]
        if len(inst) != 1 or len(uses) != 1:
            fail("Solver.%s: expected exactly one instantiation `%s(...)`" % (mname, bt), m, path)
        inst_asg = [n for n in body_nodoc(m) if isinstance(n, ast.Assign) and n.value is inst[0]]
        if len(inst_asg) != 1 or len(inst_asg[0].targets) != 1 or not isinstance(inst_asg[0].targets[0], ast.Name):
            fail("Solver.%s: the backend instance must be assigned to a local at the top level" % mname, m, path)
        cs = inst_asg[0].targets[0].id
        # every solver call in the method goes to that instance
        for n in ast.walk(m):
            if isinstance(n, ast.Call) and isinstance(n.func, ast.Attribute) and n.func.attr in ("solve", "solve_irrefutably", "add_constraint"):
                if not is_name(n.func.value, cs):
                    fail("Solver.%s: %s called on something else than the selected backend instance" % (mname, n.func.attr), n, path)
        if not any(isinstance(n, ast.Call) and isinstance(n.func, ast.Attribute) and n.func.attr in ("solve", "solve_irrefutably") and is_name(n.func.value, cs) for n in ast.walk(m)):
            fail("Solver.%s: no solve call on the selected backend instance" % mname, m, path)
    return {"backends": chain}


# ------------------------------------------------------------------ backend classes

T_CALL_MODULE = '''
def _call_solver(self, csp_description):
    import %(m)s
    return %(m)s.solver(csp_description)
'''

T_CALL_SUBPROCESS = '''
def _call_solver(self, csp_description):
    sugar_path = config.backend_path or %(d)r
    out = run_subprocess([sugar_path, "/dev/stdin"], csp_description, timeout=config.solver_timeout)
    return out
'''

T_NOT_IMPL = '''
def solve_irrefutably(self, is_answer_key):
    raise NotImplementedError
'''


def read_backend_classes(backend_dir, chain):
    entries = []
    done = set()
    cache = {}
    for _, q in chain:
        if q in done:
            continue
        done.add(q)
        modname, clsname = q.split(".")
        path = os.path.join(backend_dir, modname + ".py")
        if modname not in cache:
            if not os.path.exists(path):
                fail("backend module %s not found" % modname, None, path)
            cache[modname] = parse_file(path)
        mod = cache[modname]
        init_path = os.path.join(backend_dir, "__init__.py")
        if modname == "sugar_like":
            cls = module_class(mod, clsname, path)
            require_single_binding(mod, [clsname, "SugarLikeBackend", "config", "run_subprocess"], path)
            if not has_import_from(mod, "configuration", "config", 2):
                fail("`from ..configuration import config` not found", None, path)
            if not (len(cls.bases) == 1 and is_name(cls.bases[0], "SugarLikeBackend")) or cls.keywords or cls.decorator_list:
                fail("class %s: expected the single base SugarLikeBackend" % clsname, cls, path)
            ms = class_methods(cls, path)
            for n in cls.body:
                if isinstance(n, ast.Expr) and isinstance(n.value, ast.Constant):
                    continue
                if not (isinstance(n, ast.FunctionDef) and n.name in ("_call_solver", "solve_irrefutably")):
                    fail("class %s: unexpected member" % clsname, n, path)
            if "solve_irrefutably" in ms and norm(ms["solve_irrefutably"]) != norm_src(T_NOT_IMPL):
                fail("class %s: solve_irrefutably override is not `raise NotImplementedError`" % clsname, ms["solve_irrefutably"], path)
            cs = ms.get("_call_solver")
            if cs is None:
                fail("class %s: _call_solver not found" % clsname, cls, path)
            b = body_nodoc(cs)
            if b and isinstance(b[0], ast.Import) and len(b[0].names) == 1 and b[0].names[0].asname is None:
                m = b[0].names[0].name
                if not m.isidentifier() or norm(cs) != norm_src(T_CALL_MODULE % {"m": m}):
                    fail("class %s: _call_solver is not `import M; return M.solver(csp_description)`" % clsname, cs, path)
                entries.append((q, ("module", m)))
            else:
                d = None
                if (b and isinstance(b[0], ast.Assign) and isinstance(b[0].value, ast.BoolOp) and len(b[0].value.values) == 2
                        and isinstance(b[0].value.values[1], ast.Constant) and isinstance(b[0].value.values[1].value, str)):
                    d = b[0].value.values[1].value
                if d is None or norm(cs) != norm_src(T_CALL_SUBPROCESS % {"d": d}):
                    fail("class %s: _call_solver is not the subprocess call on `config.backend_path or <default>`" % clsname, cs, path)
                entries.append((q, ("subprocess", d)))
            # the base class reaches the solver only through self._call_solver
            base = module_class(mod, "SugarLikeBackend", path)
            bms = class_methods(base, path)
            for mname in ("solve", "solve_irrefutably"):
                if mname not in bms:
                    fail("SugarLikeBackend.%s not found" % mname, base, path)
                calls = [n for n in ast.walk(bms[mname]) if isinstance(n, ast.Call) and isinstance(n.func, ast.Attribute)
                         and n.func.attr == "_call_solver" and is_name(n.func.value, "self")]
                if len(calls) != 1:
                    fail("SugarLikeBackend.%s: expected exactly one self._call_solver(...)" % mname, bms[mname], path)
        elif modname == "z3":
            cls = module_class(mod, clsname, path)
            init = class_methods(cls, path).get("__init__")
            if init is None:
                fail("class %s: __init__ not found" % clsname, cls, path)
            imps = [n for n in ast.walk(cls) if isinstance(n, ast.Call) and dotted(n.func) == "importlib.import_module"]
            if len(imps) != 1 or len(imps[0].args) != 1 or imps[0].keywords:
                fail("class %s: expected exactly one importlib.import_module(<name>)" % clsname, cls, path)
            m = const_str(imps[0].args[0], path, "import_module")
            if any(isinstance(n, (ast.Import, ast.ImportFrom)) for n in ast.walk(cls)):
                fail("class %s: unexpected import statement" % clsname, cls, path)
            entries.append((q, ("module", m)))
        else:
            fail("backend module %s is not modelled" % modname, None, path)
        # backend/__init__.py must expose the module under that name
        imod = parse_file(init_path)
        if not has_import_from(imod, "", modname, 1):
            fail("backend/__init__.py does not import %s" % modname, None, init_path)
    return {"entries": entries}


# ------------------------------------------------------------------ graph.py

UGP = "use_graph_primitive"
FLAG_ATTRS = {"use_graph_primitive": "FlagPrim", "use_graph_division_primitive": "FlagDiv"}
NATIVE_OPS = {"GRAPH_ACTIVE_VERTICES_CONNECTED": "OpAVC", "GRAPH_DIVISION": "OpDIV"}


def _params(fn):
    a = fn.args
    pos = [x.arg for x in a.posonlyargs] + [x.arg for x in a.args]
    kwonly = [x.arg for x in a.kwonlyargs]
    defaults = {}
    for name, d in zip(pos[len(pos) - len(a.defaults):], a.defaults):
        defaults[name] = d
    for name, d in zip(kwonly, a.kw_defaults):
        if d is not None:
            defaults[name] = d
    return pos, kwonly, defaults


def read_graph(path):
    mod = parse_file(path)
    fs = module_funcs(mod, path)
    if not has_import_from(mod, "configuration", "config", 1):
        fail("`from .configuration import config` not found", None, path)
    require_single_binding(mod, ["config", "Op"], path)
    for n in mod.body:
        if isinstance(n, ast.FunctionDef) and is_overload(n):
            continue
        if isinstance(n, ast.FunctionDef):
            for m in ast.walk(n):
                if m is not n and isinstance(m, (ast.FunctionDef, ast.Lambda, ast.ClassDef, ast.AsyncFunctionDef)):
                    for k in ast.walk(m):
                        if (isinstance(k, ast.Name) and k.id in (UGP, "config")) or (isinstance(k, ast.Attribute) and k.attr in NATIVE_OPS):
                            fail("nested function/lambda touches use_graph_primitive/config/native op", k, path)
        elif isinstance(n, ast.ClassDef):
            for k in ast.walk(n):
                if (isinstance(k, ast.Name) and k.id in (UGP, "config")) or (isinstance(k, ast.Attribute) and k.attr in NATIVE_OPS):
                    fail("class %s touches use_graph_primitive/config/native op" % n.name, k, path)
        else:
            for k in ast.walk(n):
                if (isinstance(k, ast.Name) and k.id == UGP) or (isinstance(k, ast.Attribute) and k.attr in NATIVE_OPS):
                    fail("module-level statement touches use_graph_primitive/native op", k, path)
                if isinstance(k, ast.Name) and k.id == "config" and not isinstance(n, ast.ImportFrom):
                    fail("module-level statement touches config", k, path)

    has_ugp = set()
    for name, f in fs.items():
        pos, kwonly, _ = _params(f)
        if f.args.vararg or f.args.kwarg:
            if any(isinstance(k, ast.Name) and k.id == UGP for k in ast.walk(f)):
                fail("%s: *args/**kwargs together with use_graph_primitive" % name, f, path)
        if UGP in pos or UGP in kwonly:
            has_ugp.add(name)

    sites, calls, emits, raises = [], [], [], []

    for name, f in fs.items():
        pos, kwonly, _ = _params(f)
        my_params = set(pos) | set(kwonly)
        accounted = set()      # ids of Name(use_graph_primitive) / config attribute nodes that have a meaning
        state = {"site": None, "guard": False, "mentioned": False, "early": None}

        def handle_call(c, br, var, guarded):
            g = c.func.id
            gpos, gkw, gdef = _params(fs[g])
            if any(isinstance(x, ast.Starred) for x in c.args) or any(k.arg is None for k in c.keywords):
                fail("%s: call to %s with */** arguments" % (name, g), c, path)

            def actual(pname):
                for k in c.keywords:
                    if k.arg == pname:
                        return k.value
                if pname in gpos and gpos.index(pname) < len(c.args):
                    return c.args[gpos.index(pname)]
                return None

            v = actual(UGP)
            if v is None:
                if not (UGP in gdef and isinstance(gdef[UGP], ast.Constant) and gdef[UGP].value is None):
                    fail("%s: call to %s omits use_graph_primitive, whose default is not None" % (name, g), c, path)
                arg = "ArgOmitted"
            elif is_name(v, UGP):
                if UGP not in my_params:
                    fail("%s: forwards use_graph_primitive but has no such parameter" % name, c, path)
                accounted.add(id(v))
                arg = "ArgPass"
            elif isinstance(v, ast.Constant) and v.value is True:
                arg = "(ArgConst true)"
            elif isinstance(v, ast.Constant) and v.value is False:
                arg = "(ArgConst false)"
            elif isinstance(v, ast.Constant) and v.value is None:
                arg = "ArgOmitted"
            else:
                fail("%s: call to %s passes an unmodelled use_graph_primitive expression" % (name, g), c, path)
            if "acyclic" in gpos or "acyclic" in gkw:
                w = actual("acyclic")
                if w is None:
                    d = gdef.get("acyclic")
                    if not (isinstance(d, ast.Constant) and isinstance(d.value, bool)):
                        fail("%s: call to %s omits acyclic, which has no boolean default" % (name, g), c, path)
                    acy = "(AcyConst %s)" % ("true" if d.value else "false")
                elif is_name(w, "acyclic"):
                    if "acyclic" not in my_params:
                        fail("%s: forwards acyclic but has no such parameter" % name, c, path)
                    acy = "AcyPass"
                elif isinstance(w, ast.Constant) and isinstance(w.value, bool):
                    acy = "(AcyConst %s)" % ("true" if w.value else "false")
                else:
                    fail("%s: call to %s passes an unmodelled acyclic expression" % (name, g), c, path)
            else:
                acy = "(AcyConst false)"
            gv = actual("graph") if ("graph" in gpos or "graph" in gkw) else None
            given = gv is not None and not (isinstance(gv, ast.Constant) and gv.value is None)
            calls.append((c.lineno, c.col_offset, name, br, var, g, arg, acy, cbool(given), cbool(guarded)))

        def recorded():
            return len(calls) + len(emits)

        def scan(node, br, var="VAny", guarded=False):
            """everything inside a statement that is not a site / guard header.  [guarded]: the node
            sits under a further data-dependent condition (if / while / conditional expression /
            short-circuit operand / filtered comprehension / except handler)"""
            if isinstance(node, ast.Call) and isinstance(node.func, ast.Name) and node.func.id in has_ugp and node.func.id in fs:
                accounted.add(id(node.func))
                handle_call(node, br, var, guarded)
            if isinstance(node, ast.Attribute) and node.attr in NATIVE_OPS:
                if not is_name(node.value, "Op"):
                    fail("%s: native operator not referenced as Op.<NAME>" % name, node, path)
                if guarded:
                    fail("%s: native operator emitted under a data-dependent condition" % name, node, path)
                emits.append((node.lineno, node.col_offset, name, br, NATIVE_OPS[node.attr]))
            if isinstance(node, (ast.If, ast.While)):
                scan(node.test, br, var, guarded)
                scan_block(node.body, br, var, True)
                scan_block(node.orelse, br, var, True)
            elif isinstance(node, ast.IfExp):
                scan(node.test, br, var, guarded)
                scan(node.body, br, var, True)
                scan(node.orelse, br, var, True)
            elif isinstance(node, ast.BoolOp):
                scan(node.values[0], br, var, guarded)
                for v in node.values[1:]:
                    scan(v, br, var, True)
            elif isinstance(node, ast.Try):
                scan_block(node.body, br, var, guarded)
                for h in node.handlers:
                    scan_block(h.body, br, var, True)
                scan_block(node.orelse, br, var, True)
                scan_block(node.finalbody, br, var, guarded)
            elif isinstance(node, (ast.ListComp, ast.SetComp, ast.GeneratorExp, ast.DictComp)):
                g2 = guarded or any(gen.ifs for gen in node.generators)
                for child in ast.iter_child_nodes(node):
                    scan(child, br, var, g2)
            elif isinstance(node, (ast.For,)):
                scan(node.target, br, var, guarded)
                scan(node.iter, br, var, guarded)
                scan_block(node.body, br, var, guarded)
                scan_block(node.orelse, br, var, guarded)
            elif isinstance(node, ast.With):
                for it in node.items:
                    scan(it, br, var, guarded)
                scan_block(node.body, br, var, guarded)
            else:
                for child in ast.iter_child_nodes(node):
                    scan(child, br, var, guarded)

        def has_cond_return(st):
            """a data-dependent statement that may leave the function early"""
            if isinstance(st, (ast.If, ast.While, ast.For, ast.Try, ast.With)):
                return any(isinstance(k, ast.Return) for k in ast.walk(st))
            return False

        def scan_block(stmts, br, var, guarded):
            early = None
            for st in stmts:
                before = recorded()
                scan(st, br, var, guarded)
                if early is not None and recorded() != before:
                    fail("%s: a call/emission follows a conditional return (line %d); not modelled" % (name, early), st, path)
                if has_cond_return(st):
                    early = st.lineno

        def walk_body(stmts, br, top):
            cur = br
            for st in stmts:
                mentions = [k for k in ast.walk(st) if isinstance(k, ast.Name) and k.id == UGP]
                if isinstance(st, ast.If) and any(isinstance(k, ast.Name) and k.id == UGP for k in ast.walk(st.test)):
                    t = st.test
                    if isinstance(t, ast.Compare) and is_name(t.left, UGP) and len(t.ops) == 1 and isinstance(t.ops[0], ast.Is) \
                            and isinstance(t.comparators[0], ast.Constant) and t.comparators[0].value is None:
                        # the fallback site
                        if not top or state["site"] is not None or state["mentioned"] or name not in has_ugp:
                            fail("%s: the `is None` fallback must be the first use of use_graph_primitive, at the top level, once" % name, st, path)
                        ok = (len(st.body) == 1 and not st.orelse and isinstance(st.body[0], ast.Assign) and len(st.body[0].targets) == 1
                              and is_name(st.body[0].targets[0], UGP) and isinstance(st.body[0].value, ast.Attribute)
                              and is_name(st.body[0].value.value, "config") and st.body[0].value.attr in FLAG_ATTRS)
                        if not ok:
                            fail("%s: expected `use_graph_primitive = config.<flag>` as the fallback" % name, st, path)
                        state["site"] = FLAG_ATTRS[st.body[0].value.attr]
                        accounted.add(id(t.left))
                        accounted.add(id(st.body[0].targets[0]))
                        accounted.add(id(st.body[0].value.value))
                        state["mentioned"] = True
                        continue
                    # the guard
                    if not top or state["site"] is None or state["guard"] or cur != "BrTop":
                        fail("%s: a branch on use_graph_primitive must be the single top-level guard after the fallback" % name, st, path)
                    if is_name(t, UGP):
                        nacy = False
                        accounted.add(id(t))
                    elif (isinstance(t, ast.BoolOp) and isinstance(t.op, ast.And) and len(t.values) == 2 and is_name(t.values[0], UGP)
                          and isinstance(t.values[1], ast.UnaryOp) and isinstance(t.values[1].op, ast.Not) and is_name(t.values[1].operand, "acyclic")):
                        if "acyclic" not in my_params:
                            fail("%s: guard mentions acyclic, which is not a parameter" % name, st, path)
                        nacy = True
                        accounted.add(id(t.values[0]))
                    else:
                        fail("%s: unmodelled guard on use_graph_primitive" % name, st, path)
                    state["guard"] = True
                    state["mentioned"] = True
                    sites.append((st.lineno, name, state["site"], nacy))
                    for (body, b2) in ((st.body, "BrPrim"), (st.orelse, "BrElse")):
                        for s2 in body:
                            if isinstance(s2, ast.Raise):
                                e = s2.exc.func if isinstance(s2.exc, ast.Call) else s2.exc
                                if not isinstance(e, ast.Name):
                                    fail("%s: unmodelled raise in a guard branch" % name, s2, path)
                                raises.append((s2.lineno, name, b2, e.id))
                        walk_body(body, b2, False)
                    if not st.orelse and st.body and isinstance(st.body[-1], ast.Return):
                        cur = "BrElse"
                    elif not st.orelse and any(isinstance(k, ast.Return) for s2 in st.body for k in ast.walk(s2)):
                        fail("%s: conditional return inside the primitive branch" % name, st, path)
                    continue
                if mentions:
                    state["mentioned"] = True
                if (top and isinstance(st, ast.If) and isinstance(st.test, ast.Compare) and is_name(st.test.left, "graph")
                        and len(st.test.ops) == 1 and isinstance(st.test.ops[0], ast.Is)
                        and isinstance(st.test.comparators[0], ast.Constant) and st.test.comparators[0].value is None
                        and "graph" in my_params):
                    # `if graph is None: <graph inferred> else: <graph given>`: two variants of the same helper
                    before = recorded()
                    scan_block(st.body, cur, "VInferred", False)
                    scan_block(st.orelse, cur, "VExplicit", False)
                    if state["early"] is not None and recorded() != before:
                        fail("%s: a call/emission follows a conditional return (line %d); not modelled" % (name, state["early"]), st, path)
                    continue
                before = recorded()
                scan(st, cur)
                if state["early"] is not None and recorded() != before:
                    fail("%s: a call/emission follows a conditional return (line %d); not modelled" % (name, state["early"]), st, path)
                if has_cond_return(st):
                    state["early"] = st.lineno

        body = body_nodoc(f)
        walk_body(body, "BrTop", True)
        # every remaining mention of the argument / of config must have been given a meaning
        for k in ast.walk(f):
            if isinstance(k, ast.arg):
                continue
            if isinstance(k, ast.Name) and k.id == UGP and id(k) not in accounted:
                fail("%s: use of use_graph_primitive that the model gives no meaning to" % name, k, path)
            if isinstance(k, ast.Name) and k.id == "config" and id(k) not in accounted:
                fail("%s: use of config that the model gives no meaning to" % name, k, path)
            if isinstance(k, ast.Name) and k.id in has_ugp and k.id in fs and id(k) not in accounted:
                fail("%s: %s referenced other than by a direct call" % (name, k.id), k, path)
        if state["site"] is not None and not state["guard"]:
            fail("%s: fallback to config without a guard" % name, f, path)

    sites.sort()
    calls.sort()
    emits.sort()
    raises.sort()
    return {
        "sites": [(n, fl, na) for (_, n, fl, na) in sites],
        "calls": [tuple(x[2:]) for x in calls],
        "emits": [(a, b, c) for (_, _, a, b, c) in emits],
        "raises": [(a, b, c) for (_, a, b, c) in raises],
    }


# ------------------------------------------------------------------ rendering

def cs(s):
    if not all(32 <= ord(c) < 127 for c in s):
        raise TranslateError("string %r is not printable ASCII" % s)
    return '"' + s.replace('"', '""') + '"'


def clist(items):
    return "[" + "; ".join(items) + "]"


def cbool(b):
    return "true" if b else "false"


def read_all(repo):
    base = os.path.join(repo, "cspuz")
    t = {}
    t.update(read_configuration(os.path.join(base, "configuration.py")))
    t.update(read_solver(os.path.join(base, "solver.py")))
    t.update(read_backend_classes(os.path.join(base, "backend"), t["backends"]))
    t.update(read_graph(os.path.join(base, "graph.py")))
    return t


def render(t):
    L = []
    L.append("(* GENERATED by harness/c20_translate.py from /repo/cspuz/{configuration,solver,graph}.py and")
    L.append("   backend/{sugar_like,z3}.py on every run of ./check C20 -- do not edit. *)")
    L.append("From Coq Require Import String List.")
    L.append("From Cspuz Require Import Backend.Config.")
    L.append("Import ListNotations.")
    L.append("Local Open Scope string_scope.")
    L.append("")
    L.append("Definition tables : Config.tables := {|")
    f = []
    f.append("  t_backends := " + clist("(%s, %s)" % (cs(a), cs(b)) for a, b in t["backends"]))
    f.append("  t_detect := " + clist("(%s, %s)" % (cs(a), cs(b)) for a, b in t["detect"]))
    f.append("  t_detect_fallback := " + cs(t["fallback"]))
    f.append("  t_env_backend := " + cs(t["env_backend"]))
    f.append("  t_backend_default := " + cs(t["backend_default"]))
    f.append("  t_auto := " + cs(t["auto"]))
    f.append("  t_env_path := " + cs(t["env_path"]))
    f.append("  t_env_prim := " + cs(t["env_prim"]))
    f.append("  t_env_div := " + cs(t["env_div"]))
    f.append("  t_prim_on := " + clist(cs(x) for x in t["prim_on"]))
    f.append("  t_div_on := " + clist(cs(x) for x in t["div_on"]))
    f.append("  t_on_str := " + cs(t["on_str"]))
    f.append("  t_off_str := " + cs(t["off_str"]))
    f.append("  t_true := " + clist(cs(x) for x in t["true"]))
    f.append("  t_false := " + clist(cs(x) for x in t["false"]))
    f.append("  t_entries := " + clist(
        "(%s, %s)" % (cs(q), ("EntryModule " + cs(v)) if k == "module" else ("EntrySubprocess " + cs(v))) for q, (k, v) in t["entries"]))
    f.append("  t_sites := " + clist("mk_site %s %s %s" % (cs(n), fl, cbool(na)) for n, fl, na in t["sites"]))
    f.append("  t_calls := " + clist("mk_call %s %s %s %s %s %s %s %s" % (cs(a), b, v, cs(c), d, e, g, h) for a, b, v, c, d, e, g, h in t["calls"]))
    f.append("  t_emits := " + clist("mk_emit %s %s %s" % (cs(a), b, c) for a, b, c in t["emits"]))
    f.append("  t_raises := " + clist("mk_raise %s %s %s" % (cs(a), b, cs(c)) for a, b, c in t["raises"]))
    L.append(";\n".join(f))
    L.append("|}.")
    return "\n".join(L) + "\n"
