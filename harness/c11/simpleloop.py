"""C11 plug-in: simpleloop (solve_simpleloop(height, width, blocked, pivot))."""
import c11lib as L

NAME = "simpleloop"
MODULE = "cspuz.puzzle.simpleloop"
FUNC = "solve_simpleloop"
LOOP = True


def call(mod, pb):
    return mod.solve_simpleloop(pb["h"], pb["w"], pb["grid"], tuple(pb["pivot"]))


def ncand(pb):
    return 2 ** L.n_loop_edges(pb['h'], pb['w'])


def encode(pb):
    return [[pb["h"], pb["w"], pb["pivot"][0], pb["pivot"][1]], L.flat(pb["grid"])]


def families(tier, rng):
    th = tier == "thorough"
    for (h, w) in [(1, 1), (1, 2), (2, 1), (2, 2), (1, 3), (2, 3), (3, 2)] + ([(3, 3)] if th else []):
        for g in L.all_grids(h, w, [0, 1]):
            for py in range(h):
                for px in range(w):
                    if th or h * w <= 4 or rng.random() < 0.3:
                        yield {"h": h, "w": w, "grid": g, "pivot": [py, px]}
    for (h, w) in [(3, 3), (2, 4), (4, 2), (2, 5)] + ([(3, 4), (4, 3)] if th else []):
        for _ in range(150 if th else 25):
            yield {"h": h, "w": w, "grid": L.random_grid(rng, h, w, [0, 1], 0.8),
                   "pivot": [rng.randrange(h), rng.randrange(w)]}


def tier2(tier, rng):
    th = tier == "thorough"
    for (h, w) in [(1, 1), (1, 2), (2, 2)]:
        for g in L.all_grids(h, w, [0, 1]):
            yield {"h": h, "w": w, "grid": g, "pivot": [0, 0]}
            if th:
                yield {"h": h, "w": w, "grid": g, "pivot": [h - 1, w - 1]}


TIER1 = ("Simpleloop", "solve_simpleloop_model")
TIER1_PRIM = ("SimpleloopPrim", "solve_simpleloop_model_prim")


def tier1_problems(tier, rng):
    """program-capture tie: every 0/1 layout and every pivot of the boards with <= 4 cells, a sample (thorough: all) of
    the layouts x pivots of the boards with 5..6 cells (both orientations), layouts with entries other than 0/1 (any
    non-zero entry is a black cell), random layouts on larger and non-square boards (up to 7x7, 1xN, Nx1) with pivots in
    the corners / on the rim / inside, and malformed problems: boards without cells (height or width <= 0: ValueError,
    both negative: IndexError), a pivot outside the board (IndexError beyond [-h, h) x [-w, w); a negative coordinate
    inside that range is accepted by the Python - it equals no cell and indexes is_passed from the end), trailing cells /
    rows of `blocked` missing (IndexError, except when the only missing cell is the pivot, which is never read)"""
    th = tier == "thorough"

    def pivots(h, w):
        return [[py, px] for py in range(h) for px in range(w)]

    for (h, w) in [(1, 1), (1, 2), (2, 1), (1, 3), (3, 1), (2, 2), (1, 4), (4, 1)]:
        for g in L.all_grids(h, w, [0, 1]):
            for pv in pivots(h, w):
                yield {"h": h, "w": w, "grid": g, "pivot": pv}
    for (h, w) in [(1, 5), (5, 1), (2, 3), (3, 2), (1, 6), (6, 1)]:
        allc = [(g, pv) for g in L.all_grids(h, w, [0, 1]) for pv in pivots(h, w)]
        for (g, pv) in L.sample(rng, allc, 400 if th else 40):
            yield {"h": h, "w": w, "grid": g, "pivot": pv}
    wide = [0, 1, 2, -1]
    for (h, w) in [(1, 1), (1, 2), (2, 1)]:
        for g in L.all_grids(h, w, wide):
            for pv in pivots(h, w):
                yield {"h": h, "w": w, "grid": g, "pivot": pv}
    for g in L.sample(rng, L.all_grids(2, 2, wide), 200 if th else 40):
        yield {"h": 2, "w": 2, "grid": g, "pivot": rng.choice(pivots(2, 2))}
    far = [0, 0, 0, 1, 1, 2, -1, 7, -5]
    for (h, w) in [(3, 3), (2, 4), (4, 2), (2, 5), (5, 2), (3, 4), (4, 3), (4, 4), (3, 6), (6, 3), (5, 5), (4, 6),
                   (6, 5), (7, 7), (1, 7), (7, 1), (1, 9), (8, 1), (2, 7), (7, 2)]:
        rim = [[0, 0], [0, w - 1], [h - 1, 0], [h - 1, w - 1], [rng.randrange(h), rng.randrange(w)]]
        for p in [0.9, 0.6] * (3 if th else 1):
            yield {"h": h, "w": w, "grid": L.random_grid(rng, h, w, [0, 1], p), "pivot": rng.choice(rim)}
        yield {"h": h, "w": w, "grid": [[rng.choice(far) for _ in range(w)] for _ in range(h)],
               "pivot": [rng.randrange(h), rng.randrange(w)]}
    # boards without cells
    for (h, w) in [(0, 0), (0, 1), (1, 0), (0, 3), (3, 0), (0, 6), (5, 0), (-1, 0), (0, -1), (-1, 2), (2, -1), (-3, 1),
                   (1, -2), (-2, 0), (0, -4), (-1, -1), (-1, -4), (-2, -2), (-3, -1)]:
        for pv in [[0, 0], [-1, -1], [1, 2]]:
            yield {"h": h, "w": w, "grid": [[] for _ in range(max(h, 0))], "pivot": pv}
    # the pivot outside the board
    for (h, w) in [(1, 1), (1, 3), (2, 2), (3, 2), (4, 5)]:
        g = L.random_grid(rng, h, w, [0, 1], 0.7)
        for pv in [[h, 0], [0, w], [h, w], [h + 2, 0], [0, w + 3], [-1, 0], [0, -1], [-1, -1], [-h, 0], [0, -w], [-h, -w],
                   [-h - 1, 0], [0, -w - 1], [-h - 1, -w - 1], [h - 1, -1], [-1, w - 1], [-h - 3, w - 1], [h, -1], [-1, w]]:
            yield {"h": h, "w": w, "grid": g, "pivot": pv}
    # trailing cells / rows of `blocked` missing
    for (h, w) in [(1, 1), (1, 3), (2, 2), (3, 2), (4, 4)]:
        g = L.random_grid(rng, h, w, [0, 1], 0.5)
        for pv in [[h - 1, w - 1], [0, 0], [h - 1, 0], [-1, -1]]:
            yield {"h": h, "w": w, "grid": g[:-1] + [g[-1][:-1]], "pivot": pv}
            yield {"h": h, "w": w, "grid": g[:-1], "pivot": pv}
            yield {"h": h, "w": w, "grid": [], "pivot": pv}
