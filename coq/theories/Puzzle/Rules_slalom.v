(* C11 rule specification - Slalom (Suraromu).
   Published rules (Nikoli "Suraromu" / puzz.link "Slalom"):
     1. Draw a single loop that goes through the centres of cells horizontally or
        vertically, starting from and coming back to the circle (the start).  The
        loop never crosses itself or branches off.
     2. The loop cannot go through black cells.
     3. The loop must pass straight through every gate (dotted line) exactly once:
        it crosses the dotted line at a right angle and does not run along it.
     4. A number on (the black cell at the end of) a gate says in which position the
        gate is passed, counting the gates from the start in the direction the loop is
        travelled; the direction of travel is up to the solver.  (The number in the
        circle is the total number of gates; it is not part of this module's problem
        format.)
   Reading choices.  Rule 4 is read as an absolute position ("the gate numbered n is the
   n-th gate passed"), which is Nikoli's wording and what the module's generator writes
   (gate_ord counted along the loop from the origin).  "Passing a gate" is read on cells:
   a gate is a row / column segment of cells; the loop meets exactly one of its cells and
   goes through that cell perpendicular to the gate (rule 3 forbids touching a second cell
   of the gate, which would mean running along the dotted line or crossing it twice).

   problem = [[h; w]; [oy; ox]; black; gates]
     (oy, ox)  the cell of the circle (the argument `origin`)
     black     h*w cells row-major, non-zero = black cell (the argument `is_black`: the black cells of the
               board, including the black cells at the ends of the gates, as instantiate_problem computes them)
     gates     5 integers per gate: y; x; d; l; n  (the argument `gates`): the gate occupies the l cells
               (y, x), (y, x+1), .. (d = 0, a horizontal dotted line, crossed vertically) or
               (y, x), (y+1, x), .. (d = 1, a vertical dotted line, crossed horizontally);
               n >= 1 is the gate's number, anything else (the module writes -1): no number
   answer  = the segments between the centres of the h x w cells (PuzzleBase.lattice h w): the flattened
             BoolGridFrame `loop` of (h-1) x (w-1) cells that solve_slalom returns.

   slalom_wf is the board format (what instantiate_problem accepts, and a little more): the start and the gates
   lie on the board, gates do not overlap or contain the start, and each end of a gate is the board edge or a
   black cell.  It is a hypothesis of the Tier-1 theorem, not part of the rules. *)
From Coq Require Import ZArith List Bool Arith.
From Cspuz Require Import Graph.GraphModel Puzzle.PuzzleBase.
Import ListNotations.

Definition gate_field (gs : list Z) (k i : nat) : Z := getz gs (5 * k + i).
Definition n_gates (gs : list Z) : nat := Nat.div (length gs) 5.
Definition gate_cells (gs : list Z) (k : nat) : list (nat * nat) :=
  let y := zn (gate_field gs k 0) in let x := zn (gate_field gs k 1) in
  let l := zn (gate_field gs k 3) in
  if (gate_field gs k 2 =? 0)%Z then map (fun i => (y, x + i)) (seq 0 l)
  else map (fun i => (y + i, x)) (seq 0 l).
Definition cell_eqb (c c' : nat * nat) : bool := Nat.eqb (fst c) (fst c') && Nat.eqb (snd c) (snd c').
Definition cell_in (c : nat * nat) (l : list (nat * nat)) : bool := existsb (cell_eqb c) l.

(* the cells met when the line is followed from (y, x), which was entered by a move in direction d, until it is
   back at the start (oy, ox); the start itself is not listed *)
Fixpoint slalom_walk (P Q : nat) (on : nat -> bool) (oy ox : nat) (fuel : nat) (y x d : nat)
  : list (nat * nat) :=
  match fuel with
  | O => []
  | S f =>
      if Nat.eqb y oy && Nat.eqb x ox then []
      else (y, x) ::
           match filter (fun d' => negb (Nat.eqb d' (opposite d)) && seg P Q on y x d') [0; 1; 2; 3] with
           | d' :: _ => let '(y', x') := step_dir y x d' in slalom_walk P Q on oy ox f y' x' d'
           | [] => []
           end
  end.

Definition rules_slalom (pb : problem) (ans : answer) : bool :=
  let h := dim pb 0 in let w := dim pb 1 in
  let oy := zn (getz (sec pb 1) 0) in let ox := zn (getz (sec pb 1) 1) in
  let black := sec pb 2 in let gs := sec pb 3 in
  let G := n_gates gs in
  let on := fun k => isb (getz ans k) in
  let g := lattice h w in
  let sg := seg h w on in
  let visited := fun c : nat * nat => on_line g on (fst c * w + snd c) in
  let in_gate := fun k c => cell_in c (gate_cells gs k) in
  let is_gate_cell := fun c => existsb (fun k => in_gate k c) (seq 0 G) in
  (* leaving the start in direction d0, the numbered gates come at their positions *)
  let ordered := fun d0 =>
     let '(y1, x1) := step_dir oy ox d0 in
     let met := filter is_gate_cell (slalom_walk h w on oy ox (h * w) y1 x1 d0) in
     forallb (fun k => let n := gate_field gs k 4 in
                (n <? 1)%Z || match nth_error met (zn n - 1) with Some c => in_gate k c | None => false end)
             (seq 0 G) in
  Nat.eqb (length ans) (n_lattice_edges h w) && forallb is01 ans &&
  single_loop_b g on &&
  (* rule 1: through the start *)
  Nat.ltb oy h && Nat.ltb ox w && visited (oy, ox) &&
  (* rule 2 *)
  forallb (fun c => (at2 black w (fst c) (snd c) =? 0)%Z || negb (visited c)) (cells h w) &&
  (* rule 3 *)
  forallb (fun k =>
     Nat.eqb (count visited (gate_cells gs k)) 1 &&
     forallb (fun c => negb (visited c) ||
                (if (gate_field gs k 2 =? 0)%Z then sg (fst c) (snd c) 0 && sg (fst c) (snd c) 1
                 else sg (fst c) (snd c) 2 && sg (fst c) (snd c) 3)) (gate_cells gs k)) (seq 0 G) &&
  (* rule 4 *)
  existsb ordered (filter (sg oy ox) [0; 1; 2; 3]).

Definition answers_slalom (pb : problem) : list answer :=
  all_answers (bool_doms (n_lattice_edges (dim pb 0) (dim pb 1))).

(* the board format *)
Definition slalom_wf (pb : problem) : bool :=
  let h := dim pb 0 in let w := dim pb 1 in
  let zh := Z.of_nat h in let zw := Z.of_nat w in
  let oy := getz (sec pb 1) 0 in let ox := getz (sec pb 1) 1 in
  let black := sec pb 2 in let gs := sec pb 3 in
  let G := n_gates gs in
  let blk := fun y x : Z => negb (at2 black w (zn y) (zn x) =? 0)%Z in
  ((0 <=? oy) && (oy <? zh) && (0 <=? ox) && (ox <? zw))%Z &&
  Nat.eqb (length gs) (5 * G) &&
  forallb (fun k =>
     let y := gate_field gs k 0 in let x := gate_field gs k 1 in
     let d := gate_field gs k 2 in let l := gate_field gs k 3 in
     ((0 <=? y) && (0 <=? x) && (0 <=? l) && ((d =? 0) || (d =? 1)))%Z &&
     (if (d =? 0)%Z
      then ((y <? zh) && (x + l <=? zw) && ((x =? 0) || blk y (x - 1)) && ((x + l =? zw) || blk y (x + l)))%Z
      else ((x <? zw) && (y + l <=? zh) && ((y =? 0) || blk (y - 1) x) && ((y + l =? zh) || blk (y + l) x))%Z) &&
     negb (cell_in (zn oy, zn ox) (gate_cells gs k)) &&
     forallb (fun k' => Nat.eqb k' k ||
                forallb (fun c => negb (cell_in c (gate_cells gs k'))) (gate_cells gs k)) (seq 0 G))
    (seq 0 G).
