(* C06 (stretch goal, proved): single_cycle / single_path of Graph/Cycle.v
   restated with explicit vertex/edge lists (definitions in CycleList.v).
   Part 2: the greedy trail extension, the covering argument, and the two
   equivalences.  Stdlib only. *)
From Coq Require Import List Bool Arith Lia.
From Cspuz Require Import Graph.GraphModel Graph.ReachProofs Graph.Cycle Graph.CycleList.
Import ListNotations.
Local Open Scope nat_scope.

Ltac deqb :=
  repeat match goal with
         | |- context [Nat.eqb ?a ?b] => destruct (Nat.eqb_spec a b)
         | H : context [Nat.eqb ?a ?b] |- _ => destruct (Nat.eqb_spec a b)
         end.

(* ------------------------------------------------------------------------ *)
(* covering: a set of vertices whose degrees are used up by the listed edges,
   closed under the listed edges, contains every active edge of an
   edge-connected pattern                                                     *)

Lemma cover g A es S s :
  wf_graph g = true -> NoDup es -> active_ids g A es ->
  (forall w, In w S -> degree g A w <= nsum (fun k => mult g k w) es) ->
  (forall e, In e es -> exists p v, joins g e p v /\ In p S /\ In v S) ->
  In s S -> s < nv g -> 0 < degree g A s -> edge_connected g A ->
  forall k, k < length (edges g) -> A k = true -> In k es.
Proof.
  intros Hwf Hnd Hact Hsat Hends HsS Hs Hds Hconn.
  assert (Hclosed : forall w k x, In w S -> A k = true -> joins g k w x -> In k es /\ In x S).
  { intros w k x Hw HA Hj.
    assert (Hin : In k es).
    { destruct (in_dec Nat.eq_dec k es) as [H|H]; [exact H|exfalso].
      assert (Hnd' : NoDup (k :: es)) by (constructor; assumption).
      assert (Hact' : active_ids g A (k :: es)).
      { intros e [<-|He]; [split; [apply (joins_lt g k w x Hj)|exact HA]|apply Hact; exact He]. }
      pose proof (deg_ge g A (k :: es) w Hnd' Hact') as H1. rewrite nsum_cons in H1.
      pose proof (Hsat w Hw) as H2. rewrite (joins_mult g k w x w Hj) in H1.
      rewrite Nat.eqb_refl in H1. simpl in H1. lia. }
    split; [exact Hin|].
    destruct (Hends k Hin) as [p [v [Hj' [Hp Hv]]]].
    destruct Hj as [Hj|Hj], Hj' as [Hj'|Hj']; rewrite Hj in Hj'; inversion Hj'; subst; assumption. }
  assert (Hreach : forall x, reach g all_vertices_ok A s x -> In x S).
  { intros x H. induction H as [v _|u v w Huv IH Hw _]; [exact HsS|].
    specialize (IH HsS Hs Hds). apply nbrs_spec in Hw. destruct Hw as [k [HA Hj]].
    apply (Hclosed v k w IH HA Hj). }
  intros k Hk HA.
  destruct (nth_error (edges g) k) as [[a b]|] eqn:E; [|apply nth_error_None in E; lia].
  assert (Hj : joins g k a b) by (left; exact E).
  destruct (joins_wf g k a b Hwf Hj) as [Ha _].
  assert (Hda : 0 < degree g A a).
  { assert (Hact' : active_ids g A [k]) by (intros e [<-|[]]; split; assumption).
    pose proof (deg_ge g A [k] a (NoDup_cons k (@in_nil _ k) (NoDup_nil _)) Hact') as H1.
    rewrite nsum_cons, (joins_mult g k a b a Hj), Nat.eqb_refl in H1. simpl in H1. lia. }
  apply (Hclosed a k b); [|exact HA|exact Hj].
  apply Hreach. apply Hconn; assumption.
Qed.

(* ------------------------------------------------------------------------ *)
(* trails                                                                     *)

Definition trail (g : graph) (A : nat -> bool) (x : nat) (l : list (nat * nat)) (t : nat) : Prop :=
  l <> [] /\ chain g x l t /\ NoDup (x :: map snd l) /\ NoDup (map fst l) /\
  (forall e, In e (map fst l) -> A e = true).

Lemma trail_active g A x l t : trail g A x l t -> active_ids g A (map fst l).
Proof.
  intros [_ [Hc [_ [_ HA]]]] e He. split; [|apply HA; exact He].
  destruct (chain_endpoints g l x t e Hc He) as [p [v [Hj _]]]. apply (joins_lt g e p v Hj).
Qed.

(* the number of trail-edge ends at w: 1 at both ends, 2 inside, 0 outside *)
Lemma trail_touch g A x l t w :
  trail g A x l t ->
  touch x l w = (if Nat.eq_dec w x then 1 else if Nat.eq_dec w t then 1
                 else if in_dec Nat.eq_dec w (map snd l) then 2 else 0).
Proof.
  intros [Hne [Hc [Hnd _]]]. pose proof (touch_eq g w l x t Hc) as H.
  pose proof (chain_last_in g l x t Hc Hne) as Ht.
  inversion Hnd as [|? ? Hx Hnd']; subst.
  destruct (Nat.eq_dec w x) as [->|Hwx].
  - rewrite (count_occ_notin _ _ Hx) in H. rewrite Nat.eqb_refl in H.
    destruct (Nat.eqb_spec t x) as [->|_]; [contradiction|]. simpl in H. lia.
  - destruct (Nat.eq_dec w t) as [->|Hwt].
    + rewrite (count_occ_NoDup_in _ _ Hnd' Ht), Nat.eqb_refl in H.
      destruct (Nat.eqb_spec x t); [congruence|]. simpl in H. lia.
    + destruct (Nat.eqb_spec t w); [congruence|]. destruct (Nat.eqb_spec x w); [congruence|].
      destruct (in_dec Nat.eq_dec w (map snd l)) as [Hin|Hin].
      * rewrite (count_occ_NoDup_in _ _ Hnd' Hin) in H. simpl in H. lia.
      * rewrite (count_occ_notin _ _ Hin) in H. simpl in H. lia.
Qed.

Lemma trail_nsum g A x l t w :
  trail g A x l t ->
  nsum (fun k => mult g k w) (map fst l) =
  (if Nat.eq_dec w x then 1 else if Nat.eq_dec w t then 1
   else if in_dec Nat.eq_dec w (map snd l) then 2 else 0).
Proof.
  intros H. rewrite <- (trail_touch g A x l t w H). destruct H as [_ [Hc _]].
  apply (chain_touch g w l x t Hc).
Qed.

(* greedy extension at the front: it ends at a vertex of degree 1, or at a
   vertex joined to the far end by an unused active edge *)
Lemma grow g A :
  wf_graph g = true -> (forall v, v < nv g -> degree g A v <= 2) ->
  forall fuel x l t, trail g A x l t -> nv g <= fuel + length l ->
  exists x' l', trail g A x' l' t /\
    (degree g A x' = 1 \/
     exists e', ~ In e' (map fst l') /\ A e' = true /\ joins g e' x' t).
Proof.
  intros Hwf Hdeg. induction fuel as [|f IH]; intros x l t Ht Hfuel.
  - exfalso. destruct Ht as [Hne [Hc [Hnd _]]].
    pose proof (NoDup_bounded_length (x :: map snd l) (nv g) Hnd (chain_lt g Hwf l x t Hc Hne)) as H.
    simpl in H. rewrite map_length in H. simpl in Hfuel. lia.
  - pose proof Ht as [Hne [Hc [Hnd [Hnde HA]]]].
    pose proof (chain_lt g Hwf l x t Hc Hne) as Hlt.
    assert (Hx : x < nv g) by (apply Hlt; left; reflexivity).
    pose proof (trail_active g A x l t Ht) as Hact.
    pose proof (deg_ge g A (map fst l) x Hnde Hact) as Hge.
    pose proof (trail_nsum g A x l t x Ht) as Hsx.
    destruct (Nat.eq_dec x x) as [_|C]; [|contradiction]. rewrite Hsx in Hge.
    destruct (Nat.eq_dec (degree g A x) 1) as [H1|H1].
    { exists x, l. split; [exact Ht|left; exact H1]. }
    assert (Hlt2 : nsum (fun k => mult g k x) (map fst l) < degree g A x) by lia.
    destruct (deg_extra g A (map fst l) x Hlt2) as [e' [He'm [He'A [He'n He'p]]]].
    destruct (mult_pos_joins g e' x He'p) as [w Hj].
    assert (Hnd' : NoDup (e' :: map fst l)) by (constructor; assumption).
    assert (Hact' : active_ids g A (e' :: map fst l)).
    { intros e [<-|He]; [split; assumption|apply Hact; exact He]. }
    (* the number of ends at y of e' and of the trail edges is at most 2 *)
    assert (Hcap : forall y, y < nv g ->
              mult g e' y + nsum (fun k => mult g k y) (map fst l) <= 2).
    { intros y Hy. pose proof (deg_ge g A (e' :: map fst l) y Hnd' Hact') as H.
      rewrite nsum_cons in H. specialize (Hdeg y Hy). lia. }
    destruct (Nat.eq_dec w x) as [->|Hwx].
    { exfalso. specialize (Hcap x Hx). rewrite Hsx, (joins_mult g e' x x x Hj), Nat.eqb_refl in Hcap.
      simpl in Hcap. lia. }
    destruct (in_dec Nat.eq_dec w (map snd l)) as [Hin|Hin].
    + destruct (Nat.eq_dec w t) as [->|Hwt].
      * exists x, l. split; [exact Ht|right]. exists e'. auto.
      * exfalso. assert (Hw : w < nv g) by (apply Hlt; right; exact Hin).
        specialize (Hcap w Hw). rewrite (trail_nsum g A x l t w Ht) in Hcap.
        destruct (Nat.eq_dec w x); [contradiction|]. destruct (Nat.eq_dec w t); [contradiction|].
        destruct (in_dec Nat.eq_dec w (map snd l)); [|contradiction].
        rewrite (joins_mult g e' x w w Hj), Nat.eqb_refl in Hcap.
        destruct (Nat.eqb x w); simpl in Hcap; lia.
    + assert (Ht' : trail g A w ((e', x) :: l) t).
      { split; [discriminate|]. split; [split; [apply joins_sym; exact Hj|exact Hc]|].
        split.
        - simpl. constructor; [|exact Hnd]. intros [H|H]; [congruence|contradiction].
        - split; [exact Hnd'|]. intros e [<-|He]; [exact He'A|apply HA; exact He]. }
      apply (IH w ((e', x) :: l) t Ht'). simpl. lia.
Qed.

(* the trail with both ends saturated covers all active edges *)
Lemma covers_intro g A es :
  (forall e, In e es -> A e = true) ->
  (forall k, k < length (edges g) -> A k = true -> In k es) -> covers g A es.
Proof. intros H1 H2 e He. split; [apply H2; exact He|apply H1]. Qed.

(* ------------------------------------------------------------------------ *)
(* cycles                                                                     *)

Section Cycle.
  Variable g : graph.
  Variable A : nat -> bool.
  Hypothesis Hwf : wf_graph g = true.

  Lemma cycle_list_sound : cycle_list g A ->
    (forall v, v < nv g -> degree g A v = 0 \/ degree g A v = 2) /\ edge_connected g A.
  Proof.
    intros [v0 [l [Hne [Hc [Hndv [Hnde Hcov]]]]]].
    assert (Hlt : forall e, In e (map fst l) -> e < length (edges g)).
    { intros e He. destruct (chain_endpoints g l v0 v0 e Hc He) as [p [v [Hj _]]].
      apply (joins_lt g e p v Hj). }
    assert (Hdeg : forall w, degree g A w = 2 * count_occ Nat.eq_dec (map snd l) w).
    { intros w. rewrite (deg_eq g A (map fst l) w Hnde Hlt Hcov), (chain_touch g w l v0 v0 Hc).
      pose proof (touch_eq g w l v0 v0 Hc). lia. }
    assert (HA : forall e, In e (map fst l) -> A e = true).
    { intros e He. apply Hcov; [apply Hlt; exact He|exact He]. }
    split.
    - intros v _. rewrite Hdeg.
      pose proof (proj1 (NoDup_count_occ Nat.eq_dec (map snd l)) Hndv v). lia.
    - intros u v _ _ Hu Hv.
      assert (Hin : forall w, 0 < degree g A w -> reach g all_vertices_ok A v0 w).
      { intros w Hw. rewrite Hdeg in Hw. apply (chain_reach g A l v0 v0 Hc HA).
        apply (count_occ_In Nat.eq_dec). lia. }
      apply reach_trans with v0; [apply reach_sym; apply Hin; exact Hu|apply Hin; exact Hv].
  Qed.

  Lemma cycle_list_complete :
    (exists k, k < length (edges g) /\ A k = true) ->
    (forall v, v < nv g -> degree g A v = 0 \/ degree g A v = 2) -> edge_connected g A ->
    cycle_list g A.
  Proof.
    intros [k0 [Hk0 HA0]] Hdeg Hconn.
    assert (Hdeg2 : forall v, v < nv g -> degree g A v <= 2).
    { intros v Hv. destruct (Hdeg v Hv); lia. }
    destruct (nth_error (edges g) k0) as [[a b]|] eqn:E; [|apply nth_error_None in E; lia].
    assert (Hj : joins g k0 a b) by (left; exact E).
    destruct (joins_wf g k0 a b Hwf Hj) as [Ha Hb].
    destruct (Nat.eq_dec a b) as [<-|Hab].
    - (* a self-loop *)
      exists a, [(k0, a)]. split; [discriminate|]. split; [split; [exact Hj|reflexivity]|].
      simpl. split; [constructor; [intros []|constructor]|].
      split; [constructor; [intros []|constructor]|].
      assert (Hact : active_ids g A [k0]) by (intros e [<-|[]]; split; assumption).
      assert (Hnd : NoDup [k0]) by (constructor; [intros []|constructor]).
      assert (Hs : nsum (fun k => mult g k a) [k0] = 2).
      { rewrite nsum_cons, (joins_mult g k0 a a a Hj), Nat.eqb_refl. reflexivity. }
      pose proof (deg_ge g A [k0] a Hnd Hact) as Hge. rewrite Hs in Hge.
      apply covers_intro; [intros e [<-|[]]; exact HA0|].
      apply (cover g A [k0] [a] a Hwf Hnd Hact); try assumption.
      + intros w [<-|[]]. rewrite Hs. apply Hdeg2. exact Ha.
      + intros e [<-|[]]. exists a, a. split; [exact Hj|split; left; reflexivity].
      + left; reflexivity.
      + lia.
    - assert (Ht0 : trail g A a [(k0, b)] b).
      { split; [discriminate|]. split; [split; [exact Hj|reflexivity]|]. simpl.
        split; [constructor; [intros [H|[]]; congruence|constructor; [intros []|constructor]]|].
        split; [constructor; [intros []|constructor]|]. intros e [<-|[]]. exact HA0. }
      destruct (grow g A Hwf Hdeg2 (nv g) a [(k0, b)] b Ht0 (Nat.le_add_r _ _))
        as [x [l [Ht [H1|[e' [He'n [He'A He'j]]]]]]].
      + exfalso. pose proof Ht as [Hne [Hc _]].
        assert (Hx : x < nv g) by (apply (chain_lt g Hwf l x b Hc Hne); left; reflexivity).
        destruct (Hdeg x Hx); lia.
      + pose proof Ht as [Hne [Hc [Hnd [Hnde HA]]]].
        pose proof (chain_last_in g l x b Hc Hne) as Hbl.
        set (L := (e', x) :: l).
        assert (HcL : chain g b L b) by (split; [apply joins_sym; exact He'j|exact Hc]).
        assert (HndeL : NoDup (map fst L)) by (simpl; constructor; assumption).
        assert (HAL : forall e, In e (map fst L) -> A e = true).
        { intros e [<-|He]; [exact He'A|apply HA; exact He]. }
        assert (HactL : active_ids g A (map fst L)).
        { intros e He. split; [|apply HAL; exact He].
          destruct (chain_endpoints g L b b e HcL He) as [p [v [Hj' _]]]. apply (joins_lt g e p v Hj'). }
        exists b, L. split; [discriminate|]. split; [exact HcL|]. split; [exact Hnd|].
        split; [exact HndeL|].
        assert (Hsum : forall w, In w (map snd L) -> nsum (fun k => mult g k w) (map fst L) = 2).
        { intros w Hw. rewrite (chain_touch g w L b b HcL).
          pose proof (touch_eq g w L b b HcL) as H.
          rewrite (count_occ_NoDup_in (map snd L) w Hnd Hw) in H. lia. }
        assert (HbL : In b (map snd L)) by (right; exact Hbl).
        apply covers_intro; [exact HAL|].
        apply (cover g A (map fst L) (map snd L) b Hwf HndeL HactL); try assumption.
        * intros w Hw. rewrite (Hsum w Hw). apply Hdeg2.
          apply (chain_lt g Hwf L b b HcL); [discriminate|right; exact Hw].
        * intros e He. destruct (chain_endpoints g L b b e HcL He) as [p [v [Hj' [Hp Hv]]]].
          exists p, v. split; [exact Hj'|]. split; [|exact Hv].
          destruct Hp as [<-|Hp]; [exact HbL|exact Hp].
        * pose proof (deg_ge g A (map fst L) b HndeL HactL) as H. rewrite (Hsum b HbL) in H. lia.
  Qed.

  (* every vertex has active degree 0 or 2 and the active edges are connected
     exactly when the active edges can be arranged in a cyclic list *)
  Theorem cycle_list_iff :
    (exists k, k < length (edges g) /\ A k = true) ->
    (((forall v, v < nv g -> degree g A v = 0 \/ degree g A v = 2) /\ edge_connected g A)
     <-> cycle_list g A).
  Proof.
    intros Hne. split; [intros [H1 H2]; apply cycle_list_complete; assumption|apply cycle_list_sound].
  Qed.

  Lemma no_active_dec : no_active g A \/ exists k, k < length (edges g) /\ A k = true.
  Proof.
    unfold no_active. induction (length (edges g)) as [|m IH]; [left; intros k Hk; lia|].
    destruct IH as [IH|[k [Hk HA]]]; [|right; exists k; split; [lia|exact HA]].
    destruct (A m) eqn:E; [right; exists m; split; [lia|exact E]|left].
    intros k Hk. destruct (Nat.eq_dec k m) as [->|Hne]; [exact E|apply IH; lia].
  Qed.

  Theorem single_cycle_list : single_cycle g A <-> (no_active g A \/ cycle_list g A).
  Proof.
    unfold single_cycle. split.
    - intros [H|[H1 H2]]; [left; exact H|].
      destruct no_active_dec as [H|H]; [left; exact H|right].
      apply cycle_list_complete; assumption.
    - intros [H|H]; [left; exact H|right; apply cycle_list_sound; exact H].
  Qed.
End Cycle.

(* ------------------------------------------------------------------------ *)
(* paths                                                                      *)

Section Path.
  Variable g : graph.
  Variable A : nat -> bool.
  Hypothesis Hwf : wf_graph g = true.

  Lemma two_element_filter (p : nat -> bool) n x t :
    x < n -> t < n -> x <> t -> (forall w, w < n -> (p w = true <-> (w = x \/ w = t))) ->
    length (filter p (seq 0 n)) = 2.
  Proof.
    intros Hx Ht Hxt Hp.
    assert (Hnd : NoDup (filter p (seq 0 n))) by (apply NoDup_filter; apply seq_NoDup).
    assert (Hnd2 : NoDup [x; t]).
    { constructor; [intros [H|[]]; congruence|constructor; [intros []|constructor]]. }
    apply Nat.le_antisymm.
    - change 2 with (length [x; t]). apply NoDup_incl_length; [exact Hnd|].
      intros w Hw. apply filter_In in Hw. destruct Hw as [Hw Hpw]. apply in_seq in Hw.
      apply Hp in Hpw; [|lia]. destruct Hpw as [->| ->]; [left|right; left]; reflexivity.
    - change 2 with (length [x; t]). apply NoDup_incl_length; [exact Hnd2|].
      intros w [<-|[<-|[]]]; apply filter_In; (split; [apply in_seq; lia|apply Hp; auto]).
  Qed.

  Lemma path_list_sound : path_list g A -> simple_path g A.
  Proof.
    intros [x [l [t [Hne [Hc [Hnd [Hnde Hcov]]]]]]].
    assert (Hlte : forall e, In e (map fst l) -> e < length (edges g)).
    { intros e He. destruct (chain_endpoints g l x t e Hc He) as [p [v [Hj _]]].
      apply (joins_lt g e p v Hj). }
    assert (HA : forall e, In e (map fst l) -> A e = true).
    { intros e He. apply Hcov; [apply Hlte; exact He|exact He]. }
    assert (Ht : trail g A x l t) by (repeat split; assumption).
    assert (Hdeg : forall w, degree g A w =
              (if Nat.eq_dec w x then 1 else if Nat.eq_dec w t then 1
               else if in_dec Nat.eq_dec w (map snd l) then 2 else 0)).
    { intros w. rewrite (deg_eq g A (map fst l) w Hnde Hlte Hcov). apply (trail_nsum g A x l t w Ht). }
    pose proof (chain_lt g Hwf l x t Hc Hne) as Hlt.
    pose proof (chain_last_in g l x t Hc Hne) as Htl.
    assert (Hxt : x <> t) by (inversion Hnd; subst; intros ->; contradiction).
    split; [|split].
    - intros v _. rewrite Hdeg.
      destruct (Nat.eq_dec v x), (Nat.eq_dec v t), (in_dec Nat.eq_dec v (map snd l)); lia.
    - intros u v _ _ Hu Hv.
      assert (Hin : forall w, 0 < degree g A w -> reach g all_vertices_ok A x w).
      { intros w Hw. rewrite Hdeg in Hw. destruct (Nat.eq_dec w x) as [->|_].
        - apply reach_refl. reflexivity.
        - apply (chain_reach g A l x t Hc HA). destruct (Nat.eq_dec w t) as [->|_]; [exact Htl|].
          destruct (in_dec Nat.eq_dec w (map snd l)); [assumption|lia]. }
      apply reach_trans with x; [apply reach_sym; apply Hin; exact Hu|apply Hin; exact Hv].
    - unfold num_deg1. apply (two_element_filter _ (nv g) x t).
      + apply Hlt. left; reflexivity.
      + apply Hlt. right; exact Htl.
      + exact Hxt.
      + intros w _. rewrite Nat.eqb_eq, Hdeg.
        destruct (Nat.eq_dec w x), (Nat.eq_dec w t), (in_dec Nat.eq_dec w (map snd l)); split;
          try tauto; try lia; intros [H|H]; congruence.
  Qed.

  Lemma path_list_complete : simple_path g A -> path_list g A.
  Proof.
    intros [Hdeg2 [Hconn Hn1]].
    (* a vertex of degree 1 *)
    assert (Hu : exists u, u < nv g /\ degree g A u = 1).
    { unfold num_deg1 in Hn1.
      destruct (filter (fun v => Nat.eqb (degree g A v) 1) (seq 0 (nv g))) as [|u r] eqn:E; [discriminate|].
      assert (H : In u (filter (fun v => Nat.eqb (degree g A v) 1) (seq 0 (nv g)))) by (rewrite E; left; reflexivity).
      apply filter_In in H. destruct H as [H1 H2]. apply in_seq in H1. apply Nat.eqb_eq in H2.
      exists u. split; [lia|exact H2]. }
    destruct Hu as [u [Hun Hu1]].
    assert (H0 : nsum (fun k => mult g k u) [] < degree g A u) by (rewrite Hu1; unfold nsum; simpl; lia).
    destruct (deg_extra g A [] u H0) as [k0 [Hk0 [HA0 [_ Hm0]]]].
    destruct (mult_pos_joins g k0 u Hm0) as [v Hj].
    assert (Hact0 : active_ids g A [k0]) by (intros e [<-|[]]; split; assumption).
    assert (Hnd0 : NoDup [k0]) by (constructor; [intros []|constructor]).
    assert (Hvu : v <> u).
    { intros ->. pose proof (deg_ge g A [k0] u Hnd0 Hact0) as H.
      rewrite nsum_cons, (joins_mult g k0 u u u Hj), Nat.eqb_refl in H. simpl in H. lia. }
    assert (Ht0 : trail g A v [(k0, u)] u).
    { split; [discriminate|]. split; [split; [apply joins_sym; exact Hj|reflexivity]|]. simpl.
      split; [constructor; [intros [H|[]]; congruence|constructor; [intros []|constructor]]|].
      split; [exact Hnd0|]. intros e [<-|[]]. exact HA0. }
    destruct (grow g A Hwf Hdeg2 (nv g) v [(k0, u)] u Ht0 (Nat.le_add_r _ _))
      as [x [l [Ht [H1|[e' [He'n [He'A He'j]]]]]]].
    - pose proof Ht as [Hne [Hc [Hnd [Hnde HA]]]].
      pose proof (chain_last_in g l x u Hc Hne) as Hul.
      pose proof (trail_active g A x l u Ht) as Hact.
      exists x, l, u. split; [exact Hne|]. split; [exact Hc|]. split; [exact Hnd|]. split; [exact Hnde|].
      apply covers_intro; [exact HA|].
      apply (cover g A (map fst l) (x :: map snd l) u Hwf Hnde Hact); try assumption.
      + intros w Hw. rewrite (trail_nsum g A x l u w Ht).
        destruct (Nat.eq_dec w x) as [->|Hwx]; [lia|].
        destruct (Nat.eq_dec w u) as [->|Hwu]; [lia|].
        destruct Hw as [Hw|Hw]; [congruence|].
        destruct (in_dec Nat.eq_dec w (map snd l)); [|contradiction].
        apply Hdeg2. apply (chain_lt g Hwf l x u Hc Hne). right; exact Hw.
      + intros e He. destruct (chain_endpoints g l x u e Hc He) as [p [w [Hj' [Hp Hw]]]].
        exists p, w. split; [exact Hj'|]. split; [exact Hp|right; exact Hw].
      + right; exact Hul.
    - exfalso. pose proof Ht as [Hne [Hc [Hnd [Hnde HA]]]].
      assert (Hnd' : NoDup (e' :: map fst l)) by (constructor; assumption).
      assert (Hact' : active_ids g A (e' :: map fst l)).
      { intros e [<-|He]; [split; [apply (joins_lt g e' x u He'j)|exact He'A]|].
        apply (trail_active g A x l u Ht); exact He. }
      pose proof (deg_ge g A (e' :: map fst l) u Hnd' Hact') as H.
      rewrite nsum_cons, (trail_nsum g A x l u u Ht), (joins_mult g e' x u u He'j), Nat.eqb_refl in H.
      destruct (Nat.eq_dec u x); [|destruct (Nat.eq_dec u u); [|contradiction]];
        destruct (Nat.eqb x u); simpl in H; lia.
  Qed.

  (* degrees at most 2, edge-connected and exactly two vertices of degree 1,
     exactly when the active edges can be arranged in an open list *)
  Theorem path_list_iff : simple_path g A <-> path_list g A.
  Proof. split; [apply path_list_complete|apply path_list_sound]. Qed.

  Theorem single_path_list : single_path g A <-> (no_active g A \/ path_list g A).
  Proof. unfold single_path. rewrite path_list_iff. reflexivity. Qed.
End Path.
