(* C11 Tier 1 - model of cspuz/puzzle/nurimaze.py::solve_nurimaze(height, width, wall_vertical, wall_horizontal,
   mark, start, goal), all board shapes:
       is_white = solver.bool_array((height, width))
       graph.active_vertices_connected(solver, is_white, acyclic=True)
       solver.add_answer_key(is_white)
       ensure(is_white[:-1, :-1] | is_white[:-1, 1:] | is_white[1:, :-1] | is_white[1:, 1:])
       ensure(~(is_white[:-1, :-1] & is_white[:-1, 1:] & is_white[1:, :-1] & is_white[1:, 1:]))
       path = solver.bool_array((height, width))
       ensure(path.then(is_white))
       for every cell (y, x), row-major:
           no bold line to the right:  ensure(is_white[y, x] == is_white[y, x + 1])
           no bold line below:         ensure(is_white[y, x] == is_white[y + 1, x])
           (y, x) is start or goal:    ensure(path[y, x]); ensure(count_true(path.four_neighbors(y, x)) == 1)
           otherwise:                  ensure(path[y, x].then(count_true(path.four_neighbors(y, x)) == 2))
           mark[y][x] != 0: ensure(is_white[y, x]);  == 1: ensure(path[y, x]);  == 2: ensure(~path[y, x])
   The call into cspuz.graph is the model of property C04 (Graph/Avc.v::post_avc on the grid graph, acyclic = true:
   h*w ranks and h*w root flags, ids h*w .. 3*h*w-1); on a board without cells it raises ValueError.  The answer
   keys are set after that call: the key flags of the final state are the same as when they are set before it.
   The path variables have the ids 3*h*w .. 4*h*w-1.
   The problem uses the encoding of Rules_nurimaze.v ([[h; w]; wall_vertical; wall_horizontal; mark; [sy; sx; gy; gx]],
   the three arrays flattened row-major).  A flat array that is too short for the board stands for a nested list with
   missing entries, on which the Python raises IndexError (the plug-in's malformed problems drop whole rows);
   start / goal are compared as the Python compares the tuples: a coordinate off the board matches no cell.
   No proofs here. *)
From Coq Require Import ZArith List Bool Arith.
From Cspuz Require Import Lib.PyErr Core.Expr Core.Program Graph.GraphModel Graph.Avc
     Puzzle.PuzzleBase Puzzle.ModelBase.
Import ListNotations.
Local Open Scope nat_scope.

Definition nm_white (w : nat) (c : nat * nat) : expr := BVar (cidx w c).
(* path[y, x]: the second grid, declared when [base] variables exist *)
Definition nm_path (base w : nat) (c : nat * nat) : expr := BVar (base + cidx w c).

Definition nm_block_or (w y x : nat) : expr :=
  BNode OR [BNode OR [BNode OR [nm_white w (y, x); nm_white w (y, S x)]; nm_white w (S y, x)]; nm_white w (S y, S x)].
Definition nm_block_nand (w y x : nat) : expr :=
  BNode NOT [BNode AND [BNode AND [BNode AND [nm_white w (y, x); nm_white w (y, S x)]; nm_white w (S y, x)];
                        nm_white w (S y, S x)]].

(* (y, x) == start *)
Definition nm_is (y x : nat) (py px : Z) : bool := ((Z.of_nat y =? py) && (Z.of_nat x =? px))%Z.

Definition nm_cell (base h w : nat) (wv wh mark : list Z) (sy sx gy gx : Z) (c : nat * nat) : list expr :=
  let '(y, x) := c in
  let nb := ct_vars (map (fun d => base + cidx w d) (nbr4 h w y x)) in
  let m := at2 mark w y x in
  (if Nat.ltb (S x) w && (at2 wv (w - 1) y x =? 0)%Z then [BNode IFF [nm_white w c; nm_white w (y, S x)]] else []) ++
  (if Nat.ltb (S y) h && (at2 wh w y x =? 0)%Z then [BNode IFF [nm_white w c; nm_white w (S y, x)]] else []) ++
  (if nm_is y x sy sx || nm_is y x gy gx
   then [nm_path base w c; BNode EQ [nb; PyInt 1]]
   else [BNode IMP [nm_path base w c; BNode EQ [nb; PyInt 2]]]) ++
  (if (m =? 0)%Z then [] else [nm_white w c]) ++
  (if (m =? 1)%Z then [nm_path base w c] else if (m =? 2)%Z then [BNode NOT [nm_path base w c]] else []).

Definition nurimaze_constraints (base h w : nat) (wv wh mark : list Z) (sy sx gy gx : Z) : list expr :=
  map (fun '(y, x) => nm_block_or w y x) (cells (h - 1) (w - 1)) ++
  map (fun '(y, x) => nm_block_nand w y x) (cells (h - 1) (w - 1)) ++
  map (fun c => BNode IMP [nm_path base w c; nm_white w c]) (cells h w) ++
  flat_map (nm_cell base h w wv wh mark sy sx gy gx) (cells h w).

Definition solve_nurimaze_model (pb : problem) : res state :=
  let h := dim pb 0 in let w := dim pb 1 in
  let wv := sec pb 1 in let wh := sec pb 2 in let mark := sec pb 3 in
  let sy := getz (sec pb 4) 0 in let sx := getz (sec pb 4) 1 in
  let gy := getz (sec pb 4) 2 in let gx := getz (sec pb 4) 3 in
  match post_avc (bool_grid_state (h * w) []) (map BVar (seq 0 (h * w))) (grid_graph h w) true false with
  | Ok st1 =>
      if Nat.ltb (length wv) (h * (w - 1)) || Nat.ltb (length wh) ((h - 1) * w) || Nat.ltb (length mark) (h * w)
      then Err IndexError
      else Ok {| vars := vars st1 ++ repeat DBool (h * w);
                 keys := keys st1 ++ repeat false (h * w);
                 cons := Program.cons st1 ++ nurimaze_constraints (next_id st1) h w wv wh mark sy sx gy gx |}
  | Err e => Err e
  end.
