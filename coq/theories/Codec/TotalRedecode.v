(* C17: a decoded grid problem lies in the domain of C15's round-trip theorem; hence, whenever
   it serializes, its canonical text decodes to it again. *)
From Coq Require Import ZArith List Ascii Bool NArith Lia.
From Cspuz Require Import Lib.PyErr Codec.Comb Codec.CombWf Codec.CombBasics Codec.CombLeaf Codec.CombRoundTrip
  Codec.TotalModel Codec.TotalLeaf Codec.Total.
Import ListNotations.
Local Open Scope Z_scope.

(* the cell combinators of the grid puzzles: a leaf, or alternatives that are leaves *)
Definition leaf (c : comb) : bool :=
  match c with
  | FixStr _ | Dict _ _ | Spaces _ _ | DecInt | HexInt | IntSpaces _ _ _ | MultiDigit _ _ => true
  | _ => false
  end.
Definition flat (c : comb) : bool :=
  match c with
  | OneOf l => forallb leaf l
  | _ => leaf c
  end.

Lemma leaf_accepts e c data idx : leaf c = true -> accepts e c data idx.
Proof. destruct c; simpl; intros H; try discriminate; exact I. Qed.

Lemma leaf_rooms_free c : leaf c = true -> rooms_free c = true.
Proof. destruct c; simpl; intros H; try discriminate; reflexivity. Qed.

Lemma flat_accepts e c data idx : flat c = true -> accepts e c data idx.
Proof.
  destruct c; simpl; intros H; try discriminate; try exact I.
  induction choices as [|c1 l IH]; [exact I|].
  simpl in H. apply andb_true_iff in H as [H1 H2].
  destruct (ser e c1 (VList data) idx) as [[r|]|].
  - apply leaf_accepts; exact H1.
  - apply IH; exact H2.
  - apply leaf_accepts; exact H1.
Qed.

Lemma flat_rooms_free c : flat c = true -> rooms_free c = true.
Proof.
  destruct c; simpl; intros H; try discriminate; try reflexivity.
  induction choices as [|c1 l IH]; [reflexivity|].
  simpl in H. apply andb_true_iff in H as [H1 H2]. simpl. rewrite (leaf_rooms_free c1 H1). auto.
Qed.

Lemma grid_shape_accepts h w c1 p : 0 <= h -> 0 <= w -> flat c1 = true -> grid_shape h w p ->
  accepts (mk_env h w) (Grid c1 None) [p] 0.
Proof.
  intros Hh Hw Hf (rows & -> & Hl & Hr). simpl. exists rows. repeat split; auto.
  intros q. apply flat_accepts. exact Hf.
Qed.

Lemma grid_consumed_all e c1 hw items : consumed_all e (Grid c1 hw) items -> True.
Proof. auto. Qed.

Lemma seq_ser_one serc n data idx k s : seq_ser serc n data idx = Ok (Some (k, s)) -> k = 1%nat.
Proof.
  unfold seq_ser. destruct (py_items data) as [l|]; [|discriminate].
  destruct (Nat.eqb idx (length l)); [discriminate|].
  destruct (nth_res l idx) as [[]|]; try discriminate.
  destruct (seq_ser_loop serc n (VList l0) (Z.to_nat n) 0 []) as [[r|]|]; try discriminate.
  intros H; inversion H; reflexivity.
Qed.

Lemma grid_ser_one e c1 hw data idx k s : ser e (Grid c1 hw) data idx = Ok (Some (k, s)) -> k = 1%nat.
Proof.
  simpl. unfold grid_ser. destruct (py_items data) as [l|]; [|discriminate].
  destruct (Nat.eqb idx (length l)); [discriminate|].
  destruct (nth_res l idx) as [[]|]; try discriminate.
  destruct (grid_dims e hw) as [h w].
  destruct (grid_flatten l0 (Z.to_nat h) 0) as [d|]; [|discriminate].
  apply seq_ser_one.
Qed.

(* Comb.v's deserialize_problem is the [mk_env] instance *)
Theorem grid_redecode_lemma c1 s t h w p : 1 <= h -> 1 <= w -> flat c1 = true -> wf (Grid c1 None) = true ->
  deserialize_problem (Grid c1 None) s h w = Ok (Some p) ->
  serialize_problem (Grid c1 None) p h w = Ok t ->
  deserialize_problem (Grid c1 None) t h w = Ok (Some p).
Proof.
  intros Hh Hw Hf Hwf Hd Hs.
  apply (problem_roundtrip (Grid c1 None) p h w t Hh Hw Hwf); auto.
  - simpl. apply flat_rooms_free; auto.
  - unfold deserialize_problem in Hd.
    destruct (de (mk_env h w) (Grid c1 None) s) as [[[k l]|]|] eqn:E; try discriminate.
    destruct l as [|p0 [|q l]]; try discriminate. inversion Hd; subst p0.
    apply grid_shape_accepts; try lia; auto.
    apply (grid_dims_lemma (mk_env h w) c1 s k p); simpl; try lia. exact E.
  - exact I.
  - intros k s0 Hk. apply grid_ser_one in Hk. exact Hk.
Qed.
