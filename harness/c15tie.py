"""Correspondence of Codec/Comb.v (extracted) with cspuz.problem_serializer."""
import signal

import vlib
import c15gen as G

ERR = {1: "IndexError", 2: "KeyError", 3: "AssertionError", 4: "TypeError", 5: "ValueError",
       6: "RecursionError", 7: "NotImplementedError", 8: "Other"}

ALPHABET = "0123456789abcdefghijklmnopqrstuvwxyz" + "-+._/ ?G" + "\xb2\xa0\n"


def parse_term(toks, i=0):
    """inverse of c15gen.term_tok"""
    k = toks[i]
    if k == "F":
        return ("F", G.unhx(toks[i + 1])), i + 2
    if k == "D":
        n = int(toks[i + 1])
        j = i + 2
        before = []
        for _ in range(n):
            v, j = G.parse_pv(toks, j)
            before.append(v)
        after = [G.unhx(t) for t in toks[j:j + n]]
        return ("D", before, after), j + n
    if k == "S":
        v, j = G.parse_pv(toks, i + 1)
        return ("S", v, G.unhx(toks[j])), j + 1
    if k in ("I", "H"):
        return (k,), i + 1
    if k == "P":
        v, j = G.parse_pv(toks, i + 1)
        return ("P", v, int(toks[j]), int(toks[j + 1])), j + 2
    if k == "M":
        return ("M", int(toks[i + 1]), int(toks[i + 2])), i + 3
    if k in ("O", "T"):
        n = int(toks[i + 1])
        j = i + 2
        l = []
        for _ in range(n):
            t, j = parse_term(toks, j)
            l.append(t)
        return (k, l), j
    if k == "Q":
        t, j = parse_term(toks, i + 1)
        return ("Q", t, int(toks[j])), j + 1
    if k == "G":
        t, j = parse_term(toks, i + 1)
        if toks[j] == "-":
            return ("G", t, None), j + 1
        return ("G", t, (int(toks[j]), int(toks[j + 1]))), j + 2
    if k == "R":
        return ("R", toks[i + 1] == "1", toks[i + 2] == "1"), i + 3
    if k == "V":
        t, j = parse_term(toks, i + 1)
        return ("V", t, toks[j] == "1", toks[j + 1] == "1"), j + 2
    raise ValueError("term token " + k)


def parse_model(r, kind):
    t = r.split()
    if not t:
        return ("model-exn", r)
    if t[0] == "E":
        return ("err", ERR[int(t[1])])
    if t[0] == "N":
        return ("ok", None)
    if t[0] == "EXN":
        return ("model-exn", r)
    if kind == "ser":
        return ("ok", (int(t[1]), G.unhx(t[2])))
    if kind == "de":
        v, _ = G.parse_pv(t, 2)
        return ("ok", (int(t[1]), v))
    if kind == "str":
        return ("ok", G.unhx(t[1]))
    if kind == "pv":
        v, _ = G.parse_pv(t, 1)
        return ("ok", v)
    raise RuntimeError("bad model reply " + r)


class _Timeout(Exception):
    pass


def _alarm(signum, frame):
    raise _Timeout()


def timed(f):
    """run f with a 1 s alarm (Python loops that never end on ill-formed terms)"""
    old = signal.signal(signal.SIGALRM, _alarm)
    signal.setitimer(signal.ITIMER_REAL, 1.0)
    try:
        r = f()
        # the alarm may fire inside vlib.guarded, which reports it as an error of the call
        if isinstance(r, tuple) and len(r) == 2 and r[0] == "err" and str(r[1]).endswith("_Timeout"):
            return ("err", "Other")
        return r
    except _Timeout:
        return ("err", "Other")
    finally:
        signal.setitimer(signal.ITIMER_REAL, 0)
        signal.signal(signal.SIGALRM, old)


def norm(r):
    """impl result -> comparable form (tuples of (k, x) only at the top)"""
    if r[0] == "err":
        return r
    if r[1] is None:
        return ("ok", None)
    return ("ok", (r[1][0], r[1][1]))


def strict_eq(a, b):
    """== that distinguishes list/tuple and int/bool/str recursively"""
    if type(a) is not type(b):
        return False
    if isinstance(a, (list, tuple)):
        return len(a) == len(b) and all(strict_eq(x, y) for x, y in zip(a, b))
    return a == b


def latin1(s):
    return all(ord(c) < 256 for c in s) and not long_digit_run(s)


_RUN = None


def long_digit_run(s):
    """CPython refuses int()/str() conversions of more than 4300 decimal digits (sys.int_max_str_digits);
    such digit runs are outside the model (ASSUMPTIONS)"""
    global _RUN
    if len(s) <= 4000:
        return False
    if _RUN is None:
        import re
        _RUN = re.compile(r"[0-9\xb2\xb3\xb9_ ]{4000,}")
    return _RUN.search(s) is not None


def env(h, w):
    from cspuz.problem_serializer import CombinatorEnv
    return CombinatorEnv(h, w)


def value_ok(v):
    try:
        G.pv_tok(v)
        return True
    except TypeError:
        return False


def sort_safe(t, data):
    """ValuedRooms.serialize sorts the rooms: exclude inputs on which CPython's choice of comparisons matters"""
    def walk(v):
        if isinstance(v, tuple) and len(v) == 2 and isinstance(v[0], (list, tuple, str)) and len(v[0]) >= 3:
            for r in v[0]:
                if not (isinstance(r, list) and r and all(isinstance(p, tuple) and len(p) == 2 and
                                                          all(isinstance(q, int) for q in p) for p in r)):
                    return False
        if isinstance(v, (list, tuple)):
            return all(walk(x) for x in v)
        return True
    return (not G.has_rooms(t)) or walk(data)


def _cls(r):
    if r[0] == "err":
        return "err:" + str(r[1])
    return "none" if r[1] is None else "value"


def run(ctx, m):
    import pC15
    _corr = ctx.corr

    def corr(kind, inp, mo, io, **kw):
        ctx.count("outcome:%s:%s" % (kind, _cls(io) if isinstance(io, tuple) else "flag"))
        return _corr(kind, inp, mo, io, **kw)
    ctx.corr = corr
    try:
        _run(ctx, m)
    finally:
        ctx.corr = _corr


def _run(ctx, m):
    import pC15, os, sys, time, resource
    def mark(name):
        if os.environ.get('VERIF_DEBUG'):
            sys.stderr.write('[c15tie %s] t=%.1fs rss=%dMB cases=%d\n' % (name, time.time() - ctx.t0, resource.getrusage(resource.RUSAGE_SELF).ru_maxrss // 1024, ctx.cases))
    rng = ctx.rng
    n_terms = 400 if ctx.thorough else 120
    terms = pC15.gen_terms(ctx, n_terms)
    ctx._c15_terms = terms
    objs = {}

    def obj(t):
        k = G.term_tok(t)
        if k not in objs:
            objs[k] = G.build(t)
        return objs[k]

    # ---- 0. constructor checks and the Python twin of wf/first/cont
    outs = m.batch(["OK " + G.term_tok(t) for t in terms] + ["WF " + G.term_tok(t) for t in terms])
    for i, t in enumerate(terms):
        ctx.corr("ctor-ok", G.term_repr(t), outs[i], "1")
        ctx.corr("wf-twin", G.term_repr(t), outs[len(terms) + i], "1" if G.wf(t) else "0")
    # constructor failures
    bad = [("S", 0, "."), ("S", 0, "\xb2"), ("P", -1, 5, 5), ("P", -1, 35, 1), ("M", 2, 6), ("M", 37, 1),
           ("M", 6, 2), ("P", -1, 0, 35), ("S", 0, "Z"), ("M", 0, 3), ("M", -2, 2), ("P", -1, -1, 40)]
    outs = m.batch(["OK " + G.term_tok(t) for t in bad])
    for t, o in zip(bad, outs):
        io = vlib.guarded(lambda: G.build(t))
        ctx.corr("ctor", G.term_repr(t), o, "1" if io[0] == "ok" else "0")

    mark('1. serialize')
    # ---- 1. serialize: valid values, offsets, lookahead, ill-shaped values
    per = 24 if ctx.thorough else 8
    ser_cases = []
    for (t, h, w, items) in pC15.gen_valid_cases(ctx, terms, per):
        ser_cases.append(("ser", t, h, w, items, 0))
        if rng.random() < 0.5:
            junk = [rng.choice([0, -1, None, "x", (1,), [2]]) for _ in range(rng.randint(1, 2))]
            try:
                more = G.gen_chunk(rng, t, h, w)
            except G.NoValue:
                more = []
            ser_cases.append(("ser", t, h, w, junk + items + more, len(junk)))
        if rng.random() < 0.5 and items:
            ser_cases.append(("ser", t, h, w, items, rng.randint(1, len(items))))
        for _ in range(2):
            bad_items = G.mutate_value(rng, items)
            if value_ok(bad_items) and sort_safe(t, bad_items):
                ser_cases.append(("ser-malformed", t, h, w, bad_items, 1 if (rng.random() < 0.25 and isinstance(bad_items, (list, tuple, str)) and len(bad_items) >= 1) else 0))
    reqs = ["SER %d %d %d %s %s" % (h, w, idx, G.term_tok(t), G.pv_tok(data)) for (_, t, h, w, data, idx) in ser_cases]
    outs = m.batch(reqs)
    texts = []          # (t, h, w, text) produced by successful serializations
    for (kind, t, h, w, data, idx), o in zip(ser_cases, outs):
        mo = parse_model(o, "ser")
        c = obj(t)
        io = timed(lambda: norm(vlib.guarded(lambda: c.serialize(env(h, w), data, idx))))
        if mo == ("err", "Other") and io == ("err", "Other"):
            ctx.count("tie:divergent-skipped")
            continue
        ctx.corr(kind, (G.term_repr(t), h, w, repr(data), idx), mo, io)
        if io[0] == "ok" and io[1] is not None and latin1(io[1][1]):
            texts.append((t, h, w, io[1][1]))

    mark('2. deserializ')
    # ---- 2. deserialize: produced texts, with suffix / prefix, truncated, mutated, every Latin-1 char
    de_cases = []
    for (t, h, w, s) in texts:
        de_cases.append(("de", t, h, w, s, 0))
        suf = "".join(rng.choice(ALPHABET) for _ in range(rng.randint(1, 3)))
        de_cases.append(("de", t, h, w, s + suf, 0))
        pre = "".join(rng.choice(ALPHABET) for _ in range(rng.randint(1, 3)))
        de_cases.append(("de", t, h, w, pre + s + suf, len(pre)))
        if s:
            de_cases.append(("de-malformed", t, h, w, s[:rng.randrange(len(s))], 0))
            i = rng.randrange(len(s))
            de_cases.append(("de-malformed", t, h, w, s[:i] + rng.choice(ALPHABET) + s[i + 1:], 0))
            i = rng.randrange(len(s))
            de_cases.append(("de-malformed", t, h, w, s[:i] + s[i + 1:], 0))
            de_cases.append(("de-malformed", t, h, w, s, len(s)))
    for t in terms:
        h, w = rng.choice(pC15.SIZES)
        for _ in range(6 if ctx.thorough else 3):
            de_cases.append(("de-malformed", t, h, w, "".join(rng.choice(ALPHABET) for _ in range(rng.randint(0, 8))), 0))
        de_cases.append(("de-malformed", t, h, w, "", 0))
    leafy = [t for t in terms if t[0] not in ("R", "V")][:40] + G.CURATED[:8]
    for t in leafy:
        h, w = 2, 2
        for code in range(256):
            de_cases.append(("de-char", t, h, w, chr(code) + rng.choice(["", "0", "1f", "zz"]), 0))
    reqs = ["DE %d %d %d %s %s" % (h, w, idx, G.term_tok(t), G.hx(s)) for (_, t, h, w, s, idx) in de_cases]
    outs = m.batch(reqs)
    for (kind, t, h, w, s, idx), o in zip(de_cases, outs):
        mo = parse_model(o, "de")
        c = obj(t)
        io = timed(lambda: norm(vlib.guarded(lambda: c.deserialize(env(h, w), s, idx))))
        if mo == ("err", "Other") and io == ("err", "Other"):
            ctx.count("tie:divergent-skipped")
            continue
        ok = (mo[0] == io[0]) and (mo[1] == io[1] if mo[0] == "err" or mo[1] is None or io[1] is None
                                   else (mo[1][0] == io[1][0] and strict_eq(mo[1][1], io[1][1])))
        ctx.corr(kind, (G.term_repr(t), h, w, s, idx), mo if not ok else io, io)

    mark('3. serialize_')
    # ---- 3. serialize_problem / deserialize_problem / URL wrappers
    from cspuz.problem_serializer import (serialize_problem, deserialize_problem, serialize_problem_as_url,
                                          deserialize_problem_as_url, get_puzzle_info_from_url)
    cases = []
    for (t, h, w, items) in pC15.gen_valid_cases(ctx, terms, 6 if ctx.thorough else 3):
        if len(items) == 1:
            cases.append((t, h, w, items[0]))
            bad_v = G.mutate_value(rng, items[0])
            if value_ok(bad_v) and sort_safe(t, [bad_v]):
                cases.append((t, h, w, bad_v))
    outs = m.batch(["SP %d %d %s %s" % (h, w, G.term_tok(t), G.pv_tok(v)) for (t, h, w, v) in cases])
    url_texts = []
    for (t, h, w, v), o in zip(cases, outs):
        c = obj(t)
        io = timed(lambda: vlib.guarded(lambda: serialize_problem(c, v, height=h, width=w)))
        mo = parse_model(o, "str")
        if mo == ("err", "Other") and io == ("err", "Other"):
            continue
        ctx.corr("serialize_problem", (G.term_repr(t), h, w, repr(v)), mo, io)
        if io[0] == "ok" and latin1(io[1]):
            url_texts.append((t, h, w, v, io[1]))
    dp = []
    for (t, h, w, v, s) in url_texts:
        dp.append((t, h, w, s))
        dp.append((t, h, w, s + rng.choice(ALPHABET)))
        if s:
            dp.append((t, h, w, s[:-1]))
        dp.append((t, w, h, s))                      # swapped board size
        dp.append((t, rng.choice([0, 1, h + 1]), rng.choice([0, 1, w + 1]), s))
    outs = m.batch(["DP %d %d %s %s" % (h, w, G.term_tok(t), G.hx(s)) for (t, h, w, s) in dp])
    for (t, h, w, s), o in zip(dp, outs):
        c = obj(t)
        io = timed(lambda: vlib.guarded(lambda: deserialize_problem(c, s, height=h, width=w)))
        mo = parse_model(o, "pv")
        if mo == ("err", "Other") and io == ("err", "Other"):
            continue
        ok = mo[0] == io[0] and (strict_eq(mo[1], io[1]) if mo[0] == "ok" else mo[1] == io[1])
        ctx.corr("deserialize_problem", (G.term_repr(t), h, w, s), mo if not ok else io, io)
    # URLs
    names = ["nurikabe", "lits", "x", "a.b?c", "p\n"]
    su, du, info = [], [], []
    for (t, h, w, v, s) in url_texts[: (400 if ctx.thorough else 120)]:
        nm = rng.choice(names)
        pre = rng.choice(["https://puzz.link/p?", "http://pzv.jp/p.html?", "https://puzz.link/p?", "ftp://x/p?", "https:///p?", "http://a/b/p?"])
        su.append((t, h, w, v, nm, pre))
        url = pre + nm + "/%d/%d/" % (w, h) + s
        variants = [url, url + "\nrest", url.replace("/p?", "/p.html?", 1), url.replace("https", "http", 1),
                    url.replace("://", ":/", 1), url[:-1] if s else url + "0", pre + nm + "/%d/x%d/" % (w, h) + s,
                    pre + nm + "/%d/%d" % (w, h), pre + "/%d/%d/" % (w, h) + s, "see " + url,
                    pre + nm + "/0%d/%d_/" % (w, h) + s, url.replace("/p?", "/p.htm?", 1)]
        for u in variants:
            al = rng.choice([("A",), ("O", nm), ("O", "lits"), ("L", [nm, "lits"]), ("L", []), ("L", ["sudoku"])])
            du.append((t, u, al, rng.random() < 0.5, rng.random() < 0.5))
            info.append(u)
    outs = m.batch(["SU %d %d %s %s %s %s" % (h, w, G.term_tok(t), G.hx(nm), G.hx(pre), G.pv_tok(v)) for (t, h, w, v, nm, pre) in su])
    for (t, h, w, v, nm, pre), o in zip(su, outs):
        c = obj(t)
        io = timed(lambda: vlib.guarded(lambda: serialize_problem_as_url(c, nm, h, w, v, prefix=pre)))
        ctx.corr("serialize_problem_as_url", (G.term_repr(t), h, w, repr(v), nm, pre), parse_model(o, "str"), io)

    def al_tok(al):
        if al[0] == "A":
            return "A"
        if al[0] == "O":
            return "O " + G.hx(al[1])
        return "L %d %s" % (len(al[1]), " ".join(G.hx(x) for x in al[1]))
    outs = m.batch(["DU %s %s %s %d %d" % (G.term_tok(t), G.hx(u), al_tok(al), af, rs) for (t, u, al, af, rs) in du])
    for (t, u, al, af, rs), o in zip(du, outs):
        c = obj(t)
        ap = None if al[0] == "A" else al[1]
        io = timed(lambda: vlib.guarded(lambda: deserialize_problem_as_url(c, u, allowed_puzzles=ap, allow_failure=af, return_size=rs)))
        mo = parse_model(o, "pv")
        ok = mo[0] == io[0] and (strict_eq(mo[1], io[1]) if mo[0] == "ok" else mo[1] == io[1])
        ctx.corr("deserialize_problem_as_url", (G.term_repr(t), u, repr(al), af, rs), mo if not ok else io, io)
    outs = m.batch(["INFO " + G.hx(u) for u in info])
    for u, o in zip(info, outs):
        io = vlib.guarded(lambda: get_puzzle_info_from_url(u))
        mo = parse_model(o, "pv")
        ctx.corr("get_puzzle_info_from_url", u, mo, io)

    mark('4. room parti')
    # ---- 4. room partitions (all partitions of small boards in all orders, random, big)
    plain = [("R", False, False), ("R", True, False), ("R", False, True)]
    vt = ("V", ("O", [("H",), ("S", -1, "g")]), True, False)
    rc = []
    i = 0
    for (h, w, rooms) in pC15.room_cases(ctx):
        i += 1
        rc.append((plain[i % 3], h, w, rooms))
        rc.append((vt, h, w, (rooms, [rng.choice([-1, 0, 5, 16, 300]) for _ in rooms])))
    outs = m.batch(["SP %d %d %s %s" % (h, w, G.term_tok(t), G.pv_tok(v)) for (t, h, w, v) in rc])
    dps = []
    for (t, h, w, v), o in zip(rc, outs):
        c = obj(t)
        io = vlib.guarded(lambda: serialize_problem(c, v, height=h, width=w))
        ctx.corr("rooms-serialize", (G.term_repr(t), h, w, repr(v) if h * w <= 36 else "big"), parse_model(o, "str"), io)
        if io[0] == "ok":
            dps.append((t, h, w, io[1]))
            if io[1] and rng.random() < 0.3:
                s = io[1]
                k = rng.randrange(len(s))
                dps.append((t, h, w, s[:k] + rng.choice("0123456789abcdefghijklmnopqrstuvw") + s[k + 1:]))   # redundant borders
    outs = m.batch(["DP %d %d %s %s" % (h, w, G.term_tok(t), G.hx(s)) for (t, h, w, s) in dps])
    for (t, h, w, s), o in zip(dps, outs):
        c = obj(t)
        io = vlib.guarded(lambda: deserialize_problem(c, s, height=h, width=w))
        mo = parse_model(o, "pv")
        ok = mo[0] == io[0] and (strict_eq(mo[1], io[1]) if mo[0] == "ok" else mo[1] == io[1])
        ctx.corr("rooms-deserialize", (G.term_repr(t), h, w, s if len(s) < 60 else "big"), mo if not ok else io, io)
    # ill-formed room lists
    badrooms = [
        (2, 2, [[(0, 0), (0, 1)], [(1, 0)]]), (2, 2, [[(0, 0), (0, 1), (1, 0), (1, 1), (0, 0)]]),
        (2, 2, [[(0, 0), (0, 1), (1, 0), (1, 2)]]), (2, 2, [[(0, 0), (0, 1), (1, 0), (2, 1)]]),
        (2, 2, [[(0, 0), (0, 1), (1, 0), (1, -1)]]), (2, 2, [[(0, 0), (0, 1), (1, 0), (-1, 1)]]),
        (2, 2, [[(0, 0), (0, 1), (1, 0), (-1, 5)]]), (2, 2, [[(0, 0), (0, 1), (1, 0), (5, 5)]]),
        (2, 2, [[(0, 0), (0, 1), (1, 0), (1, "a")]]), (2, 2, [[(0, 0), (0, 1), (1, 0), ("a", 1)]]),
        (2, 2, [[(0, 0), (0, 1), (1, 0), (None, 1)]]), (2, 2, [[(0, 0), (0, 1), (1, 0), (1, 1, 1)]]),
        (2, 2, [[(0, 0), (0, 1), (1, 0), [1, 1]]]), (2, 2, [((0, 0), (0, 1), (1, 0), (1, 1))]),
        (2, 2, ([(0, 0), (0, 1), (1, 0), (1, 1)],)), (2, 2, [[(0, 0), (1, 1)], [(0, 1), (1, 0)]]),
        (2, 2, [[], [(0, 0), (0, 1), (1, 0), (1, 1)]]), (2, 2, None), (2, 2, []), (1, 1, [[(0, 0)]]), (1, 1, [[]]),
        (0, 0, []), (0, 3, []), (3, 0, []), (2, 2, [[(0, 0), (0, 1), (1, 0), (5, "a")]]),
    ]
    reqs, cs = [], []
    for (h, w, v) in badrooms:
        for t in plain[:2]:
            for idx in (0, 1):
                cs.append((t, h, w, [v], idx))
        cs.append((vt, h, w, [(v, [1, 2, 3])], 0))
        cs.append((vt, h, w, [(v, [1])], 0))
        cs.append((vt, h, w, [(v, 3)], 0))
        cs.append((vt, h, w, [(v,)], 0))
    cs = [c for c in cs if value_ok(c[3])]
    outs = m.batch(["SER %d %d %d %s %s" % (h, w, idx, G.term_tok(t), G.pv_tok(d)) for (t, h, w, d, idx) in cs])
    for (t, h, w, d, idx), o in zip(cs, outs):
        c = obj(t)
        io = norm(vlib.guarded(lambda: c.serialize(env(h, w), d, idx)))
        ctx.corr("rooms-malformed", (G.term_repr(t), h, w, repr(d), idx), parse_model(o, "ser"), io)

    mark('5. int()')
    # ---- 5. int() and str.isdigit models on short Latin-1 strings
    alpha = "0159afgzAFGZ_+- x\t\n\xa0\x85\x1c\xb2\xb9\xe9X."
    strs = [""] + [a for a in alpha] + [a + b for a in alpha for b in alpha]
    n3 = 6000 if ctx.thorough else 1500
    strs += ["".join(rng.choice(alpha) for _ in range(3)) for _ in range(n3)]
    strs += ["".join(rng.choice(alpha) for _ in range(rng.randint(4, 7))) for _ in range(n3 // 3)]
    strs += [chr(i) for i in range(256)] + [chr(i) + "7" for i in range(256)] + ["7" + chr(i) for i in range(256)]
    for base in (10, 16, 36):
        outs = m.batch(["INT %d %s" % (base, G.hx(s)) for s in strs])
        for s, o in zip(strs, outs):
            io = vlib.guarded(lambda: int(s, base))
            t = o.split()
            mo = ("err", ERR[int(t[1])]) if t[0] == "E" else ("ok", int(t[1][1:]))
            ctx.corr("int", (s, base), mo, io)
    allc = "".join(chr(i) for i in range(256))
    o = m.call("ISDIGIT " + G.hx(allc))
    ctx.corr("isdigit", "latin-1", o, "".join("1" if ch.isdigit() else "0" for ch in allc))
