(* C11 Tier 1 - castle_wall: for every board shape (height, width >= 1, single-row and single-column boards
   included) and every clue layout, the program posted by solve_castle_wall (model CastleWall.v: the single-cycle
   helper of property C06 on the frame of the squares between the cell centres, the constraints of the clue cells,
   the auxiliary flags is_inside with their crossing-parity recurrence and the white / black constraints) has a
   model reading as [ans] on the frame exactly when [ans] obeys Rules_castle_wall.
   The graph side is CastleWallCompose.cycle_frame_compose_aux.  The inside / outside side: the solver counts, for
   the unit square above-left of the clue cell, the horizontal segments met by a ray going UP from the square; the
   rule file counts, for the cell itself, the vertical segments met by a ray going RIGHT half a row below (above,
   in the last row) the cell.  Section Parity shows that both parities agree for a clue cell off the line as soon
   as every lattice point has an even number of drawn segments (which single_loop_b demands): the up-ray parity
   is a proper 2-colouring of the squares (neighbouring squares differ exactly across a drawn segment,
   cw_ins_right), so a walk from one square to another changes colour once per segment crossed. *)
From Coq Require Import ZArith List Bool Arith Lia.
From Cspuz Require Import Lib.PyErr Core.Expr Core.Program Graph.GraphModel Graph.Cycle
     Puzzle.PuzzleBase Puzzle.SatAbs Puzzle.ModelBase Puzzle.ModelLemmas
     Puzzle.CycleFrameBase Puzzle.CycleCompose Puzzle.CycleLattice Puzzle.CastleWallCompose
     Puzzle.Rules_castle_wall Puzzle.CastleWall.
Import ListNotations.
Local Open Scope nat_scope.

Notation b2z := PuzzleBase.b2z.

Lemma cw_hseg_hid h w y x : hseg (S h) (S w) y x = frame_hid h w y x.
Proof. unfold hseg, frame_hid. replace (S w - 1) with w by lia. reflexivity. Qed.
Lemma cw_vseg_vid h w y x : vseg (S h) (S w) y x = frame_vid h w y x.
Proof. unfold vseg, frame_vid. replace (S w - 1) with w by lia. reflexivity. Qed.
Lemma cw_n_lattice_frame h w : n_lattice_edges (S h) (S w) = frame_n h w.
Proof. unfold n_lattice_edges, frame_n. replace (S w - 1) with w by lia. replace (S h - 1) with h by lia. reflexivity. Qed.

(* ------------------------------------------------------------------------------------------------------ *)
(* 1. crossing parities on the lattice (S fh) x (S fw); the squares are (y, x) with y < fh, x < fw         *)

(* the solver's recurrence: parity of the horizontal segments (y', x)-(y', x+1), y' <= y *)
Fixpoint cw_ins (fh fw : nat) (on : nat -> bool) (y x : nat) : bool :=
  match y with
  | O => on (frame_hid fh fw 0 x)
  | S y' => xorb (cw_ins fh fw on y' x) (on (frame_hid fh fw (S y') x))
  end.
(* the same with "no segment" beyond the right rim: column fw is the outside *)
Definition cw_hE (fh fw : nat) (on : nat -> bool) (y x : nat) : bool := (x <? fw) && on (frame_hid fh fw y x).
Fixpoint cw_insr (fh fw : nat) (on : nat -> bool) (y x : nat) : bool :=
  match y with
  | O => cw_hE fh fw on 0 x
  | S y' => xorb (cw_insr fh fw on y' x) (cw_hE fh fw on (S y') x)
  end.

Lemma cw_insr_rim fh fw on y x : fw <= x -> cw_insr fh fw on y x = false.
Proof.
  intros Hx. assert (E : forall y', cw_hE fh fw on y' x = false).
  { intros y'. unfold cw_hE. destruct (Nat.ltb_spec x fw); [lia|reflexivity]. }
  induction y as [|y IH]; simpl; [apply E|]. rewrite IH, E. reflexivity.
Qed.
Lemma cw_insr_ins fh fw on y x : x < fw -> cw_insr fh fw on y x = cw_ins fh fw on y x.
Proof.
  intros Hx. assert (E : forall y', cw_hE fh fw on y' x = on (frame_hid fh fw y' x)).
  { intros y'. unfold cw_hE. destruct (Nat.ltb_spec x fw); [reflexivity|lia]. }
  induction y as [|y IH]; simpl; [apply E|]. rewrite IH, E. reflexivity.
Qed.

Lemma cw_ins_ext fh fw on1 on2 y x :
  y <= fh -> x < fw -> (forall k, k < frame_n fh fw -> on1 k = on2 k) ->
  cw_ins fh fw on1 y x = cw_ins fh fw on2 y x.
Proof.
  intros Hy Hx He.
  assert (E : forall y', y' <= fh -> on1 (frame_hid fh fw y' x) = on2 (frame_hid fh fw y' x)).
  { intros y' Hy'. apply He. unfold frame_hid, frame_n. nia. }
  induction y as [|y IH]; simpl; [apply E; lia|]. rewrite IH by lia. rewrite E by lia. reflexivity.
Qed.

Lemma cw_even4 a b c d :
  Nat.even (b2n a + b2n b + b2n c + b2n d) = true -> xorb (xorb a b) (xorb c d) = false.
Proof. destruct a, b, c, d; simpl; intros H; try reflexivity; discriminate. Qed.

Lemma cw_odd_add_b n b : Nat.odd (n + b2n b) = xorb (Nat.odd n) b.
Proof.
  destruct b; simpl.
  - rewrite Nat.add_1_r, Nat.odd_succ, <- Nat.negb_odd. destruct (Nat.odd n); reflexivity.
  - rewrite Nat.add_0_r. destruct (Nat.odd n); reflexivity.
Qed.

Section Parity.
  Variables (fh fw : nat) (on : nat -> bool).
  Hypothesis Heven : forall y x, y <= fh -> x <= fw ->
    Nat.even (degree (lattice (S fh) (S fw)) on (y * S fw + x)) = true.

  Notation sg := (seg (S fh) (S fw) on).
  Notation insr := (cw_insr fh fw on).
  Notation hE := (cw_hE fh fw on).

  Lemma cw_seg_up y x : sg y x 0 = (0 <? y) && on (frame_vid fh fw (y - 1) x).
  Proof. unfold seg. rewrite cw_vseg_vid. reflexivity. Qed.
  Lemma cw_seg_down y x : sg y x 1 = (y <? fh) && on (frame_vid fh fw y x).
  Proof. unfold seg. rewrite cw_vseg_vid. reflexivity. Qed.
  Lemma cw_seg_left y x : sg y x 2 = (0 <? x) && on (frame_hid fh fw y (x - 1)).
  Proof. unfold seg. rewrite cw_hseg_hid. reflexivity. Qed.
  Lemma cw_seg_right y x : sg y x 3 = hE y x.
  Proof. unfold seg, cw_hE. rewrite cw_hseg_hid. reflexivity. Qed.

  Lemma cw_vertex_parity y x : y <= fh -> x <= fw ->
    xorb (xorb (sg y x 0) (sg y x 1)) (xorb (sg y x 2) (sg y x 3)) = false.
  Proof.
    intros Hy Hx. apply cw_even4. rewrite <- (lattice_degree fh fw on y x Hy Hx). apply Heven; assumption.
  Qed.

  (* squares next to each other in a row differ exactly across the drawn vertical segment between them; the
     column fw stands for the outside *)
  Lemma cw_ins_right y x : y < fh -> x < fw ->
    xorb (insr y x) (insr y (S x)) = on (frame_vid fh fw y (S x)).
  Proof.
    induction y as [|y IH]; intros Hy Hx.
    - pose proof (cw_vertex_parity 0 (S x) ltac:(lia) ltac:(lia)) as P.
      rewrite cw_seg_up, cw_seg_down, cw_seg_left, cw_seg_right in P.
      replace (S x - 1) with x in P by lia.
      replace (0 <? fh) with true in P by (symmetry; apply Nat.ltb_lt; lia).
      change (0 <? 0) with false in P. change (0 <? S x) with true in P. cbn [andb] in P.
      cbn [cw_insr]. unfold cw_hE at 1. replace (x <? fw) with true by (symmetry; apply Nat.ltb_lt; lia).
      cbn [andb].
      destruct (on (frame_hid fh fw 0 x)), (hE 0 (S x)), (on (frame_vid fh fw 0 (S x))); simpl in *; congruence.
    - pose proof (cw_vertex_parity (S y) (S x) ltac:(lia) ltac:(lia)) as P.
      rewrite cw_seg_up, cw_seg_down, cw_seg_left, cw_seg_right in P.
      replace (S x - 1) with x in P by lia. replace (S y - 1) with y in P by lia.
      replace (S y <? fh) with true in P by (symmetry; apply Nat.ltb_lt; lia).
      change (0 <? S y) with true in P. change (0 <? S x) with true in P. cbn [andb] in P.
      rewrite <- (IH ltac:(lia) Hx) in P.
      cbn [cw_insr]. unfold cw_hE at 1. replace (x <? fw) with true by (symmetry; apply Nat.ltb_lt; lia).
      cbn [andb].
      destruct (insr y x), (insr y (S x)), (on (frame_hid fh fw (S y) x)), (hE (S y) (S x)),
        (on (frame_vid fh fw (S y) (S x))); simpl in *; congruence.
  Qed.

  (* hence the parity of the drawn vertical segments strictly right of column x in the row of squares y *)
  Lemma cw_count_right y x : y < fh -> x <= fw ->
    Nat.odd (count (fun x' => (x <? x') && on (frame_vid fh fw y x')) (seq 0 (S fw))) = insr y x.
  Proof.
    intros Hy Hx.
    assert (G : forall d, x + d <= fw ->
              Nat.odd (count (fun x' => (x <? x') && on (frame_vid fh fw y x')) (seq 0 (S (x + d)))) =
              xorb (insr y x) (insr y (x + d))).
    { induction d as [|d IH]; intros Hd.
      - rewrite Nat.add_0_r, xorb_nilpotent.
        rewrite (count_ext_in _ (fun _ => false)).
        + unfold count. clear. induction (seq 0 (S x)); simpl; auto.
        + intros x' Hin. apply in_seq in Hin. destruct (Nat.ltb_spec x x'); [lia|reflexivity].
      - replace (x + S d) with (S (x + d)) by lia.
        rewrite (seq_S (S (x + d)) 0). unfold count in *. rewrite filter_app, app_length. cbn [filter Nat.add].
        replace (x <? S (x + d)) with true by (symmetry; apply Nat.ltb_lt; lia). cbn [andb].
        rewrite <- (cw_ins_right y (x + d) Hy ltac:(lia)).
        assert (E : length (if xorb (insr y (x + d)) (insr y (S (x + d))) then [S (x + d)] else []) =
                    b2n (xorb (insr y (x + d)) (insr y (S (x + d))))).
        { destruct (xorb (insr y (x + d)) (insr y (S (x + d)))); reflexivity. }
        rewrite E, cw_odd_add_b, IH by lia.
        destruct (insr y x), (insr y (x + d)), (insr y (S (x + d))); reflexivity. }
    specialize (G (fw - x) ltac:(lia)). replace (x + (fw - x)) with fw in G by lia.
    rewrite G, (cw_insr_rim fh fw on y fw (le_n _)). apply xorb_false_r.
  Qed.

  (* a lattice point off the line has no drawn segment *)
  Lemma cw_off_segs y x : y <= fh -> x <= fw ->
    on_line (lattice (S fh) (S fw)) on (y * S fw + x) = false ->
    sg y x 0 = false /\ sg y x 1 = false /\ sg y x 2 = false /\ sg y x 3 = false.
  Proof.
    intros Hy Hx H. rewrite (lattice_on_line fh fw on y x Hy Hx) in H.
    destruct (sg y x 0), (sg y x 1), (sg y x 2), (sg y x 3); simpl in H; try discriminate. auto.
  Qed.

  (* the square the solver looks at (above-left of the cell, clipped to the board) and the square the rule file
     starts its ray from (right-below the cell, or right-above in the last row; the outside in the last column)
     have the same parity when the cell is off the line *)
  Lemma cw_same_side y x : 1 <= fh -> 1 <= fw -> y <= fh -> x <= fw ->
    on_line (lattice (S fh) (S fw)) on (y * S fw + x) = false ->
    cw_ins fh fw on (y - 1) (x - 1) = insr (if S y <? S fh then y else y - 1) x.
  Proof.
    intros Hfh Hfw Hy Hx Hoff.
    destruct (cw_off_segs y x Hy Hx Hoff) as [U [D [Lf R]]].
    rewrite cw_seg_up in U. rewrite cw_seg_down in D. rewrite cw_seg_left in Lf. rewrite cw_seg_right in R.
    rewrite <- cw_insr_ins by lia.
    (* step 1: along the row y - 1, from column x - 1 to column x *)
    assert (S1 : insr (y - 1) (x - 1) = insr (y - 1) x).
    { destruct x as [|x]; [reflexivity|]. replace (S x - 1) with x by lia.
      pose proof (cw_ins_right (y - 1) x ltac:(lia) ltac:(lia)) as P.
      assert (V : on (frame_vid fh fw (y - 1) (S x)) = false).
      { destruct y as [|y].
        - simpl. replace (0 <? fh) with true in D by (symmetry; apply Nat.ltb_lt; lia). exact D.
        - change (0 <? S y) with true in U. exact U. }
      rewrite V in P. destruct (insr (y - 1) x), (insr (y - 1) (S x)); simpl in P; congruence. }
    rewrite S1.
    (* step 2: down the column x, from row y - 1 to the row of the rule file *)
    change (S y <? S fh) with (y <? fh).
    destruct (Nat.ltb_spec y fh) as [Hlt|Hge].
    - destruct y as [|y]; [reflexivity|]. replace (S y - 1) with y by lia.
      cbn [cw_insr]. rewrite R. apply eq_sym, xorb_false_r.
    - reflexivity.
  Qed.
End Parity.

(* ------------------------------------------------------------------------------------------------------ *)
(* 2. what the posted constraints say, as functions of the answer (board (S fh) x (S fw))                  *)

Definition cw_clue_ok (fh fw : nat) (kind num : list Z) (on : nat -> bool) (c : nat * nat) : bool :=
  let '(y, x) := c in
  let h := S fh in let w := S fw in
  let k := at2 kind w y x in
  (k =? 0)%Z ||
  (negb (on_line (lattice h w) on (y * w + x)) &&
   (let n := at2 num w y x in
    if (k =? 1)%Z then (zcount (fun y' => on (vseg h w y' x)) (seq 0 y) =? n)%Z
    else if (k =? 2)%Z then (zcount (fun y' => on (vseg h w y' x)) (seq y (h - 1 - y)) =? n)%Z
    else if (k =? 3)%Z then (zcount (fun x' => on (hseg h w y x')) (seq 0 x) =? n)%Z
    else if (k =? 4)%Z then (zcount (fun x' => on (hseg h w y x')) (seq x (w - 1 - x)) =? n)%Z
    else true)).

Definition cw_side_ok (fh fw : nat) (side : list Z) (on : nat -> bool) (c : nat * nat) : bool :=
  let '(y, x) := c in
  let s := at2 side (S fw) y x in
  if (S fh =? 1) || (S fw =? 1) then negb (s =? 1)%Z
  else if (s =? 1)%Z then cw_ins fh fw on (y - 1) (x - 1)
  else if (s =? 2)%Z then negb (cw_ins fh fw on (y - 1) (x - 1)) else true.

Definition cw_local (fh fw : nat) (kind num side : list Z) (ans : answer) : bool :=
  let on := fun k => isb (getz ans k) in
  forallb (cw_clue_ok fh fw kind num on) (cells (S fh) (S fw)) &&
  forallb (cw_side_ok fh fw side on) (cells (S fh) (S fw)).

(* the value the recurrence forces on is_inside[j / fw, j mod fw] *)
Definition cw_aux (fh fw : nat) (ans : answer) (j : nat) : bool :=
  cw_ins fh fw (fun k => isb (getz ans k)) (j / fw) (j mod fw).

Lemma cw_aux_at fh fw ans y x :
  x < fw -> cw_aux fh fw ans (y * fw + x) = cw_ins fh fw (fun k => isb (getz ans k)) y x.
Proof.
  intros Hx. unfold cw_aux.
  replace ((y * fw + x) / fw) with y by (rewrite Nat.div_add_l by lia; rewrite Nat.div_small by lia; lia).
  replace ((y * fw + x) mod fw) with x
    by (rewrite Nat.add_comm, Nat.mod_add by lia; rewrite Nat.mod_small by lia; reflexivity).
  reflexivity.
Qed.

Lemma cw_holds_var en a : holds no_graph en (BVar a) = eb en a.
Proof. unfold holds. simpl. destruct (eb en a); reflexivity. Qed.
Lemma cw_holds_not en a : holds no_graph en (BNode NOT [BVar a]) = negb (eb en a).
Proof. unfold holds. simpl. destruct (eb en a); reflexivity. Qed.
Lemma cw_holds_iff en a b : holds no_graph en (BNode IFF [BVar a; BVar b]) = Bool.eqb (eb en a) (eb en b).
Proof. unfold holds. simpl. destruct (eb en a), (eb en b); reflexivity. Qed.
Lemma cw_holds_iffx en a b c :
  holds no_graph en (BNode IFF [BVar a; BNode XOR [BVar b; BVar c]]) = Bool.eqb (eb en a) (xorb (eb en b) (eb en c)).
Proof. unfold holds. simpl. destruct (eb en a), (eb en b), (eb en c); reflexivity. Qed.

Section Sem.
  Variables (fh fw : nat) (kind num side : list Z) (en : env) (B : nat).
  Let N := frame_n fh fw.
  Let rd := map (fun i => b2z (eb en i)) (seq 0 N).
  Let on := fun k => isb (getz rd k).
  Hypothesis PASS : forall y x, y <= fh -> x <= fw ->
    eb en (frame_pid fh fw y x) = on_line (lattice (S fh) (S fw)) (eb en) (y * S fw + x).

  Lemma cw_on k : k < N -> on k = eb en k.
  Proof. intros Hk. unfold on, rd. rewrite getz_map_seq by exact Hk. apply b2z_isb. Qed.

  Lemma cw_count_v x l n : (forall y', In y' l -> y' < fh) -> x <= fw ->
    forallb (holds no_graph en) [BNode EQ [ct_vars (map (fun y' => frame_vid fh fw y' x) l); PyInt n]] =
    (zcount (fun y' => on (vseg (S fh) (S fw) y' x)) l =? n)%Z.
  Proof.
    intros Hl Hx. cbn [forallb]. rewrite andb_true_r, holds_ct_eq, count_map. unfold zcount.
    rewrite (count_ext_in _ (fun y' => on (vseg (S fh) (S fw) y' x)) l); [reflexivity|].
    intros y' Hy'. rewrite cw_vseg_vid. symmetry. apply cw_on. specialize (Hl y' Hy').
    unfold frame_vid, N, frame_n. nia.
  Qed.
  Lemma cw_count_h y l n : (forall x', In x' l -> x' < fw) -> y <= fh ->
    forallb (holds no_graph en) [BNode EQ [ct_vars (map (fun x' => frame_hid fh fw y x') l); PyInt n]] =
    (zcount (fun x' => on (hseg (S fh) (S fw) y x')) l =? n)%Z.
  Proof.
    intros Hl Hy. cbn [forallb]. rewrite andb_true_r, holds_ct_eq, count_map. unfold zcount.
    rewrite (count_ext_in _ (fun x' => on (hseg (S fh) (S fw) y x')) l); [reflexivity|].
    intros x' Hx'. rewrite cw_hseg_hid. symmetry. apply cw_on. specialize (Hl x' Hx').
    unfold frame_hid, N, frame_n. nia.
  Qed.

  (* the constraints of the clue cells *)
  Lemma cw_arrows_core :
    forallb (holds no_graph en) (cw_arrows (S fh) (S fw) kind num) =
    forallb (cw_clue_ok fh fw kind num on) (cells (S fh) (S fw)).
  Proof.
    unfold cw_arrows. rewrite forallb_flat_map. apply forallb_ext_in. intros [y x] Hc.
    apply cells_in in Hc. destruct Hc as [Hy Hx].
    unfold cw_arrow, cw_clue_ok. cbv zeta. replace (S fh - 1) with fh by lia. replace (S fw - 1) with fw by lia.
    destruct (at2 kind (S fw) y x =? 0)%Z; [reflexivity|]. cbn [orb].
    change (forallb (holds no_graph en) (?a :: ?l)) with (holds no_graph en a && forallb (holds no_graph en) l).
    rewrite cw_holds_not, PASS by lia.
    rewrite (on_line_ext (lattice (S fh) (S fw)) on (eb en)).
    2:{ intros k Hk. apply cw_on. change (length (edges (lattice (S fh) (S fw)))) with (length (lattice_edges (S fh) (S fw))) in Hk.
        rewrite lattice_edges_length in Hk. exact Hk. }
    f_equal.
    destruct (at2 kind (S fw) y x =? 1)%Z.
    { apply cw_count_v; [|lia]. intros y' H. apply in_seq in H. lia. }
    destruct (at2 kind (S fw) y x =? 2)%Z.
    { apply cw_count_v; [|lia]. intros y' H. apply in_seq in H. lia. }
    destruct (at2 kind (S fw) y x =? 3)%Z.
    { apply cw_count_h; [|lia]. intros x' H. apply in_seq in H. lia. }
    destruct (at2 kind (S fw) y x =? 4)%Z.
    { apply cw_count_h; [|lia]. intros x' H. apply in_seq in H. lia. }
    reflexivity.
  Qed.

  (* the recurrence determines the flags *)
  Lemma cw_inout_core :
    forallb (holds no_graph en) (cw_inout B fh fw) = true <->
    (forall y x, y < fh -> x < fw -> eb en (cw_iid B fw y x) = cw_ins fh fw (eb en) y x).
  Proof.
    unfold cw_inout. rewrite forallb_map, forallb_forall. split.
    - intros H y. induction y as [|y IH]; intros x Hy Hx.
      + specialize (H (0, x) (proj2 (cells_in fh fw 0 x) (conj Hy Hx))). cbn [cw_inout1] in H.
        rewrite cw_holds_iff in H. apply eqb_prop in H. exact H.
      + specialize (H (S y, x) (proj2 (cells_in fh fw (S y) x) (conj Hy Hx))). cbn [cw_inout1] in H.
        rewrite cw_holds_iffx in H. apply eqb_prop in H. rewrite H, IH by lia. reflexivity.
    - intros H [y x] Hc. apply cells_in in Hc. destruct Hc as [Hy Hx]. destruct y as [|y]; cbn [cw_inout1].
      + rewrite cw_holds_iff, H by lia. apply eqb_reflx.
      + rewrite cw_holds_iffx, (H (S y) x), (H y x) by lia. apply eqb_reflx.
  Qed.

  (* the white / black constraints, once the flags carry the parities *)
  Lemma cw_sides_core :
    (forall y x, y < fh -> x < fw -> eb en (cw_iid B fw y x) = cw_ins fh fw (eb en) y x) ->
    forallb (holds no_graph en) (cw_sides B (S fh) (S fw) side) =
    forallb (cw_side_ok fh fw side on) (cells (S fh) (S fw)).
  Proof.
    intros Hins. unfold cw_sides. rewrite forallb_flat_map. apply forallb_ext_in. intros [y x] Hc.
    apply cells_in in Hc. destruct Hc as [Hy Hx].
    unfold cw_side1, cw_side_ok. cbv zeta. replace (S fw - 1) with fw by lia.
    destruct ((S fh =? 1) || (S fw =? 1)) eqn:Hdeg.
    - destruct (at2 side (S fw) y x =? 1)%Z; reflexivity.
    - apply orb_false_iff in Hdeg. destruct Hdeg as [H1 H2]. apply Nat.eqb_neq in H1. apply Nat.eqb_neq in H2.
      assert (E : eb en (cw_iid B fw (y - 1) (x - 1)) = cw_ins fh fw on (y - 1) (x - 1)).
      { rewrite Hins by lia. apply cw_ins_ext; [lia|lia|]. intros k Hk. symmetry. apply cw_on. exact Hk. }
      destruct (at2 side (S fw) y x =? 1)%Z.
      { cbn [forallb]. rewrite cw_holds_var, andb_true_r. exact E. }
      destruct (at2 side (S fw) y x =? 2)%Z.
      { cbn [forallb]. rewrite cw_holds_not, andb_true_r, E. reflexivity. }
      reflexivity.
  Qed.
End Sem.

(* ------------------------------------------------------------------------------------------------------ *)
(* 3. the rule file in the same vocabulary                                                                 *)

(* well-formed problems: only clue cells are white or black (Rules_castle_wall: "side 0 = gray / not a clue") *)
Definition cw_wf (h w : nat) (kind side : list Z) : bool :=
  forallb (fun '(y, x) => negb (at2 kind w y x =? 0)%Z ||
                          negb ((at2 side w y x =? 1) || (at2 side w y x =? 2))%Z) (cells h w).

Lemma cw_dims h w (rest : list (list Z)) :
  dim ([Z.of_nat h; Z.of_nat w] :: rest) 0 = h /\ dim ([Z.of_nat h; Z.of_nat w] :: rest) 1 = w.
Proof. unfold dim, zn, getz, sec; simpl. rewrite !Nat2Z.id. split; reflexivity. Qed.

Lemma cw_loop_even fh fw on :
  single_loop_b (lattice (S fh) (S fw)) on = true ->
  forall y x, y <= fh -> x <= fw -> Nat.even (degree (lattice (S fh) (S fw)) on (y * S fw + x)) = true.
Proof.
  intros Hl y x Hy Hx. unfold single_loop_b in Hl. apply andb_true_iff in Hl. destruct Hl as [Hd _].
  rewrite forallb_forall in Hd. specialize (Hd (y * S fw + x)).
  cbv zeta in Hd. cbn [nv lattice] in Hd.
  assert (Hin : In (y * S fw + x) (seq 0 (S fh * S fw))) by (apply in_seq; nia).
  specialize (Hd Hin). apply orb_true_iff in Hd. destruct Hd as [H|H]; apply Nat.eqb_eq in H; rewrite H; reflexivity.
Qed.

Lemma cw_rules_local fh fw kind num side ans :
  cw_wf (S fh) (S fw) kind side = true ->
  rules_castle_wall [[Z.of_nat (S fh); Z.of_nat (S fw)]; kind; num; side] ans =
  Nat.eqb (length ans) (frame_n fh fw) && forallb is01 ans &&
  single_loop_b (lattice (S fh) (S fw)) (fun k => isb (getz ans k)) && cw_local fh fw kind num side ans.
Proof.
  intros Hwf. unfold rules_castle_wall.
  destruct (cw_dims (S fh) (S fw) [kind; num; side]) as [-> ->].
  change (sec [[Z.of_nat (S fh); Z.of_nat (S fw)]; kind; num; side] 1) with kind.
  change (sec [[Z.of_nat (S fh); Z.of_nat (S fw)]; kind; num; side] 2) with num.
  change (sec [[Z.of_nat (S fh); Z.of_nat (S fw)]; kind; num; side] 3) with side.
  cbv zeta. rewrite cw_n_lattice_frame.
  set (on := fun k => isb (getz ans k)).
  destruct (single_loop_b (lattice (S fh) (S fw)) on) eqn:Hloop; [|rewrite !andb_false_r; reflexivity].
  f_equal. pose proof (cw_loop_even fh fw on Hloop) as Heven.
  unfold cw_local. fold on. rewrite <- forallb_and. apply forallb_ext_in. intros [y x] Hc.
  pose proof Hc as Hc'. apply cells_in in Hc'. destruct Hc' as [Hy Hx].
  unfold cw_wf in Hwf. rewrite forallb_forall in Hwf. specialize (Hwf (y, x) Hc). cbv beta iota in Hwf.
  unfold cw_clue_ok, cw_side_ok. cbv zeta.
  destruct (at2 kind (S fw) y x =? 0)%Z eqn:Hk.
  - cbn [orb andb]. cbn [negb orb] in Hwf. apply negb_true_iff, orb_false_iff in Hwf. destruct Hwf as [-> ->].
    destruct ((S fh =? 1) || (S fw =? 1)); reflexivity.
  - cbn [orb]. clear Hwf.
    destruct (on_line (lattice (S fh) (S fw)) on (y * S fw + x)) eqn:Hon; [reflexivity|]. cbn [negb andb].
    rewrite andb_comm. f_equal.
    (* the white / black part: rule-file parity = solver parity *)
    set (ins := Nat.ltb 1 (S fh) &&
                Nat.odd (count (fun x' => Nat.ltb x x' &&
                                          isb (getz ans (vseg (S fh) (S fw) (if Nat.ltb (S y) (S fh) then y else y - 1) x')))
                               (seq 0 (S fw)))).
    destruct ((S fh =? 1) || (S fw =? 1)) eqn:Hdeg.
    + assert (E : ins = false).
      { unfold ins. apply orb_true_iff in Hdeg. destruct Hdeg as [H|H]; apply Nat.eqb_eq in H.
        - assert (fh = 0) by lia. subst fh. reflexivity.
        - assert (fw = 0) by lia. subst fw. assert (x = 0) by lia. subst x. cbn. apply andb_false_r. }
      rewrite E.
      destruct (at2 side (S fw) y x =? 1)%Z, (at2 side (S fw) y x =? 2)%Z; reflexivity.
    + apply orb_false_iff in Hdeg. destruct Hdeg as [H1 H2]. apply Nat.eqb_neq in H1. apply Nat.eqb_neq in H2.
      assert (E : ins = cw_ins fh fw on (y - 1) (x - 1)).
      { unfold ins. replace (Nat.ltb 1 (S fh)) with true by (symmetry; apply Nat.ltb_lt; lia). cbn [andb].
        rewrite (cw_same_side fh fw on Heven y x) by (try lia; exact Hon).
        set (yy := if S y <? S fh then y else y - 1).
        assert (Hyy : yy < fh).
        { unfold yy. change (S y <? S fh) with (y <? fh). destruct (Nat.ltb_spec y fh); lia. }
        rewrite <- (cw_count_right fh fw on Heven yy x Hyy ltac:(lia)). f_equal.
        apply count_ext_in. intros x' _. rewrite cw_vseg_vid. reflexivity. }
      rewrite E. reflexivity.
Qed.

(* ------------------------------------------------------------------------------------------------------ *)
(* 4. the theorems                                                                                         *)

Local Ltac cw_open h w kind num side :=
  unfold solve_castle_wall_model;
  change (sec [[Z.of_nat h; Z.of_nat w]; kind; num; side] 1) with kind;
  change (sec [[Z.of_nat h; Z.of_nat w]; kind; num; side] 2) with num;
  change (sec [[Z.of_nat h; Z.of_nat w]; kind; num; side] 3) with side;
  change (sec [[Z.of_nat h; Z.of_nat w]; kind; num; side] 0) with [Z.of_nat h; Z.of_nat w];
  change (getz [Z.of_nat h; Z.of_nat w] 0) with (Z.of_nat h);
  change (getz [Z.of_nat h; Z.of_nat w] 1) with (Z.of_nat w);
  destruct (cw_dims h w [kind; num; side]) as [-> ->]; cbv zeta.

(* what the posted program says, for EVERY problem the model accepts (no well-formedness needed): the readings of
   the frame are the single loops (or nothing drawn) that satisfy cw_local - the clue cells are off the line and
   their arrows count right, and for every cell marked white / black - clue cell or not - the solver's up-ray
   parity of the square above-left of it is odd / even (on single-row / single-column boards: no cell is white) *)
Theorem castle_wall_program fh fw kind num side st ans :
  solve_castle_wall_model [[Z.of_nat (S fh); Z.of_nat (S fw)]; kind; num; side] = Ok st ->
  ((exists en, model_of no_graph en st /\ reads st en (seq 0 (frame_n fh fw)) = ans)
   <-> Nat.eqb (length ans) (frame_n fh fw) && forallb is01 ans &&
       single_loop_b (lattice (S fh) (S fw)) (fun k => isb (getz ans k)) && cw_local fh fw kind num side ans = true).
Proof.
  cw_open (S fh) (S fw) kind num side.
  replace ((Z.of_nat (S fh) <=? 0) || (Z.of_nat (S fw) <=? 0))%Z with false
    by (symmetry; apply orb_false_iff; split; apply Z.leb_gt; lia).
  replace (S fh - 1) with fh by lia. replace (S fw - 1) with fw by lia.
  destruct (frame_cycle fh fw) as [[st1 res]|e] eqn:Hcall; [|intros H; discriminate H].
  destruct (Nat.ltb (length kind) (S fh * S fw) || Nat.ltb (length num) (S fh * S fw) ||
            Nat.ltb (length side) (S fh * S fw)); [intros H; discriminate H|].
  unfold bool_array. rewrite CycleLemmas.bool_vars_spec.
  intros Hst. inversion Hst; subst st. clear Hst.
  change (next_id (ensure st1 (cw_arrows (S fh) (S fw) kind num))) with (next_id st1).
  set (B := next_id st1).
  set (extra := cw_arrows (S fh) (S fw) kind num ++ cw_inout B fh fw ++ cw_sides B (S fh) (S fw) side).
  match goal with |- (exists en, model_of _ en ?s /\ _) <-> _ => set (stF := s) end.
  assert (Hvars : vars stF = vars st1 ++ repeat DBool (fh * fw)) by reflexivity.
  assert (Hcons : Program.cons stF = Program.cons st1 ++ extra).
  { unfold stF, extra, ensure. cbn [Program.cons]. rewrite <- !app_assoc. reflexivity. }
  apply (cycle_frame_compose_aux no_graph fh fw (fh * fw) extra (cw_local fh fw kind num side) (cw_aux fh fw)
           st1 res stF ans Hcall Hvars Hcons).
  - (* every model of the later constraints satisfies the local rules *)
    intros en PASS Hex. unfold extra in Hex. rewrite !forallb_app, !andb_true_iff in Hex.
    destruct Hex as [Ha [Hi Hs]]. unfold cw_local. apply andb_true_iff. split.
    + rewrite <- (cw_arrows_core fh fw kind num en PASS). exact Ha.
    + rewrite <- (cw_sides_core fh fw side en B); [exact Hs|].
      apply (cw_inout_core fh fw en B). exact Hi.
  - (* the local rules and the parities in the flags make the later constraints true *)
    intros en PASS Hl Haux. unfold cw_local in Hl. apply andb_true_iff in Hl. destruct Hl as [Hl1 Hl2].
    assert (Hins : forall y x, y < fh -> x < fw -> eb en (cw_iid B fw y x) = cw_ins fh fw (eb en) y x).
    { intros y x Hy Hx. unfold cw_iid. replace (B + y * fw + x) with (B + (y * fw + x)) by lia.
      rewrite Haux by nia. rewrite cw_aux_at by exact Hx.
      apply cw_ins_ext; [lia|exact Hx|]. intros k Hk. rewrite getz_map_seq by exact Hk. apply b2z_isb. }
    unfold extra. rewrite !forallb_app, !andb_true_iff. split; [|split].
    + rewrite (cw_arrows_core fh fw kind num en PASS). exact Hl1.
    + apply (cw_inout_core fh fw en B). exact Hins.
    + rewrite (cw_sides_core fh fw side en B Hins). exact Hl2.
Qed.

(* the model rejects boards without a row or a column *)
Lemma castle_wall_model_dims h w kind num side st :
  solve_castle_wall_model [[Z.of_nat h; Z.of_nat w]; kind; num; side] = Ok st -> 1 <= h /\ 1 <= w.
Proof.
  cw_open h w kind num side.
  destruct h as [|fh]; [intros H; discriminate H|].
  destruct w as [|fw]; [rewrite orb_true_r; intros H; discriminate H|]. intros _. lia.
Qed.

Theorem castle_wall_exact h w kind num side st ans :
  cw_wf h w kind side = true ->
  solve_castle_wall_model [[Z.of_nat h; Z.of_nat w]; kind; num; side] = Ok st ->
  ((exists en, model_of no_graph en st /\ reads st en (seq 0 (h * (w - 1) + (h - 1) * w)) = ans)
   <-> rules_castle_wall [[Z.of_nat h; Z.of_nat w]; kind; num; side] ans = true).
Proof.
  intros Hwf Hst. destruct (castle_wall_model_dims h w kind num side st Hst) as [Hh Hw].
  destruct h as [|fh]; [lia|]. destruct w as [|fw]; [lia|].
  replace (S fh * (S fw - 1) + (S fh - 1) * S fw) with (frame_n fh fw)
    by (unfold frame_n; replace (S fw - 1) with fw by lia; replace (S fh - 1) with fh by lia; reflexivity).
  rewrite (cw_rules_local fh fw kind num side ans Hwf).
  apply castle_wall_program. exact Hst.
Qed.

(* the model accepts every problem with at least one row and one column and enough entries in the three lists
   (the premise of castle_wall_exact is satisfiable) *)
Lemma castle_wall_model_total h w kind num side :
  1 <= h -> 1 <= w -> h * w <= length kind -> h * w <= length num -> h * w <= length side ->
  exists st, solve_castle_wall_model [[Z.of_nat h; Z.of_nat w]; kind; num; side] = Ok st.
Proof.
  intros Hh Hw Lk Ln Ls. cw_open h w kind num side.
  replace ((Z.of_nat h <=? 0) || (Z.of_nat w <=? 0))%Z with false
    by (symmetry; apply orb_false_iff; split; apply Z.leb_gt; lia).
  destruct (frame_cycle_ok (h - 1) (w - 1)) as [st1 [rest [Hc _]]]. rewrite Hc.
  replace (Nat.ltb (length kind) (h * w)) with false by (symmetry; apply Nat.ltb_ge; exact Lk).
  replace (Nat.ltb (length num) (h * w)) with false by (symmetry; apply Nat.ltb_ge; exact Ln).
  replace (Nat.ltb (length side) (h * w)) with false by (symmetry; apply Nat.ltb_ge; exact Ls).
  cbn [orb]. destruct (bool_array _ _) as [st3 l]. eexists. reflexivity.
Qed.

(* 3 x 3 board, one arrowless clue in the centre *)
Example castle_wall_model_ok :
  exists st, solve_castle_wall_model [[3; 3]; [0; 0; 0; 0; 5; 0; 0; 0; 0]; [0; 0; 0; 0; 0; 0; 0; 0; 0];
                                      [0; 0; 0; 0; 1; 0; 0; 0; 0]]%Z = Ok st.
Proof. apply (castle_wall_model_total 3 3); simpl; lia. Qed.
Example castle_wall_wf_ok :
  cw_wf 3 3 [0; 0; 0; 0; 5; 0; 0; 0; 0]%Z [0; 0; 0; 0; 1; 0; 0; 0; 0]%Z = true.
Proof. reflexivity. Qed.

(* the loop around the border of the 3 x 3 board puts the centre inside, drawing nothing leaves it outside *)
Example castle_wall_rules_ring :
  let ring := [1; 1; 0; 0; 1; 1; 1; 0; 1; 1; 0; 1]%Z in
  let none := [0; 0; 0; 0; 0; 0; 0; 0; 0; 0; 0; 0]%Z in
  let pb := fun s => [[3; 3]; [0; 0; 0; 0; 5; 0; 0; 0; 0]; [0; 0; 0; 0; 0; 0; 0; 0; 0]; [0; 0; 0; 0; s; 0; 0; 0; 0]]%Z in
  rules_castle_wall (pb 1%Z) ring = true /\ rules_castle_wall (pb 2%Z) ring = false /\
  rules_castle_wall (pb 1%Z) none = false /\ rules_castle_wall (pb 2%Z) none = true.
Proof. vm_compute. repeat split. Qed.

(* the hypothesis cw_wf cannot be dropped: on the 2 x 2 board without clue cells whose first cell is nevertheless
   marked white, the rule file (which looks at the colour of clue cells only) accepts the empty drawing, the
   posted program (castle_wall_program) does not - the solver posts the white / black constraint for every cell *)
Example castle_wall_wf_needed :
  let pb := [[2; 2]; [0; 0; 0; 0]; [0; 0; 0; 0]; [1; 0; 0; 0]]%Z in
  cw_wf 2 2 [0; 0; 0; 0]%Z [1; 0; 0; 0]%Z = false /\
  rules_castle_wall pb [0; 0; 0; 0]%Z = true /\
  cw_local 1 1 [0; 0; 0; 0]%Z [0; 0; 0; 0]%Z [1; 0; 0; 0]%Z [0; 0; 0; 0]%Z = false.
Proof. vm_compute. repeat split. Qed.
