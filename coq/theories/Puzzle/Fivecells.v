(* C11 Tier 1 - model of cspuz/puzzle/fivecells.py::solve_fivecells(height, width, problem), all board shapes
   and all clue / hole layouts:
       vertex_id[y][x] = running number of the cells with problem[y][x] >= -1 (row-major), id_last = their count
       g = graph.Graph(id_last)
       for y, x (row-major), if problem[y][x] >= -1:
           if y < height - 1 and problem[y + 1][x] >= -1: g.add_edge(vertex_id[y][x], vertex_id[y + 1][x])
           if x < width - 1 and problem[y][x + 1] >= -1: g.add_edge(vertex_id[y][x], vertex_id[y][x + 1])
       group_id = graph.division_connected_variable_groups(solver, graph=g, group_size=5)
       for y, x (row-major), if problem[y][x] >= 0:
           borders = [group_id[self] != group_id[nb] for nb in (up, down, left, right) if nb is on the board and >= -1]
           solver.ensure(count_true(borders) == problem[y][x] - (4 - len(borders)))
       is_border = solver.bool_array(len(g))
       for i, (u, v) in enumerate(g): solver.ensure(is_border[i] == (group_id[u] != group_id[v]))
       solver.add_answer_key(is_border)
   The call into cspuz.graph is the model of property C07 (Graph/VarGroups.v::division_connected_variable_groups,
   explicit-graph form, group_size one Python int; this helper has no native-operator route, so the captured
   program does not depend on config.use_graph_division_primitive).  On a board without usable cells the helper's
   first statement solver.int_array(0, 0, -1) raises ValueError, and so does the model (post_vargroups).
   The flag is_invalid only short-cuts solver.solve(); the constraint with the negative right-hand side is posted
   all the same, so the posted program is what is modelled.
   The answer keys are the is_border variables, declared last: ids 5 * id_last + len(g) .. 5 * id_last + 2 * len(g) - 1
   (after group_id, rank, is_root, is_active_edge, downstream_size, total_size).
   The problem uses the encoding of Rules_fivecells.v ([[h; w]; grid row-major]); every integer is a legal cell
   value (< -1 hole, -1 no number, >= 0 number).  A grid with fewer than h * w entries stands for a nested list with
   a missing / short trailing row: the Python raises IndexError in the first double loop (before the graph call),
   and the model returns Err IndexError (ragged grids that are too long elsewhere are not representable in the flat
   encoding and are never generated).  No proofs here. *)
From Coq Require Import ZArith List Bool Arith.
From Cspuz Require Import Lib.PyErr Core.Expr Core.Program Core.Build Graph.GraphModel Graph.VarGroups
     Puzzle.PuzzleBase Puzzle.ModelBase.
Import ListNotations.
Local Open Scope nat_scope.

(* problem[y][x] >= -1, on the flat index v = y * w + x *)
Definition fc_usable (grid : list Z) (v : nat) : bool := (-1 <=? getz grid v)%Z.

(* vertex_id of the cell with flat index v: the number of usable cells before it *)
Definition fc_vid (grid : list Z) (v : nat) : nat := count (fc_usable grid) (seq 0 v).

(* the g.add_edge calls, as pairs of flat cell indices *)
Definition fc_pairs (h w : nat) (grid : list Z) : list (nat * nat) :=
  flat_map (fun '(y, x) =>
      if fc_usable grid (y * w + x) then
        (if Nat.ltb (S y) h && fc_usable grid (S y * w + x) then [(y * w + x, S y * w + x)] else []) ++
        (if Nat.ltb (S x) w && fc_usable grid (y * w + S x) then [(y * w + x, y * w + S x)] else [])
      else []) (cells h w).

Definition fc_graph (h w : nat) (grid : list Z) : graph :=
  {| nv := fc_vid grid (h * w);
     edges := map (fun '(u, v) => (fc_vid grid u, fc_vid grid v)) (fc_pairs h w grid) |}.

(* the usable orthogonal neighbours of (y, x) in the order up, down, left, right (flat indices) *)
Definition fc_nbrs (h w : nat) (grid : list Z) (y x : nat) : list nat :=
  (if Nat.ltb 0 y && fc_usable grid ((y - 1) * w + x) then [(y - 1) * w + x] else []) ++
  (if Nat.ltb (S y) h && fc_usable grid (S y * w + x) then [S y * w + x] else []) ++
  (if Nat.ltb 0 x && fc_usable grid (y * w + (x - 1)) then [y * w + (x - 1)] else []) ++
  (if Nat.ltb (S x) w && fc_usable grid (y * w + S x) then [y * w + S x] else []).

(* count_true(borders) == problem[y][x] - always_border *)
Definition fc_clue (h w : nat) (grid : list Z) (gid : list expr) (c : nat * nat) : list expr :=
  let '(y, x) := c in
  let n := getz grid (y * w + x) in
  if (0 <=? n)%Z then
    let self := at_ gid (fc_vid grid (y * w + x)) in
    let borders := map (fun u => i_ne self (at_ gid (fc_vid grid u))) (fc_nbrs h w grid y x) in
    [i_eq (count_true_nodes borders) (PyInt (n - (4 - Z.of_nat (length borders))))]
  else [].

Definition fc_clues (h w : nat) (grid : list Z) (gid : list expr) : list expr :=
  flat_map (fc_clue h w grid gid) (cells h w).

Definition solve_fivecells_model (pb : problem) : res state :=
  let h := dim pb 0 in let w := dim pb 1 in let grid := sec pb 1 in
  if Nat.ltb (length grid) (h * w) then Err IndexError
  else
    let g := fc_graph h w grid in
    match division_connected_variable_groups empty_state (Some g) None (GScalar (PyInt 5)) with
    | Err e => Err e
    | Ok (_, RGrid _ _ _) => Err OtherError        (* not reached: a graph was passed *)
    | Ok (st1, RFlat gid) =>
        let st2 := ensure st1 (fc_clues h w grid gid) in
        let m := length (edges g) in
        let bd := map (fun i => BVar (next_id st2 + i)) (seq 0 m) in
        Ok {| vars := vars st2 ++ repeat DBool m;
              keys := keys st2 ++ repeat true m;
              cons := cons st2 ++ c_borders g gid bd |}
    end.
