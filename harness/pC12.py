"""C12 — array operators and aggregate helpers have pointwise / mathematical meaning."""
import ast
import operator
import os

import vlib
import exprio

PROPS = "Props/C12.v"
RULE = ("translator: every operator / then / cond / fold_* / count_true / alldifferent method body of BoolExpr, IntExpr and the four "
        "array classes is read with `ast` into Gen/DunderTable.v (class, method, body shape with Op and operand order), together with "
        "the isinstance predicates _is_bool_like/_is_int_like/_is_bool_expr_like/_is_int_expr_like, the type-check chain of "
        "_elementwise and the is_bool_op/is_int_op lists, fail-closed; "
        "correspondence: the real operators (through CPython's own binary-operator / rich-comparison protocol), methods, "
        "cspuz.constraints.cond/then, _elementwise, count_true/fold_or/fold_and/alldifferent on nested arguments, conv2d and "
        "four_neighbors(_indices) are run on generated operands and compared with the extracted Coq model: result trees "
        "(arrays as kind + shape + list of trees), the value NotImplemented, or the exception class; "
        "search: every result of a form the property speaks about is evaluated with the extracted `eval` (and an independent "
        "Python evaluator) under random variable assignments against the pointwise / mathematical meaning computed in Python from "
        "the operands' values; ill-typed / ill-shaped uses must raise.  A case is non-trivial when it is a distinct "
        "(form, operator, operand classes, shapes, operand trees) tuple; operands are drawn from literals, None, variables, "
        "composite expressions and arrays of both kinds of every shape up to 3x3 (1-D 0..3, 2-D 0..3 x 0..3, so empty and 1xN included); "
        "hardening: (histories) every case is run as: call, operands compared with their state before, the caller changes the "
        "returned list / result.data / result.operands, operands compared again (no shared storage), same call on the same objects, "
        "same call on fresh arrays of the same shape, related helper on the same arguments (four_neighbors <-> four_neighbor_indices, "
        "conv2d and/or, fold_or/fold_and/count_true) — every later outcome must equal the model's (pure) outcome and is evaluated by the "
        "search when it differs from the first; (one-shot iterables) helper arguments written as generator / map / zip / iter / reversed / "
        "tuple / list at every nesting depth incl. top level, arrays built from tuples / generators / maps / rows, and plain containers "
        "or one-shot iterables as operands of cond / then / operators (objects of an unrelated class: must behave like None); "
        "(integers) run-time created integers outside the small-int cache as scalars, items, variable bounds, window sizes, > 256 "
        "literal items and arrays of > 256 elements; (sizes) 5x7, 7x5, 4x5, 7x7, 2x7, 1x9, 9x1, 17x16, 1-D 21/25/300, same element count "
        "with different shape, item lists of 17..257 distinct variables, conv2d windows equal to / larger than the array; (call forms) "
        "keyword arguments for cond / then / methods / conv2d / four_neighbors / _elementwise, op strings created at run time, "
        "(y, x) tuple with explicit x=None; aggregates are additionally evaluated under targeted assignments (all false, all true, "
        "exactly one variable true / false, exactly one pair of integer variables equal).")
TRUSTED = [
    "reading of the property: equality forms (==, !=) between a boolean-valued and an integer-valued operand are not required to raise "
    "(CPython falls back to identity comparison when both sides return NotImplemented); every other ill-typed use of an operator, then or cond "
    "form, and every shape mismatch between operands of the right kinds, must raise some exception",
    "CPython binary-operator protocol (Objects/abstract.c binary_op1, Objects/typeobject.c SLOT1BINFULL) and rich-comparison protocol "
    "(Objects/object.c do_richcompare) as transcribed in Array/Elementwise.v (py_arith, py_compare); validated on every run against the interpreter",
    "Core/Expr.v `eval` as the ordinary meaning of expression trees; cross-checked on every run against a separate Python evaluator (pC12.pyeval)",
    "harness/pC12.py translator (ast patterns for the method bodies) and serialisation (harness/exprio.py)",
]
ASSUMPTIONS = [
    "operands are Python bool/int literals, None, BoolVar/IntVar, BoolExpr/IntExpr trees, or the four array classes built by their constructors "
    "(shape consistent with data); other Python objects (str, float, user classes) are outside the model",
    "both operands builtin (True & False, 1 + 2) is plain Python and outside the model",
    "flatten_iterator's recursion depth (RecursionError for nestings ~1000 deep) and iterating a str are not modelled",
    "conv2d_sem is stated for window sizes >= 1; four_neighbors_sem for in-bounds cells",
    "call histories are not part of the Coq model (its functions are pure): the harness requires every repeated call, and every call after the "
    "caller changed a result it owns, to give the model's outcome for the same arguments, and the operands to be structurally unchanged",
]

ERR = {1: "IndexError", 2: "KeyError", 3: "AssertionError", 4: "TypeError", 5: "ValueError",
       6: "RecursionError", 7: "NotImplemented", 8: "Other"}

BINOPS = {"and": operator.and_, "or": operator.or_, "xor": operator.xor, "add": operator.add, "sub": operator.sub,
          "eq": operator.eq, "ne": operator.ne, "lt": operator.lt, "le": operator.le, "gt": operator.gt, "ge": operator.ge}
EQ_FORMS = ("eq", "ne")
BOOL_FORMS = ("and", "or", "xor")
INT_FORMS = ("add", "sub", "lt", "le", "gt", "ge")


# ------------------------------------------------------------------ cspuz access (imported lazily: /repo may be mutated)

def C():
    import cspuz.array as A
    import cspuz.constraints as K
    import cspuz.expr as E
    return A, K, E


def is_array(v):
    A, _, _ = C()
    return isinstance(v, (A.Array1D, A.Array2D))


class St(str):
    """optional last component of a case: HOW the call is written (keyword arguments, one-shot iterables, run-time
    strings ...).  The model sees the same request whatever the style."""


def split(case):
    if isinstance(case[-1], St):
        return case[:-1], str(case[-1])
    return case, ""


class Opaque:
    """an operand that is a plain Python container / one-shot iterable of otherwise valid items (list, tuple, generator,
    map, zip, iter, reversed).  It is not an expression or an array: for the model it is an object of an unrelated class
    (token N, like None).  A fresh object is made for every call."""

    def __init__(self, how, items):
        self.how, self.items = how, list(items)

    def make(self):
        return wrap_iter(list(self.items), self.how)


def real(v):
    return v.make() if isinstance(v, Opaque) else v


def vkind(v):
    """'bool' | 'int' | 'other': what the value denotes."""
    A, _, E = C()
    if isinstance(v, bool):
        return "bool"
    if isinstance(v, int):
        return "int"
    if isinstance(v, (E.BoolExpr, A.BoolArray1D, A.BoolArray2D)):
        return "bool"
    if isinstance(v, (E.IntExpr, A.IntArray1D, A.IntArray2D)):
        return "int"
    return "other"


def vshape(v):
    return tuple(v.shape) if is_array(v) else None


def cls_name(v):
    return type(v).__name__


def is_builtin(v):
    return v is None or isinstance(v, (bool, int))


# ------------------------------------------------------------------ wire format

def tok(v):
    A, _, _ = C()
    if isinstance(v, Opaque):
        return "N"
    if isinstance(v, (A.BoolArray1D, A.IntArray1D)):
        return "A1 %s %d %s" % ("B" if isinstance(v, A.BoolArray1D) else "I", v.shape[0], exprio.show_list(v.data))
    if isinstance(v, (A.BoolArray2D, A.IntArray2D)):
        return "A2 %s %d %d %s" % ("B" if isinstance(v, A.BoolArray2D) else "I", v.shape[0], v.shape[1], exprio.show_list(v.data))
    return exprio.show(v)


def nest_tok(n):
    if isinstance(n, (list, tuple)):
        return "L( " + "".join(nest_tok(x) + " " for x in n) + ")L"
    return tok(n)


def ser_result(r):
    """canonical form of what the implementation returned."""
    A, _, E = C()
    if r is NotImplemented:
        return ("ni",)
    if isinstance(r, list):  # four_neighbor_indices
        return ("ok", "P" + "".join(" %d %d" % (y, x) for (y, x) in r))
    if r is None or isinstance(r, (bool, int, E.Expr)) or is_array(r):
        if is_array(r) and type(r) not in (A.BoolArray1D, A.IntArray1D, A.BoolArray2D, A.IntArray2D):
            return ("ok", "untyped-array " + repr(r.shape))
        try:
            return ("ok", tok(r))
        except TypeError as ex:      # a tree with a non-expression operand (e.g. an array inside a node)
            return ("ok", "unserialisable-tree: %s" % ex.args[0][:60].split(" object at")[0])
    return ("ok", "unknown-object " + type(r).__name__)


def parse_model(reply):
    t = reply.split(" ", 2)
    if t[0] == "E" and len(t) == 2:
        c = int(t[1])
        return ("ni",) if c == 7 else ("err", ERR[c])
    if t[0] == "EXN":
        raise RuntimeError("model runner: " + reply)
    return ("ok", reply)


# ------------------------------------------------------------------ operand pools

NVARS = 40   # variable ids 0..NVARS-1: even ids are bool, odd ids are int


def bvar(i):
    _, _, E = C()
    return E.BoolVar(2 * (i % (NVARS // 2)))


def ivar(i):
    _, _, E = C()
    return E.IntVar(2 * (i % (NVARS // 2)) + 1, -3, 6)


def lbvar(k):
    """boolean variables for long item lists: as many distinct ones as wanted (ids beyond NVARS read as False / 0 in the
    random environments; the targeted environments of `search` cover them)"""
    _, _, E = C()
    return E.BoolVar(2 * k)


def livar(k):
    _, _, E = C()
    return E.IntVar(2 * k + 1, -3, 6)


def scalar_pool():
    b0, b1, b2 = bvar(0), bvar(1), bvar(2)
    i0, i1 = ivar(0), ivar(1)
    return [True, False, 0, 1, -3, 7, None, b0, i0, b1 & b2, ~b0, b1 | True, i1 + 2, -i0, b2.cond(i1, 4), i0 < i1]


SHAPES_1D = [0, 1, 2, 3]
SHAPES_2D = [(h, w) for h in range(4) for w in range(4)]


def _build(cls, data, shape, build):
    """class 6: the same array built from a list / tuple / generator / map / rows (2-D without an explicit shape)"""
    if isinstance(shape, int):
        src = {"list": lambda: data, "tuple": lambda: tuple(data), "gen": lambda: (x for x in data),
               "map": lambda: map(lambda x: x, data), "rows": lambda: iter(data)}[build]()
        return cls(src)
    h, w = shape
    if build == "rows" and h > 0:
        return cls([data[y * w:(y + 1) * w] for y in range(h)])
    if build == "gen" and h > 0:
        return cls((tuple(data[y * w:(y + 1) * w]) for y in range(h)))
    src = {"list": lambda: data, "tuple": lambda: tuple(data), "gen": lambda: (x for x in data),
           "map": lambda: map(lambda x: x, data), "rows": lambda: iter(data)}[build]()
    return cls(src, tuple(shape))


def mk_array(kind, shape, variant, rng=None, build="list"):
    """variant 0: consecutive variables; 1: variables from another offset; 2: composite / literal items;
       3: items with integers outside CPython's small-int cache (created at run time) and wide-domain variables"""
    A, _, E = C()
    n = shape if isinstance(shape, int) else shape[0] * shape[1]
    if kind == "bool":
        if variant == 0:
            data = [bvar(3 + i) for i in range(n)]
        elif variant == 1:
            data = [bvar(12 + i) for i in range(n)]
        elif variant == 3:
            data = [[ivar(i) < big(1000), bvar(i), ivar(i + 1) + big(300) >= big(302), big(-1000) != wide(i)][i % 4] for i in range(n)]
        else:
            data = [[bvar(3 + i) & bvar(5 + i), ~bvar(i), True, bvar(i) | bvar(i + 1), False][(i + variant) % 5] for i in range(n)]
        return _build(A.BoolArray1D if isinstance(shape, int) else A.BoolArray2D, data, shape, build)
    if variant == 0:
        data = [ivar(3 + i) for i in range(n)]
    elif variant == 1:
        data = [ivar(12 + i) for i in range(n)]
    elif variant == 3:
        data = [[big(257), ivar(i) + big(4096), big(-6), wide(i), ivar(i) - big(1 << 40), big(1000)][i % 6] for i in range(n)]
    else:
        data = [[ivar(3 + i) + ivar(i), -ivar(i), 5, ivar(i) - 2, bvar(i).cond(ivar(i), 0)][(i + variant) % 5] for i in range(n)]
    return _build(A.IntArray1D if isinstance(shape, int) else A.IntArray2D, data, shape, build)


def big(v):
    """an int object created at run time: outside the small-int cache (< -5 or > 256) two equal values are different objects"""
    return int(str(v))


def wide(i):
    """integer variables whose bounds lie outside the small-int cache (ids 35, 37, 39)"""
    _, _, E = C()
    return E.IntVar(35 + 2 * (i % 3), big(-300 - i % 3), big(4096 + i % 3))


def array_pool(variants=(0,)):
    out = []
    for kind in ("bool", "int"):
        for sh in SHAPES_1D + SHAPES_2D:
            for v in variants:
                out.append(mk_array(kind, sh, v))
    return out


# ------------------------------------------------------------------ case generation
# a case is (form, detail...) ; see run_case / model_request

def gen_cases(ctx):
    rng = ctx.rng
    scal = scalar_pool()
    arrs0 = array_pool((0,))
    arrs = array_pool((0, 1, 2) if ctx.thorough else (0, 2))
    cases = []
    ops = list(BINOPS)
    # --- binary operators: scalar x array, array x scalar (all), array x array equal shapes (all kind combinations)
    for o in ops:
        for s in scal:
            for a in arrs0:
                cases.append(("bin", o, s, a))
                cases.append(("bin", o, a, s))
    for sh in SHAPES_1D + SHAPES_2D:
        for ka in ("bool", "int"):
            for kb in ("bool", "int"):
                for (va, vb) in ((0, 1), (2, 0), (1, 2)):
                    a, b = mk_array(ka, sh, va), mk_array(kb, sh, vb)
                    for o in ops:
                        cases.append(("bin", o, a, b))
    for a in arrs0:
        for o in ops:
            cases.append(("bin", o, a, a))                       # same object on both sides
    # --- valid stream: operands of the sort the operator wants, every shape, several operand trees
    good_scal = {"bool": [True, False, bvar(6), bvar(7) & bvar(8), ~bvar(9)],
                 "int": [0, 4, -2, ivar(6), ivar(7) + ivar(8), bvar(6).cond(ivar(9), 1)]}
    for o in ops:
        sorts = ("bool",) if o in BOOL_FORMS else ("int",) if o in INT_FORMS else ("bool", "int")
        for k in sorts:
            for sh in SHAPES_1D + SHAPES_2D:
                for v in ((0, 1, 2) if ctx.thorough else (1, 2)):
                    a = mk_array(k, sh, v)
                    for s in good_scal[k]:
                        cases.append(("bin", o, a, s))
                        cases.append(("bin", o, s, a))
                    cases.append(("bin", o, a, mk_array(k, sh, (v + 1) % 3)))
    for sh in SHAPES_1D + SHAPES_2D:
        for v in (0, 1, 2):
            c, t, f = mk_array("bool", sh, v), mk_array("int", sh, (v + 1) % 3), mk_array("int", sh, (v + 2) % 3)
            for cc in [c] + good_scal["bool"]:
                for tt in [t] + good_scal["int"][:4]:
                    for ff in [f] + good_scal["int"][2:]:
                        if is_array(cc) or is_array(tt) or is_array(ff):
                            cases.append(("cond", cc, tt, ff))
                            if not is_builtin(cc):
                                cases.append(("call", "cond", cc, (tt, ff)))
            for x in [c] + good_scal["bool"]:
                for y in [mk_array("bool", sh, (v + 1) % 3)] + good_scal["bool"]:
                    if is_array(x) or is_array(y):
                        cases.append(("then", x, y))
                        if not is_builtin(x):
                            cases.append(("call", "then", x, (y,)))
    # --- shape mismatches (malformed stream)
    nmis = 1500 if ctx.thorough else 400
    for _ in range(nmis):
        a, b = rng.choice(arrs), rng.choice(arrs)
        cases.append(("bin", rng.choice(ops), a, b))
    # --- scalar x scalar (at least one cspuz object), incl. same object
    for o in ops:
        for s in scal:
            for t in scal:
                if not (is_builtin(s) and is_builtin(t)):
                    cases.append(("bin", o, s, t))
            if not is_builtin(s):
                cases.append(("bin", o, s, s))
    # --- unary
    for v in scal + arrs:
        if not is_builtin(v):
            cases.append(("un", "INV", v))
            cases.append(("un", "NEG", v))
    # --- methods called explicitly
    everything = scal + arrs0
    for self in scal + arrs:
        if is_builtin(self):
            continue
        k = vkind(self)
        if k == "bool":
            for m in ("fold_or", "fold_and", "count_true"):
                cases.append(("call", m, self, ()))
            for y in everything:
                cases.append(("call", "then", self, (y,)))
            for m in ("__and__", "__rand__", "__or__", "__ror__", "__xor__", "__rxor__", "__eq__", "__ne__"):
                for y in rng.sample(everything, 8):
                    cases.append(("call", m, self, (y,)))
            for _ in range(40):
                cases.append(("call", "cond", self, (rng.choice(everything), rng.choice(everything))))
            for y in scal:
                cases.append(("call", "cond", self, (y, 2)))
                cases.append(("call", "cond", self, (ivar(7), y)))
        else:
            if is_array(self):
                cases.append(("call", "alldifferent", self, ()))
            for m in ("__add__", "__radd__", "__sub__", "__rsub__", "__eq__", "__ne__", "__lt__", "__le__", "__gt__", "__ge__"):
                for y in rng.sample(everything, 6):
                    cases.append(("call", m, self, (y,)))
    # --- then / cond with arrays of the same shape, every kind combination
    for sh in SHAPES_1D + SHAPES_2D:
        for kc in ("bool", "int"):
            for kt in ("bool", "int"):
                c, t = mk_array(kc, sh, 0), mk_array(kt, sh, 1)
                cases.append(("then", c, t))
                if kc == "bool":
                    cases.append(("call", "then", c, (t,)))
                for f in (mk_array("int", sh, 2), mk_array("bool", sh, 2), 3, ivar(1), True, bvar(1)):
                    cases.append(("cond", c, t, f))
                    if kc == "bool":
                        cases.append(("call", "cond", c, (t, f)))
                    cases.append(("cond", bvar(9), t, f))
                    cases.append(("cond", bvar(9), f, t))
                    cases.append(("call", "cond", bvar(9) | bvar(8), (t, f)))
                    cases.append(("cond", True, t, f))
                for s in scal:
                    cases.append(("cond", c, s, t))
                    cases.append(("cond", c, t, s))
                    cases.append(("cond", s, t, t))
                    cases.append(("then", c, s))
                    cases.append(("then", s, c))
    # --- cond / then as functions on scalars, and random triples (incl. shape mismatches)
    for x in scal:
        for y in scal:
            cases.append(("then", x, y))
            for z in (1, ivar(2), True, bvar(3), None):
                cases.append(("cond", x, y, z))
                cases.append(("cond", x, z, y))
    for _ in range(4000 if ctx.thorough else 800):
        cases.append(("cond", rng.choice(everything), rng.choice(everything), rng.choice(everything)))
        cases.append(("then", rng.choice(everything), rng.choice(everything)))
    # --- _elementwise called directly: every Op, arities 0..4, every shape argument
    _, _, E = C()
    for o in E.Op:
        for n in range(0, 5):
            for _ in range(6 if ctx.thorough else 3):
                opsl = [rng.choice(everything) for _ in range(n)]
                shp = rng.choice([vshape(x) for x in opsl if is_array(x)] + [(2,), (1, 2)])
                cases.append(("elem", o.name, shp, tuple(opsl)))
    # --- aggregate helpers on nests
    def nest(depth, leaves):
        r = rng.random()
        if depth == 0 or r < 0.35:
            return rng.choice(leaves)
        return [nest(depth - 1, leaves) for _ in range(rng.choice([0, 1, 1, 2, 2, 3]))]
    bool_leaves = [True, False, bvar(0), bvar(1), bvar(2) & bvar(3), ~bvar(4), bvar(5) | False] + \
                  [mk_array("bool", sh, v) for sh in (0, 1, 3, (0, 2), (1, 3), (2, 2), (3, 1)) for v in (0, 2)]
    int_leaves = [0, 1, 5, -2, ivar(0), ivar(1), ivar(2) + 1, -ivar(3), bvar(0).cond(ivar(1), 2)] + \
                 [mk_array("int", sh, v) for sh in (0, 1, 3, (0, 2), (1, 3), (2, 2), (3, 1)) for v in (0, 2)]
    mixed = bool_leaves + int_leaves + [None]
    nh = 1500 if ctx.thorough else 350
    for which in ("CT", "FO", "FA", "AD"):
        good = int_leaves if which == "AD" else bool_leaves
        cases.append(("h", which, ()))
        cases.append(("h", which, ([],)))
        cases.append(("h", which, ([[[]]], ())))
        for _ in range(nh):
            nargs = rng.choice([0, 1, 1, 2, 3])
            bad = rng.random() < 0.2
            cases.append(("h", which, tuple(nest(3, mixed if bad else good) for _ in range(nargs))))
        # constants only
        for _ in range(40):
            lits = [True, False] if which != "AD" else [0, 1, 2, 3]
            cases.append(("h", which, tuple(nest(2, lits) for _ in range(rng.choice([1, 2, 3])))))
    # --- conv2d
    conv_shapes = SHAPES_2D + ([(4, 4), (2, 5), (5, 1)] if ctx.thorough else [(4, 2)])
    for sh in conv_shapes:
        for v in (0, 2):
            a = mk_array("bool", sh, v)
            for kh in range(-1, 6):
                for kw in range(-1, 6):
                    for o in ("and", "or"):
                        cases.append(("conv", a, kh, kw, o))
            cases.append(("conv", a, 1, 1, "xor"))
    # --- four_neighbors / four_neighbor_indices
    for sh in SHAPES_2D + [(1, 5), (5, 1), (4, 3)]:
        for kind in ("bool", "int"):
            a = mk_array(kind, sh, 0)
            for y in range(-2, sh[0] + 2):
                for x in range(-2, sh[1] + 2):
                    for form in ("2", "T"):
                        cases.append(("fni", a, (form, y, x)))
                        cases.append(("fn", a, (form, y, x)))
            cases.append(("fni", a, ("1", 0)))
            cases.append(("fn", a, ("1", 0)))
            cases.append(("fni", a, ("X", 0)))
            cases.append(("fn", a, ("X", 0)))
    cases.extend(gen_hard_cases(ctx))
    return cases


# ---- hardening round: one-shot iterables (1), integers outside the small-int cache (2), larger sizes (5),
#      rare ways of writing the call (6).  Histories (3) are applied to EVERY case by run_with_history.

IT_STYLES = [("list", "tuple", "gen"),       # the original alternation
             ("gen", "gen", "gen"), ("map", "list", "map"), ("zip", "tuple", "zip"), ("iter", "reversed", "list"),
             ("tuple", "gen", "iter"), ("list", "zip", "reversed"), ("gen", "list", "tuple"), ("reversed", "map", "gen")]


def wrap_iter(items, how):
    if how == "list":
        return items
    if how == "tuple":
        return tuple(items)
    if how == "gen":
        return (x for x in items)
    if how == "map":
        return map(lambda x: x, items)
    if how == "iter":
        return iter(items)
    if how == "reversed":
        return reversed(items[::-1])
    if how == "zip":
        if len(items) >= 2 and len(items) % 2 == 0:
            return zip(items[0::2], items[1::2])       # yields pairs; flattening restores the order
        return (x for x in items)
    raise ValueError(how)


LARGE_2D = [(5, 7), (7, 5), (4, 5), (7, 7), (2, 7), (1, 9), (9, 1)]


def gen_hard_cases(ctx):
    rng = ctx.rng
    A, K, E = C()
    cases = []
    ops = list(BINOPS)
    builds = ("list", "tuple", "gen", "map", "rows")

    def sorts_of(o):
        return ("bool",) if o in BOOL_FORMS else ("int",) if o in INT_FORMS else ("bool", "int")

    # (5)(6) larger arrays, built from every container form; every operator; array/array, array/scalar, scalar/array
    big_scal = {"bool": [True, bvar(6), ivar(2) < big(1000)],
                "int": [big(257), big(-6), big(1000), big(4096), big(-1000), big(1 << 40), wide(0), wide(1) + big(300), ivar(6)]}
    shapes = LARGE_2D + [25, 21] + ([(8, 9), 40] if ctx.thorough else [])
    for n, sh in enumerate(shapes):
        for o in ops:
            for k in sorts_of(o):
                a = mk_array(k, sh, n % 4, build=builds[n % 5])
                b = mk_array(k, sh, (n + 1) % 4, build=builds[(n + 2) % 5])
                cases.append(("bin", o, a, b))
                cases.append(("bin", o, b, a))
                s = big_scal[k][(n + len(o)) % len(big_scal[k])]
                cases.append(("bin", o, a, s))
                cases.append(("bin", o, s, b))
            wrong = "int" if o in BOOL_FORMS else "bool"
            cases.append(("bin", o, mk_array(wrong, sh, 0), mk_array("bool" if wrong == "int" else "int", sh, 1)))
        c, t, f = mk_array("bool", sh, n % 4), mk_array("int", sh, (n + 1) % 4, build=builds[(n + 1) % 5]), mk_array("int", sh, 3)
        cases.append(("cond", c, t, f))
        cases.append(("cond", c, big(1000), f))
        cases.append(("cond", bvar(2), t, big(-1000)))
        cases.append(("call", "cond", c, (t, wide(2))))
        cases.append(("then", c, mk_array("bool", sh, 3)))
        cases.append(("call", "then", c, (mk_array("bool", sh, 2),)))
        cases.append(("un", "INV", c))
        cases.append(("un", "NEG", f))
        for m in ("fold_or", "fold_and", "count_true"):
            cases.append(("call", m, c, ()))
        cases.append(("call", "alldifferent", f, ()))
    # (2) every small shape with run-time big integers as scalars and as items
    for sh in SHAPES_1D + SHAPES_2D:
        for o in ops:
            for k in sorts_of(o):
                a = mk_array(k, sh, 3)
                for s in (big_scal[k][:2] if not ctx.thorough else big_scal[k]):
                    cases.append(("bin", o, a, s))
                    cases.append(("bin", o, s, a))
                cases.append(("bin", o, a, mk_array(k, sh, 0)))
    for s in big_scal["int"]:
        for t in big_scal["int"][:4] + [ivar(0), ivar(1) + 1]:
            for o in INT_FORMS + EQ_FORMS:
                if not (is_builtin(s) and is_builtin(t)):
                    cases.append(("bin", o, s, t))
                    cases.append(("bin", o, t, s))
        cases.append(("cond", bvar(1), s, big(300)))
        cases.append(("cond", bvar(1), big(300), s))
        cases.append(("call", "cond", bvar(3) & bvar(4), (s, s)))
    # (5) more than 256 elements, and same element count with a different shape (1-D vs 2-D, transposed)
    for (sa, sb) in [(300, 300), ((17, 16), (17, 16)), ((5, 7), (7, 5)), (35, (5, 7)), ((5, 7), 35), ((1, 9), (9, 1)), (9, (1, 9)),
                     ((7, 7), (7, 7)), ((2, 7), (7, 2)), (300, 299), ((17, 16), (16, 17)), (272, (17, 16))]:
        for (o, k) in (("add", "int"), ("and", "bool"), ("eq", "int"), ("ne", "bool"), ("lt", "int")):
            cases.append(("bin", o, mk_array(k, sa, 0), mk_array(k, sb, 1)))
        cases.append(("cond", mk_array("bool", sa, 0), mk_array("int", sb, 0), 1))
        cases.append(("cond", bvar(0), mk_array("int", sa, 0), mk_array("int", sb, 1)))
        cases.append(("then", mk_array("bool", sa, 1), mk_array("bool", sb, 0)))
    # (6) keyword arguments
    for sh in [2, (2, 3), (1, 1), (0, 2), 0, (5, 7)]:
        c, c2, t, f = mk_array("bool", sh, 0), mk_array("bool", sh, 2), mk_array("int", sh, 1), mk_array("int", sh, 2)
        for (cc, tt, ff) in ((c, t, f), (c, 3, f), (bvar(1), t, 0), (True, t, f), (c, ivar(1), ivar(2)), (c, c2, f), (t, t, f), (c, t, None)):
            cases.append(("cond", cc, tt, ff, St("kw")))
            if not is_builtin(cc) and vkind(cc) == "bool":
                cases.append(("call", "cond", cc, (tt, ff), St("kw")))
        for (x, y) in ((c, c2), (c, True), (bvar(1), c), (False, c2), (c, t), (t, c), (c, None)):
            cases.append(("then", x, y, St("kw")))
            if not is_builtin(x) and vkind(x) == "bool":
                cases.append(("call", "then", x, (y,), St("kw")))
        for m in ("__and__", "__ror__", "__xor__", "__eq__", "__ne__"):
            cases.append(("call", m, c, (c2,), St("kw")))
            cases.append(("call", m, bvar(2), (c2,), St("kw")))
        for m in ("__add__", "__rsub__", "__lt__", "__ge__", "__eq__"):
            cases.append(("call", m, t, (f,), St("kw")))
            cases.append(("call", m, ivar(2), (big(1000),), St("kw")))
        shp = (sh,) if isinstance(sh, int) else sh
        cases.append(("elem", "ADD", shp, (t, f), St("kw")))
        cases.append(("elem", "IF", shp, (c, t, 2), St("kw")))
        cases.append(("elem", "NOT", shp, (c,), St("kw")))
    for x in (bvar(0), bvar(1) & bvar(2), True):
        for y in (bvar(3), False, ivar(0), None):
            cases.append(("then", x, y, St("kw")))
            cases.append(("cond", x, ivar(0), y, St("kw")))
    # (1) plain containers / one-shot iterables where an array or a scalar is wanted (cond, then, operators): they are
    #     objects of an unrelated class
    for how in ("gen", "map", "zip", "iter", "reversed", "list", "tuple"):
        ob = Opaque(how, [bvar(0), bvar(1)])
        oi = Opaque(how, [ivar(0), ivar(1)])
        b2, i2 = mk_array("bool", 2, 0), mk_array("int", 2, 0)
        for (cc, tt, ff) in ((ob, i2, 0), (b2, oi, 0), (b2, i2, oi), (bvar(2), oi, 1), (bvar(2), 1, oi), (ob, 1, 2)):
            cases.append(("cond", cc, tt, ff))
            if not isinstance(cc, Opaque):
                cases.append(("call", "cond", cc, (tt, ff)))
        for (x, y) in ((ob, b2), (b2, ob), (bvar(2), ob), (ob, bvar(2)), (True, ob)):
            cases.append(("then", x, y))
            if not isinstance(x, Opaque) and not is_builtin(x):
                cases.append(("call", "then", x, (y,)))
        for o in ops:
            for (l, r) in ((ob, b2), (b2, ob), (oi, i2), (i2, oi), (bvar(2), ob), (oi, ivar(2))):
                cases.append(("bin", o, l, r))
    # (1) aggregate helpers: every way of writing the nesting, at top level and nested
    def nest(depth, leaves, top=False):
        r = rng.random()
        if not top and (depth == 0 or r < 0.3):
            return rng.choice(leaves)
        return [nest(depth - 1, leaves) for _ in range(rng.choice([0, 1, 2, 2, 3, 4]))]
    b33, i33 = mk_array("bool", (3, 3), 0), mk_array("int", (3, 3), 0)
    bool_leaves = [True, False, bvar(0), bvar(1), bvar(2) & bvar(3), ~bvar(4), ivar(0) < big(1000)] + \
                  [mk_array("bool", sh, v, build=b) for (sh, v, b) in ((0, 0, "gen"), (2, 2, "tuple"), ((1, 3), 0, "rows"), ((2, 2), 3, "map"), ((0, 2), 0, "list"))] + \
                  [K.then(b33, mk_array("bool", (3, 3), 1)), ~b33[0], i33 < 2, b33.conv2d(2, 2, "or")]
    int_leaves = [0, 1, big(1000), big(-7), big(1000), ivar(0), ivar(1), ivar(2) + big(257), -ivar(3), wide(0)] + \
                 [mk_array("int", sh, v, build=b) for (sh, v, b) in ((0, 0, "gen"), (2, 2, "tuple"), ((1, 3), 0, "rows"), ((2, 2), 3, "map"), ((0, 2), 0, "list"))] + \
                 [b33.cond(i33, 0), K.cond(bvar(1), i33[1], big(300)), -i33[2]]
    mixed = bool_leaves + int_leaves + [None]
    nh = 120 if ctx.thorough else 30
    for which in ("CT", "FO", "FA", "AD"):
        good = int_leaves if which == "AD" else bool_leaves
        arr = i33 if which == "AD" else b33
        cells = [(y, x) for y in range(3) for x in range(3)]
        for st in range(1, len(IT_STYLES)):
            sty = St("it%d" % st)
            cases.append(("h", which, ([],), sty))
            cases.append(("h", which, ([[], [[]]], []), sty))
            cases.append(("h", which, ([arr[p] for p in cells],), sty))                       # count_true(b[p] for p in cells)
            cases.append(("h", which, ([arr[p] for p in cells[:3]], [arr[p] for p in cells[3:]]), sty))
            cases.append(("h", which, ([[arr[p], arr[q]] for (p, q) in zip(cells[:4], cells[4:8])],), sty))
            cases.append(("h", which, (good[0], [arr[0], [arr[1, 0:2], good[1]]], good[2]), sty))
            for _ in range(nh):
                nargs = rng.choice([1, 1, 2, 3])
                bad = rng.random() < 0.15
                cases.append(("h", which, tuple(nest(3, mixed if bad else good, top=(j == 0)) for j in range(nargs)), sty))
            for _ in range(6):
                lits = [True, False] if which != "AD" else [0, 1, big(300), big(300), big(-9)]
                cases.append(("h", which, tuple(nest(2, lits, top=True) for _ in range(rng.choice([1, 2]))), sty))
        # (5) long argument lists of distinct variables (every position matters), (2) more than 256 literal items
        for (n, st) in ((17, 1), (25, 0), (30, 2), (33, 3), (64, 1), (100, 5), (257, 1)):
            vs = [livar(k) for k in range(min(n, 64))] if which == "AD" else [lbvar(k) for k in range(n)]
            cases.append(("h", which, (vs,), St("it%d" % st)))
            cases.append(("h", which, (vs[:5], [vs[5:n // 2], [vs[n // 2:]]]), St("it%d" % st)))
            cases.append(("h", which, tuple(vs), St("it%d" % st)))
            if which != "AD":
                cases.append(("call", {"CT": "count_true", "FO": "fold_or", "FA": "fold_and"}[which], A.BoolArray1D(vs), ()))
            else:
                cases.append(("call", "alldifferent", A.IntArray1D(vs), ()))
        long_items = [good[i % 7] for i in range(30)]
        for st in (0, 1, 2, 3):
            cases.append(("h", which, (long_items,), St("it%d" % st)))
            cases.append(("h", which, tuple(long_items), St("it%d" % st)))
        if which != "AD":
            cases.append(("h", which, ([True] * 300,), St("it1")))
            cases.append(("h", which, ([True] * 300 + [bvar(0)], [False] * 3), St("it2")))
            cases.append(("h", which, ([bvar(i) for i in range(20)] * 14,), St("it1")))
            cases.append(("h", which, (mk_array("bool", (5, 7), 2), mk_array("bool", 25, 0)), St("it5")))
        else:
            cases.append(("h", which, ([big(1000), big(1000)],), St("it1")))
            cases.append(("h", which, ([big(1000), big(1001), big(-1000)],), St("it3")))
            cases.append(("h", which, (list(range(250, 262)),), St("it2")))
            cases.append(("h", which, (list(range(250, 262)) + [big(255), big(260)],), St("it1")))
            cases.append(("h", which, (mk_array("int", (5, 7), 3), mk_array("int", 25, 0)), St("it5")))
    # (5)(6) conv2d: larger arrays, windows larger than / equal to the array, non-square; keyword / run-time string forms
    for n, sh in enumerate(LARGE_2D + [(3, 3), (2, 3), (1, 1), (0, 3)]):
        h, w = sh
        a = mk_array("bool", sh, n % 3 if n % 3 != 1 else 3, build=builds[n % 5])
        wins = {(1, 1), (1, 2), (2, 1), (2, 2), (2, 3), (3, 2), (1, w), (h, 1), (h, w), (h + 1, w), (h, w + 1), (h + 1, 1), (1, w + 1),
                (h + 3, w + 3), (h - 1, w), (h, w - 1), (5, 7), (7, 5), (0, 1), (1, 0), (-1, 2), (big(1000), 1), (1, big(1000)), (3, 1), (1, 3)}
        for (kh, kw) in sorted(wins):
            for sty in ("", "kw", "rt", "kwrt"):
                o = ("and", "or")[(kh + kw + len(sty)) % 2]
                cases.append(("conv", a, kh, kw, o) + ((St(sty),) if sty else ()))
        for o in ("xor", "AND", "andor", None, 0):
            cases.append(("conv", a, 1, 1, o, St("kw")))
    # (5)(6) four_neighbors: larger boards, every cell, every way of writing the coordinates
    for sh in LARGE_2D + [(2, 2), (3, 3), (1, 1), (0, 0)]:
        for kind in ("bool", "int"):
            a = mk_array(kind, sh, 0 if kind == "bool" else 3)
            for y in range(-1, sh[0] + 1):
                for x in range(-1, sh[1] + 1):
                    for (form, sty) in (("2", ""), ("T", ""), ("2", "kw"), ("T", "kw"), ("T", "xnone")):
                        if sh[0] * sh[1] > 9 and sty == "" and (y + x) % 2:
                            continue
                        tail = (St(sty),) if sty else ()
                        cases.append(("fni", a, (form, y, x)) + tail)
                        cases.append(("fn", a, (form, y, x)) + tail)
            for sty in ("kw", "xnone"):
                cases.append(("fni", a, ("1", 0), St(sty)))
                cases.append(("fn", a, ("1", 0), St(sty)))
                cases.append(("fni", a, ("X", 0), St("kw")))
                cases.append(("fn", a, ("X", 0), St("kw")))
    return cases


def fn_call_args(form):
    if form[0] == "2":
        return (form[1], form[2])
    if form[0] == "T":
        return ((form[1], form[2]),)
    if form[0] == "1":
        return (form[1],)
    return ((0, 0), form[1])


def as_py_nest(n, depth=0, style=0):
    """lists become lists / tuples / generators / map / zip / iter / reversed objects, chosen by nesting depth from
    IT_STYLES[style] (all are iterables for flatten_iterator; style 0 is list / tuple / generator)."""
    if isinstance(n, (list, tuple)):
        items = [as_py_nest(x, depth + 1, style) for x in n]
        return wrap_iter(items, IT_STYLES[style][depth % 3])
    return n


def model_request(case):
    case, _ = split(case)
    f = case[0]
    if f == "bin":
        _, o, a, b = case
        return "BIN %s %d %s %s" % (o, 1 if a is b else 0, tok(a), tok(b))
    if f == "un":
        return "UN %s %s" % (case[1], tok(case[2]))
    if f == "call":
        _, m, self, args = case
        return "CALL %s %s%s" % (m, tok(self), "".join(" " + tok(x) for x in args))
    if f == "cond":
        return "COND %s %s %s" % (tok(case[1]), tok(case[2]), tok(case[3]))
    if f == "then":
        return "THEN %s %s" % (tok(case[1]), tok(case[2]))
    if f == "elem":
        _, o, shp, opsl = case
        s = "S1 %d" % shp[0] if len(shp) == 1 else "S2 %d %d" % shp
        return "ELEM %s %s%s" % (o, s, "".join(" " + tok(x) for x in opsl))
    if f == "h":
        return "H %s%s" % (case[1], "".join(" " + nest_tok(n) for n in case[2]))
    if f == "conv":
        _, a, kh, kw, o = case
        return "CONV %d %d %s %d %d %s" % (a.shape[0], a.shape[1], exprio.show_list(a.data), kh, kw, o)
    if f == "fni":
        _, a, form = case
        return "FNI %d %d %s" % (a.shape[0], a.shape[1], " ".join(str(x) for x in form))
    if f == "fn":
        _, a, form = case
        A, _, _ = C()
        return "FN %s %d %d %s %s" % ("B" if isinstance(a, A.BoolArray2D) else "I", a.shape[0], a.shape[1],
                                      exprio.show_list(a.data), " ".join(str(x) for x in form))
    raise ValueError(f)


def impl_thunk(case):
    A, K, E = C()
    case, sty = split(case)
    f = case[0]
    if f == "bin":
        _, o, a, b = case
        return lambda: BINOPS[o](real(a), real(b))
    if f == "un":
        return lambda: (operator.invert if case[1] == "INV" else operator.neg)(case[2])
    if f == "call":
        _, m, self, args = case
        if sty == "kw":
            names = {"cond": ("t", "f"), "then": ("other",)}.get(m, ("other",))
            return lambda: getattr(self, m)(**{k: real(v) for (k, v) in zip(names, args)})
        return lambda: getattr(self, m)(*[real(x) for x in args])
    if f == "cond":
        if sty == "kw":
            return lambda: K.cond(c=case[1], t=case[2], f=case[3])
        return lambda: K.cond(real(case[1]), real(case[2]), real(case[3]))
    if f == "then":
        if sty == "kw":
            return lambda: K.then(x=case[1], y=case[2])
        return lambda: K.then(real(case[1]), real(case[2]))
    if f == "elem":
        _, o, shp, opsl = case
        if sty == "kw":
            return lambda: A._elementwise(op=E.Op[o], shape=shp, operands=list(opsl))
        return lambda: A._elementwise(E.Op[o], shp, list(opsl))
    if f == "h":
        fn = {"CT": K.count_true, "FO": K.fold_or, "FA": K.fold_and, "AD": K.alldifferent}[case[1]]
        style = int(sty[2:]) if sty.startswith("it") else 0
        return lambda: fn(*[as_py_nest(n, 0, style) for n in case[2]])
    if f == "conv":
        _, a, kh, kw, o = case
        if "rt" in sty and isinstance(o, str):
            o = "".join(list(o))          # an equal string that is a different object from the literal in the source
        if "kw" in sty:
            return lambda: a.conv2d(height=kh, width=kw, op=o)
        return lambda: a.conv2d(kh, kw, o)
    if f in ("fni", "fn"):
        meth = getattr(case[1], "four_neighbor_indices" if f == "fni" else "four_neighbors")
        args = fn_call_args(case[2])
        if sty == "kw":
            return lambda: meth(**dict(zip(("y", "x"), args)))
        if sty == "xnone" and len(args) == 1:
            return lambda: meth(args[0], None)
        return lambda: meth(*args)
    raise ValueError(f)


def run_case_raw(case):
    """run the implementation, return (canonical outcome, raw object or None)."""
    th = impl_thunk(case)
    try:
        r = th()
    except BaseException as ex:  # noqa
        if isinstance(ex, (KeyboardInterrupt, SystemExit)):
            raise
        return ("err", vlib.err_name(ex)), None
    return ser_result(r), r


# ------------------------------------------------------------------ histories (input class 3)

HIST2 = "second-call: second call with the same arguments, after the caller changed the list / .data / .operands of the first result"
HIST3 = "fresh-arrays: call with fresh arrays of the same shape and items, after the caller changed the first result"


def operand_ids(case):
    """ids of every array / expression object reachable from the operands of a case"""
    _, _, E = C()
    core, _ = split(case)
    seen = set()

    def walk(v):
        if isinstance(v, (list, tuple)):
            for x in v:
                walk(x)
        elif isinstance(v, Opaque):
            walk(v.items)
        elif id(v) in seen:
            return
        elif is_array(v):
            seen.add(id(v))
            for x in v.data:
                walk(x)
        elif isinstance(v, E.Expr):
            seen.add(id(v))
            for x in v.operands:
                walk(x)
    walk(core[1:])
    return seen


def mutate_result(r, k, protected):
    """what a caller may do with a result it owns: change the returned list, the .data of a returned array, the
    .operands of a returned (new) expression node.  Returns (description, the list, its former content), or None when
    nothing was changed."""
    A, _, E = C()
    if id(r) in protected:
        return None                      # the result IS one of the operands (e.g. BoolExpr.fold_or returns self)
    if isinstance(r, list):
        lst, sent, what = r, (0, 0), "returned list"
    elif is_array(r) and isinstance(getattr(r, "data", None), list):
        lst, sent, what = r.data, (True if isinstance(r, (A.BoolArray1D, A.BoolArray2D)) else 0), "result.data"
    elif isinstance(r, E.Expr) and not r.is_variable() and isinstance(r.operands, list):
        lst, sent, what = r.operands, (True if isinstance(r, E.BoolExpr) else 0), "result.operands"
    else:
        return None
    saved = list(lst)
    if not lst:
        lst.append(sent)
        return what + ".append(x)", lst, saved
    if k % 3 == 0:
        del lst[:]
        return what + ".clear()", lst, saved
    if k % 3 == 1:
        lst.append(lst[0])
        return what + ".append(first)", lst, saved
    lst.pop(0)
    lst.reverse()
    return what + ".pop(0); .reverse()", lst, saved


def clone_case(case):
    """the same case with every array operand replaced by a fresh array object (fresh data list, fresh shape tuple made of
    run-time integers) holding the same items; the same object is cloned once."""
    memo = {}

    def cl(v):
        if isinstance(v, St):
            return v
        if isinstance(v, list):
            return [cl(x) for x in v]
        if isinstance(v, tuple):
            return tuple(cl(x) for x in v)
        if isinstance(v, Opaque):
            return Opaque(v.how, cl(v.items))
        if is_array(v):
            if id(v) not in memo:
                if len(v.shape) == 1:
                    memo[id(v)] = type(v)(list(v.data))
                else:
                    memo[id(v)] = type(v)(list(v.data), tuple(int(str(n)) for n in v.shape))
            return memo[id(v)]
        return v
    return cl(case)


def _outcome(thunk):
    try:
        r = thunk()
    except BaseException as ex:  # noqa
        if isinstance(ex, (KeyboardInterrupt, SystemExit)):
            raise
        return ("err", vlib.err_name(ex)), None
    return ser_result(r), r


def freeze(r):
    """a shallow copy of a result (own list / .data / .operands): what the caller saw at that moment"""
    import copy
    _, _, E = C()
    if isinstance(r, list):
        return list(r)
    if is_array(r) and isinstance(getattr(r, "data", None), list):
        c = copy.copy(r)
        c.data = list(r.data)
        return c
    if isinstance(r, E.Expr) and not r.is_variable() and isinstance(r.operands, list):
        c = copy.copy(r)
        c.operands = list(r.operands)
        return c
    return r


HISTS = "related-call: call of a related helper on the same arguments, after the caller changed the result of %s"


def siblings(case):
    """related calls on the same objects (they may share internal state with the case's function)"""
    core, sty = split(case)
    tail = (St(sty),) if sty else ()
    f = core[0]
    if f in ("fni", "fn"):
        return [(("fn" if f == "fni" else "fni"),) + core[1:] + tail]
    if f == "conv" and core[4] in ("and", "or"):
        return [core[:4] + ("or" if core[4] == "and" else "and",) + tail]
    if f == "call" and core[1] in ("fold_or", "fold_and", "count_true") and is_array(core[2]):
        return [("call", m, core[2], ()) for m in ("fold_or", "fold_and", "count_true") if m != core[1]]
    if f == "h":
        return [("h", w) + core[2:] + tail for w in ("CT", "FO", "FA") if w != core[1] and core[1] != "AD"][:1]
    return []


def run_with_history(case, k, req=None):
    """first call; operands must be unchanged; the caller changes the result; operands must still be unchanged (no
    aliasing); second call on the same objects; third call on fresh arrays of the same shape; finally the caller's
    change is undone (the first result is what `search` evaluates).
    Returns (io, raw, extras, operand_changes): extras = [(tag, io_n, raw_n)], operand_changes = [(tag, before, after)]."""
    if req is None:
        req = model_request(case)
    io, raw = _outcome(impl_thunk(case))
    changes = []
    s1 = model_request(case)
    if s1 != req:
        changes.append(("the call changed its operands", req, s1))
    mut = None
    sibs = [(sc, _outcome(impl_thunk(sc))[0]) for sc in siblings(case)] if raw is not None else []
    if raw is not None:
        try:
            mut = mutate_result(raw, k, operand_ids(case))
        except Exception:  # noqa  (e.g. an immutable container was returned)
            mut = None
    how = mut[0] if mut else None
    extras = []
    try:
        if mut is not None:
            s2 = model_request(case)
            if s2 != s1:
                changes.append(("the result shares storage with an operand (%s changed the operand)" % how, s1, s2))
                return io, raw, extras, changes
        io2, raw2 = _outcome(impl_thunk(case))
        extras.append((HIST2 + (" [%s]" % how if how else ""), io2, freeze(raw2) if io2 != io else raw2))
        fresh = clone_case(case)
        if model_request(fresh) == req:
            io3, raw3 = _outcome(impl_thunk(fresh))
            extras.append((HIST3 + (" [%s]" % how if how else ""), io3, freeze(raw3) if io3 != io else raw3))
        for (sc, sio) in sibs:
            sio2, sraw2 = _outcome(impl_thunk(sc))
            extras.append((HISTS % case_id(case) + (" [%s]" % how if how else ""), sio2, freeze(sraw2) if sio2 != sio else sraw2, sc, sio))
        s3 = model_request(case)
        if s3 != s1 and not changes:
            changes.append(("a later call changed the operands", s1, s3))
    finally:
        if mut is not None:
            mut[1][:] = mut[2]
    return io, raw, extras, changes


def run_all(ctx, cases, reqs=None):
    """-> recs [(case, io, raw, history tag)], hist [(case index, tag, io_n)], changes [(case, tag, before, after)]"""
    recs, hist, changes = [], [], []
    for n, case in enumerate(cases):
        io, raw, extras, chg = run_with_history(case, n, reqs[n] if reqs else None)
        recs.append((case, io, raw, ""))
        for ex in extras:
            (tag, io_n, raw_n) = ex[:3]
            if len(ex) == 5:              # a related call: compared with its own outcome before the caller's change
                hist.append((ex[3], tag, io_n, ex[4]))
                if io_n != ex[4]:
                    recs.append((ex[3], io_n, raw_n, tag))
                continue
            hist.append((n, tag, io_n))
            if io_n != io:
                recs.append((case, io_n, raw_n, tag))
        for (tag, before, after) in chg:
            changes.append((case, tag, before, after))
    return recs, hist, changes


def case_id(case):
    """short stable description of a case (operand classes / shapes), used for keys and the distribution."""
    core, sty = split(case)
    return _case_id(core) + (" {%s}" % sty if sty else "")


def _case_id(case):
    def d(v):
        if isinstance(v, Opaque):
            return "%s-of-%d" % (v.how, len(v.items))
        if isinstance(v, (list, tuple)):
            parts = []
            for x in v:                     # runs of equal descriptions are written once: BoolVar*30
                t = d(x)
                if parts and parts[-1][0] == t:
                    parts[-1][1] += 1
                else:
                    parts.append([t, 1])
            if len(v) <= 12:
                return "[" + ",".join(d(x) for x in v) + "]"
            return "[" + ",".join(t if n == 1 else "%s*%d" % (t, n) for (t, n) in parts) + "]"
        if is_array(v):
            return "%s%s" % (cls_name(v), "x".join(str(s) for s in v.shape))
        if isinstance(v, (bool, int)) or v is None:
            return repr(v)
        return cls_name(v)
    f = case[0]
    if f == "bin":
        return "%s %s %s" % (d(case[2]), case[1], d(case[3]))
    if f == "un":
        return "%s %s" % (case[1], d(case[2]))
    if f == "call":
        return "%s.%s(%s)" % (d(case[2]), case[1], ",".join(d(x) for x in case[3]))
    if f == "cond":
        return "cond(%s,%s,%s)" % (d(case[1]), d(case[2]), d(case[3]))
    if f == "then":
        return "then(%s,%s)" % (d(case[1]), d(case[2]))
    if f == "elem":
        return "_elementwise(%s,%s,%s)" % (case[1], case[2], d(case[3]))
    if f == "h":
        return "%s(%s)" % ({"CT": "count_true", "FO": "fold_or", "FA": "fold_and", "AD": "alldifferent"}[case[1]],
                           ",".join(d(x) for x in case[2]))
    if f == "conv":
        return "%s.conv2d(%d,%d,%s)" % (d(case[1]), case[2], case[3], case[4])
    return "%s.%s(%s)" % (d(case[1]), "four_neighbor_indices" if f == "fni" else "four_neighbors", case[2])


# ------------------------------------------------------------------ translator (T tie)

MNAMES = {"cond": "m_cond", "then": "m_then", "__invert__": "m_invert", "__and__": "m_and", "__rand__": "m_rand",
          "__or__": "m_or", "__ror__": "m_ror", "__eq__": "m_eq", "__ne__": "m_ne", "__xor__": "m_xor",
          "__rxor__": "m_rxor", "fold_or": "m_fold_or", "fold_and": "m_fold_and", "count_true": "m_count_true",
          "__neg__": "m_neg", "__add__": "m_add", "__radd__": "m_radd", "__sub__": "m_sub", "__rsub__": "m_rsub",
          "__ge__": "m_ge", "__gt__": "m_gt", "__le__": "m_le", "__lt__": "m_lt", "alldifferent": "m_alldifferent"}
# methods of the six classes that are not operators/aggregates (modelled elsewhere or not at all)
IGNORED = {"__init__", "__getitem__", "__len__", "__iter__", "reshape", "flatten", "four_neighbors",
           "four_neighbor_indices", "conv2d", "sol", "is_variable"}
# classes that must not define (and so not override) any operator method
PLAIN = {"BoolVar": {"__init__", "is_variable", "sol"}, "IntVar": {"__init__", "is_variable", "sol"},
         "Expr": {"__init__", "is_variable", "__bool__"},
         "Array1D": {"__init__", "size", "__iter__", "__len__", "__bool__"},
         "Array2D": {"__init__", "_getitem_impl", "__iter__", "__len__", "__bool__"}}
COQ_OPS = {"VAR", "BOOL_CONSTANT", "INT_CONSTANT", "NEG", "ADD", "SUB", "EQ", "NE", "LE", "LT", "GE", "GT", "NOT", "AND",
           "OR", "IFF", "XOR", "IMP", "IF", "ALLDIFF"}


class TranslateError(Exception):
    pass


def _is_overload(fn):
    for d in fn.decorator_list:
        s = ast.unparse(d)
        if s == "overload" or s.endswith(".overload"):
            return True
    return False


def _strip(body):
    body = list(body)
    if body and isinstance(body[0], ast.Expr) and isinstance(getattr(body[0], "value", None), ast.Constant) \
            and isinstance(body[0].value.value, str):
        body = body[1:]
    return body


def _op_of(node, where):
    if isinstance(node, ast.Attribute) and isinstance(node.value, ast.Name) and node.value.id == "Op" and node.attr in COQ_OPS:
        return node.attr
    raise TranslateError("%s: operator argument %s not understood" % (where, ast.unparse(node)))


def _margs(node, params, where, strip_cast=False):
    if not isinstance(node, ast.List):
        raise TranslateError("%s: operand list %s not understood" % (where, ast.unparse(node)))
    out = []
    for e in node.elts:
        if strip_cast and isinstance(e, ast.Call) and isinstance(e.func, ast.Name) and e.func.id == "cast" and len(e.args) == 2:
            e = e.args[1]                      # typing.cast(T, x) is x at run time
        if isinstance(e, ast.Name) and e.id == "self":
            out.append("MSelf")
        elif isinstance(e, ast.Name) and e.id in params:
            out.append("MArg %d" % params.index(e.id))
        else:
            raise TranslateError("%s: operand %s not understood" % (where, ast.unparse(e)))
    return "[" + "; ".join(out) + "]"


def _self_shape(node):
    return isinstance(node, ast.Attribute) and node.attr == "shape" and isinstance(node.value, ast.Name) and node.value.id == "self"


def _self_data(node):
    return isinstance(node, ast.Attribute) and node.attr == "data" and isinstance(node.value, ast.Name) and node.value.id == "self"


def _elementwise_call(node, params, where):
    if isinstance(node, ast.Call) and isinstance(node.func, ast.Name) and node.func.id == "_elementwise" \
            and len(node.args) == 3 and not node.keywords and _self_shape(node.args[1]):
        return _op_of(node.args[0], where), _margs(node.args[2], params, where)
    return None


def _is_ni_guard(stmt, var):
    """if <var> is NotImplemented: raise TypeError(...)"""
    if not (isinstance(stmt, ast.If) and not stmt.orelse and len(stmt.body) == 1):
        return False
    t = stmt.test
    if not (isinstance(t, ast.Compare) and isinstance(t.left, ast.Name) and t.left.id == var and len(t.ops) == 1
            and isinstance(t.ops[0], ast.Is) and isinstance(t.comparators[0], ast.Name) and t.comparators[0].id == "NotImplemented"):
        return False
    r = stmt.body[0]
    return isinstance(r, ast.Raise) and isinstance(r.exc, ast.Call) and isinstance(r.exc.func, ast.Name) and r.exc.func.id == "TypeError"


def _norm(stmts):
    return "\n".join(ast.dump(s, annotate_fields=False) for s in stmts)


# the bodies of BoolExpr.cond / BoolExpr.then, as the model (expr_cond / expr_then) reads them
EXPR_COND_SRC = '''
if _is_int_expr_like(t) and _is_int_expr_like(f):
    res = _make_int_expr(Op.IF, [self, cast(IntExprLike, t), cast(IntExprLike, f)])
    if res is not NotImplemented:
        return res
else:
    from .constraints import cond

    res = cond(self, t, f)  # type: ignore

    if res is not NotImplemented:
        return res

raise TypeError(
    "unsupported argument type(s) for operator 'cond': "
    "'{}' and '{}'".format(type(t).__name__, type(f).__name__)
)
'''
EXPR_THEN_SRC = '''
if _is_bool_expr_like(other):
    res = _make_bool_expr(Op.IMP, [self, cast(BoolExprLike, other)])
    if res is not NotImplemented:
        return res
else:
    from .constraints import then

    res2 = then(self, other)
    if res2 is not NotImplemented:
        return res2

raise TypeError(
    "unsupported argument type(s) for operator `then`: '{}'".format(type(other).__name__)
)
'''


def _strip_raise_message(stmts):
    """the message of a raise TypeError(...) carries no meaning for the model"""
    class T(ast.NodeTransformer):
        def visit_Raise(self, node):
            if isinstance(node.exc, ast.Call) and isinstance(node.exc.func, ast.Name):
                return ast.Raise(exc=ast.Call(func=node.exc.func, args=[], keywords=[]), cause=None)
            return node
    return [T().visit(s) for s in stmts]


def translate_method(cname, fn):
    where = "%s.%s" % (cname, fn.name)
    if fn.args.vararg or fn.args.kwarg or fn.args.kwonlyargs or fn.args.defaults or fn.args.posonlyargs:
        raise TranslateError(where + ": unexpected signature")
    params = [a.arg for a in fn.args.args]
    if not params or params[0] != "self":
        raise TranslateError(where + ": first parameter is not self")
    params = params[1:]
    body = _strip(fn.body)
    if cname == "BoolExpr" and fn.name in ("cond", "then"):
        want = EXPR_COND_SRC if fn.name == "cond" else EXPR_THEN_SRC
        wparams = ["t", "f"] if fn.name == "cond" else ["other"]
        if params != wparams or _norm(_strip_raise_message(body)) != _norm(_strip_raise_message(ast.parse(want).body)):
            raise TranslateError(where + ": body differs from the shape the model (expr_cond / expr_then) was written from")
        return "BExprCond" if fn.name == "cond" else "BExprThen"
    if len(body) == 1 and isinstance(body[0], ast.Return) and body[0].value is not None:
        v = body[0].value
        ew = _elementwise_call(v, params, where)
        if ew:
            return "BElem %s %s" % ew
        if isinstance(v, ast.Call) and isinstance(v.func, ast.Name) and v.func.id in ("_make_bool_expr", "_make_int_expr") \
                and len(v.args) == 2 and not v.keywords:
            return "%s %s %s" % ("BMakeBool" if v.func.id == "_make_bool_expr" else "BMakeInt",
                                 _op_of(v.args[0], where), _margs(v.args[1], params, where))
        if isinstance(v, ast.Call) and isinstance(v.func, ast.Name) and v.func.id == "BoolExpr" and len(v.args) == 2 \
                and not v.keywords and _self_data(v.args[1]):
            return "BNodeData %s" % _op_of(v.args[0], where)
        if isinstance(v, ast.Name) and v.id == "self":
            return "BReturnSelf"
        if isinstance(v, ast.Call) and isinstance(v.func, ast.Attribute) and v.func.attr == "cond" \
                and isinstance(v.func.value, ast.Name) and v.func.value.id == "self" and len(v.args) == 2 and not v.keywords \
                and all(isinstance(a, ast.Constant) and type(a.value) is int for a in v.args):
            return "BSelfCond (%d) (%d)" % (v.args[0].value, v.args[1].value)
    if len(body) == 3 and isinstance(body[0], ast.Assign) and len(body[0].targets) == 1 and isinstance(body[0].targets[0], ast.Name):
        var = body[0].targets[0].id
        ew = _elementwise_call(body[0].value, params, where)
        if ew and _is_ni_guard(body[1], var) and isinstance(body[2], ast.Return) and isinstance(body[2].value, ast.Name) \
                and body[2].value.id == var:
            return "BElemTE %s %s" % ew
    if len(body) == 2 and isinstance(body[0], ast.Import) and [a.name for a in body[0].names] == ["cspuz.constraints"] \
            and isinstance(body[1], ast.Return) and ast.unparse(body[1].value) == "cspuz.constraints.count_true(self.data)":
        return "BCountTrueData"
    raise TranslateError(where + ": body shape not understood: " + ast.unparse(fn)[:200])


def translate_sources():
    rows = []
    seen_classes = set()
    for fname, classes in (("expr.py", ("BoolExpr", "IntExpr")),
                           ("array.py", ("BoolArray1D", "IntArray1D", "BoolArray2D", "IntArray2D"))):
        with open(os.path.join(vlib.REPO, "cspuz", fname)) as f:
            tree = ast.parse(f.read())
        for node in tree.body:
            if not isinstance(node, ast.ClassDef):
                continue
            if node.name in PLAIN:
                seen_classes.add(node.name)
                for st in node.body:
                    if isinstance(st, ast.FunctionDef) and st.name not in PLAIN[node.name]:
                        raise TranslateError("class %s defines %s: the operator protocol model assumes it does not" % (node.name, st.name))
                    if isinstance(st, ast.Assign):
                        raise TranslateError("class %s has a class-level assignment" % node.name)
                continue
            if node.name not in classes:
                continue
            seen_classes.add(node.name)
            bases = [ast.unparse(b) for b in node.bases]
            want_bases = {"BoolExpr": ["Expr"], "IntExpr": ["Expr"], "BoolArray1D": ["Array1D[BoolExpr]"],
                          "IntArray1D": ["Array1D[IntExpr]"], "BoolArray2D": ["Array2D[BoolExpr]"], "IntArray2D": ["Array2D[IntExpr]"]}
            if bases != want_bases[node.name]:
                raise TranslateError("class %s has bases %s" % (node.name, bases))
            names = set()
            for st in node.body:
                if isinstance(st, ast.FunctionDef):
                    if _is_overload(st):
                        continue
                    if st.name in IGNORED:
                        continue
                    if st.name not in MNAMES:
                        raise TranslateError("%s.%s: method not known to the model" % (node.name, st.name))
                    if st.decorator_list:
                        raise TranslateError("%s.%s: decorated" % (node.name, st.name))
                    if st.name in names:
                        raise TranslateError("%s.%s: defined twice" % (node.name, st.name))
                    names.add(st.name)
                    rows.append((node.name, st.name, translate_method(node.name, st)))
                elif isinstance(st, (ast.Assign, ast.AugAssign)):
                    raise TranslateError("class %s has a class-level assignment (method alias?)" % node.name)
                elif isinstance(st, (ast.AnnAssign, ast.Expr, ast.Pass)):
                    if isinstance(st, ast.AnnAssign) and st.value is not None:
                        raise TranslateError("class %s has a class-level assignment" % node.name)
                else:
                    raise TranslateError("class %s: statement %s not understood" % (node.name, type(st).__name__))
    for c in ("BoolExpr", "IntExpr", "BoolArray1D", "IntArray1D", "BoolArray2D", "IntArray2D", "BoolVar", "IntVar", "Expr", "Array1D", "Array2D"):
        if c not in seen_classes:
            raise TranslateError("class %s not found" % c)
    return rows


# ---- the isinstance predicates and the type-check chain of _elementwise

DCLS = {"BoolExpr": "DBoolExpr", "IntExpr": "DIntExpr", "bool": "DBool", "int": "DInt", "BoolArray1D": "DBoolArray1D",
        "BoolArray2D": "DBoolArray2D", "IntArray1D": "DIntArray1D", "IntArray2D": "DIntArray2D"}
LIKE = {"_is_bool_like": "LBoolLike", "_is_int_like": "LIntLike"}


def _find_function(tree, name):
    found = [n for n in tree.body if isinstance(n, ast.FunctionDef) and n.name == name and not _is_overload(n)]
    if len(found) != 1:
        raise TranslateError("function %s: %d definitions" % (name, len(found)))
    return found[0]


def _isinstance_classes(node, argname, where):
    """isinstance(<argname>, C) / isinstance(<argname>, (C1, C2, ...)) -> [dcls]"""
    if not (isinstance(node, ast.Call) and isinstance(node.func, ast.Name) and node.func.id == "isinstance"
            and len(node.args) == 2 and not node.keywords and isinstance(node.args[0], ast.Name) and node.args[0].id == argname):
        raise TranslateError("%s: %s is not an isinstance test of the argument" % (where, ast.unparse(node)))
    c = node.args[1]
    elts = c.elts if isinstance(c, ast.Tuple) else [c]
    out = []
    for e in elts:
        if not (isinstance(e, ast.Name) and e.id in DCLS):
            raise TranslateError("%s: class %s not known to the model" % (where, ast.unparse(e)))
        out.append(DCLS[e.id])
    return out


def translate_like(tree, name):
    fn = _find_function(tree, name)
    where = name
    if len(fn.args.args) != 1 or fn.args.vararg or fn.args.kwarg or fn.args.defaults:
        raise TranslateError(where + ": unexpected signature")
    arg = fn.args.args[0].arg
    body = _strip(fn.body)
    if len(body) != 1 or not isinstance(body[0], ast.Return) or body[0].value is None:
        raise TranslateError(where + ": body is not a single return")
    v = body[0].value
    pos, neg = None, []
    if isinstance(v, ast.BoolOp) and isinstance(v.op, ast.And) and len(v.values) == 2 \
            and isinstance(v.values[1], ast.UnaryOp) and isinstance(v.values[1].op, ast.Not):
        pos = _isinstance_classes(v.values[0], arg, where)
        neg = _isinstance_classes(v.values[1].operand, arg, where)
    else:
        pos = _isinstance_classes(v, arg, where)
    return "{| like_pos := [%s]; like_neg := [%s] |}" % ("; ".join(pos), "; ".join(neg))


def _ops_of_test(t, where):
    """op in [Op.A, ...]  |  op == Op.A"""
    if isinstance(t, ast.Compare) and isinstance(t.left, ast.Name) and t.left.id == "op" and len(t.ops) == 1:
        c = t.comparators[0]
        if isinstance(t.ops[0], ast.In) and isinstance(c, ast.List):
            return [_op_of(e, where) for e in c.elts]
        if isinstance(t.ops[0], ast.Eq):
            return [_op_of(c, where)]
    raise TranslateError("%s: branch condition %s not understood" % (where, ast.unparse(t)))


def _len_ne(t):
    """len(operands) != N -> N"""
    if isinstance(t, ast.Compare) and len(t.ops) == 1 and isinstance(t.ops[0], ast.NotEq) and ast.unparse(t.left) == "len(operands)" \
            and isinstance(t.comparators[0], ast.Constant) and type(t.comparators[0].value) is int:
        return t.comparators[0].value
    return None


def _pred_on_index(t, where):
    """P(operands[i]) -> (P, i)"""
    if isinstance(t, ast.Call) and isinstance(t.func, ast.Name) and t.func.id in LIKE and len(t.args) == 1 and not t.keywords:
        a = t.args[0]
        if isinstance(a, ast.Subscript) and isinstance(a.value, ast.Name) and a.value.id == "operands" \
                and isinstance(a.slice, ast.Constant) and type(a.slice.value) is int:
            return LIKE[t.func.id], a.slice.value
    raise TranslateError("%s: %s is not a predicate on operands[i]" % (where, ast.unparse(t)))


def _all_map(t):
    """all(map(P, operands)) -> P"""
    if isinstance(t, ast.Call) and isinstance(t.func, ast.Name) and t.func.id == "all" and len(t.args) == 1:
        m = t.args[0]
        if isinstance(m, ast.Call) and isinstance(m.func, ast.Name) and m.func.id == "map" and len(m.args) == 2 \
                and isinstance(m.args[0], ast.Name) and m.args[0].id in LIKE and isinstance(m.args[1], ast.Name) and m.args[1].id == "operands":
            return LIKE[m.args[0].id]
    return None


def _reject_test(t, ops, where):
    """the condition under which the branch returns NotImplemented -> a tcrow"""
    opl = "[%s]" % "; ".join(ops)
    n, rest = None, t
    if isinstance(t, ast.BoolOp) and isinstance(t.op, ast.Or) and len(t.values) == 2 and _len_ne(t.values[0]) is not None:
        n, rest = _len_ne(t.values[0]), t.values[1]
    if not (isinstance(rest, ast.UnaryOp) and isinstance(rest.op, ast.Not)):
        raise TranslateError("%s: %s not understood" % (where, ast.unparse(t)))
    inner = rest.operand
    p = _all_map(inner)
    if p is not None:
        return "TCAll %s %s %s" % (opl, "None" if n is None else "(Some %d%%nat)" % n, p)
    parts = inner.values if (isinstance(inner, ast.BoolOp) and isinstance(inner.op, ast.And)) else [inner]
    preds = [_pred_on_index(x, where) for x in parts]
    if n is None or [i for (_, i) in preds] != list(range(n)):
        raise TranslateError("%s: %s does not test operands[0..n-1] in order with the length check" % (where, ast.unparse(t)))
    return "TCEach %s [%s]" % (opl, "; ".join(pn for (pn, _) in preds))


def translate_elementwise_chain(tree):
    fn = _find_function(tree, "_elementwise")
    if [a.arg for a in fn.args.args] != ["op", "shape", "operands"]:
        raise TranslateError("_elementwise: unexpected signature")
    body = _strip(fn.body)
    node = body[0]
    rows = []
    while True:
        if not isinstance(node, ast.If):
            raise TranslateError("_elementwise: type-check chain not found")
        where = "_elementwise branch %d" % len(rows)
        ops = _ops_of_test(node.test, where)
        if len(node.body) != 1 or not isinstance(node.body[0], ast.If) or node.body[0].orelse:
            raise TranslateError(where + ": branch body is not a single if")
        inner = node.body[0]
        if len(inner.body) != 1 or not (isinstance(inner.body[0], ast.Return) and isinstance(inner.body[0].value, ast.Name)
                                        and inner.body[0].value.id == "NotImplemented"):
            raise TranslateError(where + ": branch does not return NotImplemented")
        rows.append(_reject_test(inner.test, ops, where))
        if len(node.orelse) == 1 and isinstance(node.orelse[0], ast.If):
            node = node.orelse[0]
            continue
        if len(node.orelse) == 1 and isinstance(node.orelse[0], ast.Raise) and isinstance(node.orelse[0].exc, ast.Call) \
                and isinstance(node.orelse[0].exc.func, ast.Name) and node.orelse[0].exc.func.id == "ValueError":
            break
        raise TranslateError("_elementwise: the chain does not end with raise ValueError")
    return rows


def translate_op_list(tree, name):
    fn = _find_function(tree, name)
    body = _strip(fn.body)
    if len(body) == 1 and isinstance(body[0], ast.Return):
        t = body[0].value
        if isinstance(t, ast.Compare) and isinstance(t.left, ast.Name) and t.left.id == "op" and len(t.ops) == 1 \
                and isinstance(t.ops[0], ast.In) and isinstance(t.comparators[0], ast.List):
            return [_op_of(e, name) for e in t.comparators[0].elts]
    raise TranslateError(name + ": body not understood")


def translate_tables():
    with open(os.path.join(vlib.REPO, "cspuz", "array.py")) as f:
        atree = ast.parse(f.read())
    with open(os.path.join(vlib.REPO, "cspuz", "expr.py")) as f:
        etree = ast.parse(f.read())
    out = []
    out.append("Definition gen_is_bool_like : likedef := %s." % translate_like(atree, "_is_bool_like"))
    out.append("Definition gen_is_int_like : likedef := %s." % translate_like(atree, "_is_int_like"))
    out.append("Definition gen_is_bool_expr_like : likedef := %s." % translate_like(etree, "_is_bool_expr_like"))
    out.append("Definition gen_is_int_expr_like : likedef := %s." % translate_like(etree, "_is_int_expr_like"))
    out.append("Definition gen_elem_table : list tcrow :=\n  [ %s ]." % ";\n    ".join(translate_elementwise_chain(atree)))
    out.append("Definition gen_bool_ops : list op := [%s]." % "; ".join(translate_op_list(etree, "is_bool_op")))
    out.append("Definition gen_int_ops : list op := [%s]." % "; ".join(translate_op_list(etree, "is_int_op")))
    return "\n".join(out) + "\n"


def render_table(rows):
    lines = ["(* GENERATED by harness/pC12.py::translate from /repo/cspuz/expr.py and array.py — do not edit *)",
             "From Coq Require Import ZArith List.",
             "From Cspuz Require Import Core.Expr Array.Elementwise.",
             "Import ListNotations.",
             "Open Scope Z_scope.",
             "Definition dunder_table : list (mclass * mname * body) :=",
             "  ["]
    lines.append(";\n".join("    (C%s, %s, %s)" % (c, MNAMES[m], b) for (c, m, b) in rows))
    lines.append("  ].")
    return "\n".join(lines) + "\n" + translate_tables()


def translate(ctx):
    rows = translate_sources()
    vlib.write_if_changed(os.path.join(vlib.GEN, "DunderTable.v"), render_table(rows))
    ctx.count("translated-method-rows", len(rows))


# ------------------------------------------------------------------ correspondence (C tie)

def correspond(ctx):
    m = ctx.model("C12")
    cases = gen_cases(ctx)
    reqs = [model_request(c) for c in cases]
    outs = m.batch(reqs)
    mos = [parse_model(o) for o in outs]
    recs, hist, changes = run_all(ctx, cases, reqs)
    ctx._c12 = (recs, changes)
    n = 0
    for (case, io, raw, tag) in recs:
        if tag:
            continue                      # a differing later outcome: compared with the model through `hist` below
        ctx.count("form:" + case[0])
        ctx.count("impl-outcome:" + (io[0] if io[0] != "err" else io[1]))
        ctx.corr(case[0], (case_id(case), reqs[n]), mos[n], io)
        n += 1
    # histories: the model is a pure function, so every later call must give what the model gives for the first
    for h in hist:
        if len(h) == 4:
            ctx.corr("hist:related:" + h[0][0], (case_id(h[0]), h[1].split(",")[0]), h[3], h[2])
            continue
        (n, tag, io_n) = h
        ctx.corr("hist:" + cases[n][0], (case_id(cases[n]), reqs[n], tag.split(",")[0]), mos[n], io_n)
    changed = {}
    for (case, tag, before, after) in changes:
        changed[id(case)] = True
        ctx.corr("operands-unchanged", (case_id(case), before, tag), before, after)
    ctx.count("corr:operands-unchanged", len(cases) - len(changed))
    ctx.cases += len(cases) - len(changed)


# ------------------------------------------------------------------ search (the property itself)

class Env:
    def __init__(self, rng=None, b=None, i=None):
        self.b = list(b) if b is not None else [rng.random() < 0.5 for _ in range(NVARS)]
        self.i = list(i) if i is not None else [rng.randint(-3, 6) for _ in range(NVARS)]

    def wire(self):
        w = getattr(self, "_wire", None)
        if w is None:
            w = self._wire = "[ %s ] [ %s ]" % (" ".join("1" if x else "0" for x in self.b), " ".join(str(x) for x in self.i))
        return w


class IllTyped(Exception):
    pass


def pyeval(e, env):
    """independent evaluator of expression trees (strictly typed: bool vs int)."""
    _, _, E = C()
    if isinstance(e, bool):
        return e
    if isinstance(e, int):
        return e
    if isinstance(e, E.BoolVar):
        return bool(env.b[e.id]) if e.id < len(env.b) else False
    if isinstance(e, E.IntVar):
        return int(env.i[e.id]) if e.id < len(env.i) else 0
    if not isinstance(e, E.Expr):
        raise IllTyped(repr(e))
    op = e.op.name
    a = [pyeval(x, env) for x in e.operands]

    def want(t, n=None):
        if n is not None and len(a) != n:
            raise IllTyped(op)
        for x in a:
            if type(x) is not t:
                raise IllTyped(op)
    isb = isinstance(e, E.BoolExpr)
    if isb:
        if op == "BOOL_CONSTANT":
            want(bool, 1)
            return a[0]
        if op == "NOT":
            want(bool, 1)
            return not a[0]
        if op == "AND":
            want(bool)
            return all(a)
        if op == "OR":
            want(bool)
            return any(a)
        if op in ("IFF", "XOR", "IMP"):
            want(bool, 2)
            return {"IFF": a[0] == a[1], "XOR": a[0] != a[1], "IMP": (not a[0]) or a[1]}[op]
        if op in ("EQ", "NE", "LE", "LT", "GE", "GT"):
            want(int, 2)
            return {"EQ": a[0] == a[1], "NE": a[0] != a[1], "LE": a[0] <= a[1], "LT": a[0] < a[1],
                    "GE": a[0] >= a[1], "GT": a[0] > a[1]}[op]
        if op == "ALLDIFF":
            want(int)
            return len(set(a)) == len(a)
        raise IllTyped(op)
    if op == "INT_CONSTANT":
        want(int, 1)
        return a[0]
    if op == "NEG":
        want(int, 1)
        return -a[0]
    if op == "ADD":
        want(int)
        if not a:
            raise IllTyped(op)
        return sum(a)
    if op == "SUB":
        want(int)
        if not a:
            raise IllTyped(op)
        return a[0] - sum(a[1:])
    if op == "IF":
        if len(a) != 3 or type(a[0]) is not bool or type(a[1]) is not int or type(a[2]) is not int:
            raise IllTyped(op)
        return a[1] if a[0] else a[2]
    raise IllTyped(op)


def pyeval_wire(e, env):
    try:
        v = pyeval(e, env)
    except IllTyped:
        return "NONE"
    return ("VB 1" if v else "VB 0") if type(v) is bool else "VI %d" % v


def val_wire(v):
    return ("VB 1" if v else "VB 0") if type(v) is bool else "VI %d" % v


def operand_at(v, i, env):
    return pyeval(v.data[i], env) if is_array(v) else pyeval(v, env)


BIN_SEM = {"and": lambda a, b: a and b, "or": lambda a, b: a or b, "xor": lambda a, b: a != b,
           "add": lambda a, b: a + b, "sub": lambda a, b: a - b, "eq": lambda a, b: a == b, "ne": lambda a, b: a != b,
           "lt": lambda a, b: a < b, "le": lambda a, b: a <= b, "gt": lambda a, b: a > b, "ge": lambda a, b: a >= b}
DUNDER_SEM = {"__and__": ("and", 0), "__rand__": ("and", 1), "__or__": ("or", 0), "__ror__": ("or", 1),
              "__xor__": ("xor", 0), "__rxor__": ("xor", 1), "__eq__": ("eq", 0), "__ne__": ("ne", 0),
              "__add__": ("add", 0), "__radd__": ("add", 1), "__sub__": ("sub", 0), "__rsub__": ("sub", 1),
              "__lt__": ("lt", 0), "__le__": ("le", 0), "__gt__": ("gt", 0), "__ge__": ("ge", 0)}


def expectation(case):
    """what the property demands of this case:
         None                        -> the property says nothing
         ("raise",)                  -> must be rejected with an exception
         ("array", kind, shape, fn)  -> array of that kind/shape, element i denotes fn(i, env)
         ("scalar", kind, fn)        -> expression of that kind denoting fn(env)
         ("indices", list)           -> list of index pairs (compared as a set, no duplicates)"""
    case, _ = split(case)
    f = case[0]

    def kinds_shapes(vals):
        ks = [vkind(v) for v in vals]
        shs = [vshape(v) for v in vals if is_array(v)]
        return ks, shs

    def pointwise(vals, reskind, fn):
        shs = [vshape(v) for v in vals if is_array(v)]
        if shs:
            return ("array", reskind, shs[0], lambda i, env: fn(*[operand_at(v, i, env) for v in vals]))
        return ("scalar", reskind, lambda env: fn(*[pyeval(v, env) for v in vals]))

    def binary(o, a, b):
        ks, shs = kinds_shapes([a, b])
        if "other" in ks:
            return None
        if is_builtin(a) and is_builtin(b):
            return None
        if o in EQ_FORMS:
            if ks[0] != ks[1]:
                return None                      # equality between a bool-valued and an int-valued operand: not constrained
        else:
            need = "bool" if o in BOOL_FORMS else "int"
            if ks != [need, need]:
                return ("raise", "kind")
        if len(shs) == 2 and shs[0] != shs[1]:
            return ("raise", "shape")
        return pointwise([a, b], "int" if o in ("add", "sub") else "bool", BIN_SEM[o])

    if f == "bin":
        return binary(case[1], case[2], case[3])
    if f == "un":
        v = case[2]
        k = vkind(v)
        if k == "other":
            return None
        need = "bool" if case[1] == "INV" else "int"
        if k != need:
            return ("raise",)
        return pointwise([v], need, (lambda a: not a) if need == "bool" else (lambda a: -a))
    if f in ("then", "cond") or (f == "call" and case[1] in ("then", "cond")):
        if f == "call":
            form, vals = case[1], [case[2]] + list(case[3])
        else:
            form, vals = f, list(case[1:])
        ks, shs = kinds_shapes(vals)
        if "other" in ks:
            return None
        need = ["bool", "bool"] if form == "then" else ["bool", "int", "int"]
        if len(vals) != len(need):
            return None
        if ks != need:
            return ("raise",)
        if any(s != shs[0] for s in shs):
            return ("raise",)
        if form == "then":
            return pointwise(vals, "bool", lambda a, b: (not a) or b)
        return pointwise(vals, "int", lambda c, t, e: t if c else e)
    if f == "call":
        m, self, args = case[1], case[2], case[3]
        if m in DUNDER_SEM:
            # a dunder called explicitly: NotImplemented is a legitimate answer (the interpreter then tries the other
            # operand), so such calls are constrained only when they produce a result or hit a shape mismatch
            o, refl = DUNDER_SEM[m]
            a, b = (args[0], self) if refl else (self, args[0])
            exp = binary(o, a, b)
            if exp is None or exp == ("raise", "kind"):
                return None
            return exp
        if m in ("fold_or", "fold_and", "count_true"):
            if vkind(self) != "bool":
                return None
            items = list(self.data) if is_array(self) else [self]
            g = {"fold_or": lambda vs: any(vs), "fold_and": lambda vs: all(vs), "count_true": lambda vs: sum(1 for x in vs if x)}[m]
            return ("scalar", "int" if m == "count_true" else "bool", lambda env: g([pyeval(x, env) for x in items]), items)
        if m == "alldifferent":
            items = list(self.data)
            return ("scalar", "bool", lambda env: len(set(pyeval(x, env) for x in items)) == len(items), items)
        return None
    if f == "h":
        items = []

        def fl(n):
            if isinstance(n, (list, tuple)):
                for x in n:
                    fl(x)
            elif is_array(n):
                items.extend(n.data)
            else:
                items.append(n)
        fl(list(case[2]))
        need = "int" if case[1] == "AD" else "bool"
        if any(vkind(x) != need for x in items):
            return None                          # the property speaks about items of the right kind only
        g = {"FO": lambda vs: any(vs), "FA": lambda vs: all(vs), "CT": lambda vs: sum(1 for x in vs if x),
             "AD": lambda vs: len(set(vs)) == len(vs)}[case[1]]
        return ("scalar", "int" if case[1] == "CT" else "bool", lambda env: g([pyeval(x, env) for x in items]), items)
    if f == "conv":
        _, a, kh, kw, o = case
        if o not in ("and", "or"):
            return ("raise",)
        if kh < 1 or kw < 1:
            return None
        h, w = a.shape
        rh, rw = max(0, h - kh + 1), max(0, w - kw + 1)

        def fn(i, env):
            y, x = divmod(i, rw)
            vs = [pyeval(a.data[(y + dy) * w + (x + dx)], env) for dy in range(kh) for dx in range(kw)]
            return all(vs) if o == "and" else any(vs)
        return ("array", "bool", (rh, rw), fn, list(a.data) if kh * kw >= 8 else None)
    if f in ("fni", "fn"):
        a, form = case[1], case[2]
        if form[0] in ("1", "X"):
            return ("raise",)
        h, w = a.shape
        y, x = form[1], form[2]
        if not (0 <= y < h and 0 <= x < w):
            return None
        nb = [(y + dy, x + dx) for (dy, dx) in ((-1, 0), (1, 0), (0, -1), (0, 1)) if 0 <= y + dy < h and 0 <= x + dx < w]
        if f == "fni":
            return ("indices", nb)
        return ("cells", vkind(a), nb)
    return None


def search(ctx):
    """the property itself: real results vs the pointwise / mathematical meaning."""
    A, K, E = C()
    rng = ctx.rng
    got_c = getattr(ctx, "_c12", None)
    if got_c:
        recs, changes = got_c
    else:
        recs, _, changes = run_all(ctx, gen_cases(ctx))
    try:
        model = ctx.model("C12")
    except Exception:
        model = None
    nenv = 4 if (ctx.thorough or getattr(ctx, "deep", False)) else 2
    envs = [Env(rng) for _ in range(nenv)]
    pending = []   # (key, what, detail, env index, tree, expected wire)
    env_index = {}

    def env_of(key, b, i):
        if key not in env_index:
            envs.append(Env(b=b, i=i))
            env_index[key] = len(envs) - 1
        return env_index[key]

    def var_ids(items):
        bs, is_, seen = set(), set(), set()

        def walk(e):
            if isinstance(e, E.BoolVar):
                bs.add(e.id)
            elif isinstance(e, E.IntVar):
                is_.add(e.id)
            elif isinstance(e, E.Expr) and id(e) not in seen:
                seen.add(id(e))
                for x in e.operands:
                    walk(x)
        for x in items:
            walk(x)
        return sorted(bs), sorted(is_)

    def spread(l, n):
        """at most 3n elements of l: the first n, the last n, n evenly spaced ones"""
        if len(l) <= 3 * n:
            return list(l)
        mid = [l[(len(l) * (2 * j + 1)) // (2 * n)] for j in range(n)]
        return sorted(set(l[:n] + mid + l[-n:]))

    def targeted(items):
        """environments aimed at aggregates (random assignments almost never make exactly one of many items true /
        false / equal): all false, all true, and for long item lists one variable true / one false / one pair equal."""
        bv, iv = var_ids(items)
        n = max([NVARS] + [v + 1 for v in bv + iv])
        distinct = [7 * k for k in range(n)]
        out = [env_of(("all-false", n), [False] * n, [0] * n), env_of(("all-true", n), [True] * n, distinct)]
        if len(items) < 12:
            return out
        for v in spread(bv, 8):
            out.append(env_of(("only-true", v, n), [k == v for k in range(n)], distinct))
            out.append(env_of(("only-false", v, n), [k != v for k in range(n)], distinct))
        pairs = list(zip(iv, iv[1:])) + ([(iv[0], iv[-1])] if len(iv) > 2 else [])
        for (a, b) in spread(pairs, 8):
            out.append(env_of(("equal", a, b, n), [k % 4 == 0 for k in range(n)], [distinct[a] if k == b else distinct[k] for k in range(n)]))
        return out

    def viol(case, what, detail, tag=""):
        d = {"case": case_id(case), "request": model_request(case)}
        if tag:
            d["history"] = tag
            what = what + " — on the " + tag.split(": ", 1)[1].split(",")[0]
        d.update(detail)
        ctx.violation(split(case)[0][0] + ":" + case_id(case) + ("@" + tag.split(":")[0] if tag else ""), what, d)

    for (case, tag, before, after) in changes:
        ctx.prop_case("prop-operands-unchanged", (before, tag))
        ctx.violation(split(case)[0][0] + ":" + case_id(case) + "@operands",
                      "an operand no longer denotes what it denoted before the call: " + tag,
                      {"case": case_id(case), "operands_before": before, "operands_after": after})

    for (case, io, raw, tag) in recs:
        try:
            exp = expectation(case)
        except IllTyped:
            continue
        if exp is None:
            continue
        core = split(case)[0]
        ctx.prop_case("prop-" + ("hist-" if tag else "") + core[0], (case_id(case), model_request(case), tag))
        if exp[0] == "raise":
            if io == ("ni",) and core[0] == "call" and core[1] in DUNDER_SEM:
                continue
            if io[0] != "err":
                viol(case, "ill-typed or ill-shaped use is not rejected with an exception", {"observed": io}, tag)
            continue
        if io == ("ni",) and core[0] == "call" and core[1] in DUNDER_SEM:
            continue
        if io[0] != "ok":
            viol(case, "well-typed use does not produce a result", {"observed": io}, tag)
            continue
        if exp[0] == "indices":
            if not isinstance(raw, list) or sorted(raw) != sorted(exp[1]) or len(set(raw)) != len(raw):
                viol(case, "four_neighbor_indices is not the set of in-bounds orthogonal neighbours", {"observed": io, "expected": exp[1]}, tag)
            continue
        if exp[0] == "cells":
            want_cls = {"bool": A.BoolArray1D, "int": A.IntArray1D}[exp[1]]
            a = core[1]
            cells = [a.data[y * a.shape[1] + x] for (y, x) in exp[2]]
            if type(raw) is not want_cls or sorted(map(id, raw.data)) != sorted(map(id, cells)):
                viol(case, "four_neighbors is not the in-bounds orthogonal neighbour cells", {"observed": io}, tag)
            continue
        if exp[0] == "array":
            _, kind, shp, fn = exp[:4]
            eis = list(range(nenv)) + (targeted(exp[4]) if len(exp) > 4 and exp[4] is not None else [])
            want_cls = {("bool", 1): A.BoolArray1D, ("int", 1): A.IntArray1D, ("bool", 2): A.BoolArray2D, ("int", 2): A.IntArray2D}[(kind, len(shp))]
            if type(raw) is not want_cls or tuple(raw.shape) != tuple(shp):
                viol(case, "result is not an array of the operands' shape and the operator's kind", {"observed": io, "expected_shape": list(shp)}, tag)
                continue
            size = 1
            for s in shp:
                size *= s
            if len(raw.data) != size:
                viol(case, "result data length differs from the shape", {"observed": io}, tag)
                continue
            for i in range(size):
                for ei in eis:
                    pending.append(((case, tag), i, ei, raw.data[i], val_wire(fn(i, envs[ei]))))
        else:
            _, kind, fn = exp[:3]
            okcls = E.BoolExpr if kind == "bool" else E.IntExpr
            if not isinstance(raw, okcls) and not (type(raw) is bool and kind == "bool"):
                viol(case, "result is not an expression of the operator's kind", {"observed": io}, tag)
                continue
            for ei in list(range(nenv)) + (targeted(exp[3]) if len(exp) > 3 else []):
                pending.append(((case, tag), -1, ei, raw, val_wire(fn(envs[ei]))))
    # evaluate all result trees: extracted eval and the independent evaluator
    got = None
    if model is not None:
        try:
            got = model.batch(["EVAL %s %s" % (envs[ei].wire(), exprio.show(tree)) for (_, _, ei, tree, _) in pending])
        except Exception as ex:  # noqa
            ctx.note("extracted eval unavailable in search: %r" % (ex,))
    for n, ((case, tag), i, ei, tree, want) in enumerate(pending):
        pv = pyeval_wire(tree, envs[ei])
        gv = got[n] if got is not None else pv
        ctx.cases += 1
        if gv != pv:
            ctx.mismatches.append({"kind": "eval-vs-pyeval", "input": exprio.show(tree), "model": gv, "impl": pv})
        if gv != want or pv != want:
            viol(case, "element %d does not denote the pointwise / mathematical meaning" % i if i >= 0 else
                 "result does not denote the mathematical meaning",
                 {"element": i, "tree": exprio.show(tree), "env": envs[ei].wire(), "value": gv, "value_pyeval": pv, "expected": want}, tag)


def replay(ctx, rp):
    print(rp)
    v = rp.get("violation", {}).get("detail", {})
    req = v.get("request") if isinstance(v, dict) else None
    if not req:
        return 0
    # re-run the whole search (cases are regenerated deterministically from the seed) and report the same key
    ctx._c12 = None
    search(ctx)
    keys = [x["key"] for x in ctx.violations]
    print("violations now:", keys[:10])
    return 1 if rp["violation"]["key"] in keys else 0
