(* C11: the program of solve_lits is well formed on every board and room layout; composition with C02 (solve_reports).
   The model posts the connectivity helper of property C04 (WfLemmas.post_avc_wf), then declares num_straight
   (k integers 0..2) and has_t (k booleans) and appends the 2x2, room and room-border constraints, which mention
   the grid cells and the new variables only. *)
From Coq Require Import ZArith List Bool Arith Lia.
From Cspuz Require Import Lib.PyErr Core.Expr Core.Program Graph.GraphModel Graph.Avc
     Backend.Z3 Backend.Z3Oracle Backend.Z3SolveProofs Backend.SolveLoop Backend.SolveZ3Proofs
     Puzzle.PuzzleBase Puzzle.ModelBase Puzzle.ModelLemmas Puzzle.SatAbs Puzzle.SolveCompose Puzzle.WfLemmas
     Puzzle.Akari Puzzle.AkariWf Puzzle.Rules_norinori Puzzle.Norinori Puzzle.NorinoriWf Puzzle.Nurimisaki
     Puzzle.Rules_lits Puzzle.Lits Puzzle.LitsProofs.
Import ListNotations.
Local Open Scope nat_scope.

Lemma ok_ct_exprs vs es : forallb (ok vs true) es = true -> ok vs false (ct_exprs es) = true.
Proof.
  intros H. destruct es as [|e r]; [reflexivity|]. unfold ct_exprs. rewrite ok_add_map by discriminate.
  rewrite forallb_forall in *. intros x Hx. rewrite ok_cond. apply H. exact Hx.
Qed.

Lemma ok_fold_or_nodes_gen vs l : forallb (ok vs true) l = true -> ok vs true (fold_or_nodes l) = true.
Proof. intros H. unfold fold_or_nodes. destruct l; [reflexivity|]. rewrite ok_or. exact H. Qed.

Lemma forallb_ok_if vs (c : bool) l : (c = true -> forallb (ok vs true) l = true) ->
  forallb (ok vs true) (if c then l else []) = true.
Proof. destruct c; [|reflexivity]. intros H. apply H. reflexivity. Qed.

Section L.
  Variables (h w : nat) (region : list Z) (A : list vdecl) (k : nat).
  Let vs1 := repeat DBool (h * w) ++ A.
  Let vsF := vs1 ++ repeat (DInt 0 2) k ++ repeat DBool k.
  Let base := length vs1.
  (* every cell of the board carries the id of a declared room *)
  Hypothesis Hreg : forall y x, y < h -> x < w -> zn (at2 region w y x) < k.

  Lemma ok_lv y x : y < h -> x < w -> ok vsF true (lv w (y, x)) = true.
  Proof.
    intros Hy Hx. unfold vsF, vs1, lv. rewrite <- app_assoc. apply ok_more. apply ok_cell; assumption.
  Qed.

  Lemma ok_lv_inside l : inside h w l -> forallb (ok vsF true) (map (lv w) l) = true.
  Proof.
    intros H. rewrite forallb_map. apply forallb_In. intros [y x] Hc. apply H in Hc. simpl in Hc. apply ok_lv; tauto.
  Qed.

  Lemma ok_ctv_inside l : inside h w l -> ok vsF false (ct_vars (map (cidx w) l)) = true.
  Proof. intros H. unfold vsF, vs1. rewrite <- app_assoc. apply ok_more. apply ok_ct_inside. exact H. Qed.

  Lemma ok_ns i : i < k -> ok vsF false (lits_ns base i) = true.
  Proof. intros Hi. unfold lits_ns, vsF. apply ok_ivar_block. unfold base. lia. Qed.

  Lemma ok_ht i : i < k -> ok vsF true (lits_ht base k i) = true.
  Proof.
    intros Hi. unfold lits_ht. rewrite ok_bvar. unfold vsF.
    rewrite nth_error_app2 by (unfold base; lia).
    rewrite nth_error_app2 by (rewrite repeat_length; unfold base; lia).
    rewrite nth_error_repeat; [reflexivity|]. rewrite repeat_length. unfold base. lia.
  Qed.

  Lemma inside_region i : inside h w (region_cells h w region i).
  Proof. intros [y x] Hc. simpl. eapply region_cells_in. exact Hc. Qed.

  Lemma inside_nsb i y x : y < h -> x < w -> inside h w (lits_nsb h w region i (y, x)).
  Proof. intros Hy Hx. unfold lits_nsb. apply inside_filter. apply inside_nbr4; assumption. Qed.

  Lemma inside_dr y x : y < h -> x < w -> inside h w (lits_dr h w (y, x)).
  Proof.
    intros Hy Hx c Hc. unfold lits_dr in Hc. cbn [fst snd] in Hc. apply in_app_or in Hc. destruct Hc as [Hc|Hc].
    - destruct (Nat.ltb_spec (S y) h); [|contradiction]. destruct Hc as [<-|[]]. simpl. lia.
    - destruct (Nat.ltb_spec (S x) w); [|contradiction]. destruct Hc as [<-|[]]. simpl. lia.
  Qed.

  Lemma lits_pairs_ok i y x : y < h -> x < w -> forallb (ok vsF true) (lits_pairs h w region i (y, x)) = true.
  Proof.
    intros Hy Hx. unfold lits_pairs. rewrite forallb_map. apply forallb_In. intros [y' x'] Hc.
    apply filter_In in Hc. destruct Hc as [Hc _]. apply (inside_dr y x Hy Hx) in Hc. simpl in Hc.
    rewrite ok_and. cbn [forallb]. rewrite !ok_lv by tauto. reflexivity.
  Qed.

  Lemma lits_straight_ok i y x : y < h -> x < w -> forallb (ok vsF true) (lits_straight h w region i (y, x)) = true.
  Proof.
    intros Hy Hx. unfold lits_straight.
    match goal with |- context [match ?t with [] => [] | _ :: _ => [BNode OR ?t'] end] =>
      assert (Ht : forallb (ok vsF true) t = true) end.
    { rewrite forallb_app. apply andb_true_intro. split; apply forallb_ok_if; intros C.
      - apply andb_prop in C. destruct C as [C _]. apply andb_prop in C. destruct C as [C _].
        apply andb_prop in C. destruct C as [C1 C2]. apply Nat.ltb_lt in C1. apply Nat.ltb_lt in C2.
        cbn [forallb]. rewrite ok_and. cbn [forallb]. rewrite !ok_lv by lia. reflexivity.
      - apply andb_prop in C. destruct C as [C _]. apply andb_prop in C. destruct C as [C _].
        apply andb_prop in C. destruct C as [C1 C2]. apply Nat.ltb_lt in C1. apply Nat.ltb_lt in C2.
        cbn [forallb]. rewrite ok_and. cbn [forallb]. rewrite !ok_lv by lia. reflexivity. }
    match goal with |- context [match ?t with [] => [] | _ :: _ => _ end] => destruct t eqn:E end; [reflexivity|].
    cbn [forallb]. rewrite ok_or, Ht. reflexivity.
  Qed.

  Lemma lits_t_ok i y x : y < h -> x < w -> forallb (ok vsF true) (lits_t h w region i (y, x)) = true.
  Proof.
    intros Hy Hx. unfold lits_t. cbv zeta. destruct (Nat.leb 3 _); [|reflexivity].
    cbn [forallb]. rewrite ok_ge, ok_pyint, ok_ctv_inside by (apply inside_nsb; assumption). reflexivity.
  Qed.

  Lemma forallb_region (f : nat * nat -> list expr) i :
    (forall y x, y < h -> x < w -> forallb (ok vsF true) (f (y, x)) = true) ->
    forallb (ok vsF true) (flat_map f (region_cells h w region i)) = true.
  Proof.
    intros H. rewrite forallb_flat_map. apply forallb_In. intros [y x] Hc. apply region_cells_in in Hc. apply H; tauto.
  Qed.

  Lemma lits_block_ok i : i < k -> forallb (ok vsF true) (lits_block h w region k base i) = true.
  Proof.
    intros Hi. unfold lits_block. cbv zeta. cbn [forallb]. apply andb_true_intro. split.
    - rewrite ok_eq, ok_pyint, ok_ctv_inside by apply inside_region. reflexivity.
    - rewrite forallb_app. apply andb_true_intro. split.
      + rewrite forallb_map. apply forallb_In. intros [y x] Hc. apply region_cells_in in Hc.
        rewrite ok_imp, ok_lv by tauto. cbn [andb]. apply ok_fold_or_nodes_gen. apply ok_lv_inside.
        apply inside_nsb; tauto.
      + cbn [forallb]. rewrite !ok_eq, ok_iff, !ok_pyint, ok_ns, ok_ht by exact Hi.
        rewrite !ok_ct_exprs.
        * rewrite ok_fold_or_nodes_gen; [reflexivity|]. apply forallb_region. intros; apply lits_t_ok; assumption.
        * apply forallb_region. intros; apply lits_straight_ok; assumption.
        * apply forallb_region. intros; apply lits_pairs_ok; assumption.
  Qed.

  Lemma lits_differ_ok i j : i < k -> j < k -> ok vsF true (lits_differ base k i j) = true.
  Proof.
    intros Hi Hj. unfold lits_differ. rewrite ok_or. cbn [forallb].
    rewrite ok_ne, ok_xor, !ok_ns, !ok_ht by assumption. reflexivity.
  Qed.

  Lemma lits_border_ok y x : y < h -> x < w -> forallb (ok vsF true) (lits_border h w region k base (y, x)) = true.
  Proof.
    intros Hy Hx. unfold lits_border. cbv zeta. rewrite forallb_app. apply andb_true_intro.
    split; apply forallb_ok_if; intros C; apply andb_prop in C; destruct C as [C _]; apply Nat.ltb_lt in C;
      cbn [forallb]; rewrite ok_imp, ok_and; cbn [forallb]; rewrite !ok_lv by lia;
      rewrite lits_differ_ok by (apply Hreg; lia); reflexivity.
  Qed.

  Lemma lits_constraints_ok : forallb (ok vsF true) (lits_constraints h w region k base) = true.
  Proof.
    unfold lits_constraints. rewrite !forallb_app, forallb_map, !forallb_flat_map.
    repeat (apply andb_true_intro; split).
    - apply forallb_cells. intros y x Hy Hx. unfold lits_block2. rewrite ok_not.
      rewrite !ok_and. cbn [forallb]. rewrite !ok_and. cbn [forallb]. rewrite !ok_and. cbn [forallb].
      rewrite !ok_lv by lia. reflexivity.
    - apply forallb_seq. intros i Hi. apply lits_block_ok. lia.
    - apply forallb_cells. intros y x Hy Hx. apply lits_border_ok; assumption.
  Qed.
End L.

Lemma lits_model_shape pb st : solve_lits_model pb = Ok st ->
  (wf_state st /\ wf_keys st) /\ exists r, keys st = repeat true (dim pb 0 * dim pb 1) ++ r.
Proof.
  unfold solve_lits_model. set (h := dim pb 0). set (w := dim pb 1). set (region := sec pb 1).
  destruct (negb (forallb (fun z => (0 <=? z)%Z) region) || Nat.ltb (length region) (h * w)) eqn:G; [discriminate|].
  apply orb_false_iff in G. destruct G as [G1 G2]. apply negb_false_iff in G1. apply Nat.ltb_ge in G2.
  pose proof (region_ok h w region G1 G2) as Hreg.
  destruct (post_avc _ _ _ false false) as [st1|] eqn:E; [|discriminate].
  intros H. inversion H; subst st; clear H.
  destruct (post_avc_wf _ _ _ _ _ E) as [[W1 K1] [Hv Hk]].
  - reflexivity.
  - unfold wf_keys; simpl. rewrite !repeat_length. reflexivity.
  - simpl. apply ok_grid_vars.
  - cbn [vars keys bool_grid_state] in Hv, Hk. split; [split|].
    + unfold wf_state. cbn [vars Program.cons]. apply wf_cons_app; [apply wf_cons_more; exact W1|].
      apply wf_cons_ok. unfold next_id. rewrite Hv.
      apply (lits_constraints_ok h w region _ (n_regions region)).
      intros y x Hy Hx. exact (proj2 (Hreg y x Hy Hx)).
    + unfold wf_keys in *. cbn [vars keys]. rewrite !app_length, K1, !repeat_length. reflexivity.
    + eexists. cbn [keys]. rewrite Hk, <- app_assoc. reflexivity.
Qed.

Lemma lits_model_wf pb st : solve_lits_model pb = Ok st -> wf_state st /\ wf_keys st.
Proof. intros H. exact (proj1 (lits_model_shape pb st H)). Qed.

Theorem lits_solve_reports : forall oracle, oracle_sound_on oracle -> oracle_complete_on oracle ->
  forall h w region st,
  solve_lits_model [[Z.of_nat h; Z.of_nat w]; region] = Ok st ->
  solve_reports oracle st (seq 0 (h * w)) (rules_lits [[Z.of_nat h; Z.of_nat w]; region]).
Proof.
  intros oracle Os Oc h w region st Hst.
  apply (solve_reports_intro oracle gsem_avc); try assumption.
  - exact (lits_model_wf _ _ Hst).
  - destruct (lits_model_shape _ _ Hst) as [_ [r Hk]]. rewrite dim2_0, dim2_1 in Hk. rewrite Hk.
    intros i. apply keys_prefix.
  - intros ans. exact (lits_exact h w region st ans Hst).
Qed.
