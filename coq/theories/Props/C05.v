(* C05 — division_connected holds exactly for labelings whose classes are connected.
   Model: Graph/Division.v (post_division = cspuz.graph._division_connected,
   division_connected = the public wrapper).  extends_sat st st' en = "the
   constraints added by the call are satisfiable for the caller's assignment en";
   label_of en labels v = the value of the v-th label expression under en. *)
From Coq Require Import ZArith List.
From Cspuz Require Import Lib.PyErr Core.Expr Core.Program Graph.GraphModel Graph.Division
  Graph.DivisionCert Graph.DivisionProofs Graph.DivisionPrim Graph.DivisionMain.
Import ListNotations.

(* auxiliary encoding, explicit graph: both directions, all (multi)graphs with
   loops and parallel edges, all num_regions, all roots lists, allow_empty_group
   on/off, labels = arbitrary int-valued expressions over the caller's variables;
   any meaning of the native graph operators *)
Theorem division_exact :
  forall (gsem : op -> list (option value) -> option bool) st s R g roots aeg st' en,
    wf_graph g = true ->
    length (seq_data s) = nv g ->
    labels_ok gsem (next_id st) (seq_data s) ->
    post_division st s R g roots aeg false = Ok st' ->
    (extends_sat gsem st st' en <-> spec_division g R (label_of gsem en (seq_data s)) roots aeg).
Proof. exact DivisionProofs.division_exact. Qed.
Print Assumptions division_exact.

(* primitive encoding: reduction to the same specification, with the meaning of
   GRAPH_ACTIVE_VERTICES_CONNECTED defined as connectivity (division_gsem) *)
Theorem division_primitive : forall st s R g roots aeg st' en,
  wf_graph g = true ->
  length (seq_data s) = nv g ->
  labels_ok division_gsem (next_id st) (seq_data s) ->
  post_division st s R g roots aeg true = Ok st' ->
  (extends_sat division_gsem st st' en
   <-> spec_division g R (label_of division_gsem en (seq_data s)) roots aeg).
Proof. exact DivisionPrim.division_primitive. Qed.
Print Assumptions division_primitive.

(* both encodings, label entries given by the typing predicate of Core/Expr.v *)
Theorem division_exact_wt : forall st s R g roots aeg prim st' en,
  wf_graph g = true ->
  length (seq_data s) = nv g ->
  Forall (fun d => wt_int d = true /\ max_id d <= next_id st) (seq_data s) ->
  post_division st s R g roots aeg prim = Ok st' ->
  (extends_sat division_gsem st st' en
   <-> spec_division g R (label_of division_gsem en (seq_data s)) roots aeg).
Proof. exact DivisionMain.division_exact_wt. Qed.
Print Assumptions division_exact_wt.

(* the same as a statement about models of the whole program after the call *)
Theorem division_exact_models : forall st s R g roots aeg prim st' en,
  wf_graph g = true ->
  length (seq_data s) = nv g ->
  labels_ok division_gsem (next_id st) (seq_data s) ->
  cons_closed st -> model_of division_gsem en st ->
  post_division st s R g roots aeg prim = Ok st' ->
  ((exists en', agree_below (next_id st) en en' /\ model_of division_gsem en' st')
   <-> spec_division g R (label_of division_gsem en (seq_data s)) roots aeg).
Proof. exact DivisionMain.division_exact_models. Qed.
Print Assumptions division_exact_models.

(* level S on its own: a certificate (rank, is_root, spanning_forest) exists iff
   the specification holds *)
Theorem division_cert_iff_spec : forall g R label roots aeg,
  wf_graph g = true ->
  ((exists rank is_root forest, ranks_in_range (nv g) rank /\
      cert_division g R label roots aeg rank is_root forest = true)
   <-> spec_division g R label roots aeg).
Proof. exact DivisionCert.cert_iff_spec. Qed.
Print Assumptions division_cert_iff_spec.

(* inferred grids: roots (y, x) become vertex ids y * w + x of the grid graph *)
Theorem division_grid_roots : forall st h w data R rs aeg p,
  division_connected st (D2 h w data) R None (Some (map grid_root_arg rs)) aeg p
  = post_division st (SArr data) R (grid_graph h w) (Some (map (grid_root_vertex w) rs)) aeg p.
Proof. exact DivisionMain.division_grid_roots. Qed.
Print Assumptions division_grid_roots.

Theorem grid_root_vertex_cell : forall h w y x,
  (y < h)%nat -> (x < w)%nat ->
  root_vertex (nv (grid_graph h w)) (grid_root_vertex w (GCell (Z.of_nat y) (Z.of_nat x)))
  = Some (Some (y * w + x)%nat).
Proof. exact DivisionMain.grid_root_vertex_cell. Qed.
Print Assumptions grid_root_vertex_cell.

(* an int root in grid form raises TypeError, a tuple of another length ValueError *)
Theorem division_grid_bad_root : forall st h w data R pre a post aeg p,
  forallb grid_entry_ok pre = true -> grid_entry_ok a = false ->
  division_connected st (D2 h w data) R None (Some (pre ++ a :: post)) aeg p
  = Err (match a with RInt _ => TypeError | _ => ValueError end).
Proof. exact DivisionMain.division_grid_bad_root. Qed.
Print Assumptions division_grid_bad_root.

Theorem division_wrapper_type_errors : forall st s h w data R g roots aeg p,
  division_connected st (D1 s) R None roots aeg p = Err TypeError /\
  division_connected st (D2 h w data) R (Some g) roots aeg p = Err TypeError.
Proof. exact DivisionMain.division_wrapper_type_errors. Qed.
Print Assumptions division_wrapper_type_errors.

(* the property on inferred grids, both encodings *)
Theorem division_exact_grid : forall st h w data R rs aeg p st' en,
  length data = (h * w)%nat ->
  labels_ok division_gsem (next_id st) data ->
  division_connected st (D2 h w data) R None (option_map (map grid_root_arg) rs) aeg p = Ok st' ->
  (extends_sat division_gsem st st' en
   <-> spec_division (grid_graph h w) R (label_of division_gsem en data)
         (option_map (map (grid_root_vertex w)) rs) aeg).
Proof. exact DivisionMain.division_exact_grid. Qed.
Print Assumptions division_exact_grid.

(* under the property's range hypothesis the specification reads "the vertices
   carrying each label induce a connected subgraph" *)
Theorem all_classes_connected : forall g R label,
  labels_in_range (nv g) R label ->
  ((forall k, (k < R)%nat -> connected g (class_of label k))
   <-> (forall z : Z, connected g (fun v => Z.eqb (label v) z))).
Proof. exact DivisionMain.all_classes_connected. Qed.
Print Assumptions all_classes_connected.

(* the executable specification used by the search is the specification *)
Theorem spec_division_b_spec : forall g R label roots aeg,
  wf_graph g = true ->
  (spec_division_b g R label roots aeg = true <-> spec_division g R label roots aeg).
Proof. exact DivisionMain.spec_division_b_spec. Qed.
Print Assumptions spec_division_b_spec.

(* remark (not a defect): without the range hypothesis the posted constraints
   admit a disconnected class of an out-of-range label *)
Theorem division_range_needed :
  exists st',
    post_division empty_state (SList [PyInt 5; PyInt 5]) 1 g2 None true false = Ok st' /\
    extends_sat division_gsem empty_state st' env0 /\
    ~ connected g2 (fun v => Z.eqb (label_of division_gsem env0 [PyInt 5; PyInt 5] v) 5).
Proof. exact DivisionMain.division_range_needed. Qed.
Print Assumptions division_range_needed.

(* error points: no vertices; a tuple / an out-of-range id in roots (explicit-graph form) *)
Theorem division_zero_vertices : forall st s R g roots aeg,
  nv g = 0%nat -> post_division st s R g roots aeg false = Err ValueError.
Proof. exact DivisionMain.division_zero_vertices. Qed.
Print Assumptions division_zero_vertices.

Theorem roots_error_primitive : forall labels pre a post k,
  Forall (fun b => exists v, root_vertex (length labels) b = Some v) pre ->
  root_vertex (length labels) a = None ->
  prim_roots labels k (pre ++ a :: post)
  = Err (match a with RTup _ => TypeError | _ => IndexError end).
Proof. exact DivisionMain.roots_error_primitive. Qed.
Print Assumptions roots_error_primitive.

Theorem roots_error_aux : forall labels root pre a post k,
  length root = length labels ->
  Forall (fun b => exists v, root_vertex (length labels) b = Some v) pre ->
  root_vertex (length labels) a = None ->
  aux_roots labels root k (pre ++ a :: post)
  = Err (match a with RTup _ => TypeError | _ => IndexError end).
Proof. exact DivisionMain.roots_error_aux. Qed.
Print Assumptions roots_error_aux.
