"""C11 plug-in: firefly / Hotaru Beam (solve_firefly(height, width, problem)); height x width lattice POINTS; a point is
'..' (no firefly) or a firefly '<d><n>' with d in ^ v < > (the side of the black dot) and n = '?' (no number) or a
decimal number (turns of the beam).  Answer: has_line, a BoolGridFrame(height - 1, width - 1)."""
import itertools

import c11lib as L

NAME = "firefly"
MODULE = "cspuz.puzzle.firefly"
FUNC = "solve_firefly"
LOOP = True
DIRS = "^v<>"
KIND = {"^": 1, "v": 2, "<": 3, ">": 4}
TIER1 = ("Firefly", "solve_firefly_model")
# Boards without any firefly are left out of Tier 2 (class key "firefly:no-firefly", a recorded known finding): on them
# solve_firefly admits every single closed loop besides the empty drawing (and nothing at all on the 1 x 1 board), while by
# the rules only the empty drawing is a solution (Rules_firefly.v, reading (b)).
EXCLUDE_NO_FIREFLY = True


def call(mod, pb):
    return mod.solve_firefly(pb["h"], pb["w"], pb["p"])


def ncand(pb):
    return 2 ** L.n_loop_edges(pb["h"], pb["w"])


def encode(pb):
    kind, num = [], []
    for row in pb["p"]:
        for c in row:
            if c[0] == ".":
                kind.append(0)
                num.append(0)
            else:
                kind.append(KIND[c[0]])
                num.append(-1 if c[1] == "?" else int(c[1:]))
    return [[pb["h"], pb["w"]], kind, num]


def alphabet(nums):
    return [".."] + [d + n for d in DIRS for n in nums]


def _grid(h, w, cells):
    p = [[".."] * w for _ in range(h)]
    for (y, x), c in cells.items():
        p[y][x] = c
    return {"h": h, "w": w, "p": p}


def _all(h, w, values):
    for g in L.all_grids(h, w, values):
        yield {"h": h, "w": w, "p": g}


def _rand(rng, h, w, p, nums):
    return {"h": h, "w": w, "p": [[rng.choice(DIRS) + rng.choice(nums) if rng.random() < p else ".." for _ in range(w)]
                                  for _ in range(h)]}


def _single(h, w, nums):
    for y in range(h):
        for x in range(w):
            for d in DIRS:
                for n in nums:
                    yield _grid(h, w, {(y, x): d + n})


def _pairs(h, w, nums):
    pts = [(y, x) for y in range(h) for x in range(w)]
    for a, b in itertools.combinations(pts, 2):
        for da in DIRS:
            for db in DIRS:
                for na in nums:
                    for nb in nums:
                        yield _grid(h, w, {a: da + na, b: db + nb})


def families(tier, rng):
    # boards without any firefly stay IN the search family: the check exhibits the recorded finding on every run
    # (KNOWN_FINDINGS.txt, key firefly:no-firefly -> a KNOWN-FINDING line, not an alarm) and would report any other
    # disagreement on such boards under its own key
    yield from _families(tier, rng)


def _families(tier, rng):
    th = tier == "thorough"
    wide = ["?", "0", "1", "2", "3"]
    # every layout of the tiniest boards
    for (h, w) in [(1, 1), (1, 2), (2, 1)]:
        for pb in _all(h, w, alphabet(wide)):
            yield pb
    for (h, w) in [(1, 3), (3, 1)]:
        lay = _all(h, w, alphabet(["?", "0", "1"]))
        for pb in (lay if th else L.sample(rng, lay, 150)):
            yield pb
    # 2 x 2 points: one firefly (the beam returns to it: 3 turns), two, and arbitrary layouts
    for pb in _single(2, 2, ["?", "0", "1", "2", "3", "4"]):
        yield pb
    two = list(_pairs(2, 2, ["?", "0", "1", "2"]))
    for pb in (two if th else L.sample(rng, two, 200)):
        yield pb
    lay = _all(2, 2, alphabet(["?", "0", "1", "2"]))
    for pb in L.sample(rng, lay, 1500 if th else 150):
        yield pb
    # slightly larger and non-square boards: fireflies on the rim and in the corners come up by themselves
    nums = ["?", "?", "0", "0", "1", "1", "2", "3", "4", "5"]
    for (h, w) in [(2, 3), (3, 2), (1, 4), (4, 1), (3, 3), (2, 4), (4, 2), (2, 5), (5, 2), (1, 6)]:
        yield _grid(h, w, {})
        one = list(_single(h, w, ["?", "0", "1", "2", "3", "4"]))
        for pb in L.sample(rng, one, 60 if th else 10):
            yield pb
        for p in (0.2, 0.35, 0.6):
            for _ in range(40 if th else 8):
                yield _rand(rng, h, w, p, nums)
        # every point a firefly
        for _ in range(6 if th else 2):
            yield _rand(rng, h, w, 1.1, nums)
    for (h, w) in [(2, 6), (6, 2)] + ([(3, 4), (4, 3)] if th else []):
        for p in (0.25, 0.5):
            for _ in range(30 if th else 5):
                yield _rand(rng, h, w, p, nums)


def classify(pb, what):
    """stable violation keys"""
    if all(c[0] == "." for row in pb["p"] for c in row):
        return "firefly:no-firefly"
    return None


def tier2(tier, rng):
    for pb in _tier2(tier, rng):
        if not (EXCLUDE_NO_FIREFLY and classify(pb, "") == "firefly:no-firefly"):
            yield pb


def _tier2(tier, rng):
    th = tier == "thorough"
    for (h, w) in [(1, 1), (1, 2), (2, 1)]:
        for pb in L.sample(rng, _all(h, w, alphabet(["?", "0", "1"])), 30 if th else 8):
            yield pb
    one = list(_single(2, 2, ["?", "0", "3"]))
    for pb in L.sample(rng, one, 12 if th else 3):
        yield pb
    two = list(_pairs(2, 2, ["?", "0", "1"]))
    for pb in L.sample(rng, two, 12 if th else 3):
        yield pb


def tier1_problems(tier, rng):
    """program-capture tie: every layout of the boards with <= 2 points and (thorough: all, quick: a sample) of the boards with
    3..6 points in both orientations (1x1 .. 1x6, 6x1, 2x2, 2x3, 3x2; every dot direction, '?', the numbers 0..2: fireflies whose
    dot points off the board included - they end the ROW: the points to their right post nothing), the boards without firefly,
    ~60 random larger and non-square boards (up to 7x7, 1xN, Nx1, 2xN, Nx2; sparse, dense, every point a firefly) with numbers
    at and beyond the boundaries (0, two digits, larger than the number of points), and malformed problems: height <= 0 or
    width <= 0 (ValueError), trailing cells / rows missing (IndexError)"""
    th = tier == "thorough"
    small = ["?", "0", "1", "2"]
    for (h, w) in [(1, 1), (1, 2), (2, 1)]:
        for pb in _all(h, w, alphabet(small + ["7"])):
            yield pb
    for (h, w) in [(1, 3), (3, 1), (2, 2), (1, 4), (4, 1), (1, 5), (5, 1), (2, 3), (3, 2), (1, 6), (6, 1)]:
        yield _grid(h, w, {})
        for pb in _single(h, w, small + ["12"]):
            yield pb
        if h * w <= 4:
            lay = _all(h, w, alphabet(["?", "0", "1"]))
            for pb in (lay if th and h * w <= 3 else L.sample(rng, lay, 400 if th else 60)):
                yield pb
        for p in (0.3, 0.6, 1.1):
            for _ in range(30 if th else 6):
                yield _rand(rng, h, w, p, small + ["3"])
    far = ["?", "?", "0", "0", "1", "2", "3", "5", "9", "10", "37", "100"]
    big = [(3, 3), (2, 4), (4, 2), (2, 5), (5, 2), (3, 4), (4, 3), (4, 4), (3, 6), (6, 3), (5, 5), (4, 6), (6, 5), (7, 7),
           (1, 7), (7, 1), (1, 9), (8, 1), (2, 7), (7, 2), (3, 5), (5, 4), (6, 6), (2, 9), (9, 2)]
    for (h, w) in big:
        yield _grid(h, w, {})
        for p in [0.1, 0.3, 0.6] * (3 if th else 1):
            yield _rand(rng, h, w, p, far)
        if th or h * w <= 20:
            yield _rand(rng, h, w, 1.1, far)
        # fireflies on the rim only, dots pointing inwards or along the rim
        cells = {}
        for y in range(h):
            for x in range(w):
                if (y in (0, h - 1) or x in (0, w - 1)) and rng.random() < 0.4:
                    ok = [d for d, c in zip(DIRS, (y > 0, y < h - 1, x > 0, x < w - 1)) if c]
                    cells[(y, x)] = rng.choice(ok) + rng.choice(far)
        yield _grid(h, w, cells)
    # malformed: a non-positive dimension -> ValueError (Array2D.__init__ of the first frame)
    for (h, w) in [(0, 0), (0, 1), (1, 0), (0, 3), (3, 0), (-1, 2), (2, -1), (-1, 0), (0, -3), (-2, 3), (4, -2), (-1, -1), (-2, -3)]:
        yield {"h": h, "w": w, "p": [[".."] * max(w, 0) for _ in range(max(h, 0))]}
    # malformed: trailing cells / rows missing -> IndexError
    for (h, w) in [(1, 1), (1, 3), (2, 2), (3, 2), (4, 4)]:
        g = _rand(rng, h, w, 0.4, far)["p"]
        yield {"h": h, "w": w, "p": g[:-1] + [g[-1][:-1]]}
        yield {"h": h, "w": w, "p": g[:-1]}
        yield {"h": h, "w": w, "p": []}


TR = {"^": "<", "<": "^", "v": ">", ">": "v", ".": "."}


def _transpose(pb, segs):
    p = [[TR[c[0]] + c[1:] for c in r] for r in L.transpose_grid(pb["p"])]
    segs_t = {((y1, x1)[::-1], (y2, x2)[::-1]) for ((y1, x1), (y2, x2)) in segs}
    return {"h": pb["w"], "w": pb["h"], "p": p}, segs_t


def big(tier, rng):
    """boards too large for the candidate enumeration:
    1 x N / N x 1 with one or two fireflies (a beam on a single line can never end at a dot-less side: no solution at all);
    2 x N with '>3' in the corner: the beam runs out along the top, down, back along the bottom and up into the firefly -
    one solution per turning column (N - 1 of them), the outermost ring is planted;
    3 x N (N odd) with a two-digit number: the beam of A = (0, 0) zigzags through the columns 1 .. N - 2 of the two upper rows
    (2N - 4 turns) into C = (1, N - 1), whose beam returns along the bottom row into A (2 turns); and the transposed boards"""
    th = tier == "thorough"
    ns = L.LONG if th else L.sample(rng, L.LONG, 2)
    for n in ns:
        for k in (1, 2):
            xs = sorted(rng.sample(range(n), k))
            pb = _grid(1, n, {(0, x): rng.choice("<>") + rng.choice(["?", "0", "1", "12"]) for x in xs})
            yield dict(pb, n_solutions=0)
            pbt, _ = _transpose(pb, set())
            yield dict(pbt, n_solutions=0)
    for n in ns:
        pb = _grid(2, n, {(0, 0): ">3"})
        segs = set()
        for c in range(n - 1):
            segs.add(((0, c), (0, c + 1)))
            segs.add(((1, c), (1, c + 1)))
        segs.add(((0, 0), (1, 0)))
        segs.add(((0, n - 1), (1, n - 1)))
        yield dict(pb, planted=[L.lattice_answer(2, n, segs)], n_solutions=n - 1)
        pbt, segs_t = _transpose(pb, segs)
        yield dict(pbt, planted=[L.lattice_answer(n, 2, segs_t)], n_solutions=n - 1)
    # (N = 7, 9, 11: the two-digit number starts with 1 and meets a one-digit number on the same board)
    for n in ([7, 9, 11, 19, 21, 23, 25] if th else [rng.choice([7, 9, 11]), rng.choice([19, 21, 23, 25])]):
        pb = _grid(3, n, {(0, 0): ">" + str(2 * n - 4), (1, n - 1): "v2"})
        segs = {((0, 0), (0, 1))}
        for c in range(1, n - 1):
            segs.add(((0, c), (1, c)))
            r = c % 2            # the row in which the beam leaves column c
            segs.add(((r, c), (r, c + 1)))
        for c in range(n - 1):
            segs.add(((2, c), (2, c + 1)))
        segs.add(((1, n - 1), (2, n - 1)))
        segs.add(((1, 0), (2, 0)))
        segs.add(((0, 0), (1, 0)))
        yield dict(pb, planted=[L.lattice_answer(3, n, segs)])
        pbt, segs_t = _transpose(pb, segs)
        yield dict(pbt, planted=[L.lattice_answer(n, 3, segs_t)])
