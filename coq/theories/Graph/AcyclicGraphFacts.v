(* C09 -- generic facts about incident lists and walks (reach) used by the
   acyclicity proofs.  Stdlib only. *)
From Coq Require Import ZArith List Bool Arith Lia.
From Cspuz Require Import Graph.GraphModel Graph.Acyclic.
Import ListNotations.

(* ------------------------------------------------------------------ incident *)

Lemma in_incident_from i es : forall k0 w k,
  In (w, k) (incident_from i k0 es) <->
  k0 <= k /\ (nth_error es (k - k0) = Some (i, w) \/ nth_error es (k - k0) = Some (w, i)).
Proof.
  induction es as [|[a b] r IH]; intros k0 w k; simpl.
  - split; [tauto|]. intros [_ [H|H]]; destruct (k - k0); discriminate.
  - rewrite !in_app_iff, IH.
    split.
    + intros [H|[H|[Hle H]]].
      * destruct (Nat.eqb_spec a i); [|destruct H]. destruct H as [H|[]]. inversion H; subst.
        split; [lia|]. rewrite Nat.sub_diag. simpl. auto.
      * destruct (Nat.eqb_spec b i); [|destruct H]. destruct H as [H|[]]. inversion H; subst.
        split; [lia|]. rewrite Nat.sub_diag. simpl. auto.
      * split; [lia|]. replace (k - k0) with (S (k - S k0)) by lia. simpl. exact H.
    + intros [Hle H].
      destruct (Nat.eq_dec k k0) as [->|Hne].
      * rewrite Nat.sub_diag in H. simpl in H. destruct H as [H|H]; inversion H; subst.
        -- left. rewrite Nat.eqb_refl. left; reflexivity.
        -- right; left. rewrite Nat.eqb_refl. left; reflexivity.
      * right; right. split; [lia|]. replace (k - k0) with (S (k - S k0)) in H by lia. exact H.
Qed.

Lemma in_incident g i w k :
  In (w, k) (incident g i) <->
  (nth_error (edges g) k = Some (i, w) \/ nth_error (edges g) k = Some (w, i)).
Proof.
  unfold incident. rewrite in_incident_from, Nat.sub_0_r. split; [tauto|]. intros H; split; [lia|exact H].
Qed.

Lemma incident_sym g v w k : In (w, k) (incident g v) <-> In (v, k) (incident g w).
Proof. rewrite !in_incident. tauto. Qed.

Lemma incident_same_edge g v w1 w2 k :
  In (w1, k) (incident g v) -> In (w2, k) (incident g v) -> w1 = w2.
Proof.
  rewrite !in_incident. intros [H1|H1] [H2|H2]; rewrite H1 in H2; inversion H2; subst; auto.
Qed.

Lemma wf_graph_nth g k a b :
  wf_graph g = true -> nth_error (edges g) k = Some (a, b) -> a < nv g /\ b < nv g.
Proof.
  unfold wf_graph. rewrite forallb_forall. intros H Hn. apply nth_error_In in Hn.
  specialize (H _ Hn). simpl in H. apply andb_true_iff in H. destruct H as [H1 H2].
  apply Nat.ltb_lt in H1, H2. auto.
Qed.

Lemma loop_free_nth g k a b :
  loop_free g = true -> nth_error (edges g) k = Some (a, b) -> a <> b.
Proof.
  unfold loop_free. rewrite forallb_forall. intros H Hn. apply nth_error_In in Hn.
  specialize (H _ Hn). simpl in H. apply negb_true_iff in H. apply Nat.eqb_neq in H. exact H.
Qed.

Lemma incident_lt g v w k :
  wf_graph g = true -> In (w, k) (incident g v) -> v < nv g /\ w < nv g.
Proof.
  intros Hwf H. apply in_incident in H. destruct H as [H|H]; apply (wf_graph_nth _ _ _ _ Hwf) in H; tauto.
Qed.

Lemma incident_neq g v w k :
  loop_free g = true -> In (w, k) (incident g v) -> v <> w.
Proof.
  intros Hlf H. apply in_incident in H. destruct H as [H|H]; apply (loop_free_nth _ _ _ _ Hlf) in H; auto.
Qed.

Lemma incident_from_NoDup i es : forall k0,
  forallb (fun '(a, b) => negb (Nat.eqb a b)) es = true -> NoDup (incident_from i k0 es).
Proof.
  induction es as [|[a b] r IH]; intros k0 H; simpl.
  - constructor.
  - simpl in H. apply andb_true_iff in H. destruct H as [Hab H].
    apply negb_true_iff in Hab. apply Nat.eqb_neq in Hab.
    assert (Hfresh : forall w, ~ In (w, k0) (incident_from i (S k0) r)).
    { intros w Hin. apply in_incident_from in Hin. lia. }
    specialize (IH (S k0) H).
    destruct (Nat.eqb_spec a i), (Nat.eqb_spec b i); simpl; try (exfalso; lia); auto.
    + constructor; auto.
    + constructor; auto.
Qed.

Lemma incident_NoDup g i : loop_free g = true -> NoDup (incident g i).
Proof. intros H. apply incident_from_NoDup. exact H. Qed.

(* ------------------------------------------------------------------ filter counting *)

Lemma filter_le_one {A} (P : A -> bool) (l : list A) :
  NoDup l -> (forall x y, In x l -> In y l -> P x = true -> P y = true -> x = y) ->
  length (filter P l) <= 1.
Proof.
  induction l as [|a l IH]; intros Hnd Huniq; simpl; [lia|].
  inversion Hnd as [|? ? Hnotin Hnd']; subst.
  destruct (P a) eqn:Pa.
  - simpl. assert (filter P l = []) as ->; [|simpl; lia].
    destruct (filter P l) as [|b t] eqn:E; [reflexivity|].
    assert (Hb : In b (filter P l)) by (rewrite E; left; reflexivity).
    apply filter_In in Hb. destruct Hb as [Hbl Pb].
    exfalso. apply Hnotin. rewrite (Huniq a b); auto; [left; reflexivity | right; exact Hbl].
  - apply IH; auto. intros x y Hx Hy. apply Huniq; right; assumption.
Qed.

Lemma filter_two {A} (P : A -> bool) (l : list A) x y :
  In x l -> In y l -> x <> y -> P x = true -> P y = true -> 2 <= length (filter P l).
Proof.
  induction l as [|a l IH]; intros Hx Hy Hne Px Py; [destruct Hx|].
  simpl. destruct Hx as [->|Hx], Hy as [->|Hy].
  - congruence.
  - rewrite Px. simpl. assert (In y (filter P l)) by (apply filter_In; auto).
    destruct (filter P l); [destruct H|simpl; lia].
  - rewrite Py. simpl. assert (In x (filter P l)) by (apply filter_In; auto).
    destruct (filter P l); [destruct H|simpl; lia].
  - specialize (IH Hx Hy Hne Px Py). destruct (P a); simpl; lia.
Qed.

Lemma count_b_map {A} (f : A -> bool) (l : list A) :
  count_b (map f l) = length (filter f l).
Proof.
  unfold count_b. induction l as [|a l IH]; simpl; [reflexivity|].
  destruct (f a); simpl; rewrite IH; reflexivity.
Qed.

(* ------------------------------------------------------------------ walks *)

Lemma in_nbrs g eok v w :
  In w (nbrs g eok v) <-> exists k, In (w, k) (incident g v) /\ eok k = true.
Proof.
  unfold nbrs. rewrite in_map_iff. split.
  - intros [[w' k] [Hw Hin]]. simpl in Hw. subst w'. apply filter_In in Hin. exists k. exact Hin.
  - intros [k [Hin Hk]]. exists (w, k). split; [reflexivity|]. apply filter_In. auto.
Qed.

Lemma nbrs_sym g eok v w : In w (nbrs g eok v) <-> In v (nbrs g eok w).
Proof.
  rewrite !in_nbrs. split; intros [k [H1 H2]]; exists k; split; auto; apply incident_sym; exact H1.
Qed.

Lemma reach_vok g vok eok u v : reach g vok eok u v -> vok u = true /\ vok v = true.
Proof. induction 1; tauto. Qed.

Lemma reach_mono g (vok vok' eok eok' : nat -> bool) u v :
  (forall x, vok x = true -> vok' x = true) -> (forall k, eok k = true -> eok' k = true) ->
  reach g vok eok u v -> reach g vok' eok' u v.
Proof.
  intros Hv He. induction 1 as [v Hv0|u v w Huv IH Hw Hok].
  - apply reach_refl. auto.
  - eapply reach_step; eauto. apply in_nbrs in Hw. destruct Hw as [k [H1 H2]].
    apply in_nbrs. exists k. auto.
Qed.

Lemma reach_trans g vok eok u v w :
  reach g vok eok u v -> reach g vok eok v w -> reach g vok eok u w.
Proof.
  intros Huv Hvw. revert Huv. induction Hvw as [v Hv|v x y Hvx IH Hy Hok]; intros Huv; [exact Huv|].
  eapply reach_step; [apply IH; exact Huv| exact Hy | exact Hok].
Qed.

Lemma reach_edge g (vok eok : nat -> bool) u w :
  vok u = true -> vok w = true -> In w (nbrs g eok u) -> reach g vok eok u w.
Proof. intros Hu Hw H. eapply reach_step; eauto. apply reach_refl. exact Hu. Qed.

Lemma reach_sym g vok eok u v : reach g vok eok u v -> reach g vok eok v u.
Proof.
  induction 1 as [v Hv|u v w Huv IH Hw Hok]; [apply reach_refl; exact Hv|].
  eapply reach_trans; [|exact IH].
  apply reach_edge; auto.
  - apply reach_vok in Huv. tauto.
  - apply nbrs_sym. exact Hw.
Qed.
