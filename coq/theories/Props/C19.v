From Coq Require Import ZArith List Bool Permutation.
From Cspuz Require Import Lib.PyErr Generator.XorShift Generator.XorShiftProofs Generator.Builder
  Generator.BuilderProofs Generator.Anneal Generator.AnnealProofs Generator.ShuffleBij Generator.C19Final.
Import ListNotations.
Open Scope Z_scope.

(* --- the deterministic PRNG --- *)

Theorem xorshift_range : forall seed k,
  wf (after k (seed_state seed)) /\ 0 <= word_at k (seed_state seed) < M32.
Proof. exact xorshift_range_all. Qed.
Print Assumptions xorshift_range.

Theorem randint_range : forall a b s v s', randint a b s = Done v s' -> a <= v <= b.
Proof. exact randint_range. Qed.
Print Assumptions randint_range.

Theorem randint_outcomes : forall a b s,
  match randint a b s with
  | Done v _ => a <= v <= b
  | Raise e => e = ValueError /\ (b < a \/ M32 < b - a + 1)
  | Diverge => True
  end.
Proof. exact randint_total_range. Qed.
Print Assumptions randint_outcomes.

Theorem randint_first_accepted : forall a b s v s',
  randint a b s = Done v s' ->
  exists k, s' = after (S k) s /\ word_at k s < limit_of (b - a + 1) /\
            (forall j, (j < k)%nat -> limit_of (b - a + 1) <= word_at j s) /\
            v = a + word_at k s mod (b - a + 1).
Proof. exact randint_first_accepted. Qed.
Print Assumptions randint_first_accepted.

Theorem randint_uniform : forall a b v,
  let w := b - a + 1 in
  0 < w <= M32 -> a <= v <= b ->
  (forall k, 0 <= k < M32 / w ->
      0 <= (v - a) + k * w < limit_of w /\ a + ((v - a) + k * w) mod w = v) /\
  (forall k k', (v - a) + k * w = (v - a) + k' * w -> k = k') /\
  (forall x, 0 <= x < limit_of w -> a + x mod w = v ->
      exists k, 0 <= k < M32 / w /\ x = (v - a) + k * w).
Proof. exact randint_uniform. Qed.
Print Assumptions randint_uniform.

Theorem rejection_accepts_more_than_half : forall w, 0 < w <= M32 -> M32 < 2 * limit_of w.
Proof. exact limit_more_than_half. Qed.
Print Assumptions rejection_accepts_more_than_half.

Theorem choice_uniform : forall (A : Type) (l : list A) s a s',
  choice l s = Done a s' ->
  exists idx, randint 0 (Z.of_nat (length l) - 1) s = Done idx s' /\
              0 <= idx < Z.of_nat (length l) /\ nth_error l (Z.to_nat idx) = Some a.
Proof. exact @choice_inv. Qed.
Print Assumptions choice_uniform.

Theorem random_range : forall s x s', wf s -> random_num s = Done x s' -> 0 <= x < M32 /\ wf s'.
Proof. exact random_range. Qed.
Print Assumptions random_range.

Theorem shuffle_permutation : forall (A : Type) (l l' : list A) s s',
  shuffle l s = Done l' s' ->
  Permutation l l' /\
  exists js, length js = (length l - 1)%nat /\ l' = shuffle_with js 1 l /\
             forall k j, nth_error js k = Some j -> (j <= S k)%nat.
Proof. exact shuffle_permutation. Qed.
Print Assumptions shuffle_permutation.

Theorem shuffle_bijective : forall (A : Type) (l l' : list A),
  NoDup l -> Permutation l l' ->
  exists js, draws_ok (length l) js /\ shuffle_with js 1 l = l' /\
             forall js', draws_ok (length l) js' -> shuffle_with js' 1 l = l' -> js' = js.
Proof. exact shuffle_bijective_proved. Qed.
Print Assumptions shuffle_bijective.

(* --- builders and the neighbour generator --- *)

Theorem neighbours_local : forall pt p s qs s' q,
  shape pt p -> neighbours pt p s = Done qs s' -> In q qs -> nb pt p q.
Proof. exact neighbours_nb. Qed.
Print Assumptions neighbours_local.

Theorem array_neighbour_values : forall c g s us s' l,
  b_candidates (BArray c) (VGrid g) s = Done us s' -> In (UCells l) us ->
  grid_local c g (apply_cells g l) /\ (length l <= 4)%nat /\
  forall y x, (forall v, ~ In (y, x, v) l) -> cell (apply_cells g l) y x = cell g y x.
Proof. exact array_neighbour_local. Qed.
Print Assumptions array_neighbour_values.

Theorem symmetry_kept : forall c g s us s' l,
  a_symmetry c = true -> full c g -> sym_inv c g ->
  b_candidates (BArray c) (VGrid g) s = Done us s' -> In (UCells l) us ->
  sym_inv c (apply_cells g l) /\ full c (apply_cells g l).
Proof. exact symmetry_kept. Qed.
Print Assumptions symmetry_kept.

Theorem adjacency_kept : forall c g s us s' l,
  (forall dy dx, In (dy, dx) (a_disallow c) -> In (- dy, - dx) (a_disallow c)) ->
  ~ In (0, 0) (a_disallow c) ->
  full c g -> (a_symmetry c = true -> sym_inv c g) -> adj_inv c g ->
  set_candidates c g s = Done us s' -> In (UCells l) us ->
  adj_inv c (apply_cells g l).
Proof. exact adjacency_kept. Qed.
Print Assumptions adjacency_kept.

(* --- generate_problem --- *)

Theorem generate_sound : forall (P A W : Type) solver uniqueness score pretest clue_penalty accept neighbours
    initial max_steps solve_initial w0 s0 r e,
  generate P A W solver uniqueness score pretest clue_penalty accept neighbours
           initial max_steps solve_initial w0 s0 = Finished r e ->
  (forall p, r = Some p ->
      offered P neighbours initial p /\
      accepted P A W solver uniqueness pretest p (e_world e) /\
      exists tr, e_trace e = tr ++ [EvSolve p true]) /\
  (forall q, solved_in P (e_trace e) q -> q = initial \/ offered P neighbours initial q).
Proof. exact generate_sound. Qed.
Print Assumptions generate_sound.

Theorem generate_neighbours_local : forall (A W : Type) solver uniqueness score pretest clue_penalty accept pt
    max_steps solve_initial w0 s0 r e,
  generate prob A W solver uniqueness score pretest clue_penalty accept (neighbours pt) (initial_of pt)
           max_steps solve_initial w0 s0 = Finished r e ->
  (forall p, r = Some p ->
      accepted prob A W solver uniqueness pretest p (e_world e) /\
      (exists tr, e_trace e = tr ++ [EvSolve p true]) /\
      exists cur, reachable prob (neighbours pt) (initial_of pt) cur /\ shape pt cur /\ nb pt cur p) /\
  (forall q, solved_in prob (e_trace e) q ->
      q = initial_of pt \/
      exists cur, reachable prob (neighbours pt) (initial_of pt) cur /\ shape pt cur /\ nb pt cur q).
Proof. exact generate_local. Qed.
Print Assumptions generate_neighbours_local.

(* tie T: the functions the translator produces from the CURRENT source of deterministic_random.py (Gen/PyIntRandom.v,
   regenerated on every run: XorShift.__init__, XorShift.next, the argument checks / limit computation and the
   acceptance test of randint) are the model's, which every theorem above is about; randint is the rejection loop over
   the translated pieces *)
From Cspuz Require Import Gen.PyIntRandom Generator.XorShiftGen.
Theorem xorshift_init_from_source : forall seed, snd (xorshift_init_py seed) = fields (seed_state seed).
Proof. exact xorshift_init_py_eq. Qed.
Print Assumptions xorshift_init_from_source.

Theorem xorshift_next_from_source : forall s,
  xorshift_next_py (sx s) (sy s) (sz s) (sw s) = (fst (next s), fields (snd (next s))).
Proof. exact xorshift_next_py_eq. Qed.
Print Assumptions xorshift_next_from_source.

Theorem randint_from_source : forall a b s,
  randint a b s =
  match randint_prelude_py a b with
  | Err e => Raise e
  | Ok (w, limit) => draw_loop RANDINT_FUEL (randint_accept_py a w limit) s
  end.
Proof. exact XorShiftGen.randint_from_source. Qed.
Print Assumptions randint_from_source.
