open Model
open Zutil

let err e = "E " ^ string_of_int (int_of_nat (pyerr_code e))
let show_value = function VB true -> "T" | VB false -> "F" | VI z -> string_of_int (int_of_z z)
let show_ovalues l = "[" ^ String.concat "" (List.map (function None -> " _" | Some v -> " " ^ show_value v) l) ^ " ]"
let parse_value = function "T" -> VB true | "F" -> VB false | s -> VI (z_of_int (int_of_string s))

let take_list toks = match toks with
  | "[" :: r -> let rec go acc r = match r with
      | "]" :: r' -> (List.rev acc, r') | t :: r' -> go (t :: acc) r' | [] -> failwith "list" in go [] r
  | _ -> failwith "list"

let show_result = function
  | Unsat -> "U"
  | Sat s -> "S " ^ show_ovalues s
  | OutOfFuel -> "FUEL"

(* script:  U | [ v v v ]  ...  *)
let rec parse_script toks = match toks with
  | [] -> []
  | "U" :: r -> None :: parse_script r
  | "[" :: _ -> let (vs, r) = take_list toks in Some (List.map parse_value vs) :: parse_script r
  | _ -> failwith "script"

let handle toks = match toks with
  | "SOLVE" :: rest ->
      let (st, _) = Exprio.parse_state rest in
      (match solve bf_oracle st with Err e -> err e | Ok r -> show_result r)
  | "SOLVEKEYS" :: rest ->
      let (st, _) = Exprio.parse_state rest in
      (match solve bf_oracle st with Err e -> err e
       | Ok (Sat s) -> show_result (Sat (on_keys st.keys s)) | Ok r -> show_result r)
  | "FACTS" :: rest ->
      let (st, _) = Exprio.parse_state rest in
      (match common_facts st with None -> "U" | Some f -> "S " ^ show_ovalues f)
  | "SCRIPT" :: fuel :: rest ->
      (* SCRIPT <fuel|auto> [ decls ] [ keys ] script... *)
      let (ds, r) = take_list rest in
      let ds = List.map Exprio.parse_decl ds in
      let (ks, r) = take_list r in
      let ks = List.map (fun k -> k = "1") ks in
      let script = parse_script r in
      let fuel = if fuel = "auto" then S (n_keys ks) else nat_of_int (int_of_string fuel) in
      (match solve_scripted ds ks fuel script with
       | Err e -> err e
       | Ok (r, b) -> show_result r ^ " | " ^ Exprio.show_expr_list b.sc_log)
  | _ -> "EXN bad request"

let () = main_loop handle
