"""C11 plug-in: norinori (solve_norinori(height, width, blocks))."""
import c11lib as L

NAME = "norinori"
MODULE = "cspuz.puzzle.norinori"
FUNC = "solve_norinori"
TIER1 = ("Norinori", "solve_norinori_model")


def call(mod, pb):
    return mod.solve_norinori(pb["h"], pb["w"], [[tuple(c) for c in b] for b in pb["blocks"]])


def ncand(pb):
    return 2 ** (pb['h'] * pb['w'])


def encode(pb):
    return [[pb["h"], pb["w"]], L.flat(L.region_ids(pb["h"], pb["w"], pb["blocks"]))]


def families(tier, rng):
    th = tier == "thorough"
    for (h, w) in [(1, 1), (1, 2), (2, 1), (1, 3), (3, 1), (2, 2), (1, 4), (4, 1), (2, 3), (3, 2)]:
        parts = list(L.region_partitions(h, w))
        for blocks in (parts if th else L.sample(rng, parts, 25)):
            yield {"h": h, "w": w, "blocks": blocks}
    for (h, w) in [(3, 3), (2, 4), (4, 2), (3, 4), (4, 4)]:
        for blocks in L.sample(rng, L.region_partitions(h, w, min_size=2, max_size=6) if h * w <= 9
                               else _random_parts(rng, h, w, 200 if th else 20), 200 if th else 20):
            yield {"h": h, "w": w, "blocks": blocks}


def _random_parts(rng, h, w, k):
    """random partitions into connected regions by growing from seeds"""
    out = []
    for _ in range(k):
        n = rng.randint(2, max(2, h * w // 3))
        cells = [(y, x) for y in range(h) for x in range(w)]
        seeds = rng.sample(cells, n)
        owner = {c: i for i, c in enumerate(seeds)}
        while len(owner) < len(cells):
            c = rng.choice([c for c in cells if c not in owner and any(
                (c[0] + d[0], c[1] + d[1]) in owner for d in ((1, 0), (-1, 0), (0, 1), (0, -1)))])
            nb = [owner[(c[0] + d[0], c[1] + d[1])] for d in ((1, 0), (-1, 0), (0, 1), (0, -1))
                  if (c[0] + d[0], c[1] + d[1]) in owner]
            owner[c] = rng.choice(nb)
        blocks = [[] for _ in range(n)]
        for c in cells:
            blocks[owner[c]].append(list(c))
        blocks.sort(key=lambda b: b[0])
        out.append(blocks)
    return out


def tier2(tier, rng):
    th = tier == "thorough"
    for (h, w) in [(1, 2), (2, 2), (2, 3), (3, 3)]:
        parts = list(L.region_partitions(h, w, max_size=6))
        for blocks in L.sample(rng, parts, 40 if th else 6):
            yield {"h": h, "w": w, "blocks": blocks}


def tier1_problems(tier, rng):
    """program-capture tie: every partition of the tiniest boards, random partitions of larger and non-square ones"""
    th = tier == "thorough"
    for (h, w) in [(1, 1), (1, 2), (2, 1), (1, 3), (2, 2), (2, 3), (3, 2)]:
        parts = list(L.region_partitions(h, w))
        for blocks in (parts if th else L.sample(rng, parts, 15)):
            yield {"h": h, "w": w, "blocks": blocks}
    for (h, w) in [(3, 3), (2, 5), (5, 2), (4, 4), (3, 6), (6, 5), (1, 7), (7, 1), (8, 8)]:
        for blocks in _random_parts(rng, h, w, 12 if th else 3):
            yield {"h": h, "w": w, "blocks": blocks}


def big(tier, rng):
    """5x5 / 4x6 / 6x4 boards with 3-4 rooms (too many candidate grids to enumerate: every grid the solver admits,
    up to the cap, is checked against the rules)"""
    th = tier == "thorough"
    for (h, w) in [(5, 5), (4, 6), (6, 4)]:
        k = 0
        for _ in range(400):
            blocks = L.random_rooms(rng, h, w, rng.choice([3, 4]))
            if all(len(b) >= 2 for b in blocks):
                yield {"h": h, "w": w, "blocks": blocks}
                k += 1
                if k >= (16 if th else 4):
                    break
