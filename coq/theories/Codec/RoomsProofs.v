(* Rooms: canonical partitions, their room-index function, and the decoder on their border bitmaps. *)
From Coq Require Import ZArith List Ascii Bool NArith Lia Sorting.Sorted Sorting.Permutation.
From Cspuz Require Import Lib.PyErr Codec.Comb Codec.CombWf Codec.RoomsGrid Codec.RoomsFill.
Import ListNotations.
Local Open Scope Z_scope.

Definition cell_eqb (a b : cell) : bool := Nat.eqb (fst a) (fst b) && Nat.eqb (snd a) (snd b).

Lemma cell_eqb_eq a b : cell_eqb a b = true <-> a = b.
Proof.
  unfold cell_eqb. rewrite andb_true_iff, !Nat.eqb_eq. destruct a, b; simpl. split.
  - intros [? ?]; subst; auto.
  - intros E; inversion E; auto.
Qed.

Lemma existsb_cell c r : existsb (cell_eqb c) r = true <-> In c r.
Proof.
  rewrite existsb_exists. split.
  - intros (x & Hin & E). apply cell_eqb_eq in E. subst; auto.
  - intros Hin. exists c. split; auto. apply cell_eqb_eq; auto.
Qed.

(* index of the first room that contains c *)
Fixpoint rid_from (rs : list (list cell)) (i : Z) (c : cell) : Z :=
  match rs with
  | [] => i
  | r :: rs' => if existsb (cell_eqb c) r then i else rid_from rs' (i + 1) c
  end.
Definition rid_of (rs : list (list cell)) (c : cell) : Z := rid_from rs 0 c.

Lemma nodup_app_left {A} (l1 l2 : list A) : NoDup (l1 ++ l2) -> NoDup l1.
Proof.
  induction l1 as [|a l1 IH]; simpl; intros Hnd; [constructor|].
  inversion Hnd as [|? ? Ha Hnd']; subst. constructor; auto. intros Hin. apply Ha. apply in_or_app. auto.
Qed.

Lemma nodup_app_parts {A} (l1 l2 : list A) : NoDup (l1 ++ l2) ->
  NoDup l2 /\ forall x, In x l1 -> ~ In x l2.
Proof.
  induction l1 as [|a l1 IH]; simpl; intros Hnd.
  - split; auto.
  - inversion Hnd as [|? ? Ha Hnd']; subst. destruct (IH Hnd') as [H2 Hdis]. split; auto.
    intros x [E|Hx] Hin2.
    + subst. apply Ha. apply in_or_app. auto.
    + apply (Hdis x Hx Hin2).
Qed.

Lemma rid_from_room rs : NoDup (concat rs) -> forall j i c, (j < length rs)%nat -> In c (nth j rs []) ->
  rid_from rs i c = i + Z.of_nat j.
Proof.
  induction rs as [|r rs IH]; intros Hnd j i c Hj Hin; simpl in *; [lia|].
  destruct (nodup_app_parts _ _ Hnd) as [Hnd' Hdis].
  destruct j as [|j].
  - apply existsb_cell in Hin. rewrite Hin. lia.
  - assert (Hnot : existsb (cell_eqb c) r = false).
    { destruct (existsb (cell_eqb c) r) eqn:E; auto. apply existsb_cell in E. exfalso.
      apply (Hdis c E). apply in_concat. exists (nth j rs []). split; auto. apply nth_In. lia. }
    rewrite Hnot. rewrite (IH Hnd' j (i + 1) c) by (auto; lia). lia.
Qed.

Lemma nodup_concat_nth {A} (ls : list (list A)) : NoDup (concat ls) -> forall i, (i < length ls)%nat -> NoDup (nth i ls []).
Proof.
  induction ls as [|l ls IH]; simpl; intros Hnd i Hi; [lia|].
  destruct i as [|i].
  - eapply nodup_app_left; eauto.
  - apply IH; [|lia]. apply (nodup_app_parts _ _ Hnd).
Qed.

Lemma in_concat_nth {A} (ls : list (list A)) (c : A) : In c (concat ls) ->
  exists j, (j < length ls)%nat /\ In c (nth j ls []).
Proof.
  induction ls as [|l ls IH]; simpl; intros H; [contradiction|].
  apply in_app_or in H as [H|H].
  - exists 0%nat. split; auto; lia.
  - destruct (IH H) as (j & Hj & Hin). exists (S j). split; auto; lia.
Qed.

Lemma sorted_nth {A} (R : A -> A -> Prop) l d : StronglySorted R l ->
  forall i j, (i < j < length l)%nat -> R (nth i l d) (nth j l d).
Proof.
  induction 1 as [|a l Hs IH Hf]; intros i j Hij; simpl in *; [lia|].
  destruct i as [|i], j as [|j]; try lia.
  - rewrite Forall_forall in Hf. apply Hf. apply nth_In. lia.
  - apply IH. lia.
Qed.

Lemma filter_sorted (f : cell -> bool) l : StronglySorted cell_lt l -> StronglySorted cell_lt (filter f l).
Proof.
  induction 1 as [|a l Hs IH Hf]; simpl; [constructor|].
  destruct (f a); auto. constructor; auto.
  rewrite Forall_forall in *. intros x Hx. apply filter_In in Hx as [Hx _]. auto.
Qed.

(* strictly sorted lists with the same elements are equal *)
Lemma sorted_same_elements l1 : forall l2, StronglySorted cell_lt l1 -> StronglySorted cell_lt l2 ->
  (forall c, In c l1 <-> In c l2) -> l1 = l2.
Proof.
  induction l1 as [|a l1 IH]; intros l2 H1 H2 Hiff.
  - destruct l2 as [|b l2]; auto. exfalso. apply (Hiff b). left; auto.
  - destruct l2 as [|b l2]. { exfalso. apply (Hiff a). left; auto. }
    inversion H1 as [|? ? H1' Hf1]; inversion H2 as [|? ? H2' Hf2]; subst.
    rewrite Forall_forall in Hf1, Hf2.
    assert (a = b).
    { destruct (proj1 (Hiff a) (or_introl eq_refl)) as [E|Hin]; auto.
      destruct (proj2 (Hiff b) (or_introl eq_refl)) as [E|Hin']; auto.
      exfalso. apply (cell_lt_irrefl a). eapply cell_ltb_trans; [apply Hf1; exact Hin'|apply Hf2; exact Hin]. }
    subst b. f_equal. apply IH; auto.
    intros c. split; intros Hc.
    + destruct (proj1 (Hiff c) (or_intror Hc)) as [E|Hin]; auto. subst c. exfalso.
      apply (cell_lt_irrefl a). apply Hf1; auto.
    + destruct (proj2 (Hiff c) (or_intror Hc)) as [E|Hin]; auto. subst c. exfalso.
      apply (cell_lt_irrefl a). apply Hf2; auto.
Qed.

Section Canonical.
  Variables (H W : nat).
  Variable rs : list (list cell).
  Hypothesis Hval : valid_rooms (Z.of_nat H) (Z.of_nat W) rs.
  Hypothesis Hcells : Forall (fun r => StronglySorted cell_lt r) rs.
  Hypothesis Hheads : StronglySorted (fun r1 r2 => cell_lt (room_head r1) (room_head r2)) rs.

  Let cellsHW := cells H W.

  Lemma can_nodup : NoDup (concat rs).
  Proof.
    destruct Hval as (_ & Hperm & _). eapply Permutation_NoDup; [apply Permutation_sym; exact Hperm|].
    apply sorted_nodup. apply cells_of_sorted.
  Qed.

  Lemma can_in c : In c (concat rs) <-> inb H W c.
  Proof.
    destruct Hval as (_ & Hperm & _). rewrite <- (cells_inb H W). split; intros Hc.
    - eapply Permutation_in; eauto.
    - eapply Permutation_in; [apply Permutation_sym|]; eauto.
  Qed.

  Lemma can_room j c : (j < length rs)%nat -> In c (nth j rs []) -> inb H W c /\ rid_of rs c = Z.of_nat j.
  Proof.
    intros Hj Hin. split.
    - apply can_in. apply in_concat. exists (nth j rs []). split; auto. apply nth_In; auto.
    - unfold rid_of. rewrite (rid_from_room rs can_nodup j 0 c Hj Hin). lia.
  Qed.

  Lemma can_rid c : inb H W c -> exists j, (j < length rs)%nat /\ In c (nth j rs []) /\ rid_of rs c = Z.of_nat j.
  Proof.
    intros Hc. apply can_in in Hc. destruct (in_concat_nth rs c Hc) as (j & Hj & Hin).
    exists j. split; auto. split; auto. apply (can_room j c Hj Hin).
  Qed.

  Lemma can_rid_range c : inb H W c -> 0 <= rid_of rs c < Z.of_nat (length rs).
  Proof. intros Hc. destruct (can_rid c Hc) as (j & Hj & _ & E). lia. Qed.

  Lemma can_rid_room c j : inb H W c -> rid_of rs c = Z.of_nat j -> (j < length rs)%nat /\ In c (nth j rs []).
  Proof.
    intros Hc E. destruct (can_rid c Hc) as (j' & Hj & Hin & E'). assert (j = j') by lia. subst. auto.
  Qed.

  Lemma can_connected a b : inb H W a -> inb H W b -> rid_of rs a = rid_of rs b -> path H W (rid_of rs) a b.
  Proof.
    intros Ha Hb E. destruct (can_rid a Ha) as (j & Hj & Hina & Ea).
    destruct (can_rid_room b j Hb ltac:(congruence)) as (_ & Hinb).
    destruct Hval as (_ & _ & Hconn). rewrite Forall_forall in Hconn.
    specialize (Hconn (nth j rs []) (nth_In _ _ Hj) a b Hina Hinb).
    induction Hconn as [a Hin|a b c Hc IH Hinc Hadj].
    - constructor. auto.
    - destruct (can_room j c Hj Hinc) as [Hci Hcr].
      assert (Hbin : In b (nth j rs [])).
      { clear - Hc Hina. induction Hc; auto. }
      destruct (can_room j b Hj Hbin) as [Hbi Hbr].
      eapply path_step; eauto; try congruence. apply IH; auto. congruence.
  Qed.

  Definition can_heads (i : nat) : cell := room_head (nth i rs []).

  Lemma can_heads_ok i : (i < length rs)%nat ->
    inb H W (can_heads i) /\ rid_of rs (can_heads i) = Z.of_nat i /\
    forall c, inb H W c -> rid_of rs c = Z.of_nat i -> c = can_heads i \/ cell_lt (can_heads i) c.
  Proof.
    intros Hi. destruct Hval as (Hne & _ & _). pose proof Hcells as Hsorted.
    rewrite Forall_forall in Hne, Hsorted.
    pose proof (Hne _ (nth_In rs [] Hi)) as Hne_i. pose proof (Hsorted _ (nth_In rs [] Hi)) as Hs_i.
    unfold can_heads, room_head. destruct (nth i rs []) as [|a r] eqn:Er; [congruence|]. simpl.
    assert (Hin : In a (nth i rs [])) by (rewrite Er; left; auto).
    destruct (can_room i a Hi Hin) as [Hai Har]. split; auto. split; auto.
    intros c Hc E. destruct (can_rid_room c i Hc E) as (_ & Hcin). rewrite Er in Hcin.
    destruct Hcin as [E'|Hcin]; auto. right. inversion Hs_i as [|? ? _ Hf]; subst.
    rewrite Forall_forall in Hf. auto.
  Qed.

  Lemma can_heads_sorted i j : (i < j < length rs)%nat -> cell_lt (can_heads i) (can_heads j).
  Proof.
    intros Hij. pose proof Hheads as Hs. unfold can_heads.
    apply (sorted_nth _ rs [] Hs i j Hij).
  Qed.

  Lemma can_room_cells i : (i < length rs)%nat -> room_cells_of (rid_of rs) cellsHW i = nth i rs [].
  Proof.
    intros Hi. pose proof Hcells as Hsorted. rewrite Forall_forall in Hsorted.
    apply sorted_same_elements.
    - unfold room_cells_of. apply filter_sorted. apply cells_of_sorted.
    - apply Hsorted. apply nth_In; auto.
    - intros c. unfold room_cells_of. rewrite filter_In. unfold cellsHW. rewrite cells_inb. rewrite Z.eqb_eq. split.
      + intros [Hc E]. apply (can_rid_room c i Hc E).
      + intros Hin. apply (can_room i c Hi Hin).
  Qed.

  Theorem decode_borders_canonical allow :
    rooms_of_borders (Z.of_nat H) (Z.of_nat W) allow (vg H W (rid_of rs)) (hg H W (rid_of rs))
    = Ok (rooms_to_pv rs).
  Proof.
    rewrite (rooms_of_borders_correct H W (rid_of rs) (length rs) can_rid_range can_connected can_heads
               can_heads_ok can_heads_sorted allow).
    f_equal. f_equal. fold cellsHW.
    apply (nth_ext _ _ [] []).
    - rewrite map_length, seq_length. reflexivity.
    - intros i Hi. rewrite map_length, seq_length in Hi.
      rewrite nth_indep with (d' := room_cells_of (rid_of rs) cellsHW 0%nat) by (rewrite map_length, seq_length; auto).
      rewrite map_nth. rewrite seq_nth by auto. apply can_room_cells. auto.
  Qed.

  (* ---------------------------------------------------------------- Rooms._serialize: the room-id grid *)
  Definition rid := rid_of rs.
  Definition AInv (i : Z) (pre : list cell) (g : list (list Z)) : Prop :=
    wfg H W g /\
    forall c, inb H W c ->
      getc g c = Ok (if (rid c <? i) || ((rid c =? i) && existsb (cell_eqb c) pre) then rid c else -1).

  Lemma assign_cells_inv i : 0 <= i -> forall post pre g, AInv i pre g ->
    (forall c, In c post -> inb H W c /\ rid c = i) -> NoDup (pre ++ post) ->
    exists g', rooms_assign_cells (Z.of_nat H) (Z.of_nat W) g i (map cell_to_pv post) = Ok g' /\ AInv i (pre ++ post) g'.
  Proof.
    intros Hi. induction post as [|[y x] post IH]; intros pre g [Hw Hg] Hpost Hnd.
    - exists g. rewrite app_nil_r. split; auto. split; auto.
    - destruct (Hpost (y, x) (or_introl eq_refl)) as [[Hy Hx] Hr]. simpl in Hy, Hx.
      cbn [map cell_to_pv cell_pv fst snd rooms_assign_cells].
      assert (E1 : ((0 <=? Z.of_nat y) && (Z.of_nat y <? Z.of_nat H)) = true).
      { apply andb_true_iff. split; [apply Z.leb_le|apply Z.ltb_lt]; lia. }
      assert (E2 : ((0 <=? Z.of_nat x) && (Z.of_nat x <? Z.of_nat W)) = true).
      { apply andb_true_iff. split; [apply Z.leb_le|apply Z.ltb_lt]; lia. }
      rewrite E1, E2, !Nat2Z.id.
      change (grid_get g y x) with (getc g (y, x)). rewrite (Hg (y, x) (conj Hy Hx)).
      assert (Hnotpre : existsb (cell_eqb (y, x)) pre = false).
      { destruct (existsb (cell_eqb (y, x)) pre) eqn:E; auto. apply existsb_cell in E. exfalso.
        apply NoDup_remove_2 in Hnd. apply Hnd. apply in_or_app. auto. }
      rewrite Hr, Z.ltb_irrefl, Z.eqb_refl, Hnotpre. cbn [orb andb]. change (-1 =? -1) with true. cbv iota.
      destruct (IH (pre ++ [(y, x)]) (grid_set g y x i)) as (g' & Hra & Hinv).
      + split; [apply grid_set_wfg; auto|]. intros c Hc.
        destruct (cell_eqb c (y, x)) eqn:Ec.
        * apply cell_eqb_eq in Ec. subst c. unfold getc. simpl. rewrite (grid_get_set_same H W) by auto.
          rewrite Hr, Z.ltb_irrefl, Z.eqb_refl. rewrite existsb_app. simpl.
          replace (cell_eqb (y, x) (y, x)) with true by (symmetry; apply cell_eqb_eq; auto).
          rewrite orb_true_r. reflexivity.
        * unfold getc. rewrite grid_get_set_other.
          2:{ intros E. destruct c. simpl in E. inversion E; subst. rewrite (proj2 (cell_eqb_eq _ _) eq_refl) in Ec. discriminate. }
          change (grid_get g (fst c) (snd c)) with (getc g c). rewrite (Hg c Hc).
          rewrite existsb_app. simpl. rewrite Ec. rewrite !orb_false_r. reflexivity.
      + intros c Hc. apply Hpost. right; auto.
      + rewrite <- app_assoc. exact Hnd.
      + exists g'. rewrite <- app_assoc in Hinv. auto.
  Qed.

  Lemma assign_inv : forall todo i g, (i + length todo = length rs)%nat ->
    (forall j, (j < length todo)%nat -> nth j todo [] = nth (i + j) rs []) ->
    AInv (Z.of_nat i) [] g ->
    exists g', rooms_assign (Z.of_nat H) (Z.of_nat W) g (Z.of_nat i) (map room_to_pv todo) = Ok g' /\
               AInv (Z.of_nat (length rs)) [] g'.
  Proof.
    induction todo as [|r todo IH]; intros i g Hlen Hnth Hinv.
    - exists g. simpl in *. replace (length rs) with i by lia. auto.
    - simpl in Hlen. cbn [map room_to_pv rooms_assign].
      assert (Hr : r = nth i rs []). { specialize (Hnth 0%nat ltac:(simpl; lia)). simpl in Hnth. rewrite Nat.add_0_r in Hnth. auto. }
      assert (Hi : (i < length rs)%nat) by lia.
      destruct (assign_cells_inv (Z.of_nat i) ltac:(lia) r [] g Hinv) as (g1 & Hc1 & Hinv1).
      + intros c Hc. subst r. apply (can_room i c Hi Hc).
      + simpl. subst r. apply (nodup_concat_nth rs can_nodup i Hi).
      + rewrite Hc1. replace (Z.of_nat i + 1) with (Z.of_nat (S i)) by lia.
        apply IH.
        * lia.
        * intros j Hj. specialize (Hnth (S j) ltac:(simpl; lia)). simpl in Hnth. rewrite Hnth. f_equal. lia.
        * destruct Hinv1 as [Hw1 Hg1]. split; auto. intros c Hc. rewrite (Hg1 c Hc).
          change ([] ++ r) with r. cbn [existsb]. rewrite andb_false_r, orb_false_r. f_equal.
          destruct (Z.ltb_spec (rid c) (Z.of_nat i)) as [Hlt|Hge];
            destruct (Z.ltb_spec (rid c) (Z.of_nat (S i))) as [Hlt'|Hge']; cbn [orb]; try lia; auto.
          -- destruct (Z.eqb_spec (rid c) (Z.of_nat i)) as [E|Hne]; [|lia]. cbn [andb].
             destruct (can_rid_room c i Hc E) as (_ & Hin). subst r. apply existsb_cell in Hin. rewrite Hin. reflexivity.
          -- destruct (Z.eqb_spec (rid c) (Z.of_nat i)) as [E|Hne]; [lia|]. reflexivity.
  Qed.

  Lemma grid_ext g (f : nat -> nat -> Z) : wfg H W g ->
    (forall y x, (y < H)%nat -> (x < W)%nat -> grid_get g y x = Ok (f y x)) -> g = mk_grid H W f.
  Proof.
    intros [Hl Hr] Hg. unfold mk_grid.
    rewrite (list_eq_map_seq H g [] (fun y => nth y g []) Hl (fun i _ => eq_refl)) at 1.
    apply map_ext_in. intros y Hy. apply in_seq in Hy.
    assert (Hrow : nth_error g y = Some (nth y g [])) by (apply nth_error_nth'; lia).
    assert (Hlr : length (nth y g []) = W). { rewrite Forall_forall in Hr. apply Hr. eapply nth_error_In; eauto. }
    apply (list_eq_map_seq W (nth y g []) 0 (fun x => f y x) Hlr).
    intros x Hx. specialize (Hg y x ltac:(lia) Hx). unfold grid_get, nth_res in Hg. rewrite Hrow in Hg.
    destruct (nth_error (nth y g []) x) as [v|] eqn:E; [|discriminate]. inversion Hg; subst.
    apply nth_error_nth with (d := 0) in E. auto.
  Qed.

  Theorem assign_correct :
    rooms_assign (Z.of_nat H) (Z.of_nat W) (neg_grid (Z.of_nat H) (Z.of_nat W)) 0 (map room_to_pv rs)
    = Ok (mk_grid H W (fun y x => rid (y, x))).
  Proof.
    destruct (assign_inv rs 0%nat (neg_grid (Z.of_nat H) (Z.of_nat W))) as (g' & Hra & Hw & Hg); auto.
    - rewrite neg_grid_mk. split; [apply mk_grid_wfg|]. intros c [Hy Hx]. unfold getc. rewrite mk_grid_get by auto.
      pose proof (can_rid_range c (conj Hy Hx)). fold rid in H0. simpl.
      destruct (Z.ltb_spec (rid c) 0); [lia|]. simpl. rewrite andb_false_r. reflexivity.
    - change (Z.of_nat 0) with 0 in Hra. rewrite Hra. f_equal. apply grid_ext; auto.
      intros y x Hy Hx. specialize (Hg (y, x) (conj Hy Hx)). unfold getc in Hg. simpl in Hg. rewrite Hg.
      pose proof (can_rid_range (y, x) (conj Hy Hx)). fold rid in H0.
      destruct (Z.ltb_spec (rid (y, x)) (Z.of_nat (length rs))); [|lia]. reflexivity.
  Qed.
End Canonical.

(* ------------------------------------------------------------------ the border bitmaps as values *)
Definition grid_to_pv_rows (g : list (list Z)) : list pv := map (fun row => VList (map VInt row)) g.

Lemma adj_diff_seq (f : nat -> Z) : forall n s,
  adj_diff (map f (seq s n)) = map (fun x => VInt (if f x =? f (x + 1)%nat then 0 else 1)) (seq s (n - 1)).
Proof.
  induction n as [|n IH]; intros s; simpl; auto.
  destruct n as [|n]; simpl; auto.
  specialize (IH (S s)). simpl in IH. rewrite Nat.sub_0_r in IH. rewrite IH.
  replace (s + 1)%nat with (S s) by lia. reflexivity.
Qed.

Lemma zip_diff_seq (f g : nat -> Z) : forall n s,
  zip_diff (map f (seq s n)) (map g (seq s n)) = map (fun x => VInt (if f x =? g x then 0 else 1)) (seq s n).
Proof. induction n as [|n IH]; intros s; simpl; auto. rewrite IH. reflexivity. Qed.

Lemma rows_diff_seq (W : nat) (f : nat -> nat -> Z) : forall n s,
  rows_diff (map (fun y => map (fun x => f y x) (seq 0 W)) (seq s n)) =
  map (fun y => VList (map (fun x => VInt (if f y x =? f (y + 1)%nat x then 0 else 1)) (seq 0 W))) (seq s (n - 1)).
Proof.
  induction n as [|n IH]; intros s; simpl; auto.
  destruct n as [|n]; simpl; auto.
  specialize (IH (S s)). simpl in IH. rewrite Nat.sub_0_r in IH. rewrite IH.
  rewrite zip_diff_seq. replace (s + 1)%nat with (S s) by lia. reflexivity.
Qed.

Lemma vertical_rows H W (rid : cell -> Z) :
  map (fun row => VList (adj_diff row)) (mk_grid H W (fun y x => rid (y, x))) = grid_to_pv_rows (vg H W rid).
Proof.
  unfold grid_to_pv_rows, vg, mk_grid. rewrite !map_map. apply map_ext. intros y.
  rewrite adj_diff_seq, map_map. reflexivity.
Qed.

Lemma horizontal_rows H W (rid : cell -> Z) :
  rows_diff (mk_grid H W (fun y x => rid (y, x))) = grid_to_pv_rows (hg H W rid).
Proof.
  unfold grid_to_pv_rows, hg, mk_grid. rewrite rows_diff_seq, !map_map. apply map_ext. intros y.
  rewrite map_map. reflexivity.
Qed.

Lemma as_int_grid_rows g : as_int_grid (VList (grid_to_pv_rows g)) = Ok g.
Proof.
  unfold as_int_grid, grid_to_pv_rows. induction g as [|row g IH]; simpl; auto.
  assert (E : mapM (fun c => match c with VInt z => Ok z | _ => Err TypeError end) (map VInt row) = Ok row).
  { induction row as [|z row IHr]; simpl; auto. rewrite IHr. reflexivity. }
  rewrite E. simpl. rewrite IH. reflexivity.
Qed.

(* ------------------------------------------------------------------ the bitmaps through Grid(MultiDigit(2, 5)) *)
From Cspuz Require Import Codec.CombBasics Codec.CombLeaf Codec.CombRoundTrip.

Lemma md25_grid_roundtrip e hh ww g k1 s1 rest : env_ok e -> wfg hh ww g ->
  grid_ser (md_ser 2 5) e (Some (Z.of_nat hh, Z.of_nat ww)) (VList [VList (grid_to_pv_rows g)]) 0 = Ok (Some (k1, s1)) ->
  grid_de (md_de 2 5) e (Some (Z.of_nat hh, Z.of_nat ww)) (s1 ++ rest)
  = Ok (Some (length s1, [VList (grid_to_pv_rows g)])).
Proof.
  intros Henv [Hl Hr] Hser.
  set (c := Grid MD25 (Some (Z.of_nat hh, Z.of_nat ww))).
  change (ser e c (VList [VList (grid_to_pv_rows g)]) 0 = Ok (Some (k1, s1))) in Hser.
  change (de e c (s1 ++ rest) = Ok (Some (length s1, [VList (grid_to_pv_rows g)]))).
  assert (Hk : k1 = 1%nat).
  { apply (grid_ser_inv e) in Hser as (l & dd & flat & _ & _ & _ & Hs). apply seq_ser_inv in Hs as (_ & _ & _ & _ & Hk & _). exact Hk. }
  subst k1.
  destruct (roundtrip_rooms_free e c Henv eq_refl eq_refl [VList (grid_to_pv_rows g)] 0%nat 1%nat s1 rest Hser)
    as (items & Hde & Hf & _ & Hex).
  - exists (map (map VInt) g). simpl. repeat split.
    + unfold grid_to_pv_rows. rewrite map_map. reflexivity.
    + rewrite map_length. lia.
    + rewrite Forall_forall in *. intros r Hin. apply in_map_iff in Hin as (r0 & E & Hin). subst. rewrite map_length.
      rewrite (Hr r0 Hin). reflexivity.
  - destruct rest; simpl; auto.
  - specialize (Hex I). rewrite Hde. destruct items as [|i0 [|i1 items]]; simpl in Hex; try discriminate.
    simpl in Hf. inversion Hf; subst. reflexivity.
Qed.

Lemma md25_grid_first e hw data idx k s : env_ok e ->
  grid_ser (md_ser 2 5) e hw data idx = Ok (Some (k, s)) ->
  match s with [] => True | ch :: _ => b36_lt ch 32 = true end.
Proof.
  intros Henv Hser.
  change (ser e (Grid MD25 hw) data idx = Ok (Some (k, s))) in Hser.
  pose proof (first_of_ser e (Grid MD25 hw) Henv eq_refl eq_refl data idx k s Hser) as Hfs.
  destruct s; auto.
Qed.

(* ------------------------------------------------------------------ the Rooms combinator *)
Lemma skip_value_error_some {A} skip (r : res (option A)) x : skip_value_error skip r = Ok (Some x) -> r = Ok (Some x).
Proof. destruct r as [[a|]|[]]; destruct skip; simpl; congruence. Qed.

Lemma rooms_ser_raw_inv e data idx k s : rooms_ser_raw e data idx = Ok (Some (k, s)) ->
  exists l d room_id k1 s1 k2 s2, py_items data = Ok l /\ nth_error l idx = Some (VList d) /\
    rooms_assign (height e) (width e) (neg_grid (height e) (width e)) 0 d = Ok room_id /\
    grid_ser (md_ser 2 5) e (Some (height e, width e - 1))
      (VList [VList (map (fun row => VList (adj_diff row)) room_id)]) 0 = Ok (Some (k1, s1)) /\
    grid_ser (md_ser 2 5) e (Some (height e - 1, width e)) (VList [VList (rows_diff room_id)]) 0 = Ok (Some (k2, s2)) /\
    k = 1%nat /\ s = s1 ++ s2.
Proof.
  unfold rooms_ser_raw. destruct (py_items data) as [l|] eqn:El; try discriminate.
  destruct (Nat.eqb idx (length l)); try discriminate.
  unfold nth_res. destruct (nth_error l idx) as [v|] eqn:En; try discriminate.
  destruct v; try discriminate. cbv zeta.
  destruct (rooms_assign (height e) (width e) (neg_grid (height e) (width e)) 0 l0) as [room_id|] eqn:Era; try discriminate.
  destruct (all_assigned room_id); try discriminate.
  destruct (grid_ser (md_ser 2 5) e (Some (height e, width e - 1)) _ 0) as [[[k1 s1]|]|] eqn:E1; try discriminate.
  destruct (grid_ser (md_ser 2 5) e (Some (height e - 1, width e)) _ 0) as [[[k2 s2]|]|] eqn:E2; try discriminate.
  intros Hs. inversion Hs; subst. exists l, l0, room_id, k1, s1, k2, s2. repeat split; auto.
Qed.

Lemma rooms_rt e skip allow : env_ok e -> RT e (Rooms skip allow).
Proof.
  intros Henv data idx k s rest Hser Hacc _.
  destruct Henv as [Hh1 Hw1].
  set (H := Z.to_nat (height e)). set (W := Z.to_nat (width e)).
  assert (EH : height e = Z.of_nat H) by (unfold H; lia).
  assert (EW : width e = Z.of_nat W) by (unfold W; lia).
  simpl in Hser. unfold rooms_ser in Hser. apply skip_value_error_some in Hser.
  apply rooms_ser_raw_inv in Hser as (l & d & room_id & k1 & s1 & k2 & s2 & Hl & Hn & Hra & Hs1 & Hs2 & Hk & Hs).
  simpl in Hl. inversion Hl; subst l. clear Hl.
  destruct Hacc as (rs & Hn' & Hcan). rewrite Hn in Hn'. unfold rooms_to_pv in Hn'. inversion Hn'; subst d. clear Hn'.
  rewrite EH, EW in Hcan, Hra.
  change (map room_to_pv rs) with (map room_to_pv rs) in Hra.
  destruct Hcan as (Hval & Hcells & Hheads).
  rewrite (assign_correct H W rs Hval) in Hra. inversion Hra; subst room_id. clear Hra.
  rewrite vertical_rows in Hs1. rewrite horizontal_rows in Hs2.
  assert (EW1 : width e - 1 = Z.of_nat (W - 1)) by lia.
  assert (EH1 : height e - 1 = Z.of_nat (H - 1)) by lia.
  rewrite EH, EW1 in Hs1. rewrite EH1, EW in Hs2.
  exists [rooms_to_pv rs]. subst k s.
  simpl de. unfold rooms_de, rooms_de_raw.
  assert (Ez : ((height e <=? 0) || (width e <=? 0)) = false).
  { apply orb_false_iff. split; apply Z.leb_gt; lia. }
  cbv zeta. rewrite Ez. rewrite <- app_assoc.
  rewrite EH1, EW1. rewrite EH, EW.
  rewrite (md25_grid_roundtrip e H (W - 1) (vg H W (rid rs)) k1 s1 (s2 ++ rest) (conj Hh1 Hw1) (mk_grid_wfg _ _ _) Hs1).
  rewrite skipn_app_exact.
  rewrite (md25_grid_roundtrip e (H - 1) W (hg H W (rid rs)) k2 s2 rest (conj Hh1 Hw1) (mk_grid_wfg _ _ _) Hs2).
  rewrite !as_int_grid_rows.
  unfold rid. rewrite (decode_borders_canonical H W rs Hval Hcells Hheads allow).
  simpl. rewrite app_length. repeat split; auto.
  symmetry. apply firstn1_skipn. exact Hn.
Qed.

Lemma rooms_fs e skip allow : env_ok e -> FS e (Rooms skip allow).
Proof.
  intros Henv data idx k s Hser. simpl in Hser. unfold rooms_ser in Hser. apply skip_value_error_some in Hser.
  apply rooms_ser_raw_inv in Hser as (l & d & room_id & k1 & s1 & k2 & s2 & _ & _ & _ & Hs1 & Hs2 & _ & Hs).
  subst s. pose proof (md25_grid_first e _ _ _ _ _ Henv Hs1) as F1. pose proof (md25_grid_first e _ _ _ _ _ Henv Hs2) as F2.
  destruct s1 as [|c1 s1]; simpl; [destruct s2; auto|auto].
Qed.

Lemma rooms_all e skip allow : env_ok e -> ALL e (Rooms skip allow).
Proof.
  intros Henv _. split; [apply rooms_rt; auto|]. split; [apply rooms_fs; auto|]. split.
  - intros Hst. discriminate.
  - intros data idx k s _ _. exact I.
Qed.

(* ------------------------------------------------------------------ ValuedRooms: the sort is the identity on canonical rooms *)
Lemma py_lt_cells a b : py_lt (cell_to_pv a) (cell_to_pv b) = Ok (cell_ltb a b).
Proof.
  destruct a as [ay ax], b as [by_ bx]. unfold cell_to_pv, cell_pv, cell_ltb. simpl.
  destruct (Z.eqb_spec (Z.of_nat ay) (Z.of_nat by_)) as [E|E].
  - assert (ay = by_) by lia. subst. rewrite Nat.ltb_irrefl, Nat.eqb_refl. simpl.
    destruct (Z.eqb_spec (Z.of_nat ax) (Z.of_nat bx)) as [E2|E2].
    + assert (ax = bx) by lia. subst. rewrite Nat.ltb_irrefl. reflexivity.
    + f_equal. destruct (Z.ltb_spec (Z.of_nat ax) (Z.of_nat bx)); destruct (Nat.ltb_spec ax bx); auto; lia.
  - assert ((ay =? by_)%nat = false) by (apply Nat.eqb_neq; lia). rewrite H. rewrite andb_false_l, orb_false_r.
    f_equal. destruct (Z.ltb_spec (Z.of_nat ay) (Z.of_nat by_)); destruct (Nat.ltb_spec ay by_); auto; lia.
Qed.

Lemma py_min_go_sorted a t : Forall (cell_lt a) t ->
  py_min_go (cell_to_pv a) (map cell_to_pv t) = Ok (cell_to_pv a).
Proof.
  induction 1 as [|x t Hx _ IH]; [reflexivity|]. cbn [map py_min_go].
  rewrite py_lt_cells.
  assert (E : cell_ltb x a = false).
  { destruct (cell_ltb x a) eqn:E; auto. exfalso. apply (cell_lt_irrefl a). eapply cell_ltb_trans; eauto. }
  rewrite E. exact IH.
Qed.

Lemma py_min_room r : r <> [] -> StronglySorted cell_lt r -> py_min (room_to_pv r) = Ok (cell_to_pv (room_head r)).
Proof.
  intros Hne Hs. destruct r as [|a t]; [congruence|]. inversion Hs; subst.
  unfold py_min, room_to_pv. cbn [py_items map room_head hd]. apply py_min_go_sorted; auto.
Qed.

Definition keyed (p : list cell * pv) : pv * (pv * pv) := (cell_to_pv (room_head (fst p)), (room_to_pv (fst p), snd p)).

Lemma sort_keyed_id : forall l : list (list cell * pv),
  StronglySorted (fun p q => cell_lt (room_head (fst p)) (room_head (fst q))) l ->
  sort_by_key (map keyed l) = Ok (map keyed l).
Proof.
  induction 1 as [|p l Hs IH Hf]; [reflexivity|]. cbn [map sort_by_key]. unfold keyed at 1. 
  rewrite IH. destruct l as [|q l]; [reflexivity|]. cbn [map insert_by_key]. unfold keyed at 1.
  rewrite py_lt_cells. inversion Hf; subst. unfold cell_lt in H1. rewrite H1. reflexivity.
Qed.

Lemma zip_pv_combine rs values :
  zip_pv (map room_to_pv rs) values = map (fun p => (room_to_pv (fst p), snd p)) (combine rs values).
Proof. revert values; induction rs as [|r rs IH]; intros [|v values]; simpl; auto. rewrite IH. reflexivity. Qed.

Lemma combine_sorted {A B} (R : A -> A -> Prop) (l : list A) : StronglySorted R l ->
  forall (m : list B), StronglySorted (fun p q => R (fst p) (fst q)) (combine l m).
Proof.
  induction 1 as [|a l Hs IH Hf]; intros m; simpl; [constructor|].
  destruct m as [|b m]; [constructor|]. constructor; auto.
  rewrite Forall_forall in *. intros [a' b'] Hin. apply in_combine_l in Hin. simpl. auto.
Qed.

Lemma vr_sorted_canonical h w rs values : canonical_rooms h w rs -> length values = length rs ->
  vr_sorted (map room_to_pv rs) values
  = Ok (map (fun p => (room_to_pv (fst p), snd p)) (combine rs values)).
Proof.
  intros ((Hne & _ & _) & Hsorted & Hheads) Hlen. unfold vr_sorted. rewrite zip_pv_combine.
  assert (Hm : mapM (fun rv : pv * pv => match py_min (fst rv) with Err e => Err e | Ok k => Ok (k, rv) end)
                 (map (fun p => (room_to_pv (fst p), snd p)) (combine rs values))
               = Ok (map keyed (combine rs values))).
  { assert (Hall : forall p, In p (combine rs values) -> fst p <> [] /\ StronglySorted cell_lt (fst p)).
    { intros [r v] Hin. apply in_combine_l in Hin. simpl. rewrite Forall_forall in Hne, Hsorted. auto. }
    induction (combine rs values) as [|p l IH]; simpl; auto.
    destruct (Hall p (or_introl eq_refl)) as [Hn Hs]. rewrite (py_min_room (fst p) Hn Hs). simpl.
    rewrite IH by (intros q Hq; apply Hall; right; auto). reflexivity. }
  rewrite Hm. rewrite sort_keyed_id.
  - rewrite map_map. reflexivity.
  - apply (combine_sorted (fun r1 r2 => cell_lt (room_head r1) (room_head r2)) rs Hheads values).
Qed.

Lemma map_fst_combine {A B} (l : list A) (m : list B) : length m = length l -> map fst (combine l m) = l.
Proof. revert m; induction l as [|a l IH]; intros [|b m] H; simpl in *; try discriminate; auto. rewrite IH; auto. Qed.

Lemma map_snd_combine {A B} (l : list A) (m : list B) : length m = length l -> map snd (combine l m) = m.
Proof. revert m; induction l as [|a l IH]; intros [|b m] H; simpl in *; try discriminate; auto. rewrite IH; auto. Qed.

(* ------------------------------------------------------------------ the ValuedRooms combinator *)
Lemma vrooms_ser_inv servc e skip data idx k s : vrooms_ser servc e skip data idx = Ok (Some (k, s)) ->
  exists l d0 d1 rooms0 values0 sorted k1 s1 k2 s2,
    py_items data = Ok l /\ nth_error l idx = Some (VTup [d0; d1]) /\ py_items d0 = Ok rooms0 /\ py_items d1 = Ok values0 /\
    vr_sorted rooms0 values0 = Ok sorted /\
    rooms_ser e skip (VList [VList (map fst sorted)]) 0 = Ok (Some (k1, s1)) /\
    seq_ser servc (Z.of_nat (length (map fst sorted))) (VList [VList (map snd sorted)]) 0 = Ok (Some (k2, s2)) /\
    k = 1%nat /\ s = s1 ++ s2.
Proof.
  unfold vrooms_ser. intros H. apply with_item_inv_pv in H as (l & v & Hl & Hn & H).
  destruct v as [| | | |tl]; try discriminate. destruct tl as [|d0 [|d1 [|? ?]]]; try discriminate.
  destruct (py_items d0) as [rooms0|] eqn:E0; try discriminate.
  destruct (py_items d1) as [values0|] eqn:E1; try discriminate.
  destruct (vr_sorted rooms0 values0) as [sorted|] eqn:Es; try discriminate.
  destruct sorted as [|p sorted'] eqn:Esorted; try discriminate. rewrite <- Esorted in *. clear Esorted.
  cbv zeta in H.
  destruct (rooms_ser e skip (VList [VList (map fst sorted)]) 0) as [[[k1 s1]|]|] eqn:Er; try discriminate.
  destruct (seq_ser servc (Z.of_nat (length (map fst sorted))) (VList [VList (map snd sorted)]) 0) as [[[k2 s2]|]|] eqn:Eq; try discriminate.
  inversion H; subst. exists l, d0, d1, rooms0, values0, sorted, k1, s1, k2, s2. repeat split; auto.
Qed.

Lemma vrooms_rt e vc skip allow : env_ok e -> ALL e vc -> wf (ValuedRooms vc skip allow) = true ->
  RT e (ValuedRooms vc skip allow).
Proof.
  intros Henv Hall Hwf data idx k s rest Hser Hacc Hfol.
  destruct (wf_seq vc 0 Hwf) as (Hwvc & Hdj).
  simpl in Hser. apply vrooms_ser_inv in Hser
    as (l & d0 & d1 & rooms0 & values0 & sorted & k1 & s1 & k2 & s2 & Hl & Hn & E0 & E1 & Es & Hr & Hq & Hk & Hs).
  simpl in Hl. inversion Hl; subst l. clear Hl.
  destruct Hacc as (rs & values & Hn' & Hcan & Hlen & Haccv). rewrite Hn in Hn'. inversion Hn'; subst d0 d1. clear Hn'.
  unfold rooms_to_pv in E0. simpl in E0, E1. inversion E0; subst rooms0. inversion E1; subst values0. clear E0 E1.
  rewrite (vr_sorted_canonical _ _ rs values Hcan Hlen) in Es. inversion Es; subst sorted. clear Es.
  rewrite map_map in Hr, Hq. simpl in Hr, Hq.
  rewrite (map_map _ snd) in Hq. simpl in Hq.
  assert (Ef : map (fun x : list cell * pv => room_to_pv (fst x)) (combine rs values) = map room_to_pv rs).
  { rewrite <- (map_map fst room_to_pv). rewrite map_fst_combine; auto. }
  assert (Esnd : map (fun x : list cell * pv => snd x) (combine rs values) = values).
  { apply map_snd_combine; auto. }
  rewrite Ef in Hr, Hq. rewrite Esnd in Hq. rewrite map_length in Hq.
  (* the rooms part *)
  assert (Hk1 : k1 = 1%nat).
  { unfold rooms_ser in Hr. apply skip_value_error_some in Hr. apply rooms_ser_raw_inv in Hr.
    destruct Hr as (? & ? & ? & ? & ? & ? & ? & _ & _ & _ & _ & _ & Hk1 & _). exact Hk1. }
  subst k1.
  destruct (rooms_rt e skip allow Henv [rooms_to_pv rs] 0%nat 1%nat s1 (s2 ++ rest)) as (items & Hde & Hf & _ & Hex).
  { exact Hr. } { exists rs. split; auto. } { destruct (s2 ++ rest); simpl; auto. }
  specialize (Hex I). destruct items as [|i0 [|i1 items]]; simpl in Hex; try discriminate.
  simpl in Hf. inversion Hf; subst i0. clear Hf Hex.
  (* the values part *)
  apply seq_ser_inv in Hq as (l' & d' & Hl' & Hn0 & Hk2 & Hloop). simpl in Hl'. inversion Hl'; subst l'. clear Hl'.
  simpl in Hn0. inversion Hn0; subst d'. clear Hn0.
  destruct (sub_hyps e vc values Hall Hwvc Hdj Haccv) as (H1 & H2 & H3).
  assert (Hn_len : Z.of_nat (length rs) = Z.of_nat (length values)) by lia.
  pose proof (seq_core (ser e vc) (de e vc) (first vc) (cont vc) (nullable vc) values (Z.of_nat (length rs))
                Hn_len H1 H2 H3 s2 rest Hloop Hfol) as Hsd.
  exists [VTup [rooms_to_pv rs; VList values]]. subst k s.
  simpl de. unfold vrooms_de. rewrite <- app_assoc.
  change (rooms_de e skip allow (s1 ++ s2 ++ rest)) with (de e (Rooms skip allow) (s1 ++ s2 ++ rest)). rewrite Hde.
  cbn [nth_res nth_error]. unfold rooms_to_pv at 1. cbn [py_items]. rewrite map_length.
  rewrite skipn_app_exact. rewrite Hsd. cbn [nth_res nth_error].
  rewrite app_length. repeat split; auto.
  symmetry. apply firstn1_skipn. exact Hn.
Qed.

Lemma vrooms_fs e vc skip allow : env_ok e -> ALL e vc -> wf (ValuedRooms vc skip allow) = true ->
  FS e (ValuedRooms vc skip allow).
Proof.
  intros Henv Hall Hwf data idx k s Hser. destruct (wf_seq vc 0 Hwf) as (Hwvc & _).
  simpl in Hser. apply vrooms_ser_inv in Hser
    as (l & d0 & d1 & rooms0 & values0 & sorted & k1 & s1 & k2 & s2 & _ & _ & _ & _ & _ & Hr & Hq & _ & Hs).
  subst s. pose proof (rooms_fs e skip allow Henv _ _ _ _ Hr) as F1.
  apply seq_ser_inv in Hq as (l' & d' & _ & _ & _ & Hloop).
  destruct (Hall Hwvc) as (_ & Hfs & _).
  destruct (seq_loop_fs (ser e vc) (first vc) (nullable vc) _ (VList d')
              (fun p k s E => Hfs _ _ _ _ E) _ _ _ _ Hloop) as (tail & Es & Hh).
  simpl in Es. subst tail.
  destruct s1 as [|c1 s1]; simpl.
  - destruct s2 as [|c2 s2]; auto. rewrite Hh. apply orb_true_r.
  - simpl in F1. rewrite F1. reflexivity.
Qed.

Lemma vrooms_all e vc skip allow : env_ok e -> ALL e vc -> ALL e (ValuedRooms vc skip allow).
Proof.
  intros Henv Hall Hwf. split; [apply vrooms_rt; auto|]. split; [apply vrooms_fs; auto|]. split.
  - intros Hst. discriminate.
  - intros data idx k s _ _. exact I.
Qed.

Theorem rooms_hyp_holds e : env_ok e -> rooms_hyp e.
Proof. intros Henv. split; [intros s a; apply rooms_all; auto|intros c s a; apply vrooms_all; auto]. Qed.

(* every well-formed term, Rooms and ValuedRooms included (their values in canonical order) *)
Theorem roundtrip_all e c : env_ok e -> wf c = true -> RT e c.
Proof. intros Henv Hwf. apply roundtrip_given_rooms; auto. apply rooms_hyp_holds; auto. Qed.

(* ------------------------------------------------------------------ any order of rooms and of cells *)
Lemma same_room_iff H W rs : valid_rooms (Z.of_nat H) (Z.of_nat W) rs -> forall a b, inb H W a -> inb H W b ->
  (rid_of rs a = rid_of rs b <-> exists r, In r rs /\ In a r /\ In b r).
Proof.
  intros Hval a b Ha Hb. split.
  - intros E. destruct (can_rid H W rs Hval a Ha) as (j & Hj & Hina & Ea).
    destruct (can_rid_room H W rs Hval b j Hb ltac:(congruence)) as (_ & Hinb).
    exists (nth j rs []). split; auto. apply nth_In; auto.
  - intros (r & Hr & Hina & Hinb). apply (In_nth rs r []) in Hr as (j & Hj & Er). subst r.
    destruct (can_room H W rs Hval j a Hj Hina) as [_ E1]. destruct (can_room H W rs Hval j b Hj Hinb) as [_ E2]. congruence.
Qed.

Lemma forall2_perm_in (p rs' : list (list cell)) : Forall2 (@Permutation cell) p rs' ->
  forall r, In r p -> exists r', In r' rs' /\ Permutation r r'.
Proof.
  induction 1 as [|x y l l' Hxy _ IH]; intros r Hin; [contradiction|].
  destruct Hin as [E|Hin].
  - subst. exists y. split; auto. left; auto.
  - destruct (IH r Hin) as (r' & Hr' & Hp). exists r'. split; auto. right; auto.
Qed.

Lemma forall2_perm_in_r (p rs' : list (list cell)) : Forall2 (@Permutation cell) p rs' ->
  forall r', In r' rs' -> exists r, In r p /\ Permutation r r'.
Proof.
  induction 1 as [|x y l l' Hxy _ IH]; intros r Hin; [contradiction|].
  destruct Hin as [E|Hin].
  - subst. exists x. split; auto. left; auto.
  - destruct (IH r Hin) as (r' & Hr' & Hp). exists r'. split; auto. right; auto.
Qed.

Lemma equiv_same_room rs rs' : rooms_equiv rs rs' -> forall a b,
  (exists r, In r rs /\ In a r /\ In b r) <-> (exists r', In r' rs' /\ In a r' /\ In b r').
Proof.
  intros (p & Hp & Hf) a b. split.
  - intros (r & Hr & Ha & Hb). apply (Permutation_in _ (Permutation_sym Hp)) in Hr.
    destruct (forall2_perm_in p rs' Hf r Hr) as (r' & Hr' & Hperm).
    exists r'. split; auto. split; eapply Permutation_in; eauto.
  - intros (r' & Hr' & Ha & Hb). destruct (forall2_perm_in_r p rs' Hf r' Hr') as (r & Hr & Hperm).
    exists r. split; [eapply Permutation_in; eauto|]. split; eapply Permutation_in; try apply Permutation_sym; eauto.
Qed.

Lemma mk_grid_ext H W f f' : (forall y x, (y < H)%nat -> (x < W)%nat -> f y x = f' y x) -> mk_grid H W f = mk_grid H W f'.
Proof.
  intros E. unfold mk_grid. apply map_ext_in. intros y Hy. apply in_seq in Hy.
  apply map_ext_in. intros x Hx. apply in_seq in Hx. apply E; lia.
Qed.

Lemma flag_eq (rid rid' : cell -> Z) a b : (rid a = rid b <-> rid' a = rid' b) ->
  (if rid a =? rid b then 0 else 1) = (if rid' a =? rid' b then 0 else 1).
Proof.
  intros Hiff. destruct (Z.eqb_spec (rid a) (rid b)) as [E|E]; destruct (Z.eqb_spec (rid' a) (rid' b)) as [E'|E']; auto.
  - apply Hiff in E. contradiction.
  - apply Hiff in E'. contradiction.
Qed.

Lemma borders_equiv H W rs rs' : valid_rooms (Z.of_nat H) (Z.of_nat W) rs -> valid_rooms (Z.of_nat H) (Z.of_nat W) rs' ->
  rooms_equiv rs rs' -> vg H W (rid_of rs) = vg H W (rid_of rs') /\ hg H W (rid_of rs) = hg H W (rid_of rs').
Proof.
  intros Hv Hv' Heq.
  assert (Hiff : forall a b, inb H W a -> inb H W b -> (rid_of rs a = rid_of rs b <-> rid_of rs' a = rid_of rs' b)).
  { intros a b Ha Hb. rewrite (same_room_iff H W rs Hv a b Ha Hb), (same_room_iff H W rs' Hv' a b Ha Hb).
    apply equiv_same_room; auto. }
  split; apply mk_grid_ext; intros y x Hy Hx; unfold vflag, hflag; apply flag_eq; apply Hiff; unfold inb; simpl; lia.
Qed.

Lemma all_assigned_mk H W f : (forall y x, (y < H)%nat -> (x < W)%nat -> 0 <= f y x) -> all_assigned (mk_grid H W f) = true.
Proof.
  intros Hf. unfold all_assigned, mk_grid. apply forallb_forall. intros row Hin.
  apply in_map_iff in Hin as (y & E & Hy). subst. apply in_seq in Hy.
  apply forallb_forall. intros v Hv. apply in_map_iff in Hv as (x & E & Hx). subst. apply in_seq in Hx.
  apply negb_true_iff. apply Z.eqb_neq. specialize (Hf y x ltac:(lia) ltac:(lia)). lia.
Qed.

(* serialization of a valid partition depends on the border bitmaps only *)
Lemma rooms_ser_raw_valid e rs : env_ok e ->
  valid_rooms (height e) (width e) rs ->
  rooms_ser_raw e (VList [rooms_to_pv rs]) 0 =
  match grid_ser (md_ser 2 5) e (Some (height e, width e - 1))
          (VList [VList (grid_to_pv_rows (vg (Z.to_nat (height e)) (Z.to_nat (width e)) (rid_of rs)))]) 0 with
  | Err e' => Err e'
  | Ok None => Ok None
  | Ok (Some (_, s1)) =>
      match grid_ser (md_ser 2 5) e (Some (height e - 1, width e))
              (VList [VList (grid_to_pv_rows (hg (Z.to_nat (height e)) (Z.to_nat (width e)) (rid_of rs)))]) 0 with
      | Err e' => Err e'
      | Ok None => Ok None
      | Ok (Some (_, s2)) => Ok (Some (1%nat, s1 ++ s2))
      end
  end.
Proof.
  intros [Hh Hw] Hval.
  set (H := Z.to_nat (height e)). set (W := Z.to_nat (width e)).
  assert (EH : height e = Z.of_nat H) by (unfold H; lia).
  assert (EW : width e = Z.of_nat W) by (unfold W; lia).
  unfold rooms_ser_raw. cbn [py_items length Nat.eqb nth_res nth_error rooms_to_pv]. cbv zeta.
  rewrite EH, EW in Hval. rewrite EH, EW. rewrite (assign_correct H W rs Hval).
  rewrite all_assigned_mk.
  - rewrite vertical_rows, horizontal_rows. reflexivity.
  - intros y x Hy Hx. pose proof (can_rid_range H W rs Hval (y, x) (conj Hy Hx)). unfold rid. lia.
Qed.

Theorem rooms_roundtrip_any_order h w skip allow rs rs' s : 1 <= h -> 1 <= w ->
  valid_rooms h w rs -> canonical_rooms h w rs' -> rooms_equiv rs rs' ->
  serialize_problem (Rooms skip allow) (rooms_to_pv rs) h w = Ok s ->
  deserialize_problem (Rooms skip allow) s h w = Ok (Some (rooms_to_pv rs')).
Proof.
  intros Hh Hw Hval Hcan Heq Hser.
  assert (Henv : env_ok (mk_env h w)) by (split; simpl; lia).
  assert (Hsame : rooms_ser_raw (mk_env h w) (VList [rooms_to_pv rs]) 0 = rooms_ser_raw (mk_env h w) (VList [rooms_to_pv rs']) 0).
  { rewrite (rooms_ser_raw_valid _ rs Henv Hval). rewrite (rooms_ser_raw_valid _ rs' Henv (proj1 Hcan)).
    simpl height; simpl width.
    assert (Hv : valid_rooms (Z.of_nat (Z.to_nat h)) (Z.of_nat (Z.to_nat w)) rs) by (rewrite !Z2Nat.id by lia; auto).
    assert (Hv' : valid_rooms (Z.of_nat (Z.to_nat h)) (Z.of_nat (Z.to_nat w)) rs') by (rewrite !Z2Nat.id by lia; apply Hcan).
    destruct (borders_equiv _ _ rs rs' Hv Hv' Heq) as [E1 E2]. rewrite E1, E2. reflexivity. }
  unfold serialize_problem in Hser. simpl ser in Hser. unfold rooms_ser in Hser. rewrite Hsame in Hser.
  destruct (skip_value_error skip (rooms_ser_raw (mk_env h w) (VList [rooms_to_pv rs']) 0)) as [[[k s']|]|] eqn:E; try discriminate.
  inversion Hser; subst s'.
  assert (Hk : k = 1%nat).
  { apply skip_value_error_some in E. apply rooms_ser_raw_inv in E.
    destruct E as (? & ? & ? & ? & ? & ? & ? & _ & _ & _ & _ & _ & Hk & _). exact Hk. }
  subst k.
  destruct (rooms_rt (mk_env h w) skip allow Henv [rooms_to_pv rs'] 0%nat 1%nat s []) as (items & Hde & Hf & _ & Hex).
  { exact E. } { exists rs'. split; auto. } { exact I. }
  specialize (Hex I). rewrite app_nil_r in Hde. unfold deserialize_problem. rewrite Hde.
  destruct items as [|i0 [|i1 items]]; simpl in Hex; try discriminate. simpl in Hf. inversion Hf; subst. reflexivity.
Qed.

(* ------------------------------------------------------------------ the hypotheses are satisfiable *)
Example canonical_1x2 : canonical_rooms 1 2 [[(0, 0); (0, 1)]%nat].
Proof.
  split; [split; [|split]|split].
  - repeat constructor. discriminate.
  - vm_compute. apply Permutation_refl.
  - constructor; [|constructor]. intros a b Ha Hb.
    assert (Hadj1 : adjacent (0, 0)%nat (0, 1)%nat) by (left; simpl; auto).
    assert (Hadj2 : adjacent (0, 1)%nat (0, 0)%nat) by (left; simpl; auto).
    destruct Ha as [Ha|[Ha|[]]]; destruct Hb as [Hb|[Hb|[]]]; subst.
    + apply conn_refl. left; auto.
    + eapply conn_step; [apply conn_refl; left; auto| right; left; auto | exact Hadj1].
    + eapply conn_step; [apply conn_refl; right; left; auto| left; auto | exact Hadj2].
    + apply conn_refl. right; left; auto.
  - repeat constructor.
  - repeat constructor.
Qed.

Example rooms_1x2_roundtrip :
  serialize_problem (Rooms false false) (rooms_to_pv [[(0, 0); (0, 1)]%nat]) 1 2 = Ok ["0"%char]
  /\ deserialize_problem (Rooms false false) ["0"%char] 1 2 = Ok (Some (rooms_to_pv [[(0, 0); (0, 1)]%nat])).
Proof. split; vm_compute; reflexivity. Qed.
