(* deps (scanned by harness/vlib.py::build_runner): Cspuz.Lib.PyErr Cspuz.Core.Expr Cspuz.Core.Program Cspuz.Core.Build Cspuz.Graph.GraphModel Cspuz.Graph.Avc Cspuz.Array.Slice Cspuz.Graph.NotAdj *)
Require Extraction.
Require Import ExtrOcamlBasic.
From Coq Require Import ZArith List.
From Cspuz Require Import Lib.PyErr Core.Expr Core.Program Core.Build Graph.GraphModel Graph.Avc Array.Slice Graph.NotAdj.
Extraction "model.ml" Z.add Nat.add pyerr_code post_not_adjacent post_not_segmenting
  independent_b spec_not_segmenting_b connected_b grid_graph inactive
  cert_diag diag_rank spec_diag_b diag_order.
