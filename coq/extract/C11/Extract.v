Require Extraction.
Require Import ExtrOcamlBasic.
From Coq Require Import ZArith List.
Require Import Cspuz.Puzzle.PuzzleBase.
Require Import Cspuz.Puzzle.Rules_akari.
Require Import Cspuz.Puzzle.Rules_aquarium.
Require Import Cspuz.Puzzle.Rules_creek.
Require Import Cspuz.Puzzle.Rules_fillomino.
Require Import Cspuz.Puzzle.Rules_geradeweg.
Require Import Cspuz.Puzzle.Rules_gokigen.
Require Import Cspuz.Puzzle.Rules_heyawake.
Require Import Cspuz.Puzzle.Rules_masyu.
Require Import Cspuz.Puzzle.Rules_norinori.
Require Import Cspuz.Puzzle.Rules_nurikabe.
Require Import Cspuz.Puzzle.Rules_nurimisaki.
Require Import Cspuz.Puzzle.Rules_putteria.
Require Import Cspuz.Puzzle.Rules_simpleloop.
Require Import Cspuz.Puzzle.Rules_slitherlink.
Require Import Cspuz.Puzzle.Rules_star_battle.
Require Import Cspuz.Puzzle.Rules_sudoku.
Require Import Cspuz.Puzzle.Rules_yajilin.
Require Import Cspuz.Puzzle.Rules_yinyang.
Extraction "model.ml" Z.add Nat.add rules_akari answers_akari rules_aquarium answers_aquarium rules_creek answers_creek rules_fillomino answers_fillomino rules_geradeweg answers_geradeweg rules_gokigen answers_gokigen rules_heyawake answers_heyawake rules_masyu answers_masyu rules_norinori answers_norinori rules_nurikabe answers_nurikabe rules_nurimisaki answers_nurimisaki rules_putteria answers_putteria rules_simpleloop answers_simpleloop rules_slitherlink answers_slitherlink rules_star_battle answers_star_battle rules_sudoku answers_sudoku rules_yajilin answers_yajilin rules_yinyang answers_yinyang.
