(* C06 -- generic facts used by CycleProofs.v: evaluation of the trees built by
   Core/Build.v (count_true, fold_or, comparison / implication shorthands),
   independence of an expression from variables it does not mention, the
   declarations made by bool_array / int_array, and list counting lemmas. *)
From Coq Require Import ZArith List Bool Arith Lia.
From Cspuz Require Import Lib.PyErr Core.Expr Core.Program Core.Build.
Import ListNotations.
Open Scope nat_scope.

(* ------------------------------------------------------------------------ *)
(* induction principle for the nested type expr                              *)

Section ExprInd.
  Variable P : expr -> Prop.
  Hypothesis HPyBool : forall b, P (PyBool b).
  Hypothesis HPyInt : forall z, P (PyInt z).
  Hypothesis HPyNone : P PyNone.
  Hypothesis HBVar : forall i, P (BVar i).
  Hypothesis HIVar : forall i lo hi, P (IVar i lo hi).
  Hypothesis HBNode : forall o args, Forall P args -> P (BNode o args).
  Hypothesis HINode : forall o args, Forall P args -> P (INode o args).

  Fixpoint expr_ind' (e : expr) : P e :=
    match e with
    | PyBool b => HPyBool b
    | PyInt z => HPyInt z
    | PyNone => HPyNone
    | BVar i => HBVar i
    | IVar i lo hi => HIVar i lo hi
    | BNode o args =>
        HBNode o args ((fix go (l : list expr) : Forall P l :=
                          match l with
                          | [] => Forall_nil P
                          | x :: r => Forall_cons x (expr_ind' x) (go r)
                          end) args)
    | INode o args =>
        HINode o args ((fix go (l : list expr) : Forall P l :=
                          match l with
                          | [] => Forall_nil P
                          | x :: r => Forall_cons x (expr_ind' x) (go r)
                          end) args)
    end.
End ExprInd.

(* ------------------------------------------------------------------------ *)
(* list counting                                                             *)

Lemma filter_and_le {A} (p q : A -> bool) l :
  length (filter (fun x => p x && q x) l) <= length (filter p l).
Proof.
  induction l as [|x l IH]; simpl; [lia|].
  destruct (p x), (q x); simpl; lia.
Qed.

Lemma filter_and_lt_witness {A} (p q : A -> bool) l :
  length (filter (fun x => p x && q x) l) < length (filter p l) ->
  exists x, In x l /\ p x = true /\ q x = false.
Proof.
  induction l as [|x l IH]; simpl; [lia|].
  destruct (p x) eqn:Hp, (q x) eqn:Hq; simpl; intros H.
  - destruct IH as [y [Hy Hpq]]; [lia|]. exists y; split; [right; exact Hy|exact Hpq].
  - exists x. split; [left; reflexivity|]. split; assumption.
  - destruct IH as [y [Hy Hpq]]; [lia|]. exists y; split; [right; exact Hy|exact Hpq].
  - destruct IH as [y [Hy Hpq]]; [lia|]. exists y; split; [right; exact Hy|exact Hpq].
Qed.

Lemma filter_and_witness_lt {A} (p q : A -> bool) l x :
  In x l -> p x = true -> q x = false ->
  length (filter (fun x => p x && q x) l) < length (filter p l).
Proof.
  induction l as [|y l IH]; simpl; [intros []|].
  intros [->|Hin] Hp Hq.
  - rewrite Hp, Hq. simpl. pose proof (filter_and_le p q l). lia.
  - specialize (IH Hin Hp Hq). destruct (p y), (q y); simpl; lia.
Qed.

Lemma filter_length_ext {A} (p q : A -> bool) l :
  (forall x, In x l -> p x = q x) -> length (filter p l) = length (filter q l).
Proof.
  induction l as [|x l IH]; simpl; intros H; [reflexivity|].
  rewrite (H x (or_introl eq_refl)).
  destruct (q x); simpl; rewrite IH; auto.
Qed.

Lemma filter_eqb_seq (r s n : nat) :
  filter (fun i => i =? r) (seq s n) = if (s <=? r) && (r <? s + n) then [r] else [].
Proof.
  revert s. induction n as [|n IH]; intros s.
  - cbn [seq filter]. destruct (Nat.leb_spec s r), (Nat.ltb_spec r (s + 0)); cbn [andb]; try reflexivity; lia.
  - cbn [seq filter]. rewrite IH.
    destruct (Nat.eqb_spec s r) as [Heq|Hne];
      destruct (Nat.leb_spec (S s) r); destruct (Nat.ltb_spec r (S s + n));
      destruct (Nat.leb_spec s r); destruct (Nat.ltb_spec r (s + S n)); cbn [andb];
      try reflexivity; try lia; subst; reflexivity.
Qed.

Lemma filter_single_unique {A} (p : A -> bool) l r :
  filter p l = [r] -> forall x, In x l -> p x = true -> x = r.
Proof.
  intros H x Hx Hp.
  assert (Hin : In x (filter p l)) by (apply filter_In; split; assumption).
  rewrite H in Hin. destruct Hin as [->|[]]. reflexivity.
Qed.

Lemma length_one {A} (l : list A) : length l = 1 -> exists r, l = [r].
Proof. destruct l as [|r [|? ?]]; simpl; intros H; try discriminate. exists r; reflexivity. Qed.

(* position of an element *)
Fixpoint index_of (x : nat) (l : list nat) : nat :=
  match l with
  | [] => 0
  | y :: r => if y =? x then 0 else S (index_of x r)
  end.

Lemma index_of_nth x l p :
  NoDup l -> nth_error l p = Some x -> index_of x l = p.
Proof.
  revert p. induction l as [|y l IH]; intros p Hn Hp.
  - destruct p; discriminate.
  - inversion Hn as [|? ? Hni Hn']; subst. destruct p as [|p]; simpl in *.
    + inversion Hp; subst. rewrite Nat.eqb_refl. reflexivity.
    + destruct (Nat.eqb_spec y x) as [->|Hne].
      * exfalso. apply Hni. eapply nth_error_In; exact Hp.
      * f_equal. apply IH; assumption.
Qed.

Lemma index_of_le x l : index_of x l <= length l.
Proof. induction l as [|y l IH]; simpl; [lia|]. destruct (y =? x); lia. Qed.

Lemma index_of_lt x l : In x l -> index_of x l < length l.
Proof.
  induction l as [|y l IH]; simpl; [intros []|].
  intros H. destruct (Nat.eqb_spec y x); [lia|].
  destruct H as [H|H]; [congruence|]. specialize (IH H). lia.
Qed.

(* ------------------------------------------------------------------------ *)
(* evaluation: unfolding and the shorthands of Build.v                       *)

Section Eval.
  Variable gsem : op -> list (option value) -> option bool.

  Lemma eval_BNode en o args :
    eval gsem en (BNode o args) = eval_bop gsem o (map (eval gsem en) args).
  Proof. reflexivity. Qed.
  Lemma eval_INode en o args :
    eval gsem en (INode o args) = eval_iop o (map (eval gsem en) args).
  Proof. reflexivity. Qed.

  Lemma holds_of_eval en e b : eval gsem en e = Some (VB b) -> holds gsem en e = b.
  Proof. unfold holds. intros ->. destruct b; reflexivity. Qed.

  Lemma eval_i_cond en c t f b :
    eval gsem en c = Some (VB b) ->
    eval gsem en (i_cond c (PyInt t) (PyInt f)) = Some (VI (if b then t else f)).
  Proof. intros H. unfold i_cond. rewrite eval_INode. simpl. rewrite H. reflexivity. Qed.

  Lemma eval_i_eq en a b x y :
    eval gsem en a = Some (VI x) -> eval gsem en b = Some (VI y) ->
    eval gsem en (i_eq a b) = Some (VB (x =? y)%Z).
  Proof. intros Ha Hb. unfold i_eq. rewrite eval_BNode. simpl. rewrite Ha, Hb. reflexivity. Qed.

  Lemma eval_i_le en a b x y :
    eval gsem en a = Some (VI x) -> eval gsem en b = Some (VI y) ->
    eval gsem en (i_le a b) = Some (VB (x <=? y)%Z).
  Proof. intros Ha Hb. unfold i_le. rewrite eval_BNode. simpl. rewrite Ha, Hb. reflexivity. Qed.

  Lemma eval_i_ge en a b x y :
    eval gsem en a = Some (VI x) -> eval gsem en b = Some (VI y) ->
    eval gsem en (i_ge a b) = Some (VB (y <=? x)%Z).
  Proof. intros Ha Hb. unfold i_ge. rewrite eval_BNode. simpl. rewrite Ha, Hb. reflexivity. Qed.

  Lemma eval_b_imp en a b x y :
    eval gsem en a = Some (VB x) -> eval gsem en b = Some (VB y) ->
    eval gsem en (b_imp a b) = Some (VB (implb x y)).
  Proof. intros Ha Hb. unfold b_imp. rewrite eval_BNode. simpl. rewrite Ha, Hb. reflexivity. Qed.

  Lemma eval_b_or en a b x y :
    eval gsem en a = Some (VB x) -> eval gsem en b = Some (VB y) ->
    eval gsem en (b_or a b) = Some (VB (x || y)).
  Proof.
    intros Ha Hb. unfold b_or. rewrite eval_BNode. simpl. rewrite Ha, Hb. simpl.
    rewrite orb_false_r. reflexivity.
  Qed.

  Lemma eval_b_and en a b x y :
    eval gsem en a = Some (VB x) -> eval gsem en b = Some (VB y) ->
    eval gsem en (BNode AND [a; b]) = Some (VB (x && y)).
  Proof.
    intros Ha Hb. rewrite eval_BNode. simpl. rewrite Ha, Hb. simpl.
    rewrite andb_true_r. reflexivity.
  Qed.

  Lemma eval_b_not en a x :
    eval gsem en a = Some (VB x) -> eval gsem en (b_not a) = Some (VB (negb x)).
  Proof. intros Ha. unfold b_not. rewrite eval_BNode. simpl. rewrite Ha. reflexivity. Qed.

  (* ---------------------------------------------------------------------- *)
  (* an expression does not depend on variables it does not mention          *)

  Lemma max_id_arg a args :
    In a args -> max_id a <= fold_right (fun a m => Nat.max (max_id a) m) 0 args.
  Proof.
    induction args as [|x r IH]; simpl; [intros []|].
    intros [->|H]; [lia|]. specialize (IH H). lia.
  Qed.

  Lemma eval_agree k e1 e2 e :
    agree_below k e1 e2 -> max_id e <= k -> eval gsem e1 e = eval gsem e2 e.
  Proof.
    intros Hag. induction e as [b|z| |i|i lo hi|o args IH|o args IH] using expr_ind';
      intros Hm; try reflexivity.
    - simpl in *. destruct (Hag i) as [H _]; [lia|]. rewrite H. reflexivity.
    - simpl in *. destruct (Hag i) as [_ H]; [lia|]. rewrite H. reflexivity.
    - rewrite !eval_BNode. f_equal. apply map_ext_in. intros a Ha.
      rewrite Forall_forall in IH. apply IH; [exact Ha|].
      pose proof (max_id_arg a args Ha). simpl in Hm. lia.
    - rewrite !eval_INode. f_equal. apply map_ext_in. intros a Ha.
      rewrite Forall_forall in IH. apply IH; [exact Ha|].
      pose proof (max_id_arg a args Ha). simpl in Hm. lia.
  Qed.

  (* ---------------------------------------------------------------------- *)
  (* count_true                                                              *)

  Definition boolish (en : env) (x : expr) : Prop :=
    is_constraint_like x = true /\ exists b, eval gsem en x = Some (VB b).

  Lemma all_some_ints zs :
    all_some (map (fun z => Some (VI z)) zs) = Some (map VI zs).
  Proof. induction zs as [|z r IH]; simpl; [reflexivity|]. rewrite IH. reflexivity. Qed.

  Lemma as_ints_VI zs : as_ints (map VI zs) = Some zs.
  Proof. induction zs as [|z r IH]; simpl; [reflexivity|]. rewrite IH. reflexivity. Qed.

  Lemma zsum_app a b : zsum (a ++ b) = (zsum a + zsum b)%Z.
  Proof. unfold zsum. induction a as [|x a IH]; simpl; [reflexivity|]. rewrite IH. lia. Qed.

  Lemma eval_ADD_ints en ops zs :
    ops <> [] -> map (eval gsem en) ops = map (fun z => Some (VI z)) zs ->
    eval gsem en (INode ADD ops) = Some (VI (zsum zs)).
  Proof.
    intros Hne Hm. rewrite eval_INode. unfold eval_iop. rewrite Hm, all_some_ints.
    destruct zs as [|z zs].
    - destruct ops; [congruence|discriminate].
    - simpl map. cbv beta iota. rewrite <- (map_cons VI z zs) at 1. rewrite as_ints_VI. reflexivity.
  Qed.

  Lemma count_true_go_spec en l :
    (forall x, In x l -> boolish en x) ->
    forall ops c zs,
      map (eval gsem en) ops = map (fun z => Some (VI z)) zs ->
      exists ops' c' zs',
        count_true_go l ops c = Ok (ops', c') /\
        map (eval gsem en) ops' = map (fun z => Some (VI z)) zs' /\
        (c <= c')%Z /\
        (zsum zs' + c' = zsum zs + c + Z.of_nat (length (filter (holds gsem en) l)))%Z.
  Proof.
    induction l as [|x l IH]; intros Hall ops c zs Hops.
    - exists ops, c, zs. simpl. repeat split; try assumption; lia.
    - assert (Hx : boolish en x) by (apply Hall; left; reflexivity).
      assert (Hl : forall y, In y l -> boolish en y) by (intros y Hy; apply Hall; right; exact Hy).
      destruct Hx as [Hcl [b Hb]].
      assert (Hh : holds gsem en x = b) by (apply holds_of_eval; exact Hb).
      destruct x as [pb|z| |i|i lo hi|o args|o args]; simpl in Hcl; try discriminate.
      + (* Python bool *)
        clear b Hb Hh.
        assert (Hh : holds gsem en (PyBool pb) = pb) by (destruct pb; reflexivity).
        destruct (IH Hl ops (if pb then c + 1 else c)%Z zs Hops) as [ops' [c' [zs' [H1 [H2 [H3 H4]]]]]].
        exists ops', c', zs'. simpl count_true_go. split; [exact H1|]. split; [exact H2|].
        simpl filter. rewrite Hh. destruct pb; simpl length; split; lia.
      + (* variable *)
        destruct (IH Hl (ops ++ [i_cond (BVar i) (PyInt 1) (PyInt 0)]) c (zs ++ [if b then 1 else 0]%Z))
          as [ops' [c' [zs' [H1 [H2 [H3 H4]]]]]].
        { rewrite !map_app, Hops. cbn [map]. rewrite (eval_i_cond en (BVar i) 1 0 b Hb). reflexivity. }
        exists ops', c', zs'. simpl count_true_go. split; [exact H1|]. split; [exact H2|].
        split; [exact H3|]. rewrite zsum_app in H4. simpl filter. rewrite Hh.
        unfold zsum in H4 at 3. simpl in H4. destruct b; simpl length; lia.
      + (* node *)
        destruct (IH Hl (ops ++ [i_cond (BNode o args) (PyInt 1) (PyInt 0)]) c (zs ++ [if b then 1 else 0]%Z))
          as [ops' [c' [zs' [H1 [H2 [H3 H4]]]]]].
        { rewrite !map_app, Hops. cbn [map]. rewrite (eval_i_cond en (BNode o args) 1 0 b Hb). reflexivity. }
        exists ops', c', zs'. simpl count_true_go. split; [exact H1|]. split; [exact H2|].
        split; [exact H3|]. rewrite zsum_app in H4. simpl filter. rewrite Hh.
        unfold zsum in H4 at 3. simpl in H4. destruct b; simpl length; lia.
  Qed.

  (* the total reading of count_true *)
  Definition ct (l : list expr) : expr :=
    match count_true l with Ok e => e | Err _ => PyNone end.

  Lemma count_true_eval en l :
    (forall x, In x l -> boolish en x) ->
    count_true l = Ok (ct l) /\
    eval gsem en (ct l) = Some (VI (Z.of_nat (length (filter (holds gsem en) l)))).
  Proof.
    intros Hall.
    destruct (count_true_go_spec en l Hall [] 0%Z [] eq_refl) as [ops' [c' [zs' [H1 [H2 [H3 H4]]]]]].
    unfold ct, count_true. rewrite H1.
    change (zsum []) with 0%Z in H4.
    destruct (0 <? c')%Z eqn:Hc.
    - assert (Hne : ops' ++ [PyInt c'] <> []) by (destruct ops'; discriminate).
      destruct (ops' ++ [PyInt c']) as [|o1 orest] eqn:Heq; [congruence|].
      split; [reflexivity|]. rewrite <- Heq.
      rewrite (eval_ADD_ints en (ops' ++ [PyInt c']) (zs' ++ [c'])).
      + rewrite zsum_app. unfold zsum at 2. simpl. f_equal. f_equal. lia.
      + rewrite Heq; discriminate.
      + rewrite !map_app, H2. reflexivity.
    - apply Z.ltb_ge in Hc. assert (c' = 0)%Z by lia. subst c'.
      destruct ops' as [|o1 orest].
      + split; [reflexivity|]. destruct zs'; [|discriminate].
        change (zsum []) with 0%Z in H4.
        assert (Hz : Z.of_nat (length (filter (holds gsem en) l)) = 0%Z) by lia.
        rewrite Hz. reflexivity.
      + split; [reflexivity|].
        rewrite (eval_ADD_ints en (o1 :: orest) zs'); [|discriminate|exact H2].
        f_equal. f_equal. lia.
  Qed.

  Lemma count_true_ok l :
    (forall x, In x l -> is_constraint_like x = true) -> count_true l = Ok (ct l).
  Proof.
    intros Hall. unfold ct.
    assert (H : forall ops c, exists r, count_true_go l ops c = Ok r).
    { induction l as [|x l IH]; intros ops c; simpl.
      - eexists; reflexivity.
      - assert (Hx := Hall x (or_introl eq_refl)).
        assert (Hl : forall y, In y l -> is_constraint_like y = true) by (intros y Hy; apply Hall; right; exact Hy).
        destruct x; simpl in Hx; try discriminate; apply IH; exact Hl. }
    unfold count_true. destruct (H [] 0%Z) as [[ops c] Hr]. rewrite Hr.
    destruct (if (0 <? c)%Z then ops ++ [PyInt c] else ops); reflexivity.
  Qed.

  (* ---------------------------------------------------------------------- *)
  (* fold_or over variables                                                  *)

  Lemma fold_or_go_vars ids ops :
    fold_or_go (map BVar ids) ops =
    match ops ++ map BVar ids with
    | [] => Ok (BNode BOOL_CONSTANT [PyBool false])
    | l => Ok (BNode OR l)
    end.
  Proof.
    revert ops. induction ids as [|i ids IH]; intros ops; simpl.
    - rewrite app_nil_r. destruct ops; reflexivity.
    - rewrite IH. rewrite <- app_assoc. reflexivity.
  Qed.

  Lemma eval_OR_vars en ids :
    eval gsem en (BNode OR (map BVar ids)) = Some (VB (existsb (eb en) ids)).
  Proof.
    rewrite eval_BNode. unfold eval_bop. rewrite map_map. cbn [eval].
    assert (H : all_some (map (fun x => Some (VB (eb en x))) ids) = Some (map (fun x => VB (eb en x)) ids)).
    { induction ids as [|i r IH]; simpl; [reflexivity|]. rewrite IH. reflexivity. }
    rewrite H.
    assert (H2 : as_bools (map (fun x => VB (eb en x)) ids) = Some (map (eb en) ids)).
    { clear H. induction ids as [|i r IH]; simpl; [reflexivity|]. rewrite IH. reflexivity. }
    rewrite H2. simpl. f_equal. f_equal. clear H H2.
    induction ids as [|i r IH]; simpl; [reflexivity|]. rewrite IH. reflexivity.
  Qed.

  Lemma fold_or_vars_eval en ids :
    exists e, fold_or (map BVar ids) = Ok e /\ eval gsem en e = Some (VB (existsb (eb en) ids)).
  Proof.
    unfold fold_or. rewrite fold_or_go_vars. simpl app.
    destruct ids as [|i r].
    - eexists; split; [reflexivity|]. reflexivity.
    - eexists; split; [reflexivity|]. apply (eval_OR_vars en (i :: r)).
  Qed.
End Eval.

(* ------------------------------------------------------------------------ *)
(* declarations                                                              *)

Lemma bool_vars_spec st n :
  bool_vars st n =
  ({| vars := vars st ++ repeat DBool n; keys := keys st ++ repeat false n; cons := cons st |},
   map BVar (seq (next_id st) n)).
Proof.
  revert st. induction n as [|n IH]; intros st; simpl.
  - rewrite !app_nil_r. destruct st; reflexivity.
  - rewrite IH. unfold next_id. simpl. rewrite app_length. simpl.
    rewrite <- !app_assoc. simpl. replace (length (vars st) + 1) with (S (length (vars st))) by lia.
    reflexivity.
Qed.

Lemma int_vars_spec st n lo hi :
  int_vars st n lo hi =
  ({| vars := vars st ++ repeat (DInt lo hi) n; keys := keys st ++ repeat false n; cons := cons st |},
   map (fun i => IVar i lo hi) (seq (next_id st) n)).
Proof.
  revert st. induction n as [|n IH]; intros st; simpl.
  - rewrite !app_nil_r. destruct st; reflexivity.
  - rewrite IH. unfold next_id. simpl. rewrite app_length. simpl.
    rewrite <- !app_assoc. simpl. replace (length (vars st) + 1) with (S (length (vars st))) by lia.
    reflexivity.
Qed.

Lemma in_bounds_from_app en i a b :
  in_bounds_from en i (a ++ b) = in_bounds_from en i a && in_bounds_from en (i + length a) b.
Proof.
  revert i. induction a as [|d a IH]; intros i; simpl.
  - rewrite Nat.add_0_r. reflexivity.
  - destruct d; rewrite IH; replace (S i + length a) with (i + S (length a)) by lia;
      [reflexivity|rewrite andb_assoc; reflexivity].
Qed.

Lemma in_bounds_from_bools en i n : in_bounds_from en i (repeat DBool n) = true.
Proof. revert i. induction n as [|n IH]; intros i; simpl; [reflexivity|apply IH]. Qed.

Lemma in_bounds_from_ints en i n lo hi :
  in_bounds_from en i (repeat (DInt lo hi) n) = true <->
  (forall k, k < n -> (lo <= ei en (i + k) <= hi)%Z).
Proof.
  revert i. induction n as [|n IH]; intros i; simpl.
  - split; [intros _ k Hk; lia|reflexivity].
  - rewrite !andb_true_iff, IH, Z.leb_le, Z.leb_le. split.
    + intros [[H1 H2] H3] k Hk. destruct k as [|k].
      * rewrite Nat.add_0_r. lia.
      * replace (i + S k) with (S i + k) by lia. apply H3. lia.
    + intros H. split; [|intros k Hk; replace (S i + k) with (i + S k) by lia; apply H; lia].
      specialize (H 0). rewrite Nat.add_0_r in H. lia.
Qed.

Lemma in_bounds_from_agree e1 e2 i vs :
  (forall k, i <= k < i + length vs -> ei e1 k = ei e2 k) ->
  in_bounds_from e1 i vs = in_bounds_from e2 i vs.
Proof.
  revert i. induction vs as [|d vs IH]; intros i H; simpl; [reflexivity|].
  destruct d.
  - apply IH. intros k Hk. apply H. simpl. lia.
  - rewrite (H i) by (simpl; lia). rewrite (IH (S i)); [reflexivity|].
    intros k Hk. apply H. simpl. lia.
Qed.
