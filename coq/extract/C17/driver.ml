(* line protocol of the C17 model (token syntax of terms / values: harness/c15gen.py, plus "C k")
   DU cu <term> xURL (A | O xNAME | L n xNAME*n) af rs   deserialize_<p>(url)            -> N | S pv | E code
   DP cu h w <term> xTEXT                                deserialize_problem             -> N | S pv | E code
   DE cu h w idx <term> xTEXT                            Combinator.deserialize at idx   -> N | K k [ pv* ] | E code
   SP cu h w <term> <pv>                                 serialize_problem               -> S xHEX | E code
   INT base xTEXT                                        int(text, base)                 -> S i<int> | E code
   CLS xTEXT      -> <isdigit per character> <_is_hex 0/1> <_is_alnum_lower 0/1>
   OKS <term>     -> <dec_ok> <single> <wf> <tupl_single> <productive>   (0/1 each)
   UM xURL        -> N | S ( xNAME xWIDTH xHEIGHT xBODY )   the groups of _DESERIALIZE_URL_REG.match
   cu: 0 = no Combinator subclass, 1 = yajilin.YajilinClue as Custom 0                          *)
open Model
open Zutil

let bit b i = if b then 1 lsl i else 0
let char_of_ascii (Ascii (b0, b1, b2, b3, b4, b5, b6, b7)) =
  Char.chr (bit b0 0 + bit b1 1 + bit b2 2 + bit b3 3 + bit b4 4 + bit b5 5 + bit b6 6 + bit b7 7)
let ascii_of_char ch =
  let n = Char.code ch in
  let b i = (n lsr i) land 1 = 1 in
  Ascii (b 0, b 1, b 2, b 3, b 4, b 5, b 6, b 7)

let str_of_string s = List.init (String.length s) (fun i -> ascii_of_char s.[i])
let string_of_str l =
  let b = Buffer.create 16 in List.iter (fun a -> Buffer.add_char b (char_of_ascii a)) l; Buffer.contents b

let unhex t =
  if String.length t < 1 || t.[0] <> 'x' then failwith ("hex token " ^ t);
  let n = (String.length t - 1) / 2 in
  String.init n (fun i -> Char.chr (int_of_string ("0x" ^ String.sub t (1 + 2 * i) 2)))
let hex s =
  let b = Buffer.create 16 in
  Buffer.add_char b 'x';
  String.iter (fun c -> Buffer.add_string b (Printf.sprintf "%02x" (Char.code c))) s;
  Buffer.contents b
let str_tok t = str_of_string (unhex t)
let tok_str l = hex (string_of_str l)

let z_of_tok t = match py_int (str_of_string t) (z_of_int 10) with Ok v -> v | Err _ -> failwith ("int token " ^ t)
let z_str z = string_of_str (py_str_int z)

let rec parse_pv toks = match toks with
  | "n" :: r -> (VNone, r)
  | "[" :: r -> let (l, r') = parse_pvs r "]" in (VList l, r')
  | "(" :: r -> let (l, r') = parse_pvs r ")" in (VTup l, r')
  | t :: r when String.length t > 0 && t.[0] = 'i' -> (VInt (z_of_tok (String.sub t 1 (String.length t - 1))), r)
  | t :: r when String.length t > 0 && t.[0] = 'x' -> (VStr (str_tok t), r)
  | _ -> failwith "pv"
and parse_pvs toks close = match toks with
  | t :: r when t = close -> ([], r)
  | _ -> let (v, r) = parse_pv toks in let (l, r') = parse_pvs r close in (v :: l, r')

let rec parse_n f n toks = if n = 0 then ([], toks) else
  let (x, r) = f toks in let (l, r') = parse_n f (n - 1) r in (x :: l, r')

let flag = function "1" -> true | _ -> false

let rec parse_term toks = match toks with
  | "F" :: s :: r -> (FixStr (str_tok s), r)
  | "D" :: n :: r ->
      let n = int_of_string n in
      let (b, r1) = parse_n parse_pv n r in
      let (a, r2) = parse_n (function t :: r -> (str_tok t, r) | [] -> failwith "dict") n r1 in
      (Dict (b, a), r2)
  | "S" :: r -> let (sp, r1) = parse_pv r in
      (match r1 with s :: r2 -> (Spaces (sp, List.hd (str_tok s)), r2) | [] -> failwith "spaces")
  | "I" :: r -> (DecInt, r)
  | "H" :: r -> (HexInt, r)
  | "P" :: r -> let (sp, r1) = parse_pv r in
      (match r1 with mi :: ms :: r2 -> (IntSpaces (sp, z_of_tok mi, z_of_tok ms), r2) | _ -> failwith "intspaces")
  | "M" :: b :: d :: r -> (MultiDigit (z_of_tok b, nat_of_int (int_of_string d)), r)
  | "O" :: n :: r -> let (l, r1) = parse_n parse_term (int_of_string n) r in (OneOf l, r1)
  | "T" :: n :: r -> let (l, r1) = parse_n parse_term (int_of_string n) r in (Tupl l, r1)
  | "Q" :: r -> let (c, r1) = parse_term r in
      (match r1 with n :: r2 -> (Seq (c, z_of_tok n), r2) | [] -> failwith "seq")
  | "G" :: r -> let (c, r1) = parse_term r in
      (match r1 with
       | "-" :: r2 -> (Grid (c, None), r2)
       | h :: w :: r2 -> (Grid (c, Some (z_of_tok h, z_of_tok w)), r2)
       | _ -> failwith "grid")
  | "R" :: s :: a :: r -> (Rooms (flag s, flag a), r)
  | "V" :: r -> let (c, r1) = parse_term r in
      (match r1 with s :: a :: r2 -> (ValuedRooms (c, flag s, flag a), r2) | _ -> failwith "vrooms")
  | "C" :: k :: r -> (Custom (nat_of_int (int_of_string k)), r)
  | _ -> failwith "term"

let rec show_pv b v = match v with
  | VNone -> Buffer.add_string b "n"
  | VInt z -> Buffer.add_string b ("i" ^ z_str z)
  | VStr s -> Buffer.add_string b (tok_str s)
  | VList l -> Buffer.add_string b "[ "; List.iter (fun x -> show_pv b x; Buffer.add_char b ' ') l; Buffer.add_string b "]"
  | VTup l -> Buffer.add_string b "( "; List.iter (fun x -> show_pv b x; Buffer.add_char b ' ') l; Buffer.add_string b ")"
let pv_str v = let b = Buffer.create 64 in show_pv b v; Buffer.contents b

let err e = "E " ^ string_of_int (int_of_nat (pyerr_code e))
let cu = function "1" -> yajilin_custom | _ -> no_custom
let ores = function Err e -> err e | Ok None -> "N" | Ok (Some v) -> "S " ^ pv_str v
let nat_tok t = nat_of_int (int_of_string t)
let bool01 b = if b then "1" else "0"

let handle toks = match toks with
  | "DU" :: c :: r ->
      let (t, r1) = parse_term r in
      (match r1 with
       | url :: r2 ->
           let (al, r3) = (match r2 with
             | "A" :: r3 -> (AllowAny, r3)
             | "O" :: nm :: r3 -> (AllowOne (str_tok nm), r3)
             | "L" :: n :: r3 ->
                 let (l, r4) = parse_n (function t :: r -> (str_tok t, r) | [] -> failwith "al") (int_of_string n) r3 in
                 (AllowList l, r4)
             | _ -> failwith "allowed") in
           (match r3 with
            | [af; rs] -> ores (deserialize_url_cu (cu c) t (str_tok url) al (flag af) (flag rs))
            | _ -> failwith "DU flags")
       | _ -> failwith "DU")
  | "DP" :: c :: h :: w :: r ->
      let (t, r1) = parse_term r in
      (match r1 with
       | [x] -> ores (deserialize_problem_cu (cu c) t (str_tok x) (z_of_tok h) (z_of_tok w))
       | _ -> failwith "DP")
  | "DE" :: c :: h :: w :: idx :: r ->
      let (t, r1) = parse_term r in
      (match r1 with
       | [x] ->
         (match de_at (cu_env (cu c) (z_of_tok h) (z_of_tok w)) t (str_tok x) (nat_tok idx) with
          | Err e -> err e | Ok None -> "N"
          | Ok (Some (k, l)) -> "K " ^ string_of_int (int_of_nat k) ^ " " ^ pv_str (VList l))
       | _ -> failwith "DE")
  | "SP" :: c :: h :: w :: r ->
      let (t, r1) = parse_term r in let (v, _) = parse_pv r1 in
      (match serialize_problem_cu (cu c) t v (z_of_tok h) (z_of_tok w) with Err e -> err e | Ok s -> "S " ^ tok_str s)
  | ["INT"; base; t] ->
      (match py_int (str_tok t) (z_of_tok base) with Err e -> err e | Ok v -> "S i" ^ z_str v)
  | ["CLS"; t] ->
      let s = str_tok t in
      String.concat "" (List.map (fun a -> bool01 (isdigit_c a)) s) ^ " " ^ bool01 (is_hex s) ^ " " ^ bool01 (is_alnum_lower s)
  | "OKS" :: r -> let (t, _) = parse_term r in
      bool01 (dec_ok t) ^ " " ^ bool01 (single t) ^ " " ^ bool01 (wf t) ^ " " ^ bool01 (tupl_single t) ^ " " ^ bool01 (productive t) ^ " " ^ bool01 (reenc_ok t)
  | ["UM"; url] ->
      (match url_match (str_tok url) with
       | None -> "N"
       | Some (((nm, wd), hd), body) -> "S " ^ pv_str (VTup [VStr nm; VStr wd; VStr hd; VStr body]))
  | _ -> "EXN bad request"

let () = main_loop handle
