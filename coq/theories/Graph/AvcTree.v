(* C04 (stretch goal, proved): the edge-count characterisation of trees used by
   the specification of active_vertices_connected(acyclic=True)
   ([Avc.tree]: connected and #induced edges + 1 = #active vertices, or no
   active vertex) coincides with "connected and every induced edge is a
   bridge of the induced subgraph" -- the acyclicity notion of C09
   ([Acyclic.forest]).

   The proof runs a union-find over the edge list (the one of
   AcyclicUnionFind, continued past redundant edges): every induced edge either
   merges two classes (the number of class representatives drops by one) or is
   redundant (it closes a cycle); so
       #representatives + #induced edges = #vertices + #redundant edges,
   and for a connected active set #representatives = #vertices - #active + 1.
   Stdlib only. *)
From Coq Require Import ZArith List Bool Arith Lia.
From Cspuz Require Import Graph.GraphModel Graph.ReachProofs Graph.Acyclic
  Graph.AcyclicGraphFacts Graph.AcyclicUnionFind Graph.Avc.
Import ListNotations.
Local Open Scope nat_scope.

(* ------------------------------------------------------------------------ *)
(* the induced, non-loop edges as an edge pattern                             *)

Definition ind_pair (act : nat -> bool) (ab : nat * nat) : bool :=
  act (fst ab) && act (snd ab) && negb (Nat.eqb (fst ab) (snd ab)).

Definition ind_edge (g : graph) (act : nat -> bool) (k : nat) : bool :=
  match nth_error (edges g) k with Some ab => ind_pair act ab | None => false end.

Lemma induced_edges_ind g act : induced_edges g act = length (filter (ind_pair act) (edges g)).
Proof. reflexivity. Qed.

Lemma ind_edge_true g act k :
  ind_edge g act k = true <->
  exists a b, nth_error (edges g) k = Some (a, b) /\ act a = true /\ act b = true /\ a <> b.
Proof.
  unfold ind_edge, ind_pair. destruct (nth_error (edges g) k) as [[a b]|]; simpl.
  - rewrite !andb_true_iff, negb_true_iff, Nat.eqb_neq. split.
    + intros [[H1 H2] H3]. exists a, b. auto.
    + intros [a' [b' [E [H1 [H2 H3]]]]]. inversion E; subst. auto.
  - split; [discriminate|]. intros [a [b [E _]]]. discriminate.
Qed.

Lemma ind_edge_lt g act k : ind_edge g act k = true -> k < length (edges g).
Proof.
  intros H. apply ind_edge_true in H. destruct H as [a [b [E _]]].
  apply nth_error_Some. congruence.
Qed.

(* a walk through active vertices is a walk along induced non-loop edges
   (steps along self-loops are dropped), and conversely *)
Lemma reach_to_joined g act eok a b :
  reach g act eok a b -> joined g (fun k => ind_edge g act k && eok k) a b.
Proof.
  unfold joined. induction 1 as [v Hv|u v w Huv IH Hw Hok].
  - apply reach_refl. reflexivity.
  - destruct (Nat.eq_dec v w) as [->|Hne]; [exact IH|].
    apply in_nbrs in Hw. destruct Hw as [k [Hin Hk]].
    eapply reach_step; [exact IH| |reflexivity].
    apply in_nbrs. exists k. split; [exact Hin|].
    rewrite Hk, andb_true_r. apply ind_edge_true.
    pose proof (reach_vok_end _ _ _ _ _ Huv) as Hv.
    apply in_incident in Hin. destruct Hin as [E|E].
    + exists v, w. auto.
    + exists w, v. auto.
Qed.

Lemma joined_to_reach g act eok a b :
  act a = true -> joined g (fun k => ind_edge g act k && eok k) a b -> reach g act eok a b.
Proof.
  unfold joined. intros Ha H. induction H as [v _|u v w Huv IH Hw _].
  - apply reach_refl. exact Ha.
  - specialize (IH Ha). apply in_nbrs in Hw. destruct Hw as [k [Hin Hk]].
    apply andb_true_iff in Hk. destruct Hk as [Hk1 Hk2].
    apply ind_edge_true in Hk1. destruct Hk1 as [x [y [E [Hx [Hy _]]]]].
    eapply reach_step; [exact IH| |].
    + apply in_nbrs. exists k. auto.
    + apply in_incident in Hin. destruct Hin as [E'|E']; rewrite E in E'; inversion E'; subst; assumption.
Qed.

(* an inactive vertex is isolated in the induced subgraph *)
Lemma joined_inactive g act eok v x :
  act v = false -> joined g (fun k => ind_edge g act k && eok k) v x -> x = v.
Proof.
  unfold joined. intros Hv H. induction H as [v _|u v w Huv IH Hw _]; [reflexivity|].
  specialize (IH Hv). subst v. exfalso.
  apply in_nbrs in Hw. destruct Hw as [k [Hin Hk]].
  apply andb_true_iff in Hk. destruct Hk as [Hk1 _].
  apply ind_edge_true in Hk1. destruct Hk1 as [x [y [E [Hx [Hy _]]]]].
  apply in_incident in Hin. destruct Hin as [E'|E']; rewrite E in E'; inversion E'; subst; congruence.
Qed.

(* ------------------------------------------------------------------------ *)
(* bridges of the induced subgraph = C09's forest on the induced edge pattern *)

Definition induced_bridges (g : graph) (act : nat -> bool) : Prop :=
  forall e a b, nth_error (edges g) e = Some (a, b) -> act a = true -> act b = true -> a <> b ->
                ~ reach g act (fun k => negb (Nat.eqb k e)) a b.

Lemma forest_induced_bridges g act : forest g (ind_edge g act) <-> induced_bridges g act.
Proof.
  split.
  - intros Hf e a b Hn Ha Hb Hab Hr.
    assert (HA : ind_edge g act e = true) by (apply ind_edge_true; exists a, b; auto).
    apply (Hf e a b Hn HA).
    exact (reach_to_joined g act (fun k => negb (Nat.eqb k e)) a b Hr).
  - intros H e a b Hn HA Hj.
    apply ind_edge_true in HA. destruct HA as [x [y [E [Hx [Hy Hxy]]]]].
    rewrite Hn in E. inversion E; subst x y.
    apply (H e a b Hn Hx Hy Hxy).
    apply joined_to_reach; [exact Hx|exact Hj].
Qed.

(* ------------------------------------------------------------------------ *)
(* list counting                                                              *)

Lemma filter_remove_one (p : nat -> bool) r l :
  NoDup l -> In r l -> p r = true ->
  length (filter (fun v => p v && negb (Nat.eqb v r)) l) + 1 = length (filter p l).
Proof.
  induction l as [|a l IH]; intros Hnd Hin Hp; [destruct Hin|].
  inversion Hnd as [|? ? Hnot Hnd']; subst. simpl.
  destruct (Nat.eq_dec a r) as [->|Hne].
  - rewrite Hp, Nat.eqb_refl. simpl.
    rewrite (filter_ext_in (fun v => p v && negb (Nat.eqb v r)) p).
    + lia.
    + intros v Hv. destruct (Nat.eqb_spec v r) as [->|_]; [contradiction|]. apply andb_true_r.
  - destruct Hin as [Hin|Hin]; [contradiction|].
    apply Nat.eqb_neq in Hne. rewrite Hne. simpl. rewrite andb_true_r.
    specialize (IH Hnd' Hin Hp). destruct (p a); simpl; lia.
Qed.

Lemma filter_neg_split {A} (p : A -> bool) l :
  length (filter (fun v => negb (p v)) l) + length (filter p l) = length l.
Proof. induction l as [|a l IH]; simpl; [reflexivity|]. destruct (p a); simpl; lia. Qed.

Lemma filter_neg_plus_one (p : nat -> bool) r l :
  NoDup l -> In r l -> p r = true ->
  length (filter (fun v => negb (p v) || Nat.eqb v r) l) = length (filter (fun v => negb (p v)) l) + 1.
Proof.
  induction l as [|a l IH]; intros Hnd Hin Hp; [destruct Hin|].
  inversion Hnd as [|? ? Hnot Hnd']; subst. simpl.
  destruct (Nat.eq_dec a r) as [->|Hne].
  - rewrite Hp, Nat.eqb_refl. simpl.
    rewrite (filter_ext_in (fun v => negb (p v) || Nat.eqb v r) (fun v => negb (p v))).
    + lia.
    + intros v Hv. destruct (Nat.eqb_spec v r) as [->|_]; [contradiction|]. apply orb_false_r.
  - destruct Hin as [Hin|Hin]; [contradiction|].
    apply Nat.eqb_neq in Hne. rewrite Hne, orb_false_r.
    specialize (IH Hnd' Hin Hp). destruct (negb (p a)); simpl; lia.
Qed.

(* ------------------------------------------------------------------------ *)
(* union-find over the whole edge list, counting the redundant edges          *)

Fixpoint uf_extra (uf : nat -> nat) (k : nat) (es : list (nat * nat)) (A : nat -> bool) : nat :=
  match es with
  | [] => 0
  | (a, b) :: r =>
      if A k then
        if Nat.eqb (uf a) (uf b) then S (uf_extra uf (S k) r A)
        else uf_extra (uf_union uf a b) (S k) r A
      else uf_extra uf (S k) r A
  end.

Fixpoint uf_final (uf : nat -> nat) (k : nat) (es : list (nat * nat)) (A : nat -> bool) : nat -> nat :=
  match es with
  | [] => uf
  | (a, b) :: r =>
      if A k then
        if Nat.eqb (uf a) (uf b) then uf_final uf (S k) r A
        else uf_final (uf_union uf a b) (S k) r A
      else uf_final uf (S k) r A
  end.

Fixpoint count_from (k : nat) (es : list (nat * nat)) (A : nat -> bool) : nat :=
  match es with
  | [] => 0
  | _ :: r => (if A k then 1 else 0) + count_from (S k) r A
  end.

Lemma uf_extra_forest A : forall es uf k,
  uf_extra uf k es A = 0 <-> uf_forest_from uf k es A = true.
Proof.
  induction es as [|[a b] r IH]; intros uf k; simpl; [tauto|].
  destruct (A k); [|apply IH].
  destruct (Nat.eqb (uf a) (uf b)); [|apply IH].
  split; discriminate.
Qed.

Definition roots (n : nat) (uf : nat -> nat) : nat :=
  length (filter (fun v => Nat.eqb (uf v) v) (seq 0 n)).

Record uf_good (n : nat) (uf : nat -> nat) : Prop := {
  ufg_idem : forall v, uf (uf v) = uf v;
  ufg_lt : forall v, v < n -> uf v < n }.

Lemma uf_good_id n : uf_good n (fun v => v).
Proof. split; auto. Qed.

Lemma roots_id n : roots n (fun v => v) = n.
Proof.
  unfold roots. rewrite (filter_ext_in _ (fun _ => true)).
  - rewrite <- (seq_length n 0) at 2. f_equal.
    induction (seq 0 n) as [|a l IH]; simpl; [reflexivity|]. rewrite IH. reflexivity.
  - intros v _. apply Nat.eqb_refl.
Qed.

Lemma uf_good_union n uf a b :
  uf_good n uf -> b < n -> uf a <> uf b -> uf_good n (uf_union uf a b).
Proof.
  intros [Hi Hl] Hb Hne. split.
  - intros v. unfold uf_union. destruct (Nat.eqb_spec (uf v) (uf a)) as [E|E].
    + rewrite !Hi. destruct (Nat.eqb_spec (uf b) (uf a)); [congruence|reflexivity].
    + rewrite !Hi. destruct (Nat.eqb_spec (uf v) (uf a)); [contradiction|reflexivity].
  - intros v Hv. unfold uf_union. destruct (Nat.eqb (uf v) (uf a)); auto.
Qed.

Lemma roots_union n uf a b :
  uf_good n uf -> a < n -> uf a <> uf b -> roots n (uf_union uf a b) + 1 = roots n uf.
Proof.
  intros [Hi Hl] Ha Hne. unfold roots.
  rewrite (filter_ext (fun v => Nat.eqb (uf_union uf a b v) v)
                      (fun v => Nat.eqb (uf v) v && negb (Nat.eqb v (uf a)))).
  - apply filter_remove_one.
    + apply seq_NoDup.
    + apply in_seq. specialize (Hl a Ha). lia.
    + rewrite Hi. apply Nat.eqb_refl.
  - intros v. unfold uf_union. destruct (Nat.eqb_spec (uf v) (uf a)) as [E|E].
    + destruct (Nat.eqb_spec (uf b) v) as [E1|E1].
      * exfalso. apply Hne. rewrite <- E. rewrite <- E1 at 1. rewrite Hi. reflexivity.
      * destruct (Nat.eqb_spec (uf v) v) as [E2|E2]; [|reflexivity].
        simpl. destruct (Nat.eqb_spec v (uf a)); [reflexivity|congruence].
    + destruct (Nat.eqb_spec v (uf a)) as [E3|E3].
      * exfalso. apply E. rewrite E3 at 1. apply Hi.
      * rewrite andb_true_r. reflexivity.
Qed.

Lemma uf_count n A : forall es uf k,
  (forall a b, In (a, b) es -> a < n /\ b < n) -> uf_good n uf ->
  uf_good n (uf_final uf k es A) /\
  roots n (uf_final uf k es A) + count_from k es A = roots n uf + uf_extra uf k es A.
Proof.
  induction es as [|[a b] r IH]; intros uf k Hb Hg; simpl.
  - split; [exact Hg|lia].
  - assert (Hb' : forall x y, In (x, y) r -> x < n /\ y < n) by (intros; apply Hb; right; assumption).
    destruct (Hb a b (or_introl eq_refl)) as [Ha Hbn].
    destruct (A k).
    + destruct (Nat.eqb_spec (uf a) (uf b)) as [E|E].
      * destruct (IH uf (S k) Hb' Hg) as [H1 H2]. split; [exact H1|lia].
      * destruct (IH (uf_union uf a b) (S k) Hb' (uf_good_union n uf a b Hg Hbn E)) as [H1 H2].
        split; [exact H1|]. pose proof (roots_union n uf a b Hg Ha E). lia.
    + destruct (IH uf (S k) Hb' Hg) as [H1 H2]. split; [exact H1|lia].
Qed.

Lemma count_from_induced g act : forall es pre,
  edges g = pre ++ es ->
  count_from (length pre) es (ind_edge g act) = length (filter (ind_pair act) es).
Proof.
  induction es as [|ab r IH]; intros pre Hs; simpl; [reflexivity|].
  assert (Hk : nth_error (edges g) (length pre) = Some ab).
  { rewrite Hs, nth_error_app2, Nat.sub_diag by lia. reflexivity. }
  assert (Hs' : edges g = (pre ++ [ab]) ++ r) by (rewrite <- app_assoc; exact Hs).
  specialize (IH (pre ++ [ab]) Hs'). rewrite app_length in IH. simpl in IH.
  rewrite Nat.add_1_r in IH. rewrite IH.
  unfold ind_edge at 1. rewrite Hk. destruct (ind_pair act ab); simpl; lia.
Qed.

(* the class invariant of AcyclicUnionFind survives a redundant edge *)
Lemma uf_inv_redundant g A uf k a b :
  nth_error (edges g) k = Some (a, b) -> uf a = uf b -> uf_inv g A uf k -> uf_inv g A uf (S k).
Proof.
  intros HK E Hinv u v. rewrite (Hinv u v). split.
  - apply joined_mono. apply below_mono.
  - intros Hj.
    assert (Hab : joined g (below A k) a b) by (apply Hinv; exact E).
    destruct (add_edge_reach g (below A k) _ k a b u v HK (below_S_cases A k) Hj)
      as [H1|[[H1 H2]|[H1 H2]]].
    + exact H1.
    + apply (reach_trans _ _ _ _ a); [exact H1|]. apply (reach_trans _ _ _ _ b); assumption.
    + apply (reach_trans _ _ _ _ b); [exact H1|].
      apply (reach_trans _ _ _ _ a); [apply reach_sym; exact Hab|exact H2].
Qed.

Lemma uf_final_inv g A : forall es pre uf,
  edges g = pre ++ es -> uf_inv g A uf (length pre) ->
  uf_inv g A (uf_final uf (length pre) es A) (length (edges g)).
Proof.
  induction es as [|[a b] r IH]; intros pre uf Hs Hinv; simpl.
  - rewrite Hs, app_nil_r. exact Hinv.
  - assert (Hk : nth_error (edges g) (length pre) = Some (a, b)).
    { rewrite Hs, nth_error_app2, Nat.sub_diag by lia. reflexivity. }
    assert (Hs' : edges g = (pre ++ [(a, b)]) ++ r) by (rewrite <- app_assoc; exact Hs).
    assert (Hlen : length (pre ++ [(a, b)]) = S (length pre)) by (rewrite app_length; simpl; lia).
    destruct (A (length pre)) eqn:HA.
    + destruct (Nat.eqb_spec (uf a) (uf b)) as [E|E].
      * specialize (IH (pre ++ [(a, b)]) uf Hs'). rewrite Hlen in IH. apply IH.
        eapply uf_inv_redundant; eassumption.
      * specialize (IH (pre ++ [(a, b)]) (uf_union uf a b) Hs'). rewrite Hlen in IH. apply IH.
        apply uf_inv_union; assumption.
    + specialize (IH (pre ++ [(a, b)]) uf Hs'). rewrite Hlen in IH. apply IH.
      apply uf_inv_skip; assumption.
Qed.

(* ------------------------------------------------------------------------ *)
(* the main counting facts                                                    *)

Section Tree.
  Variable g : graph.
  Variable act : nat -> bool.
  Hypothesis Hwf : wf_graph g = true.

  Let A := ind_edge g act.
  Let n := nv g.
  Let ufF := uf_final (fun v => v) 0 (edges g) A.
  Let X := uf_extra (fun v => v) 0 (edges g) A.

  Lemma edges_bounded : forall a b, In (a, b) (edges g) -> a < n /\ b < n.
  Proof.
    intros a b Hin. apply In_nth_error in Hin. destruct Hin as [k Hk].
    exact (wf_graph_nth g k a b Hwf Hk).
  Qed.

  Lemma tree_count : roots n ufF + induced_edges g act = n + X.
  Proof.
    destruct (uf_count n A (edges g) (fun v => v) 0 edges_bounded (uf_good_id n)) as [_ H].
    rewrite roots_id in H. rewrite induced_edges_ind.
    rewrite <- (count_from_induced g act (edges g) [] eq_refl). exact H.
  Qed.

  Lemma tree_good : uf_good n ufF.
  Proof. apply (uf_count n A (edges g) (fun v => v) 0 edges_bounded (uf_good_id n)). Qed.

  Lemma tree_inv : uf_inv g A ufF (length (edges g)).
  Proof. apply (uf_final_inv g A (edges g) [] (fun v => v) eq_refl). apply uf_inv_init. Qed.

  Lemma tree_extra_forest : X = 0 <-> forest g A.
  Proof.
    unfold X. rewrite uf_extra_forest. apply (uf_forest_spec g A).
  Qed.

  (* below A (all edges) is A itself *)
  Lemma joined_below_all u v :
    joined g (below A (length (edges g))) u v <->
    joined g (fun k => ind_edge g act k && all_edges_ok k) u v.
  Proof.
    split; apply joined_mono; intros k Hk.
    - unfold below in Hk. apply andb_true_iff in Hk. destruct Hk as [Hk _].
      fold A. rewrite Hk. reflexivity.
    - apply andb_true_iff in Hk. destruct Hk as [Hk _]. unfold below. fold A in Hk. rewrite Hk. simpl.
      apply Nat.ltb_lt. apply (ind_edge_lt g act). exact Hk.
  Qed.

  Lemma ufF_joined u v :
    ufF u = ufF v <-> joined g (fun k => ind_edge g act k && all_edges_ok k) u v.
  Proof. rewrite <- joined_below_all. apply tree_inv. Qed.

  Lemma n_active_pos_witness : n_active g act <> 0 -> exists s, s < n /\ act s = true.
  Proof.
    unfold n_active. intros H. destruct (filter act (seq 0 (nv g))) as [|s l] eqn:E; [contradiction|].
    assert (Hs : In s (filter act (seq 0 (nv g)))) by (rewrite E; left; reflexivity).
    apply filter_In in Hs. destruct Hs as [Hs Ha]. apply in_seq in Hs. exists s. split; [unfold n; lia|exact Ha].
  Qed.

  Lemma active_n_active a : a < n -> act a = true -> n_active g act <> 0.
  Proof.
    intros Ha Hact. unfold n_active.
    assert (In a (filter act (seq 0 (nv g)))) by (apply filter_In; split; [apply in_seq; unfold n in Ha; lia|exact Hact]).
    destruct (filter act (seq 0 (nv g))); [destruct H|simpl; lia].
  Qed.

  (* a connected non-empty active set: one class of active vertices, every
     inactive vertex alone *)
  Lemma tree_roots : connected g act -> n_active g act <> 0 -> roots n ufF + n_active g act = n + 1.
  Proof.
    intros Hc Hpos. destruct (n_active_pos_witness Hpos) as [s [Hs Has]].
    pose proof tree_good as [Hidem Hlt].
    set (r := ufF s).
    assert (Hsr : joined g (fun k => ind_edge g act k && all_edges_ok k) s r).
    { apply ufF_joined. unfold r. symmetry. apply Hidem. }
    assert (Hr : act r = true).
    { apply (reach_vok_end g act all_edges_ok s r). apply joined_to_reach; assumption. }
    assert (Hrn : r < n) by (apply Hlt; exact Hs).
    assert (Hroot : forall v, In v (seq 0 n) ->
              Nat.eqb (ufF v) v = (negb (act v) || Nat.eqb v r)).
    { intros v Hv. apply in_seq in Hv. destruct (act v) eqn:Hav; simpl.
      - assert (E : ufF v = r).
        { unfold r. apply ufF_joined. apply reach_to_joined. apply Hc; auto; unfold n in *; lia. }
        rewrite E. apply Nat.eqb_sym.
      - assert (E : ufF v = v).
        { apply (joined_inactive g act all_edges_ok v (ufF v) Hav). apply ufF_joined.
          symmetry. apply Hidem. }
        rewrite E. apply Nat.eqb_refl. }
    unfold roots. rewrite (filter_ext_in _ _ _ Hroot).
    rewrite (filter_neg_plus_one act r (seq 0 n)); [|apply seq_NoDup|apply in_seq; lia|exact Hr].
    pose proof (filter_neg_split act (seq 0 n)) as Hsplit. rewrite seq_length in Hsplit.
    unfold n_active. fold n. lia.
  Qed.

  Theorem tree_iff_forest : tree g act <-> (connected g act /\ forest g (ind_edge g act)).
  Proof.
    pose proof tree_count as Hcount. unfold tree. split.
    - intros [Hc Hn]. split; [exact Hc|]. destruct Hn as [Hn|Hn].
      + intros e a b He HA. exfalso. apply ind_edge_true in HA.
        destruct HA as [x [y [E [Hx _]]]].
        destruct (wf_graph_nth g e x y Hwf E) as [Hxn _].
        exact (active_n_active x Hxn Hx Hn).
      + apply tree_extra_forest.
        assert (Hpos : n_active g act <> 0) by lia.
        pose proof (tree_roots Hc Hpos). lia.
    - intros [Hc Hf]. split; [exact Hc|].
      destruct (Nat.eq_dec (n_active g act) 0) as [Hz|Hpos]; [left; exact Hz|right].
      apply tree_extra_forest in Hf. pose proof (tree_roots Hc Hpos). lia.
  Qed.
End Tree.

(* ------------------------------------------------------------------------ *)
(* the restatements                                                           *)

(* For every well-formed multigraph (parallel edges and self-loops allowed)
   and every active set: "connected and #induced edges + 1 = #active (or no
   active vertex)" holds exactly when the active vertices are connected and
   every induced edge between two distinct vertices is a bridge of the induced
   subgraph.  (Self-loops are ignored by both sides: [induced_edges] does not
   count them, and the bridge condition is only asked for a <> b.) *)
Theorem tree_iff_bridges : forall g act, wf_graph g = true ->
  (tree g act <->
   (connected g act /\
    (forall e a b, nth_error (edges g) e = Some (a, b) -> act a = true -> act b = true -> a <> b ->
                   ~ reach g act (fun k => negb (Nat.eqb k e)) a b))).
Proof.
  intros g act Hwf. rewrite (tree_iff_forest g act Hwf).
  rewrite (forest_induced_bridges g act). reflexivity.
Qed.

(* on loop-free graphs the side condition a <> b disappears *)
Theorem tree_iff_bridges_loop_free : forall g act, wf_graph g = true -> loop_free g = true ->
  (tree g act <->
   (connected g act /\
    (forall e a b, nth_error (edges g) e = Some (a, b) -> act a = true -> act b = true ->
                   ~ reach g act (fun k => negb (Nat.eqb k e)) a b))).
Proof.
  intros g act Hwf Hlf. rewrite (tree_iff_bridges g act Hwf). split; intros [Hc H]; (split; [exact Hc|]).
  - intros e a b Hn Ha Hb. apply (H e a b Hn Ha Hb). exact (loop_free_nth g e a b Hlf Hn).
  - intros e a b Hn Ha Hb _. exact (H e a b Hn Ha Hb).
Qed.

(* without the side condition a <> b the statement is false as soon as an
   active vertex carries a self-loop: one vertex with a loop is a tree for the
   edge-count definition (and is accepted by the encoding), but its loop is not
   a bridge *)
Example tree_bridges_needs_distinct :
  let g := {| nv := 1; edges := [(0, 0)] |} in
  let act := fun _ : nat => true in
  wf_graph g = true /\ tree g act /\
  ~ (forall e a b, nth_error (edges g) e = Some (a, b) -> act a = true -> act b = true ->
                   ~ reach g act (fun k => negb (Nat.eqb k e)) a b).
Proof.
  simpl. split; [reflexivity|]. split.
  - split; [|right; reflexivity].
    intros u v Hu Hv _ _. simpl in Hu, Hv. assert (u = 0) by lia. assert (v = 0) by lia. subst.
    apply reach_refl. reflexivity.
  - intros H. apply (H 0 0 0 eq_refl eq_refl eq_refl). apply reach_refl. reflexivity.
Qed.
