(* Lemmas about the string primitives of Backend/SugarText.v. *)
From Coq Require Import ZArith List Bool String Ascii Decimal DecimalString DecimalZ DecimalPos Lia.
From Cspuz Require Import Lib.PyErr Backend.SugarText.
Import ListNotations.
Open Scope string_scope.

(* ---- append ---- *)
Lemma app_assoc_s (a b c : string) : (a ++ b) ++ c = a ++ (b ++ c).
Proof. induction a; simpl; congruence. Qed.
Lemma app_nil_r_s (a : string) : a ++ "" = a.
Proof. induction a; simpl; congruence. Qed.
Lemma length_app_s (a b : string) : String.length (a ++ b) = (String.length a + String.length b)%nat.
Proof. induction a; simpl; congruence. Qed.

(* ---- character classes ---- *)
Fixpoint all_chars (P : ascii -> bool) (s : string) : bool :=
  match s with "" => true | String c r => P c && all_chars P r end.

Lemma all_chars_app P a b : all_chars P (a ++ b) = all_chars P a && all_chars P b.
Proof. induction a; simpl; [reflexivity|]. rewrite IHa. apply andb_assoc. Qed.
Lemma all_chars_impl (P Q : ascii -> bool) s :
  (forall c, P c = true -> Q c = true) -> all_chars P s = true -> all_chars Q s = true.
Proof.
  intros H; induction s; simpl; [reflexivity|].
  rewrite andb_true_iff; intros [H1 H2]. rewrite (H _ H1), IHs; auto.
Qed.

(* characters of printed numbers and variable names: digits, '-', 'b', 'i' *)
Definition tokc (c : ascii) : bool :=
  is_digit c || Ascii.eqb c "-" || Ascii.eqb c "b" || Ascii.eqb c "i".
(* printable, not '#': everything the printer emits *)
Definition printc (c : ascii) : bool :=
  let n := nat_of_ascii c in Nat.leb 32 n && Nat.leb n 126 && negb (Nat.eqb n 35).

Ltac by_char c := destruct c as [[|] [|] [|] [|] [|] [|] [|] [|]]; try discriminate; try reflexivity.

Lemma digit_tokc c : is_digit c = true -> tokc c = true.
Proof. unfold tokc; intros ->; reflexivity. Qed.
Lemma tokc_not_pyspace c : tokc c = true -> is_py_space c = false.
Proof. by_char c. Qed.
Lemma tokc_not_intspace c : tokc c = true -> is_int_space c = false.
Proof. by_char c. Qed.
Lemma tokc_printc c : tokc c = true -> printc c = true.
Proof. by_char c. Qed.
Lemma tokc_neq c d : tokc c = true -> tokc d = false -> Ascii.eqb c d = false.
Proof. intros H1 H2. destruct (Ascii.eqb_spec c d); [subst; congruence | reflexivity]. Qed.
Lemma digit_not_us c : is_digit c = true -> Ascii.eqb c "_" = false.
Proof. by_char c. Qed.
Lemma digit_not_minus c : is_digit c = true -> Ascii.eqb c "-" = false.
Proof. by_char c. Qed.
Lemma digit_not_plus c : is_digit c = true -> Ascii.eqb c "+" = false.
Proof. by_char c. Qed.
Lemma printc_not_nl c : printc c = true -> Ascii.eqb c ch_nl = false.
Proof. by_char c. Qed.
Lemma printc_not_hash c : printc c = true -> Ascii.eqb c "#" = false.
Proof. by_char c. Qed.

(* ---- split / join ---- *)
Definition no_char (c : ascii) (s : string) : bool := all_chars (fun a => negb (Ascii.eqb a c)) s.

Lemma split_on_none c s : no_char c s = true -> split_on c s = [s].
Proof.
  unfold no_char. induction s; simpl; [reflexivity|].
  rewrite andb_true_iff, negb_true_iff; intros [H1 H2]. rewrite H1, (IHs H2). reflexivity.
Qed.
Lemma split_on_app c p r : no_char c p = true -> split_on c (p ++ String c r) = p :: split_on c r.
Proof.
  unfold no_char. induction p; simpl; intros H.
  - rewrite Ascii.eqb_refl. reflexivity.
  - apply andb_true_iff in H as [H1 H2]. apply negb_true_iff in H1. rewrite H1, (IHp H2). reflexivity.
Qed.

(* text printed line by line: split gives the lines back, plus the empty tail *)
Lemma split_unlines l :
  Forall (fun x => no_char ch_nl x = true) l -> split_on ch_nl (unlines l) = (l ++ [""])%list.
Proof.
  induction 1; simpl; [reflexivity|].
  change (s_nl ++ unlines l) with (String ch_nl (unlines l)).
  rewrite split_on_app by assumption. f_equal. exact IHForall.
Qed.

Lemma split_join_nl l :
  l <> [] -> Forall (fun x => no_char ch_nl x = true) l -> split_on ch_nl (join s_nl l) = l.
Proof.
  intros Hne H; induction H; [congruence|].
  simpl. destruct l as [|y r].
  - apply split_on_none; assumption.
  - unfold s_nl at 1. simpl append. rewrite split_on_app by assumption.
    f_equal. apply IHForall. discriminate.
Qed.

(* ---- strip ---- *)
Lemma rstrip_id s : all_chars (fun c => negb (is_py_space c)) s = true -> rstrip s = s.
Proof.
  induction s; simpl; [reflexivity|].
  rewrite andb_true_iff, negb_true_iff; intros [H1 H2]. rewrite (IHs H2), H1.
  destruct s; reflexivity.
Qed.
Lemma strip_id s : all_chars (fun c => negb (is_py_space c)) s = true -> strip s = s.
Proof.
  intros H. unfold strip.
  assert (lstrip s = s) as ->.
  { destruct s; simpl in *; [reflexivity|]. apply andb_true_iff in H as [H _].
    apply negb_true_iff in H. rewrite H. reflexivity. }
  apply rstrip_id; assumption.
Qed.
Lemma rstrip_i_id s : all_chars (fun c => negb (is_int_space c)) s = true -> rstrip_i s = s.
Proof.
  induction s; simpl; [reflexivity|].
  rewrite andb_true_iff, negb_true_iff; intros [H1 H2]. rewrite (IHs H2), H1.
  destruct s; reflexivity.
Qed.
Lemma lstrip_i_id s : all_chars (fun c => negb (is_int_space c)) s = true -> lstrip_i s = s.
Proof.
  destruct s; simpl; [reflexivity|]. rewrite andb_true_iff, negb_true_iff; intros [-> _]. reflexivity.
Qed.

(* ---- decimal numerals ---- *)
Lemma digits_uint u : all_chars is_digit (NilEmpty.string_of_uint u) = true.
Proof. induction u; simpl; auto. Qed.
Lemma digits_uint0 u : all_chars is_digit (NilZero.string_of_uint u) = true.
Proof. destruct u; try apply (digits_uint (_ _)); reflexivity. Qed.
Lemma uint0_nonempty u : NilZero.string_of_uint u <> "".
Proof. destruct u; simpl; discriminate. Qed.
Lemma uint0_read u : exists u', NilEmpty.uint_of_string (NilZero.string_of_uint u) = Some u' /\ Z.of_uint u' = Z.of_uint u.
Proof.
  destruct u; try (eexists; split; [apply (NilEmpty.usu (_ _)) | reflexivity]).
  exists (D0 Nil); split; reflexivity.
Qed.

Lemma digits_ok_digits s p : all_chars is_digit s = true -> (s <> "" \/ p = true) -> digits_ok p s = true.
Proof.
  revert p; induction s; simpl; intros p H Hne.
  - destruct Hne; congruence.
  - apply andb_true_iff in H as [H1 H2]. rewrite H1. apply IHs; auto.
Qed.
Lemma remove_us_digits s : all_chars is_digit s = true -> remove_us s = s.
Proof.
  induction s; simpl; [reflexivity|]. rewrite andb_true_iff; intros [H1 H2].
  rewrite (digit_not_us _ H1), (IHs H2). reflexivity.
Qed.

Lemma pz_shape z :
  exists u, (pz z = NilZero.string_of_uint u /\ Z.of_uint u = z) \/
            (pz z = String "-" (NilZero.string_of_uint u) /\ (- Z.of_uint u)%Z = z).
Proof.
  unfold pz. pose proof (DecimalZ.of_to z) as H.
  destruct (Z.to_int z) as [u|u]; exists u; [left|right]; split; auto.
Qed.

Lemma pz_tokc z : all_chars tokc (pz z) = true.
Proof.
  destruct (pz_shape z) as [u [[-> _]|[-> _]]]; simpl;
    apply (all_chars_impl is_digit tokc _ digit_tokc), digits_uint0.
Qed.
Lemma pz_nonempty z : pz z <> "".
Proof. destruct (pz_shape z) as [u [[-> _]|[-> _]]]; [apply uint0_nonempty | discriminate]. Qed.

Lemma all_digit_nospace s : all_chars is_digit s = true -> all_chars (fun c => negb (is_int_space c)) s = true.
Proof.
  apply all_chars_impl. intros c H. rewrite (tokc_not_intspace c (digit_tokc c H)). reflexivity.
Qed.

Lemma py_int_digits u : py_int (NilZero.string_of_uint u) = Ok (Z.of_uint u).
Proof.
  pose proof (digits_uint0 u) as Hd. pose proof (uint0_nonempty u) as Hne.
  destruct (uint0_read u) as [u' [Hr Hv]].
  unfold py_int. rewrite (lstrip_i_id _ (all_digit_nospace _ Hd)), (rstrip_i_id _ (all_digit_nospace _ Hd)).
  destruct (NilZero.string_of_uint u) as [|c r] eqn:E; [congruence|].
  simpl in Hd. apply andb_true_iff in Hd as [Hc Hr'].
  rewrite (digit_not_minus _ Hc), (digit_not_plus _ Hc).
  rewrite digits_ok_digits; [| simpl; rewrite Hc, Hr'; reflexivity | left; discriminate].
  rewrite remove_us_digits by (simpl; rewrite Hc, Hr'; reflexivity).
  rewrite Hr, Hv. reflexivity.
Qed.

Lemma py_int_pz z : py_int (pz z) = Ok z.
Proof.
  destruct (pz_shape z) as [u [[-> Hv]|[-> Hv]]].
  - rewrite py_int_digits, Hv. reflexivity.
  - pose proof (digits_uint0 u) as Hd. pose proof (uint0_nonempty u) as Hne.
    destruct (uint0_read u) as [u' [Hr Hv']].
    unfold py_int.
    assert (Hs : all_chars (fun c => negb (is_int_space c)) (String "-" (NilZero.string_of_uint u)) = true).
    { simpl. apply all_digit_nospace; assumption. }
    rewrite (lstrip_i_id _ Hs), (rstrip_i_id _ Hs). simpl.
    rewrite digits_ok_digits by (auto; left; assumption).
    rewrite remove_us_digits by assumption. rewrite Hr, Hv', Hv. reflexivity.
Qed.

(* the first character of a printed number is a digit or '-' *)
Lemma pz_first z : exists c r, pz z = String c r /\ (is_digit c = true \/ c = "-"%char).
Proof.
  destruct (pz_shape z) as [u [[E _]|[E _]]]; rewrite E.
  - pose proof (digits_uint0 u) as Hd. pose proof (uint0_nonempty u) as Hne.
    destruct (NilZero.string_of_uint u) as [|c r]; [congruence|]. exists c, r; split; auto.
    simpl in Hd; apply andb_true_iff in Hd as [Hc _]; auto.
  - eauto.
Qed.

Lemma pz_not_true z : String.eqb (pz z) "true" = false /\ String.eqb (pz z) "false" = false.
Proof.
  destruct (pz_first z) as [c [r [E H]]]. rewrite E. simpl.
  destruct H as [H| ->]; [|split; reflexivity].
  split; (destruct (Ascii.eqb_spec c "t"); [subst; discriminate|]);
         (destruct (Ascii.eqb_spec c "f"); [subst; discriminate|]); reflexivity.
Qed.

(* ---- list assignment ---- *)
Lemma set_at_length {A} (l : list A) n a : List.length (set_at l n a) = List.length l.
Proof. revert n; induction l; destruct n; simpl; auto. Qed.
Lemma nth_set_at_same {A} (l : list A) n a d : (n < List.length l)%nat -> nth n (set_at l n a) d = a.
Proof. revert n; induction l; destruct n; simpl; intros; try lia; auto. apply IHl; lia. Qed.
Lemma nth_set_at_other {A} (l : list A) n m a d : n <> m -> nth m (set_at l n a) d = nth m l d.
Proof. revert n m; induction l; destruct n, m; simpl; intros; try congruence; auto. Qed.
Lemma py_setitem_nat {A} (l : list A) (n : nat) a :
  (n < List.length l)%nat -> py_setitem l (Z.of_nat n) a = Ok (set_at l n a).
Proof.
  intros H. unfold py_setitem.
  destruct (Z.leb_spec 0 (Z.of_nat n)); [|lia].
  destruct (Z.ltb_spec (Z.of_nat n) (Z.of_nat (List.length l))); [|lia].
  simpl. rewrite Nat2Z.id. reflexivity.
Qed.
