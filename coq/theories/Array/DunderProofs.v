(* C12 — the method table regenerated from the Python source (Gen/DunderTable.v)
   says what the model's table says. *)
From Coq Require Import ZArith List Bool.
From Cspuz Require Import Lib.PyErr Core.Expr Core.Build Array.Elementwise Gen.DunderTable.
Import ListNotations.

Lemma expected_table_lookup : forall c m, lookup_row expected_table c m = lookup_method c m.
Proof. intros c m; destruct c, m; reflexivity. Qed.

Lemma dunder_table_lookup : forall c m, lookup_row dunder_table c m = lookup_method c m.
Proof. intros c m; destruct c, m; vm_compute; reflexivity. Qed.

Lemma dunder_table_length : length dunder_table = length expected_table.
Proof. vm_compute; reflexivity. Qed.
