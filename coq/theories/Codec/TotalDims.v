(* C17: what a successful Rooms decode returns: every cell of the declared board in exactly
   one room; and re-encodability of the values the leaf decoders return. *)
From Coq Require Import ZArith List Ascii Bool NArith Lia Permutation.
From Cspuz Require Import Lib.PyErr Codec.Comb Codec.CombWf Codec.CombBasics Codec.CombLeaf Codec.Legacy Codec.Url Codec.Puzzles
  Codec.TotalModel Codec.TotalLeaf Codec.TotalRooms Codec.Total.
Import ListNotations.
Local Open Scope Z_scope.

Definition cp (c : nat * nat) : pv := cell_pv (fst c) (snd c).

Lemma concat_set_nth_app {A} : forall (rooms : list (list A)) i c, (i < length rooms)%nat ->
  Permutation (concat (set_nth rooms i (nth i rooms [] ++ [c]))) (c :: concat rooms).
Proof.
  induction rooms as [|r rooms IH]; intros [|i] c Hi; simpl in *; try lia.
  - rewrite <- app_assoc. simpl. symmetry. apply Permutation_middle.
  - etransitivity; [apply Permutation_app_head; apply IH; lia|].
    symmetry. apply Permutation_middle.
Qed.

Lemma wrap_index_lt {A} (l : list A) v i : wrap_index l v = Ok i -> (i < length l)%nat.
Proof.
  unfold wrap_index.
  destruct ((0 <=? v) && (v <? Z.of_nat (length l))) eqn:E1.
  { apply andb_true_iff in E1 as [A1 A2]. apply Z.leb_le in A1. apply Z.ltb_lt in A2. intros H; inversion H; lia. }
  destruct ((- Z.of_nat (length l) <=? v) && (v <? 0)) eqn:E2; [|discriminate].
  apply andb_true_iff in E2 as [A1 A2]. apply Z.leb_le in A1. apply Z.ltb_lt in A2. intros H; inversion H; lia.
Qed.

Lemma collect_rooms_perm g : forall cells rooms rooms',
  collect_rooms g cells rooms = Ok rooms' ->
  Permutation (concat rooms') (concat rooms ++ map cp cells).
Proof.
  induction cells as [|[y x] cells IH]; intros rooms rooms' H; simpl in H.
  - inversion H; subst. rewrite app_nil_r. reflexivity.
  - destruct (grid_get g y x) as [v|]; [|discriminate].
    destruct (v =? -1); [discriminate|].
    destruct (wrap_index rooms v) as [i|] eqn:Ew; [|discriminate].
    apply IH in H. etransitivity; [exact H|].
    etransitivity; [apply Permutation_app_tail; apply concat_set_nth_app; eapply wrap_index_lt; eauto|].
    simpl. apply Permutation_middle.
Qed.

Lemma concat_repeat_nil {A} n : concat (repeat (@nil A) n) = [].
Proof. induction n; simpl; auto. Qed.

Lemma rooms_of_borders_perm h w allow vg hg v : rooms_of_borders h w allow vg hg = Ok v ->
  exists rooms, v = VList (map VList rooms) /\ Permutation (concat rooms) (map cp (cells_of h w)).
Proof.
  unfold rooms_of_borders.
  destruct (fill_all h w vg hg (cells_of h w) (neg_grid h w) 0) as [[g n]|]; [|discriminate].
  destruct (if allow then Ok tt else redundant_check h w vg hg g (cells_of h w)); [|discriminate].
  destruct (collect_rooms g (cells_of h w) (repeat [] (Z.to_nat n))) as [rooms|] eqn:E; [|discriminate].
  intros H. inversion H; subst. exists rooms. split; auto.
  apply collect_rooms_perm in E. rewrite concat_repeat_nil in E. exact E.
Qed.

(* p is a list of rooms in which every cell of the h x w board occurs exactly once *)
Definition rooms_shape (h w : Z) (p : pv) : Prop :=
  exists rooms, p = VList (map VList rooms) /\ Permutation (concat rooms) (map cp (cells_of h w)).

Lemma rooms_raw_shape e allow s k l : rooms_de_raw e allow s = Ok (Some (k, l)) ->
  exists p, l = [p] /\ rooms_shape (height e) (width e) p.
Proof.
  unfold rooms_de_raw. cbv zeta.
  destruct ((height e <=? 0) || (width e <=? 0)); [discriminate|].
  destruct (grid_de (md_de 2 5) e (Some (height e, width e - 1)) s) as [[[n1 v1]|]|]; try discriminate.
  destruct (grid_de (md_de 2 5) e (Some (height e - 1, width e)) (skipn n1 s)) as [[[n2 v2]|]|]; try discriminate.
  destruct v1 as [|vertical [|]]; try discriminate. destruct v2 as [|horizontal [|]]; try discriminate.
  destruct (as_int_grid vertical) as [vg|]; try discriminate.
  destruct (as_int_grid horizontal) as [hg|]; try discriminate.
  destruct (rooms_of_borders (height e) (width e) allow vg hg) as [v|] eqn:E; try discriminate.
  intros H. inversion H; subst. exists v. split; auto. eapply rooms_of_borders_perm; eauto.
Qed.

Theorem rooms_dims_lemma e skip allow s k l : de e (Rooms skip allow) s = Ok (Some (k, l)) ->
  exists p, l = [p] /\ rooms_shape (height e) (width e) p.
Proof. simpl. unfold rooms_de. intros H. apply skip_value_error_some in H. eapply rooms_raw_shape; eauto. Qed.

Theorem vrooms_dims_lemma e vc skip allow s k l : de e (ValuedRooms vc skip allow) s = Ok (Some (k, l)) ->
  exists rooms values, l = [VTup [rooms; values]] /\ rooms_shape (height e) (width e) rooms.
Proof.
  simpl. unfold vrooms_de, rooms_de.
  destruct (skip_value_error skip (rooms_de_raw e allow s)) as [[[ofs rooms]|]|] eqn:E; try discriminate.
  apply skip_value_error_some in E. apply rooms_raw_shape in E as (p & -> & Hs). simpl.
  destruct (py_items p) as [rl|]; try discriminate.
  destruct (seq_de (de e vc) (Z.of_nat (length rl)) (skipn ofs s)) as [[[ofs2 values]|]|]; try discriminate.
  destruct (nth_res values 0) as [values0|]; try discriminate.
  intros H. inversion H; subst. eauto.
Qed.

(* URL level for the Rooms / ValuedRooms codecs *)
Theorem url_rooms_dims_lemma cu skip allow al af rs url name wd hd body v :
  url_match url = Some (name, wd, hd, body) ->
  deserialize_url_cu cu (Rooms skip allow) url al af rs = Ok (Some v) ->
  exists w h p, py_int wd 10 = Ok w /\ py_int hd 10 = Ok h /\ rooms_shape h w p /\
                v = (if rs then VTup [VInt h; VInt w; p] else p).
Proof.
  intros E. unfold deserialize_url_cu. rewrite E.
  destruct (py_int wd 10) as [w|]; [|discriminate]. destruct (py_int hd 10) as [h|]; [|discriminate]. simpl.
  destruct (negb (allowed_ok al name)); [discriminate|].
  unfold deserialize_problem_cu.
  destruct (de (cu_env cu h w) (Rooms skip allow) body) as [[[k l]|]|] eqn:Ed; simpl; try discriminate.
  apply rooms_dims_lemma in Ed as (p & -> & Hs). simpl in Hs. simpl.
  intros H. exists w, h, p. repeat split; auto.
  destruct p; inversion H; auto.
Qed.

Theorem url_vrooms_dims_lemma cu vc skip allow al af rs url name wd hd body v :
  url_match url = Some (name, wd, hd, body) ->
  deserialize_url_cu cu (ValuedRooms vc skip allow) url al af rs = Ok (Some v) ->
  exists w h rooms values, py_int wd 10 = Ok w /\ py_int hd 10 = Ok h /\ rooms_shape h w rooms /\
                v = (if rs then VTup [VInt h; VInt w; VTup [rooms; values]] else VTup [rooms; values]).
Proof.
  intros E. unfold deserialize_url_cu. rewrite E.
  destruct (py_int wd 10) as [w|]; [|discriminate]. destruct (py_int hd 10) as [h|]; [|discriminate]. simpl.
  destruct (negb (allowed_ok al name)); [discriminate|].
  unfold deserialize_problem_cu.
  destruct (de (cu_env cu h w) (ValuedRooms vc skip allow) body) as [[[k l]|]|] eqn:Ed; simpl; try discriminate.
  apply vrooms_dims_lemma in Ed as (rooms & values & -> & Hs). simpl in Hs. simpl.
  intros H. inversion H; subst. exists w, h, rooms, values. repeat split; auto.
Qed.

(* ------------------------------------------------------------------ re-encodability: HexInt *)
Lemma hexc_clean ch : is_hex_c ch = true -> cleanb 16 ch = true /\ 0 <= dv ch < 16.
Proof.
  assert (H : forallb (fun ch => implb (is_hex_c ch) (cleanb 16 ch && (0 <=? dv ch) && (dv ch <? 16))) all_chars = true)
    by (vm_compute; reflexivity).
  intros Hh. pose proof (forall_chars _ H ch) as H1. simpl in H1. rewrite Hh in H1. simpl in H1.
  apply andb_true_iff in H1 as [H1 H3]. apply andb_true_iff in H1 as [H1 H2].
  apply Z.leb_le in H2. apply Z.ltb_lt in H3. auto.
Qed.

Lemma hex_digits_value : forall ds acc, forallb is_hex_c ds = true -> 0 <= acc ->
  forallb (cleanb 16) ds = true /\ acc * 16 ^ Z.of_nat (length ds) <= valacc 16 acc ds < (acc + 1) * 16 ^ Z.of_nat (length ds).
Proof.
  induction ds as [|c ds IH]; intros acc Hd Ha.
  - simpl. unfold valacc. simpl. split; auto. lia.
  - simpl in Hd. apply andb_true_iff in Hd as [Hc Hd]. destruct (hexc_clean c Hc) as [Hcl Hr].
    destruct (IH (acc * 16 + dv c) Hd ltac:(lia)) as [H1 H2].
    split. { simpl. rewrite Hcl. exact H1. }
    unfold valacc in *. simpl fold_left. unfold step at 2 4.
    replace (Z.of_nat (length (c :: ds))) with (Z.of_nat (length ds) + 1) by (simpl length; lia).
    rewrite Z.pow_add_r by lia. change (16 ^ 1) with 16.
    assert (0 < 16 ^ Z.of_nat (length ds)) by (apply Z.pow_pos_nonneg; lia). nia.
Qed.

Lemma hex_digits_int ds : ds <> [] -> is_hex ds = true ->
  exists v, py_int ds 16 = Ok v /\ 0 <= v < 16 ^ Z.of_nat (length ds).
Proof.
  intros Hne Hh. unfold is_hex in Hh. destruct (hex_digits_value ds 0 Hh ltac:(lia)) as [Hc Hv].
  exists (valacc 16 0 ds). split; [apply py_int_clean; auto|lia].
Qed.

(* whatever HexInt.deserialize returns is a value HexInt.serialize accepts, and the canonical
   text decodes to it again (whatever follows) *)
Theorem hexint_reencodable_lemma s k l : hexint_de s = Ok (Some (k, l)) ->
  exists z t, l = [VInt z] /\ 0 <= z <= 4095 /\
    hexint_ser (VList [VInt z]) 0 = Ok (Some (1%nat, t)) /\
    forall rest, hexint_de (t ++ rest) = Ok (Some (length t, [VInt z])).
Proof.
  intros H.
  assert (Hz : exists z, l = [VInt z] /\ 0 <= z <= 4095).
  { unfold hexint_de in H. destruct s as [|c t]; [discriminate|]. unfold from_base16 in H.
    destruct (ascii_eqb c "-"%char).
    { destruct (Nat.ltb (length (c :: t)) 3) eqn:El; [discriminate|]. apply Nat.ltb_ge in El. simpl in El.
      destruct (is_hex (firstn 2 t)) eqn:Eh; cbn [negb] in H; [|discriminate].
      destruct (hex_digits_int (firstn 2 t)) as (v & Pv & Rv); auto.
      { destruct t as [|a [|b t]]; simpl in *; try lia; discriminate. }
      rewrite Pv in H. inversion H; subst. exists v. split; auto.
      rewrite firstn_length in Rv. replace (Nat.min 2 (length t)) with 2%nat in Rv by lia. simpl in Rv. lia. }
    destruct (ascii_eqb c "+"%char).
    { destruct (Nat.ltb (length (c :: t)) 4) eqn:El; [discriminate|]. apply Nat.ltb_ge in El. simpl in El.
      destruct (is_hex (firstn 3 t)) eqn:Eh; cbn [negb] in H; [|discriminate].
      destruct (hex_digits_int (firstn 3 t)) as (v & Pv & Rv); auto.
      { destruct t as [|a [|b [|d t]]]; simpl in *; try lia; discriminate. }
      rewrite Pv in H. inversion H; subst. exists v. split; auto.
      rewrite firstn_length in Rv. replace (Nat.min 3 (length t)) with 3%nat in Rv by lia. simpl in Rv. lia. }
    destruct (is_hex [c]) eqn:Eh; [|discriminate].
    destruct (hex_digits_int [c]) as (v & Pv & Rv); auto; [discriminate|].
    rewrite Pv in H. inversion H; subst. exists v. split; auto. simpl in Rv. lia. }
  destruct Hz as (z & -> & Hz). exists z, (hex_prefix z ++ to_base 16 z). repeat split; try lia.
  - unfold hexint_ser, with_item. simpl.
    destruct (Z.leb_spec 0 z); [|lia]. destruct (Z.leb_spec z 4095); [|lia]. simpl.
    unfold to_base16. destruct (Z.ltb_spec z 0); [lia|]. reflexivity.
  - intros rest. apply hexint_de_ok. lia.
Qed.
