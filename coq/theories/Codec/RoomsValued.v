(* ValuedRooms on a partition listed in ANY order (rooms and cells): serialize sorts the
   (room, value) pairs by min(room) - a stable insertion sort - and the decoder returns the
   canonical listing; every value comes back attached to the same room (as a set of cells).
   This is CombRoundTrip.valued_rooms_roundtrip_statement. *)
From Coq Require Import ZArith List Ascii Bool NArith Lia Sorting.Sorted Sorting.Permutation.
From Cspuz Require Import Lib.PyErr Codec.Comb Codec.CombWf Codec.CombBasics Codec.CombLeaf Codec.CombRoundTrip
  Codec.RoomsGrid Codec.RoomsFill Codec.RoomsProofs Codec.RoomsCanon.
Import ListNotations.
Local Open Scope Z_scope.

(* ------------------------------------------------------------------ min(room) on any non-empty list of cells *)
Lemma py_min_go_cells : forall t a,
  py_min_go (cell_to_pv a) (map cell_to_pv t) = Ok (cell_to_pv (fold_left cmin t a)).
Proof.
  induction t as [|x t IH]; intros a; [reflexivity|]. cbn [map py_min_go fold_left]. rewrite py_lt_cells.
  replace (if cell_ltb x a then cell_to_pv x else cell_to_pv a) with (cell_to_pv (cmin a x))
    by (unfold cmin; destruct (cell_ltb x a); reflexivity).
  apply IH.
Qed.

Lemma py_min_any r : r <> [] -> py_min (room_to_pv r) = Ok (cell_to_pv (min_cell r)).
Proof.
  destruct r as [|a t]; [congruence|]. intros _. unfold py_min, room_to_pv. cbn [py_items map min_cell].
  apply py_min_go_cells.
Qed.

(* ------------------------------------------------------------------ list.sort(key=min) is the insertion sort of RoomsCanon *)
Definition rkey (p : list cell * pv) : cell := min_cell (fst p).
Definition pvpair (p : list cell * pv) : pv * pv := (room_to_pv (fst p), snd p).
Definition keyedm (p : list cell * pv) : pv * (pv * pv) := (cell_to_pv (rkey p), pvpair p).

Lemma insert_keyedm p : forall l,
  insert_by_key (cell_to_pv (rkey p)) (pvpair p) (map keyedm l) = Ok (map keyedm (ins rkey p l)).
Proof.
  induction l as [|q t IH]; [reflexivity|]. cbn [map ins].
  change (keyedm q) with (cell_to_pv (rkey q), pvpair q) at 1. cbn [insert_by_key]. rewrite py_lt_cells.
  destruct (cell_ltb (rkey p) (rkey q)); [reflexivity|]. rewrite IH. reflexivity.
Qed.

Lemma sort_keyedm : forall l, sort_by_key (map keyedm l) = Ok (map keyedm (isort rkey l)).
Proof.
  induction l as [|p t IH]; [reflexivity|]. cbn [map isort].
  change (keyedm p) with (cell_to_pv (rkey p), pvpair p). cbn [sort_by_key]. rewrite IH. apply insert_keyedm.
Qed.

Lemma vr_sorted_any rs vs : Forall (fun r : list cell => r <> []) rs ->
  vr_sorted (map room_to_pv rs) vs = Ok (map pvpair (isort rkey (combine rs vs))).
Proof.
  intros Hne. unfold vr_sorted. rewrite zip_pv_combine.
  change (fun p : list cell * pv => (room_to_pv (fst p), snd p)) with pvpair.
  assert (Hm : mapM (fun rv : pv * pv => match py_min (fst rv) with Err e => Err e | Ok k => Ok (k, rv) end)
                 (map pvpair (combine rs vs)) = Ok (map keyedm (combine rs vs))).
  { assert (Hall : forall p, In p (combine rs vs) -> fst p <> []).
    { intros [r v] Hin. apply in_combine_l in Hin. simpl. rewrite Forall_forall in Hne. auto. }
    induction (combine rs vs) as [|p l IH]; simpl; auto.
    rewrite (py_min_any (fst p) (Hall p (or_introl eq_refl))). simpl.
    rewrite IH by (intros q Hq; apply Hall; right; auto). reflexivity. }
  rewrite Hm. rewrite sort_keyedm. rewrite map_map. reflexivity.
Qed.

(* ------------------------------------------------------------------ ValuedRooms.serialize, evaluated *)
Definition vr_parts (servc : pv -> nat -> sres) (e : env) (skip : bool) (n : nat) (rooms : list (list cell)) (values : list pv)
  : sres :=
  match n with
  | O => Err ValueError
  | S _ =>
      match rooms_ser e skip (VList [rooms_to_pv rooms]) 0 with
      | Err e' => Err e'
      | Ok None => Ok None
      | Ok (Some (_, s1)) =>
          match seq_ser servc (Z.of_nat n) (VList [VList values]) 0 with
          | Err e' => Err e'
          | Ok None => Ok None
          | Ok (Some (_, s2)) => Ok (Some (1%nat, s1 ++ s2))
          end
      end
  end.

Lemma vrooms_ser_eval servc e skip rs vs : Forall (fun r : list cell => r <> []) rs ->
  vrooms_ser servc e skip (VList [VTup [rooms_to_pv rs; VList vs]]) 0 =
  let ps := isort rkey (combine rs vs) in vr_parts servc e skip (length ps) (map fst ps) (map snd ps).
Proof.
  intros Hne. unfold vrooms_ser, with_item. cbn [py_items length Nat.eqb nth_res nth_error rooms_to_pv].
  rewrite (vr_sorted_any rs vs Hne). cbv zeta.
  destruct (isort rkey (combine rs vs)) as [|p0 ps0]; [reflexivity|].
  change (map pvpair (p0 :: ps0)) with (pvpair p0 :: map pvpair ps0). cbv beta iota.
  change (pvpair p0 :: map pvpair ps0) with (map pvpair (p0 :: ps0)).
  set (ps := p0 :: ps0).
  assert (E1 : map fst (map pvpair ps) = map room_to_pv (map fst ps)) by (rewrite !map_map; reflexivity).
  assert (E2 : map snd (map pvpair ps) = map snd ps) by (rewrite map_map; reflexivity).
  rewrite E1, E2, !map_length. reflexivity.
Qed.

(* ------------------------------------------------------------------ small list facts *)
Lemma min_cell_sorted r : r <> [] -> StronglySorted cell_lt r -> min_cell r = room_head r.
Proof.
  intros Hne Hs. pose proof (min_cell_in r Hne) as Hin. destruct r as [|a t]; [congruence|].
  inversion Hs as [|? ? _ Hf]; subst. rewrite Forall_forall in Hf. simpl room_head.
  destruct Hin as [E|Hin]; auto. exfalso.
  apply (min_cell_le (a :: t) a); [left; auto|]. apply Hf; auto.
Qed.

Lemma combine_map_fst_snd {A B C} (f : A -> C) (l : list (A * B)) :
  combine (map (fun p => f (fst p)) l) (map snd l) = map (fun p => (f (fst p), snd p)) l.
Proof. induction l as [|p l IH]; simpl; auto. rewrite IH. reflexivity. Qed.

(* ------------------------------------------------------------------ the theorem *)
(* no restriction on the value combinator beyond well-formedness *)
Theorem valued_rooms_roundtrip_any_order :
  forall h w vc skip allow rs vs, 1 <= h -> 1 <= w -> wf (ValuedRooms vc skip allow) = true ->
  valid_rooms h w rs -> length vs = length rs ->
  forall s, serialize_problem (ValuedRooms vc skip allow) (VTup [rooms_to_pv rs; VList vs]) h w = Ok s ->
  (forall vs', Permutation vs' vs -> forall p, accepts (mk_env h w) vc vs' p) ->
  exists ps rs', Permutation ps (combine rs vs) /\ Forall2 (fun p r' => Permutation (fst p) r') ps rs' /\
    canonical_rooms h w rs' /\
    deserialize_problem (ValuedRooms vc skip allow) s h w
    = Ok (Some (VTup [rooms_to_pv rs'; VList (map snd ps)])).
Proof.
  intros h w vc skip allow rs vs Hh Hw Hwf Hv Hlen s Hser Hacc.
  set (e := mk_env h w). assert (Henv : env_ok e) by (split; simpl; lia).
  set (H := Z.to_nat h). set (W := Z.to_nat w).
  assert (Eh : h = Z.of_nat H) by (unfold H; lia). assert (Ew : w = Z.of_nat W) by (unfold W; lia).
  set (ps := isort rkey (combine rs vs)).
  set (rs1 := map fst ps). set (vs0 := map snd ps).
  set (cn := canon_cells h w).
  set (rs' := map (fun p => cn (fst p)) ps).
  assert (Hpp : Permutation ps (combine rs vs)) by apply isort_perm.
  assert (Hp1 : Permutation rs1 rs).
  { unfold rs1. eapply Permutation_trans; [apply Permutation_map; exact Hpp|]. rewrite map_fst_combine; auto. }
  assert (Hpv : Permutation vs0 vs).
  { unfold vs0. eapply Permutation_trans; [apply Permutation_map; exact Hpp|]. rewrite map_snd_combine; auto. }
  pose proof (valid_rooms_perm h w rs rs1 Hp1 Hv) as Hv1.
  assert (Hs1 : StronglySorted (fun r1 r2 => cell_lt (min_cell r1) (min_cell r2)) rs1).
  { unfold rs1. apply (sorted_map_in (klt rkey)); [intros a b _ _ Hab; exact Hab|].
    apply isort_sorted. replace (map rkey (combine rs vs)) with (map min_cell rs).
    - rewrite Eh, Ew in Hv. apply (min_cells_nodup H W rs Hv).
    - transitivity (map min_cell (map fst (combine rs vs))); [rewrite map_fst_combine; auto|rewrite map_map; reflexivity]. }
  assert (Ers' : rs' = map cn rs1) by (unfold rs', rs1; rewrite map_map; reflexivity).
  assert (Hcan : canonical_rooms h w rs' /\ Forall2 (@Permutation cell) rs1 rs').
  { rewrite Ers'. unfold cn. rewrite Eh, Ew. apply canon_rooms_canonical; [rewrite <- Eh, <- Ew; exact Hv1|exact Hs1]. }
  destruct Hcan as [Hcan HF2].
  assert (Hl' : length vs0 = length rs') by (unfold vs0, rs'; rewrite !map_length; reflexivity).
  (* the canonical listing serializes to the same text *)
  assert (Hne : Forall (fun r : list cell => r <> []) rs) by apply Hv.
  assert (Hne' : Forall (fun r : list cell => r <> []) rs') by apply Hcan.
  assert (Hsame : ser e (ValuedRooms vc skip allow) (VList [VTup [rooms_to_pv rs'; VList vs0]]) 0
                  = ser e (ValuedRooms vc skip allow) (VList [VTup [rooms_to_pv rs; VList vs]]) 0).
  { cbn [ser]. rewrite (vrooms_ser_eval _ e skip rs vs Hne), (vrooms_ser_eval _ e skip rs' vs0 Hne'). cbv zeta.
    fold ps. fold rs1. fold vs0.
    assert (Hid : isort rkey (combine rs' vs0) = combine rs' vs0).
    { apply isort_id. unfold klt, rkey.
      apply (combine_sorted (fun r1 r2 => cell_lt (min_cell r1) (min_cell r2)) rs').
      destruct Hcan as (_ & Hcells & Hheads). rewrite Forall_forall in Hcells, Hne'.
      rewrite <- (map_id rs'). apply (sorted_map_in (fun r1 r2 => cell_lt (room_head r1) (room_head r2))); [|exact Hheads].
      intros a b Ha Hb Hab. unfold id. rewrite !min_cell_sorted; auto. }
    rewrite Hid. rewrite (map_fst_combine rs' vs0 Hl'), (map_snd_combine rs' vs0 Hl').
    rewrite combine_length, Hl', Nat.min_id.
    replace (length rs') with (length ps) by (unfold rs'; rewrite map_length; reflexivity).
    unfold vr_parts. destruct (length ps); [reflexivity|].
    assert (Hr : rooms_ser e skip (VList [rooms_to_pv rs']) 0 = rooms_ser e skip (VList [rooms_to_pv rs1]) 0).
    { unfold rooms_ser. f_equal. symmetry. apply rooms_ser_raw_equiv; auto; [apply Hcan|].
      exists rs1. split; auto. }
    rewrite Hr. reflexivity. }
  unfold serialize_problem in Hser. fold e in Hser. rewrite <- Hsame in Hser. clear Hsame.
  destruct (ser e (ValuedRooms vc skip allow) (VList [VTup [rooms_to_pv rs'; VList vs0]]) 0) as [[[k s']|]|] eqn:Es;
    try discriminate.
  inversion Hser; subst s'. clear Hser.
  assert (Hk : k = 1%nat).
  { cbn [ser] in Es. apply vrooms_ser_inv in Es. destruct Es as (? & ? & ? & ? & ? & ? & ? & ? & ? & ? & Hx).
    destruct Hx as (_ & _ & _ & _ & _ & _ & _ & Hk & _). exact Hk. }
  subst k.
  pose proof (roundtrip_all e (ValuedRooms vc skip allow) Henv Hwf) as Hrt.
  assert (Hacc' : accepts e (ValuedRooms vc skip allow) [VTup [rooms_to_pv rs'; VList vs0]] 0).
  { simpl. exists rs', vs0. repeat split; auto; try apply Hcan; try (intros p; apply Hacc; exact Hpv). }
  destruct (Hrt [VTup [rooms_to_pv rs'; VList vs0]] 0%nat 1%nat s [] Es Hacc' I) as (items & Hde & Hf & Hle & Hex).
  rewrite app_nil_r in Hde.
  assert (Hl : length items = 1%nat) by (apply Hex; exact I).
  destruct items as [|p0 [|p1 items']]; try discriminate. simpl in Hf. inversion Hf; subst p0.
  exists ps, rs'. split; [exact Hpp|]. split.
  { unfold rs'. apply forall2_map_in. intros p Hp.
    assert (Hin : In (fst p) rs1) by (unfold rs1; apply in_map; exact Hp).
    rewrite Eh, Ew in Hv1. destruct (valid_room_facts H W rs1 Hv1 (fst p) Hin) as (_ & Hnd & Hinb).
    unfold cn. rewrite Eh, Ew. apply canon_perm; auto. }
  split; [exact Hcan|].
  unfold deserialize_problem. fold e. rewrite Hde. reflexivity.
Qed.

Theorem valued_rooms_roundtrip_proof : valued_rooms_roundtrip_statement.
Proof.
  intros h w vc skip allow rs vs Hh Hw Hwf _ Hv Hlen s Hser Hacc.
  exact (valued_rooms_roundtrip_any_order h w vc skip allow rs vs Hh Hw Hwf Hv Hlen s Hser Hacc).
Qed.

(* the hypotheses are satisfiable and the sort matters: 1 x 3 board, rooms listed right to left *)
Example valued_rooms_any_order_1x3 :
  let rs := [[(0, 2)]; [(0, 1); (0, 0)]]%nat in
  let vs := [VInt 7; VInt 3] in
  let c := ValuedRooms HexInt false false in
  wf c = true /\
  isort rkey (combine rs vs) = [([(0, 1); (0, 0)]%nat, VInt 3); ([(0, 2)]%nat, VInt 7)] /\
  match serialize_problem c (VTup [rooms_to_pv rs; VList vs]) 1 3 with
  | Ok s => deserialize_problem c s 1 3
            = Ok (Some (VTup [rooms_to_pv [[(0, 0); (0, 1)]; [(0, 2)]]%nat; VList [VInt 3; VInt 7]]))
  | Err _ => False
  end.
Proof. cbv zeta. split; [|split]; vm_compute; reflexivity. Qed.
