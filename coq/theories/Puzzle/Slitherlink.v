(* C11 Tier 1 - model of cspuz/puzzle/slitherlink.py::solve_slitherlink, all board shapes (also boards
   without cells: height = 0 or width = 0 are accepted by the Python and by the model):
       grid_frame = BoolGridFrame(solver, height, width); solver.add_answer_key(grid_frame)
       graph.active_edges_single_cycle(solver, grid_frame)
       for y in range(height): for x in range(width):
           if problem[y][x] >= 0: ensure(count_true(grid_frame.cell_neighbors(y, x)) == problem[y][x])
   cell_neighbors(y, x) = [horizontal[y, x], horizontal[y + 1, x], vertical[y, x], vertical[y, x + 1]].
   The call into cspuz.graph is the model of property C06 (Graph/Cycle.v::active_edges_single_cycle on the
   frame, auxiliary-variable route, see CycleFrameBase.v).
   The problem uses the encoding of Rules_slitherlink.v ([[h; w]; clues], clues row-major).  Every integer is a
   legal clue value (negative = no clue; values above 4 simply make the program unsatisfiable).
   Malformed inputs: a negative height or width is rejected with ValueError (the Python raises ValueError from
   Array2D.__init__ when exactly one of them is negative or one of them is -1; boards with both dimensions
   <= -2 are outside the scope of the model and of the plug-in's problems); a clue list shorter than
   height * width is rejected with IndexError (the Python raises IndexError at the first missing row / cell;
   the plug-in's malformed problems only drop trailing cells / rows, so that the flat list has fewer than
   height * width entries exactly when some problem[y][x] is missing).  No proofs here. *)
From Coq Require Import ZArith List Bool Arith.
From Cspuz Require Import Lib.PyErr Core.Expr Core.Program Graph.GraphModel Graph.Cycle
     Puzzle.PuzzleBase Puzzle.ModelBase Puzzle.CycleFrameBase.
Import ListNotations.
Local Open Scope nat_scope.

(* ids of grid_frame.cell_neighbors(y, x), in the order the method lists them *)
Definition cell_neighbor_ids (h w y x : nat) : list nat :=
  [frame_hid h w y x; frame_hid h w (S y) x; frame_vid h w y x; frame_vid h w y (S x)].

Definition slither_clue (h w : nat) (clues : list Z) (c : nat * nat) : list expr :=
  let '(y, x) := c in
  let v := at2 clues w y x in
  if (v <? 0)%Z then [] else [BNode EQ [ct_vars (cell_neighbor_ids h w y x); PyInt v]].

Definition slitherlink_constraints (h w : nat) (clues : list Z) : list expr :=
  flat_map (slither_clue h w clues) (cells h w).

Definition solve_slitherlink_model (pb : problem) : res state :=
  let h := dim pb 0 in let w := dim pb 1 in
  if ((getz (sec pb 0) 0 <? 0) || (getz (sec pb 0) 1 <? 0))%Z then Err ValueError
  else
  match frame_cycle h w with
  | Ok (st1, _) =>
      if Nat.ltb (length (sec pb 1)) (h * w) then Err IndexError
      else Ok (ensure st1 (slitherlink_constraints h w (sec pb 1)))
  | Err e => Err e
  end.
