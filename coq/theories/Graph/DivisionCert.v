(* C05, level S: the certificate of the auxiliary encoding of division_connected
   (Graph/Division.v cert_division) is satisfiable exactly for the labelings
   that meet the specification spec_division.  Pure graph theory: no
   expression trees here. *)
From Coq Require Import ZArith List Bool Arith Lia.
From Cspuz Require Import Lib.PyErr Core.Expr Graph.GraphModel Graph.ReachProofs Graph.Division.
Import ListNotations.
Open Scope nat_scope.

(* ------------------------------------------------------------------------ *)
(* counting                                                                  *)

Lemma countb_pos {A} (p : A -> bool) l : countb p l <> 0 -> exists x, In x l /\ p x = true.
Proof.
  unfold countb. destruct (filter p l) as [|x r] eqn:E.
  - intros H; exfalso; apply H; reflexivity.
  - intros _. exists x. apply filter_In. rewrite E. left; reflexivity.
Qed.

Lemma countb_zero {A} (p : A -> bool) l : (forall x, In x l -> p x = false) -> countb p l = 0.
Proof.
  unfold countb. induction l as [|a l IH]; simpl; intros H; [reflexivity|].
  rewrite (H a (or_introl eq_refl)). apply IH. intros x Hx. apply H. right; exact Hx.
Qed.

Lemma countb_ext {A} (p q : A -> bool) l :
  (forall x, In x l -> p x = q x) -> countb p l = countb q l.
Proof.
  unfold countb. induction l as [|a l IH]; simpl; intros H; [reflexivity|].
  rewrite (H a (or_introl eq_refl)).
  assert (E : length (filter p l) = length (filter q l)).
  { apply IH. intros x Hx. apply H. right; exact Hx. }
  destruct (q a); simpl; rewrite E; reflexivity.
Qed.

Lemma countb_le1_unique (p : nat -> bool) n a b :
  countb p (seq 0 n) <= 1 -> a < n -> b < n -> p a = true -> p b = true -> a = b.
Proof.
  intros Hc Ha Hb Hpa Hpb. destruct (Nat.eq_dec a b) as [E|E]; [exact E|exfalso].
  assert (Hn : NoDup [a; b]).
  { constructor; [intros [H|[]]; apply E; symmetry; exact H|]. constructor; [intros []|constructor]. }
  assert (Hi : incl [a; b] (filter p (seq 0 n))).
  { intros x [Hx|[Hx|[]]]; subst x; apply filter_In; (split; [apply in_seq; lia|assumption]). }
  pose proof (NoDup_incl_length Hn Hi) as Hl. unfold countb in Hc. simpl in Hl. lia.
Qed.

Lemma filter_eqb_seq s a n :
  filter (fun v => Nat.eqb v s) (seq a n) = if Nat.leb a s && Nat.ltb s (a + n) then [s] else [].
Proof.
  revert a. induction n as [|n IH]; intros a; simpl.
  - destruct (Nat.leb_spec a s), (Nat.ltb_spec s (a + 0)); simpl; try reflexivity. lia.
  - rewrite IH. destruct (Nat.eqb_spec a s) as [E|E].
    + subst a. destruct (Nat.leb_spec (S s) s); [lia|]. simpl.
      destruct (Nat.leb_spec s s); [|lia]. destruct (Nat.ltb_spec s (s + S n)); [|lia]. reflexivity.
    + destruct (Nat.leb_spec (S a) s), (Nat.leb_spec a s), (Nat.ltb_spec s (S a + n)),
        (Nat.ltb_spec s (a + S n)); simpl; try reflexivity; lia.
Qed.

Lemma countb_single (p : nat -> bool) n s :
  s < n -> (forall v, v < n -> p v = Nat.eqb v s) -> countb p (seq 0 n) = 1.
Proof.
  intros Hs Hp. rewrite (countb_ext p (fun v => Nat.eqb v s)).
  - unfold countb. rewrite filter_eqb_seq.
    destruct (Nat.leb_spec 0 s); [|lia]. destruct (Nat.ltb_spec s (0 + n)); [|lia]. reflexivity.
  - intros x Hx. apply in_seq in Hx. apply Hp. lia.
Qed.

(* ------------------------------------------------------------------------ *)
(* incident lists: an entry towards another vertex occurs exactly once        *)

Definition entry_eqb (x y : nat * nat) : bool := Nat.eqb (fst x) (fst y) && Nat.eqb (snd x) (snd y).

Lemma entry_eqb_eq x y : entry_eqb x y = true <-> x = y.
Proof.
  destruct x as [a b], y as [c d]. unfold entry_eqb; simpl. rewrite andb_true_iff, !Nat.eqb_eq.
  split; [intros [-> ->]; reflexivity|intros H; inversion H; auto].
Qed.

Lemma incident_from_ge i k0 es w k : In (w, k) (incident_from i k0 es) -> k0 <= k.
Proof. intros H. apply incident_from_spec in H. destruct H as [j [Hk _]]. lia. Qed.

Lemma countb_app {A} (p : A -> bool) l1 l2 : countb p (l1 ++ l2) = countb p l1 + countb p l2.
Proof. unfold countb. rewrite filter_app, app_length. reflexivity. Qed.

Lemma countb_cons {A} (p : A -> bool) x l :
  countb p (x :: l) = (if p x then 1 else 0) + countb p l.
Proof. unfold countb. simpl. destruct (p x); reflexivity. Qed.

Lemma incident_from_count i k0 es j e :
  j <> i -> In (j, e) (incident_from i k0 es) ->
  countb (entry_eqb (j, e)) (incident_from i k0 es) = 1.
Proof.
  intros Hji. revert k0. induction es as [|[a b] r IH]; intros k0; simpl; [intros []|].
  intros Hin. rewrite !countb_app. rewrite !in_app_iff in Hin.
  destruct (Nat.eq_dec e k0) as [Ee|Ee].
  - subst e.
    assert (Hlater : countb (entry_eqb (j, k0)) (incident_from i (S k0) r) = 0).
    { apply countb_zero. intros [w k] Hx. apply incident_from_ge in Hx. unfold entry_eqb; simpl.
      destruct (Nat.eqb_spec k0 k); [lia|]. apply andb_false_r. }
    rewrite Hlater.
    assert (Hself : entry_eqb (j, k0) (j, k0) = true) by (apply entry_eqb_eq; reflexivity).
    destruct (Nat.eqb_spec a i) as [Ea|Ea], (Nat.eqb_spec b i) as [Eb|Eb].
    + exfalso. destruct Hin as [[H|[]]|[[H|[]]|H]].
      * inversion H; subst; contradiction.
      * inversion H; subst; contradiction.
      * apply incident_from_ge in H; lia.
    + destruct Hin as [[H|[]]|[[]|H]]; [|apply incident_from_ge in H; lia].
      inversion H; subst. rewrite countb_cons, Hself. reflexivity.
    + destruct Hin as [[]|[[H|[]]|H]]; [|apply incident_from_ge in H; lia].
      inversion H; subst. rewrite countb_cons, Hself. reflexivity.
    + exfalso. destruct Hin as [[]|[[]|H]]. apply incident_from_ge in H; lia.
  - assert (Hne : forall w, entry_eqb (j, e) (w, k0) = false).
    { intros w. unfold entry_eqb; simpl. destruct (Nat.eqb_spec e k0); [contradiction|]. apply andb_false_r. }
    assert (Hrest : In (j, e) (incident_from i (S k0) r)).
    { destruct Hin as [H|[H|H]]; [| |exact H]; exfalso.
      - destruct (Nat.eqb a i); [|destruct H]. destruct H as [H|[]]. inversion H; subst; apply Ee; reflexivity.
      - destruct (Nat.eqb b i); [|destruct H]. destruct H as [H|[]]. inversion H; subst; apply Ee; reflexivity. }
    rewrite (IH (S k0) Hrest).
    destruct (Nat.eqb a i), (Nat.eqb b i); rewrite ?countb_cons, ?Hne; reflexivity.
Qed.

Lemma incident_count g i j e :
  j <> i -> In (j, e) (incident g i) -> countb (entry_eqb (j, e)) (incident g i) = 1.
Proof. intros. apply incident_from_count; assumption. Qed.

(* the two ends of an edge id are determined up to orientation *)
Lemma incident_same_edge g i j v w e :
  In (j, e) (incident g i) -> In (w, e) (incident g v) -> (i = v /\ j = w) \/ (i = w /\ j = v).
Proof.
  rewrite !incident_spec. intros [H1|H1] [H2|H2]; rewrite H1 in H2; inversion H2; auto.
Qed.

Lemma incident_lt g i j e :
  wf_graph g = true -> In (j, e) (incident g i) -> i < nv g /\ j < nv g.
Proof.
  intros Hwf H. apply incident_spec in H. destruct H as [H|H];
    apply (wf_graph_edge g e _ _ Hwf) in H; tauto.
Qed.

Lemma incident_nbrs g i j e : In (j, e) (incident g i) -> In j (nbrs g all_edges_ok i).
Proof. intros H. apply nbrs_incident. exists e. split; [reflexivity|exact H]. Qed.

(* connectivity only looks at the vertices of the graph *)
Lemma connected_agree_below g a1 a2 :
  wf_graph g = true -> (forall v, v < nv g -> a1 v = a2 v) -> connected g a1 -> connected g a2.
Proof.
  intros Hwf He Hc u v Hu Hv Hau Hav.
  assert (H : reach g a1 all_edges_ok u v).
  { apply Hc; try assumption; rewrite He; assumption. }
  clear Hv Hav. induction H as [x Hx|x y z Hxy IH Hn Hz].
  - apply reach_refl. exact Hau.
  - assert (Hy : y < nv g) by (eapply reach_lt; eassumption).
    destruct (nbrs_lt g _ _ _ Hwf Hn) as [_ Hzl].
    eapply reach_step; [apply IH; assumption|exact Hn|]. rewrite <- He; assumption.
Qed.

(* ------------------------------------------------------------------------ *)
(* roots                                                                     *)

Lemma root_vertex_lt n a v : root_vertex n a = Some (Some v) -> v < n.
Proof.
  destruct a as [|z|l]; simpl; try discriminate.
  destruct (z <? 0)%Z eqn:Ez.
  - destruct ((0 <=? z + Z.of_nat n)%Z && (z + Z.of_nat n <? Z.of_nat n)%Z) eqn:E; [|discriminate].
    intros H; inversion H; subst. apply andb_true_iff in E. destruct E as [E1 E2].
    apply Z.leb_le in E1. apply Z.ltb_lt in E2. lia.
  - destruct ((0 <=? z)%Z && (z <? Z.of_nat n)%Z) eqn:E; [|discriminate].
    intros H; inversion H; subst. apply andb_true_iff in E. destruct E as [E1 E2].
    apply Z.leb_le in E1. apply Z.ltb_lt in E2. lia.
Qed.

Lemma roots_hold_nth n label rs : forall k0 k a v,
  roots_hold n label k0 rs = true -> nth_error rs k = Some a -> root_vertex n a = Some (Some v) ->
  label v = Z.of_nat (k0 + k).
Proof.
  induction rs as [|b rs IH]; intros k0 k a v Hh Hn Hr; [destruct k; discriminate|].
  simpl in Hh. destruct k as [|k]; simpl in Hn.
  - inversion Hn; subst b. rewrite Hr in Hh. apply andb_true_iff in Hh. destruct Hh as [Hh _].
    apply Z.eqb_eq in Hh. rewrite Hh. f_equal. lia.
  - assert (Hrest : roots_hold n label (S k0) rs = true).
    { destruct (root_vertex n b) as [[w|]|]; try discriminate; [|exact Hh].
      apply andb_true_iff in Hh. tauto. }
    rewrite (IH (S k0) k a v Hrest Hn Hr). f_equal. lia.
Qed.

Lemma roots_rooted_intro n is_root rs :
  (forall a v, In a rs -> root_vertex n a = Some (Some v) -> is_root v = true) ->
  roots_rooted n is_root rs = true.
Proof.
  induction rs as [|b rs IH]; intros H; simpl; [reflexivity|].
  assert (Hrest : roots_rooted n is_root rs = true).
  { apply IH. intros a v Ha. apply H. right; exact Ha. }
  destruct (root_vertex n b) as [[w|]|] eqn:E; try exact Hrest.
  rewrite (H b w (or_introl eq_refl) E). exact Hrest.
Qed.

(* ------------------------------------------------------------------------ *)
(* soundness: a certificate implies the specification                         *)

Section Sound.
  Variables (g : graph) (R : nat) (label : nat -> Z) (roots : option (list root_arg)) (aeg : bool).
  Variables (rank : nat -> Z) (is_root forest : nat -> bool).
  Hypothesis Hwf : wf_graph g = true.
  Hypothesis Hrk : ranks_in_range (nv g) rank.
  Hypothesis Hcert : cert_division g R label roots aeg rank is_root forest = true.

  Let Hv : forall i, i < nv g -> cert_vertex g label rank is_root forest i = true.
  Proof.
    intros i Hi. unfold cert_division in Hcert. apply andb_true_iff in Hcert. destruct Hcert as [H _].
    apply andb_true_iff in H. destruct H as [H _]. rewrite forallb_forall in H. apply H. apply in_seq. lia.
  Qed.

  Let Hr : forall k, k < R -> cert_region (nv g) label is_root aeg k = true.
  Proof.
    intros k Hk. unfold cert_division in Hcert. apply andb_true_iff in Hcert. destruct Hcert as [H _].
    apply andb_true_iff in H. destruct H as [_ H]. rewrite forallb_forall in H. apply H. apply in_seq. lia.
  Qed.

  Lemma forest_edge_labels i j e :
    In (j, e) (incident g i) -> forest e = true -> i < j ->
    label i = label j /\ rank i <> rank j.
  Proof.
    intros Hin Hf Hij. destruct (incident_lt g i j e Hwf Hin) as [Hi Hj].
    pose proof (Hv i Hi) as H. unfold cert_vertex in H. apply andb_true_iff in H. destruct H as [H _].
    rewrite forallb_forall in H. specialize (H (j, e) Hin). simpl in H.
    destruct (Nat.ltb_spec i j); [|lia]. simpl in H. rewrite Hf in H. simpl in H.
    apply andb_true_iff in H. destruct H as [H1 H2]. apply Z.eqb_eq in H1.
    apply negb_true_iff in H2. apply Z.eqb_neq in H2. split; assumption.
  Qed.

  Lemma forest_edge_same_label i j e :
    In (j, e) (incident g i) -> forest e = true -> i <> j -> label i = label j.
  Proof.
    intros Hin Hf Hne. destruct (Nat.lt_ge_cases i j) as [H|H].
    - apply (forest_edge_labels i j e Hin Hf H).
    - symmetry. apply (forest_edge_labels j i e); [apply incident_sym; exact Hin|exact Hf|lia].
  Qed.

  Lemma to_root k : forall d v, v < nv g -> (Z.to_nat (rank v) <= d)%nat -> label v = Z.of_nat k ->
    exists r, r < nv g /\ is_root r = true /\ label r = Z.of_nat k /\
              reach g (class_of label k) all_edges_ok v r.
  Proof.
    induction d as [|d IH]; intros v Hvn Hd Hl.
    - (* rank 0: no neighbour of smaller rank, hence a root *)
      pose proof (Hv v Hvn) as H. unfold cert_vertex in H. apply andb_true_iff in H. destruct H as [_ H].
      apply Nat.eqb_eq in H. destruct (is_root v) eqn:Er.
      + exists v. repeat split; try assumption. apply reach_refl. unfold class_of. apply Z.eqb_eq; exact Hl.
      + exfalso. assert (Hc : countb (fun '(j, e) => forest e && (rank j <? rank v)%Z) (incident g v) <> 0) by lia.
        apply countb_pos in Hc. destruct Hc as [[j e] [Hin Hp]]. apply andb_true_iff in Hp.
        destruct Hp as [_ Hp]. apply Z.ltb_lt in Hp.
        destruct (incident_lt g v j e Hwf Hin) as [_ Hj].
        pose proof (Hrk j Hj). pose proof (Hrk v Hvn). lia.
    - pose proof (Hv v Hvn) as H. unfold cert_vertex in H. apply andb_true_iff in H. destruct H as [_ H].
      apply Nat.eqb_eq in H. destruct (is_root v) eqn:Er.
      + exists v. repeat split; try assumption. apply reach_refl. unfold class_of. apply Z.eqb_eq; exact Hl.
      + assert (Hc : countb (fun '(j, e) => forest e && (rank j <? rank v)%Z) (incident g v) <> 0) by lia.
        apply countb_pos in Hc. destruct Hc as [[j e] [Hin Hp]]. apply andb_true_iff in Hp.
        destruct Hp as [Hf Hp]. apply Z.ltb_lt in Hp.
        destruct (incident_lt g v j e Hwf Hin) as [_ Hj].
        assert (Hne : v <> j) by (intros ->; lia).
        pose proof (forest_edge_same_label v j e Hin Hf Hne) as Hlj.
        pose proof (Hrk j Hj). pose proof (Hrk v Hvn).
        destruct (IH j Hj) as [r [Hrn [Hrr [Hrl Hreach]]]]; [lia|congruence|].
        exists r. repeat split; try assumption.
        apply reach_step_l with j; [unfold class_of; apply Z.eqb_eq; exact Hl| |exact Hreach].
        eapply incident_nbrs; exact Hin.
  Qed.

  Lemma region_count_le1 k : k < R ->
    countb (fun v => is_root v && (label v =? Z.of_nat k)%Z) (seq 0 (nv g)) <= 1.
  Proof.
    intros Hk. pose proof (Hr k Hk) as H. unfold cert_region in H. destruct aeg.
    - apply Nat.leb_le in H. exact H.
    - apply Nat.eqb_eq in H. lia.
  Qed.

  Theorem cert_sound : spec_division g R label roots aeg.
  Proof.
    split; [|split].
    - intros k Hk u v Hu Hvn Hau Hav. unfold class_of in Hau, Hav.
      apply Z.eqb_eq in Hau. apply Z.eqb_eq in Hav.
      destruct (to_root k (Z.to_nat (rank u)) u Hu (Nat.le_refl _) Hau) as [r1 [Hr1 [Hq1 [Hl1 Hp1]]]].
      destruct (to_root k (Z.to_nat (rank v)) v Hvn (Nat.le_refl _) Hav) as [r2 [Hr2 [Hq2 [Hl2 Hp2]]]].
      assert (r1 = r2).
      { apply (countb_le1_unique _ (nv g) r1 r2 (region_count_le1 k Hk) Hr1 Hr2).
        - rewrite Hq1. simpl. apply Z.eqb_eq; exact Hl1.
        - rewrite Hq2. simpl. apply Z.eqb_eq; exact Hl2. }
      subst r2. apply reach_trans with r1; [exact Hp1|apply reach_sym; exact Hp2].
    - intros Ha k Hk. pose proof (Hr k Hk) as H. unfold cert_region in H. rewrite Ha in H.
      apply Nat.eqb_eq in H.
      assert (Hc : countb (fun v => is_root v && (label v =? Z.of_nat k)%Z) (seq 0 (nv g)) <> 0) by lia.
      apply countb_pos in Hc. destruct Hc as [v [Hin Hp]]. apply in_seq in Hin.
      apply andb_true_iff in Hp. destruct Hp as [_ Hp]. apply Z.eqb_eq in Hp.
      exists v. split; [lia|exact Hp].
    - unfold cert_division in Hcert. apply andb_true_iff in Hcert. destruct Hcert as [_ H].
      destruct roots as [rs|]; simpl in *; [|reflexivity]. apply andb_true_iff in H. tauto.
  Qed.
End Sound.

(* ------------------------------------------------------------------------ *)
(* completeness: a labeling meeting the specification has a certificate       *)

Fixpoint index_of (x : nat) (l : list nat) : nat :=
  match l with [] => 0 | y :: r => if Nat.eqb x y then 0 else S (index_of x r) end.

Lemma index_of_nth x l : In x l -> nth_error l (index_of x l) = Some x.
Proof.
  induction l as [|y r IH]; simpl; [intros []|]. intros H.
  destruct (Nat.eqb_spec x y) as [E|E]; [subst; reflexivity|].
  destruct H as [H|H]; [congruence|]. simpl. apply IH; exact H.
Qed.

Lemma index_of_lt x l : In x l -> index_of x l < length l.
Proof. intros H. apply nth_error_Some. rewrite (index_of_nth x l H). discriminate. Qed.

Lemma index_of_unique x l p : NoDup l -> nth_error l p = Some x -> index_of x l = p.
Proof.
  intros Hn Hp.
  assert (Hin : In x l) by (eapply nth_error_In; exact Hp).
  pose proof (index_of_nth x l Hin) as Hq.
  pose proof (index_of_lt x l Hin) as Hl.
  rewrite NoDup_nth_error in Hn. apply Hn; [exact Hl|congruence].
Qed.

Section Complete.
  Variables (g : graph) (R : nat) (label : nat -> Z) (roots : option (list root_arg)) (aeg : bool).
  Hypothesis Hwf : wf_graph g = true.
  Hypothesis Hspec : spec_division g R label roots aeg.

  Let n := nv g.

  Definition in_rng (v : nat) : bool := (0 <=? label v)%Z && (label v <? Z.of_nat R)%Z.
  Definition lab (v : nat) : nat := Z.to_nat (label v).

  Definition root_at (k : nat) : option nat :=
    match roots with
    | None => None
    | Some rs => match nth_error rs k with
                 | Some a => match root_vertex n a with Some (Some v) => Some v | _ => None end
                 | None => None
                 end
    end.

  Definition start (k : nat) : option nat :=
    match root_at k with Some v => Some v | None => find (class_of label k) (seq 0 n) end.

  Definition comp (k : nat) : list nat :=
    match start k with Some s => component g (class_of label k) all_edges_ok s | None => [] end.

  Definition c_rank (v : nat) : Z := if in_rng v then Z.of_nat (index_of v (comp (lab v))) else 0%Z.

  Definition c_root (v : nat) : bool :=
    negb (in_rng v) || match comp (lab v) with s :: _ => Nat.eqb v s | [] => true end.

  Definition c_parent (v : nat) : option (nat * nat) :=
    if c_root v then None
    else find (fun '(j, e) => (label j =? label v)%Z && (c_rank j <? c_rank v)%Z) (incident g v).

  Definition c_forest (e : nat) : bool :=
    existsb (fun v => match c_parent v with Some (_, e') => Nat.eqb e' e | None => false end) (seq 0 n).

  (* --- facts about the start vertex and the component lists *)

  Lemma in_rng_lab v : in_rng v = true -> label v = Z.of_nat (lab v) /\ lab v < R.
  Proof.
    unfold in_rng, lab. intros H. apply andb_true_iff in H. destruct H as [H1 H2].
    apply Z.leb_le in H1. apply Z.ltb_lt in H2. split; lia.
  Qed.

  Lemma lab_in_rng v k : k < R -> label v = Z.of_nat k -> in_rng v = true /\ lab v = k.
  Proof.
    intros Hk Hl. unfold in_rng, lab. rewrite Hl. split; [|lia].
    apply andb_true_iff. split; [apply Z.leb_le|apply Z.ltb_lt]; lia.
  Qed.

  Lemma root_at_label k v : root_at k = Some v -> v < n /\ label v = Z.of_nat k.
  Proof.
    unfold root_at. destruct Hspec as [_ [_ Hroots]]. destruct roots as [rs|]; [|discriminate].
    simpl in Hroots. destruct (nth_error rs k) as [a|] eqn:Ea; [|discriminate].
    destruct (root_vertex n a) as [[w|]|] eqn:Er; try discriminate. intros H; inversion H; subst w.
    split; [eapply root_vertex_lt; exact Er|].
    apply (roots_hold_nth n label rs 0 k a v Hroots Ea Er).
  Qed.

  Lemma start_spec k s : start k = Some s -> s < n /\ label s = Z.of_nat k.
  Proof.
    unfold start. destruct (root_at k) as [v|] eqn:Er.
    - intros H; inversion H; subst. apply root_at_label; exact Er.
    - intros H. apply find_some in H. destruct H as [Hin Hc]. apply in_seq in Hin.
      unfold class_of in Hc. apply Z.eqb_eq in Hc. split; [lia|exact Hc].
  Qed.

  Lemma start_none k v : start k = None -> v < n -> label v <> Z.of_nat k.
  Proof.
    unfold start. destruct (root_at k); [discriminate|]. intros H Hv Hl.
    pose proof (find_none _ _ H v) as Hf. unfold class_of in Hf.
    rewrite Hl, Z.eqb_refl in Hf. assert (In v (seq 0 n)) by (apply in_seq; lia). intuition discriminate.
  Qed.

  Lemma comp_spec k v : k < R -> v < n -> (In v (comp k) <-> label v = Z.of_nat k).
  Proof.
    intros Hk Hv. unfold comp. destruct (start k) as [s|] eqn:Es.
    - destruct (start_spec k s Es) as [Hs Hls]. split.
      + intros H. apply component_vok in H. unfold class_of in H. apply Z.eqb_eq; exact H.
      + intros Hl. apply component_complete; [exact Hwf|exact Hs|].
        destruct Hspec as [Hconn _]. apply (Hconn k Hk s v Hs Hv); unfold class_of; apply Z.eqb_eq; assumption.
    - split; [intros []|]. intros Hl. exfalso. exact (start_none k v Es Hv Hl).
  Qed.

  Lemma comp_nodup k : NoDup (comp k).
  Proof. unfold comp. destruct (start k); [apply component_nodup|constructor]. Qed.

  Lemma comp_lt k v : In v (comp k) -> v < n.
  Proof.
    unfold comp. destruct (start k) as [s|] eqn:Es; [|intros []].
    destruct (start_spec k s Es) as [Hs _]. intros H. eapply component_lt; eassumption.
  Qed.

  Lemma comp_length k : length (comp k) <= n.
  Proof.
    apply NoDup_bounded_length; [apply comp_nodup|]. intros v Hv. eapply comp_lt; exact Hv.
  Qed.

  Lemma comp_head k s t : comp k = s :: t -> start k = Some s.
  Proof.
    unfold comp. destruct (start k) as [s'|] eqn:Es; [|discriminate].
    destruct (start_spec k s' Es) as [_ Hl]. intros H.
    destruct (component_head g (class_of label k) all_edges_ok s') as [t' Ht].
    { unfold class_of. apply Z.eqb_eq; exact Hl. }
    rewrite Ht in H. inversion H; subst. reflexivity.
  Qed.

  (* --- ranks *)

  Lemma c_rank_range : ranks_in_range n c_rank.
  Proof.
    intros v Hv. unfold c_rank. destruct (in_rng v) eqn:Er; [|fold n; lia].
    destruct (in_rng_lab v Er) as [Hl Hk].
    assert (Hin : In v (comp (lab v))) by (apply comp_spec; assumption).
    pose proof (index_of_lt v _ Hin). pose proof (comp_length (lab v)). lia.
  Qed.

  Lemma c_rank_index v k : k < R -> v < n -> label v = Z.of_nat k ->
    c_rank v = Z.of_nat (index_of v (comp k)).
  Proof.
    intros Hk Hv Hl. destruct (lab_in_rng v k Hk Hl) as [Er El]. unfold c_rank. rewrite Er, El. reflexivity.
  Qed.

  (* --- parents *)

  Lemma c_parent_some v : v < n -> c_root v = false ->
    exists j e, c_parent v = Some (j, e) /\ In (j, e) (incident g v) /\
                label j = label v /\ (c_rank j < c_rank v)%Z.
  Proof.
    intros Hv Hroot. unfold c_parent. rewrite Hroot.
    unfold c_root in Hroot. apply orb_false_iff in Hroot. destruct Hroot as [Hr Hhead].
    apply negb_false_iff in Hr. destruct (in_rng_lab v Hr) as [Hl Hk]. set (k := lab v) in *.
    assert (Hin : In v (comp k)) by (apply comp_spec; assumption).
    destruct (comp k) as [|s t] eqn:Ec; [destruct Hin|].
    apply Nat.eqb_neq in Hhead.
    pose proof (comp_head k s t Ec) as Hs.
    assert (Hcomp : comp k = component g (class_of label k) all_edges_ok s).
    { unfold comp. rewrite Hs. reflexivity. }
    set (p := index_of v (s :: t)).
    assert (Hp : nth_error (component g (class_of label k) all_edges_ok s) p = Some v).
    { rewrite <- Hcomp, Ec. apply index_of_nth. exact Hin. }
    assert (Hp0 : 0 < p).
    { destruct (Nat.eq_dec p 0) as [E0|E0]; [|lia]. exfalso.
      rewrite E0, <- Hcomp, Ec in Hp. simpl in Hp. inversion Hp. congruence. }
    destruct (component_earlier_nbr_nth g _ _ s p v Hp Hp0) as [q [u [Hq [Hu [_ Hnb]]]]].
    apply nbrs_incident in Hnb. destruct Hnb as [e [_ Hine]].
    assert (Huc : In u (comp k)) by (rewrite Hcomp; eapply nth_error_In; exact Hu).
    pose proof (comp_lt k u Huc) as Hun.
    assert (Hlu : label u = Z.of_nat k) by (apply (comp_spec k u Hk Hun); exact Huc).
    assert (Hru : c_rank u = Z.of_nat q).
    { rewrite (c_rank_index u k Hk Hun Hlu). f_equal. apply index_of_unique; [apply comp_nodup|].
      rewrite Hcomp. exact Hu. }
    assert (Hrv : c_rank v = Z.of_nat p).
    { rewrite (c_rank_index v k Hk Hv Hl). rewrite Ec. reflexivity. }
    destruct (find (fun '(j, e0) => (label j =? label v)%Z && (c_rank j <? c_rank v)%Z) (incident g v))
      as [[j e']|] eqn:Ef.
    - apply find_some in Ef. destruct Ef as [Hje Hpred]. apply andb_true_iff in Hpred.
      destruct Hpred as [H1 H2]. apply Z.eqb_eq in H1. apply Z.ltb_lt in H2.
      exists j, e'. repeat split; assumption.
    - exfalso. pose proof (find_none _ _ Ef (u, e) Hine) as Hno. simpl in Hno.
      rewrite Hlu, Hl, Z.eqb_refl in Hno. simpl in Hno. apply Z.ltb_ge in Hno. lia.
  Qed.

  Lemma c_parent_root v : c_root v = true -> c_parent v = None.
  Proof. intros H. unfold c_parent. rewrite H. reflexivity. Qed.

  Lemma c_parent_inv v j e : v < n -> c_parent v = Some (j, e) ->
    In (j, e) (incident g v) /\ label j = label v /\ (c_rank j < c_rank v)%Z.
  Proof.
    intros Hv H. destruct (c_root v) eqn:Er; [rewrite (c_parent_root v Er) in H; discriminate|].
    destruct (c_parent_some v Hv Er) as [j' [e' [Hp [Hin [Hl Hr]]]]].
    rewrite Hp in H. inversion H; subst. repeat split; assumption.
  Qed.

  Lemma c_forest_iff e : c_forest e = true <-> exists v j, v < n /\ c_parent v = Some (j, e).
  Proof.
    unfold c_forest. rewrite existsb_exists. split.
    - intros [v [Hin H]]. apply in_seq in Hin. destruct (c_parent v) as [[j e']|] eqn:Ep; [|discriminate].
      apply Nat.eqb_eq in H. subst e'. exists v, j. split; [lia|exact Ep].
    - intros [v [j [Hv Hp]]]. exists v. split; [apply in_seq; lia|]. rewrite Hp. apply Nat.eqb_refl.
  Qed.

  (* --- the certificate holds *)

  Lemma c_cert_vertex i : i < n -> cert_vertex g label c_rank c_root c_forest i = true.
  Proof.
    intros Hi. unfold cert_vertex. apply andb_true_iff. split.
    - apply forallb_forall. intros [j e] Hin. destruct (Nat.ltb_spec i j) as [Hij|Hij]; [|reflexivity].
      simpl. destruct (c_forest e) eqn:Ef; [|reflexivity]. simpl.
      apply c_forest_iff in Ef. destruct Ef as [v [w [Hv Hp]]].
      destruct (c_parent_inv v w e Hv Hp) as [Hin' [Hl Hr]].
      destruct (incident_same_edge g i j v w e Hin Hin') as [[E1 E2]|[E1 E2]]; subst.
      + apply andb_true_iff. split; [apply Z.eqb_eq; congruence|].
        apply negb_true_iff. apply Z.eqb_neq. lia.
      + apply andb_true_iff. split; [apply Z.eqb_eq; congruence|].
        apply negb_true_iff. apply Z.eqb_neq. lia.
    - apply Nat.eqb_eq.
      assert (Hchar : forall je, In je (incident g i) ->
                (let '(j, e) := je in c_forest e && (c_rank j <? c_rank i)%Z)
                = match c_parent i with Some pe => entry_eqb pe je | None => false end).
      { intros [j e] Hin. destruct (c_forest e && (c_rank j <? c_rank i)%Z) eqn:Eb.
        - apply andb_true_iff in Eb. destruct Eb as [Ef Er]. apply Z.ltb_lt in Er.
          apply c_forest_iff in Ef. destruct Ef as [v [w [Hv Hp]]].
          destruct (c_parent_inv v w e Hv Hp) as [Hin' [Hl Hr]].
          destruct (incident_same_edge g i j v w e Hin Hin') as [[E1 E2]|[E1 E2]]; subst.
          + rewrite Hp. symmetry. apply entry_eqb_eq. reflexivity.
          + lia.
        - destruct (c_parent i) as [[pj pe]|] eqn:Ep; [|reflexivity].
          symmetry. destruct (entry_eqb (pj, pe) (j, e)) eqn:Ee; [|reflexivity].
          apply entry_eqb_eq in Ee. inversion Ee; subst.
          destruct (c_parent_inv i j e Hi Ep) as [_ [_ Hr]].
          assert (Hf : c_forest e = true) by (apply c_forest_iff; exists i, j; split; assumption).
          rewrite Hf in Eb. simpl in Eb. apply Z.ltb_ge in Eb. lia. }
      rewrite (countb_ext _ (fun je => match c_parent i with Some pe => entry_eqb pe je | None => false end)).
      2:{ intros [j e] Hin. exact (Hchar (j, e) Hin). }
      destruct (c_root i) eqn:Er.
      + rewrite (c_parent_root i Er). apply countb_zero. reflexivity.
      + destruct (c_parent_some i Hi Er) as [j [e [Hp [Hin [Hl Hr]]]]]. rewrite Hp.
        apply incident_count; [|exact Hin]. intros ->. lia.
  Qed.

  Lemma c_root_class k v : k < R -> v < n ->
    (c_root v && (label v =? Z.of_nat k)%Z = true <-> exists t, comp k = v :: t).
  Proof.
    intros Hk Hv. split.
    - intros H. apply andb_true_iff in H. destruct H as [Hr Hl]. apply Z.eqb_eq in Hl.
      destruct (lab_in_rng v k Hk Hl) as [Er El]. unfold c_root in Hr. rewrite Er, El in Hr. simpl in Hr.
      assert (Hin : In v (comp k)) by (apply comp_spec; assumption).
      destruct (comp k) as [|s t]; [destruct Hin|]. apply Nat.eqb_eq in Hr. subst s. exists t; reflexivity.
    - intros [t Ht]. assert (Hin : In v (comp k)) by (rewrite Ht; left; reflexivity).
      assert (Hl : label v = Z.of_nat k) by (apply (comp_spec k v Hk Hv); exact Hin).
      destruct (lab_in_rng v k Hk Hl) as [Er El]. apply andb_true_iff. split; [|apply Z.eqb_eq; exact Hl].
      unfold c_root. rewrite Er, El, Ht. simpl. apply Nat.eqb_refl.
  Qed.

  Lemma c_cert_region k : k < R -> cert_region n label c_root aeg k = true.
  Proof.
    intros Hk. unfold cert_region. destruct (comp k) as [|s t] eqn:Ec.
    - (* empty class *)
      assert (H0 : countb (fun v => c_root v && (label v =? Z.of_nat k)%Z) (seq 0 n) = 0).
      { apply countb_zero. intros v Hin. apply in_seq in Hin.
        destruct (c_root v && (label v =? Z.of_nat k)%Z) eqn:E; [|reflexivity].
        apply (c_root_class k v Hk) in E; [|lia]. destruct E as [t Ht]. rewrite Ec in Ht. discriminate. }
      rewrite H0. destruct (Bool.bool_dec aeg true) as [Ea|Ea]; [rewrite Ea; reflexivity|].
      apply not_true_is_false in Ea. exfalso. pose proof Hspec as [_ [Hused _]].
      destruct (Hused Ea k Hk) as [v [Hv Hl]].
      assert (Hin : In v (comp k)) by (apply comp_spec; assumption). rewrite Ec in Hin. destruct Hin.
    - assert (Hs : s < n) by (apply (comp_lt k); rewrite Ec; left; reflexivity).
      assert (H1 : countb (fun v => c_root v && (label v =? Z.of_nat k)%Z) (seq 0 n) = 1).
      { apply countb_single with s; [exact Hs|]. intros v Hv.
        destruct (Nat.eqb_spec v s) as [E|E].
        - subst v. apply (c_root_class k s Hk Hs). exists t; exact Ec.
        - destruct (c_root v && (label v =? Z.of_nat k)%Z) eqn:Eb; [|reflexivity].
          apply (c_root_class k v Hk Hv) in Eb. destruct Eb as [t' Ht']. rewrite Ec in Ht'.
          inversion Ht'; subst. contradiction. }
      rewrite H1. destruct aeg; reflexivity.
  Qed.

  Lemma c_roots_rooted rs : roots = Some rs -> roots_rooted n c_root rs = true.
  Proof.
    intros Hrs. apply roots_rooted_intro. intros a v Ha Hr.
    destruct (In_nth_error _ _ Ha) as [k Hk].
    assert (Hat : root_at k = Some v).
    { unfold root_at. rewrite Hrs, Hk, Hr. reflexivity. }
    destruct (root_at_label k v Hat) as [Hv Hl].
    unfold c_root. destruct (in_rng v) eqn:Er; [|reflexivity]. simpl.
    destruct (in_rng_lab v Er) as [Hl' HkR].
    assert (El : lab v = k) by (unfold lab; rewrite Hl; lia).
    rewrite El in *.
    assert (Hst : start k = Some v) by (unfold start; rewrite Hat; reflexivity).
    unfold comp. rewrite Hst.
    destruct (component_head g (class_of label k) all_edges_ok v) as [t Ht].
    { unfold class_of. apply Z.eqb_eq. exact Hl. }
    rewrite Ht. apply Nat.eqb_refl.
  Qed.

  Theorem cert_complete :
    ranks_in_range (nv g) c_rank /\ cert_division g R label roots aeg c_rank c_root c_forest = true.
  Proof.
    split; [exact c_rank_range|]. unfold cert_division. apply andb_true_iff. split; [apply andb_true_iff; split|].
    - apply forallb_forall. intros i Hi. apply in_seq in Hi. apply c_cert_vertex. fold n. lia.
    - apply forallb_forall. intros k Hk. apply in_seq in Hk. apply c_cert_region. lia.
    - pose proof Hspec as [_ [_ Hroots]]. pose proof c_roots_rooted as Hrr.
      destruct roots as [rs|]; simpl in *; [|reflexivity].
      apply andb_true_iff. split; [exact Hroots|]. apply Hrr. reflexivity.
  Qed.
End Complete.

(* the two directions together *)
Theorem cert_iff_spec g R label roots aeg :
  wf_graph g = true ->
  ((exists rank is_root forest, ranks_in_range (nv g) rank /\
      cert_division g R label roots aeg rank is_root forest = true)
   <-> spec_division g R label roots aeg).
Proof.
  intros Hwf. split.
  - intros [rank [is_root [forest [Hr Hc]]]]. eapply cert_sound; eassumption.
  - intros Hs. exists (c_rank g R label roots), (c_root g R label roots), (c_forest g R label roots).
    apply cert_complete; assumption.
Qed.
