(* C12 — proofs about the operator forms  a <op> b, ~a, -a  as CPython
   dispatches them (Array/Elementwise.v: py_binop / py_unop). *)
From Coq Require Import ZArith List Bool Lia.
From Cspuz Require Import Lib.PyErr Core.Expr Core.Build Array.Elementwise Array.ArraySpec
  Array.ElementwiseProofs.
Import ListNotations.
Open Scope Z_scope.

Lemma if_ni_not_ni r alt : r <> Err NotImplementedErr -> if_ni r alt = r.
Proof. destruct r as [v|[]]; simpl; intros H; try reflexivity. exfalso; apply H; reflexivity. Qed.

Lemma if_ni_ni alt : if_ni (Err NotImplementedErr) alt = alt.
Proof. reflexivity. Qed.

Lemma operand_at_err i v e : operand_at i v = Err e -> e = IndexError.
Proof.
  destruct v as [x|k s d]; simpl; intros H; try discriminate.
  destruct (nth_error d i); inversion H; reflexivity.
Qed.

Lemma elementwise_not_ni o sh ops :
  elem_typecheck o ops = Some true -> elementwise o sh ops <> Err NotImplementedErr.
Proof.
  intros TC. unfold elementwise. rewrite TC.
  destruct (negb (forallb (shape_ok sh) ops)); try discriminate.
  match goal with |- context [mapM ?f ?l] => destruct (mapM f l) as [data|e] eqn:M end; simpl.
  - destruct sh; try discriminate. destruct (zlen data =? h * w); discriminate.
  - apply mapM_err_from in M. destruct M as [i [_ Hi]].
    destruct (mapM (operand_at i) ops) as [args|e'] eqn:MA; simpl in Hi; try discriminate.
    inversion Hi; subst e'. apply mapM_err_from in MA. destruct MA as [v [_ Hv]].
    apply operand_at_err in Hv. subst e. discriminate.
Qed.

Lemma shape_eqb_eq a b : shape_eqb a b = true -> a = b.
Proof.
  destruct a, b; simpl; intros H; try discriminate.
  - apply Z.eqb_eq in H; subst; reflexivity.
  - apply andb_true_iff in H; destruct H as [H1 H2].
    apply Z.eqb_eq in H1; apply Z.eqb_eq in H2; subst; reflexivity.
Qed.

Lemma shape_eqb_refl a : shape_eqb a a = true.
Proof. destruct a; simpl; rewrite ?Z.eqb_refl; reflexivity. Qed.

Lemma wf_val_wf_shape k sh d : wf_val (VA k sh d) = true -> wf_shape sh.
Proof.
  destruct sh as [n|h w]; simpl; intros H.
  - apply Z.eqb_eq in H. subst n. unfold zlen; lia.
  - apply andb_true_iff in H; destruct H as [H _]. apply andb_true_iff in H; destruct H as [H1 H2].
    apply Z.leb_le in H1; apply Z.leb_le in H2. auto.
Qed.

Lemma wf_val_length k sh d : wf_val (VA k sh d) = true -> zlen d = shape_size sh.
Proof.
  destruct sh as [n|h w]; simpl; intros H.
  - apply Z.eqb_eq in H. auto.
  - apply andb_true_iff in H; destruct H as [_ H]. apply Z.eqb_eq in H. auto.
Qed.

Lemma mapM_ok_exists {A B} (f : A -> res B) l :
  (forall x, In x l -> exists y, f x = Ok y) -> exists r, mapM f l = Ok r.
Proof.
  induction l as [|a l IH]; simpl; intros H.
  - eexists; reflexivity.
  - destruct (H a (or_introl eq_refl)) as [y Hy]. rewrite Hy; simpl.
    destruct IH as [r Hr]. { intros x Hx; apply H; right; exact Hx. }
    rewrite Hr; simpl. eexists; reflexivity.
Qed.

(* _elementwise succeeds on well-formed operands of the right sorts and shape *)
Lemma elementwise_total o sh ops :
  elem_typecheck o ops = Some true ->
  forallb (shape_ok sh) ops = true -> forallb wf_val ops = true -> wf_shape sh ->
  exists r, elementwise o sh ops = Ok r.
Proof.
  intros TC SH WF WS. unfold elementwise. rewrite TC, SH. simpl.
  assert (M : exists data, mapM (fun i => bind (mapM (operand_at i) ops) (fun args => Ok (mk_node o args)))
                 (seq 0 (Z.to_nat (shape_size sh))) = Ok data).
  { apply mapM_ok_exists. intros i Hi. apply in_seq in Hi.
    assert (MA : exists args, mapM (operand_at i) ops = Ok args).
    { apply mapM_ok_exists. intros v Hv.
      rewrite forallb_forall in SH, WF. specialize (SH v Hv). specialize (WF v Hv).
      destruct v as [e|k s d]; simpl; [eexists; reflexivity|].
      simpl in SH. apply shape_eqb_eq in SH. subst s.
      apply wf_val_length in WF.
      destruct (nth_error d i) eqn:N; [eexists; reflexivity|].
      apply nth_error_None in N. unfold zlen in WF. exfalso. lia. }
    destruct MA as [args MA]. rewrite MA. simpl. eexists; reflexivity. }
  destruct M as [data M]. rewrite M. simpl.
  destruct sh as [n|h w]; [eexists; reflexivity|].
  pose proof (mapM_ok_length _ _ _ M) as L. rewrite seq_length in L.
  assert (E : zlen data = h * w).
  { unfold zlen. rewrite L. simpl. apply Z2Nat.id. destruct WS; apply Z.mul_nonneg_nonneg; assumption. }
  rewrite E, Z.eqb_refl. eexists; reflexivity.
Qed.
Definition node_op (o : pyop) (k : kind) : op :=
  match o, k with
  | OAnd, _ => AND | OOr, _ => OR | OXor, _ => XOR | OAdd, _ => ADD | OSub, _ => SUB
  | OEq, KB => IFF | ONe, KB => XOR | OEq, KI => EQ | ONe, KI => NE
  | OLt, _ => LT | OLe, _ => LE | OGt, _ => GT | OGe, _ => GE
  end.

Lemma proper_subclass_arr x c : proper_subclass x (PArr c) = false.
Proof. destruct x; reflexivity. Qed.

Lemma binop_array_left o same ka sha da b k :
  operands_ok o k (VA ka sha da) b = true ->
  py_binop o same (VA ka sha da) b = elementwise (node_op o k) sha [VA ka sha da; b].
Proof.
  unfold operands_ok. intros H.
  apply andb_true_iff in H; destruct H as [H Hk].
  apply andb_true_iff in H; destruct H as [Ha Hb].
  assert (TC : elem_typecheck (node_op o k) [VA ka sha da; b] = Some true).
  { destruct o, k, ka; simpl in *; try discriminate; rewrite Hb; reflexivity. }
  pose proof (elementwise_not_ni _ sha _ TC) as NN.
  destruct o, k, ka; simpl in Ha, Hk; try discriminate; destruct sha;
  unfold py_binop, py_arith, py_compare, try_method; cbn -[elementwise if_ni] in *;
  rewrite ?proper_subclass_arr;
  rewrite if_ni_not_ni by exact NN; reflexivity.
Qed.

Definition swap_op (o : pyop) : pyop :=
  match o with OLt => OGt | OLe => OGe | OGt => OLt | OGe => OLe | _ => o end.

Lemma scalar_method_array_arg e o k sh d :
  try_method (VE e) (lname o) [VA k sh d] = Err NotImplementedErr.
Proof. destruct e, o; reflexivity. Qed.

Lemma pycls_eqb_scalar_arr e k sh d : pycls_eqb (class_of (VE e)) (class_of (VA k sh d)) = false.
Proof. destruct e, k, sh; reflexivity. Qed.

Lemma is_builtin_arr k sh d : is_builtin (class_of (VA k sh d)) = false.
Proof. destruct k, sh; reflexivity. Qed.

Lemma binop_array_right o same ea kb shb db k :
  operands_ok o k (VE ea) (VA kb shb db) = true ->
  py_binop o same (VE ea) (VA kb shb db) =
    if is_compare o then elementwise (node_op (swap_op o) k) shb [VA kb shb db; VE ea]
    else elementwise (node_op o k) shb [VE ea; VA kb shb db].
Proof.
  unfold operands_ok. intros H.
  apply andb_true_iff in H; destruct H as [H Hk].
  apply andb_true_iff in H; destruct H as [Ha Hb].
  unfold py_binop. rewrite is_builtin_arr, andb_false_r.
  destruct (is_compare o) eqn:IC.
  - assert (TC : elem_typecheck (node_op (swap_op o) k) [VA kb shb db; VE ea] = Some true).
    { destruct o, k, kb; simpl in *; try discriminate; rewrite Ha; reflexivity. }
    pose proof (elementwise_not_ni _ shb _ TC) as NN.
    unfold py_compare. rewrite scalar_method_array_arg.
    replace (proper_subclass (class_of (VA kb shb db)) (class_of (VE ea))) with false
      by (destruct kb, shb; reflexivity).
    rewrite if_ni_ni.
    destruct o, k, kb; simpl in Hb, Hk, IC; try discriminate; destruct shb;
    unfold try_method; cbn -[elementwise if_ni] in *;
    rewrite if_ni_not_ni by exact NN; reflexivity.
  - assert (TC : elem_typecheck (node_op o k) [VE ea; VA kb shb db] = Some true).
    { destruct o, k, kb; simpl in *; try discriminate; rewrite Ha; reflexivity. }
    pose proof (elementwise_not_ni _ shb _ TC) as NN.
    unfold py_arith. rewrite scalar_method_array_arg, pycls_eqb_scalar_arr, if_ni_ni.
    unfold ni_to_typeerror.
    destruct o, k, kb; simpl in Hb, Hk, IC; try discriminate; destruct shb;
    unfold try_method; cbn -[elementwise if_ni] in *;
    rewrite if_ni_not_ni by exact NN; reflexivity.
Qed.

(* ------------------------------------------- meaning of the chosen node *)

Definition op_kind_ok (o : pyop) (k : kind) : bool :=
  match pyop_operand_kind o with Some k' => kind_eqb k k' | None => true end.

Lemma node_op_sem o k x y :
  op_kind_ok o k = true -> op_sem (node_op o k) [x; y] = pyop_sem o k x y.
Proof.
  destruct o, k; simpl; intros H; try discriminate; try reflexivity.
  destruct x as [[[|]|]|], y as [[[|]|]|]; reflexivity.
Qed.

Lemma node_op_sem_swapped o k x y :
  op_kind_ok o k = true -> is_compare o = true ->
  op_sem (node_op (swap_op o) k) [y; x] = pyop_sem o k x y.
Proof.
  destruct o, k; simpl; intros H IC; try discriminate;
  destruct x as [[bx|zx]|], y as [[by_|zy]|]; cbn; try reflexivity;
  try (destruct bx, by_; reflexivity);
  rewrite ?(Z.eqb_sym zy zx), ?Z.gtb_ltb, ?Z.geb_leb, ?Z.ltb_antisym, ?Z.leb_antisym; try reflexivity.
  all: try (rewrite Z.geb_leb, Z.leb_antisym; reflexivity).
  all: try (rewrite Z.gtb_ltb, Z.ltb_antisym; reflexivity).
Qed.

Lemma node_op_kind o k : op_kind_ok o k = true -> kind_of_op (node_op o k) = pyop_result_kind o.
Proof. destruct o, k; simpl; intros H; try discriminate; reflexivity. Qed.

Lemma swap_op_result_kind o : pyop_result_kind (swap_op o) = pyop_result_kind o.
Proof. destruct o; reflexivity. Qed.

Lemma swap_op_kind_ok o k : op_kind_ok (swap_op o) k = op_kind_ok o k.
Proof. destruct o; reflexivity. Qed.

Lemma tc_ok o k a b :
  operands_ok o k a b = true -> elem_typecheck (node_op o k) [a; b] = Some true.
Proof.
  unfold operands_ok. intros H.
  apply andb_true_iff in H; destruct H as [H Hk].
  apply andb_true_iff in H; destruct H as [Ha Hb].
  destruct o, k; simpl in *; try discriminate; rewrite Ha, Hb; reflexivity.
Qed.

Lemma tc_ok_swapped o k a b :
  operands_ok o k a b = true -> elem_typecheck (node_op (swap_op o) k) [b; a] = Some true.
Proof.
  unfold operands_ok. intros H.
  apply andb_true_iff in H; destruct H as [H Hk].
  apply andb_true_iff in H; destruct H as [Ha Hb].
  destruct o, k; simpl in *; try discriminate; rewrite Ha, Hb; reflexivity.
Qed.

Lemma operands_ok_kind o k a b : operands_ok o k a b = true -> op_kind_ok o k = true.
Proof. unfold operands_ok, op_kind_ok. intros H. apply andb_true_iff in H; tauto. Qed.

(* ------------------------------------------------ A op B, A op s, s op A *)


Lemma elementwise_pointwise_result o sh ops sem :
  elem_typecheck o ops = Some true ->
  forallb (shape_ok sh) ops = true -> forallb wf_val ops = true -> wf_shape sh ->
  (forall en i, op_sem o (map (value_at en i) ops) = sem en i) ->
  pointwise_result (elementwise o sh ops) (kind_of_op o) sh sem.
Proof.
  intros TC SH WF WS SEM.
  destruct (elementwise_total o sh ops TC SH WF WS) as [r Hr].
  destruct (elementwise_spec o sh ops r WS Hr) as [data [E [L PW]]].
  exists data. rewrite Hr, E. split; [reflexivity|]. split; [exact L|].
  intros i Hi. destruct (PW i Hi) as [args [_ [N EV]]].
  exists (mk_node o args). split; [exact N|]. intros en. rewrite EV. apply SEM.
Qed.

Theorem binop_pointwise o same a b k sh :
  operands_ok o k a b = true ->
  is_arr a || is_arr b = true ->
  wf_val a = true -> wf_val b = true ->
  shape_ok sh a = true -> shape_ok sh b = true ->
  pointwise_result (py_binop o same a b) (pyop_result_kind o) sh
    (fun en i => pyop_sem o k (value_at en i a) (value_at en i b)).
Proof.
  intros OK AR WFa WFb SHa SHb.
  pose proof (operands_ok_kind _ _ _ _ OK) as KO.
  destruct a as [ea|ka sha da].
  - destruct b as [eb|kb shb db]; [discriminate|].
    simpl in SHb. apply shape_eqb_eq in SHb. subst shb.
    pose proof (wf_val_wf_shape _ _ _ WFb) as WS.
    rewrite binop_array_right with (k := k) by exact OK.
    destruct (is_compare o) eqn:IC.
    + replace (pyop_result_kind o) with (kind_of_op (node_op (swap_op o) k))
        by (rewrite node_op_kind by (rewrite swap_op_kind_ok; exact KO); apply swap_op_result_kind).
      apply elementwise_pointwise_result; auto.
      * apply tc_ok_swapped; exact OK.
      * simpl. rewrite shape_eqb_refl. reflexivity.
      * simpl. simpl in WFb. rewrite WFb. reflexivity.
      * intros en i. simpl map. apply node_op_sem_swapped; assumption.
    + rewrite <- (node_op_kind o k) by exact KO.
      apply elementwise_pointwise_result; auto.
      * apply tc_ok; exact OK.
      * simpl. rewrite shape_eqb_refl. reflexivity.
      * simpl. simpl in WFb. rewrite WFb. reflexivity.
      * intros en i. simpl map. apply node_op_sem; assumption.
  - simpl in SHa. apply shape_eqb_eq in SHa. subst sha.
    pose proof (wf_val_wf_shape _ _ _ WFa) as WS.
    rewrite binop_array_left with (k := k) by exact OK.
    rewrite <- (node_op_kind o k) by exact KO.
    apply elementwise_pointwise_result; auto.
    + apply tc_ok; exact OK.
    + simpl. rewrite shape_eqb_refl, SHb. reflexivity.
    + simpl. simpl in WFa. rewrite WFa, WFb. reflexivity.
    + intros en i. simpl map. apply node_op_sem; assumption.
Qed.
Lemma try_method_needs_kind o k v w :
  pyop_operand_kind o = Some k -> has_kind k v && has_kind k w = false ->
  try_method v (lname o) [w] = Err NotImplementedErr /\
  try_method v (rname o) [w] = Err NotImplementedErr.
Proof.
  intros Hk H.
  destruct o; simpl in Hk; inversion Hk; subst k; clear Hk;
  destruct v as [[]|[] []]; destruct w as [[]|[] []];
  simpl in H; try discriminate; split; reflexivity.
Qed.

(* a boolean-valued operand where an integer-valued one is required (or vice
   versa), in an arithmetic / ordering / logical operator form: TypeError *)
Theorem binop_ill_typed_rejected o same a b k :
  pyop_operand_kind o = Some k ->
  has_kind k a && has_kind k b = false ->
  is_builtin (class_of a) && is_builtin (class_of b) = false ->
  py_binop o same a b = Err TypeError.
Proof.
  intros Hk H NB. unfold py_binop. rewrite NB.
  destruct (try_method_needs_kind o k a b Hk H) as [F _].
  rewrite andb_comm in H.
  destruct (try_method_needs_kind o k b a Hk H) as [_ R].
  destruct (is_compare o) eqn:IC.
  - unfold py_compare. rewrite F, R.
    destruct (proper_subclass (class_of b) (class_of a)); simpl;
      destruct o; simpl in Hk; try discriminate; reflexivity.
  - unfold py_arith. rewrite F, R. simpl.
    destruct (pycls_eqb (class_of a) (class_of b)); reflexivity.
Qed.

(* equal sorts, different shapes: ValueError (all operator forms, == and != included) *)
Theorem binop_shape_mismatch_rejected o same ka sha da kb shb db k :
  operands_ok o k (VA ka sha da) (VA kb shb db) = true ->
  shape_eqb shb sha = false ->
  py_binop o same (VA ka sha da) (VA kb shb db) = Err ValueError.
Proof.
  intros OK SH. rewrite binop_array_left with (k := k) by exact OK.
  unfold elementwise. rewrite (tc_ok _ _ _ _ OK). simpl. rewrite shape_eqb_refl, SH. reflexivity.
Qed.
(* ------------------------------------------------------------------ ~a, -a *)

Theorem unop_pointwise u k sh d :
  k = unop_kind u -> wf_val (VA k sh d) = true ->
  pointwise_result (py_unop u (VA k sh d)) k sh (fun en i => unop_sem u (value_at en i (VA k sh d))).
Proof.
  intros Hk WF. pose proof (wf_val_wf_shape _ _ _ WF) as WS.
  destruct u; simpl in Hk; subst k.
  - replace (py_unop UInvert (VA KB sh d)) with (elementwise NOT sh [VA KB sh d])
      by (destruct sh; reflexivity).
    apply (elementwise_pointwise_result NOT sh [VA KB sh d]); auto.
    + simpl. rewrite shape_eqb_refl. reflexivity.
    + simpl. simpl in WF. rewrite WF. reflexivity.
  - replace (py_unop UNeg (VA KI sh d)) with (elementwise NEG sh [VA KI sh d])
      by (destruct sh; reflexivity).
    apply (elementwise_pointwise_result NEG sh [VA KI sh d]); auto.
    + simpl. rewrite shape_eqb_refl. reflexivity.
    + simpl. simpl in WF. rewrite WF. reflexivity.
Qed.

Theorem unop_ill_typed_rejected u a :
  has_kind (unop_kind u) a = false -> is_builtin (class_of a) = false ->
  py_unop u a = Err TypeError.
Proof.
  destruct u; destruct a as [[]|[] []]; simpl; intros H NB; try discriminate; reflexivity.
Qed.

(* ------------------------------------------------------------ then / cond *)


Lemma ni_to_typeerror_idem r : ni_to_typeerror (ni_to_typeerror r) = ni_to_typeerror r.
Proof. destruct r as [v|[]]; reflexivity. Qed.

Lemma fn_then_idem x y : ni_to_typeerror (fn_then x y) = fn_then x y.
Proof.
  unfold fn_then. destruct (bool_array_shape x), (bool_array_shape y); apply ni_to_typeerror_idem.
Qed.

Lemma fn_cond_idem c t f : ni_to_typeerror (fn_cond c t f) = fn_cond c t f.
Proof.
  unfold fn_cond. destruct (bool_array_shape c), (int_array_shape t), (int_array_shape f);
    apply ni_to_typeerror_idem.
Qed.

(* x.then(y) is then(x, y); c.cond(t, f) is cond(c, t, f) *)
Theorem then_method_is_function self y :
  bool_class self = true -> call_method self m_then [y] = fn_then self y.
Proof.
  destruct self as [[]|[] []]; simpl; intros H; try discriminate; try reflexivity;
  unfold call_method; simpl; unfold expr_then;
  (destruct y as [[]|[] []]; simpl; try reflexivity; rewrite ?fn_then_idem; reflexivity).
Qed.

Theorem cond_method_is_function self t f :
  bool_class self = true -> call_method self m_cond [t; f] = fn_cond self t f.
Proof.
  destruct self as [[]|[] []]; simpl; intros H; try discriminate; try reflexivity;
  unfold call_method; simpl; unfold expr_cond;
  (destruct t as [[]|[] []]; destruct f as [[]|[] []]; simpl; try reflexivity;
   rewrite ?fn_cond_idem; reflexivity).
Qed.

Lemma first_shape_wf l sh : first_shape l = Some sh -> forallb wf_val l = true -> wf_shape sh.
Proof.
  induction l as [|v l IH]; simpl; intros FS WF; try discriminate.
  apply andb_true_iff in WF; destruct WF as [Wv WF].
  destruct v as [e|k s d].
  - apply IH; assumption.
  - inversion FS; subst. apply (wf_val_wf_shape k sh d). exact Wv.
Qed.

Lemma ni_te_elementwise o sh ops :
  elem_typecheck o ops = Some true ->
  ni_to_typeerror (elementwise o sh ops) = elementwise o sh ops.
Proof. intros TC. apply if_ni_not_ni. apply elementwise_not_ni; exact TC. Qed.

Theorem then_pointwise x y sh :
  has_kind KB x && has_kind KB y = true ->
  first_shape [x; y] = Some sh ->
  forallb wf_val [x; y] = true -> forallb (shape_ok sh) [x; y] = true ->
  pointwise_result (fn_then x y) KB sh
    (fun en i => then_sem (value_at en i x) (value_at en i y)).
Proof.
  intros K FS WF SH.
  apply andb_true_iff in K; destruct K as [Kx Ky].
  assert (TC : elem_typecheck IMP [x; y] = Some true) by (simpl in *; rewrite Kx, Ky; reflexivity).
  pose proof (first_shape_wf _ _ FS WF) as WS.
  assert (E : fn_then x y = elementwise IMP sh [x; y]).
  { unfold fn_then.
    destruct x as [ex|[] sx dx]; simpl in *; try discriminate.
    - destruct y as [ey|[] sy dy]; simpl in *; try discriminate.
      inversion FS; subst. apply ni_te_elementwise; exact TC.
    - inversion FS; subst. apply ni_te_elementwise; exact TC. }
  rewrite E. apply (elementwise_pointwise_result IMP sh [x; y]); auto.
Qed.

Theorem then_ill_typed_rejected x y :
  has_kind KB x && has_kind KB y = false -> fn_then x y = Err TypeError.
Proof.
  destruct x as [[]|[] []]; destruct y as [[]|[] []]; simpl; intros H; try discriminate; reflexivity.
Qed.

Theorem then_shape_mismatch_rejected x y sh :
  has_kind KB x && has_kind KB y = true ->
  first_shape [x; y] = Some sh -> forallb (shape_ok sh) [x; y] = false ->
  fn_then x y = Err ValueError.
Proof.
  intros K FS SH.
  apply andb_true_iff in K; destruct K as [Kx Ky].
  assert (TC : elem_typecheck IMP [x; y] = Some true) by (simpl in *; rewrite Kx, Ky; reflexivity).
  assert (E : fn_then x y = elementwise IMP sh [x; y]).
  { unfold fn_then.
    destruct x as [ex|[] sx dx]; simpl in *; try discriminate.
    - destruct y as [ey|[] sy dy]; simpl in *; try discriminate.
      inversion FS; subst. apply ni_te_elementwise; exact TC.
    - inversion FS; subst. apply ni_te_elementwise; exact TC. }
  rewrite E. unfold elementwise. rewrite TC, SH. reflexivity.
Qed.

Lemma fn_cond_elementwise c t f sh :
  has_kind KB c && has_kind KI t && has_kind KI f = true ->
  first_shape [c; t; f] = Some sh ->
  fn_cond c t f = elementwise IF sh [c; t; f].
Proof.
  intros K FS.
  apply andb_true_iff in K; destruct K as [K Kf]. apply andb_true_iff in K; destruct K as [Kc Kt].
  assert (TC : forall s, ni_to_typeerror (elementwise IF s [c; t; f]) = elementwise IF s [c; t; f]).
  { intros s. apply ni_te_elementwise. simpl in *. rewrite Kc, Kt, Kf. reflexivity. }
  unfold fn_cond.
  destruct c as [ec|[] sc dc]; simpl in Kc; try discriminate;
  destruct t as [et|[] st dt]; simpl in Kt; try discriminate;
  destruct f as [ef|[] sf df]; simpl in Kf; try discriminate;
  simpl in FS; inversion FS; subst; simpl; apply TC.
Qed.

Theorem cond_pointwise c t f sh :
  has_kind KB c && has_kind KI t && has_kind KI f = true ->
  first_shape [c; t; f] = Some sh ->
  forallb wf_val [c; t; f] = true -> forallb (shape_ok sh) [c; t; f] = true ->
  pointwise_result (fn_cond c t f) KI sh
    (fun en i => cond_sem (value_at en i c) (value_at en i t) (value_at en i f)).
Proof.
  intros K FS WF SH.
  rewrite (fn_cond_elementwise c t f sh K FS).
  apply andb_true_iff in K; destruct K as [K Kf]. apply andb_true_iff in K; destruct K as [Kc Kt].
  pose proof (first_shape_wf _ _ FS WF) as WS.
  apply (elementwise_pointwise_result IF sh [c; t; f]); auto.
  simpl in *. rewrite Kc, Kt, Kf. reflexivity.
Qed.

Theorem cond_ill_typed_rejected c t f :
  has_kind KB c && has_kind KI t && has_kind KI f = false -> fn_cond c t f = Err TypeError.
Proof.
  destruct c as [[]|[] []]; destruct t as [[]|[] []]; destruct f as [[]|[] []];
    simpl; intros H; try discriminate; reflexivity.
Qed.

Theorem cond_shape_mismatch_rejected c t f sh :
  has_kind KB c && has_kind KI t && has_kind KI f = true ->
  first_shape [c; t; f] = Some sh -> forallb (shape_ok sh) [c; t; f] = false ->
  fn_cond c t f = Err ValueError.
Proof.
  intros K FS SH. rewrite (fn_cond_elementwise c t f sh K FS).
  apply andb_true_iff in K; destruct K as [K Kf]. apply andb_true_iff in K; destruct K as [Kc Kt].
  unfold elementwise.
  replace (elem_typecheck IF [c; t; f]) with (Some true) by (simpl in *; rewrite Kc, Kt, Kf; reflexivity).
  rewrite SH. reflexivity.
Qed.
(* ------------------------------------------------ scalar operator forms *)

Lemma scalar_binop_dispatch o same ea eb k :
  operands_ok o k (VE ea) (VE eb) = true ->
  is_builtin (class_of (VE ea)) && is_builtin (class_of (VE eb)) = false ->
  py_binop o same (VE ea) (VE eb) = Ok (VE (mk_node (node_op o k) [ea; eb])) \/
  (is_compare o = true /\
   py_binop o same (VE ea) (VE eb) = Ok (VE (mk_node (node_op (swap_op o) k) [eb; ea]))).
Proof.
  intros OK NB.
  destruct o, k; try discriminate OK;
  destruct ea; try discriminate OK; destruct eb; try discriminate OK; try discriminate NB;
  first [ left; reflexivity | right; split; reflexivity ].
Qed.

Theorem scalar_binop_sem o same ea eb k :
  operands_ok o k (VE ea) (VE eb) = true ->
  is_builtin (class_of (VE ea)) && is_builtin (class_of (VE eb)) = false ->
  exists e, py_binop o same (VE ea) (VE eb) = Ok (VE e) /\
    forall en, eval no_graph en e = pyop_sem o k (eval no_graph en ea) (eval no_graph en eb).
Proof.
  intros OK NB. pose proof (operands_ok_kind _ _ _ _ OK) as KO.
  assert (AR : forall o', arity_ok (node_op o' k) 2 = true) by (intros o'; destruct o', k; reflexivity).
  destruct (scalar_binop_dispatch o same ea eb k OK NB) as [E|[IC E]]; rewrite E; eexists; split; try reflexivity; intros en.
  - rewrite eval_mk_node, eval_node_op_sem by apply AR. apply node_op_sem; exact KO.
  - rewrite eval_mk_node, eval_node_op_sem by apply AR. apply node_op_sem_swapped; assumption.
Qed.

Theorem scalar_then_sem ex ey :
  has_kind KB (VE ex) && has_kind KB (VE ey) = true ->
  fn_then (VE ex) (VE ey) = Ok (VE (BNode IMP [ex; ey])) /\
  forall en, eval no_graph en (BNode IMP [ex; ey]) = then_sem (eval no_graph en ex) (eval no_graph en ey).
Proof.
  intros K. split.
  - destruct ex; try discriminate K; destruct ey; try discriminate K; reflexivity.
  - intros en. change (BNode IMP [ex; ey]) with (mk_node IMP [ex; ey]).
    rewrite eval_mk_node, eval_node_op_sem by reflexivity. reflexivity.
Qed.

Theorem scalar_cond_sem ec et ef :
  has_kind KB (VE ec) && has_kind KI (VE et) && has_kind KI (VE ef) = true ->
  fn_cond (VE ec) (VE et) (VE ef) = Ok (VE (INode IF [ec; et; ef])) /\
  forall en, eval no_graph en (INode IF [ec; et; ef]) =
             cond_sem (eval no_graph en ec) (eval no_graph en et) (eval no_graph en ef).
Proof.
  intros K. split.
  - destruct ec; try discriminate K; destruct et; try discriminate K; destruct ef; try discriminate K; reflexivity.
  - intros en. change (INode IF [ec; et; ef]) with (mk_node IF [ec; et; ef]).
    rewrite eval_mk_node, eval_node_op_sem by reflexivity. reflexivity.
Qed.
