(* C03 -- Sugar-family backends: emitted CSP text and parsed replies are faithful.
   Model: Backend/Sugar.v (mirror of cspuz/backend/sugar_like.py, operator table
   generated into Gen/SugarOps.v); reference side: Backend/SugarReply.v (Sugar
   syntax + CspuzSugarInterface.java); vocabulary: Backend/SugarSpec.v. *)
From Coq Require Import ZArith List Bool String Ascii.
From Cspuz Require Import Lib.PyErr Core.Expr Core.Program Backend.SugarText Backend.SugarTextProofs
  Gen.SugarOps Backend.Sugar Backend.SugarReply Backend.SugarLexProofs Backend.SugarSpec
  Backend.SugarPrintProofs Backend.SugarDescProofs Backend.SugarReplyProofs Backend.SugarMain Backend.SugarThrough
  Backend.SugarHistory Backend.SugarHistoryProofs.
Import ListNotations.
Open Scope string_scope.

(* T tie: every entry of OP_TO_OPNAME is one printable atom, not a declaration
   keyword, and Sugar's reading of that name is the cspuz operator *)
Theorem opname_agrees : forall gsem o n, opname o = Some n ->
  good_name n /\
  forall vs, arity_ok o (List.length vs) = true -> sugar_apply gsem n vs = eval_node gsem o vs.
Proof. exact SugarPrintProofs.opname_agrees. Qed.
Print Assumptions opname_agrees.

Theorem opname_total : forall o, o <> VAR -> o <> BOOL_CONSTANT -> o <> INT_CONSTANT -> opname o <> None.
Proof. exact SugarPrintProofs.opname_total. Qed.
Print Assumptions opname_total.

(* string level: the text of every well-typed tree is read back by the reference
   parser as one expression whose Sugar meaning is eval, for every gsem *)
Theorem print_denotes : forall gsem e, wts true e = true ->
  exists s x, print_expr e = Ok s /\ sx_parse s = Some x /\
    forall en, sugar_sem gsem (name_env en) x = eval gsem en e.
Proof. exact SugarMain.print_denotes. Qed.
Print Assumptions print_denotes.

Theorem print_denotes_operand : forall gsem e, okarg e = true ->
  exists s x, print_expr e = Ok s /\ sx_parse s = Some x /\
    forall en, sugar_sem gsem (name_env en) x = eval gsem en e.
Proof. exact SugarMain.print_denotes_operand. Qed.
Print Assumptions print_denotes_operand.

(* decls_exact + keys_exact + constraints: the description, read the way
   loadProblem reads it, declares exactly the variables (names, kinds, domains,
   order), names exactly the registered keys (deduction mode only), and its
   constraints mean what the posted trees mean *)
Theorem description_faithful : forall gsem vs cs mode text,
  Forall (fun c => wts true c = true) cs ->
  description vs cs mode = Ok text ->
  exists jp, java_load text = Some jp /\
    sugar_decls (j_problem jp) = map (fun v => Some (sdecl_of v)) vs /\
    j_ints jp = int_names vs /\ j_bools jp = bool_names vs /\
    j_keys jp = option_map (fun ks => key_list (names_of_keys vs ks)) mode /\
    forall en, map (sugar_sem gsem (name_env en)) (sugar_constraints (j_problem jp)) = map (eval gsem en) cs.
Proof. exact SugarDescProofs.description_faithful. Qed.
Print Assumptions description_faithful.

Theorem description_total : forall vs cs mode,
  Forall (fun c => wts true c = true) cs ->
  (forall ks, mode = Some ks -> (List.length vs <= List.length ks)%nat) ->
  exists text, description vs cs mode = Ok text.
Proof. exact (SugarDescProofs.description_total no_graph). Qed.
Print Assumptions description_total.

Theorem description_ascii : forall vs cs mode text,
  Forall (fun c => wts true c = true) cs -> description vs cs mode = Ok text ->
  all_chars (fun c => Nat.ltb (nat_of_ascii c) 128) text = true.
Proof. exact (SugarDescProofs.description_ascii no_graph). Qed.
Print Assumptions description_ascii.

(* text -> loadProblem -> run() -> Python parser: answer-finder mode *)
Theorem answer_reply_reflected : forall (gsem : op -> list (option value) -> option bool) vs cs text,
  NoDup (map var_id vs) -> Forall (fun c => wts true c = true) cs ->
  description vs cs None = Ok text ->
  exists jp, java_load text = Some jp /\ j_keys jp = None /\
    forall rho nr, typed_on vs rho ->
      exists reply, java_reply jp (Some (rho, nr)) = Some reply /\
        parse_answer vs reply = Ok (true, map (fun v => rho (var_name v)) vs).
Proof. exact SugarMain.answer_reply_reflected. Qed.
Print Assumptions answer_reply_reflected.

(* deduction mode: exactly the registered keys that were not refuted get their value *)
Theorem deduction_reply_reflected : forall (gsem : op -> list (option value) -> option bool) vs cs ks text,
  NoDup (map var_id vs) -> Forall (fun c => wts true c = true) cs -> List.length ks = List.length vs ->
  description vs cs (Some ks) = Ok text ->
  exists jp, java_load text = Some jp /\
    forall rho nr, typed_on vs rho ->
      exists reply, java_reply jp (Some (rho, nr)) = Some reply /\
        parse_deduction vs reply =
        Ok (true, map (fun p => if snd p && nr (var_name (fst p)) then rho (var_name (fst p)) else None)
                      (combine vs ks)).
Proof. exact SugarMain.deduction_reply_reflected. Qed.
Print Assumptions deduction_reply_reflected.

Theorem unsat_replies : forall (gsem : op -> list (option value) -> option bool) vs cs mode text,
  Forall (fun c => wts true c = true) cs -> description vs cs mode = Ok text ->
  exists jp reply, java_load text = Some jp /\ java_reply jp None = Some reply /\
    match mode with
    | None => parse_answer vs reply = Ok (false, no_sol vs)
    | Some _ => parse_deduction vs reply = Ok (false, no_sol vs)
    end.
Proof. exact SugarMain.unsat_replies. Qed.
Print Assumptions unsat_replies.

Theorem description_kind_independent : forall k vs cs mode,
  (native_deduction k = true \/ mode = None) -> description_k k vs cs mode = description vs cs mode.
Proof. exact SugarMain.description_kind_independent. Qed.
Print Assumptions description_kind_independent.

Theorem sugar_falls_back : forall vs cs ks text,
  description vs cs (Some ks) = Ok text -> description_k K_sugar vs cs (Some ks) = Err NotImplementedErr.
Proof. exact SugarMain.sugar_falls_back. Qed.
Print Assumptions sugar_falls_back.

(* why wts asks Op.SUB for two operands: a one-operand SUB prints as Sugar's negation *)
Theorem sub1_misprinted : forall gsem, opname SUB = Some "-" -> forall en,
  exists s x, print_expr (INode SUB [PyInt 1]) = Ok s /\ sx_parse s = Some x /\
    sugar_sem gsem (name_env en) x = Some (VI (-1)) /\ eval gsem en (INode SUB [PyInt 1]) = Some (VI 1).
Proof. exact SugarPrintProofs.sub1_misprinted. Qed.
Print Assumptions sub1_misprinted.

(* C01 through the text backends: with a correct external solver (hypothesis on
   what _call_solver returns for the emitted description, answer-finder protocol),
   solve() returns True iff the program is satisfiable and then leaves a genuine
   model in the sol fields of all variables *)
Theorem find_answer_through_text : forall gsem solver st,
  wf_state st ->
  (forall text, description (bvars_of_state st) (cons st) None = Ok text -> answer_oracle_at gsem solver text) ->
  let vs := bvars_of_state st in
  exists text b sol,
    description vs (cons st) None = Ok text /\
    parse_answer vs (solver text) = Ok (b, sol) /\
    (b = true <-> satisfiable gsem st) /\
    (b = true -> exists en, model_of gsem en st /\ sol = map (fun v => name_env en (var_name v)) vs) /\
    (b = false -> sol = no_sol vs).
Proof. exact SugarThrough.find_answer_through_text. Qed.
Print Assumptions find_answer_through_text.

(* C02 through the native deduction mode: a registered key gets a value exactly
   when all models agree on it, every other variable gets None *)
Theorem solve_through_text : forall gsem solver st,
  wf_state st ->
  (forall text, description (bvars_of_state st) (cons st) (Some (keys st)) = Ok text ->
                deduction_oracle_at gsem solver text) ->
  let vs := bvars_of_state st in
  exists text b sol,
    description vs (cons st) (Some (keys st)) = Ok text /\
    parse_deduction vs (solver text) = Ok (b, sol) /\
    (b = true <-> satisfiable gsem st) /\
    (b = false -> sol = no_sol vs) /\
    (b = true ->
       exists facts, sol = map facts (combine vs (keys st)) /\
         forall v k, In (v, k) (combine vs (keys st)) ->
           (k = false -> facts (v, k) = None) /\
           (k = true -> forall x, facts (v, k) = Some x <->
                                  forall en, model_of gsem en st -> name_env en (var_name v) = Some x)).
Proof. exact SugarThrough.solve_through_text. Qed.
Print Assumptions solve_through_text.

(* call histories on one backend object (Backend/SugarHistory.v): posting in any
   number of add_constraint calls, each with a list or a single tree, gives the
   description of the concatenation -- text and error points alike *)
Theorem history_description_eq : forall k vs ps mode,
  history_description k vs ps mode = description_k k vs (posted ps) mode.
Proof. exact SugarHistoryProofs.history_description_eq. Qed.
Print Assumptions history_description_eq.

(* so every description of a history declares exactly the variables, names exactly
   the keys of that call and denotes exactly everything posted so far *)
Theorem history_description_faithful : forall gsem k vs ps mode text,
  (native_deduction k = true \/ mode = None) ->
  Forall (fun c => wts true c = true) (posted ps) ->
  history_description k vs ps mode = Ok text ->
  exists jp, java_load text = Some jp /\
    sugar_decls (j_problem jp) = map (fun v => Some (sdecl_of v)) vs /\
    j_keys jp = option_map (fun ks => key_list (names_of_keys vs ks)) mode /\
    forall en, map (sugar_sem gsem (name_env en)) (sugar_constraints (j_problem jp)) =
               map (eval gsem en) (posted ps).
Proof. exact SugarHistoryProofs.history_description_faithful. Qed.
Print Assumptions history_description_faithful.

(* the refinement loop of Solver.solve on the plain `sugar` backend: the description
   of every round carries Solver.constraints and every clause posted so far *)
Theorem loop_description_faithful : forall gsem vs cs clauses text,
  Forall (fun c => wts true c = true) (cs ++ clauses)%list ->
  loop_description vs cs clauses = Ok text ->
  exists jp, java_load text = Some jp /\
    sugar_decls (j_problem jp) = map (fun v => Some (sdecl_of v)) vs /\ j_keys jp = None /\
    forall en, map (sugar_sem gsem (name_env en)) (sugar_constraints (j_problem jp)) =
               map (eval gsem en) (cs ++ clauses)%list.
Proof. exact SugarHistoryProofs.loop_description_faithful. Qed.
Print Assumptions loop_description_faithful.
