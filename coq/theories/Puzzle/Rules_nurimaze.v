(* C11 rule specification - Nurimaze.
   Published rules (Nikoli / puzz.link, "Nurimaze"):
     1. The board is divided by bold lines into tiles.  Shade some tiles: all cells of a tile
        are shaded together or left unshaded together.
     2. Cells with S, G, a circle or a triangle cannot be shaded.
     3. All unshaded cells form one orthogonally connected area.
     4. No 2x2 block of cells is entirely shaded or entirely unshaded.
     5. The unshaded cells cannot form a loop.
     6. (By 3 and 5 the unshaded cells form a maze with exactly one route between any two of its
        cells.)  The route from S to G passes through every circle and through no triangle.

   Reading of rule 6 (stated without reference to any encoding of the route): a cell c lies on the route
   from S to G when c is S, c is G, or every way from S to G through unshaded cells uses c, i.e. G is not in
   the orthogonally connected group of S once c is taken out of the unshaded cells.  In a maze without loops
   these are exactly the cells of the unique route.
   Reading of rule 5: the graph whose edges are the pairs of orthogonally adjacent unshaded cells has no cycle
   (#edges + #components = #vertices).
   A puzzle has one S and one G in two different cells of the board; a problem whose S / G coordinates are off
   the board or coincide has no solution under this specification (the generator of the module never produces
   one).  The solver agrees as long as at least one of S, G is a cell of the board (NurimazeProofs.
   nurimaze_exact_gen); with both off the board the posted program no longer mentions S and G, and such
   problems are outside the search families.

   problem = [[h; w]; wv; wh; mark; [sy; sx; gy; gx]]
       wv   : h*(w-1) values row-major, wv[y][x] <> 0 = bold line between (y, x) and (y, x+1)     (wall_vertical)
       wh   : (h-1)*w values row-major, wh[y][x] <> 0 = bold line between (y, x) and (y+1, x)     (wall_horizontal)
       mark : h*w values row-major, 0 = empty, 1 = circle, 2 = triangle (any other non-zero value: a symbol
              without a route condition - outside the module's alphabet {0, 1, 2})
       start = (sy, sx), goal = (gy, gx)
   answer  = h*w cells row-major (is_white), 1 = unshaded *)
From Coq Require Import ZArith List Bool Arith.
From Cspuz Require Import Graph.GraphModel Puzzle.PuzzleBase.
Import ListNotations.

(* the cells as a graph in which two orthogonally adjacent cells are joined when no bold line separates them:
   its connected components are the tiles *)
Definition tile_graph (h w : nat) (wv wh : list Z) : graph :=
  {| nv := h * w;
     edges := flat_map (fun '(y, x) =>
        (if Nat.ltb (S x) w && (at2 wv (w - 1) y x =? 0)%Z then [(y * w + x, y * w + S x)] else []) ++
        (if Nat.ltb (S y) h && (at2 wh w y x =? 0)%Z then [(y * w + x, S y * w + x)] else []))
       (cells h w) |}.
Definition tile_of (h w : nat) (wv wh : list Z) (c : nat) : list nat :=
  component (tile_graph h w wv wh) (fun _ => true) all_edges_ok c.

(* edge k of the board joins two unshaded cells *)
Definition unshaded_edge (h w : nat) (white : nat -> bool) (k : nat) : bool :=
  match nth_error (edges (board h w)) k with
  | Some (a, b) => white a && white b
  | None => false
  end.

(* cell c lies on the route from cell s to cell g through the unshaded cells *)
Definition on_route (h w : nat) (white : nat -> bool) (s g c : nat) : bool :=
  Nat.eqb c s || Nat.eqb c g ||
  negb (mem g (group_of h w (fun v => white v && negb (Nat.eqb v c)) s)).

Definition on_board (h w : nat) (y x : Z) : bool :=
  ((0 <=? y) && (y <? Z.of_nat h) && (0 <=? x) && (x <? Z.of_nat w))%Z.

Definition rules_nurimaze (pb : problem) (ans : answer) : bool :=
  let h := dim pb 0 in let w := dim pb 1 in
  let wv := sec pb 1 in let wh := sec pb 2 in let mark := sec pb 3 in
  let sy := getz (sec pb 4) 0 in let sx := getz (sec pb 4) 1 in
  let gy := getz (sec pb 4) 2 in let gx := getz (sec pb 4) 3 in
  let s := zn sy * w + zn sx in let g := zn gy * w + zn gx in
  let white := fun v => isb (getz ans v) in
  let white2 := fun y x => white (y * w + x) in
  Nat.eqb (length ans) (h * w) && forallb is01 ans &&
  (* S and G are two different cells of the board, both unshaded *)
  on_board h w sy sx && on_board h w gy gx && negb (Nat.eqb s g) && white s && white g &&
  (* 4 *)
  negb (has_2x2 h w white2) && negb (has_2x2 h w (fun y x => negb (white2 y x))) &&
  (* 1 *)
  forallb (fun c => forallb (fun d => Bool.eqb (white c) (white d)) (tile_of h w wv wh c)) (seq 0 (h * w)) &&
  (* 3, 5 *)
  cells_connected h w white &&
  edges_acyclic (board h w) (unshaded_edge h w white) &&
  (* 2, 6 *)
  forallb (fun '(y, x) =>
     let m := at2 mark w y x in
     (m =? 0)%Z ||
     (white2 y x &&
      (if (m =? 1)%Z then on_route h w white s g (y * w + x)
       else if (m =? 2)%Z then negb (on_route h w white s g (y * w + x))
       else true))) (cells h w).

Definition answers_nurimaze (pb : problem) : list answer :=
  all_answers (bool_doms (dim pb 0 * dim pb 1)).
