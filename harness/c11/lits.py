"""C11 plug-in: lits (solve_lits(height, width, blocks))."""
import c11lib as L
from c11 import norinori as _nn

NAME = "lits"
MODULE = "cspuz.puzzle.lits"
FUNC = "solve_lits"
TIER1 = ("Lits", "solve_lits_model")
TIER1_PRIM = ("LitsPrim", "solve_lits_model_prim")


def call(mod, pb):
    return mod.solve_lits(pb["h"], pb["w"], [[tuple(c) for c in b] for b in pb["blocks"]])


def ncand(pb):
    return 2 ** (pb["h"] * pb["w"])


encode = _nn.encode


def families(tier, rng):
    th = tier == "thorough"
    for (h, w) in [(1, 4), (4, 1), (2, 2), (2, 3), (1, 5)]:
        parts = list(L.region_partitions(h, w))
        for blocks in (parts if th else L.sample(rng, parts, 8)):
            yield {"h": h, "w": w, "blocks": blocks}
    for (h, w) in [(2, 4), (4, 2), (3, 3), (2, 5), (3, 4), (4, 3), (4, 4)]:
        if h * w <= 10:
            parts = L.sample(rng, L.region_partitions(h, w, min_size=4), 150 if th else 20)
        else:
            parts = [p for p in _nn._random_parts(rng, h, w, 3000 if th else 600) if all(len(b) >= 4 for b in p)][:150 if th else 20]
        for blocks in parts:
            yield {"h": h, "w": w, "blocks": blocks}


def tier2(tier, rng):
    th = tier == "thorough"
    for (h, w) in [(1, 4), (2, 2), (2, 3), (1, 5)]:
        parts = L.sample(rng, L.region_partitions(h, w, min_size=4), 12 if th else 3)
        for blocks in parts:
            yield {"h": h, "w": w, "blocks": blocks}


def big(tier, rng):
    """5x5 / 4x6 / 6x4 boards with 3-4 rooms (too many candidate grids to enumerate: every grid the solver admits,
    up to the cap, is checked against the rules)"""
    th = tier == "thorough"
    for (h, w) in [(5, 5), (4, 6), (6, 4)]:
        k = 0
        for _ in range(400):
            blocks = L.random_rooms(rng, h, w, rng.choice([3, 4]))
            if all(len(b) >= 4 for b in blocks):
                yield {"h": h, "w": w, "blocks": blocks}
                k += 1
                if k >= (16 if th else 4):
                    break


def tier1_problems(tier, rng):
    """program-capture tie: every room layout of the tiniest boards (both orientations), random layouts with small and
    large rooms on small, non-square, long thin and larger boards (rooms below, at and above four cells; cells with 0..4
    neighbours in their room), a block list with an empty block in between, boards without cells (ValueError)"""
    th = tier == "thorough"
    for (h, w) in [(1, 1), (1, 2), (2, 1), (1, 3), (3, 1), (2, 2), (1, 4), (4, 1), (2, 3), (3, 2)]:
        parts = list(L.region_partitions(h, w))
        for blocks in (parts if th else L.sample(rng, parts, 12)):
            yield {"h": h, "w": w, "blocks": blocks}
    for (h, w) in [(1, 5), (5, 1), (3, 3), (2, 5), (5, 2), (3, 4), (4, 4), (3, 6), (6, 5), (5, 7), (7, 7), (1, 9), (9, 1),
                   (8, 8), (2, 21)]:
        for _ in range(8 if th else 3):
            k = rng.randint(1, max(1, h * w // rng.choice([2, 4, 6])))
            yield {"h": h, "w": w, "blocks": L.random_rooms(rng, h, w, k)}
        yield {"h": h, "w": w, "blocks": [[[y, x] for y in range(h) for x in range(w)]]}
    for (h, w) in [(3, 3), (4, 5)]:
        blocks = L.random_rooms(rng, h, w, 3)
        yield {"h": h, "w": w, "blocks": [blocks[0], [], blocks[1], [], blocks[2]]}
    for (h, w) in [(0, 0), (0, 2), (2, 0)]:
        yield {"h": h, "w": w, "blocks": []}
