(* C16 — puzzle URL codecs round-trip and agree with the puzz.link / pzv format.
   Only final statements here; proofs are in Codec/UrlProofs.v, PuzzleProofs.v, LegacyProofs.v, LegacyEq.v,
   PzprProofs.v, YajilinProofs.v, PzprYajilin.v, SegmentationEq.v, PzprBorders.v, PzprNumber16.v, PzprSlither.v,
   PzprMasyu.v, PzprCompass.v, PzprHeyawake.v and (C15's) RoomsProofs.v, RoomsDischarge.v.
   Gen/Codecs.v is regenerated from cspuz/puzzle/*.py on every run (harness/c16trans.py):
   the statements about <P>_COMBINATOR / serialize_<p>_w / deserialize_<p>_w below are
   obligations about the code as it is now. *)
From Coq Require Import ZArith List Ascii Bool Lia Sorting.Permutation.
From Cspuz Require Import Lib.PyErr Codec.Comb Codec.CombWf Codec.CombRoundTrip Codec.Legacy Codec.LegacyProofs Codec.LegacyEq Codec.Pzpr Codec.PzprProofs Codec.Url
  Codec.UrlProofs Codec.Yajilin Codec.Puzzles Codec.SerChars Codec.PuzzleProofs Gen.Codecs
  Codec.RoomsGrid Codec.RoomsFill Codec.RoomsProofs Codec.RoomsDischarge
  Codec.YajilinProofs Codec.PzprYajilin Codec.SegmentationEq Codec.PzprBorders Codec.PzprNumber16
  Codec.PzprSlither Codec.PzprMasyu Codec.PzprCompass Codec.PzprHeyawake Codec.GridTotal.
Import ListNotations.
Local Open Scope Z_scope.

(* ------------------------------------------------------------------ URL assembly / regular expression *)
(* For every puzzle name without slash, all naturals h and w and every body without
   newline, the regular expression reads name, WIDTH, HEIGHT (in this order) and body back
   from the f-string serialize_problem_as_url writes; for every prefix the expression
   accepts (http/https, any host, /p or /p.html). *)
Theorem url_roundtrip :
  forall p nm h w body,
    valid_prefix p -> valid_name nm -> valid_body body -> 0 <= h -> 0 <= w ->
    parse_url (make_url p nm h w body) = Ok (Some (nm, w, h, body)).
Proof. exact url_roundtrip_gen. Qed.
Print Assumptions url_roundtrip.

Theorem known_prefixes_valid : valid_prefix default_prefix /\ valid_prefix pzv_prefix.
Proof. split; [exact default_prefix_valid | exact pzv_prefix_valid]. Qed.
Print Assumptions known_prefixes_valid.

(* ------------------------------------------------------------------ the generated codec table *)
(* every combinator term of the bundled modules (except yajilin's, which uses a Combinator
   subclass) satisfies C15's well-formedness predicate *)
Theorem generated_terms_wf :
  wf NURIKABE_COMBINATOR = true /\ wf MASYU_COMBINATOR = true /\ wf SLITHERLINK_COMBINATOR = true /\
  wf SUDOKU_COMBINATOR = true /\ wf NURIMISAKI_COMBINATOR = true /\ wf HEYAWAKE_COMBINATOR = true /\
  wf LITS_COMBINATOR = true /\ wf NORINORI_COMBINATOR = true.
Proof. vm_compute. repeat split; reflexivity. Qed.
Print Assumptions generated_terms_wf.

(* encoder and decoder of every module use the same term, the encoder's puzzle name can be
   read by the regular expression and is accepted by the decoder's allowed_puzzles *)
Theorem generated_wrappers_consistent :
  wrappers_consistent serialize_nurikabe_w deserialize_nurikabe_w /\
  wrappers_consistent serialize_masyu_w deserialize_masyu_w /\
  wrappers_consistent serialize_slitherlink_w deserialize_slitherlink_w /\
  wrappers_consistent serialize_sudoku_w deserialize_sudoku_w /\
  wrappers_consistent serialize_nurimisaki_w deserialize_nurimisaki_w /\
  wrappers_consistent serialize_yajilin_w deserialize_yajilin_w /\
  wrappers_consistent serialize_heyawake_w deserialize_heyawake_w /\
  wrappers_consistent serialize_lits_w deserialize_lits_w /\
  wrappers_consistent serialize_norinori_w deserialize_norinori_w.
Proof.
  repeat split; try reflexivity; try discriminate; vm_compute; repeat constructor.
Qed.
Print Assumptions generated_wrappers_consistent.

(* ------------------------------------------------------------------ URL level from body level (all nine modules) *)
(* no text any of the nine terms serializes to contains a newline (so `.*` reads all of it);
   this holds for YajilinClue as well *)
Theorem generated_terms_newline_free :
  nl_free NURIKABE_COMBINATOR = true /\ nl_free MASYU_COMBINATOR = true /\ nl_free SLITHERLINK_COMBINATOR = true /\
  nl_free SUDOKU_COMBINATOR = true /\ nl_free NURIMISAKI_COMBINATOR = true /\ nl_free YAJILIN_COMBINATOR = true /\
  nl_free HEYAWAKE_COMBINATOR = true /\ nl_free LITS_COMBINATOR = true /\ nl_free NORINORI_COMBINATOR = true /\
  (forall h w, cust_good (cu_env no_custom h w)) /\ (forall h w, cust_good (cu_env yajilin_custom h w)).
Proof.
  repeat split; try (vm_compute; reflexivity); [exact no_custom_cu_good | exact yajilin_cu_good].
Qed.
Print Assumptions generated_terms_newline_free.

(* For any module whose wrappers are consistent and whose term writes no newline: if the
   body serialization of a problem round-trips, then serialize_<p> writes
   prefix name/width/height/body and deserialize_<p> returns the problem, with
   (height, width) when return_size is set — for all sizes, square or not. *)
Theorem url_from_body_roundtrip :
  forall cu sw dw h w pb pb' body,
    wrappers_consistent sw dw -> 0 <= h -> 0 <= w ->
    cust_good (cu_env cu h w) -> nl_free (sw_comb sw) = true ->
    serialize_problem_cu cu (sw_comb sw) pb h w = Ok body ->
    deserialize_problem_cu cu (sw_comb sw) body h w = Ok (Some pb') -> pb' <> VNone ->
    run_ser_sized cu sw h w pb = Ok (make_url default_prefix (sw_puzzle sw) h w body) /\
    run_de cu dw (make_url default_prefix (sw_puzzle sw) h w body) = Ok (Some (sized dw h w pb')).
Proof. exact url_level_roundtrip_nl. Qed.
Print Assumptions url_from_body_roundtrip.

(* ------------------------------------------------------------------ cell-grid codecs: full round trip *)
(* nurikabe, masyu, slitherlink, sudoku, nurimisaki: for every board size h, w >= 1 and every
   h x w problem for which the body serialization succeeds (it succeeds exactly on the cell
   values the text format can carry), serialize_<p> returns
   https://puzz.link/p?<name>/<w>/<h>/<body> and deserialize_<p> of that URL returns the problem. *)
Definition grid_codec_roundtrip_for (sw : ser_wrapper) (dw : de_wrapper) : Prop :=
  forall h w pb rows body,
    1 <= h -> 1 <= w -> grid_shape h w pb rows ->
    serialize_problem_cu no_custom (sw_comb sw) pb h w = Ok body ->
    run_ser_problem no_custom sw pb = Ok (make_url default_prefix (sw_puzzle sw) h w body) /\
    run_de no_custom dw (make_url default_prefix (sw_puzzle sw) h w body) = Ok (Some pb).

Theorem grid_codecs_roundtrip :
  grid_codec_roundtrip_for serialize_nurikabe_w deserialize_nurikabe_w /\
  grid_codec_roundtrip_for serialize_masyu_w deserialize_masyu_w /\
  grid_codec_roundtrip_for serialize_slitherlink_w deserialize_slitherlink_w /\
  grid_codec_roundtrip_for serialize_sudoku_w deserialize_sudoku_w /\
  grid_codec_roundtrip_for serialize_nurimisaki_w deserialize_nurimisaki_w.
Proof.
  pose proof generated_wrappers_consistent as (H1 & H2 & H3 & H4 & H5 & _).
  assert (T : forall sw dw c1, sw_comb sw = Grid c1 None -> wf (Grid c1 None) = true -> rooms_free c1 = true ->
                cell_comb c1 = true -> wrappers_consistent sw dw -> dw_return_size dw = false -> nl_free c1 = true ->
                grid_codec_roundtrip_for sw dw).
  { intros sw dw c1 E1 E2 E3 E4 E5 E6 E7 h w pb rows body Hh Hw Hs Hser.
    eapply grid_url_roundtrip; eauto. }
  split; [|split; [|split; [|split]]];
    (eapply T; [reflexivity | vm_compute; reflexivity | reflexivity | reflexivity | assumption | reflexivity
               | vm_compute; reflexivity]).
Qed.
Print Assumptions grid_codecs_roundtrip.

(* the hypotheses are satisfiable: a 1 x 3 nurikabe board with an empty cell, the clue 16 and "?" *)
Example nurikabe_instance :
  let pb := VList [VList [VInt 0; VInt 16; VInt (-1)]] in
  run_ser_problem no_custom serialize_nurikabe_w pb
    = Ok (make_url default_prefix (sw_puzzle serialize_nurikabe_w) 1 3 (lit [103; 45; 49; 48; 46]%nat)) /\
  run_de no_custom deserialize_nurikabe_w
    (make_url default_prefix (sw_puzzle serialize_nurikabe_w) 1 3 (lit [103; 45; 49; 48; 46]%nat)) = Ok (Some pb).
Proof. vm_compute. split; reflexivity. Qed.

(* ------------------------------------------------------------------ room-based codecs (lits, norinori, heyawake) *)
(* C15 states the round trip of Rooms / ValuedRooms for partitions given in any order as
   [rooms_roundtrip_statement] / [valued_rooms_roundtrip_statement] (not proved there yet).
   GIVEN those statements as explicit premises, the URL functions of the three room-based
   modules round-trip every partition of every h x w board (h, w >= 1) into connected rooms:
   the URL is prefix name/w/h/body and the decoder returns (h, w, the same partition in
   canonical order [, the clues carried with their rooms]). *)
Theorem rooms_codecs_roundtrip_given_rooms :
  rooms_roundtrip_statement ->
  forall sw dw, (sw = serialize_lits_w /\ dw = deserialize_lits_w) \/ (sw = serialize_norinori_w /\ dw = deserialize_norinori_w) ->
  forall h w rs, 1 <= h -> 1 <= w -> valid_rooms h w rs ->
  exists body rs',
    run_ser_sized no_custom sw h w (rooms_to_pv rs) = Ok (make_url default_prefix (sw_puzzle sw) h w body) /\
    canonical_rooms h w rs' /\ rooms_equiv rs rs' /\
    run_de no_custom dw (make_url default_prefix (sw_puzzle sw) h w body) = Ok (Some (VTup [VInt h; VInt w; rooms_to_pv rs'])).
Proof.
  intros Hst sw dw Hsw.
  pose proof generated_wrappers_consistent as (_ & _ & _ & _ & _ & _ & _ & H8 & H9).
  destruct Hsw as [[-> ->]|[-> ->]].
  - exact (rooms_url_roundtrip_given serialize_lits_w deserialize_lits_w false false Hst eq_refl H8).
  - exact (rooms_url_roundtrip_given serialize_norinori_w deserialize_norinori_w false false Hst eq_refl H9).
Qed.
Print Assumptions rooms_codecs_roundtrip_given_rooms.

Theorem heyawake_roundtrip_given_rooms :
  valued_rooms_roundtrip_statement ->
  forall h w rs vs body, 1 <= h -> 1 <= w -> valid_rooms h w rs -> length vs = length rs ->
  serialize_problem_cu no_custom HEYAWAKE_COMBINATOR (VTup [rooms_to_pv rs; VList vs]) h w = Ok body ->
  exists ps rs',
    Permutation ps (combine rs vs) /\ Forall2 (fun p r' => Permutation (fst p) r') ps rs' /\ canonical_rooms h w rs' /\
    run_ser_sized no_custom serialize_heyawake_w h w (VTup [rooms_to_pv rs; VList vs])
      = Ok (make_url default_prefix (sw_puzzle serialize_heyawake_w) h w body) /\
    run_de no_custom deserialize_heyawake_w (make_url default_prefix (sw_puzzle serialize_heyawake_w) h w body)
      = Ok (Some (VTup [VInt h; VInt w; VTup [rooms_to_pv rs'; VList (map snd ps)]])).
Proof.
  intros Hst.
  pose proof generated_wrappers_consistent as (_ & _ & _ & _ & _ & _ & H7 & _).
  exact (valued_rooms_url_roundtrip_given serialize_heyawake_w deserialize_heyawake_w _ true false Hst eq_refl H7
           ltac:(vm_compute; reflexivity) eq_refl eq_refl eq_refl).
Qed.
Print Assumptions heyawake_roundtrip_given_rooms.

(* Unconditional forms, from C15's Codec/RoomsProofs.v (roundtrip_all, rooms_roundtrip_any_order):
   lits / norinori: for every partition rs of every h x w board (h, w >= 1) into connected rooms,
   given in ANY order of rooms and cells, if the body serializes then the URL is
   prefix name/w/h/body and the decoder returns (h, w, rs') for the canonical listing rs' of the
   same partition.  heyawake: the same when the rooms are given in canonical order (clues stay
   with their rooms); for heyawake rooms in arbitrary order see heyawake_roundtrip_given_rooms. *)
Theorem rooms_codecs_roundtrip :
  forall sw dw, (sw = serialize_lits_w /\ dw = deserialize_lits_w) \/ (sw = serialize_norinori_w /\ dw = deserialize_norinori_w) ->
  forall h w rs rs' body, 1 <= h -> 1 <= w ->
    valid_rooms h w rs -> canonical_rooms h w rs' -> rooms_equiv rs rs' ->
    serialize_problem_cu no_custom (sw_comb sw) (rooms_to_pv rs) h w = Ok body ->
    run_ser_sized no_custom sw h w (rooms_to_pv rs) = Ok (make_url default_prefix (sw_puzzle sw) h w body) /\
    run_de no_custom dw (make_url default_prefix (sw_puzzle sw) h w body) = Ok (Some (VTup [VInt h; VInt w; rooms_to_pv rs'])).
Proof.
  intros sw dw Hsw h w rs rs' body Hh Hw Hv Hcan Heq Hser.
  pose proof generated_wrappers_consistent as (_ & _ & _ & _ & _ & _ & _ & H8 & H9).
  destruct Hsw as [[-> ->]|[-> ->]].
  - exact (rooms_url_roundtrip serialize_lits_w deserialize_lits_w false false h w rs rs' body eq_refl H8 Hh Hw Hv Hcan Heq Hser).
  - exact (rooms_url_roundtrip serialize_norinori_w deserialize_norinori_w false false h w rs rs' body eq_refl H9 Hh Hw Hv Hcan Heq Hser).
Qed.
Print Assumptions rooms_codecs_roundtrip.

Theorem heyawake_roundtrip_canonical :
  forall h w rs vs body, 1 <= h -> 1 <= w -> canonical_rooms h w rs -> length vs = length rs ->
    serialize_problem_cu no_custom HEYAWAKE_COMBINATOR (VTup [rooms_to_pv rs; VList vs]) h w = Ok body ->
    run_ser_sized no_custom serialize_heyawake_w h w (VTup [rooms_to_pv rs; VList vs])
      = Ok (make_url default_prefix (sw_puzzle serialize_heyawake_w) h w body) /\
    run_de no_custom deserialize_heyawake_w (make_url default_prefix (sw_puzzle serialize_heyawake_w) h w body)
      = Ok (Some (VTup [VInt h; VInt w; VTup [rooms_to_pv rs; VList vs]])).
Proof.
  intros h w rs vs body Hh Hw Hcan Hlen Hser.
  pose proof generated_wrappers_consistent as (_ & _ & _ & _ & _ & _ & H7 & _).
  exact (valued_rooms_url_roundtrip serialize_heyawake_w deserialize_heyawake_w _ true false h w rs vs body eq_refl H7
           ltac:(vm_compute; reflexivity) eq_refl eq_refl Hh Hw Hcan Hlen Hser).
Qed.
Print Assumptions heyawake_roundtrip_canonical.

(* The two premises above are theorems now (C15: Codec/RoomsTotal.v rooms_roundtrip_proof, Codec/RoomsValued.v
   valued_rooms_roundtrip_proof; composed in Codec/RoomsDischarge.v).  Unconditionally: serialize_lits /
   serialize_norinori succeed on EVERY partition of every h x w board (h, w >= 1) into connected rooms, listed
   in any order of rooms and cells; the URL is prefix name/w/h/body and deserialize_<p> returns
   (h, w, the canonical listing of the same partition). *)
Theorem rooms_codecs_roundtrip_any_order :
  forall sw dw, (sw = serialize_lits_w /\ dw = deserialize_lits_w) \/ (sw = serialize_norinori_w /\ dw = deserialize_norinori_w) ->
  forall h w rs, 1 <= h -> 1 <= w -> valid_rooms h w rs ->
  exists body rs',
    run_ser_sized no_custom sw h w (rooms_to_pv rs) = Ok (make_url default_prefix (sw_puzzle sw) h w body) /\
    canonical_rooms h w rs' /\ rooms_equiv rs rs' /\
    run_de no_custom dw (make_url default_prefix (sw_puzzle sw) h w body) = Ok (Some (VTup [VInt h; VInt w; rooms_to_pv rs'])).
Proof. exact rooms_codecs_roundtrip_unconditional. Qed.
Print Assumptions rooms_codecs_roundtrip_any_order.

(* heyawake: rooms (and cells) in any order; every clue comes back with its room *)
Theorem heyawake_roundtrip_any_order :
  forall h w rs vs body, 1 <= h -> 1 <= w -> valid_rooms h w rs -> length vs = length rs ->
  serialize_problem_cu no_custom HEYAWAKE_COMBINATOR (VTup [rooms_to_pv rs; VList vs]) h w = Ok body ->
  exists ps rs',
    Permutation ps (combine rs vs) /\ Forall2 (fun p r' => Permutation (fst p) r') ps rs' /\ canonical_rooms h w rs' /\
    run_ser_sized no_custom serialize_heyawake_w h w (VTup [rooms_to_pv rs; VList vs])
      = Ok (make_url default_prefix (sw_puzzle serialize_heyawake_w) h w body) /\
    run_de no_custom deserialize_heyawake_w (make_url default_prefix (sw_puzzle serialize_heyawake_w) h w body)
      = Ok (Some (VTup [VInt h; VInt w; VTup [rooms_to_pv rs'; VList (map snd ps)]])).
Proof. exact heyawake_roundtrip_unconditional. Qed.
Print Assumptions heyawake_roundtrip_any_order.

(* ------------------------------------------------------------------ yajilin (Combinator subclass YajilinClue) *)
(* C15's general theorem does not cover Combinator subclasses; Codec/YajilinProofs.v shows directly that the
   cell coder OneOf(YajilinClue(), Spaces("..", "a")) meets the hypotheses of C15's generic Seq-loop theorem.
   Domain (YajilinProofs.yajilin_cell_ok): a cell is "..", "??" or an arrow character ^ v < > followed by the
   decimal text of a number 0..4095 (all three pzpr forms D H, D+5 HH, -D HHH).
   Body level, for ALL board sizes (also 0 rows): serialize_problem succeeds and deserialize_problem returns
   the problem. *)
Theorem yajilin_body_roundtrip :
  forall h w pb rows, grid_shape h w pb rows -> Forall (Forall yajilin_cell_ok) rows ->
  exists body, serialize_problem_cu yajilin_custom YAJILIN_COMBINATOR pb h w = Ok body /\
               deserialize_problem_cu yajilin_custom YAJILIN_COMBINATOR body h w = Ok (Some pb).
Proof. exact yajilin_body_roundtrip_gen. Qed.
Print Assumptions yajilin_body_roundtrip.

(* URL level: serialize_yajilin(problem) = https://puzz.link/p?yajilin/<w>/<h>/<body> and deserialize_yajilin
   of that URL returns the problem, for every h x w board (h, w >= 1) of the domain. *)
Theorem yajilin_roundtrip :
  forall h w pb rows, 1 <= h -> 1 <= w -> grid_shape h w pb rows -> Forall (Forall yajilin_cell_ok) rows ->
  exists body,
    serialize_problem_cu yajilin_custom YAJILIN_COMBINATOR pb h w = Ok body /\
    deserialize_problem_cu yajilin_custom YAJILIN_COMBINATOR body h w = Ok (Some pb) /\
    run_ser_problem yajilin_custom serialize_yajilin_w pb
      = Ok (make_url default_prefix (sw_puzzle serialize_yajilin_w) h w body) /\
    run_de yajilin_custom deserialize_yajilin_w (make_url default_prefix (sw_puzzle serialize_yajilin_w) h w body)
      = Ok (Some pb).
Proof.
  pose proof generated_wrappers_consistent as (_ & _ & _ & _ & _ & H6 & _).
  exact (fun h w pb rows => yajilin_url_roundtrip_gen serialize_yajilin_w deserialize_yajilin_w h w pb rows eq_refl H6 eq_refl).
Qed.
Print Assumptions yajilin_roundtrip.

(* ------------------------------------------------------------------ compass (legacy encoder + hand-written parser) *)
(* For every board size h x w (h, w >= 0, square or not) and every list of clues
   (y, x, up, left, down, right) inside the board, listed in row-major order of their cells
   (strictly increasing, so no cell twice), every number blank (-1) or in 0..4095:
   to_puzz_link_url writes https://puzz.link/p?compass/<w>/<h>/<body> and
   parse_puzz_link_url returns exactly (h, w, clues). *)
Theorem compass_roundtrip :
  forall h w pos, 0 <= h -> 0 <= w -> compass_clues_ok h w pos ->
    exists body,
      to_puzz_link_url h w pos = Ok (make_url default_prefix ["c"; "o"; "m"; "p"; "a"; "s"; "s"]%char h w body) /\
      parse_puzz_link_url (make_url default_prefix ["c"; "o"; "m"; "p"; "a"; "s"; "s"]%char h w body) = Ok (h, w, pos).
Proof. exact compass_roundtrip_proof. Qed.
Print Assumptions compass_roundtrip.

(* the 5 x 4 board of DESIGN section 7 #17 (with a clue value >= 256 added) satisfies the hypotheses and
   evaluates as stated *)
Example compass_instance :
  let pos := [(1, 1, (1, 2, -1, 3)); (2, 2, (-1, -1, 6, -1)); (3, 0, (4, -1, 300, 5))] in
  compass_clues_ok 5 4 pos /\
  match to_puzz_link_url 5 4 pos with Ok url => parse_puzz_link_url url = Ok (5, 4, pos) | Err _ => False end.
Proof.
  split.
  - split; [|split].
    + repeat constructor; simpl; lia.
    + repeat (constructor; [unfold clue_ok, cell_ok, ctup, vnum; repeat split; ((left; reflexivity) || (right; lia))|]).
      constructor.
    + simpl. repeat split; lia.
  - vm_compute. reflexivity.
Qed.

(* ------------------------------------------------------------------ legacy encoder = combinator codec *)
(* For every empty-cell value e and every h x w board of ints whose cells are e or in
   0..4095: util.encode_array(board, empty=e) (dimension inferred, marker "g") and
   serialize_problem(Grid(OneOf(Spaces(e, "g"), HexInt())), board) return the same text;
   likewise for a flat list against Seq(OneOf(Spaces(e, "g"), HexInt()), n). *)
Theorem legacy_eq_combinator :
  forall e h w rows,
    Z.of_nat (length rows) = h -> Forall (fun r => Z.of_nat (length r) = w) rows ->
    Forall (Forall (icell_ok e)) rows -> rows <> [] ->
    exists text,
      encode_array (int_rows rows) marker_g (VInt e) None = Ok text /\
      serialize_problem (Grid (OneOf [Spaces (VInt e) "g"%char; HexInt]) None) (VList (int_rows rows)) h w = Ok text.
Proof.
  intros e h w rows Hh Hw Hall Hne. exists (enc_ints e (concat rows) 0).
  exact (legacy_eq_grid e h w rows Hh Hw Hall Hne).
Qed.
Print Assumptions legacy_eq_combinator.

Theorem legacy_eq_combinator_flat :
  forall e env l, Forall (icell_ok e) l ->
    exists text,
      encode_array (map VInt l) marker_g (VInt e) (Some 1) = Ok text /\
      ser env (Seq (OneOf [Spaces (VInt e) "g"%char; HexInt]) (Z.of_nat (length l))) (VList [VList (map VInt l)]) 0
        = Ok (Some (1%nat, text)).
Proof. intros e env l H. exists (enc_ints e l 0). exact (legacy_eq_seq e env l H). Qed.
Print Assumptions legacy_eq_combinator_flat.

(* the term of legacy_eq_combinator with e = 0 is the one sudoku.py uses today *)
Theorem sudoku_term_is_legacy_form : SUDOKU_COMBINATOR = Grid (OneOf [Spaces (VInt 0) "g"%char; HexInt]) None.
Proof. reflexivity. Qed.
Print Assumptions sudoku_term_is_legacy_form.

(* ------------------------------------------------------------------ border bitmaps *)
(* util.encode_grid_segmentation codes each of its two flag sequences with convert_binary_seq;
   Rooms codes its two border grids with Seq(MultiDigit(base=2, digits=5), n).  On every
   sequence of 0/1 flags (any length, the last group zero-padded) both give the same text. *)
Theorem segmentation_bitmap_eq :
  forall env F, Forall bit F ->
    exists text,
      convert_binary_seq (length F) F = Ok text /\
      ser env (Seq (MultiDigit 2 5) (Z.of_nat (length F))) (VList [VList (map VInt F)]) 0 = Ok (Some (1%nat, text)).
Proof. intros env F H. exists (cbs (length F) F). exact (bitmap_text_eq env F H). Qed.
Print Assumptions segmentation_bitmap_eq.

(* the whole functions: for every partition rs of every h x w board (h, w >= 1) into connected rooms, in any
   order, with block_id = util.blocks_to_block_id(h, w, rs) (zcell turns a cell into the pair of Python ints):
   util.encode_grid_segmentation(h, w, block_id) and serialize_problem(Rooms(), rs) return the same text *)
Theorem segmentation_eq_rooms :
  forall h w rs bid, 1 <= h -> 1 <= w -> valid_rooms h w rs ->
    blocks_to_block_id h w (map (map zcell) rs) = Ok bid ->
    exists text, encode_grid_segmentation h w bid = Ok text /\
                 serialize_problem (Rooms false false) (rooms_to_pv rs) h w = Ok text.
Proof. exact segmentation_eq_rooms_proof. Qed.
Print Assumptions segmentation_eq_rooms.

(* stronger: blocks_to_block_id succeeds as well, and the common text is explicit: the flags "cells (y, x) and
   (y, x+1) lie in different rooms" row-major, then "(y, x) and (y+1, x) lie in different rooms" row-major, each
   sequence in groups of five (SegmentationEq.rooms_text), whatever Rooms' two options are *)
Theorem segmentation_eq_rooms_explicit :
  forall h w rs, 1 <= h -> 1 <= w -> valid_rooms h w rs ->
    exists bid, blocks_to_block_id h w (map (map zcell) rs) = Ok bid /\
      encode_grid_segmentation h w bid = Ok (rooms_text (Z.to_nat h) (Z.to_nat w) rs) /\
      forall skip allow, serialize_problem (Rooms skip allow) (rooms_to_pv rs) h w = Ok (rooms_text (Z.to_nat h) (Z.to_nat w) rs).
Proof. exact segmentation_eq_rooms_total. Qed.
Print Assumptions segmentation_eq_rooms_explicit.

(* ------------------------------------------------------------------ agreement with the independent pzpr decoder *)
(* sudoku (and any use of util.encode_array(empty=0)): for every h x w board (h, w >= 1) with
   cells in 0..4095 (0 = empty), the body serialize_sudoku writes is read back by the
   independent pzpr decoder (decodeNumber16, Codec/Pzpr.v) as exactly that board, the whole
   body being consumed.  The other formats follow below. *)
Theorem sudoku_pzpr_agrees :
  forall rows w, rows <> [] -> (0 < w)%nat ->
    Forall (fun r => length r = w) rows -> Forall (Forall scell_ok) rows ->
    exists body,
      serialize_problem SUDOKU_COMBINATOR (VList (int_rows rows)) (Z.of_nat (length rows)) (Z.of_nat w) = Ok body /\
      encode_array (int_rows rows) marker_g (VInt 0) None = Ok body /\
      pzpr_decode_sudoku (length rows) w body = Some (VList (int_rows rows)).
Proof.
  intros rows w Hne Hw Hrect Hall. exists (enc_ints 0 (concat rows) 0).
  assert (Hall' : Forall (Forall (icell_ok 0)) rows).
  { eapply Forall_impl; [|exact Hall]. intros r Hr. eapply Forall_impl; [|exact Hr]. intros v Hv. right. exact Hv. }
  assert (Hrect' : Forall (fun r => Z.of_nat (length r) = Z.of_nat w) rows).
  { eapply Forall_impl; [|exact Hrect]. intros r Hr. simpl in Hr. rewrite Hr. reflexivity. }
  destruct (legacy_eq_grid 0 (Z.of_nat (length rows)) (Z.of_nat w) rows eq_refl Hrect' Hall' Hne) as [H1 H2].
  split; [exact H2|]. split; [exact H1|]. apply pzpr_sudoku_reads; assumption.
Qed.
Print Assumptions sudoku_pzpr_agrees.

(* nurikabe: cells -1 ("?"), 0 (empty), 1..4095; the body is read by decodeNumber16 ('.' = "?") and the nurikabe
   reading of a pzpr board as exactly the problem, the whole body being consumed; all sizes h, w >= 1 *)
Theorem nurikabe_pzpr_agrees :
  forall rows w, rows <> [] -> (0 < w)%nat ->
    Forall (fun r => length r = w) rows -> Forall (Forall nurikabe_cell_ok) rows ->
    exists body,
      serialize_problem NURIKABE_COMBINATOR (VList (int_rows rows)) (Z.of_nat (length rows)) (Z.of_nat w) = Ok body /\
      pzpr_decode_nurikabe (length rows) w body = Some (VList (int_rows rows)).
Proof. exact nurikabe_pzpr_reads. Qed.
Print Assumptions nurikabe_pzpr_agrees.

(* nurimisaki: cells -1 (empty), 0 (circle without number, '.'), 1..4095 *)
Theorem nurimisaki_pzpr_agrees :
  forall rows w, rows <> [] -> (0 < w)%nat ->
    Forall (fun r => length r = w) rows -> Forall (Forall nurimisaki_cell_ok) rows ->
    exists body,
      serialize_problem NURIMISAKI_COMBINATOR (VList (int_rows rows)) (Z.of_nat (length rows)) (Z.of_nat w) = Ok body /\
      pzpr_decode_nurimisaki (length rows) w body = Some (VList (int_rows rows)).
Proof. exact nurimisaki_pzpr_reads. Qed.
Print Assumptions nurimisaki_pzpr_agrees.

(* slitherlink: cells -1 (no clue) or 0..4; decode4Cell (number, number + one empty cell, number + two empty
   cells, runs of 1..20 empty cells in one character each) *)
Theorem slitherlink_pzpr_agrees :
  forall rows w, rows <> [] -> (0 < w)%nat ->
    Forall (fun r => length r = w) rows -> Forall (Forall slither_cell_ok) rows ->
    exists body,
      serialize_problem SLITHERLINK_COMBINATOR (VList (int_rows rows)) (Z.of_nat (length rows)) (Z.of_nat w) = Ok body /\
      pzpr_decode_slitherlink (length rows) w body = Some (VList (int_rows rows)).
Proof. exact slitherlink_pzpr_reads. Qed.
Print Assumptions slitherlink_pzpr_agrees.

(* masyu: cells 0 / 1 (white) / 2 (black); decodeCircle (three cells per base-27 character, last one padded) *)
Theorem masyu_pzpr_agrees :
  forall rows w, rows <> [] -> (0 < w)%nat ->
    Forall (fun r => length r = w) rows -> Forall (Forall masyu_cell_ok) rows ->
    exists body,
      serialize_problem MASYU_COMBINATOR (VList (int_rows rows)) (Z.of_nat (length rows)) (Z.of_nat w) = Ok body /\
      pzpr_decode_masyu (length rows) w body = Some (VList (int_rows rows)).
Proof. exact masyu_pzpr_reads. Qed.
Print Assumptions masyu_pzpr_agrees.

(* yajilin: whatever body the term writes for a board of the domain (h, w >= 1), decodeArrowNumber16 and the
   yajilin reading of a pzpr board ("^ v < >" + decimal number, "??", "..") give the problem back *)
Theorem yajilin_pzpr_agrees :
  forall h w pb rows body, 1 <= h -> 1 <= w -> grid_shape h w pb rows -> Forall (Forall yajilin_cell_ok) rows ->
    serialize_problem_cu yajilin_custom YAJILIN_COMBINATOR pb h w = Ok body ->
    pzpr_decode_yajilin (Z.to_nat h) (Z.to_nat w) body = Some pb.
Proof. exact yajilin_pzpr_reads. Qed.
Print Assumptions yajilin_pzpr_agrees.

(* compass (legacy encoder): the body of to_puzz_link_url is read by the independent decoder (four number16
   tokens up/down/left/right per clue cell, runs of clue-less cells) as the same clues in row-major order;
   pzpr_clue reorders cspuz's (up, left, down, right) to pzpr's (up, down, left, right); all sizes h, w >= 0 *)
Theorem compass_pzpr_agrees :
  forall h w pos, 0 <= h -> 0 <= w -> compass_clues_ok h w pos ->
    exists body, compass_body h w pos = Ok body /\
      to_puzz_link_url h w pos = Ok (compass_prefix ++ py_str_int w ++ slash ++ py_str_int h ++ slash ++ body) /\
      pzpr_decode_compass (Z.to_nat h) (Z.to_nat w) body = Some (map pzpr_clue pos).
Proof. exact compass_pzpr_reads. Qed.
Print Assumptions compass_pzpr_agrees.

(* lits / norinori (Rooms): for every partition of every h x w board (h, w >= 1) into connected rooms, in any
   order, decodeBorder reads the body back as the border flags of the partition: flag y*(w-1)+x of the first
   list is 1 iff (y, x) and (y, x+1) lie in different rooms, flag y*w+x of the second iff (y, x) and (y+1, x) do
   (PzprBorders.vg_flag / hg_flag); the whole body is consumed *)
Theorem rooms_pzpr_agrees_all :
  forall h w rs, 1 <= h -> 1 <= w -> valid_rooms h w rs ->
    serialize_problem LITS_COMBINATOR (rooms_to_pv rs) h w = Ok (rooms_text (Z.to_nat h) (Z.to_nat w) rs) /\
    serialize_problem NORINORI_COMBINATOR (rooms_to_pv rs) h w = Ok (rooms_text (Z.to_nat h) (Z.to_nat w) rs) /\
    pzpr_decode_rooms (Z.to_nat h) (Z.to_nat w) (rooms_text (Z.to_nat h) (Z.to_nat w) rs)
      = Some (concat (vg (Z.to_nat h) (Z.to_nat w) (rid_of rs)), concat (hg (Z.to_nat h) (Z.to_nat w) (rid_of rs))).
Proof.
  intros h w rs Hh Hw Hv. destruct (rooms_pzpr_agrees_whole h w rs Hh Hw Hv) as [H1 H2].
  split; [exact H1|]. split; [exact H1|exact H2].
Qed.
Print Assumptions rooms_pzpr_agrees_all.

Theorem border_flags_meaning :
  forall H W rid,
    (forall y x, (y < H)%nat -> (x < W - 1)%nat ->
       nth (y * (W - 1) + x) (concat (vg H W rid)) 0 = (if rid (y, x) =? rid (y, (x + 1)%nat) then 0 else 1)) /\
    (forall y x, (y < H - 1)%nat -> (x < W)%nat ->
       nth (y * W + x) (concat (hg H W rid)) 0 = (if rid (y, x) =? rid ((y + 1)%nat, x) then 0 else 1)).
Proof. intros H W rid. split; [exact (vg_flag H W rid)|exact (hg_flag H W rid)]. Qed.
Print Assumptions border_flags_meaning.

(* heyawake: rooms in ANY order with clues -1 (none) or 0..4095: decodeBorder reads the first part of the body as
   the border flags of the partition and decodeRoomNumber16 reads the rest, entirely, as the clues of the rooms
   in pzpr's room order (by least row-major cell), each clue with its room *)
Theorem heyawake_pzpr_agrees :
  forall h w rs l,
    1 <= h -> 1 <= w -> valid_rooms h w rs -> length l = length rs -> Forall (fun v => -1 <= v <= 4095) l ->
    exists body rest,
      serialize_problem HEYAWAKE_COMBINATOR (VTup [rooms_to_pv rs; VList (map VInt l)]) h w = Ok body /\
      pzpr_decode_heyawake_borders (Z.to_nat h) (Z.to_nat w) body
        = Some (concat (vg (Z.to_nat h) (Z.to_nat w) (rid_of rs)), concat (hg (Z.to_nat h) (Z.to_nat w) (rid_of rs)), rest) /\
      pzpr_decode_room_numbers (length rs) rest = Some (map snd (by_least_cell (combine rs l))).
Proof. exact heyawake_pzpr_reads. Qed.
Print Assumptions heyawake_pzpr_agrees.

(* aquarium (legacy encoders blocks_to_block_id + encode_grid_segmentation + encode_array): decodeBorder, "/",
   decodeNumber16ExCell over the w column clues followed by the h row clues (-1 = none) *)
Theorem aquarium_pzpr_agrees :
  forall h w rs clue_row clue_col,
    1 <= h -> 1 <= w -> valid_rooms h w rs ->
    length clue_col = Z.to_nat w -> length clue_row = Z.to_nat h ->
    Forall (fun v => -1 <= v <= 4095) (clue_col ++ clue_row) ->
    exists body,
      aquarium_url h w (map (map zcell) rs) clue_row clue_col
        = Ok (aquarium_prefix ++ py_str_int w ++ slash ++ py_str_int h ++ slash ++ body) /\
      pzpr_decode_aquarium (Z.to_nat h) (Z.to_nat w) body
        = Some (concat (vg (Z.to_nat h) (Z.to_nat w) (rid_of rs)), concat (hg (Z.to_nat h) (Z.to_nat w) (rid_of rs)),
                clue_col ++ clue_row).
Proof. exact aquarium_pzpr_reads. Qed.
Print Assumptions aquarium_pzpr_agrees.

(* star battle (legacy encoder): "n/n/k/" then the border bitmap of the block-id grid of the partition *)
Theorem starbattle_pzpr_agrees :
  forall n k rs, 1 <= n -> valid_rooms n n rs ->
    exists bid text,
      blocks_to_block_id n n (map (map zcell) rs) = Ok bid /\
      starbattle_url n k bid
        = Ok (starbattle_prefix ++ py_str_int n ++ slash ++ py_str_int n ++ slash ++ py_str_int k ++ slash ++ text) /\
      pzpr_decode_rooms (Z.to_nat n) (Z.to_nat n) text
        = Some (concat (vg (Z.to_nat n) (Z.to_nat n) (rid_of rs)), concat (hg (Z.to_nat n) (Z.to_nat n) (rid_of rs))).
Proof. exact starbattle_pzpr_reads. Qed.
Print Assumptions starbattle_pzpr_agrees.

(* ------------------------------------------------------------------ the five cell-grid modules end to end *)
(* GridTotal.grid_codec_total sw dw ok pzpr: for EVERY h x w board (h, w >= 1) of ints whose cells satisfy ok,
   serialize_<p>(board) returns https://puzz.link/p?<name>/<w>/<h>/<body> (no "serialization succeeds"
   hypothesis), deserialize_<p> of that URL returns the board, and the independent pzpr decoder reads the body
   as the board.  Domains: nurikabe, nurimisaki -1..4095; masyu 0..2; slitherlink -1..4; sudoku 0..4095. *)
Theorem grid_codecs_end_to_end :
  grid_codec_total serialize_nurikabe_w deserialize_nurikabe_w nurikabe_cell_ok pzpr_decode_nurikabe /\
  grid_codec_total serialize_masyu_w deserialize_masyu_w masyu_cell_ok pzpr_decode_masyu /\
  grid_codec_total serialize_slitherlink_w deserialize_slitherlink_w slither_cell_ok pzpr_decode_slitherlink /\
  grid_codec_total serialize_sudoku_w deserialize_sudoku_w scell_ok pzpr_decode_sudoku /\
  grid_codec_total serialize_nurimisaki_w deserialize_nurimisaki_w nurimisaki_cell_ok pzpr_decode_nurimisaki.
Proof.
  pose proof generated_wrappers_consistent as (H1 & H2 & H3 & H4 & H5 & _).
  split; [|split; [|split; [|split]]].
  - exact (grid_codec_total_intro serialize_nurikabe_w deserialize_nurikabe_w _ _ _ eq_refl ltac:(vm_compute; reflexivity)
             eq_refl eq_refl H1 eq_refl ltac:(vm_compute; reflexivity) nurikabe_pzpr_agrees).
  - exact (grid_codec_total_intro serialize_masyu_w deserialize_masyu_w _ _ _ eq_refl ltac:(vm_compute; reflexivity)
             eq_refl eq_refl H2 eq_refl ltac:(vm_compute; reflexivity) masyu_pzpr_agrees).
  - exact (grid_codec_total_intro serialize_slitherlink_w deserialize_slitherlink_w _ _ _ eq_refl ltac:(vm_compute; reflexivity)
             eq_refl eq_refl H3 eq_refl ltac:(vm_compute; reflexivity) slitherlink_pzpr_agrees).
  - refine (grid_codec_total_intro serialize_sudoku_w deserialize_sudoku_w _ _ _ eq_refl ltac:(vm_compute; reflexivity)
             eq_refl eq_refl H4 eq_refl ltac:(vm_compute; reflexivity) _).
    intros rows w Hne Hw Hrect Hall. destruct (sudoku_pzpr_agrees rows w Hne Hw Hrect Hall) as (body & Hs & _ & Hd).
    exists body. split; [exact Hs|exact Hd].
  - exact (grid_codec_total_intro serialize_nurimisaki_w deserialize_nurimisaki_w _ _ _ eq_refl ltac:(vm_compute; reflexivity)
             eq_refl eq_refl H5 eq_refl ltac:(vm_compute; reflexivity) nurimisaki_pzpr_agrees).
Qed.
Print Assumptions grid_codecs_end_to_end.

(* ------------------------------------------------------------------ the hypotheses are satisfiable: instances *)
(* a 2 x 3 yajilin board with every kind of cell: "..", "??", ^0, <255, v4095 *)
Example yajilin_instance_pzpr :
  let rows := [[VStr s_dotdot; VStr s_qq; VStr (lit [94; 48]%nat)];
               [VStr (lit [60; 50; 53; 53]%nat); VStr (lit [118; 52; 48; 57; 53]%nat); VStr s_dotdot]] in
  let pb := VList (map VList rows) in
  grid_shape 2 3 pb rows /\ Forall (Forall yajilin_cell_ok) rows /\
  match run_ser_problem yajilin_custom serialize_yajilin_w pb with
  | Ok url => run_de yajilin_custom deserialize_yajilin_w url = Ok (Some pb)
  | Err _ => False
  end /\
  pzpr_decode_yajilin 2 3 (lit [97; 48; 46; 49; 48; 56; 102; 102; 45; 50; 102; 102; 102; 97]%nat) = Some pb.
Proof.
  split; [repeat split; repeat constructor|]. split; [exact (proj1 yajilin_instance)|].
  split; vm_compute; reflexivity.
Qed.

(* the 1 x 2 board in one room (RoomsProofs.canonical_1x2): legacy and combinator text, pzpr flags *)
Example rooms_instance :
  let rs := [[(0, 0); (0, 1)]%nat] in
  valid_rooms 1 2 rs /\
  blocks_to_block_id 1 2 (map (map zcell) rs) = Ok [[0; 0]] /\
  encode_grid_segmentation 1 2 [[0; 0]] = Ok ["0"%char] /\
  serialize_problem LITS_COMBINATOR (rooms_to_pv rs) 1 2 = Ok ["0"%char] /\
  pzpr_decode_rooms 1 2 ["0"%char] = Some ([0], []).
Proof. split; [exact (proj1 canonical_1x2)|]. repeat split; vm_compute; reflexivity. Qed.

(* slitherlink 2 x 4, masyu 2 x 2, nurikabe 1 x 3 with "?" *)
Example grid_instances :
  (let rows := [[-1; 3; -1; -1]; [0; -1; -1; 4]] in
   Forall (Forall slither_cell_ok) rows /\
   match serialize_problem SLITHERLINK_COMBINATOR (VList (int_rows rows)) 2 4 with
   | Ok body => pzpr_decode_slitherlink 2 4 body = Some (VList (int_rows rows)) | Err _ => False end) /\
  (let rows := [[0; 1]; [2; 2]] in
   Forall (Forall masyu_cell_ok) rows /\
   match serialize_problem MASYU_COMBINATOR (VList (int_rows rows)) 2 2 with
   | Ok body => pzpr_decode_masyu 2 2 body = Some (VList (int_rows rows)) | Err _ => False end) /\
  (let rows := [[-1; 0; 300]] in
   Forall (Forall nurikabe_cell_ok) rows /\
   match serialize_problem NURIKABE_COMBINATOR (VList (int_rows rows)) 1 3 with
   | Ok body => pzpr_decode_nurikabe 1 3 body = Some (VList (int_rows rows)) | Err _ => False end).
Proof.
  split; [|split]; (split; [repeat constructor; unfold slither_cell_ok, masyu_cell_ok, nurikabe_cell_ok; lia|vm_compute; reflexivity]).
Qed.

(* heyawake 1 x 2, one room with the clue 7: border part (one flag, no vertical borders), then the room numbers *)
Example heyawake_instance_pzpr :
  let rs := [[(0, 0); (0, 1)]%nat] in
  valid_rooms 1 2 rs /\
  serialize_problem HEYAWAKE_COMBINATOR (VTup [rooms_to_pv rs; VList (map VInt [7])]) 1 2 = Ok ["0"; "7"]%char /\
  pzpr_decode_heyawake_borders 1 2 ["0"; "7"]%char = Some ([0], [], ["7"%char]) /\
  pzpr_decode_room_numbers 1 ["7"%char] = Some (map snd (by_least_cell (combine rs [7]))).
Proof. split; [exact (proj1 canonical_1x2)|]. repeat split; vm_compute; reflexivity. Qed.
