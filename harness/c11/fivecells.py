"""C11 plug-in: fivecells (solve_fivecells(height, width, problem)); -2 hole, -1 no number, 0..4 number."""
import c11lib as L

NAME = "fivecells"
MODULE = "cspuz.puzzle.fivecells"
FUNC = "solve_fivecells"
T2_PER_FILE = 2
TIER1 = ("Fivecells", "solve_fivecells_model")


def call(mod, pb):
    return mod.solve_fivecells(pb["h"], pb["w"], pb["grid"])


def _nedges(pb):
    g, h, w = pb["grid"], pb["h"], pb["w"]
    n = 0
    for y in range(h):
        for x in range(w):
            if g[y][x] >= -1:
                if y + 1 < h and g[y + 1][x] >= -1:
                    n += 1
                if x + 1 < w and g[y][x + 1] >= -1:
                    n += 1
    return n


def ncand(pb):
    return 2 ** _nedges(pb)


def encode(pb):
    return [[pb["h"], pb["w"]], L.flat(pb["grid"])]


def _rand(rng, h, w, holes, pnum):
    cells = [(y, x) for y in range(h) for x in range(w)]
    hs = set(rng.sample(cells, holes))
    return {"h": h, "w": w, "grid": [[-2 if (y, x) in hs else (-1 if rng.random() > pnum else rng.randint(0, 4))
                                      for x in range(w)] for y in range(h)]}


def families(tier, rng):
    th = tier == "thorough"
    for (h, w, holes) in [(1, 1, 0), (1, 2, 0), (1, 5, 0), (5, 1, 0), (2, 3, 1), (3, 2, 1), (2, 2, 0), (2, 3, 0), (3, 3, 4),
                          (2, 5, 0), (5, 2, 0), (3, 4, 2), (4, 3, 2), (3, 3, 0), (1, 6, 1), (2, 6, 2)]:
        for pnum in (0.0, 0.3, 0.7):
            for _ in range(40 if th else 5):
                pb = _rand(rng, h, w, holes, pnum)
                if _nedges(pb) <= 16:
                    yield pb


def tier2(tier, rng):
    th = tier == "thorough"
    if th:
        yield _rand(rng, 2, 3, 1, 0.4)
    for (h, w, holes, k) in [(1, 1, 0, 4), (1, 5, 0, 2), (5, 1, 0, 2), (2, 2, 0, 4)]:
        for _ in range(k if th else 1):
            yield _rand(rng, h, w, holes, 0.4)


def tier1_problems(tier, rng):
    """program-capture tie: every layout of the boards with <= 2 cells over {stray hole -3, hole -2, no number -1,
    numbers 0..5 (5 and 7 lie beyond the four sides)}, samples of all layouts of the boards with 3..6 cells in both
    orientations, random larger and non-square boards up to 7x7 / 1xN / Nx1 with holes (many, few, none) and numbers
    from -4 to 7, boards without usable cells and boards without cells (ValueError in
    division_connected_variable_groups), and grids with a missing / short trailing row (IndexError in the first loop)"""
    th = tier == "thorough"
    vals = [-3, -2, -1, 0, 1, 2, 3, 4, 5]
    for (h, w) in [(1, 1), (1, 2), (2, 1)]:
        for g in L.all_grids(h, w, vals):
            yield {"h": h, "w": w, "grid": g}
    for (h, w) in [(1, 3), (3, 1), (2, 2), (1, 4), (4, 1)]:
        for g in L.sample(rng, L.all_grids(h, w, vals), 300 if th else 40):
            yield {"h": h, "w": w, "grid": g}
    for (h, w) in [(1, 5), (5, 1), (2, 3), (3, 2), (1, 6), (6, 1)]:
        for _ in range(100 if th else 16):
            yield {"h": h, "w": w, "grid": [[rng.choice(vals) for _ in range(w)] for _ in range(h)]}
    wide = [-4, -3, -2, -1, -1, -1, 0, 1, 2, 3, 4, 5, 7]
    for (h, w) in [(3, 3), (2, 5), (5, 2), (4, 4), (3, 6), (6, 5), (1, 7), (7, 1), (7, 7), (4, 7), (7, 3), (5, 5)]:
        for (holes, pnum) in [(0, 0.3), (max(1, h * w // 6), 0.5), (h * w // 2, 0.8)] * (3 if th else 1):
            yield _rand(rng, h, w, holes, pnum)
        yield {"h": h, "w": w, "grid": [[rng.choice(wide) for _ in range(w)] for _ in range(h)]}
        yield {"h": h, "w": w, "grid": [[-1] * w for _ in range(h)]}
    # no usable cell / no cell at all: int_array(0, 0, -1) raises ValueError
    for (h, w) in [(1, 1), (2, 2), (1, 4), (3, 2)]:
        yield {"h": h, "w": w, "grid": [[rng.choice([-2, -3, -7]) for _ in range(w)] for _ in range(h)]}
    for (h, w) in [(0, 0), (0, 2), (2, 0)]:
        yield {"h": h, "w": w, "grid": [[] for _ in range(h)]}
    # malformed: the grid lacks its last row or the last entry of its last row (also when no cell is usable)
    for (h, w) in [(1, 1), (1, 2), (2, 2), (2, 3), (3, 2), (4, 4)]:
        full = [[rng.choice(vals) for _ in range(w)] for _ in range(h)]
        yield {"h": h, "w": w, "grid": full[:-1]}
        yield {"h": h, "w": w, "grid": full[:-1] + [full[-1][:-1]]}
    yield {"h": 2, "w": 2, "grid": [[-2, -2], [-2]]}
    yield {"h": 1, "w": 3, "grid": [[-1, 2]]}
