(* C06: the list formulations of CycleList.v (a list of steps (e_i, v_(i+1)))
   written with two separate lists and positions:
     cycle_seq : vs = [v0 .. v(k-1)], es = [e0 .. e(k-1)], k >= 1, both without
                 repetition, e_i joins v_i and v_((i+1) mod k)
     path_seq  : vs = [v0 .. vk], es = [e0 .. e(k-1)], k >= 1, both without
                 repetition, e_i joins v_i and v_(i+1)
   and the proofs that they say the same as cycle_list / path_list. *)
From Coq Require Import List Bool Arith Lia.
From Cspuz Require Import Graph.GraphModel Graph.ReachProofs Graph.Cycle Graph.CycleList
  Graph.CycleListProofs.
Import ListNotations.
Local Open Scope nat_scope.

Definition cycle_seq (g : graph) (A : nat -> bool) : Prop :=
  exists vs es, length es = length vs /\ 1 <= length vs /\ NoDup vs /\ NoDup es /\
    (forall i, i < length vs ->
       joins g (nth i es 0) (nth i vs 0) (nth (S i mod length vs) vs 0)) /\
    covers g A es.

Definition path_seq (g : graph) (A : nat -> bool) : Prop :=
  exists vs es, length vs = S (length es) /\ 1 <= length es /\ NoDup vs /\ NoDup es /\
    (forall i, i < length es -> joins g (nth i es 0) (nth i vs 0) (nth (S i) vs 0)) /\
    covers g A es.

(* ------------------------------------------------------------------------ *)

Lemma chain_idx g : forall l x t,
  chain g x l t <->
  ((forall i, i < length l ->
      joins g (nth i (map fst l) 0) (nth i (x :: map snd l) 0) (nth (S i) (x :: map snd l) 0)) /\
   nth (length l) (x :: map snd l) 0 = t).
Proof.
  induction l as [|[e v] r IH]; intros x t.
  - simpl. split; [intros ->; split; [intros i Hi; lia|reflexivity]|intros [_ H]; exact H].
  - change (chain g x ((e, v) :: r) t) with (joins g e x v /\ chain g v r t).
    rewrite (IH v t). split.
    + intros [Hj [H1 H2]]. split; [|exact H2].
      intros [|i] Hi; [exact Hj|]. apply (H1 i). simpl in Hi. lia.
    + intros [H1 H2]. split; [apply (H1 0); simpl; lia|]. split; [|exact H2].
      intros i Hi. apply (H1 (S i)). simpl. lia.
Qed.

Lemma map_fst_combine {A B} : forall (a : list A) (b : list B),
  length a = length b -> map fst (combine a b) = a.
Proof.
  induction a as [|x a IH]; intros [|y b] H; try discriminate; [reflexivity|].
  simpl. rewrite IH by (simpl in H; lia). reflexivity.
Qed.

Lemma map_snd_combine {A B} : forall (a : list A) (b : list B),
  length a = length b -> map snd (combine a b) = b.
Proof.
  induction a as [|x a IH]; intros [|y b] H; try discriminate; [reflexivity|].
  simpl. rewrite IH by (simpl in H; lia). reflexivity.
Qed.

Lemma combine_nonempty {A B} (a : list A) (b : list B) :
  1 <= length a -> length a = length b -> combine a b <> [].
Proof. destruct a, b; simpl; intros; try lia; discriminate. Qed.

(* positions in [v0 .. v(k-1)] ++ [v0] *)
Lemma nth_cyc v0 vs' i :
  let vs := v0 :: vs' in
  i < length vs ->
  nth i (vs ++ [v0]) 0 = nth i vs 0 /\ nth (S i) (vs ++ [v0]) 0 = nth (S i mod length vs) vs 0.
Proof.
  intros vs Hi. split; [apply app_nth1; exact Hi|].
  destruct (Nat.eq_dec (S i) (length vs)) as [E|E].
  - rewrite E, Nat.mod_same by (simpl; lia). rewrite app_nth2, Nat.sub_diag by lia. reflexivity.
  - rewrite Nat.mod_small by lia. apply app_nth1. lia.
Qed.

Theorem path_list_seq g A : path_list g A <-> path_seq g A.
Proof.
  split.
  - intros [x [l [t [Hne [Hc [Hnd [Hnde Hcov]]]]]]].
    exists (x :: map snd l), (map fst l). simpl. rewrite !map_length.
    split; [reflexivity|]. split; [destruct l; [contradiction|simpl; lia]|].
    split; [exact Hnd|]. split; [exact Hnde|]. split; [|exact Hcov].
    apply (chain_idx g l x t). exact Hc.
  - intros [vs [es [Hlen [Hk [Hnd [Hnde [Hj Hcov]]]]]]].
    destruct vs as [|x vs']; [discriminate|]. simpl in Hlen.
    assert (Hl : length es = length vs') by lia.
    exists x, (combine es vs'), (nth (length es) (x :: vs') 0).
    rewrite (map_fst_combine es vs' Hl), (map_snd_combine es vs' Hl).
    split; [apply combine_nonempty; assumption|]. split; [|auto].
    apply chain_idx. rewrite (map_fst_combine es vs' Hl), (map_snd_combine es vs' Hl).
    rewrite combine_length, <- Hl, Nat.min_id. split; [exact Hj|reflexivity].
Qed.

Theorem cycle_list_seq g A : cycle_list g A <-> cycle_seq g A.
Proof.
  split.
  - intros [v0 [l [Hne [Hc [Hnd [Hnde Hcov]]]]]].
    destruct (exists_last Hne) as [l' [p Hl]].
    pose proof (proj1 (chain_idx g l v0 v0) Hc) as [Hj Hlast].
    assert (Hsnd : map snd l = map snd l' ++ [snd p]) by (rewrite Hl, map_app; reflexivity).
    assert (Hlen : length l = S (length l')) by (rewrite Hl, app_length; simpl; lia).
    assert (Hp : snd p = v0).
    { rewrite Hsnd, Hlen in Hlast. simpl in Hlast.
      rewrite app_nth2 in Hlast by (rewrite map_length; lia).
      rewrite map_length, Nat.sub_diag in Hlast. exact Hlast. }
    rewrite Hp in Hsnd.
    exists (v0 :: map snd l'), (map fst l). simpl length. rewrite !map_length.
    split; [exact Hlen|]. split; [lia|]. split.
    { rewrite Hsnd in Hnd. constructor.
      - pose proof (NoDup_remove_2 _ _ _ Hnd) as H. rewrite app_nil_r in H. exact H.
      - pose proof (NoDup_remove_1 _ _ _ Hnd) as H. rewrite app_nil_r in H. exact H. }
    split; [exact Hnde|]. split; [|exact Hcov].
    intros i Hi. specialize (Hj i). rewrite Hlen in Hj. specialize (Hj Hi).
    assert (Hi' : i < length (v0 :: map snd l')) by (simpl; rewrite map_length; exact Hi).
    destruct (nth_cyc v0 (map snd l') i Hi') as [E1 E2].
    assert (Hvs : v0 :: map snd l = (v0 :: map snd l') ++ [v0]) by (rewrite Hsnd; reflexivity).
    rewrite Hvs, E1, E2 in Hj. simpl length in Hj. rewrite map_length in Hj. exact Hj.
  - intros [vs [es [Hlen [Hk [Hnd [Hnde [Hj Hcov]]]]]]].
    destruct vs as [|v0 vs']; [simpl in Hk; lia|].
    assert (Hl : length es = length (vs' ++ [v0])) by (rewrite app_length; simpl in *; lia).
    exists v0, (combine es (vs' ++ [v0])).
    rewrite (map_fst_combine _ _ Hl), (map_snd_combine _ _ Hl).
    split; [apply combine_nonempty; [rewrite Hlen; exact Hk|exact Hl]|].
    split.
    { apply chain_idx. rewrite (map_fst_combine _ _ Hl), (map_snd_combine _ _ Hl).
      rewrite combine_length, <- Hl, Nat.min_id.
      change (v0 :: vs' ++ [v0]) with ((v0 :: vs') ++ [v0]). split.
      - intros i Hi. rewrite Hlen in Hi. destruct (nth_cyc v0 vs' i Hi) as [E1 E2].
        rewrite E1, E2. apply Hj. exact Hi.
      - rewrite Hlen. rewrite app_nth2, Nat.sub_diag by lia. reflexivity. }
    split; [|auto]. inversion Hnd; subst. apply NoDup_snoc; assumption.
Qed.

(* the specification of Graph/Cycle.v in the positional form *)
Theorem single_cycle_seq g A :
  wf_graph g = true -> (single_cycle g A <-> (no_active g A \/ cycle_seq g A)).
Proof. intros Hwf. rewrite (single_cycle_list g A Hwf), cycle_list_seq. reflexivity. Qed.

Theorem single_path_seq g A :
  wf_graph g = true -> (single_path g A <-> (no_active g A \/ path_seq g A)).
Proof. intros Hwf. rewrite (single_path_list g A Hwf), path_list_seq. reflexivity. Qed.

Theorem cycle_seq_iff g A :
  wf_graph g = true -> (exists k, k < length (edges g) /\ A k = true) ->
  (((forall v, v < nv g -> degree g A v = 0 \/ degree g A v = 2) /\ edge_connected g A)
   <-> cycle_seq g A).
Proof. intros Hwf Hne. rewrite (cycle_list_iff g A Hwf Hne). apply cycle_list_seq. Qed.

Theorem path_seq_iff g A :
  wf_graph g = true ->
  (((forall v, v < nv g -> degree g A v <= 2) /\ edge_connected g A /\ num_deg1 g A = 2)
   <-> path_seq g A).
Proof. intros Hwf. rewrite <- path_list_seq. apply (path_list_iff g A Hwf). Qed.

(* ------------------------------------------------------------------------ *)
(* the formulations are satisfiable: a self-loop, two parallel edges, a
   triangle with a pendant inactive edge; a two-edge path                     *)

Example cycle_seq_loop :
  cycle_seq {| nv := 2; edges := [(0, 1); (1, 1)] |} (fun k => Nat.eqb k 1).
Proof.
  exists [1], [1]. simpl. split; [reflexivity|]. split; [lia|].
  split; [constructor; [intros []|constructor]|]. split; [constructor; [intros []|constructor]|].
  split.
  - intros i Hi. assert (i = 0) by lia. subst. left. reflexivity.
  - intros e He. destruct e as [|[|e]]; simpl; split; intros H; try discriminate; try lia; auto;
      try (destruct H as [H|[]]; discriminate).
Qed.

Example cycle_seq_parallel :
  cycle_seq {| nv := 2; edges := [(0, 1); (1, 0)] |} (fun _ => true).
Proof.
  exists [0; 1], [0; 1]. simpl. split; [reflexivity|]. split; [lia|].
  assert (Hnd : NoDup [0; 1]).
  { constructor; [intros [H|[]]; discriminate|constructor; [intros []|constructor]]. }
  split; [exact Hnd|]. split; [exact Hnd|]. split.
  - intros i Hi. destruct i as [|[|i]]; [left; reflexivity|left; reflexivity|lia].
  - intros e He. destruct e as [|[|e]]; simpl in *; split; intros _; auto; lia.
Qed.

Example path_seq_two :
  path_seq {| nv := 3; edges := [(1, 0); (1, 2); (0, 2)] |} (fun k => Nat.ltb k 2).
Proof.
  exists [0; 1; 2], [0; 1]. simpl. split; [reflexivity|]. split; [lia|].
  split.
  { constructor; [intros [H|[H|[]]]; discriminate|].
    constructor; [intros [H|[]]; discriminate|constructor; [intros []|constructor]]. }
  split.
  { constructor; [intros [H|[]]; discriminate|constructor; [intros []|constructor]]. }
  split.
  - intros i Hi. destruct i as [|[|i]]; [right; reflexivity|left; reflexivity|lia].
  - intros e He. destruct e as [|[|[|e]]]; simpl in *; split; intros H; auto; try discriminate; try lia;
      try (destruct H as [H|[H|[]]]; discriminate).
Qed.
