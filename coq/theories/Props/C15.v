From Coq Require Import List.
Theorem c15_stub : forall (A : Type) (l : list A), l ++ nil = l.
Proof. intros; apply app_nil_r. Qed.
Print Assumptions c15_stub.
