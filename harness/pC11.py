"""C11 - bundled puzzle solvers agree with the puzzles' published rules.

Framework with per-puzzle plug-ins (harness/c11/<puzzle>.py, coq/theories/Puzzle/Rules_<puzzle>.v);
see harness/c11lib.py for the plug-in interface."""
import multiprocessing
import os
import random
import subprocess
import time

import vlib

PROPS = "Props/C11.v"
RULE = ("search: for every problem of each plug-in's family (all clue layouts on the tiniest boards, samples on "
        "slightly larger and non-square ones, edge clues, zero clues) the real solve_<p> is run with a recording "
        "Solver substituted in its module; the set of answer-array assignments admitted by the really posted "
        "program (z3 through an independent translation of the captured trees) and the (is_sat, decided cells) "
        "it reports are compared with the enumeration of all candidate grids under the extracted Coq rule "
        "specification rules_<p>.  A case is one problem instance; it is non-trivial when distinct.  "
        "Tier 2: per instance the captured program is emitted as a Coq term and the kernel checks "
        "sat_abs(program, answer) = rules_<p>(problem, answer) for every candidate answer (vm_compute).  "
        "Big-board search (plug-in generator `big`): long thin boards (1xN / 2xN / Nx1, N in 19..25), multi-digit clue values "
        "and 5x5 / 4x6 room boards, too large for the candidate enumeration: every grid admitted by the really posted "
        "program (z3, capped) is checked against rules_<p>, and grids constructed by the generator (checked against "
        "rules_<p>) must be admitted.  "
        "Tier 1 tie (P), for every plug-in with a TIER1 attribute (@T1@): the program captured from the real solve_<p> (declarations, answer keys, constraints as a "
        "multiset) = the program of the Coq model solve_<p>_model, on every problem of tier1_problems (all tiny boards, "
        "random larger and non-square ones, malformed inputs that raise).")
TRUSTED = [
    "the executable rule specifications coq/theories/Puzzle/Rules_<p>.v (written from the published rules quoted in each file header) and the candidate-answer lists answers_<p>",
    "z3 (search only) deciding the captured programs through harness/c11lib.py::to_z3 (independent of cspuz.backend.z3)",
    "capture harness: RecSolver substituted for `Solver` in the puzzle module; calls into cspuz.graph are left as they are (their non-primitive encodings are ordinary constraints of the captured program)",
    "Core/Expr.v eval as the meaning of posted constraints",
]
ASSUMPTIONS = [
    "Tier 2 and search are bounded by the instance families listed in evidence (tiny boards); unbounded statements exist only for the Tier-1 modules (@T1@)",
    "aquarium Tier 1: every tank (region) is orthogonally connected; creek / nurimisaki / heyawake / view Tier 1 compose with property C04 (Graph/Avc.v::post_avc is the model of graph.active_vertices_connected, tied to the Python by C04's own check), gokigen with C09 (Graph/Acyclic.v::post_acyclic), slitherlink with C06 (Graph/Cycle*.v::active_edges_single_cycle on a frame), nurikabe with C05 (Graph/Division.v::division_connected)",
    "Solver.solve derives (is_sat, decided cells) from the posted program as property C02 states; backends decide programs correctly (C01)",
    "well-formed problems: regions partition the board into orthogonally connected sets, clue values within the module's documented alphabet",
]

def _tier1_names():
    import glob, re as _re
    out = []
    for f in sorted(glob.glob(os.path.join(os.path.dirname(os.path.abspath(__file__)), "c11", "*.py"))):
        if not os.path.basename(f).startswith("_") and _re.search(r"^TIER1\s*=", open(f).read(), flags=_re.M):
            out.append(os.path.basename(f)[:-3])
    # a module counts as Tier 1 when its full theorem C11_<p>_exact is stated in Props/C11.v (a model that is tied
    # but whose theorem is partial does not)
    props = open(os.path.join(vlib.THEORIES, "Props", "C11.v")).read()
    return [n for n in out if _re.search(r"^Theorem C11_%s_exact\b" % n, props, flags=_re.M)]


_T1 = ", ".join(_tier1_names())
RULE = RULE.replace("@T1@", _T1)
ASSUMPTIONS = [a.replace("@T1@", _T1) for a in ASSUMPTIONS]

T2_TIMEOUT = 240
# outside coq/theories: never part of the global make; git-ignored; a private repo copy gets its own directory
T2DIR = os.path.join(vlib.ROOT, "work", "C11" + ("" if vlib.REPO == "/repo" else "_" + vlib.REPO.strip("/").replace("/", "_")))


def _lib():
    import c11lib
    return c11lib


def translate(ctx):
    L = _lib()
    ctx._plugs = L.plugins()
    ctx._names = L.write_runner_sources(ctx._plugs)


def _plugs(ctx):
    if not hasattr(ctx, "_plugs"):
        translate(ctx)
    only = os.environ.get("C11_ONLY")
    ps = ctx._plugs
    if only:
        ps = [p for p in ps if p.NAME in only.split(",")]
    return ps


# ---------------------------------------------------------------- Tier 2: generated kernel-checked obligations

def generated_obligations(ctx, proof, broken):
    global T2DIR
    if ctx.thorough and not os.environ.get("C11_ONLY"):
        # independent re-check by kernel computation of the planarity statement behind yinyang's auxiliary constraints
        # (Puzzle/YinyangBounded.v: all boards with h*w <= 12, and h, w >= 2 with h*w <= 16; ~2 min; not in the closure
        # of Props/C11.v, whose C11_yinyang_aux_implied is the unbounded theorem)
        proof["generated_obligations"] = proof.get("generated_obligations", 0) + 1
        with vlib.Lock():
            rc, out = vlib.coq_make(["theories/Puzzle/YinyangBounded.vo"], timeout=1500)
        if rc != 0:
            broken.append(("proof:yinyang_aux_implied_bounded", out[-2000:]))
        else:
            proof["generated_discharged"] = proof.get("generated_discharged", 0) + 1
            ctx.note("thorough: yinyang_aux_implied_bounded_12 / _16 rebuilt / up to date")
    if ctx.thorough and not T2DIR.endswith("_thorough"):
        T2DIR = T2DIR + "_thorough"      # the two tiers keep separate compiled caches
    L = _lib()
    plugs = _plugs(ctx)
    files = []
    total = 0
    skipped = []
    known_keys = {k["key"] for k in vlib.load_known("C11")[0]}
    for p in plugs:
        rng = random.Random("%s/%s/t2" % (ctx.seed, p.NAME))
        insts = list(p.tier2(ctx.tier, rng)) if hasattr(p, "tier2") else []
        per_file = getattr(p, "T2_PER_FILE", 6)
        chunk, k, idx = [], 0, 0
        for pb in insts:
            if hasattr(p, "classify") and p.classify(pb, "tier2") in known_keys:
                # the instance lies in a class recorded in KNOWN_FINDINGS.txt: no obligation is stated for it
                ctx.count("tier2-excluded-known:" + p.NAME)
                continue
            st, txt = L.tier2_instance(p, pb, idx)
            if st != "ok":
                skipped.append("%s:%s" % (p.NAME, txt))
                continue
            idx += 1
            chunk.append(txt)
            if len(chunk) >= per_file:
                files.append((p.NAME, k, chunk))
                chunk, k = [], k + 1
        if chunk:
            files.append((p.NAME, k, chunk))
        ctx.count("tier2-instances:" + p.NAME, idx)
    wanted = set()
    todo = []
    os.makedirs(T2DIR, exist_ok=True)
    with vlib.Lock():
        deps = ["theories/Puzzle/SatAbs.vo"] + ["theories/Puzzle/Rules_%s.vo" % p.NAME for p in plugs]
        rc, out = vlib.coq_make(deps)
        if rc != 0:
            broken.append(("tier2-deps", out[-2000:]))
            return
    for (name, k, chunk) in files:
        fn = "C11_%s_%d.v" % (name, k)
        wanted.add(fn)
        path = os.path.join(T2DIR, fn)
        vlib.write_if_changed(path, L.tier2_header(name) + "\n\n".join(chunk) + "\n")
        total += len(chunk)
        vo = path[:-2] + ".vo"
        depm = max(os.path.getmtime(os.path.join(vlib.COQ, d)) for d in
                   ["theories/Puzzle/SatAbs.vo", "theories/Puzzle/Rules_%s.vo" % name])
        if not (os.path.exists(vo) and os.path.getmtime(vo) > max(os.path.getmtime(path), depm)):
            todo.append(fn)
    running = tuple("C11_%s_" % p.NAME for p in plugs)
    for f in os.listdir(T2DIR):
        if f.startswith(running) and f.split(".")[0] + ".v" not in wanted:
            os.remove(os.path.join(T2DIR, f))
    for fn in sorted(wanted):
        with open(os.path.join(T2DIR, fn)) as fh:
            if vlib.FORBIDDEN.search(fh.read()):
                broken.append(("forbidden-constructs", "work/C11/" + fn))
    failed = {}
    if todo:
        cmd = ("printf '%s\\n' " + " ".join(todo) +
               " | xargs -P16 -I{} sh -c 'S=$(date +%%s); timeout %d coqc -q -Q theories Cspuz -Q %s C11Gen %s/{} > %s/{}.log 2>&1 || echo FAILED {}; "
               "echo $(( $(date +%%s) - S )) > %s/{}.time'" % (T2_TIMEOUT, T2DIR, T2DIR, T2DIR, T2DIR))
        rc, out = vlib.sh(cmd, cwd=vlib.COQ, timeout=T2_TIMEOUT * (1 + len(todo) // 16) + 60)
        for line in out.split("\n"):
            if line.startswith("FAILED"):
                fn = line.split()[1]
                try:
                    failed[fn] = open(os.path.join(T2DIR, fn + ".log")).read()[-600:]
                except OSError:
                    failed[fn] = "?"
    discharged = 0
    for (name, k, chunk) in files:
        fn = "C11_%s_%d.v" % (name, k)
        if fn not in failed and os.path.exists(os.path.join(T2DIR, fn[:-2] + ".vo")):
            discharged += len(chunk)
    proof["generated_obligations"] = total
    proof["generated_discharged"] = discharged
    times = []
    for fn in wanted:
        try:
            times.append((int(open(os.path.join(T2DIR, fn + ".time")).read().strip()), fn))
        except (OSError, ValueError):
            pass
    if times:
        ctx.note("tier2: slowest generated files (s): %s" % sorted(times, reverse=True)[:4])
    ctx.note("tier2: %d instance goals in %d files, %d discharged, %d recompiled this run, skipped: %s" % (
        total, len(files), discharged, len(todo), skipped[:5]))
    if failed:
        ctx._t2_failed = failed
        broken.append(("tier2-kernel-check", {k: v for k, v in list(failed.items())[:4]}))


# ---------------------------------------------------------------- correspondence (Tier-1 program capture)

def correspond(ctx):
    try:
        import c11_tier1
    except ImportError:
        return
    c11_tier1.correspond(ctx)


# ---------------------------------------------------------------- search

_RUNNER = None
_PLUG = {}


class Runner:
    def __init__(self, path):
        self.p = subprocess.Popen([path], stdin=subprocess.PIPE, stdout=subprocess.PIPE, text=True, bufsize=1)

    def call(self, line):
        self.p.stdin.write(line + "\n")
        self.p.stdin.flush()
        r = self.p.stdout.readline()
        if r == "":
            raise RuntimeError("runner died on " + line[:200])
        return r.rstrip("\n")


def _work(args):
    global _RUNNER
    path, items, maxans = args
    L = _lib()
    if _RUNNER is None:
        _RUNNER = Runner(path)
        for p in L.plugins():
            _PLUG[p.NAME] = p
    out = []
    for (name, pb, real) in items:
        p = _PLUG[name]
        t0 = time.time()
        try:
            if isinstance(pb, dict) and pb.get("_big"):
                r = L.big_case(p, pb, _RUNNER)
            else:
                r = L.search_case(p, pb, _RUNNER, maxans)
        except Exception as ex:  # noqa
            import traceback
            r = {"status": "harness", "why": traceback.format_exc()[-800:]}
        if real and r.get("status") == "ok":
            try:
                rr = L.real_case(p, pb)
                r["real"] = rr
            except Exception as ex:  # noqa
                r["real"] = ("err", type(ex).__name__)
        r["t"] = time.time() - t0
        out.append((name, pb, r))
    return out


def _key(p, pb, what):
    k = p.classify(pb, what) if hasattr(p, "classify") else None
    if k:
        return k
    L = _lib()
    return "%s:%s" % (p.NAME, L.pb_tokens(p.encode(pb)).replace(" ", ""))


def search(ctx):
    L = _lib()
    plugs = _plugs(ctx)
    runner = vlib.build_runner("C11")
    items = []
    for p in plugs:
        rng = random.Random("%s/%s/search" % (ctx.seed, p.NAME))
        fam = list(p.families(ctx.tier, rng))
        ctx.count("family:" + p.NAME, len(fam))
        for i, pb in enumerate(fam):
            items.append((p.NAME, pb, i % 7 == 0))
        if hasattr(p, "big"):
            rngb = random.Random("%s/%s/big" % (ctx.seed, p.NAME))
            bigs = list(p.big(ctx.tier, rngb))
            ctx.count("bigfamily:" + p.NAME, len(bigs))
            for pb in bigs:
                pb = dict(pb)
                pb["_big"] = True
                items.append((p.NAME, pb, False))
    random.Random(ctx.seed).shuffle(items)
    maxans = 300000 if ctx.thorough else 70000
    # the potentially long cases (big boards; candidate enumerations of 2^14 grids and more) go first, one per chunk, so
    # that no worker is left with several of them at the end
    def heavy(it):
        name, pb, _ = it
        if isinstance(pb, dict) and pb.get("_big"):
            return True
        try:
            return byname_all[name].ncand(pb) >= 16000
        except Exception:  # noqa
            return False
    byname_all = {p.NAME: p for p in plugs}
    hv = [it for it in items if heavy(it)]
    rest = [it for it in items if not heavy(it)]
    nchunk = max(1, min(len(rest), 16 * 8))
    chunks = [(runner, [it], maxans) for it in hv] + [(runner, rest[i::nchunk], maxans) for i in range(nchunk)]
    byname = {p.NAME: p for p in plugs}
    stats = {}
    mpctx = multiprocessing.get_context("fork")
    with mpctx.Pool(16) as pool:
        for res in pool.imap_unordered(_work, chunks):
            for (name, pb, r) in res:
                p = byname[name]
                st = stats.setdefault(name, {"ok": 0, "violation": 0, "harness": 0, "skipped": 0, "t": 0.0, "real_diff": 0})
                st[r["status"]] += 1
                st["t"] += r.get("t", 0)
                if r.get("t", 0) > st.get("tmax", 0):
                    st["tmax"] = r.get("t", 0)
                tok = L.pb_tokens(p.encode(pb)) if r["status"] != "harness" else repr(pb)[:200]
                if r["status"] == "ok":
                    ctx.prop_case(name, tok, nontrivial=True)
                    if "real" in r and r["real"] != r["view"]:
                        # the unmodified pipeline (real Solver + configured backend) disagrees although the
                        # posted program is right: a backend-level defect (properties C01/C02), not C11
                        st["real_diff"] += 1
                        if st["real_diff"] <= 2:
                            ctx.note("real-backend discrepancy (posted program agrees with the rules; see C01): %s %s -> %r, expected %r" % (
                                name, tok, r["real"], r["view"]))
                elif r["status"] == "violation":
                    ctx.prop_case(name, tok, nontrivial=True)
                    ctx.violation(_key(p, pb, r["what"]), "solve_%s: %s" % (name, r["what"]),
                                  {"puzzle": name, "problem": {k: v for k, v in pb.items() if k != "planted"} if isinstance(pb, dict) else pb,
                                   "planted": pb.get("planted") if isinstance(pb, dict) else None, "expected": r.get("expected"), "observed": r.get("observed"),
                                   "admitted_but_breaking_rules": r.get("admitted_but_breaking_rules"),
                                   "obeying_rules_but_rejected": r.get("obeying_rules_but_rejected")})
                elif r["status"] == "harness":
                    ctx.mismatches.append({"kind": "search-harness:" + name, "input": repr(pb)[:300], "model": r.get("why"), "impl": None})
                else:
                    ctx.count("skipped:" + name)
    if ctx.deep:
        _deep_search(ctx, plugs)
    for name, st in sorted(stats.items()):
        ctx.note("search %s: %d agree, %d violations, %d skipped, %d harness errors, %.0fs cpu (slowest case %.0fs)" % (
            name, st["ok"], st["violation"], st["skipped"], st["harness"], st["t"], st.get("tmax", 0)))


def _deep_worker(q, names, tier, seed, runner):
    L = _lib()
    m = Runner(runner)
    for p in L.plugins():
        if p.NAME not in names or not getattr(p, "TIER1", None):
            continue
        rng = random.Random("%s/%s/t1" % (seed, p.NAME))
        for pb in list(p.tier1_problems(tier, rng))[:60]:
            r, insts = L.run_recorded(p, pb, "capture")
            if r[0] == "err" or len(insts) != 1 or len(insts[0].variables) > 120:
                continue
            sv = insts[0]
            aids = [v.id for v in L.flat_vars(L.answer_arrays(p, r[1]))]
            tok = L.pb_tokens(p.encode(pb))
            sols = L.all_key_solutions(sv, aids, 4, timeout_ms=2000)
            bad = None
            for s in sols:
                ans = " ".join(str(int(v)) for v in s)
                if m.call("R %s %s | %s" % (p.NAME, tok, ans)) == "0":
                    bad = list(map(int, s))
                    break
            q.put((p.NAME, pb, tok, bad))
    q.put(None)


def _deep_search(ctx, plugs):
    """a proof obligation or tie broke: also look at the boards of the Tier-1 tie, which are too large to
    enumerate - take some models of the really posted program (z3) and ask the rules about each of them.
    Runs in a child process under a hard 60 s limit."""
    runner = vlib.build_runner("C11")
    mp = multiprocessing.get_context("fork")
    q = mp.Queue()
    pr = mp.Process(target=_deep_worker, args=(q, [p.NAME for p in plugs], ctx.tier, ctx.seed, runner))
    pr.start()
    byname = {p.NAME: p for p in plugs}
    deadline = time.time() + 60
    while time.time() < deadline:
        try:
            item = q.get(timeout=max(0.1, deadline - time.time()))
        except Exception:  # noqa
            break
        if item is None:
            break
        name, pb, tok, bad = item
        ctx.prop_case("deep:" + name, tok)
        if bad is not None:
            ctx.violation(_key(byname[name], pb, "deep"), "solve_%s: the solver admits a grid that breaks the rules" % name,
                          {"puzzle": name, "problem": pb, "admitted_but_breaking_rules": [bad]})
    pr.terminate()


def broken_explained_by_known(b, seen_known):
    return False


def replay(ctx, rp):
    L = _lib()
    v = rp.get("violation", {}).get("detail", {})
    print(rp)
    if not v or "puzzle" not in v:
        return 0
    translate(ctx)
    p = [q for q in ctx._plugs if q.NAME == v["puzzle"]][0]
    m = ctx.model("C11")
    pbv = v["problem"]
    if isinstance(pbv, dict) and pbv.get("_big"):
        pbv = dict(pbv)
        if v.get("planted"):
            pbv["planted"] = v["planted"]
        r = L.big_case(p, pbv, m)
    else:
        r = L.search_case(p, pbv, m)
    print(r)
    return 1 if r["status"] == "violation" else 0
