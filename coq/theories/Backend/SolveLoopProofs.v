(* C02: the refute-and-resolve loop of Solver.solve computes exactly the facts
   common to all solutions, never runs out of the fuel S(#keys), for any backend
   whose solve() is sound and complete for the constraints it was given. *)
From Coq Require Import ZArith List Bool Lia.
From Cspuz Require Import Lib.PyErr Core.Expr Core.Program Backend.Z3 Backend.ExprFacts
  Backend.Z3SolveProofs Backend.SolveLoop.
Import ListNotations.
Open Scope Z_scope.

Definition value_eqb (a b : value) : bool :=
  match a, b with
  | VB x, VB y => Bool.eqb x y
  | VI x, VI y => x =? y
  | _, _ => false
  end.

Lemma value_eqb_eq a b : value_eqb a b = true <-> a = b.
Proof.
  destruct a, b; simpl; split; intros H; try discriminate; try (inversion H; subst).
  - apply eqb_prop in H; subst; reflexivity.
  - apply eqb_reflx.
  - apply Z.eqb_eq in H; subst; reflexivity.
  - apply Z.eqb_refl.
Qed.

Lemma py_value_neq_refl v : py_value_neq v v = false.
Proof. unfold py_value_neq; rewrite Z.eqb_refl; reflexivity. Qed.

(* on values of one type Python's != is inequality *)
Lemma py_value_neq_typed d a b : val_typed d a -> val_typed d b -> py_value_neq a b = negb (value_eqb a b).
Proof.
  destruct d, a, b; simpl; intros Ha Hb; try contradiction; unfold py_value_neq; simpl; try reflexivity.
  destruct b0, b; reflexivity.
Qed.

(* ---- the refuting clause --------------------------------------------------- *)
(* "the assignment agrees with every candidate that is still there" *)
Fixpoint agrees_from (en : env) (i : nat) (vs : list vdecl) (ks : list bool) (ans : list (option value)) : bool :=
  match vs, ks, ans with
  | d :: vr, k :: kr, a :: ar =>
      (match k, a with
       | true, Some v => value_eqb (val_of en d i) v
       | _, _ => true
       end) && agrees_from en (S i) vr kr ar
  | _, _, _ => true
  end.

Lemma ne_expr_eval en i d v :
  eval no_graph en (ne_expr i d v) = Some (VB (negb (value_eqb (val_of en d i) v))).
Proof.
  destruct d, v; simpl; try reflexivity.
  - destruct (eb en i), b; reflexivity.
Qed.

Lemma diff_eval en : forall vs i ks ans,
  exists bs, map (eval no_graph en) (diff_from i vs ks ans) = map Some (map VB bs) /\
             existsb (fun b => b) bs = negb (agrees_from en i vs ks ans).
Proof.
  induction vs as [|d vs IH]; intros i ks ans; simpl.
  - exists []; split; reflexivity.
  - destruct ks as [|k ks]; [exists []; split; reflexivity|].
    destruct ans as [|a ans]; [exists []; split; reflexivity|].
    destruct (IH (S i) ks ans) as [bs [E X]].
    destruct k; [destruct a as [v|]|]; simpl.
    + exists (negb (value_eqb (val_of en d i) v) :: bs); simpl.
      rewrite ne_expr_eval, E, X. split; [reflexivity|].
      destruct (value_eqb (val_of en d i) v); reflexivity.
    + exists bs; split; assumption.
    + exists bs; split; assumption.
Qed.

Lemma clause_sem en vs ks ans :
  holds no_graph en (refuting_clause vs ks ans) = negb (agrees_from en O vs ks ans).
Proof.
  unfold holds, refuting_clause; simpl.
  destruct (diff_eval en vs O ks ans) as [bs [E X]].
  rewrite E. unfold eval_bop. rewrite all_some_map_some, as_bools_VB. simpl. rewrite X.
  destruct (agrees_from en 0 vs ks ans); reflexivity.
Qed.

Lemma ne_expr_wf vs i d v : nth_error vs i = Some d -> wt true (ne_expr i d v) && refs_ok vs (ne_expr i d v) = true.
Proof. intros N; destruct d, v; simpl; rewrite ?N, ?Z.eqb_refl; reflexivity. Qed.

Lemma diff_wf vs : forall vs' i ks ans,
  (forall j d, nth_error vs' j = Some d -> nth_error vs (i + j) = Some d) ->
  forallb (fun e => wt true e && refs_ok vs e) (diff_from i vs' ks ans) = true.
Proof.
  induction vs' as [|d vs' IH]; intros i ks ans H; simpl; [reflexivity|].
  destruct ks as [|k ks]; [reflexivity|]. destruct ans as [|a ans]; [reflexivity|].
  assert (Hn : forall j d0, nth_error vs' j = Some d0 -> nth_error vs (S i + j) = Some d0).
  { intros j d0 Hj. replace (S i + j)%nat with (i + S j)%nat by lia. apply H; exact Hj. }
  pose proof (H O d eq_refl) as H0; rewrite Nat.add_0_r in H0.
  destruct k; [destruct a|]; simpl; rewrite ?(ne_expr_wf vs i d _ H0); apply IH; exact Hn.
Qed.

Lemma clause_wf vs ks ans : wf_cons vs [refuting_clause vs ks ans].
Proof.
  unfold wf_cons, refuting_clause; simpl. rewrite andb_true_r.
  pose proof (diff_wf vs vs O ks ans (fun j d H => H)) as H.
  assert (H1 : forallb (wt true) (diff_from 0 vs ks ans) = true /\ forallb (refs_ok vs) (diff_from 0 vs ks ans) = true).
  { induction (diff_from 0 vs ks ans) as [|e l IHl]; simpl in *; [split; reflexivity|].
    apply andb_prop in H; destruct H as [He H]. apply andb_prop in He; destruct He as [W R].
    destruct (IHl H) as [A B]. rewrite W, R, A, B; split; reflexivity. }
  destruct H1 as [A B]; rewrite A, B; reflexivity.
Qed.

(* ---- list facts ------------------------------------------------------------- *)
Lemma agrees_from_nth en : forall vs i ks ans, agrees_from en i vs ks ans = true ->
  forall j d v, nth_error vs j = Some d -> nth_error ks j = Some true -> nth_error ans j = Some (Some v) ->
  val_of en d (i + j) = v.
Proof.
  induction vs as [|d0 vs IH]; intros i ks ans A j d v Nv Nk Na; [destruct j; discriminate|].
  destruct ks as [|k ks]; [destruct j; discriminate|]. destruct ans as [|a ans]; [destruct j; discriminate|].
  simpl in A. apply andb_prop in A; destruct A as [A0 A].
  destruct j as [|j]; simpl in *.
  - inversion Nv; inversion Nk; inversion Na; subst. rewrite Nat.add_0_r. apply value_eqb_eq; exact A0.
  - replace (i + S j)%nat with (S i + j)%nat by lia. eapply IH; eassumption.
Qed.

Lemma demote_length : forall ks ans s, length (demote ks ans s) = length ans.
Proof.
  induction ks as [|k ks IH]; intros ans s; simpl; [reflexivity|].
  destruct ans as [|a ans]; [reflexivity|]. destruct s as [|v s]; [reflexivity|]. simpl; rewrite IH; reflexivity.
Qed.

Lemma demote_nth : forall ks ans s j k a v,
  nth_error ks j = Some k -> nth_error ans j = Some a -> nth_error s j = Some v ->
  nth_error (demote ks ans s) j =
    Some (match k, a with true, Some w => if py_value_neq w v then None else Some w | _, _ => a end).
Proof.
  induction ks as [|k0 ks IH]; intros ans s j k a v Nk Na Ns; [destruct j; discriminate|].
  destruct ans as [|a0 ans]; [destruct j; discriminate|]. destruct s as [|v0 s]; [destruct j; discriminate|].
  destruct j as [|j]; simpl in *.
  - inversion Nk; inversion Na; inversion Ns; subst; reflexivity.
  - eapply IH; eassumption.
Qed.

Lemma agrees_demote en : forall vs i ks ans s,
  agrees_from en i vs ks ans = true -> agrees_from en i vs ks (demote ks ans s) = true.
Proof.
  induction vs as [|d vs IH]; intros i ks ans s A; [destruct ks, ans; try destruct s; reflexivity|].
  destruct ks as [|k ks]; [reflexivity|]. destruct ans as [|a ans]; [reflexivity|].
  destruct s as [|v s]; [exact A|].
  simpl in *. apply andb_prop in A; destruct A as [A0 A]. rewrite (IH (S i) ks ans s A), andb_true_r.
  destruct k; [destruct a as [w|]|]; try reflexivity. destruct (py_value_neq w v); [reflexivity|exact A0].
Qed.

(* candidates still there *)
Fixpoint pending (ks : list bool) (ans : list (option value)) : nat :=
  match ks, ans with
  | k :: kr, a :: ar => (match k, a with true, Some _ => 1 | _, _ => 0 end + pending kr ar)%nat
  | _, _ => O
  end.

Lemma pending_init : forall ks s, (pending ks (init_answer ks s) <= n_keys ks)%nat.
Proof.
  unfold n_keys. induction ks as [|k ks IH]; intros s; [simpl; lia|].
  destruct s as [|v s]; [specialize (IH [])|specialize (IH s)]; destruct k; simpl in *; lia.
Qed.

Lemma init_answer_length : forall ks s, length (init_answer ks s) = length ks.
Proof. induction ks as [|k ks IH]; intros s; [reflexivity|]. destruct s; simpl; rewrite IH; reflexivity. Qed.

Lemma init_answer_nth : forall ks s j k v, nth_error ks j = Some k -> nth_error s j = Some v ->
  nth_error (init_answer ks s) j = Some (if k then Some v else None).
Proof.
  induction ks as [|k0 ks IH]; intros s j k v Nk Ns; [destruct j; discriminate|].
  destruct s as [|v0 s]; [destruct j; discriminate|]. destruct j as [|j]; simpl in *.
  - inversion Nk; inversion Ns; subst; reflexivity.
  - eapply IH; eassumption.
Qed.

Lemma init_answer_cand : forall ks s, length s = length ks ->
  Forall2 (fun a v => a = None \/ a = Some v) (init_answer ks s) s.
Proof.
  induction ks as [|k ks IH]; intros s L; destruct s as [|v s]; try discriminate; [constructor|].
  simpl. constructor; [destruct k; auto|]. apply IH. simpl in L; lia.
Qed.

Lemma demote_cand : forall ks ans s (s0 : list value),
  Forall2 (fun a v => a = None \/ a = Some v) ans s0 ->
  Forall2 (fun a v => a = None \/ a = Some v) (demote ks ans s) s0.
Proof.
  induction ks as [|k ks IH]; intros ans s s0 F; [exact F|].
  destruct ans as [|a ans]; [exact F|]. destruct s as [|v s]; [exact F|].
  inversion F as [|? v0 ? s0' Ha F']; subst. simpl. constructor; [|apply IH; exact F'].
  destruct k; [destruct a as [w|]|]; auto. destruct (py_value_neq w v); auto.
Qed.

Lemma final_sol_nth : forall ks ans (s : list value) j a v,
  nth_error ks j = Some true -> nth_error ans j = Some a -> nth_error s j = Some v ->
  nth_error (final_sol ks ans s) j = Some a.
Proof.
  induction ks as [|k0 ks IH]; intros ans s j a v Nk Na Ns; [destruct j; discriminate|].
  destruct ans as [|a0 ans]; [destruct j; discriminate|]. destruct s as [|v0 s]; [destruct j; discriminate|].
  destruct j as [|j]; simpl in *.
  - inversion Nk; inversion Na; subst; reflexivity.
  - eapply IH; eassumption.
Qed.

Lemma value_eqb_sym a b : value_eqb a b = value_eqb b a.
Proof. destruct a, b; simpl; try reflexivity; [destruct b0, b; reflexivity|apply Z.eqb_sym]. Qed.

Lemma pending_demote en : forall vs i ks ans s,
  (forall j d v, nth_error vs j = Some d -> nth_error s j = Some v -> val_of en d (i + j) = v) ->
  length s = length vs ->
  (forall j w v, nth_error ans j = Some (Some w) -> nth_error s j = Some v ->
                 py_value_neq w v = negb (value_eqb w v)) ->
  (pending ks (demote ks ans s) <= pending ks ans)%nat /\
  (agrees_from en i vs ks ans = false -> (pending ks (demote ks ans s) < pending ks ans)%nat).
Proof.
  induction vs as [|d vs IH]; intros i ks ans s Hv L Ht.
  - destruct s; [|discriminate]. destruct ks, ans; simpl; split; try lia; discriminate.
  - destruct s as [|v s]; [discriminate|].
    destruct ks as [|k ks]; [simpl; split; [lia|discriminate]|].
    destruct ans as [|a ans]; [simpl; split; [lia|discriminate]|].
    assert (Hv' : forall j d0 v0, nth_error vs j = Some d0 -> nth_error s j = Some v0 -> val_of en d0 (S i + j) = v0).
    { intros j d0 v0 H1 H2. replace (S i + j)%nat with (i + S j)%nat by lia. apply (Hv (S j)); assumption. }
    assert (Ht' : forall j w v0, nth_error ans j = Some (Some w) -> nth_error s j = Some v0 ->
                                 py_value_neq w v0 = negb (value_eqb w v0)).
    { intros j w v0 H1 H2. apply (Ht (S j)); assumption. }
    destruct (IH (S i) ks ans s Hv' (f_equal pred L) Ht') as [Le Lt].
    pose proof (Hv O d v eq_refl eq_refl) as H0; rewrite Nat.add_0_r in H0.
    simpl. destruct k; [destruct a as [w|]|]; simpl.
    + rewrite (Ht O w v eq_refl eq_refl), H0, (value_eqb_sym v w).
      destruct (value_eqb w v); simpl; split; try lia.
      intros A; specialize (Lt A); lia.
    + split; [lia|exact Lt].
    + split; [lia|exact Lt].
Qed.

Lemma val_of_env_of_sol vs s j d v : sol_typed vs s -> nth_error vs j = Some d -> nth_error s j = Some v ->
  val_of (env_of_sol s) d j = v.
Proof.
  intros T Nv Ns. assert (Ty : val_typed d v).
  { revert j Nv Ns. induction T as [|d0 v0 vs' s' H0 T IH]; intros j Nv Ns; [destruct j; discriminate|].
    destruct j as [|j]; simpl in *; [inversion Nv; inversion Ns; subst; exact H0|eapply IH; eassumption]. }
  destruct d, v; simpl in Ty; try contradiction; simpl; rewrite Ns; reflexivity.
Qed.

Lemma sol_typed_nth vs s j d : sol_typed vs s -> nth_error vs j = Some d ->
  exists v, nth_error s j = Some v /\ val_typed d v.
Proof.
  intros T; revert j. induction T as [|d0 v0 vs' s' H0 T IH]; intros j Nv; [destruct j; discriminate|].
  destruct j as [|j]; simpl in *; [inversion Nv; subst; eauto|apply IH; exact Nv].
Qed.

Lemma Forall2_nth {A B} (P : A -> B -> Prop) l1 l2 : Forall2 P l1 l2 ->
  forall j a b, nth_error l1 j = Some a -> nth_error l2 j = Some b -> P a b.
Proof.
  induction 1 as [|x y l1 l2 H F IH]; intros j a b H1 H2; [destruct j; discriminate|].
  destruct j as [|j]; simpl in *; [inversion H1; inversion H2; subst; exact H|eapply IH; eassumption].
Qed.

Lemma nth_error_len {A} (l : list A) j : (j < length l)%nat -> exists a, nth_error l j = Some a.
Proof. intros H; destruct (nth_error l j) eqn:E; [eauto|apply nth_error_None in E; lia]. Qed.

Lemma sol_typed_length vs s : sol_typed vs s -> length s = length vs.
Proof. intros T; induction T; simpl; [reflexivity|rewrite IHT; reflexivity]. Qed.

(* ---- the loop, for any conformant backend ----------------------------------- *)
Section Generic.
  Variable B : Type.
  Variable b_add : B -> expr -> res B.
  Variable b_solve : B -> res (option (list value)).
  Variable vs : list vdecl.
  Variable ks : list bool.
  Variable cs0 : list expr.
  Hypothesis Hlen : length ks = length vs.

  Definition is_model (en : env) : Prop :=
    in_bounds_from en O vs = true /\ forallb (holds no_graph en) cs0 = true.

  (* [rep b added]: the backend object b holds the program plus the clauses [added] *)
  Variable rep : B -> list expr -> Prop.
  Hypothesis add_ok : forall b added e, rep b added -> wf_cons vs [e] ->
    exists b', b_add b e = Ok b' /\ rep b' (added ++ [e]).
  Hypothesis solve_ok : forall b added, rep b added -> wf_cons vs added ->
    exists r, b_solve b = Ok r /\
      match r with
      | Some s => sol_typed vs s /\ is_model (env_of_sol s) /\ forallb (holds no_graph (env_of_sol s)) added = true
      | None => forall en, is_model en -> forallb (holds no_graph en) added = false
      end.

  (* the property, for the sol fields [sol] left by solve() *)
  Definition exact_on_keys (sol : list (option value)) : Prop :=
    forall j d, nth_error vs j = Some d -> nth_error ks j = Some true ->
      exists a, nth_error sol j = Some a /\
        (forall v, a = Some v <-> (forall en, is_model en -> val_of en d j = v)) /\
        (a = None <-> exists e1 e2, is_model e1 /\ is_model e2 /\ val_of e1 d j <> val_of e2 d j).

  Record inv (added : list expr) (ans : list (option value)) (s0 s : list value) : Prop := {
    i_wf : wf_cons vs added;
    i_len : length ans = length vs;
    i_s0t : sol_typed vs s0;
    i_s0m : is_model (env_of_sol s0);
    i_st : sol_typed vs s;
    i_cand : Forall2 (fun a v => a = None \/ a = Some v) ans s0;
    i_none : forall j d, nth_error vs j = Some d -> nth_error ks j = Some true -> nth_error ans j = Some None ->
             exists e1 e2, is_model e1 /\ is_model e2 /\ val_of e1 d j <> val_of e2 d j;
    i_cover : forall en, is_model en ->
              forallb (holds no_graph en) added = true \/ agrees_from en O vs ks ans = true
  }.


  Lemma exit_exact added ans s0 s :
    inv added ans s0 s ->
    (forall en, is_model en -> agrees_from en O vs ks ans = true) ->
    exact_on_keys (final_sol ks ans s).
  Proof.
    intros I All j d Nv Nk.
    assert (Hj : (j < length vs)%nat) by (apply nth_error_Some; congruence).
    destruct (nth_error_len ans j) as [a Na]; [rewrite (i_len _ _ _ _ I); exact Hj|].
    destruct (sol_typed_nth vs s j d (i_st _ _ _ _ I) Nv) as [v [Ns _]].
    exists a; split; [eapply final_sol_nth; eassumption|].
    destruct a as [w|].
    - assert (Hall : forall en, is_model en -> val_of en d j = w).
      { intros en M. pose proof (agrees_from_nth en vs O ks ans (All en M) j d w Nv Nk Na) as H; exact H. }
      split.
      + intros v'; split.
        * intros H; injection H as <-; exact Hall.
        * intros H. f_equal. rewrite <- (Hall _ (i_s0m _ _ _ _ I)). apply H. exact (i_s0m _ _ _ _ I).
      + split; [discriminate|]. intros [e1 [e2 [M1 [M2 D]]]]. exfalso; apply D.
        rewrite (Hall e1 M1), (Hall e2 M2); reflexivity.
    - destruct (i_none _ _ _ _ I j d Nv Nk Na) as [e1 [e2 [M1 [M2 D]]]].
      split.
      + intros v'; split; [discriminate|]. intros H; exfalso; apply D. rewrite (H e1 M1), (H e2 M2); reflexivity.
      + split; [intros _; exists e1, e2; auto|reflexivity].
  Qed.

  Lemma refine_correct : forall fuel b added ans s0 s,
    rep b added -> inv added ans s0 s -> (pending ks ans < fuel)%nat ->
    exists sol b', refine B b_add b_solve vs ks fuel b ans s = Ok (Sat sol, b') /\ exact_on_keys sol.
  Proof.
    induction fuel as [|f IH]; intros b added ans s0 s R I Lt; [lia|].
    set (cl := refuting_clause vs ks ans).
    destruct (add_ok b added cl R (clause_wf vs ks ans)) as [b' [Ea R']].
    assert (Wf' : wf_cons vs (added ++ [cl])) by (apply wf_cons_app; [exact (i_wf _ _ _ _ I)|apply clause_wf]).
    destruct (solve_ok b' (added ++ [cl]) R' Wf') as [r [Es Hr]].
    simpl. fold cl. rewrite Ea; simpl. rewrite Es; simpl.
    destruct r as [s'|].
    - (* another model: demote and go on *)
      destruct Hr as [T' [M' H']]. rewrite forallb_app in H'. apply andb_prop in H'; destruct H' as [Hadd Hcl].
      simpl in Hcl. rewrite andb_true_r in Hcl. unfold cl in Hcl. rewrite clause_sem in Hcl.
      apply negb_true_iff in Hcl.
      assert (Ls' : length s' = length vs) by (apply sol_typed_length; exact T').
      assert (PD : (pending ks (demote ks ans s') < pending ks ans)%nat).
      { apply (pending_demote (env_of_sol s') vs O ks ans s'); [| exact Ls' | | exact Hcl].
        - intros j d v Nv Ns. eapply val_of_env_of_sol; eassumption.
        - intros j w v Na Ns.
          destruct (nth_error_len vs j) as [d Nv]; [rewrite <- Ls'; apply nth_error_Some; congruence|].
          destruct (sol_typed_nth vs s0 j d (i_s0t _ _ _ _ I) Nv) as [v0 [Ns0 Ty0]].
          destruct (sol_typed_nth vs s' j d T' Nv) as [v1 [Ns1 Ty1]].
          rewrite Ns in Ns1; injection Ns1 as <-.
          destruct (Forall2_nth _ _ _ (i_cand _ _ _ _ I) j _ _ Na Ns0) as [C|C]; [discriminate|].
          injection C as ->. eapply py_value_neq_typed; eassumption. }
      apply (IH b' (added ++ [cl]) (demote ks ans s') s0 s' R'); [|lia].
      constructor.
      + exact Wf'.
      + rewrite demote_length; exact (i_len _ _ _ _ I).
      + exact (i_s0t _ _ _ _ I).
      + exact (i_s0m _ _ _ _ I).
      + exact T'.
      + apply demote_cand; exact (i_cand _ _ _ _ I).
      + intros j d Nv Nk Nd.
        assert (Hj : (j < length vs)%nat) by (apply nth_error_Some; congruence).
        destruct (nth_error_len ans j) as [a Na]; [rewrite (i_len _ _ _ _ I); exact Hj|].
        destruct (sol_typed_nth vs s' j d T' Nv) as [v1 [Ns1 _]].
        rewrite (demote_nth ks ans s' j true a v1 Nk Na Ns1) in Nd. injection Nd as Nd.
        destruct a as [w|]; [|exact (i_none _ _ _ _ I j d Nv Nk Na)].
        destruct (py_value_neq w v1) eqn:Q; [|discriminate].
        destruct (sol_typed_nth vs s0 j d (i_s0t _ _ _ _ I) Nv) as [v0 [Ns0 _]].
        destruct (Forall2_nth _ _ _ (i_cand _ _ _ _ I) j _ _ Na Ns0) as [C|C]; [discriminate|]. injection C as ->.
        exists (env_of_sol s0), (env_of_sol s'). split; [exact (i_s0m _ _ _ _ I)|split; [exact M'|]].
        rewrite (val_of_env_of_sol vs s0 j d v0 (i_s0t _ _ _ _ I) Nv Ns0),
                (val_of_env_of_sol vs s' j d v1 T' Nv Ns1).
        intros ->. rewrite py_value_neq_refl in Q; discriminate.
      + intros en M. destruct (i_cover _ _ _ _ I en M) as [C|C].
        * destruct (holds no_graph en cl) eqn:Hc.
          -- left. rewrite forallb_app, C; simpl. rewrite Hc; reflexivity.
          -- right. unfold cl in Hc. rewrite clause_sem in Hc. apply negb_false_iff in Hc.
             apply agrees_demote; exact Hc.
        * right. apply agrees_demote; exact C.
    - (* UNSAT: done *)
      eexists; eexists; split; [reflexivity|].
      apply (exit_exact added ans s0 s I).
      intros en M. destruct (i_cover _ _ _ _ I en M) as [C|C]; [|exact C].
      pose proof (Hr en M) as Hf. rewrite forallb_app, C in Hf; simpl in Hf. rewrite andb_true_r in Hf.
      unfold cl in Hf. rewrite clause_sem in Hf. apply negb_false_iff in Hf; exact Hf.
  Qed.

  Theorem solve_with_exact b0 : rep b0 [] ->
    exists r b', solve_with B b_add b_solve vs ks (S (n_keys ks)) b0 = Ok (r, b') /\
      match r with
      | Unsat => forall en, ~ is_model en
      | Sat sol => (exists en, is_model en) /\ exact_on_keys sol
      | OutOfFuel => False
      end.
  Proof.
    intros R. destruct (solve_ok b0 [] R eq_refl) as [r [Es Hr]].
    unfold solve_with; rewrite Es; simpl. destruct r as [s|].
    - destruct Hr as [T [M _]].
      assert (Ls : length s = length ks) by (rewrite Hlen; apply sol_typed_length; exact T).
      destruct (refine_correct (S (n_keys ks)) b0 [] (init_answer ks s) s s R) as [sol [b' [E X]]].
      + constructor; auto.
        * reflexivity.
        * rewrite init_answer_length; exact Hlen.
        * apply init_answer_cand; exact Ls.
        * intros j d Nv Nk Na. destruct (sol_typed_nth vs s j d T Nv) as [v [Ns _]].
          rewrite (init_answer_nth ks s j true v Nk Ns) in Na; discriminate.
      + pose proof (pending_init ks s); lia.
      + exists (Sat sol), b'; split; [exact E|]. split; [exists (env_of_sol s); exact M|exact X].
    - exists Unsat, b0; split; [reflexivity|]. intros en M. specialize (Hr en M); discriminate.
  Qed.
End Generic.
