"""C10 — active_edges_connected_crossable admits exactly the single self-crossing trails."""
import itertools

import exprio
import graphcap
import vlib

PROPS = "Props/C10.v"
RULE = ("tie P (program capture): for every frame with (h+1)(w+1) <= 12 (thorough 16; 0-sized and 1xN included) x "
        "single_cycle on/off x use_graph_primitive True/False/None(config) x first-variable offset x edge form "
        "(variables straight from BoolGridFrame, allocated by the model's own new_frame; the same passed as trees; ~v; "
        "v & w; Python True/False; mixed) the real active_edges_connected_crossable / "
        "active_edges_single_cycle_crossable is run on a real Solver and the posted declarations, the constraint trees "
        "in posting order (incl. the whole block posted by _active_vertices_connected, resp. the operand list of the "
        "GRAPH_ACTIVE_VERTICES_CONNECTED node) and the two returned arrays (+ shapes) must equal those of the extracted "
        "post_crossable, token for token; the auxiliary graph (node count, edge list in insertion order) is compared "
        "separately; a malformed stream puts IntExpr / int / None entries in the arrays (TypeError on both sides).  "
        "search: for every frame up to 2x2 plus 1x3, 3x1, 0x4 (thorough: 2x3, 3x2, 1x4, 4x1, 1x5, 0x6) and every subset "
        "of segments (frames with more than 12 (thorough 13) segments: every subset obeying the 0/1/2/4 rule + random "
        "others), satisfiability of the really posted non-primitive program (own z3 translation, pattern fixed) and "
        "the values forced on the two returned arrays vs an oracle written from the property text (segments as pairs "
        "of lattice points, union-find of strands); primitive route: the non-graph constraints by z3, the posted "
        "GRAPH_ACTIVE_VERTICES_CONNECTED node evaluated as connectivity of its decoded operands; the executable form "
        "of the Coq specification (crossable_spec_b, proved equivalent to crossable_spec) is run against the same "
        "oracle on every pattern of these frames (kind spec-vs-oracle).  A case is "
        "non-trivial when it is a distinct (frame, options, edge form) capture or a distinct (frame, options, "
        "pattern) decision.")
TRUSTED = [
    "reading of the property (Graph/Crossable.v: seg, segs_at, deg, degree_rule, continues, strand, crossable_spec, "
    "visited, crossing): horizontal[y, x] is the segment (y,x)-(y,x+1), vertical[y, x] the segment (y,x)-(y+1,x) "
    "(the geometry C14 checks); the harness oracle reads the property text independently",
    "meaning of Op.GRAPH_ACTIVE_VERTICES_CONNECTED := connectivity of the active vertices (Graph/Avc.v::gsem_avc; the "
    "external solver is trusted to implement it)",
    "Core/Expr.v eval as the ordinary meaning of the expression trees; z3 (search only)",
    "C04's model Graph/Avc.v::post_avc of _active_vertices_connected and its theorems avc_connected_exact / "
    "avc_primitive / post_avc_succeeds / wt_acts_defined (machine-checked, closed; tied to the source by C04's and "
    "by this check's program capture)",
]
ASSUMPTIONS = [
    "the frame's two arrays have the shapes BoolGridFrame gives them ((h+1, w) and (h, w+1)); other shapes are outside the model (OtherError)",
    "h, w >= 0; the frame's entries are well-typed boolean trees (Core/Expr.v::wt) over variables declared before the call",
    "'the caller's variables are not otherwise constrained' = quantification over an arbitrary assignment of the ids below next_id, extended to the fresh ids",
]

ERR = {1: "IndexError", 2: "KeyError", 3: "AssertionError", 4: "TypeError", 5: "ValueError",
       6: "RecursionError", 7: "NotImplementedError", 8: "Other"}


# ------------------------------------------------------------------ frames

def shapes_upto(max_points):
    out = []
    for H in range(1, max_points + 1):
        for W in range(1, max_points + 1):
            if H * W <= max_points:
                out.append((H - 1, W - 1))
    return out


EDGE_FORMS = ["frame", "tree", "not", "and", "const", "mixed"]
BAD_FORMS = ["bad-int", "bad-none", "bad-intexpr"]


def build_frame(s, h, w, form, rng):
    """returns the frame; `s` already holds the offset variables."""
    from cspuz.array import BoolArray2D
    from cspuz.grid_frame import BoolGridFrame
    if form in ("frame", "tree"):
        return BoolGridFrame(s, h, w)
    nh, nv = (h + 1) * w, h * (w + 1)
    pool = [s.bool_var() for _ in range(max(2, nh + nv))]

    def entry(i):
        f = form
        if f == "mixed":
            f = rng.choice(["var", "not", "and", "const", "or"])
        a, b = pool[i % len(pool)], pool[(i * 7 + 3) % len(pool)]
        if f == "var":
            return a
        if f == "not":
            return ~a
        if f == "and":
            return a & b
        if f == "or":
            return a | ~b
        if f == "const":
            return bool((i * 5 + h + w) % 3 == 0) if form == "const" else rng.random() < 0.5
        raise ValueError(f)
    hz = [entry(i) for i in range(nh)]
    vt = [entry(nh + i) for i in range(nv)]
    return BoolGridFrame(s, h, w, horizontal=BoolArray2D(hz, (h + 1, w)), vertical=BoolArray2D(vt, (h, w + 1)))


def build_bad_frame(s, h, w, form, rng):
    from cspuz.array import BoolArray2D
    from cspuz.grid_frame import BoolGridFrame
    nh, nv = (h + 1) * w, h * (w + 1)
    pool = [s.bool_var() for _ in range(nh + nv)]
    iv = s.int_var(0, 3)
    k = rng.randrange(nh + nv)
    bad = {"bad-int": 5, "bad-none": None, "bad-intexpr": iv}[form]
    ent = [bad if i == k else pool[i] for i in range(nh + nv)]
    return BoolGridFrame(s, h, w, horizontal=BoolArray2D(ent[:nh], (h + 1, w)),
                         vertical=BoolArray2D(ent[nh:], (h, w + 1)))


def call_impl(s, frame, sc, prim, alias):
    from cspuz import graph
    if alias:
        return graph.active_edges_single_cycle_crossable(s, frame, use_graph_primitive=prim)
    return graph.active_edges_connected_crossable(s, frame, single_cycle=sc, use_graph_primitive=prim)


def resolve_prim(prim):
    if prim is None:
        from cspuz.configuration import config
        return bool(config.use_graph_primitive)
    return prim


def norm_result(r, H, W):
    p, q = r
    assert tuple(p.shape) == (H, W) and tuple(q.shape) == (H, W), "shape of the returned arrays"
    return exprio.show_list(p.data), exprio.show_list(q.data)


def parse_model(r):
    if r.startswith("E "):
        return ("err", ERR[int(r.split()[1])])
    if not r.startswith("OK "):
        raise RuntimeError("bad model reply " + r[:200])
    body = r[3:]
    i = body.index(" P [")
    j = body.index(" Q [")
    return ("ok", (body[:i], body[i + 3:j], body[j + 3:]))


# ------------------------------------------------------------------ correspondence (tie P)

def corr_cases(ctx):
    rng = ctx.rng
    shapes = shapes_upto(12 if not ctx.thorough else 16)
    for (h, w) in shapes:
        for sc in (False, True):
            for prim in (False, True, None):
                for form in EDGE_FORMS:
                    offs = [0, 3] if form in ("frame", "not") else [rng.choice([0, 1, 4])]
                    for off in offs:
                        yield h, w, sc, prim, form, off, False
                if sc:
                    yield h, w, True, prim, "frame", 2, True      # the single_cycle alias
    for (h, w) in shapes:
        if (h + 1) * w + h * (w + 1) == 0:
            continue
        for form in BAD_FORMS:
            yield h, w, rng.random() < 0.5, rng.choice([False, True]), form, 0, False


def run_case(m_call, h, w, sc, prim, form, off, alias, rng):
    from cspuz import Solver
    s = Solver()
    for i in range(off):
        if i % 2:
            s.int_var(0, 5)
        else:
            s.bool_var()
    before_frame = exprio.show_state(s)
    if form in BAD_FORMS:
        fr = build_bad_frame(s, h, w, form, rng)
    else:
        fr = build_frame(s, h, w, form, rng)
    st0 = exprio.show_state(s)
    p = resolve_prim(prim)
    if form == "frame":
        req = "F %d %d %d %d %s" % (h, w, sc, p, before_frame)
    else:
        req = "X %d %d %d %d %s H %s V %s" % (h, w, sc, p, st0, exprio.show_list(fr.horizontal.data),
                                              exprio.show_list(fr.vertical.data))
    r = vlib.guarded(lambda: call_impl(s, fr, sc, prim, alias))
    if r[0] == "ok":
        impl = ("ok", (exprio.show_state(s),) + norm_result(r[1], h + 1, w + 1))
    else:
        impl = r
    return req, impl


def correspond(ctx):
    m = ctx.model("C10")
    reqs, impls, keys = [], [], []
    for (h, w, sc, prim, form, off, alias) in corr_cases(ctx):
        req, impl = run_case(None, h, w, sc, prim, form, off, alias, ctx.rng)
        reqs.append(req)
        impls.append(impl)
        keys.append((h, w, sc, prim, form, off, alias))
    outs = m.batch(reqs)
    for k, o, impl in zip(keys, outs, impls):
        ctx.count("form:" + k[4])
        ctx.corr("post_crossable", k, parse_model(o), impl)
    # the auxiliary graph on its own (node count and edge list, insertion order)
    for (h, w) in shapes_upto(12):
        H, W = h + 1, w + 1
        o = m.call("G %d %d" % (H, W))
        impl = impl_split_graph(h, w)
        ctx.corr("split_graph", (H, W), o.strip(), impl)
    spec_vs_oracle(ctx)


def impl_split_graph(h, w):
    """the graph handed to _active_vertices_connected, read from the primitive node"""
    from cspuz import Solver
    from cspuz.grid_frame import BoolGridFrame
    from cspuz.expr import Op
    s = Solver()
    fr = BoolGridFrame(s, h, w)
    call_impl(s, fr, False, True, False)
    node = [c for c in s.constraints if not isinstance(c, bool) and c.op == Op.GRAPH_ACTIVE_VERTICES_CONNECTED]
    if len(node) != 1:
        return "no single primitive node"
    ops = node[0].operands
    n, mm = ops[0], ops[1]
    es = ops[2 + n:]
    if len(es) != 2 * mm:
        return "bad operand count"
    return ("%d :" % n) + "".join(" %d" % v for v in es)


# ------------------------------------------------------------------ the oracle (from the property text)

def lattice_segments(h, w):
    """every unit segment of the h x w frame as (frozenset of its two end points, 'h'|'v')"""
    segs = []
    for y in range(h + 1):
        for x in range(w + 1):
            if x + 1 <= w:
                segs.append((frozenset({(y, x), (y, x + 1)}), "h"))
            if y + 1 <= h:
                segs.append((frozenset({(y, x), (y + 1, x)}), "v"))
    return segs


def oracle(h, w, drawn, single_cycle):
    """drawn: list of (segment, direction).  Returns (ok, visited dict, crossing dict)."""
    pts = [(y, x) for y in range(h + 1) for x in range(w + 1)]
    parent = {s: s for (s, _) in drawn}

    def find(a):
        while parent[a] != a:
            parent[a] = parent[parent[a]]
            a = parent[a]
        return a

    def union(a, b):
        parent[find(a)] = find(b)
    ok = True
    visited, crossing = {}, {}
    allowed = (0, 2, 4) if single_cycle else (0, 1, 2, 4)
    for p in pts:
        here = [(s, d) for (s, d) in drawn if p in s]
        k = len(here)
        visited[p] = k > 0
        crossing[p] = k == 4
        if k not in allowed:
            ok = False
        if k == 4 and not (0 < p[0] < h and 0 < p[1] < w):
            ok = False
        if k == 4:
            for d in "hv":
                same = [s for (s, dd) in here if dd == d]
                for a in same[1:]:
                    union(same[0], a)
        else:
            for (a, _) in here[1:]:
                union(here[0][0], a)
    if len({find(s) for (s, _) in drawn}) > 1:
        ok = False
    return ok, visited, crossing


def frame_var_of(fr, seg):
    (s, d) = seg
    (y, x) = min(s)
    return fr.horizontal[y, x] if d == "h" else fr.vertical[y, x]


# ------------------------------------------------------------------ own z3 translation of a posted program

def z3_program(variables, constraints):
    import z3
    from cspuz.expr import BoolVar, IntVar, Op, Expr
    zv = {}
    zs = z3.Solver()
    for v in variables:
        if isinstance(v, BoolVar):
            zv[v.id] = z3.Bool("b%d" % v.id)
        else:
            zv[v.id] = z3.Int("i%d" % v.id)
            zs.add(v.lo <= zv[v.id], zv[v.id] <= v.hi)

    def conv(e):
        if isinstance(e, bool):
            return z3.BoolVal(e)
        if isinstance(e, int):
            return z3.IntVal(e)
        if isinstance(e, (BoolVar, IntVar)):
            return zv[e.id]
        if not isinstance(e, Expr):
            raise TypeError("operand %r" % (e,))
        o = e.op
        if o in (Op.BOOL_CONSTANT, Op.INT_CONSTANT):
            return conv(e.operands[0])
        a = [conv(x) for x in e.operands]
        if o == Op.NEG:
            return -a[0]
        if o == Op.ADD:
            return z3.Sum(a) if len(a) > 1 else a[0]
        if o == Op.SUB:
            r = a[0]
            for x in a[1:]:
                r = r - x
            return r
        if o == Op.EQ:
            return a[0] == a[1]
        if o == Op.NE:
            return a[0] != a[1]
        if o == Op.LE:
            return a[0] <= a[1]
        if o == Op.LT:
            return a[0] < a[1]
        if o == Op.GE:
            return a[0] >= a[1]
        if o == Op.GT:
            return a[0] > a[1]
        if o == Op.NOT:
            return z3.Not(a[0])
        if o == Op.AND:
            return z3.And(a)
        if o == Op.OR:
            return z3.Or(a)
        if o == Op.IFF:
            return a[0] == a[1]
        if o == Op.XOR:
            return z3.Xor(a[0], a[1])
        if o == Op.IMP:
            return z3.Implies(a[0], a[1])
        if o == Op.IF:
            return z3.If(a[0], a[1], a[2])
        if o == Op.ALLDIFF:
            return z3.Distinct(a)
        raise ValueError("operator %s" % o)
    for c in constraints:
        zs.add(conv(c))
    return zs, zv


class Session:
    """decide the posted program for fixed values of the frame's variables"""

    def __init__(self, solver):
        from cspuz.expr import Op
        self.graph_nodes = [c for c in solver.constraints
                            if not isinstance(c, bool) and c.op == Op.GRAPH_ACTIVE_VERTICES_CONNECTED]
        gids = {id(c) for c in self.graph_nodes}
        plain = [c for c in solver.constraints if id(c) not in gids]
        self.zs, self.zv = z3_program(solver.variables, plain)
        self.solver = solver

    def _model(self):
        import z3
        from cspuz.expr import BoolVar
        m = self.zs.model()
        out = {}
        for v in self.solver.variables:
            val = m.eval(self.zv[v.id], model_completion=True)
            out[v.id] = z3.is_true(val) if isinstance(v, BoolVar) else val.as_long()
        return out

    def _graph_ok(self, model):
        from cspuz.expr import BoolVar
        for node in self.graph_nodes:
            ops = node.operands
            n, mm = ops[0], ops[1]
            acts = []
            for a in ops[2:2 + n]:
                if isinstance(a, bool):
                    acts.append(a)
                elif isinstance(a, BoolVar):
                    acts.append(model[a.id])
                else:
                    raise TypeError("primitive operand is not a variable")
            flat = ops[2 + n:]
            edges = [(flat[2 * i], flat[2 * i + 1]) for i in range(mm)]
            if not graphcap.is_connected(n, edges, acts):
                return False
        return True

    def decide(self, fixed, aux_vars, cap=4):
        """fixed: [(BoolVar, bool)].  Returns (sat, model or None).  With graph nodes: enumerate the
        models of the plain part over aux_vars (they are functionally determined: at most `cap`)."""
        import z3
        self.zs.push()
        try:
            for v, val in fixed:
                self.zs.add(self.zv[v.id] if val else z3.Not(self.zv[v.id]))
            for _ in range(cap if self.graph_nodes else 1):
                if self.zs.check() != z3.sat:
                    return False, None
                model = self._model()
                if self._graph_ok(model):
                    return True, model
                self.zs.add(z3.Or([self.zv[a.id] != model[a.id] for a in aux_vars]))
            if self.graph_nodes and self.zs.check() == z3.sat:
                raise RuntimeError("more than %d assignments of the auxiliary arrays" % cap)
            return False, None
        finally:
            self.zs.pop()

    def other_values(self, fixed, expected):
        """is there a solution in which some (var, value) of `expected` differs?  Returns a model or None."""
        import z3
        self.zs.push()
        try:
            for v, val in fixed:
                self.zs.add(self.zv[v.id] if val else z3.Not(self.zv[v.id]))
            self.zs.add(z3.Or([self.zv[v.id] != val for v, val in expected]))
            for _ in range(4):
                if self.zs.check() != z3.sat:
                    return None
                model = self._model()
                if self._graph_ok(model):
                    return model
                self.zs.add(z3.Or([self.zv[v.id] != model[v.id] for v, _ in expected]))
            return None
        finally:
            self.zs.pop()


# ------------------------------------------------------------------ search

def search_frames(ctx):
    quick = [(h, w) for h in range(0, 3) for w in range(0, 3)] + [(1, 3), (3, 1), (0, 4)]
    if ctx.thorough:
        return quick + [(2, 3), (3, 2), (1, 4), (4, 1), (1, 5), (0, 6)]
    return quick


def check_pattern(ctx, sess, fr, h, w, sc, prim, segs, bits, passed, cross):
    drawn = [s for s, b in zip(segs, bits) if b]
    exp_ok, vis, crs = oracle(h, w, drawn, sc)
    fixed = [(frame_var_of(fr, s), b) for s, b in zip(segs, bits)]
    aux = list(passed.data) + list(cross.data)
    got, model = sess.decide(fixed, aux)
    pat = "".join("1" if b else "0" for b in bits)
    key = "crossable:%dx%d:sc%d:prim%d:%s" % (h, w, sc, prim, pat)
    detail = {"h": h, "w": w, "single_cycle": sc, "use_graph_primitive": prim, "pattern": pat,
              "segments": [[sorted(s), d] for (s, d) in segs]}
    ctx.prop_case("sat-vs-oracle", (h, w, sc, prim, pat))
    if got != exp_ok:
        d = dict(detail)
        d.update({"expected_satisfiable": exp_ok, "observed_satisfiable": got})
        ctx.violation(key, "satisfiability of active_edges_connected_crossable differs from the trail specification", d)
        return
    if not got:
        return
    expected = []
    for y in range(h + 1):
        for x in range(w + 1):
            expected.append((passed[y, x], vis[(y, x)]))
            expected.append((cross[y, x], crs[(y, x)]))
    bad = [(v.id, val, model[v.id]) for v, val in expected if model[v.id] != val]
    if not bad:
        other = sess.other_values(fixed, expected)
        if other is not None:
            bad = [(v.id, val, other[v.id]) for v, val in expected if other[v.id] != val]
    ctx.prop_case("outputs-vs-oracle", (h, w, sc, prim, pat))
    if bad:
        d = dict(detail)
        d.update({"returned_array_values (var id, expected, observed in a solution)": bad})
        ctx.violation(key + ":outputs", "a solution gives the returned arrays other values than visited / 4-way points", d)


def search_one(ctx, h, w, sc, prim, patterns=None):
    from cspuz import Solver
    from cspuz.grid_frame import BoolGridFrame
    s = Solver()
    fr = BoolGridFrame(s, h, w)
    r = vlib.guarded(lambda: call_impl(s, fr, sc, prim, False))
    if r[0] == "err":
        ctx.violation("crossable:%dx%d:sc%d:prim%d:raises" % (h, w, sc, prim),
                      "active_edges_connected_crossable raises on a plain frame",
                      {"h": h, "w": w, "single_cycle": sc, "use_graph_primitive": prim, "error": r[1]})
        return
    passed, cross = r[1]
    sess = Session(s)
    segs = lattice_segments(h, w)
    if patterns is None:
        patterns = itertools.product([False, True], repeat=len(segs))
    for bits in patterns:
        check_pattern(ctx, sess, fr, h, w, sc, prim, segs, bits, passed, cross)


def degree_ok_patterns(h, w):
    """every pattern in which each lattice point meets 0, 1, 2 or 4 drawn segments (there the
    strand condition decides)"""
    segs = lattice_segments(h, w)
    at = {}
    for i, (sg, _) in enumerate(segs):
        for p in sg:
            at.setdefault(p, []).append(i)
    groups = list(at.values())
    for bits in itertools.product([False, True], repeat=len(segs)):
        if all(sum(bits[i] for i in g) != 3 for g in groups):
            yield bits


def sampled_patterns(ctx, h, w, n_random):
    seen = set()
    for bits in degree_ok_patterns(h, w):
        seen.add(bits)
        yield bits
    nseg = (h + 1) * w + h * (w + 1)
    for _ in range(n_random):
        dens = ctx.rng.choice([0.15, 0.3, 0.5, 0.7])
        bits = tuple(ctx.rng.random() < dens for _ in range(nseg))
        if bits not in seen:
            seen.add(bits)
            yield bits


def spec_vs_oracle(ctx):
    """the trusted Coq specification (its executable form crossable_spec_b, proved equivalent to
    crossable_spec) against the independent oracle, on every pattern of the small frames"""
    m = ctx.model("C10")
    for (h, w) in search_frames(ctx):
        segs = lattice_segments(h, w)
        if len(segs) > (17 if ctx.thorough else 13):
            continue
        pos = {}
        for i, (sg, d) in enumerate(segs):
            (y, x) = min(sg)
            pos[i] = ("h", y * w + x) if d == "h" else ("v", y * (w + 1) + x)
        nh, nv = (h + 1) * w, h * (w + 1)
        for sc in (False, True):
            reqs, exps = [], []
            for bits in itertools.product([False, True], repeat=len(segs)):
                hb, vb = ["0"] * nh, ["0"] * nv
                for i, b in enumerate(bits):
                    if b:
                        k, j = pos[i]
                        (hb if k == "h" else vb)[j] = "1"
                reqs.append("S %d %d %d %s %s" % (h, w, sc, "".join(hb) or "-", "".join(vb) or "-"))
                ok, vis, crs = oracle(h, w, [s for s, b in zip(segs, bits) if b], sc)
                pts = [(y, x) for y in range(h + 1) for x in range(w + 1)]
                exps.append("%d %s %s" % (ok, "".join("1" if vis[p] else "0" for p in pts),
                                          "".join("1" if crs[p] else "0" for p in pts)))
            outs = m.batch(reqs)
            for r, o, e in zip(reqs, outs, exps):
                ctx.corr("spec-vs-oracle", r, o, e)


class _Recorder:
    """what a search worker reports back (same interface as the parts of vlib.Ctx the search uses)"""

    def __init__(self, seed, thorough, deep):
        import random
        self.rng = random.Random(seed)
        self.thorough, self.deep = thorough, deep
        self.cases, self.viol = [], []

    def prop_case(self, kind, inp, nontrivial=True):
        self.cases.append((kind, inp))

    def violation(self, key, what, detail):
        if len(self.viol) < 40:
            self.viol.append((key, what, detail))


def _search_job(job):
    (h, w, sc, prim, full, nrand, seed, thorough, deep) = job
    rec = _Recorder(seed, thorough, deep)
    search_one(rec, h, w, sc, prim, None if full else sampled_patterns(rec, h, w, nrand))
    return rec.cases, rec.viol


def search_jobs(ctx):
    jobs = []
    for (h, w) in search_frames(ctx):
        nseg = (h + 1) * w + h * (w + 1)
        for sc in (False, True):
            for prim in (False, True):
                if prim:
                    full = nseg <= 10
                    nrand = 3000 if (ctx.thorough or ctx.deep) else 500
                else:
                    full = nseg <= (13 if ctx.thorough else 12)
                    nrand = 5000 if ctx.thorough else 3000
                seed = ctx.rng.randrange(1 << 30)
                jobs.append((h, w, sc, prim, full, nrand, seed, ctx.thorough, bool(getattr(ctx, "deep", False))))
    return jobs


def search(ctx):
    import concurrent.futures
    import os
    jobs = search_jobs(ctx)
    # biggest first, so that the pool stays busy
    order = sorted(range(len(jobs)), key=lambda i: -((jobs[i][0] + 1) * jobs[i][1] + jobs[i][0] * (jobs[i][1] + 1)))
    workers = max(1, min(6, (os.cpu_count() or 2) // 2))
    results = {}
    with concurrent.futures.ProcessPoolExecutor(max_workers=workers) as ex:
        futs = {ex.submit(_search_job, jobs[i]): i for i in order}
        for f in concurrent.futures.as_completed(futs):
            results[futs[f]] = f.result()
    for i in range(len(jobs)):           # merge in the deterministic job order
        cases, viol = results[i]
        for (kind, inp) in cases:
            ctx.prop_case(kind, inp)
        for (key, what, detail) in viol:
            ctx.violation(key, what, detail)


def replay(ctx, rp):
    v = rp.get("violation", {}).get("detail", {})
    print(rp)
    if not v or "pattern" not in v:
        return 0
    bits = tuple(c == "1" for c in v["pattern"])
    search_one(ctx, v["h"], v["w"], v["single_cycle"], v["use_graph_primitive"], [bits])
    for x in ctx.violations:
        print("reproduced:", x["key"], x["what"])
    return 1 if ctx.violations else 0
