(* C11 Tier 1 - model of cspuz/puzzle/magnets.py::solve_magnets, all board shapes:
       plus = solver.bool_array((height, width)); minus = solver.bool_array((height, width))
       solver.add_answer_key(plus); solver.add_answer_key(minus)            # ids 0 .. hw-1 and hw .. 2hw-1
       ensure(~(plus & minus))                                              # cell by cell, row-major
       for y, x:  if to_right[y][x]: ensure((plus[y, x] == minus[y, x + 1]) & (minus[y, x] == plus[y, x + 1]))
                  if to_down[y][x]:  ensure((plus[y, x] == minus[y + 1, x]) & (minus[y, x] == plus[y + 1, x]))
       ensure(~(plus[:-1, :] & plus[1:, :])); ensure(~(minus[:-1, :] & minus[1:, :]))
       ensure(~(plus[:, :-1] & plus[:, 1:])); ensure(~(minus[:, :-1] & minus[:, 1:]))
       for y:  if cond_row[y][0] >= 0: ensure(count_true(plus[y, :]) == cond_row[y][0]);  [1]: the same with minus
       for x:  if cond_col[x][0] >= 0: ensure(count_true(plus[:, x]) == cond_col[x][0]);  [1]: the same with minus
   The problem uses the encoding of Rules_magnets.v
   ([[h; w]; to_right; to_down; row_plus; row_minus; col_plus; col_minus]); the list of flagged pairs is the
   list [plates] of the rule file (same loop: for y, for x, to_right before to_down).
   Errors: a flag in the last column of to_right / the last row of to_down makes plus[y, x + 1] / plus[y + 1, x]
   raise IndexError (array.py::_parse_range checks the bounds); a flag list with fewer than h*w entries or a
   clue list with fewer than h resp. w entries raises IndexError as well.  (Nested lists whose rows have
   different lengths are not in the alphabet of the plug-in.)  No proofs here. *)
From Coq Require Import ZArith List Bool Arith.
From Cspuz Require Import Lib.PyErr Core.Expr Core.Program Puzzle.PuzzleBase Puzzle.ModelBase
     Puzzle.Rules_magnets.
Import ListNotations.
Local Open Scope nat_scope.

(* ids of plus[y, x] and minus[y, x] *)
Definition mag_p (w : nat) (c : nat * nat) : nat := cidx w c.
Definition mag_m (h w : nat) (c : nat * nat) : nat := h * w + cidx w c.

(* ~(a & b) *)
Definition mag_nand (i j : nat) : expr := BNode NOT [BNode AND [BVar i; BVar j]].
(* (plus[a] == minus[b]) & (minus[a] == plus[b]) *)
Definition mag_plate (h w : nat) (a b : nat * nat) : expr :=
  BNode AND [BNode IFF [BVar (mag_p w a); BVar (mag_m h w b)];
             BNode IFF [BVar (mag_m h w a); BVar (mag_p w b)]].
(* if c >= 0: count_true(ids) == c *)
Definition mag_clue (c : Z) (ids : list nat) : list expr :=
  if (0 <=? c)%Z then [BNode EQ [ct_vars ids; PyInt c]] else [].

Definition mag_row (w y : nat) : list (nat * nat) := map (fun x => (y, x)) (seq 0 w).
Definition mag_col (h x : nat) : list (nat * nat) := map (fun y => (y, x)) (seq 0 h).

Definition magnets_constraints (h w : nat) (tr td rp rm cp cm : list Z) : list expr :=
  map (fun c => mag_nand (mag_p w c) (mag_m h w c)) (cells h w) ++
  map (fun '(a, b) => mag_plate h w a b) (plates h w tr td) ++
  map (fun '(y, x) => mag_nand (mag_p w (y, x)) (mag_p w (S y, x))) (cells (h - 1) w) ++
  map (fun '(y, x) => mag_nand (mag_m h w (y, x)) (mag_m h w (S y, x))) (cells (h - 1) w) ++
  map (fun '(y, x) => mag_nand (mag_p w (y, x)) (mag_p w (y, S x))) (cells h (w - 1)) ++
  map (fun '(y, x) => mag_nand (mag_m h w (y, x)) (mag_m h w (y, S x))) (cells h (w - 1)) ++
  flat_map (fun y => mag_clue (getz rp y) (map (mag_p w) (mag_row w y)) ++
                     mag_clue (getz rm y) (map (mag_m h w) (mag_row w y))) (seq 0 h) ++
  flat_map (fun x => mag_clue (getz cp x) (map (mag_p w) (mag_col h x)) ++
                     mag_clue (getz cm x) (map (mag_m h w) (mag_col h x))) (seq 0 w).

(* some flag names a partner cell outside the board *)
Definition mag_rim_flag (h w : nat) (tr td : list Z) : bool :=
  existsb (fun '(y, x) => (negb (at2 tr w y x =? 0)%Z && Nat.eqb (S x) w) ||
                          (negb (at2 td w y x =? 0)%Z && Nat.eqb (S y) h)) (cells h w).

Definition solve_magnets_model (pb : problem) : res state :=
  let h := dim pb 0 in let w := dim pb 1 in
  let tr := sec pb 1 in let td := sec pb 2 in
  if Nat.ltb (length tr) (h * w) || Nat.ltb (length td) (h * w) ||
     Nat.ltb (length (sec pb 3)) h || Nat.ltb (length (sec pb 4)) h ||
     Nat.ltb (length (sec pb 5)) w || Nat.ltb (length (sec pb 6)) w ||
     mag_rim_flag h w tr td
  then Err IndexError
  else Ok (bool_grid_state (2 * (h * w))
             (magnets_constraints h w tr td (sec pb 3) (sec pb 4) (sec pb 5) (sec pb 6))).
