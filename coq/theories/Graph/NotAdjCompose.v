(* C08: active_vertices_not_adjacent_and_not_segmenting -- the explicit-graph
   form is not_adjacent + C04's connectivity on ~is_active; the grid form is
   not_adjacent + the rank block (h, w >= 2) or + connectivity (single row /
   column); both describe "independent, and the inactive cells connected". *)
From Coq Require Import ZArith List Bool Arith Lia.
From Cspuz Require Import Lib.PyErr Core.Expr Core.Program Core.Build
  Graph.GraphModel Graph.ReachProofs Graph.Avc Graph.AvcCert Graph.AvcSem Graph.AvcTotal Graph.AvcProofs
  Array.Slice Graph.NotAdj Graph.NotAdjForest Graph.NotAdjDiag Graph.NotAdjBounded Graph.NotAdjBoundedIndep Graph.NotAdjSem
  Graph.NotAdjMain.
Import ListNotations.
Local Open Scope nat_scope.

(* ------------------------------------------------------------------------ *)
(* ~is_active                                                                *)

Lemma invert1_defined en l : acts_defined en l -> acts_defined en (invert1 l).
Proof.
  intros Hdef a Ha. unfold invert1 in Ha. apply in_map_iff in Ha. destruct Ha as [x [<- Hx]].
  destruct (Hdef x Hx) as [c Hc]. exists (negb c). simpl. rewrite Hc. reflexivity.
Qed.

Lemma invert1_fresh k l : fresh_below k l -> fresh_below k (invert1 l).
Proof.
  intros Hfr a Ha. unfold invert1 in Ha. apply in_map_iff in Ha. destruct Ha as [x [<- Hx]].
  simpl. specialize (Hfr x Hx). lia.
Qed.

Lemma invert1_bool l : forall a, In a (invert1 l) -> is_bool_expr_like a = true.
Proof. intros a Ha. unfold invert1 in Ha. apply in_map_iff in Ha. destruct Ha as [x [<- _]]. reflexivity. Qed.

Lemma invert1_pattern en l v :
  acts_defined en l -> v < length l -> pattern en (invert1 l) v = inactive (pattern en l) v.
Proof.
  intros Hdef Hv. unfold pattern, inactive, invert1.
  rewrite (nth_indep _ (PyBool false) (b_not (PyBool false))) by (rewrite map_length; exact Hv).
  rewrite map_nth. destruct (Hdef (nth v l (PyBool false)) (nth_In _ _ Hv)) as [c Hc].
  unfold holds. simpl. rewrite Hc. destruct c; reflexivity.
Qed.

Lemma independent_ext g act act' : (forall v, act v = act' v) -> independent g act -> independent g act'.
Proof. intros He H a b Hin. rewrite <- !He. apply H. exact Hin. Qed.

Lemma connected_invert en l g :
  wf_graph g = true -> acts_defined en l -> length l = nv g ->
  (connected g (pattern en (invert1 l)) <-> connected g (inactive (pattern en l))).
Proof.
  intros Hwf Hdef Hlen. split; apply connected_ext_below; try exact Hwf; intros x Hx;
    [|symmetry]; apply invert1_pattern; try assumption; lia.
Qed.

(* ------------------------------------------------------------------------ *)
(* gluing two calls                                                          *)

Section Glue.
  Variables (st st1 st' : state) (cs1 : list expr).
  Hypothesis Hv1 : vars st1 = vars st.
  Hypothesis Hc1 : cons st1 = cons st ++ cs1.
  Hypothesis Hc2 : exists cs2, cons st' = cons st1 ++ cs2.

  Lemma glue_next : next_id st1 = next_id st.
  Proof. unfold next_id. rewrite Hv1. reflexivity. Qed.

  Lemma glue_vars : new_vars st st' = new_vars st1 st'.
  Proof. unfold new_vars. rewrite Hv1. reflexivity. Qed.

  Lemma glue_cons : new_cons st st' = cs1 ++ new_cons st1 st'.
  Proof.
    destruct Hc2 as [cs2 E]. unfold new_cons. rewrite E, skipn_app_exact, Hc1, <- app_assoc, skipn_app_exact.
    reflexivity.
  Qed.
End Glue.

(* ------------------------------------------------------------------------ *)
(* explicit graph                                                            *)

Lemma post_nseg_graph_unfold cfg st l g :
  post_not_segmenting cfg st (AArr1 l) (Some g) =
  match post_not_adjacent st (AArr1 l) (Some g) with
  | (st1, Some e) => (st1, Some e)
  | (st1, None) => match post_avc st1 (invert1 l) g false cfg with
                   | Ok st2 => (st2, None)
                   | Err e => (st1, Some e)
                   end
  end.
Proof. reflexivity. Qed.

(* active_vertices_not_adjacent_and_not_segmenting(solver, is_active, graph)
   with the auxiliary-variable route of active_vertices_connected
   (config.use_graph_primitive = False): for every graph, every BoolArray1D of
   BoolExpr-like entries over the caller's variables and every assignment of
   those variables, the posted block can be completed exactly when no edge has
   two active endpoints and the inactive vertices induce a connected subgraph.
   The connectivity half is C04's theorem avc_exact. *)
Theorem not_segmenting_graph_exact st l g st' en :
  wf_graph g = true -> length l = nv g ->
  (forall a, In a l -> is_bool_expr_like a = true) ->
  fresh_below (next_id st) l -> acts_defined en l ->
  post_not_segmenting false st (AArr1 l) (Some g) = (st', None) ->
  ((exists en', agree_below (next_id st) en en' /\
                in_bounds_from en' (next_id st) (new_vars st st') = true /\
                forallb (holds gsem_avc en') (new_cons st st') = true)
   <-> spec_not_segmenting g (pattern en l)).
Proof.
  intros Hwf Hlen Hbool Hfr Hdef Hpost.
  assert (Hedges : forall a b, In (a, b) (edges g) -> a < length l /\ b < length l).
  { intros a b Hin. destruct (In_nth_error _ _ Hin) as [k Hk]. rewrite Hlen. apply (wf_graph_edge g k a b Hwf Hk). }
  destruct (not_adjacent_graph_exact st l g true Hedges Hbool) as [st1 [Hna [Hv1 [_ [[cs1 Hc1] Hsem]]]]].
  rewrite post_nseg_graph_unfold, Hna in Hpost.
  destruct (post_avc st1 (invert1 l) g false false) as [st2|] eqn:Havc; [|discriminate].
  inversion Hpost; subst st2. clear Hpost.
  destruct (avc_eval _ _ _ _ _ Havc) as [_ [_ [cs2 [Hc2 _]]]].
  assert (Hc2' : exists cs2, cons st' = cons st1 ++ cs2) by (exists cs2; exact Hc2).
  rewrite (glue_vars st st1 st' Hv1), (glue_cons st st1 st' cs1 Hc1 Hc2').
  assert (Hn1 : next_id st1 = next_id st) by (apply glue_next; exact Hv1).
  assert (Hnc1 : new_cons st st1 = cs1) by (unfold new_cons; rewrite Hc1; apply skipn_app_exact).
  rewrite Hnc1 in Hsem.
  pose proof (avc_exact false st1 (invert1 l) g st' en Hwf) as Hex. rewrite Hn1 in Hex.
  specialize (Hex (invert1_fresh _ _ Hfr) (invert1_defined _ _ Hdef) Havc). simpl in Hex.
  unfold spec_not_segmenting. split.
  - intros [en' [Hag [Hb Hs]]]. rewrite forallb_app in Hs. apply andb_true_iff in Hs. destruct Hs as [Hs1 Hs2].
    split.
    + apply (independent_ext g (pattern en' l)); [intros v; symmetry; apply (pattern_agree _ _ _ _ Hag Hfr)|].
      apply (Hsem en' (acts_defined_agree _ _ _ _ Hag Hfr Hdef)). exact Hs1.
    + apply (connected_invert en l g Hwf Hdef Hlen). apply Hex. exists en'. auto.
  - intros [Hind Hcon]. apply (connected_invert en l g Hwf Hdef Hlen) in Hcon. apply Hex in Hcon.
    destruct Hcon as [en' [Hag [Hb Hs2]]]. exists en'. split; [exact Hag|]. split; [exact Hb|].
    rewrite forallb_app. apply andb_true_iff. split; [|exact Hs2].
    apply (Hsem en' (acts_defined_agree _ _ _ _ Hag Hfr Hdef)).
    apply (independent_ext g (pattern en l)); [intros v; apply (pattern_agree _ _ _ _ Hag Hfr)|exact Hind].
Qed.

(* the same with config.use_graph_primitive = True: nothing is declared, the
   connectivity half is one native-operator node whose meaning is connectivity *)
Theorem not_segmenting_graph_primitive st l g st' :
  wf_graph g = true -> length l = nv g ->
  (forall a, In a l -> is_bool_expr_like a = true) ->
  post_not_segmenting true st (AArr1 l) (Some g) = (st', None) ->
  vars st' = vars st /\
  forall en, acts_defined en l ->
    (forallb (holds gsem_avc en) (new_cons st st') = true <-> spec_not_segmenting g (pattern en l)).
Proof.
  intros Hwf Hlen Hbool Hpost.
  assert (Hedges : forall a b, In (a, b) (edges g) -> a < length l /\ b < length l).
  { intros a b Hin. destruct (In_nth_error _ _ Hin) as [k Hk]. rewrite Hlen. apply (wf_graph_edge g k a b Hwf Hk). }
  destruct (not_adjacent_graph_exact st l g true Hedges Hbool) as [st1 [Hna [Hv1 [_ [[cs1 Hc1] Hsem]]]]].
  rewrite post_nseg_graph_unfold, Hna in Hpost.
  destruct (post_avc st1 (invert1 l) g false true) as [st2|] eqn:Havc; [|discriminate].
  inversion Hpost; subst st2. clear Hpost.
  destruct (avc_primitive _ _ _ _ Havc) as [_ [Hv2 [_ [e [Hc2 [_ He]]]]]].
  split; [congruence|]. intros en Hdef.
  assert (Hc2' : exists cs2, cons st' = cons st1 ++ cs2) by (exists [e]; exact Hc2).
  rewrite (glue_cons st st1 st' cs1 Hc1 Hc2').
  assert (Hnc1 : new_cons st st1 = cs1) by (unfold new_cons; rewrite Hc1; apply skipn_app_exact).
  assert (Hnc2 : new_cons st1 st' = [e]) by (unfold new_cons; rewrite Hc2; apply skipn_app_exact).
  rewrite Hnc1 in Hsem. rewrite Hnc2, forallb_app, andb_true_iff. cbn [forallb]. rewrite andb_true_r.
  destruct (He en (invert1_defined _ _ Hdef)) as [_ Hh]. specialize (Hh Hwf).
  unfold spec_not_segmenting. rewrite (Hsem en Hdef), Hh, (connected_invert en l g Hwf Hdef Hlen). reflexivity.
Qed.

(* ------------------------------------------------------------------------ *)
(* grids                                                                     *)

Lemma post_nseg_grid_unfold cfg st h w l :
  post_not_segmenting cfg st (AArr2 h w l) None =
  match post_not_adjacent st (AArr2 h w l) None with
  | (st1, Some e) => (st1, Some e)
  | (st1, None) =>
      if Nat.eqb h 1 || Nat.eqb w 1 then
        match post_avc st1 (invert1 l) (grid_graph h w) false cfg with
        | Ok st2 => (st2, None)
        | Err e => (st1, Some e)
        end
      else post_diag st1 h w l
  end.
Proof. reflexivity. Qed.

(* the specialised encoding, h, w >= 2, any size: completable exactly when the
   pattern is independent on the grid graph and satisfies the diagonal forest
   condition *)
Theorem not_segmenting_grid_diag_exact cfg st h w l en :
  2 <= h -> 2 <= w -> length l = h * w -> (forall a, In a l -> is_boolexpr a = true) ->
  fresh_below (next_id st) l -> acts_defined en l ->
  exists st',
    post_not_segmenting cfg st (AArr2 h w l) None = (st', None) /\
    ((exists en', agree_below (next_id st) en en' /\
                  in_bounds_from en' (next_id st) (new_vars st st') = true /\
                  forallb (holds gsem_avc en') (new_cons st st') = true)
     <-> (independent (grid_graph h w) (pattern en l) /\ spec_diag h w (pattern en l))).
Proof.
  intros Hh Hw Hlen Hbx Hfr Hdef.
  destruct (not_adjacent_grid_exact st h w l Hlen) as [st1 [Hna [Hv1 [_ [[cs1 Hc1] Hsem]]]]].
  assert (Hn1 : next_id st1 = next_id st) by (apply glue_next; exact Hv1).
  assert (Hfr1 : fresh_below (next_id st1) l) by (rewrite Hn1; exact Hfr).
  destruct (diag_cert_exact st1 h w l en ltac:(nia) Hlen Hbx Hfr1 Hdef) as [st' [Hpd Hex]].
  exists st'. split.
  - rewrite post_nseg_grid_unfold, Hna.
    destruct (Nat.eqb_spec h 1); [lia|]. destruct (Nat.eqb_spec w 1); [lia|]. exact Hpd.
  - destruct (post_diag_spec st1 h w l ltac:(nia) Hlen Hbx) as [st'' [Hpd' [_ [_ [cs2 [Hc2 _]]]]]].
    rewrite Hpd in Hpd'. inversion Hpd'; subst st''.
    assert (Hc2' : exists cs2, cons st' = cons st1 ++ cs2) by (exists cs2; exact Hc2).
    rewrite (glue_vars st st1 st' Hv1), (glue_cons st st1 st' cs1 Hc1 Hc2').
    assert (Hnc1 : new_cons st st1 = cs1) by (unfold new_cons; rewrite Hc1; apply skipn_app_exact).
    rewrite Hnc1 in Hsem. rewrite Hn1 in Hex. split.
    + intros [en' [Hag [Hb Hs]]]. rewrite forallb_app in Hs. apply andb_true_iff in Hs. destruct Hs as [Hs1 Hs2].
      split.
      * apply (independent_ext _ (pattern en' l)); [intros v; symmetry; apply (pattern_agree _ _ _ _ Hag Hfr)|].
        apply (Hsem en' (acts_defined_agree _ _ _ _ Hag Hfr Hdef)). exact Hs1.
      * apply Hex. exists en'. auto.
    + intros [Hind Hsd]. apply Hex in Hsd. destruct Hsd as [en' [Hag [Hb Hs2]]].
      exists en'. split; [exact Hag|]. split; [exact Hb|].
      rewrite forallb_app. apply andb_true_iff. split; [|exact Hs2].
      apply (Hsem en' (acts_defined_agree _ _ _ _ Hag Hfr Hdef)).
      apply (independent_ext _ (pattern en l)); [intros v; apply (pattern_agree _ _ _ _ Hag Hfr)|exact Hind].
Qed.

(* ... which, up to the kernel-checked bound, is the graph definition *)
Theorem not_segmenting_grid_exact_bounded cfg st h w l en :
  2 <= h -> 2 <= w -> h * w <= 16 ->
  length l = h * w -> (forall a, In a l -> is_boolexpr a = true) ->
  fresh_below (next_id st) l -> acts_defined en l ->
  exists st',
    post_not_segmenting cfg st (AArr2 h w l) None = (st', None) /\
    ((exists en', agree_below (next_id st) en en' /\
                  in_bounds_from en' (next_id st) (new_vars st st') = true /\
                  forallb (holds gsem_avc en') (new_cons st st') = true)
     <-> spec_not_segmenting (grid_graph h w) (pattern en l)).
Proof.
  intros Hh Hw Hb Hlen Hbx Hfr Hdef.
  destruct (not_segmenting_grid_diag_exact cfg st h w l en Hh Hw Hlen Hbx Hfr Hdef) as [st' [Hp Hex]].
  exists st'. split; [exact Hp|]. rewrite Hex. unfold spec_not_segmenting. split.
  - intros [Hi Hs]. split; [exact Hi|]. apply (diag_equiv_16 h w _ Hh Hw Hb Hi). exact Hs.
  - intros [Hi Hc]. split; [exact Hi|]. apply (diag_equiv_16 h w _ Hh Hw Hb Hi). exact Hc.
Qed.

(* single rows and single columns use the connectivity encoding: exact for
   every length *)
Theorem not_segmenting_line_exact st h w l st' en :
  h = 1 \/ w = 1 -> length l = h * w -> (forall a, In a l -> is_boolexpr a = true) ->
  fresh_below (next_id st) l -> acts_defined en l ->
  post_not_segmenting false st (AArr2 h w l) None = (st', None) ->
  ((exists en', agree_below (next_id st) en en' /\
                in_bounds_from en' (next_id st) (new_vars st st') = true /\
                forallb (holds gsem_avc en') (new_cons st st') = true)
   <-> spec_not_segmenting (grid_graph h w) (pattern en l)).
Proof.
  intros Hline Hlen Hbx Hfr Hdef Hpost.
  pose proof (grid_wf h w) as Hwf.
  assert (Hlen' : length l = nv (grid_graph h w)) by exact Hlen.
  destruct (not_adjacent_grid_exact st h w l Hlen) as [st1 [Hna [Hv1 [_ [[cs1 Hc1] Hsem]]]]].
  rewrite post_nseg_grid_unfold, Hna in Hpost.
  assert (Hsel : Nat.eqb h 1 || Nat.eqb w 1 = true).
  { destruct Hline as [-> | ->]; [reflexivity|apply orb_true_r]. }
  rewrite Hsel in Hpost.
  destruct (post_avc st1 (invert1 l) (grid_graph h w) false false) as [st2|] eqn:Havc; [|discriminate].
  inversion Hpost; subst st2. clear Hpost.
  destruct (avc_eval _ _ _ _ _ Havc) as [_ [_ [cs2 [Hc2 _]]]].
  assert (Hc2' : exists cs2, cons st' = cons st1 ++ cs2) by (exists cs2; exact Hc2).
  rewrite (glue_vars st st1 st' Hv1), (glue_cons st st1 st' cs1 Hc1 Hc2').
  assert (Hn1 : next_id st1 = next_id st) by (apply glue_next; exact Hv1).
  assert (Hnc1 : new_cons st st1 = cs1) by (unfold new_cons; rewrite Hc1; apply skipn_app_exact).
  rewrite Hnc1 in Hsem.
  pose proof (avc_exact false st1 (invert1 l) (grid_graph h w) st' en Hwf) as Hex. rewrite Hn1 in Hex.
  specialize (Hex (invert1_fresh _ _ Hfr) (invert1_defined _ _ Hdef) Havc). simpl in Hex.
  unfold spec_not_segmenting. split.
  - intros [en' [Hag [Hb Hs]]]. rewrite forallb_app in Hs. apply andb_true_iff in Hs. destruct Hs as [Hs1 Hs2].
    split.
    + apply (independent_ext _ (pattern en' l)); [intros v; symmetry; apply (pattern_agree _ _ _ _ Hag Hfr)|].
      apply (Hsem en' (acts_defined_agree _ _ _ _ Hag Hfr Hdef)). exact Hs1.
    + apply (connected_invert en l _ Hwf Hdef Hlen'). apply Hex. exists en'. auto.
  - intros [Hind Hcon]. apply (connected_invert en l _ Hwf Hdef Hlen') in Hcon. apply Hex in Hcon.
    destruct Hcon as [en' [Hag [Hb Hs2]]]. exists en'. split; [exact Hag|]. split; [exact Hb|].
    rewrite forallb_app. apply andb_true_iff. split; [|exact Hs2].
    apply (Hsem en' (acts_defined_agree _ _ _ _ Hag Hfr Hdef)).
    apply (independent_ext _ (pattern en l)); [intros v; apply (pattern_agree _ _ _ _ Hag Hfr)|exact Hind].
Qed.

(* ------------------------------------------------------------------------ *)
(* the grid form accepts what the explicit-graph form accepts on the grid    *)

Definition completable (st st' : state) (en : env) : Prop :=
  exists en', agree_below (next_id st) en en' /\
              in_bounds_from en' (next_id st) (new_vars st st') = true /\
              forallb (holds gsem_avc en') (new_cons st st') = true.

Theorem grid_form_matches_graph_form_bounded st h w l en stg stx :
  1 <= h -> 1 <= w -> (h = 1 \/ w = 1 \/ h * w <= 16) ->
  length l = h * w -> (forall a, In a l -> is_boolexpr a = true) ->
  fresh_below (next_id st) l -> acts_defined en l ->
  post_not_segmenting false st (AArr2 h w l) None = (stg, None) ->
  post_not_segmenting false st (AArr1 l) (Some (grid_graph h w)) = (stx, None) ->
  (completable st stg en <-> completable st stx en).
Proof.
  intros Hh Hw Hcase Hlen Hbx Hfr Hdef Hg Hx.
  assert (Hbool : forall a, In a l -> is_bool_expr_like a = true) by (intros a Ha; apply is_boolexpr_like, Hbx, Ha).
  pose proof (not_segmenting_graph_exact st l (grid_graph h w) stx en (grid_wf h w) Hlen Hbool Hfr Hdef Hx) as Hgx.
  unfold completable. rewrite Hgx.
  destruct (Nat.eq_dec h 1) as [H1|H1]; [apply (not_segmenting_line_exact st h w l stg en); auto|].
  destruct (Nat.eq_dec w 1) as [W1|W1]; [apply (not_segmenting_line_exact st h w l stg en); auto|].
  assert (Hb : h * w <= 16) by (destruct Hcase as [?|[?|?]]; [lia|lia|assumption]).
  destruct (not_segmenting_grid_exact_bounded false st h w l en ltac:(lia) ltac:(lia) Hb Hlen Hbx Hfr Hdef)
    as [st' [Hp Hex]].
  rewrite Hg in Hp. inversion Hp; subst st'. exact Hex.
Qed.

(* what the unproved planar-separation statement would add: exactness of the
   specialised encoding for every grid size *)
Theorem not_segmenting_grid_exact_if_diag_equiv cfg st h w l en :
  diag_equiv_statement ->
  2 <= h -> 2 <= w ->
  length l = h * w -> (forall a, In a l -> is_boolexpr a = true) ->
  fresh_below (next_id st) l -> acts_defined en l ->
  exists st',
    post_not_segmenting cfg st (AArr2 h w l) None = (st', None) /\
    ((exists en', agree_below (next_id st) en en' /\
                  in_bounds_from en' (next_id st) (new_vars st st') = true /\
                  forallb (holds gsem_avc en') (new_cons st st') = true)
     <-> spec_not_segmenting (grid_graph h w) (pattern en l)).
Proof.
  intros Heq Hh Hw Hlen Hbx Hfr Hdef.
  destruct (not_segmenting_grid_diag_exact cfg st h w l en Hh Hw Hlen Hbx Hfr Hdef) as [st' [Hp Hex]].
  exists st'. split; [exact Hp|]. rewrite Hex. unfold spec_not_segmenting. split.
  - intros [Hi Hs]. split; [exact Hi|]. apply (Heq h w _ Hh Hw Hi). exact Hs.
  - intros [Hi Hc]. split; [exact Hi|]. apply (Heq h w _ Hh Hw Hi). exact Hc.
Qed.

(* ------------------------------------------------------------------------ *)
(* error points                                                              *)

Lemma grid_cons_empty h w : h * w = 0 -> grid_cons h w [] = [].
Proof.
  intros H0. unfold grid_cons, pair_cons, nrows, ncols.
  assert (E1 : (Z.max (Z.of_nat h - 1) 0 * Z.of_nat w = 0)%Z) by nia.
  assert (E2 : (Z.of_nat h * Z.max (Z.of_nat w - 1) 0 = 0)%Z) by nia.
  rewrite E1, E2. reflexivity.
Qed.

(* an empty BoolArray2D: not_adjacent posts nothing; the segmenting helper
   raises ValueError (int_array with hi = -1 < lo = 0) and posts nothing *)
Theorem empty_grid_behaviour st h w :
  h * w = 0 ->
  post_not_adjacent st (AArr2 h w []) None = (st, None) /\
  post_not_segmenting false st (AArr2 h w []) None = (st, Some ValueError).
Proof.
  intros H0.
  assert (Hna : post_not_adjacent st (AArr2 h w []) None = (st, None)).
  { rewrite (post_na_grid h w [] (eq_sym H0)), (grid_cons_empty h w H0). rewrite add_cons_nil. reflexivity. }
  split; [exact Hna|]. rewrite post_nseg_grid_unfold, Hna.
  destruct (Nat.eqb h 1 || Nat.eqb w 1).
  - unfold post_avc. simpl nv. rewrite H0. reflexivity.
  - unfold post_diag, int_array. rewrite H0. reflexivity.
Qed.

(* a graph without vertices: ValueError from the callee, after not_adjacent
   has (vacuously) succeeded; with the native operator the empty graph is fine *)
Theorem zero_vertex_graph_behaviour st g :
  nv g = 0 -> edges g = [] ->
  post_not_segmenting false st (AArr1 []) (Some g) = (st, Some ValueError).
Proof.
  intros Hn He. rewrite post_nseg_graph_unfold. unfold post_not_adjacent. rewrite He. simpl post_each.
  unfold post_avc. simpl. unfold int_array. rewrite Hn. reflexivity.
Qed.

(* the wrappers' TypeErrors *)
Theorem wrapper_type_errors cfg st h w l g l' :
  post_not_adjacent st (AArr2 h w l) (Some g) = (st, Some TypeError) /\
  post_not_adjacent st (ASeq l') None = (st, Some TypeError) /\
  post_not_adjacent st (AArr1 l') None = (st, Some TypeError) /\
  post_not_segmenting cfg st (AArr2 h w l) (Some g) = (st, Some TypeError) /\
  post_not_segmenting cfg st (ASeq l') None = (st, Some TypeError) /\
  post_not_segmenting cfg st (AArr1 l') None = (st, Some TypeError).
Proof. repeat split. Qed.

(* ------------------------------------------------------------------------ *)
(* the hypotheses of the theorems are satisfiable: a 2 x 3 BoolArray2D of
   fresh variables, all inactive -- the block is completable *)
Example grid_theorem_instance :
  let st := fst (bool_array empty_state 6) in
  let l := snd (bool_array empty_state 6) in
  let en := {| eb := fun _ => false; ei := fun _ => 0%Z |} in
  exists st', post_not_segmenting false st (AArr2 2 3 l) None = (st', None) /\ completable st st' en.
Proof.
  intros st l en.
  assert (Hlen : length l = 2 * 3) by reflexivity.
  assert (Hbx : forall a, In a l -> is_boolexpr a = true).
  { intros a Ha. simpl in Ha. repeat (destruct Ha as [<-|Ha]; [reflexivity|]). destruct Ha. }
  assert (Hfr : fresh_below (next_id st) l).
  { intros a Ha. simpl in Ha. repeat (destruct Ha as [<-|Ha]; [cbv; lia|]). destruct Ha. }
  assert (Hdef : acts_defined en l).
  { intros a Ha. simpl in Ha. repeat (destruct Ha as [<-|Ha]; [eexists; reflexivity|]). destruct Ha. }
  destruct (not_segmenting_grid_exact_bounded false st 2 3 l en ltac:(lia) ltac:(lia) ltac:(simpl; lia)
              Hlen Hbx Hfr Hdef) as [st' [Hp Hex]].
  exists st'. split; [exact Hp|]. apply Hex. split.
  - apply independent_b_spec. vm_compute. reflexivity.
  - apply connected_b_spec; [apply grid_wf|]. vm_compute. reflexivity.
Qed.

(* ------------------------------------------------------------------------ *)
(* on well-formed input nothing is raised (the hypotheses "... = (st', None)"
   of the exactness theorems are met)                                        *)

Theorem not_segmenting_graph_succeeds st l g :
  wf_graph g = true -> 1 <= nv g -> length l = nv g ->
  (forall a, In a l -> is_bool_expr_like a = true) ->
  exists st', post_not_segmenting false st (AArr1 l) (Some g) = (st', None).
Proof.
  intros Hwf Hn Hlen Hbool.
  assert (Hedges : forall a b, In (a, b) (edges g) -> a < length l /\ b < length l).
  { intros a b Hin. destruct (In_nth_error _ _ Hin) as [k Hk]. rewrite Hlen. apply (wf_graph_edge g k a b Hwf Hk). }
  destruct (not_adjacent_graph_exact st l g true Hedges Hbool) as [st1 [Hna _]].
  destruct (post_avc_succeeds st1 (invert1 l) g false Hwf Hn) as [st2 H2].
  - unfold invert1. rewrite map_length. lia.
  - apply invert1_bool.
  - exists st2. rewrite post_nseg_graph_unfold, Hna, H2. reflexivity.
Qed.

Theorem not_segmenting_line_succeeds st h w l :
  h = 1 \/ w = 1 -> 1 <= h * w -> length l = h * w ->
  exists st', post_not_segmenting false st (AArr2 h w l) None = (st', None).
Proof.
  intros Hline Hn Hlen.
  destruct (not_adjacent_grid_exact st h w l Hlen) as [st1 [Hna _]].
  destruct (post_avc_succeeds st1 (invert1 l) (grid_graph h w) false (grid_wf h w)) as [st2 H2].
  - exact Hn.
  - unfold invert1. rewrite map_length. simpl. lia.
  - apply invert1_bool.
  - exists st2. rewrite post_nseg_grid_unfold, Hna.
    assert (Hsel : Nat.eqb h 1 || Nat.eqb w 1 = true).
    { destruct Hline as [-> | ->]; [reflexivity|apply orb_true_r]. }
    rewrite Hsel, H2. reflexivity.
Qed.
