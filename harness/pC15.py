"""C15 — serializer combinators round-trip every value they accept."""
import hashlib

import vlib
import c15gen as G

PROPS = "Props/C15.v"
RULE = ("correspondence: random combinator terms (depth <= 4, curated puzzle terms first) x generated values (boundary-biased: "
        "hex 15/16/255/256/4095, run lengths around the 1-character limit, partial last digit groups, all board sizes incl. 1xN/Nx1/1x1) "
        "are run through the real combinator objects' serialize/deserialize methods, serialize_problem/deserialize_problem and the URL "
        "wrappers, and through the extracted Coq model (ser/de/serialize_problem/...); results compared as None | value | error enum, "
        "with consumed counts and strings.  Room partitions: every partition of every board with <= 6 cells in all room/cell orders "
        "(capped per partition in the quick tier), random boards up to 6x6.  Malformed streams: ill-shaped values for serialize, "
        "mutated/truncated/extended strings and every Latin-1 character for deserialize; int()/isdigit models on all short strings. "
        "search: Python-only round trip (serialize_problem then deserialize_problem and the combinator's own deserialize with a "
        "follow-compatible suffix and a prefix offset) against the independent canonical form (rooms sorted by least cell, cells "
        "row-major, values carried with their rooms).  A case is non-trivial when it is a distinct (kind, term, size, value/text).")
TRUSTED = [
    "CPython str/int()/str.isdigit/hex/re semantics on Latin-1 text as transcribed in Codec/Comb.v (py_int, isdigit_c, url regex reading); validated against the interpreter on every run (kinds 'int', 'isdigit', 'get_puzzle_info_from_url', 'deserialize_problem_as_url')",
    "reading of the property: 'accepts' (CombWf.accepts/exact/consumed_all) = serialization succeeds on a value of the combinator's documented shape (Seq: list of exactly n items, Grid: exactly h rows of w, Tupl: per-element lists consumed completely and without a padded MultiDigit group, Rooms: partition of the board into orthogonally connected non-empty rooms); lenient inputs the serializer also tolerates (over-long lists, ragged rows, extra rows) are outside the domain",
    "well-formedness (CombWf.wf): OneOf alternatives strict, non-nullable, pairwise disjoint first-character sets; Tupl/Seq/Grid/ValuedRooms: continuation set of an element disjoint from the first set of every later element (DecInt must be followed by a non-digit); Rooms/ValuedRooms are not allowed as OneOf alternatives",
    "ValuedRooms.serialize's rooms/values sort (sorted(zip(..), key=min(room))) is modelled as a stable insertion sort on the keys (Comb.sort_by_key); on a valid partition the keys (least cells) are pairwise distinct, so every correct sort returns the same list; compared with CPython's sort on every run (all partitions of boards with <= 6 cells in all room/cell orders, random up to 6x6). Rooms and ValuedRooms in arbitrary order of rooms and cells, and 'every valid partition serializes', are Coq theorems (rooms_roundtrip_any_partition, valued_rooms_roundtrip_any_order, rooms_statements_hold)",
]
ASSUMPTIONS = [
    "value universe: int, str (Latin-1), None, list, tuple; bool/float/other objects are outside the model",
    "text is Latin-1 (code points 0..255); characters above U+00FF are outside the model",
    "0 <= idx <= len(data) for serialize/deserialize (all internal calls satisfy it)",
    "runs of more than 4000 decimal digits in a text are excluded: CPython's int()/str() refuse conversions above 4300 digits (sys.int_max_str_digits) with ValueError, which py_int / py_str_int do not model",
    "non-termination of the Python loops (Seq/Grid/ValuedRooms over a base that consumes no item, e.g. FixStr) is reported by the model as OtherError; such terms are excluded from search and the tie runs them under a 1 s alarm",
    "sorted(key=min)/min() on ill-typed room lists: the model uses a stable insertion sort; which comparisons CPython's sort performs on incomparable data is not modelled (such inputs are excluded from the tie when they have >= 3 rooms)",
    "board height and width >= 1 in the theorems (the model and the tie also cover 0 and mismatching sizes)",
]

ERR = {1: "IndexError", 2: "KeyError", 3: "AssertionError", 4: "TypeError", 5: "ValueError",
       6: "RecursionError", 7: "NotImplementedError", 8: "Other"}

SIZES = [(1, 1), (1, 2), (2, 1), (1, 3), (3, 1), (2, 2), (2, 3), (3, 2), (1, 5), (5, 1), (3, 3), (2, 4), (4, 3), (1, 7), (6, 6), (4, 5)]


def key_of(*parts):
    s = "|".join(str(p) for p in parts)
    return s if len(s) <= 120 else s[:80] + "#" + hashlib.md5(s.encode()).hexdigest()[:10]


# ---------------------------------------------------------------- implementation side

def can_zero(t):
    """may serialize() consume no item (then a Seq/Grid/ValuedRooms over it never terminates in Python)"""
    k = t[0]
    return k == "F" or (k == "M" and t[2] == 0) or (k == "O" and any(can_zero(x) for x in t[1]))


def may_diverge(t):
    k = t[0]
    if k in ("Q", "G", "V"):
        return can_zero(t[1]) or may_diverge(t[1])
    if k in ("O", "T"):
        return any(may_diverge(x) for x in t[1])
    return False


def impl_ser(c, h, w, data, idx):
    from cspuz.problem_serializer import CombinatorEnv
    import c15tie
    r = c15tie.timed(lambda: vlib.guarded(lambda: c.serialize(CombinatorEnv(h, w), data, idx)))
    return r if r[0] == "err" or r[1] is None else ("ok", (r[1][0], r[1][1]))


def impl_de(c, h, w, text, idx):
    from cspuz.problem_serializer import CombinatorEnv
    r = vlib.guarded(lambda: c.deserialize(CombinatorEnv(h, w), text, idx))
    return r if r[0] == "err" or r[1] is None else ("ok", (r[1][0], r[1][1]))


def parse_model(r, kind):
    t = r.split()
    if t[0] == "E":
        return ("err", ERR[int(t[1])])
    if t[0] == "N":
        return ("ok", None)
    if t[0] == "EXN":
        return ("model-exn", r)
    if kind == "ser":      # S k xHEX
        return ("ok", (int(t[1]), G.unhx(t[2])))
    if kind == "de":       # S k [ pv* ]
        v, _ = G.parse_pv(t, 2)
        return ("ok", (int(t[1]), v))
    if kind == "str":      # S xHEX
        return ("ok", G.unhx(t[1]))
    if kind == "pv":       # S pv
        v, _ = G.parse_pv(t, 1)
        return ("ok", v)
    if kind == "int":
        return ("ok", int(t[1]))
    raise RuntimeError("bad model reply " + r)


# ---------------------------------------------------------------- case stream

def gen_terms(ctx, n):
    rng = ctx.rng
    out = list(G.CURATED)
    tries = 0
    while len(out) < n and tries < 50 * n:
        tries += 1
        t = G.gen_term(rng, rng.choice([1, 2, 2, 3, 3, 4]))
        try:
            G.build(t)
        except Exception:
            continue
        if G.wf(t) or rng.random() < 0.15:
            out.append(t)
    return out


def gen_valid_cases(ctx, terms, per_term):
    """(term, h, w, value) with value generated in the documented shape of the term"""
    rng = ctx.rng
    for t in terms:
        for i in range(per_term):
            h, w = SIZES[i % len(SIZES)] if i < len(SIZES) and G.has_rooms(t) else rng.choice(SIZES)
            try:
                items = G.gen_chunk(rng, t, h, w)
            except G.NoValue:
                continue
            yield t, h, w, items


def room_cases(ctx):
    """all partitions of boards with <= 6 cells in all orders (capped in quick), random up to 6x6"""
    rng = ctx.rng
    shapes = [(h, w) for h in range(1, 7) for w in range(1, 7) if h * w <= 6]
    for (h, w) in shapes:
        for part in G.all_partitions(h, w):
            cap = None if (ctx.thorough or h * w <= 4) else 12
            orders = list(G.all_orders(part, cap=None if cap is None else 4000))
            if cap is not None and len(orders) > cap:
                orders = [orders[0], orders[-1]] + rng.sample(orders, cap - 2)
            for rooms in orders:
                yield h, w, rooms
    for _ in range(400 if ctx.thorough else 60):
        h, w = rng.randint(1, 6), rng.randint(1, 6)
        yield h, w, G.shuffled_rooms(rng, G.random_partition(rng, h, w))
    for (h, w) in [(1, 40), (40, 1), (12, 12), (35, 35)] + ([(60, 60)] if ctx.thorough else []):
        yield h, w, G.components(h, w, G.edges(h, w))           # one big room
        yield h, w, G.shuffled_rooms(rng, G.random_partition(rng, h, w))


# ---------------------------------------------------------------- correspondence

def correspond(ctx):
    try:
        m = ctx.model("C15")
    except Exception as ex:
        ctx._c15_model = None
        raise
    ctx._c15_model = m
    import c15tie
    c15tie.run(ctx, m)


# ---------------------------------------------------------------- search (Python only)

_OBJ = {}


def _obj(t):
    k = G.term_tok(t)
    if k not in _OBJ:
        _OBJ[k] = G.build(t)
    return _OBJ[k]


def _chosen(t, env, data, idx):
    """the alternative of a OneOf that serializes data[idx] (first one that does not return None)"""
    for a in t[1]:
        if _obj(a).serialize(env, data, idx) is not None:
            return a
    return None


def exact_ok(t, env, data, idx):
    """Python twin of CombWf.exact: a MultiDigit group reached here is complete"""
    if t[0] == "M":
        return len(data) - idx >= t[2]
    if t[0] == "O":
        a = _chosen(t, env, data, idx)
        return True if a is None else exact_ok(a, env, data, idx)
    return True


def shape_ok(t, env, data, idx):
    """Python twin of the consumption conditions of CombWf.accepts (shapes themselves come from the generator)"""
    k = t[0]
    if k == "O":
        a = _chosen(t, env, data, idx)
        return True if a is None else shape_ok(a, env, data, idx)
    if k == "T":
        v = data[idx]
        if not isinstance(v, tuple) or len(v) != len(t[1]) or not all(isinstance(x, list) for x in v):
            return False
        for x, lst in zip(t[1], v):
            r = _obj(x).serialize(env, lst, 0)
            if r is None or r[0] != len(lst) or not exact_ok(x, env, lst, 0) or not shape_ok(x, env, lst, 0):
                return False
        return True
    if k in ("Q", "G", "V"):
        v = data[idx]
        if k == "Q":
            if not isinstance(v, list) or len(v) != t[2]:
                return False
            d = v
        elif k == "G":
            gh, gw = (env.height, env.width) if t[2] is None else t[2]
            if not isinstance(v, list) or len(v) != gh or not all(isinstance(r, list) and len(r) == gw for r in v):
                return False
            d = [x for row in v for x in row]
        else:
            d = [val for _, val in sorted(zip(v[0], v[1]), key=lambda rv: min(rv[0]))]
        p = 0
        while p < len(d):
            if not shape_ok(t[1], env, d, p):
                return False
            r = _obj(t[1]).serialize(env, d, p)
            if r is None or r[0] <= 0:
                return False
            p += r[0]
        return True
    return True


def _viol(ctx, cls, key, what, detail):
    seen = ctx.__dict__.setdefault("_c15_cls", {})
    seen[cls] = seen.get(cls, 0) + 1
    if seen[cls] <= 2:
        ctx.violation(key, what, detail)


def roundtrip_one(ctx, t, c, h, w, items, kind, must_accept=False):
    """items: what one serialize call consumes.  Returns nothing; records violations."""
    from cspuz.problem_serializer import serialize_problem, deserialize_problem
    rng = ctx.rng
    trep = G.term_repr(t)
    r = impl_ser(c, h, w, items, 0)
    if r[0] != "ok" or r[1] is None or r[1][0] != len(items):
        ctx.count("search:not-accepted")
        if must_accept:
            ctx.prop_case(kind, (trep, h, w, repr(items)))
            _viol(ctx, (kind + "-ser", trep, min(h, w) == 1), key_of(kind + "-ser", trep, "%dx%d" % (h, w), repr(items)),
                  "a value of the documented domain (partition of the board into connected rooms) is not serialized",
                  {"term": trep, "term_tok": G.term_tok(t), "h": h, "w": w, "items": repr(items), "text": None,
                   "decoded": repr(r), "expected": "a string"})
        return
    s = r[1][1]
    from cspuz.problem_serializer import CombinatorEnv
    ok_shape = vlib.guarded(lambda: exact_ok(t, CombinatorEnv(h, w), items, 0) and shape_ok(t, CombinatorEnv(h, w), items, 0))
    if ok_shape != ("ok", True):
        ctx.count("search:padded-group-or-partial-consumption-skipped")
        return
    if len(items) == 1:
        r2 = vlib.guarded(lambda: serialize_problem(c, items[0], height=h, width=w))
        if r2 != ("ok", s):
            ctx.violation(key_of(kind + "-sp", trep, "%dx%d" % (h, w), repr(items)),
                          "serialize_problem differs from combinator.serialize", {"term": trep, "got": repr(r2), "want": s})
            return
    want = G.canon_items(t, items)
    ctx.prop_case(kind, (trep, h, w, repr(items)))
    ctx.count("search:accepted")
    if len(items) == 1:
        d = vlib.guarded(lambda: deserialize_problem(c, s, height=h, width=w))
        if d != ("ok", want[0]):
            _viol(ctx, (kind, trep), key_of(kind, trep, "%dx%d" % (h, w), repr(items)),
                          "deserialize_problem(serialize_problem(v)) != canonical v",
                          {"term": trep, "term_tok": G.term_tok(t), "h": h, "w": w, "items": repr(items), "text": s,
                           "decoded": repr(d), "expected": repr(want[0])})
            return
    # the combinator's own deserialize: with a follow-compatible suffix and at an offset
    suffixes = ["", "/", "zz", "\x00"] + [rng.choice(G.ALL_CHARS) for _ in range(2)]
    for suf in suffixes:
        if not G.follow_ok(t, suf):
            continue
        pre = rng.choice(["", "", "7", "ab/"])
        d = impl_de(c, h, w, pre + s + suf, len(pre))
        ok = d[0] == "ok" and d[1] is not None and d[1][0] == len(s) and d[1][1] == want
        if not ok:
            _viol(ctx, (kind + "-suffix", trep), key_of(kind + "-suffix", trep, "%dx%d" % (h, w), repr(items), repr(suf)),
                          "deserialize(prefix + serialize(v) + suffix, len(prefix)) does not return (len, canonical v)",
                          {"term": trep, "term_tok": G.term_tok(t), "h": h, "w": w, "items": repr(items), "text": s,
                           "prefix": pre, "suffix": suf, "decoded": repr(d), "expected": repr((len(s), want))})
            return


PROBES = [-4097, -36, -2, -1, 0, 1, 9, 10, 15, 16, 35, 36, 255, 256, 4095, 4096, 10 ** 20, "", "0", "..", "?", None, (), [],
          (0, 1), [0]]


def leaf_probes(ctx, terms):
    """whatever a leaf combinator accepts must come back: no shape leniency is involved for single items"""
    leaves = []

    def walk(t):
        if t[0] in ("F", "D", "S", "I", "H", "P", "M"):
            if t not in leaves:
                leaves.append(t)
        elif t[0] in ("O", "T"):
            for x in t[1]:
                walk(x)
        elif t[0] in ("Q", "G", "V"):
            walk(t[1])
    for t in list(terms) + [("I",), ("H",), ("M", 2, 5), ("M", 3, 3), ("P", -1, 4, 2), ("S", 0, "g"), ("S", -1, "0")]:
        walk(t)
    for t in leaves:
        if not G.wf(t):
            continue
        c = G.build(t)
        trep = G.term_repr(t)
        pool = PROBES + ([t[1]] if t[0] in ("S", "P") else []) + (list(t[1]) if t[0] == "D" else [])
        for v in pool:
            for follow in ([], [v], [v, v, 0]):
                data = [v] + follow
                r = vlib.guarded(lambda: c.serialize(vlib_env(), data, 0))
                if r[0] != "ok" or r[1] is None:
                    continue
                k, s = r[1]
                ctx.prop_case("leaf-probe", (trep, repr(data)))
                d = vlib.guarded(lambda: c.deserialize(vlib_env(), s + "/", 0)) if G.follow_ok(t, "/") else \
                    vlib.guarded(lambda: c.deserialize(vlib_env(), s, 0))
                ok = d[0] == "ok" and d[1] is not None and d[1][0] == len(s) and d[1][1][:k] == data[:k] and \
                    all(type(a) is type(b) for a, b in zip(d[1][1][:k], data[:k])) and \
                    (len(d[1][1]) == k or (t[0] == "M" and len(data) < t[2]))
                if not ok:
                    _viol(ctx, ("leaf-probe", trep), key_of("leaf-probe", trep, repr(data)),
                          "a leaf combinator serialized a value that does not come back",
                          {"term": trep, "term_tok": G.term_tok(t), "h": 1, "w": 1, "items": repr(data[:k]), "text": s,
                           "decoded": repr(d), "expected": repr((len(s), data[:k]))})


def vlib_env():
    from cspuz.problem_serializer import CombinatorEnv
    return CombinatorEnv(1, 1)


def url_roundtrip(ctx, terms, built):
    """serialize_problem_as_url then deserialize_problem_as_url gives back (height, width, value)"""
    from cspuz.problem_serializer import serialize_problem_as_url, deserialize_problem_as_url
    rng = ctx.rng
    for (t, h, w, items) in gen_valid_cases(ctx, terms[:60], 4):
        if len(items) != 1 or G.has_rooms(t) or items[0] is None:   # a problem that is None is indistinguishable from failure
            continue
        k = G.term_tok(t)
        if k not in built:
            built[k] = G.build(t)
        c = built[k]
        r = impl_ser(c, h, w, items, 0)
        if r[0] != "ok" or r[1] is None or r[1][0] != 1 or "\n" in r[1][1]:
            continue
        from cspuz.problem_serializer import CombinatorEnv
        if vlib.guarded(lambda: exact_ok(t, CombinatorEnv(h, w), items, 0) and shape_ok(t, CombinatorEnv(h, w), items, 0)) != ("ok", True):
            continue
        name = rng.choice(["nurikabe", "x", "a.b"])
        u = vlib.guarded(lambda: serialize_problem_as_url(c, name, h, w, items[0]))
        ctx.prop_case("url-roundtrip", (G.term_repr(t), h, w, repr(items)))
        d = vlib.guarded(lambda: deserialize_problem_as_url(c, u[1], allowed_puzzles=name, return_size=True)) if u[0] == "ok" else u
        if d != ("ok", (h, w, items[0])):
            _viol(ctx, ("url", G.term_repr(t)), key_of("url-roundtrip", G.term_repr(t), "%dx%d" % (h, w), repr(items)),
                  "deserialize_problem_as_url(serialize_problem_as_url(v)) != (height, width, v)",
                  {"term": G.term_repr(t), "term_tok": k, "h": h, "w": w, "items": repr(items), "text": repr(u),
                   "decoded": repr(d), "expected": repr((h, w, items[0]))})


def search(ctx):
    m = getattr(ctx, "_c15_model", None)
    n_terms = 400 if ctx.thorough else 120
    terms = getattr(ctx, "_c15_terms", None) or gen_terms(ctx, n_terms)
    wf_terms = [t for t in terms if G.wf(t) and not may_diverge(t)]
    if m is not None:
        try:
            outs = m.batch(["WF " + G.term_tok(t) for t in wf_terms])
            wf_terms = [t for t, o in zip(wf_terms, outs) if o.strip() == "1"]
        except Exception:
            pass
    per = 60 if ctx.thorough else (30 if not ctx.deep else 60)
    built = {}
    for (t, h, w, items) in gen_valid_cases(ctx, wf_terms, per):
        k = G.term_tok(t)
        if k not in built:
            built[k] = G.build(t)
        roundtrip_one(ctx, t, built[k], h, w, items, "roundtrip", must_accept=t in G.CURATED)
    leaf_probes(ctx, terms)
    url_roundtrip(ctx, wf_terms, built)
    # room partitions
    plain = [("R", False, False), ("R", True, False), ("R", False, True)]
    valued = [("V", ("O", [("H",), ("S", -1, "g")]), True, False), ("V", ("T", [("I",), ("F", "/")]), False, False)]
    objs = {G.term_tok(t): G.build(t) for t in plain + valued}
    i = 0
    for (h, w, rooms) in room_cases(ctx):
        i += 1
        t = plain[i % 3]
        roundtrip_one(ctx, t, objs[G.term_tok(t)], h, w, [rooms], "rooms", must_accept=True)
        t = valued[i % 2]
        vals = [ctx.rng.choice([0, 1, 2, 15, 16, 255, 256, 4095]) for _ in rooms]
        if len(set(vals)) < len(vals) and len(rooms) <= 9:
            vals = list(range(len(rooms)))
        if t[1][0] == "T":
            vals = [([v], []) for v in vals]
        roundtrip_one(ctx, t, objs[G.term_tok(t)], h, w, [(rooms, vals)], "valued-rooms", must_accept=True)


def replay(ctx, rp):
    v = rp.get("violation", {}).get("detail", {})
    print(rp)
    if not v or "term_tok" not in v:
        return 0
    import c15tie
    t = c15tie.parse_term(v["term_tok"].split())[0]
    items = eval(v["items"], {})          # reprs of ints/strs/None/lists/tuples written by this harness
    before = len(ctx.violations)
    roundtrip_one(ctx, t, G.build(t), v["h"], v["w"], items, "roundtrip", must_accept=G.has_rooms(t))
    print("violations on replay:", ctx.violations[before:])
    return 1 if len(ctx.violations) > before else 0
