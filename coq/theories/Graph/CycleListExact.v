(* C06: cycle_exact / cycle_primitive / path_primitive restated with the list
   formulation of CycleList.v (single_cycle_list, single_path_list). *)
From Coq Require Import ZArith List Bool Arith Lia.
From Cspuz Require Import Lib.PyErr Core.Expr Core.Program Graph.GraphModel Graph.Cycle
  Graph.CycleMain Graph.CyclePrim Graph.CycleList Graph.CycleListProofs Graph.CycleListIndex.
Import ListNotations.
Local Open Scope nat_scope.

(* the auxiliary-variable encoding of active_edges_single_cycle can be
   completed exactly when no edge is active or the active edges form a cyclic
   list v0, e0, v1, ..., v(k-1), e(k-1) of distinct vertices and distinct edges,
   e_i joining v_i and v_((i+1) mod k) (k = 1: a self-loop, k = 2: two parallel
   edges); CycleListIndex.cycle_seq *)
Corollary cycle_exact_list gsem st acts g en st' passed :
  wf_graph g = true -> 1 <= nv g -> length (edges g) <= length acts ->
  flags_ok gsem st en acts -> in_bounds en st = true ->
  post_cycle st acts g false = Ok (st', passed) ->
  ((exists en', extends_sat gsem st st' en en') <->
   (no_active g (pattern gsem en acts) \/ cycle_seq g (pattern gsem en acts))).
Proof.
  intros Hwf Hn Hlen Hfl Hb Hpost.
  rewrite (cycle_exact gsem st acts g en st' passed Hwf Hn Hlen Hfl Hb Hpost).
  apply single_cycle_seq. exact Hwf.
Qed.

Corollary cycle_primitive_list st acts g en st' passed :
  wf_graph g = true -> length acts = length (edges g) ->
  flags_ok gsem_c06 st en acts -> in_bounds en st = true ->
  post_cycle st acts g true = Ok (st', passed) ->
  ((exists en', extends_sat gsem_c06 st st' en en') <->
   (no_active g (pattern gsem_c06 en acts) \/ cycle_seq g (pattern gsem_c06 en acts))).
Proof.
  intros Hwf Hlen Hfl Hb Hpost.
  rewrite (cycle_primitive st acts g en st' passed Hwf Hlen Hfl Hb Hpost).
  apply single_cycle_seq. exact Hwf.
Qed.

(* active_edges_single_path: no active edge, or an open list
   v0, e0, v1, ..., e(k-1), vk (k >= 1) of distinct vertices and distinct edges *)
Corollary path_primitive_list st acts g en st' passed :
  wf_graph g = true -> length acts = length (edges g) ->
  flags_ok gsem_c06 st en acts -> in_bounds en st = true ->
  post_path st acts g true = Ok (st', passed) ->
  ((exists en', extends_sat gsem_c06 st st' en en') <->
   (no_active g (pattern gsem_c06 en acts) \/ path_seq g (pattern gsem_c06 en acts))).
Proof.
  intros Hwf Hlen Hfl Hb Hpost.
  rewrite (path_primitive st acts g en st' passed Hwf Hlen Hfl Hb Hpost).
  apply single_path_seq. exact Hwf.
Qed.
