(* C11 Tier 1 - shakashaka, part 6: if every white area is an upright rectangle of whole cells or a rectangle of
   whole diagonal squares, the local patterns hold at every lattice point. *)
From Coq Require Import ZArith List Bool Arith Lia.
From Cspuz Require Import Puzzle.PuzzleBase Puzzle.ShakashakaSem Puzzle.ShakashakaGeo Puzzle.ShakashakaDiag.
Import ListNotations.
Local Open Scope nat_scope.

(* ---- the local test from facts about the eight half sectors (all states, by computation) *)
Definition hwf (a b c d j : nat) : bool :=
  match Nat.modulo j 8 with
  | 0 => negb (cov a 1) | 1 => negb (cov a 2) | 2 => negb (cov b 0) | 3 => negb (cov b 1)
  | 4 => negb (cov c 3) | 5 => negb (cov c 0) | 6 => negb (cov d 2) | _ => negb (cov d 3)
  end.
Definition sst (a b c d k : nat) : nat :=
  match Nat.modulo k 4 with 0 => a | 1 => b | 2 => c | _ => d end.
Definition glE (a b c d k : nat) : bool :=
  let h := hwf a b c d in
  implb (negb (h (2 * k)) && h (2 * k + 1))
        (h (2 * k + 2) && (negb (h (2 * k + 3)) || (h (2 * k + 4) && negb (h (2 * k + 5)) && is0 (sst a b c d (k + 1))))).
Definition glO (a b c d k : nat) : bool :=
  let h := hwf a b c d in
  implb (negb (h (2 * k + 1)) && h (2 * k + 8))
        (h (2 * k + 7) && (negb (h (2 * k + 6)) || (h (2 * k + 5) && negb (h (2 * k + 4)) && is0 (sst a b c d (k + 3))))).
Definition glC (a b c d k : nat) : bool :=
  let h := hwf a b c d in
  implb (h (2 * k + 2) && h (2 * k + 3) && h (2 * k + 4) && h (2 * k + 5) && h (2 * k + 6) && h (2 * k + 7))
        (h (2 * k) && h (2 * k + 1)).
Lemma t_complete : all4 (fun a b c d =>
  forallb (fun k => glE a b c d k && glO a b c d k && glC a b c d k) [0; 1; 2; 3] ==> vok4 a b c d) = true.
Proof. vm_compute. reflexivity. Qed.

Local Open Scope Z_scope.

Lemma lone_quarter s q : (s <= 5)%nat -> (q < 4)%nat ->
  cov s q = false -> cov s (Nat.modulo (q + 1) 4) = true -> cov s (Nat.modulo (q + 3) 4) = true -> False.
Proof.
  intros Hs Hq. destruct s as [|[|[|[|[|[|s]]]]]]; try lia; destruct q as [|[|[|[|q]]]]; try lia; cbn; intros; discriminate.
Qed.
Lemma diamond_kind a b : (exists y x, a = x + y /\ b = x - y) \/ (exists y x, a = x + y /\ b = x - y - 1).
Proof.
  destruct (Z.even (a + b)) eqn:E.
  - left. apply Z.even_spec in E. destruct E as [k E]. exists (a - k), k. lia.
  - right. assert (O : Z.odd (a + b) = true) by (rewrite <- Z.negb_even, E; reflexivity).
    apply Z.odd_spec in O. destruct O as [k O]. exists (a - (k + 1)), (k + 1). lia.
Qed.

(* the eight quarters around lattice point (py, px), in rotation order, and for each the quarter of the same cell
   that follows it when leaving the point *)
Definition hq (py px : Z) (j : nat) : quarter :=
  match Nat.modulo j 8 with
  | 0%nat => (py - 1, px - 1, 1%nat) | 1%nat => (py - 1, px - 1, 2%nat) | 2%nat => (py, px - 1, 0%nat) | 3%nat => (py, px - 1, 1%nat)
  | 4%nat => (py, px, 3%nat) | 5%nat => (py, px, 0%nat) | 6%nat => (py - 1, px, 2%nat) | _ => (py - 1, px, 3%nat)
  end.
Definition vq (py px : Z) (j : nat) : quarter :=
  match Nat.modulo j 8 with
  | 0%nat => (py - 1, px - 1, 0%nat) | 1%nat => (py - 1, px - 1, 3%nat) | 2%nat => (py, px - 1, 3%nat) | 3%nat => (py, px - 1, 2%nat)
  | 4%nat => (py, px, 2%nat) | 5%nat => (py, px, 1%nat) | 6%nat => (py - 1, px, 1%nat) | _ => (py - 1, px, 0%nat)
  end.

Lemma hq_adj py px j : (j < 8)%nat -> qadj (hq py px j) (hq py px (j + 1)).
Proof.
  intros Hj. destruct j as [|[|[|[|[|[|[|[|j]]]]]]]]; try lia; cbn [hq Nat.modulo Nat.divmod fst snd Nat.add].
  - apply (adj_next (py - 1) (px - 1) 1). lia.
  - replace py with (py - 1 + 1) at 2 by lia. apply adj_down.
  - apply (adj_next py (px - 1) 0). lia.
  - replace px with (px - 1 + 1) at 2 by lia. apply adj_right.
  - apply (adj_next py px 3). lia.
  - apply adj_up.
  - apply (adj_next (py - 1) px 2). lia.
  - apply adj_left.
Qed.

Section Complete.
  Variable cst : Z -> Z -> nat.
  Hypothesis cst_le : forall y x, (cst y x <= 5)%nat.
  Hypothesis RectAll : forall s, white cst s -> RectA (qreach cst s) \/ RectD (qreach cst s).

  Notation wqt := (wqt cst).
  Notation white := (white cst).
  Notation qreach := (qreach cst).

  Lemma white_of t : (snd t < 4)%nat -> wqt t = true -> white t.
  Proof. destruct t as [[y x] q]. cbn. tauto. Qed.
  Lemma wqt_of t : white t -> wqt t = true.
  Proof. destruct t as [[y x] q]. cbn. tauto. Qed.

  Lemma rectA_cell s y x q q' : RectA (qreach s) -> qreach s (y, x, q) -> (q' < 4)%nat -> qreach s (y, x, q').
  Proof.
    intros [y1 [y2 [x1 [x2 B]]]] H Hq'.
    pose proof (qreach_end _ _ _ H) as [Hq _]. apply B; [exact Hq'|]. apply (B y x q Hq). exact H.
  Qed.
  Lemma rectD_partner s t : RectD (qreach s) -> qreach s t -> qreach s (partner t).
  Proof.
    intros [a1 [a2 [b1 [b2 B]]]] H.
    assert (Hq : (snd t < 4)%nat) by (pose proof (qreach_end _ _ _ H) as W; destruct t as [[y x] q]; apply W).
    apply B; [apply partner_lt4; exact Hq|]. destruct (partner_diamond t Hq) as [-> ->]. apply B; assumption.
  Qed.

  (* a rectangle of diagonal squares is at least two squares wide in both directions *)
  Lemma thin_box s a1 a2 b1 b2 :
    white s ->
    (forall t, (snd t < 4)%nat -> (qreach s t <-> (a1 <= da t <= a2 /\ b1 <= db t <= b2))) ->
    a1 = a2 \/ b1 = b2 -> False.
  Proof.
    intros Ws B Thin.
    assert (Ne : a1 <= a2 /\ b1 <= b2).
    { assert (Hs : (snd s < 4)%nat) by (destruct s as [[y x] q]; apply Ws).
      pose proof (proj1 (B s Hs) (qr_refl _ _ Ws)). lia. }
    assert (Lone : forall y x q, qreach s (y, x, q) ->
              ~ qreach s (y, x, Nat.modulo (q + 1) 4) -> ~ qreach s (y, x, Nat.modulo (q + 3) 4) -> False).
    { intros y x q H N1 N3. pose proof (qreach_end _ _ _ H) as [Hq Hw].
      unfold wq in Hw. apply negb_true_iff in Hw.
      apply (lone_quarter (cst y x) q (cst_le y x) Hq Hw).
      - destruct (cov (cst y x) (Nat.modulo (q + 1) 4)) eqn:E; [reflexivity|exfalso]. apply N1.
        eapply qr_step; [exact H|apply adj_next; exact Hq|]. split; [apply Nat.mod_upper_bound; lia|unfold wq; rewrite E; reflexivity].
      - destruct (cov (cst y x) (Nat.modulo (q + 3) 4)) eqn:E; [reflexivity|exfalso]. apply N3.
        eapply qr_step; [exact H|apply adj_prev; exact Hq|]. split; [apply Nat.mod_upper_bound; lia|unfold wq; rewrite E; reflexivity]. }
    assert (In_ : forall y x (q : nat), (q < 4)%nat -> (a1 <= da (y, x, q) <= a2 /\ b1 <= db (y, x, q) <= b2) -> qreach s (y, x, q)).
    { intros y x q Hq Hb. apply (B (y, x, q)); assumption. }
    assert (Out : forall y x (q : nat), (q < 4)%nat -> ~ (a1 <= da (y, x, q) <= a2 /\ b1 <= db (y, x, q) <= b2) -> ~ qreach s (y, x, q)).
    { intros y x q Hq Hb H. apply Hb. apply (B (y, x, q)); assumption. }
    destruct Thin as [Ta|Tb].
    - (* one column: look at the square (a1, b1) *)
      destruct (diamond_kind a1 b1) as [[y [x [Ea Eb]]]|[y [x [Ea Eb]]]].
      + apply (Lone y x 0%nat); [apply In_|apply Out|apply Out]; cbn; lia.
      + apply (Lone y (x - 1) 1%nat); [apply In_|apply Out|apply Out]; cbn; lia.
    - (* one row: look at the square (a1, b1) *)
      destruct (diamond_kind a1 b1) as [[y [x [Ea Eb]]]|[y [x [Ea Eb]]]].
      + apply (Lone (y - 1) x 2%nat); [apply In_|apply Out|apply Out]; cbn; lia.
      + apply (Lone y (x - 1) 1%nat); [apply In_|apply Out|apply Out]; cbn; lia.
  Qed.

  (* ---- eight quarters t 0 .. t 7 around a lattice point in either rotation sense, v the quarter of the cell
     of t 2, t 3 next to t 2 *)
  Section Ring.
    Variable t : nat -> quarter.
    Variable v : quarter.
    Hypothesis Lt : forall j, (j < 8)%nat -> (snd (t j) < 4)%nat.
    Hypothesis Lv : (snd v < 4)%nat.
    Hypothesis Adj : forall j, (1 <= j < 7)%nat -> qadj (t j) (t (j + 1)).
    Hypothesis P12 : partner (t 1%nat) = t 2%nat.
    Hypothesis P34 : partner (t 3%nat) = t 4%nat.
    Hypothesis P56 : partner (t 5%nat) = t 6%nat.
    Hypothesis P70 : partner (t 7%nat) = t 0%nat.
    Hypothesis P21 : partner (t 2%nat) = t 1%nat.
    Hypothesis C01 : fst (t 0%nat) = fst (t 1%nat).
    Hypothesis C23 : fst (t 2%nat) = fst (t 3%nat).
    Hypothesis C2v : fst v = fst (t 2%nat).
    Hypothesis Nv2 : snd v <> snd (t 2%nat).
    Hypothesis Nv3 : snd v <> snd (t 3%nat).
    Hypothesis N23 : snd (t 2%nat) <> snd (t 3%nat).
    Hypothesis Dwin :
      (da (t 0%nat) = da (t 1%nat) /\ db (t 1%nat) = db (t 3%nat) /\ da (t 3%nat) = da (t 5%nat) /\ db (t 5%nat) = db (t 0%nat)) \/
      (db (t 0%nat) = db (t 1%nat) /\ da (t 1%nat) = da (t 3%nat) /\ db (t 3%nat) = db (t 5%nat) /\ da (t 5%nat) = da (t 0%nat)).
    Hypothesis Dopp :
      da (t 0%nat) + da v = 2 * da (t 1%nat) /\ db (t 0%nat) + db v = 2 * db (t 1%nat) /\
      Z.abs (da (t 0%nat) - da (t 1%nat)) + Z.abs (db (t 0%nat) - db (t 1%nat)) = 1.
    Hypothesis Cwin :
      (fst (fst (t 0%nat)) = fst (fst (t 2%nat)) /\ snd (fst (t 2%nat)) = snd (fst (t 4%nat)) /\
       fst (fst (t 4%nat)) = fst (fst (t 6%nat)) /\ snd (fst (t 6%nat)) = snd (fst (t 0%nat))) \/
      (snd (fst (t 0%nat)) = snd (fst (t 2%nat)) /\ fst (fst (t 2%nat)) = fst (fst (t 4%nat)) /\
       snd (fst (t 4%nat)) = snd (fst (t 6%nat)) /\ fst (fst (t 6%nat)) = fst (fst (t 0%nat))).

    Lemma ring_even :
      wqt (t 0%nat) = false -> wqt (t 1%nat) = true ->
      wqt (t 2%nat) && (negb (wqt (t 3%nat)) ||
                        (wqt (t 4%nat) && negb (wqt (t 5%nat)) && is0 (cst (fst (fst (t 3%nat))) (snd (fst (t 3%nat)))))) = true.
    Proof.
      intros W0 W1.
      assert (Wh1 : white (t 1%nat)) by (apply white_of; [apply Lt; lia|exact W1]).
      destruct (RectAll _ Wh1) as [RA|RD].
      - (* not an upright rectangle: the cell of t 1 is cut *)
        exfalso. destruct (t 1%nat) as [[y x] q] eqn:E1. destruct (t 0%nat) as [[y0 x0] q0] eqn:E0.
        cbn [fst] in C01. inversion C01; subst y0 x0.
        assert (H : qreach (y, x, q) (y, x, q0)).
        { apply (rectA_cell _ y x q q0 RA); [apply qr_refl; exact Wh1|]. pose proof (Lt 0%nat ltac:(lia)) as L. rewrite E0 in L. exact L. }
        apply qreach_end in H. apply wqt_of in H. rewrite H in W0. discriminate.
      - pose proof RD as [a1 [a2 [b1 [b2 B]]]].
        assert (M1 : qreach (t 1%nat) (t 1%nat)) by (apply qr_refl; exact Wh1).
        assert (M2 : qreach (t 1%nat) (t 2%nat)) by (rewrite <- P12; apply rectD_partner; assumption).
        rewrite (wqt_of _ (qreach_end _ _ _ M2)). cbn [andb].
        destruct (wqt (t 3%nat)) eqn:W3; [|reflexivity]. cbn [negb orb].
        assert (M3 : qreach (t 1%nat) (t 3%nat)).
        { eapply qr_step; [exact M2|apply (Adj 2%nat); lia|apply white_of; [apply Lt; lia|exact W3]]. }
        assert (M4 : qreach (t 1%nat) (t 4%nat)) by (rewrite <- P34; apply rectD_partner; assumption).
        rewrite (wqt_of _ (qreach_end _ _ _ M4)). cbn [andb].
        assert (NotIn0 : ~ (a1 <= da (t 0%nat) <= a2 /\ b1 <= db (t 0%nat) <= b2)).
        { intros Hb. apply (B _ (Lt 0%nat ltac:(lia))) in Hb. apply qreach_end in Hb. apply wqt_of in Hb.
          rewrite Hb in W0. discriminate. }
        pose proof (proj1 (B _ (Lt 1%nat ltac:(lia))) M1) as B1.
        pose proof (proj1 (B _ (Lt 3%nat ltac:(lia))) M3) as B3.
        destruct (wqt (t 5%nat)) eqn:W5.
        + (* three squares of the window at the point: the fourth one, holding t 0, is in the box *)
          exfalso.
          assert (M5 : qreach (t 1%nat) (t 5%nat)).
          { eapply qr_step; [exact M4|apply (Adj 4%nat); lia|apply white_of; [apply Lt; lia|exact W5]]. }
          pose proof (proj1 (B _ (Lt 5%nat ltac:(lia))) M5) as B5.
          apply NotIn0. destruct Dwin as [[D1 [D2 [D3 D4]]]|[D1 [D2 [D3 D4]]]]; lia.
        + cbn [negb andb].
          destruct (Nat.eq_dec (cst (fst (fst (t 3%nat))) (snd (fst (t 3%nat)))) 0) as [E|NE]; [unfold is0; rewrite E; reflexivity|exfalso].
          (* the cell of t 2, t 3 is cut: v is not white, so the box is one square wide *)
          assert (Wv : wqt v = false).
          { destruct (wqt v) eqn:Wv; [exfalso|reflexivity]. apply NE.
            destruct (t 2%nat) as [[y2 x2] q2] eqn:E2. destruct (t 3%nat) as [[y3 x3] q3] eqn:E3. destruct v as [[yv xv] qv].
            cbn [fst snd] in *. inversion C23; subst y3 x3. inversion C2v; subst yv xv.
            pose proof (wqt_of _ (qreach_end _ _ _ M2)) as W2. cbn in W2, W3, Wv. unfold wq in W2, W3, Wv.
            apply negb_true_iff in W2. apply negb_true_iff in W3. apply negb_true_iff in Wv.
            pose proof (Lt 2%nat ltac:(lia)) as L2. rewrite E2 in L2. pose proof (Lt 3%nat ltac:(lia)) as L3. rewrite E3 in L3.
            cbn [snd] in L2, L3.
            apply (three_uncovered (cst y2 x2) q2 q3 qv (cst_le _ _) L2 L3 Lv N23 ltac:(congruence) ltac:(congruence) W2 W3 Wv). }
          assert (NotInV : ~ (a1 <= da v <= a2 /\ b1 <= db v <= b2)).
          { intros Hb. apply (B _ Lv) in Hb. apply qreach_end in Hb. apply wqt_of in Hb. rewrite Hb in Wv. discriminate. }
          apply (thin_box (t 1%nat) a1 a2 b1 b2 Wh1 B). lia.
    Qed.

    Lemma ring_count :
      wqt (t 2%nat) = true -> wqt (t 3%nat) = true -> wqt (t 4%nat) = true -> wqt (t 5%nat) = true ->
      wqt (t 6%nat) = true -> wqt (t 7%nat) = true -> wqt (t 0%nat) && wqt (t 1%nat) = true.
    Proof.
      clear Lv P12 P34 P56 C23 C2v Nv2 Nv3 N23 Dwin Dopp.
      intros W2 W3 W4 W5 W6 W7.
      assert (Wh : forall j, (2 <= j < 8)%nat -> white (t j)).
      { intros j Hj. apply white_of; [apply Lt; lia|].
        do 2 (destruct j as [|j]; [lia|]). do 6 (destruct j as [|j]; [assumption|]). lia. }
      assert (M : forall n j, j = (2 + n)%nat -> (j < 8)%nat -> qreach (t 2%nat) (t j)).
      { induction n as [|n IH]; intros j Ej Hj.
        - replace j with 2%nat by lia. apply qr_refl. apply Wh. lia.
        - replace j with (j - 1 + 1)%nat by lia. eapply qr_step; [apply (IH (j - 1)%nat); lia|apply Adj; lia|].
          replace (j - 1 + 1)%nat with j by lia. apply Wh. lia. }
      destruct (RectAll _ (Wh 2%nat ltac:(lia))) as [RA|RD].
      - pose proof RA as [y1 [y2 [x1 [x2 B]]]].
        assert (Bx : forall j, (2 <= j < 8)%nat -> (y1 <= fst (fst (t j)) <= y2 /\ x1 <= snd (fst (t j)) <= x2)).
        { intros j Hj. pose proof (M (j - 2)%nat j ltac:(lia) ltac:(lia)) as Mj. pose proof (Lt j ltac:(lia)) as Lj.
          destruct (t j) as [[y x] q]. cbn [fst snd] in *. apply (B y x q Lj). exact Mj. }
        pose proof (Bx 2%nat ltac:(lia)) as B2. pose proof (Bx 4%nat ltac:(lia)) as B4. pose proof (Bx 6%nat ltac:(lia)) as B6.
        assert (B0 : y1 <= fst (fst (t 0%nat)) <= y2 /\ x1 <= snd (fst (t 0%nat)) <= x2).
        { destruct Cwin as [[D1 [D2 [D3 D4]]]|[D1 [D2 [D3 D4]]]]; lia. }
        assert (In0 : forall u, (snd u < 4)%nat -> fst u = fst (t 0%nat) -> wqt u = true).
        { intros [[y x] q] Hq Eu. cbn [fst snd] in *. apply wqt_of. apply (qreach_end cst (t 2%nat)).
          apply B; [exact Hq|]. rewrite <- Eu in B0. exact B0. }
        rewrite (In0 (t 0%nat) (Lt 0%nat ltac:(lia)) eq_refl), (In0 (t 1%nat) (Lt 1%nat ltac:(lia)) (eq_sym C01)). reflexivity.
      - pose proof (rectD_partner _ _ RD (M 0%nat 2%nat ltac:(lia) ltac:(lia))) as M1. rewrite P21 in M1.
        pose proof (rectD_partner _ _ RD (M 5%nat 7%nat ltac:(lia) ltac:(lia))) as M0. rewrite P70 in M0.
        rewrite (wqt_of _ (qreach_end _ _ _ M1)), (wqt_of _ (qreach_end _ _ _ M0)). reflexivity.
    Qed.
  End Ring.

  (* ---- the three families of facts at lattice point (py, px) *)
  Section Point.
    Variables py px : Z.
    Let a := cst (py - 1) (px - 1).
    Let b := cst py (px - 1).
    Let c := cst py px.
    Let d := cst (py - 1) px.

    Lemma hwf_hq j : (j < 16)%nat -> hwf a b c d j = wqt (hq py px j).
    Proof. intros Hj. do 16 (destruct j as [|j]; [reflexivity|]). lia. Qed.

    Ltac ring_hyps :=
      cbv [hq vq Nat.modulo Nat.divmod Nat.sub Nat.add Nat.mul fst snd partner da db Nat.eqb orb];
      first [ lia | reflexivity | discriminate | (repeat f_equal; lia) | (split; [lia|split; lia])
            | (left; repeat split; lia) | (right; repeat split; lia) ].

    Lemma point_even k : (k < 4)%nat -> glE a b c d k = true.
    Proof.
      intros Hk. unfold glE. cbv zeta.
      rewrite !hwf_hq by lia.
      destruct (wqt (hq py px (2 * k))) eqn:W0; [reflexivity|].
      destruct (wqt (hq py px (2 * k + 1))) eqn:W1; [|reflexivity]. cbn [negb andb implb].
      pose proof (ring_even (fun j => hq py px (2 * k + j)) (vq py px (2 * k + 2))) as R. cbv beta in R.
      replace (2 * k + 0)%nat with (2 * k)%nat in R by lia.
      assert (E : is0 (sst a b c d (k + 1)) =
                  is0 (cst (fst (fst (hq py px (2 * k + 3)))) (snd (fst (hq py px (2 * k + 3)))))).
      { do 4 (destruct k as [|k]; [reflexivity|]). lia. }
      rewrite E. apply R; clear R E; try assumption.
      - intros j Hj. do 4 (destruct k as [|k]; [do 8 (destruct j as [|j]; [cbn; lia|]); lia|]). lia.
      - do 4 (destruct k as [|k]; [cbn; lia|]). lia.
      - intros j Hj. replace (2 * k + (j + 1))%nat with (2 * k + j + 1)%nat by lia.
        assert (G : forall i, qadj (hq py px i) (hq py px (i + 1))).
        { intros i. assert (Ei : hq py px i = hq py px (Nat.modulo i 8)) by (unfold hq; rewrite Nat.mod_mod by lia; reflexivity).
          assert (Ei' : hq py px (i + 1) = hq py px (Nat.modulo i 8 + 1)).
          { unfold hq. rewrite (Nat.add_mod i 1 8), (Nat.add_mod (Nat.modulo i 8) 1 8), Nat.mod_mod by lia. reflexivity. }
          rewrite Ei, Ei'. apply hq_adj. apply Nat.mod_upper_bound. lia. }
        apply G.
      - do 4 (destruct k as [|k]; [ring_hyps|]). lia.
      - do 4 (destruct k as [|k]; [ring_hyps|]). lia.
      - do 4 (destruct k as [|k]; [ring_hyps|]). lia.
      - do 4 (destruct k as [|k]; [ring_hyps|]). lia.
      - do 4 (destruct k as [|k]; [ring_hyps|]). lia.
      - do 4 (destruct k as [|k]; [ring_hyps|]). lia.
      - do 4 (destruct k as [|k]; [ring_hyps|]). lia.
      - do 4 (destruct k as [|k]; [ring_hyps|]). lia.
      - do 4 (destruct k as [|k]; [ring_hyps|]). lia.
      - do 4 (destruct k as [|k]; [ring_hyps|]). lia.
      - do 4 (destruct k as [|k]; [ring_hyps|]). lia.
      - do 4 (destruct k as [|k]; [ring_hyps|]). lia.
      - do 4 (destruct k as [|k]; [ring_hyps|]). lia.
    Qed.

    Lemma hq_adj_any i : qadj (hq py px i) (hq py px (i + 1)).
    Proof.
      assert (Ei : hq py px i = hq py px (Nat.modulo i 8)) by (unfold hq; rewrite Nat.mod_mod by lia; reflexivity).
      assert (Ei' : hq py px (i + 1) = hq py px (Nat.modulo i 8 + 1)).
      { unfold hq. rewrite (Nat.add_mod i 1 8), (Nat.add_mod (Nat.modulo i 8) 1 8), Nat.mod_mod by lia. reflexivity. }
      rewrite Ei, Ei'. apply hq_adj. apply Nat.mod_upper_bound. lia.
    Qed.

    Lemma point_odd k : (k < 4)%nat -> glO a b c d k = true.
    Proof.
      intros Hk. unfold glO. cbv zeta.
      rewrite !hwf_hq by lia.
      destruct (wqt (hq py px (2 * k + 1))) eqn:W0; [reflexivity|].
      destruct (wqt (hq py px (2 * k + 8))) eqn:W1; [|reflexivity]. cbn [negb andb implb].
      pose proof (ring_even (fun j => hq py px (2 * k + 9 - j)) (vq py px (2 * k + 7))) as R. cbv beta in R.
      replace (2 * k + 9 - 0)%nat with (2 * k + 9)%nat in R by lia.
      replace (2 * k + 9 - 1)%nat with (2 * k + 8)%nat in R by lia.
      replace (2 * k + 9 - 2)%nat with (2 * k + 7)%nat in R by lia.
      replace (2 * k + 9 - 3)%nat with (2 * k + 6)%nat in R by lia.
      replace (2 * k + 9 - 4)%nat with (2 * k + 5)%nat in R by lia.
      replace (2 * k + 9 - 5)%nat with (2 * k + 4)%nat in R by lia.
      replace (2 * k + 9 - 6)%nat with (2 * k + 3)%nat in R by lia.
      replace (2 * k + 9 - 7)%nat with (2 * k + 2)%nat in R by lia.
      assert (E : is0 (sst a b c d (k + 3)) =
                  is0 (cst (fst (fst (hq py px (2 * k + 6)))) (snd (fst (hq py px (2 * k + 6)))))).
      { do 4 (destruct k as [|k]; [reflexivity|]). lia. }
      assert (E9 : hq py px (2 * k + 9) = hq py px (2 * k + 1)).
      { unfold hq. replace (2 * k + 9)%nat with (2 * k + 1 + 1 * 8)%nat by lia. rewrite Nat.mod_add by lia. reflexivity. }
      rewrite E9 in R.
      rewrite E. apply R; clear R E; try assumption.
      - intros j Hj. do 4 (destruct k as [|k]; [do 8 (destruct j as [|j]; [cbn; lia|]); lia|]). lia.
      - do 4 (destruct k as [|k]; [cbn; lia|]). lia.
      - intros j Hj. replace (2 * k + 9 - j)%nat with (2 * k + 9 - (j + 1) + 1)%nat by lia.
        apply qadj_sym. apply hq_adj_any.
      - do 4 (destruct k as [|k]; [ring_hyps|]). lia.
      - do 4 (destruct k as [|k]; [ring_hyps|]). lia.
      - do 4 (destruct k as [|k]; [ring_hyps|]). lia.
      - do 4 (destruct k as [|k]; [ring_hyps|]). lia.
      - do 4 (destruct k as [|k]; [ring_hyps|]). lia.
      - do 4 (destruct k as [|k]; [ring_hyps|]). lia.
      - do 4 (destruct k as [|k]; [ring_hyps|]). lia.
      - do 4 (destruct k as [|k]; [ring_hyps|]). lia.
      - do 4 (destruct k as [|k]; [ring_hyps|]). lia.
      - do 4 (destruct k as [|k]; [ring_hyps|]). lia.
      - do 4 (destruct k as [|k]; [ring_hyps|]). lia.
      - do 4 (destruct k as [|k]; [ring_hyps|]). lia.
      - do 4 (destruct k as [|k]; [ring_hyps|]). lia.
    Qed.

    Lemma point_count k : (k < 4)%nat -> glC a b c d k = true.
    Proof.
      intros Hk. unfold glC. cbv zeta.
      rewrite !hwf_hq by lia.
      destruct (wqt (hq py px (2 * k + 2))) eqn:W2; [|reflexivity].
      destruct (wqt (hq py px (2 * k + 3))) eqn:W3; [|reflexivity].
      destruct (wqt (hq py px (2 * k + 4))) eqn:W4; [|reflexivity].
      destruct (wqt (hq py px (2 * k + 5))) eqn:W5; [|reflexivity].
      destruct (wqt (hq py px (2 * k + 6))) eqn:W6; [|reflexivity].
      destruct (wqt (hq py px (2 * k + 7))) eqn:W7; [|reflexivity]. cbn [andb implb].
      pose proof (ring_count (fun j => hq py px (2 * k + j))) as R. cbv beta in R.
      replace (2 * k + 0)%nat with (2 * k)%nat in R by lia.
      apply R; clear R; try assumption.
      - intros j Hj. do 4 (destruct k as [|k]; [do 8 (destruct j as [|j]; [cbn; lia|]); lia|]). lia.
      - intros j Hj. replace (2 * k + (j + 1))%nat with (2 * k + j + 1)%nat by lia. apply hq_adj_any.
      - do 4 (destruct k as [|k]; [ring_hyps|]). lia.
      - do 4 (destruct k as [|k]; [ring_hyps|]). lia.
      - do 4 (destruct k as [|k]; [ring_hyps|]). lia.
      - do 4 (destruct k as [|k]; [ring_hyps|]). lia.
    Qed.

    Lemma complete_point : vok4 a b c d = true.
    Proof.
      pose proof (all4_spec _ t_complete a b c d (cst_le _ _) (cst_le _ _) (cst_le _ _) (cst_le _ _)) as T. cbv beta in T.
      apply (imp_elim _ _ T). apply forallb_forall. intros k Hk.
      assert (Hk' : (k < 4)%nat) by (cbn in Hk; lia).
      rewrite (point_even k Hk'), (point_odd k Hk'), (point_count k Hk'). reflexivity.
    Qed.
  End Point.

  Theorem complete_Lok : Lok cst.
  Proof. intros yu yd xl xr -> ->. apply complete_point. Qed.
End Complete.
