(* C11 Tier 1 - composition with property C06 for a loop puzzle that ALSO fills in a grid of cells (yajilin): the
   solver declares a BoolGridFrame of an h x w cell board, calls graph.active_edges_single_cycle on it (auxiliary-
   variable encoding, model Graph/Cycle.v::active_edges_single_cycle on the frame: (h+1)(w+1) passed flags, as many
   ranks and root flags), declares m FURTHER boolean variables afterwards (ids from grid_base h w), makes the frame
   and the later variables the answer keys and posts constraints [extra] over the frame, the returned is_passed
   entries and the later variables.

   Main theorem: cycle_grid_compose - the readings of the answer keys (frame, then grid) in models of the final
   program are exactly the 0/1 vectors of length frame_n + m whose frame part is a single loop (or empty) on
   PuzzleBase.lattice (h+1) (w+1) and which satisfy [local], provided [local] on the reading of an assignment says
   the same as [extra] under every assignment in which is_passed = on_line (which holds in every model).
   The state the call starts from is any state with exactly the frame variables and no constraint (the answer-key
   flags are irrelevant: they may be set before or after the call).

   Uses C06's closed theorems cycle_frame / cycle_frame_exact, the shape lemma post_cycle_enc_shape and the
   evaluation lemma enc_cons_holds (to overwrite the variables declared after the call in a model of the call's
   constraints), and CycleCompose.frame_lattice for the vocabulary of the rule files. *)
From Coq Require Import ZArith List Bool Arith Lia.
From Cspuz Require Import Lib.PyErr Core.Expr Core.Program Graph.GraphModel Graph.ReachProofs
     Graph.Cycle Graph.CycleLemmas Graph.CycleCert Graph.CycleProofs Graph.CycleMain Graph.CycleFrame Graph.CycleSpec
     Puzzle.PuzzleBase Puzzle.SatAbs Puzzle.ModelBase Puzzle.ModelLemmas Puzzle.CreekProofs
     Puzzle.CycleFrameBase Puzzle.CycleCompose.
Import ListNotations.
Local Open Scope nat_scope.

Notation b2z := PuzzleBase.b2z.

(* first id after the call on the fresh frame *)
Definition grid_base (h w : nat) : nat := frame_n h w + (S h * S w + (S h * S w + S h * S w)).
(* the answer keys: the frame, then the m variables declared after the call *)
Definition key_ids (h w m : nat) : list nat := seq 0 (frame_n h w) ++ seq (grid_base h w) m.
Definition key_reading (h w m : nat) (en : env) : answer := map (fun i => b2z (eb en i)) (key_ids h w m).

Lemma seq_as_map a n : seq a n = map (fun j => a + j) (seq 0 n).
Proof.
  revert a. induction n as [|n IH]; intros a; [reflexivity|].
  simpl. f_equal; [lia|]. rewrite (IH (S a)), <- seq_shift, map_map. apply map_ext. intros j. lia.
Qed.

Lemma nth_map_seq_at (f : nat -> Z) a n j : j < n -> nth j (map f (seq a n)) 0%Z = f (a + j).
Proof.
  intros H. rewrite nth_indep with (d' := f 0) by (rewrite map_length, seq_length; exact H).
  rewrite map_nth, seq_nth by exact H. reflexivity.
Qed.

Lemma key_get_frame h w m en k : k < frame_n h w -> getz (key_reading h w m en) k = b2z (eb en k).
Proof.
  intros H. unfold getz, key_reading, key_ids. rewrite map_app, app_nth1 by (rewrite map_length, seq_length; exact H).
  rewrite nth_map_seq_at by exact H. reflexivity.
Qed.
Lemma key_get_grid h w m en j :
  j < m -> getz (key_reading h w m en) (frame_n h w + j) = b2z (eb en (grid_base h w + j)).
Proof.
  intros H. unfold getz, key_reading, key_ids. rewrite map_app, app_nth2 by (rewrite map_length, seq_length; lia).
  rewrite map_length, seq_length. replace (frame_n h w + j - frame_n h w) with j by lia.
  rewrite nth_map_seq_at by exact H. reflexivity.
Qed.
Lemma key_reading_length h w m en : length (key_reading h w m en) = frame_n h w + m.
Proof. unfold key_reading, key_ids. rewrite map_length, app_length, !seq_length. reflexivity. Qed.
Lemma key_reading_01 h w m en : forallb is01 (key_reading h w m en) = true.
Proof. unfold key_reading. rewrite forallb_map. apply forallb_forall. intros; apply is01_b2z. Qed.

Lemma key_reading_ext h w m a b :
  (forall i, i < frame_n h w -> eb a i = eb b i) ->
  (forall j, j < m -> eb a (grid_base h w + j) = eb b (grid_base h w + j)) ->
  key_reading h w m a = key_reading h w m b.
Proof.
  intros H1 H2. unfold key_reading, key_ids. rewrite !map_app. f_equal; apply map_ext_in; intros i Hi; apply in_seq in Hi.
  - rewrite H1 by lia. reflexivity.
  - replace i with (grid_base h w + (i - grid_base h w)) by lia. rewrite H2 by lia. reflexivity.
Qed.

(* the assignment read off an answer: frame values at the frame ids, grid values at the ids from grid_base *)
Definition env_of_keys (h w : nat) (ans : answer) : env :=
  {| eb := fun i => if i <? grid_base h w then isb (getz ans i) else isb (getz ans (frame_n h w + (i - grid_base h w)));
     ei := fun _ => 0%Z |}.

Lemma frame_lt_base h w : frame_n h w <= grid_base h w.
Proof. unfold grid_base. lia. Qed.

Lemma keys_as_reading h w m ans :
  length ans = frame_n h w + m -> forallb is01 ans = true -> key_reading h w m (env_of_keys h w ans) = ans.
Proof.
  intros Hl H01.
  assert (Hz : forall i, i < length ans -> b2z (isb (getz ans i)) = getz ans i).
  { intros i Hi. apply isb_is01. rewrite forallb_forall in H01. apply H01. unfold getz. apply nth_In. exact Hi. }
  rewrite <- (map_getz_seq ans) at 2. rewrite Hl, seq_app, map_app. unfold key_reading, key_ids. rewrite map_app.
  pose proof (frame_lt_base h w) as HB.
  f_equal.
  - apply map_ext_in. intros i Hi. apply in_seq in Hi. cbn [eb env_of_keys].
    destruct (Nat.ltb_spec i (grid_base h w)); [|lia]. apply Hz. lia.
  - rewrite (seq_as_map (grid_base h w)), (seq_as_map (0 + frame_n h w)), !map_map.
    apply map_ext_in. intros j Hj. apply in_seq in Hj. cbn [eb env_of_keys].
    destruct (Nat.ltb_spec (grid_base h w + j) (grid_base h w)); [lia|].
    replace (grid_base h w + j - grid_base h w) with j by lia. simpl Nat.add. apply Hz. lia.
Qed.

Section Compose.
  Variable gsem : op -> list (option value) -> option bool.
  Variables h w m : nat.
  Notation N := (frame_n h w).
  Notation B := (grid_base h w).
  Notation hor := (frame_hor h w).
  Notation ver := (frame_ver h w).
  Notation G := (frame_graph h w (frame_hor h w) (frame_ver h w)).
  Notation fe := (frame_edges h w (frame_hor h w) (frame_ver h w)).
  Notation Lt := (lattice (S h) (S w)).
  Variables (st0 st1 st : state) (res : passed_result) (extra : list expr).
  Hypothesis Hv0 : vars st0 = repeat DBool N.
  Hypothesis Hc0 : Program.cons st0 = [].
  Hypothesis Hcall : active_edges_single_cycle st0 (AFrame h w hor ver) None false = Ok (st1, res).
  Hypothesis Hvars : vars st = vars st1 ++ repeat DBool m.
  Hypothesis Hcons : Program.cons st = Program.cons st1 ++ extra.

  Lemma cg_next0 : next_id st0 = N.
  Proof. unfold next_id. rewrite Hv0. apply repeat_length. Qed.

  Lemma cg_flags en : flags_ok gsem st0 en (hor ++ ver).
  Proof.
    intros e He. apply in_app_iff in He.
    destruct He as [He|He]; apply in_map_iff in He; destruct He as [k [<- Hk]]; apply in_seq in Hk;
      (split; [reflexivity|]; split; [rewrite cg_next0; unfold frame_n; simpl; lia|]; eexists; reflexivity).
  Qed.
  Lemma cg_flags_fe en : flags_ok gsem st0 en fe.
  Proof.
    intros e He. apply (cg_flags en). apply in_or_app.
    apply (frame_edges_in h w _ _ (frame_hor_length h w) (frame_ver_length h w)). exact He.
  Qed.
  Lemma cg_fe_cl e : In e fe -> is_constraint_like e = true.
  Proof. intros He. destruct (cg_flags_fe (env_of_keys h w []) e He) as [H _]. exact H. Qed.

  Lemma cg_bounds0 en : in_bounds en st0 = true.
  Proof. unfold in_bounds. rewrite Hv0. apply in_bounds_from_bools. Qed.

  Lemma cg_G_wf : wf_graph G = true.
  Proof. destruct (cycle_frame h w _ _ (frame_hor_length h w) (frame_ver_length h w)) as [_ [_ [H _]]]. exact H. Qed.
  Lemma cg_G_len : length (edges G) <= length fe.
  Proof.
    destruct (cycle_frame h w _ _ (frame_hor_length h w) (frame_ver_length h w)) as [_ [_ [_ [H _]]]]. rewrite H. apply le_n.
  Qed.

  (* the shape of the state the call returns *)
  Lemma cg_shape :
    res = P2 (S h) (S w) (frame_passed h w) /\
    vars st1 = vars st0 ++ new_decls_enc G /\
    Program.cons st1 = enc_cons fe G N.
  Proof.
    destruct (cycle_frame h w _ _ (frame_hor_length h w) (frame_ver_length h w)) as [_ [_ [_ [_ [_ [Hc _]]]]]].
    pose proof Hcall as Hcall'. rewrite Hc in Hcall'.
    destruct (post_cycle_enc_shape fe G N cg_G_wf cg_G_len cg_fe_cl st0 cg_next0 ltac:(simpl; lia))
      as [st' [Hp [Hv Hcs]]].
    rewrite Hp in Hcall'. inversion Hcall'; subst st' res. clear Hcall'.
    split; [reflexivity|]. split; [exact Hv|]. rewrite Hcs, Hc0. reflexivity.
  Qed.

  Lemma cg_next1 : next_id st1 = B.
  Proof.
    destruct cg_shape as [_ [Hv _]]. unfold next_id. rewrite Hv, Hv0. unfold new_decls_enc.
    rewrite !app_length, !repeat_length. reflexivity.
  Qed.

  Lemma cg_new_cons : new_cons st0 st1 = enc_cons fe G N.
  Proof. destruct cg_shape as [_ [_ Hc]]. unfold new_cons. rewrite Hc0, Hc. reflexivity. Qed.

  (* the variables declared after the call can be overwritten in a satisfying extension *)
  Lemma cg_extends_agree en en1 en2 :
    extends_sat gsem st0 st1 en en1 -> agree_below B en1 en2 -> extends_sat gsem st0 st1 en en2.
  Proof.
    intros [Hag [Hb Hs]] H12.
    pose proof (frame_lt_base h w) as HB.
    assert (Hag2 : agree_below (next_id st0) en en2).
    { rewrite cg_next0 in *. intros i Hi. destruct (Hag i Hi) as [E1 E2]. destruct (H12 i ltac:(lia)) as [F1 F2].
      split; congruence. }
    split; [exact Hag2|]. split.
    - rewrite <- Hb. unfold in_bounds. symmetry. apply CycleLemmas.in_bounds_from_agree.
      intros k Hk. fold (next_id st1) in Hk. rewrite cg_next1 in Hk. apply (H12 k). lia.
    - rewrite cg_new_cons in *.
      assert (HA1 : forall k, k < length (edges G) -> eval gsem en1 (flag fe k) = Some (VB (pattern gsem en fe k))).
      { intros k Hk. apply (pattern_flag gsem st0 en en1 fe k (cg_flags_fe en) Hag). pose proof cg_G_len. lia. }
      assert (HA2 : forall k, k < length (edges G) -> eval gsem en2 (flag fe k) = Some (VB (pattern gsem en fe k))).
      { intros k Hk. apply (pattern_flag gsem st0 en en2 fe k (cg_flags_fe en) Hag2). pose proof cg_G_len. lia. }
      apply (enc_cons_holds fe G N cg_G_len cg_fe_cl gsem en2 _ HA2).
      apply (enc_cons_holds fe G N cg_G_len cg_fe_cl gsem en1 _ HA1) in Hs.
      apply (cert_ext G _ cg_G_wf _ _ _ _ _ _) with (2 := Hs).
      intros i Hi. change (nv G) with (S h * S w) in Hi.
      unfold eP, er, eR. change (nv G) with (S h * S w).
      destruct (H12 (N + i)) as [E1 _]; [unfold grid_base; lia|].
      destruct (H12 (N + S h * S w + i)) as [_ E2]; [unfold grid_base; lia|].
      destruct (H12 (N + S h * S w + S h * S w + i)) as [E3 _]; [unfold grid_base; lia|].
      auto.
  Qed.

  Lemma cg_split en :
    model_of gsem en st <-> (model_of gsem en st1 /\ forallb (holds gsem en) extra = true).
  Proof.
    unfold model_of, in_bounds, satisfies. rewrite Hvars, Hcons, forallb_app, CycleLemmas.in_bounds_from_app,
      in_bounds_from_bools, andb_true_r, andb_true_iff. tauto.
  Qed.

  Lemma cg_self en : model_of gsem en st1 <-> extends_sat gsem st0 st1 en en.
  Proof.
    unfold extends_sat, model_of, satisfies, new_cons. rewrite Hc0. simpl skipn. split.
    - intros [H1 H2]. split; [intros i _; split; reflexivity|]. split; assumption.
    - intros [_ [H1 H2]]. split; assumption.
  Qed.

  Lemma cg_reads en : reads st en (key_ids h w m) = key_reading h w m en.
  Proof.
    destruct cg_shape as [_ [Hv _]].
    assert (Hlen : length (vars st1) = B) by apply cg_next1.
    unfold reads, key_reading. apply map_ext_in. intros i Hi. unfold key_ids in Hi. apply in_app_iff in Hi.
    unfold read_var.
    replace (nth_error (vars st) i) with (Some DBool); [reflexivity|]. symmetry.
    destruct Hi as [Hi|Hi]; apply in_seq in Hi.
    - rewrite Hvars, Hv, Hv0, <- !app_assoc, nth_error_app1 by (rewrite repeat_length; lia).
      apply nth_error_repeat. lia.
    - rewrite Hvars, nth_error_app2 by lia. rewrite Hlen. apply nth_error_repeat. lia.
  Qed.

  (* what C06 says about the call, for every assignment of the frame variables *)
  Lemma cg_c06 en :
    ((exists en', extends_sat gsem st0 st1 en en') <-> single_loop_b Lt (eb en) = true) /\
    (forall en', extends_sat gsem st0 st1 en en' ->
       forall y x, y <= h -> x <= w -> eb en' (frame_pid h w y x) = on_line Lt (eb en) (y * S w + x)).
  Proof.
    destruct (CycleFrame.cycle_frame_exact h w hor ver (frame_hor_length h w) (frame_ver_length h w)
                gsem st0 en st1 _ (cg_flags en) (cg_bounds0 en) Hcall) as [p [Hp [_ [EX PASS]]]].
    destruct cg_shape as [Hres _]. rewrite Hres in Hp. inversion Hp; subst p. clear Hp.
    destruct (frame_lattice h w gsem en) as [FL1 FL2].
    split.
    - rewrite <- FL1. exact EX.
    - intros en' He y x Hy Hx. destruct (PASS en' He y x Hy Hx) as [q [Hq1 Hq2]].
      unfold frame_passed in Hq1. rewrite nth_error_map_seq in Hq1 by nia.
      inversion Hq1; subst q. rewrite <- FL2. rewrite <- Hq2.
      unfold holds. simpl. unfold frame_pid.
      replace (N + y * S w + x) with (N + (y * S w + x)) by lia.
      destruct (eb en' (N + (y * S w + x))); reflexivity.
  Qed.

  Theorem cycle_grid_compose (local : answer -> bool) ans :
    (forall en,
       (forall y x, y <= h -> x <= w ->
          eb en (frame_pid h w y x) = on_line Lt (eb en) (y * S w + x)) ->
       local (key_reading h w m en) = forallb (holds gsem en) extra) ->
    res = P2 (S h) (S w) (frame_passed h w) /\
    ((exists en, model_of gsem en st /\ reads st en (key_ids h w m) = ans)
     <-> Nat.eqb (length ans) (N + m) && forallb is01 ans &&
         single_loop_b Lt (fun k => isb (getz ans k)) && local ans = true).
  Proof.
    intros Hloc. split; [apply cg_shape|].
    assert (HLlen : length (edges Lt) = N) by apply lattice_edges_length.
    pose proof (frame_lt_base h w) as HB.
    split.
    - intros [en [Hm Hr]]. rewrite cg_reads in Hr. subst ans.
      apply cg_split in Hm. destruct Hm as [Hm1 Hcl].
      rewrite key_reading_length, Nat.eqb_refl, key_reading_01. simpl andb.
      apply andb_true_iff. destruct (cg_c06 en) as [EX PASS].
      apply cg_self in Hm1. split.
      + apply (single_loop_b_ext Lt (eb en) _ (lattice_wf h w)).
        * intros k Hk. rewrite HLlen in Hk. rewrite key_get_frame by exact Hk. symmetry. apply b2z_isb.
        * apply EX. exists en. exact Hm1.
      + rewrite Hloc; [exact Hcl|]. apply PASS. exact Hm1.
    - intros Hr.
      apply andb_true_iff in Hr. destruct Hr as [Hr Hcl].
      apply andb_true_iff in Hr. destruct Hr as [Hr Hloop].
      apply andb_true_iff in Hr. destruct Hr as [Hlen H01]. apply Nat.eqb_eq in Hlen.
      set (en0 := env_of_keys h w ans).
      pose proof (keys_as_reading h w m ans Hlen H01) as Ha. fold en0 in Ha.
      destruct (cg_c06 en0) as [EX PASS].
      assert (Hloop0 : single_loop_b Lt (eb en0) = true).
      { apply (single_loop_b_ext Lt (fun k => isb (getz ans k)) _ (lattice_wf h w)); [|exact Hloop].
        intros k Hk. rewrite HLlen in Hk. unfold en0. cbn [eb env_of_keys].
        destruct (Nat.ltb_spec k B); [reflexivity|lia]. }
      destruct (proj2 EX Hloop0) as [en1 He].
      set (en2 := {| eb := fun i => if i <? B then eb en1 i else eb en0 i;
                     ei := fun i => if i <? B then ei en1 i else 0%Z |}).
      assert (H12 : agree_below B en1 en2).
      { intros i Hi. unfold en2. cbn [eb ei]. destruct (Nat.ltb_spec i B); [split; reflexivity|lia]. }
      pose proof (cg_extends_agree en0 en1 en2 He H12) as He2.
      pose proof He2 as [Hag2 _]. rewrite cg_next0 in Hag2.
      assert (Hsame : key_reading h w m en2 = ans).
      { rewrite <- Ha. apply key_reading_ext.
        - intros i Hi. destruct (Hag2 i Hi) as [E _]. symmetry. exact E.
        - intros j Hj. unfold en2. cbn [eb]. destruct (Nat.ltb_spec (B + j) B); [lia|reflexivity]. }
      exists en2. split; [|rewrite cg_reads; exact Hsame].
      apply cg_split. split.
      + destruct He2 as [_ [H1 H2]]. split; [exact H1|].
        unfold satisfies. unfold new_cons in H2. rewrite Hc0 in H2. exact H2.
      + rewrite <- Hloc; [rewrite Hsame; exact Hcl|].
        intros y x Hy Hx. rewrite (PASS en2 He2 y x Hy Hx).
        apply on_line_ext. intros k Hk. rewrite HLlen in Hk. apply (Hag2 k Hk).
  Qed.
End Compose.
