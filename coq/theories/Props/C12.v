From Coq Require Import ZArith List.
From Cspuz Require Import Lib.PyErr Core.Expr Array.Elementwise Gen.DunderTable Array.DunderProofs.
Theorem dunder_table_correct : forall c m, lookup_row dunder_table c m = lookup_method c m.
Proof. exact dunder_table_lookup. Qed.
Print Assumptions dunder_table_correct.
