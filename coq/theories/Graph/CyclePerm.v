(* C06: cycle_exact / cycle_primitive / path_primitive for every program with
   the model's declarations / answer keys and the model's added constraints in
   any order. *)
From Coq Require Import ZArith List Bool Arith Permutation.
From Cspuz Require Import Lib.PyErr Core.Expr Core.Program Core.ProgramFacts
  Graph.GraphModel Graph.Cycle Graph.CycleMain Graph.CyclePrim.
Import ListNotations.
Open Scope nat_scope.

Lemma extends_sat_perm gsem st st' st2 en en' :
  reordered_extension st st' st2 ->
  (extends_sat gsem st st2 en en' <-> extends_sat gsem st st' en en').
Proof.
  intros H. unfold extends_sat, new_cons.
  rewrite (reordered_in_bounds en' st st' st2 H).
  change (skipn (length (cons st)) (cons st2)) with (added_cons st st2).
  rewrite (reordered_added_holds gsem en' st st' st2 H). reflexivity.
Qed.

Lemma ex_extends_sat_perm gsem st st' st2 en :
  reordered_extension st st' st2 ->
  ((exists en', extends_sat gsem st st2 en en') <-> (exists en', extends_sat gsem st st' en en')).
Proof.
  intros H. split; intros [en' E]; exists en'; apply (extends_sat_perm gsem st st' st2 en en' H); exact E.
Qed.

Theorem cycle_path_exact_modulo_order :
  (forall gsem st acts g en st' passed st2,
     wf_graph g = true -> 1 <= nv g -> length (edges g) <= length acts ->
     flags_ok gsem st en acts -> in_bounds en st = true ->
     post_cycle st acts g false = Ok (st', passed) ->
     reordered_extension st st' st2 ->
     ((exists en', extends_sat gsem st st2 en en') <-> single_cycle g (pattern gsem en acts))) /\
  (forall st acts g en st' passed st2,
     wf_graph g = true -> length acts = length (edges g) ->
     flags_ok gsem_c06 st en acts -> in_bounds en st = true ->
     post_cycle st acts g true = Ok (st', passed) ->
     reordered_extension st st' st2 ->
     ((exists en', extends_sat gsem_c06 st st2 en en') <-> single_cycle g (pattern gsem_c06 en acts))) /\
  (forall st acts g en st' passed st2,
     wf_graph g = true -> length acts = length (edges g) ->
     flags_ok gsem_c06 st en acts -> in_bounds en st = true ->
     post_path st acts g true = Ok (st', passed) ->
     reordered_extension st st' st2 ->
     ((exists en', extends_sat gsem_c06 st st2 en en') <-> single_path g (pattern gsem_c06 en acts))).
Proof.
  split; [|split].
  - intros gsem st acts g en st' passed st2 Hwf Hn Hl Hf Hb Hpost Hre.
    rewrite (ex_extends_sat_perm gsem st st' st2 en Hre).
    exact (cycle_exact gsem st acts g en st' passed Hwf Hn Hl Hf Hb Hpost).
  - intros st acts g en st' passed st2 Hwf Hl Hf Hb Hpost Hre.
    rewrite (ex_extends_sat_perm gsem_c06 st st' st2 en Hre).
    exact (cycle_primitive st acts g en st' passed Hwf Hl Hf Hb Hpost).
  - intros st acts g en st' passed st2 Hwf Hl Hf Hb Hpost Hre.
    rewrite (ex_extends_sat_perm gsem_c06 st st' st2 en Hre).
    exact (path_primitive st acts g en st' passed Hwf Hl Hf Hb Hpost).
Qed.
