(* Facts about Core.Expr / Core.Program used by the C01 / C02 proofs: nested
   induction over expression trees, well-typed trees evaluate to a value of
   their type, evaluation only looks at the variables that occur. *)
From Coq Require Import ZArith List Bool Lia.
From Cspuz Require Import Lib.PyErr Core.Expr Core.Program.
Import ListNotations.
Open Scope Z_scope.

Section ExprInd.
  Variable P : expr -> Prop.
  Hypothesis Hb : forall b, P (PyBool b).
  Hypothesis Hi : forall z, P (PyInt z).
  Hypothesis Hn : P PyNone.
  Hypothesis Hbv : forall i, P (BVar i).
  Hypothesis Hiv : forall i lo hi, P (IVar i lo hi).
  Hypothesis Hbn : forall o args, Forall P args -> P (BNode o args).
  Hypothesis Hin : forall o args, Forall P args -> P (INode o args).

  Fixpoint expr_nested_ind (e : expr) : P e :=
    match e with
    | PyBool b => Hb b
    | PyInt z => Hi z
    | PyNone => Hn
    | BVar i => Hbv i
    | IVar i lo hi => Hiv i lo hi
    | BNode o args =>
        Hbn o args ((fix go (l : list expr) : Forall P l :=
                       match l with
                       | [] => Forall_nil P
                       | x :: r => Forall_cons x (expr_nested_ind x) (go r)
                       end) args)
    | INode o args =>
        Hin o args ((fix go (l : list expr) : Forall P l :=
                       match l with
                       | [] => Forall_nil P
                       | x :: r => Forall_cons x (expr_nested_ind x) (go r)
                       end) args)
    end.
End ExprInd.

(* a value has the type a well-typed tree of that kind must produce *)
Definition vkind (b : bool) (v : value) : Prop :=
  match v with VB _ => b = true | VI _ => b = false end.

Lemma all_some_map_some {A} (l : list A) : all_some (map Some l) = Some l.
Proof. induction l; simpl; [reflexivity|rewrite IHl; reflexivity]. Qed.

Lemma as_ints_VI (zs : list Z) : as_ints (map VI zs) = Some zs.
Proof. induction zs; simpl; [reflexivity|rewrite IHzs; reflexivity]. Qed.
Lemma as_bools_VB (bs : list bool) : as_bools (map VB bs) = Some bs.
Proof. induction bs; simpl; [reflexivity|rewrite IHbs; reflexivity]. Qed.

(* pointwise evaluation of an operand list to integers / booleans *)
Lemma eval_list_ints (f : expr -> option value) args :
  Forall (fun a => exists z, f a = Some (VI z)) args ->
  exists zs, map f args = map Some (map VI zs) /\ length zs = length args.
Proof.
  induction 1 as [|a r [z Hz] _ [zs [IH L]]].
  - exists []; split; reflexivity.
  - exists (z :: zs); simpl; rewrite Hz, IH, L; split; reflexivity.
Qed.
Lemma eval_list_bools (f : expr -> option value) args :
  Forall (fun a => exists b, f a = Some (VB b)) args ->
  exists bs, map f args = map Some (map VB bs) /\ length bs = length args.
Proof.
  induction 1 as [|a r [z Hz] _ [zs [IH L]]].
  - exists []; split; reflexivity.
  - exists (z :: zs); simpl; rewrite Hz, IH, L; split; reflexivity.
Qed.

Lemma length2 {A} (l : list A) : Nat.eqb (length l) 2 = true -> exists a b, l = [a; b].
Proof. destruct l as [|a [|b [|c r]]]; simpl; try discriminate; eauto. Qed.
Lemma length1 {A} (l : list A) : Nat.eqb (length l) 1 = true -> exists a, l = [a].
Proof. destruct l as [|a [|b r]]; simpl; try discriminate; eauto. Qed.

(* well-typed trees evaluate, to a value of their type, under every assignment *)
Lemma wt_eval : forall e b, wt b e = true ->
  forall en, exists v, eval no_graph en e = Some v /\ vkind b v.
Proof.
  induction e as [c|z| |i|i lo hi|o args IH|o args IH] using expr_nested_ind; intros b W en; simpl in W.
  - subst; eexists; split; [reflexivity|reflexivity].
  - destruct b; try discriminate; eexists; split; reflexivity.
  - discriminate.
  - subst; eexists; split; reflexivity.
  - destruct b; try discriminate; eexists; split; reflexivity.
  - destruct b; try discriminate; simpl in W.
    assert (Hints : forallb (wt false) args = true -> Forall (fun a => exists z, eval no_graph en a = Some (VI z)) args).
    { intros F; rewrite forallb_forall in F; rewrite Forall_forall in *; intros a Ia.
      destruct (IH a Ia false (F a Ia) en) as [v [E K]]; destruct v; simpl in K; try discriminate; eauto. }
    assert (Hbools : forallb (wt true) args = true -> Forall (fun a => exists z, eval no_graph en a = Some (VB z)) args).
    { intros F; rewrite forallb_forall in F; rewrite Forall_forall in *; intros a Ia.
      destruct (IH a Ia true (F a Ia) en) as [v [E K]]; destruct v; simpl in K; try discriminate; eauto. }
    destruct o; try discriminate; simpl.
    + (* BOOL_CONSTANT *) destruct args as [|[c| | | | | |] [|]]; try discriminate; simpl; eexists; split; reflexivity.
    + apply andb_prop in W; destruct W as [L F]; destruct (length2 _ L) as [a [c ->]].
      specialize (Hints F); inversion Hints as [|? ? [x Hx] H2]; subst; inversion H2 as [|? ? [y Hy] _]; subst.
      unfold eval_bop; simpl; rewrite Hx, Hy; simpl; eexists; split; reflexivity.
    + apply andb_prop in W; destruct W as [L F]; destruct (length2 _ L) as [a [c ->]].
      specialize (Hints F); inversion Hints as [|? ? [x Hx] H2]; subst; inversion H2 as [|? ? [y Hy] _]; subst.
      unfold eval_bop; simpl; rewrite Hx, Hy; simpl; eexists; split; reflexivity.
    + apply andb_prop in W; destruct W as [L F]; destruct (length2 _ L) as [a [c ->]].
      specialize (Hints F); inversion Hints as [|? ? [x Hx] H2]; subst; inversion H2 as [|? ? [y Hy] _]; subst.
      unfold eval_bop; simpl; rewrite Hx, Hy; simpl; eexists; split; reflexivity.
    + apply andb_prop in W; destruct W as [L F]; destruct (length2 _ L) as [a [c ->]].
      specialize (Hints F); inversion Hints as [|? ? [x Hx] H2]; subst; inversion H2 as [|? ? [y Hy] _]; subst.
      unfold eval_bop; simpl; rewrite Hx, Hy; simpl; eexists; split; reflexivity.
    + apply andb_prop in W; destruct W as [L F]; destruct (length2 _ L) as [a [c ->]].
      specialize (Hints F); inversion Hints as [|? ? [x Hx] H2]; subst; inversion H2 as [|? ? [y Hy] _]; subst.
      unfold eval_bop; simpl; rewrite Hx, Hy; simpl; eexists; split; reflexivity.
    + apply andb_prop in W; destruct W as [L F]; destruct (length2 _ L) as [a [c ->]].
      specialize (Hints F); inversion Hints as [|? ? [x Hx] H2]; subst; inversion H2 as [|? ? [y Hy] _]; subst.
      unfold eval_bop; simpl; rewrite Hx, Hy; simpl; eexists; split; reflexivity.
    + (* NOT *) apply andb_prop in W; destruct W as [L F]; destruct (length1 _ L) as [a ->].
      specialize (Hbools F); inversion Hbools as [|? ? [x Hx] _]; subst.
      unfold eval_bop; simpl; rewrite Hx; simpl; eexists; split; reflexivity.
    + (* AND *) destruct (eval_list_bools _ _ (Hbools W)) as [bs [E _]].
      unfold eval_bop; rewrite E, all_some_map_some, as_bools_VB; simpl; eexists; split; reflexivity.
    + (* OR *) destruct (eval_list_bools _ _ (Hbools W)) as [bs [E _]].
      unfold eval_bop; rewrite E, all_some_map_some, as_bools_VB; simpl; eexists; split; reflexivity.
    + apply andb_prop in W; destruct W as [L F]; destruct (length2 _ L) as [a [c ->]].
      specialize (Hbools F); inversion Hbools as [|? ? [x Hx] H2]; subst; inversion H2 as [|? ? [y Hy] _]; subst.
      unfold eval_bop; simpl; rewrite Hx, Hy; simpl; eexists; split; reflexivity.
    + apply andb_prop in W; destruct W as [L F]; destruct (length2 _ L) as [a [c ->]].
      specialize (Hbools F); inversion Hbools as [|? ? [x Hx] H2]; subst; inversion H2 as [|? ? [y Hy] _]; subst.
      unfold eval_bop; simpl; rewrite Hx, Hy; simpl; eexists; split; reflexivity.
    + apply andb_prop in W; destruct W as [L F]; destruct (length2 _ L) as [a [c ->]].
      specialize (Hbools F); inversion Hbools as [|? ? [x Hx] H2]; subst; inversion H2 as [|? ? [y Hy] _]; subst.
      unfold eval_bop; simpl; rewrite Hx, Hy; simpl; eexists; split; reflexivity.
    + (* ALLDIFF *) destruct (eval_list_ints _ _ (Hints W)) as [zs [E _]].
      unfold eval_bop; rewrite E, all_some_map_some, as_ints_VI; simpl; eexists; split; reflexivity.
  - destruct b; try discriminate; simpl in W.
    assert (Hints : forallb (wt false) args = true -> Forall (fun a => exists z, eval no_graph en a = Some (VI z)) args).
    { intros F; rewrite forallb_forall in F; rewrite Forall_forall in *; intros a Ia.
      destruct (IH a Ia false (F a Ia) en) as [v [E K]]; destruct v; simpl in K; try discriminate; eauto. }
    destruct o; try discriminate; simpl.
    + (* INT_CONSTANT *) destruct args as [|[c|z| | | | |] [|]]; try discriminate; simpl; eexists; split; reflexivity.
    + (* NEG *) apply andb_prop in W; destruct W as [L F]; destruct (length1 _ L) as [a ->].
      specialize (Hints F); inversion Hints as [|? ? [x Hx] _]; subst.
      unfold eval_iop; simpl; rewrite Hx; simpl; eexists; split; reflexivity.
    + (* ADD *) apply andb_prop in W; destruct W as [L F].
      destruct (eval_list_ints _ _ (Hints F)) as [zs [E Lz]].
      unfold eval_iop; rewrite E, all_some_map_some.
      destruct zs as [|z zs]; [destruct args; simpl in *; discriminate|].
      simpl; rewrite as_ints_VI; simpl; eexists; split; reflexivity.
    + (* SUB *) apply andb_prop in W; destruct W as [L F].
      destruct (eval_list_ints _ _ (Hints F)) as [zs [E Lz]].
      unfold eval_iop; rewrite E, all_some_map_some, as_ints_VI.
      destruct zs as [|z zs]; [destruct args; simpl in *; discriminate|].
      simpl; eexists; split; reflexivity.
    + (* IF *) destruct args as [|c [|t [|f [|]]]]; try discriminate.
      apply andb_prop in W; destruct W as [W Wf]; apply andb_prop in W; destruct W as [Wc Wt].
      inversion IH as [|? ? IHc IH2]; subst; inversion IH2 as [|? ? IHt IH3]; subst; inversion IH3 as [|? ? IHf _]; subst.
      destruct (IHc true Wc en) as [vc [Ec Kc]]; destruct (IHt false Wt en) as [vt [Et Kt]];
        destruct (IHf false Wf en) as [vf [Ef Kf]].
      destruct vc, vt, vf; simpl in Kc, Kt, Kf; try discriminate.
      unfold eval_iop; simpl; rewrite Ec, Et, Ef; simpl; eexists; split; reflexivity.
Qed.

Lemma wt_eval_bool e en : wt true e = true -> exists b, eval no_graph en e = Some (VB b).
Proof. intros W; destruct (wt_eval e true W en) as [[b|z] [E K]]; simpl in K; try discriminate; eauto. Qed.
Lemma wt_eval_int e en : wt false e = true -> exists z, eval no_graph en e = Some (VI z).
Proof. intros W; destruct (wt_eval e false W en) as [[b|z] [E K]]; simpl in K; try discriminate; eauto. Qed.

(* evaluation looks only at the variables below the declared ones *)
Lemma refs_ok_lt vs : forall e, refs_ok vs e = true ->
  forall e1 e2, agree_below (length vs) e1 e2 -> eval no_graph e1 e = eval no_graph e2 e.
Proof.
  induction e as [c|z| |i|i lo hi|o args IH|o args IH] using expr_nested_ind; intros R e1 e2 A; simpl in *;
    try reflexivity.
  - destruct (nth_error vs i) eqn:N; try discriminate.
    assert (i < length vs)%nat by (apply nth_error_Some; congruence).
    destruct (A i H) as [-> _]; reflexivity.
  - destruct (nth_error vs i) eqn:N; try discriminate.
    assert (i < length vs)%nat by (apply nth_error_Some; congruence).
    destruct (A i H) as [_ ->]; reflexivity.
  - f_equal. apply map_ext_in; intros a Ia. rewrite forallb_forall in R; rewrite Forall_forall in IH.
    apply IH; auto.
  - f_equal. apply map_ext_in; intros a Ia. rewrite forallb_forall in R; rewrite Forall_forall in IH.
    apply IH; auto.
Qed.

(* two assignments give every declared variable the same value (of its sort) *)
Definition val_of (en : env) (d : vdecl) (i : nat) : value :=
  match d with DBool => VB (eb en i) | DInt _ _ => VI (ei en i) end.
Definition agree_on (vs : list vdecl) (e1 e2 : env) : Prop :=
  forall i d, nth_error vs i = Some d -> val_of e1 d i = val_of e2 d i.

Lemma refs_ok_agree vs : forall e, refs_ok vs e = true ->
  forall e1 e2, agree_on vs e1 e2 -> eval no_graph e1 e = eval no_graph e2 e.
Proof.
  induction e as [c|z| |i|i lo hi|o args IH|o args IH] using expr_nested_ind; intros R e1 e2 A; simpl in *;
    try reflexivity.
  - destruct (nth_error vs i) as [[|]|] eqn:N; try discriminate.
    pose proof (A i DBool N) as H; simpl in H; injection H as ->; reflexivity.
  - destruct (nth_error vs i) as [[|l h]|] eqn:N; try discriminate.
    pose proof (A i (DInt l h) N) as H; simpl in H; injection H as ->; reflexivity.
  - f_equal. apply map_ext_in; intros a Ia. rewrite forallb_forall in R; rewrite Forall_forall in IH.
    apply IH; auto.
  - f_equal. apply map_ext_in; intros a Ia. rewrite forallb_forall in R; rewrite Forall_forall in IH.
    apply IH; auto.
Qed.

Lemma holds_agree vs e e1 e2 : refs_ok vs e = true -> agree_on vs e1 e2 ->
  holds no_graph e1 e = holds no_graph e2 e.
Proof. intros R A; unfold holds; rewrite (refs_ok_agree vs e R e1 e2 A); reflexivity. Qed.

Lemma in_bounds_from_agree e1 e2 : forall vs k,
  (forall j d, nth_error vs j = Some d -> val_of e1 d (k + j) = val_of e2 d (k + j)) ->
  in_bounds_from e1 k vs = in_bounds_from e2 k vs.
Proof.
  induction vs as [|d vs IH]; intros k H; simpl; [reflexivity|].
  assert (Hn : forall j d0, nth_error vs j = Some d0 -> val_of e1 d0 (S k + j) = val_of e2 d0 (S k + j)).
  { intros j d0 Hj. replace (S k + j)%nat with (k + S j)%nat by lia. apply H; exact Hj. }
  destruct d as [|lo hi].
  - apply IH; exact Hn.
  - pose proof (H O (DInt lo hi) eq_refl) as H0; rewrite Nat.add_0_r in H0; simpl in H0; injection H0 as ->.
    rewrite (IH (S k) Hn); reflexivity.
Qed.

Lemma in_bounds_agree vs e1 e2 : agree_on vs e1 e2 ->
  in_bounds_from e1 O vs = in_bounds_from e2 O vs.
Proof. intros A; apply in_bounds_from_agree; intros j d H; apply A; exact H. Qed.
