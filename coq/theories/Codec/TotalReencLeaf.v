(* C17: re-encodability, leaf level.  For every leaf combinator (Dict, Spaces, DecInt, HexInt,
   IntSpaces, MultiDigit; FixStr yields no item): every item a successful decode returns lies in
   the combinator's serialization domain [leaf_dom] (a space of IntSpaces in the domain of the
   surrounding alternatives), and on a position holding an item of its domain serialization
   SUCCEEDS, consumes at least one item and stays within the list.  Then the same for a
   "scalar base" (a leaf, or alternatives that are leaves): what Seq / Grid / ValuedRooms loop
   over. *)
From Coq Require Import ZArith List Ascii Bool NArith Lia.
From Cspuz Require Import Lib.PyErr Codec.Comb Codec.CombWf Codec.CombBasics Codec.CombLeaf Codec.CombRoundTrip
  Codec.TotalModel Codec.TotalLeaf Codec.TotalDims Codec.TotalReencModel.
Import ListNotations.
Local Open Scope Z_scope.

(* ------------------------------------------------------------------ Python == is reflexive on the value universe *)
Lemma pv_eqb_refl v : pv_eqb v v = true.
Proof.
  induction v using pv_ind'; simpl.
  - apply Z.eqb_refl.
  - apply str_eqb_eq. reflexivity.
  - reflexivity.
  - induction H as [|x l Hx _ IH]; [reflexivity|]. rewrite Hx. exact IH.
  - induction H as [|x l Hx _ IH]; [reflexivity|]. rewrite Hx. exact IH.
Qed.


(* what a decoded item is: in the domain, or the space of an IntSpaces that can emit spaces *)
Definition item_of (c : comb) (v : pv) : Prop :=
  leaf_dom c v = true \/ exists mi ms, c = IntSpaces v mi ms /\ 0 < ms.

(* ------------------------------------------------------------------ int() without a minus sign is not negative *)
Lemma parse_digits_nonneg base : 0 <= base -> forall s us acc v, 0 <= acc ->
  parse_digits base s us acc = Some v -> 0 <= v.
Proof.
  intros Hb. induction s as [|c t IH]; intros us acc v Ha H; simpl in H.
  - destruct us; [discriminate|]. inversion H; subst; auto.
  - destruct (ascii_eqb c "_"%char).
    + destruct us; [discriminate|]. eapply IH; eauto.
    + destruct (digit_val c) as [d|] eqn:Ed; [|discriminate].
      destruct (d <? base); [|discriminate].
      pose proof (digit_val_range c d Ed). eapply IH; [|exact H]. nia.
Qed.

Lemma in_lstrip c s : In c (lstrip s) -> In c s.
Proof.
  induction s as [|x s IH]; simpl; auto. destruct (is_space_c x); auto.
Qed.

Lemma in_rstrip c s : In c (rstrip s) -> In c s.
Proof.
  unfold rstrip. intros H. apply in_rev in H. apply in_lstrip in H. apply in_rev in H. exact H.
Qed.

Lemma py_int_nonneg s base v : 0 <= base ->
  (forall c, In c s -> ascii_eqb c "-"%char = false) -> py_int s base = Ok v -> 0 <= v.
Proof.
  intros Hb Hm. unfold py_int. set (t := rstrip (lstrip s)).
  assert (Ht : forall c, In c t -> ascii_eqb c "-"%char = false).
  { intros c Hc. apply Hm. apply in_lstrip. apply in_rstrip. exact Hc. }
  assert (Hs : fst (int_sign t) = false).
  { destruct t as [|c t']; simpl; auto. destruct (ascii_eqb c "+"%char); simpl; auto.
    rewrite (Ht c (or_introl eq_refl)). reflexivity. }
  rewrite Hs. unfold int_body.
  destruct (int_prefix base (snd (int_sign t))) as [|c u]; [discriminate|].
  destruct (ascii_eqb c "_"%char); [discriminate|].
  destruct (parse_digits base (c :: u) false 0) as [v0|] eqn:E; [|discriminate].
  intros H. inversion H; subst. eapply parse_digits_nonneg; [exact Hb| |exact E]. lia.
Qed.

Lemma isdigit_not_minus c : isdigit_c c = true -> ascii_eqb c "-"%char = false.
Proof.
  assert (H : forall ch, (negb (isdigit_c ch) || negb (ascii_eqb ch "-"%char)) = true).
  { apply forall_chars. vm_compute. reflexivity. }
  intros Hd. specialize (H c). rewrite Hd in H. simpl in H. apply negb_true_iff in H. exact H.
Qed.

Lemma span_digits_firstn s : forallb isdigit_c (firstn (span_digits s) s) = true.
Proof.
  induction s as [|c s IH]; simpl; auto. destruct (isdigit_c c) eqn:E; simpl; auto. rewrite E. exact IH.
Qed.

(* ------------------------------------------------------------------ decoding yields items of the domain *)
Lemma dict_de_in s : forall before after k l, dict_de s before after = Ok (Some (k, l)) ->
  exists b, l = [b] /\ In b before.
Proof.
  induction before as [|b before IH]; intros after k l H; simpl in H; [discriminate|].
  destruct after as [|a after]; [discriminate|].
  destruct (is_prefix a s).
  - inversion H; subst. exists b. split; auto. left; auto.
  - destruct (IH after k l H) as (b' & E & Hin). exists b'. split; auto. right; auto.
Qed.

Lemma md_unpack_dom b dd : 1 <= b -> forall d v acc,
  Forall (fun x => leaf_dom (MultiDigit b dd) x = true) acc ->
  Forall (fun x => leaf_dom (MultiDigit b dd) x = true) (md_unpack b d v acc).
Proof.
  intros Hb. induction d as [|d IH]; intros v acc Ha; simpl; auto.
  apply IH. constructor; auto. simpl.
  pose proof (Z.mod_pos_bound v b ltac:(lia)).
  apply andb_true_iff. split; [apply Z.leb_le|apply Z.ltb_lt]; lia.
Qed.

Lemma Forall_repeat {A} (P : A -> Prop) x n : P x -> Forall P (repeat x n).
Proof. intros H. induction n; simpl; constructor; auto. Qed.

Lemma leaf_de_dom e c s n items : wf c = true -> pleafmd c = true ->
  de e c s = Ok (Some (n, items)) -> Forall (item_of c) items.
Proof.
  intros Hwf Hp H. destruct c; try discriminate; simpl in H.
  - (* Dict *)
    unfold dict_de_at in H. destruct s as [|c0 s]; [discriminate|].
    apply dict_de_in in H as (b & -> & Hin). constructor; [|constructor]. left. simpl.
    apply existsb_exists. exists b. split; auto. apply pv_eqb_refl.
  - (* Spaces *)
    unfold spaces_de in H. destruct s as [|c0 s]; [discriminate|].
    destruct (negb (is_alnum_lower [c0])); [discriminate|].
    destruct (from_base36 [c0]) as [i|]; [|discriminate].
    destruct (spaces_offset smallest <? i); [|discriminate]. inversion H; subst.
    apply Forall_repeat. left. simpl. apply pv_eqb_refl.
  - (* DecInt *)
    unfold decint_de in H. destruct s as [|c0 s]; [discriminate|].
    destruct (span_digits (c0 :: s)) as [|m] eqn:Es; [discriminate|].
    destruct (py_int (firstn (S m) (c0 :: s)) 10) as [v|] eqn:Ev; [|discriminate]. inversion H; subst.
    constructor; [|constructor]. left. simpl. apply Z.leb_le.
    apply (py_int_nonneg _ 10 v ltac:(lia)) in Ev; auto.
    intros ch Hin. apply isdigit_not_minus.
    pose proof (span_digits_firstn (c0 :: s)) as Hd. rewrite Es in Hd.
    rewrite forallb_forall in Hd. apply Hd. exact Hin.
  - (* HexInt *)
    destruct (hexint_reencodable_lemma s n items H) as (z & t & -> & Hz & _).
    constructor; [|constructor]. left. simpl. apply andb_true_iff. split; apply Z.leb_le; lia.
  - (* IntSpaces *)
    apply wf_intspaces in Hwf as (Hmi & Hms & Hp36).
    unfold intspaces_de in H. destruct s as [|c0 s]; [discriminate|].
    destruct (negb (is_alnum_lower [c0])); [discriminate|].
    destruct (from_base36 [c0]) as [v|]; [|discriminate].
    destruct ((0 <=? v) && (v <? (max_int + 1) * (max_num_spaces + 1))) eqn:E; cbn [negb] in H; [|discriminate].
    apply andb_true_iff in E as [E1 E2]. apply Z.leb_le in E1. apply Z.ltb_lt in E2.
    inversion H; subst. constructor.
    + left. simpl. pose proof (Z.mod_pos_bound v (max_int + 1) ltac:(lia)).
      apply andb_true_iff. split; apply Z.leb_le; lia.
    + destruct (Z.eq_dec max_num_spaces 0) as [E0|N0].
      * subst max_num_spaces. rewrite Z.div_small by lia. constructor.
      * apply Forall_repeat. right. exists max_int, max_num_spaces. split; auto. lia.
  - (* MultiDigit *)
    apply wf_md in Hwf as (Hb & _).
    unfold md_de in H. destruct s as [|c0 s]; [discriminate|].
    destruct (negb (is_alnum_lower [c0])); [discriminate|].
    destruct (from_base36 [c0]) as [v|]; [|discriminate].
    destruct (negb ((0 <=? v) && (v <? base ^ Z.of_nat digits))); [discriminate|]. inversion H; subst.
    eapply Forall_impl; [|apply (md_unpack_dom base digits Hb digits v []); constructor].
    intros x Hx. left. exact Hx.
Qed.

(* ------------------------------------------------------------------ serialization on a list, at a position *)
Lemma with_item_at d p v k : nth_error d p = Some v -> with_item (VList d) p k = k d v.
Proof.
  intros Hn. unfold with_item. cbn [py_items].
  assert (Hlt : (p < length d)%nat) by (apply nth_error_Some; congruence).
  replace (Nat.eqb p (length d)) with false by (symmetry; apply Nat.eqb_neq; lia).
  unfold nth_res. rewrite Hn. reflexivity.
Qed.

Lemma to_base36_ok v : 0 <= v -> to_base36 v = Ok (to_base 36 v).
Proof. intros H. unfold to_base36. destruct (Z.ltb_spec v 0); [lia|reflexivity]. Qed.

Lemma dict_ser_cases v : forall before after, length before = length after ->
  (dict_ser v before after = Ok None /\ existsb (pv_eqb v) before = false) \/
  (exists a, dict_ser v before after = Ok (Some (1%nat, a))).
Proof.
  induction before as [|b before IH]; intros after Hl; simpl.
  - left. auto.
  - destruct after as [|a after]; [discriminate|]. simpl in Hl.
    destruct (pv_eqb v b) eqn:E; simpl.
    + right. eauto.
    + apply IH. lia.
Qed.

(* a pointwise leaf at a position holding v: no exception; None exactly outside the domain;
   otherwise at least one item is consumed and the count stays within the list *)
Lemma leaf_ser_cases e c d p v : wf c = true -> pleaf c = true -> nth_error d p = Some v ->
  (ser e c (VList d) p = Ok None /\ leaf_dom c v = false) \/
  (exists k s, ser e c (VList d) p = Ok (Some (S k, s)) /\ (p + S k <= length d)%nat /\
               (single c = true -> k = 0%nat) /\ leaf_dom c v = true).
Proof.
  intros Hwf Hp Hn.
  assert (Hlt : (p < length d)%nat) by (apply nth_error_Some; congruence).
  destruct c; try discriminate; cbn [ser].
  - (* Dict *)
    apply wf_dict in Hwf as [Hlen _]. unfold dict_ser_at. rewrite (with_item_at d p v _ Hn).
    destruct (dict_ser_cases v before after Hlen) as [[E1 E2]|[a E]].
    + left. auto.
    + right. exists 0%nat, a. repeat split; auto; try lia. simpl.
      destruct (existsb (pv_eqb v) before) eqn:Ex; auto.
      exfalso. clear -E Ex. revert after E. induction before as [|b before IH]; intros after E; simpl in *; [discriminate|].
      destruct (pv_eqb v b); [discriminate|]. simpl in Ex. eapply IH; eauto.
  - (* Spaces *)
    simpl in Hwf. destruct (digit_val smallest) as [v0|] eqn:Ed; [|discriminate].
    destruct (spaces_params smallest v0 Ed) as (Ho & Hm & Hv).
    unfold spaces_ser. rewrite (with_item_at d p v _ Hn). simpl leaf_dom.
    destruct (pv_eqb v space) eqn:Ev; cbn [negb].
    + right. cbv zeta.
      destruct (run_eq_spec space (skipn (S p) d) (Z.to_nat (spaces_max smallest - 1))) as (_ & _ & Hr).
      rewrite skipn_length in Hr.
      set (r := run_eq space (skipn (S p) d) (Z.to_nat (spaces_max smallest - 1))) in *.
      rewrite to_base36_ok by lia. exists r, (to_base 36 (spaces_offset smallest + Z.of_nat (S r))).
      repeat split; auto; try lia. discriminate.
    + left. auto.
  - (* DecInt *)
    unfold decint_ser. rewrite (with_item_at d p v _ Hn). simpl leaf_dom.
    destruct v; try (left; split; reflexivity).
    destruct (Z.ltb_spec z 0).
    + left. split; auto. apply Z.leb_gt. lia.
    + right. exists 0%nat, (py_str_int z). repeat split; auto; try lia.
  - (* HexInt *)
    unfold hexint_ser. rewrite (with_item_at d p v _ Hn). simpl leaf_dom.
    destruct v; try (left; split; reflexivity).
    destruct ((0 <=? z) && (z <=? 4095)); cbn [negb].
    + right. exists 0%nat, (hex_prefix z ++ to_base16 z). repeat split; auto; lia.
    + left. auto.
  - (* IntSpaces *)
    apply wf_intspaces in Hwf as (Hmi & Hms & Hp36).
    unfold intspaces_ser. rewrite (with_item_at d p v _ Hn). simpl leaf_dom.
    destruct v; try (left; split; reflexivity).
    destruct ((0 <=? z) && (z <=? max_int)) eqn:E; cbn [negb].
    + right. apply andb_true_iff in E as [E1 E2]. apply Z.leb_le in E1, E2. cbv zeta.
      destruct (run_eq_spec space (skipn (S p) d) (Z.to_nat max_num_spaces)) as (_ & _ & Hr).
      rewrite skipn_length in Hr.
      set (r := run_eq space (skipn (S p) d) (Z.to_nat max_num_spaces)) in *.
      rewrite to_base36_ok by nia. exists r, (to_base 36 (Z.of_nat r * (max_int + 1) + z)).
      repeat split; auto; try lia. discriminate.
    + left. auto.
Qed.

(* ------------------------------------------------------------------ MultiDigit on a list of digits *)
Definition digit_of (b : Z) (v : pv) : Prop := leaf_dom (MultiDigit b 0) v = true.

Lemma md_ser_loop_digits b : 1 <= b -> forall d l value, Forall (digit_of b) l -> 0 <= value ->
  exists v', md_ser_loop b d l value = Ok (Some v') /\ 0 <= v'.
Proof.
  intros Hb. induction d as [|d IH]; intros l value Hl Hv; cbn [md_ser_loop].
  - eauto.
  - destruct l as [|x t].
    + apply IH; auto. nia.
    + inversion Hl as [|? ? Hx Ht]; subst. unfold digit_of in Hx. simpl in Hx.
      destruct x; try discriminate. rewrite Hx.
      apply andb_true_iff in Hx as [H1 H2]. apply Z.leb_le in H1. apply IH; auto. nia.
Qed.

Lemma Forall_skipn {A} (P : A -> Prop) n : forall l, Forall P l -> Forall P (skipn n l).
Proof. induction n; intros [|x l] H; simpl; auto. inversion H; subst. auto. Qed.

Lemma md_ser_digits b dg d p : 1 <= b -> Forall (digit_of b) d -> (p < length d)%nat ->
  exists s, md_ser b dg (VList d) p = Ok (Some (Nat.min (length d - p) dg, s)).
Proof.
  intros Hb Hd Hp. unfold md_ser.
  destruct (nth_error d p) as [v|] eqn:Hn; [|apply nth_error_None in Hn; lia].
  rewrite (with_item_at d p v _ Hn).
  destruct (md_ser_loop_digits b Hb dg (skipn p d) 0) as (v' & Hv & Hpos); [apply Forall_skipn; auto|lia|].
  rewrite Hv. rewrite to_base36_ok by auto. eexists; reflexivity.
Qed.

(* ------------------------------------------------------------------ scalar bases: a leaf, or alternatives that are leaves *)

Fixpoint oneof_de' (e : env) (s : str) (l : list comb) : dres :=
  match l with
  | [] => Ok None
  | c1 :: l' => match de e c1 s with
                | Err e' => Err e'
                | Ok (Some r) => Ok (Some r)
                | Ok None => oneof_de' e s l'
                end
  end.

Fixpoint oneof_ser' (e : env) (data : pv) (idx : nat) (l : list comb) : sres :=
  match l with
  | [] => Ok None
  | c1 :: l' => match ser e c1 data idx with
                | Err e' => Err e'
                | Ok (Some r) => Ok (Some r)
                | Ok None => oneof_ser' e data idx l'
                end
  end.

Lemma de_oneof' e l s : de e (OneOf l) s = oneof_de' e s l.
Proof. simpl. induction l as [|c1 l IH]; simpl; auto. destruct (de e c1 s) as [[r|]|]; auto. Qed.

Lemma ser_oneof' e l data idx : ser e (OneOf l) data idx = oneof_ser' e data idx l.
Proof. simpl. induction l as [|c1 l IH]; simpl; auto. destruct (ser e c1 data idx) as [[r|]|]; auto. Qed.

Lemma pleaf_pleafmd c : pleaf c = true -> pleafmd c = true.
Proof. destruct c; simpl; auto. Qed.

Lemma item_of_cov l a v : In a l -> sp_cov l a = true -> item_of a v ->
  existsb (fun a' => leaf_dom a' v) l = true.
Proof.
  intros Hin Hc [Hd|(mi & ms & -> & Hms)].
  - apply existsb_exists. exists a. auto.
  - simpl in Hc. destruct (Z.leb_spec ms 0); [lia|]. exact Hc.
Qed.

(* whatever a scalar base decodes lies, item by item, in its domain *)
Lemma sbase_de_dom e c s n items : wf c = true -> sbase c = true ->
  de e c s = Ok (Some (n, items)) -> Forall (fun v => sdom c v = true) items.
Proof.
  intros Hwf Hs H.
  assert (Hleaf : forall c0, pleaf c0 = true -> wf c0 = true -> sp_cov [c0] c0 = true ->
            de e c0 s = Ok (Some (n, items)) -> Forall (fun v => leaf_dom c0 v = true) items).
  { intros c0 Hp Hw Hc H0. pose proof (leaf_de_dom e c0 s n items Hw (pleaf_pleafmd c0 Hp) H0) as HF.
    eapply Forall_impl; [|exact HF]. intros v Hv.
    pose proof (item_of_cov [c0] c0 v (or_introl eq_refl) Hc Hv) as Hx. simpl in Hx.
    rewrite orb_false_r in Hx. exact Hx. }
  destruct c; try (simpl in Hs; discriminate);
    try (unfold sbase in Hs; apply andb_true_iff in Hs as [Hs1 Hs2]; apply (Hleaf _ Hs1 Hwf Hs2 H); fail);
    simpl in Hs.
  - (* MultiDigit *)
    pose proof (leaf_de_dom e _ s n items Hwf eq_refl H) as HF.
    eapply Forall_impl; [|exact HF]. intros v [Hv|(mi & ms & E & _)]; [exact Hv|discriminate].
  - (* OneOf *)
    apply andb_true_iff in Hs as [Hs1 Hs2].
    apply wf_oneof in Hwf as (Hw & _). rewrite de_oneof' in H.
    assert (Hgen : forall l0, (forall a, In a l0 -> In a choices) ->
              oneof_de' e s l0 = Ok (Some (n, items)) ->
              Forall (fun v => existsb (fun a => leaf_dom a v) choices = true) items).
    { induction l0 as [|a l0 IH]; intros Hsub H0; simpl in H0; [discriminate|].
      assert (Hin : In a choices) by (apply Hsub; left; auto).
      destruct (de e a s) as [[[k0 it0]|]|] eqn:E; try discriminate.
      - inversion H0; subst.
        rewrite forallb_forall in Hs1, Hs2, Hw.
        pose proof (leaf_de_dom e a s n items (Hw a Hin) (pleaf_pleafmd a (Hs1 a Hin)) E) as HF.
        eapply Forall_impl; [|exact HF]. intros v Hv. apply (item_of_cov choices a v Hin (Hs2 a Hin) Hv).
      - apply IH; auto. intros a' Ha'. apply Hsub. right; auto. }
    apply (Hgen choices); auto.
Qed.

(* on a list of items of its domain, a scalar base serializes at every position, consumes at
   least one item and stays within the list *)
Lemma sbase_ser_total e c d p : wf c = true -> sbase c = true ->
  Forall (fun v => sdom c v = true) d -> (p < length d)%nat ->
  exists k s, ser e c (VList d) p = Ok (Some (S k, s)) /\ (p + S k <= length d)%nat.
Proof.
  intros Hwf Hs Hd Hp.
  destruct (nth_error d p) as [v|] eqn:Hn; [|apply nth_error_None in Hn; lia].
  assert (Hv : sdom c v = true). { rewrite Forall_forall in Hd. apply Hd. eapply nth_error_In; eauto. }
  assert (Hleaf : forall c0, pleaf c0 = true -> wf c0 = true -> leaf_dom c0 v = true ->
            exists k s, ser e c0 (VList d) p = Ok (Some (S k, s)) /\ (p + S k <= length d)%nat).
  { intros c0 Hp0 Hw0 Hd0. destruct (leaf_ser_cases e c0 d p v Hw0 Hp0 Hn) as [[_ E]|(k & s & E1 & E2 & _)].
    - congruence.
    - exists k, s. auto. }
  destruct c; try (simpl in Hs; discriminate);
    try (unfold sbase in Hs; apply andb_true_iff in Hs as [Hs1 Hs2]; apply (Hleaf _ Hs1 Hwf Hv); fail);
    simpl in Hs.
  - (* MultiDigit *)
    apply wf_md in Hwf as (Hb & _). apply negb_true_iff in Hs. apply Nat.eqb_neq in Hs.
    destruct (md_ser_digits base digits d p Hb) as (s & E); auto.
    cbn [ser]. rewrite E.
    destruct (Nat.min (length d - p) digits) as [|k] eqn:Ek; [lia|]. exists k, s. split; auto. lia.
  - (* OneOf *)
    apply andb_true_iff in Hs as [Hs1 _].
    apply wf_oneof in Hwf as (Hw & _). rewrite ser_oneof'. simpl in Hv.
    rewrite forallb_forall in Hs1, Hw.
    revert Hv Hs1 Hw. generalize choices as l. induction l as [|a l IH]; intros Hv Hs1 Hw; simpl in Hv; [discriminate|].
    simpl.
    destruct (leaf_ser_cases e a d p v (Hw a (or_introl eq_refl)) (Hs1 a (or_introl eq_refl)) Hn)
      as [[E1 E2]|(k & s & E1 & E2 & _)].
    + rewrite E1. rewrite E2 in Hv. simpl in Hv. apply IH; auto.
      * intros x Hx. apply Hs1. right; auto.
      * intros x Hx. apply Hw. right; auto.
    + rewrite E1. exists k, s. auto.
Qed.

(* Seq.serialize's loop succeeds when every step does *)
Lemma seq_ser_loop_succeeds serc n d : n = Z.of_nat (length d) ->
  (forall p, (p < length d)%nat -> exists ofs s, serc (VList d) p = Ok (Some (S ofs, s)) /\ (p + S ofs <= length d)%nat) ->
  forall fuel nr ret, (nr <= length d)%nat -> (length d - nr <= fuel)%nat ->
  exists s, seq_ser_loop serc n (VList d) fuel nr ret = Ok (Some s).
Proof.
  intros Hn Hstep. induction fuel as [|fuel IH]; intros nr ret Hnr Hfuel.
  - assert (nr = length d) by lia. subst nr. exists ret. simpl.
    destruct (Z.ltb_spec (Z.of_nat (length d)) n); [lia|]. rewrite Hn, Z.eqb_refl. reflexivity.
  - cbn [seq_ser_loop]. destruct (Z.ltb_spec (Z.of_nat nr) n).
    + destruct (Hstep nr ltac:(lia)) as (ofs & s & E & Hle). rewrite E. apply IH; lia.
    + assert (nr = length d) by lia. subst nr. exists ret. rewrite Hn, Z.eqb_refl. reflexivity.
Qed.

(* Seq.serialize over a scalar base, on a list of n items of its domain *)
Lemma seq_ser_total e c d : wf c = true -> sbase c = true -> Forall (fun v => sdom c v = true) d ->
  exists s, seq_ser (ser e c) (Z.of_nat (length d)) (VList [VList d]) 0 = Ok (Some (1%nat, s)).
Proof.
  intros Hwf Hs Hd. unfold seq_ser. cbn [py_items length Nat.eqb nth_res nth_error]. rewrite Nat2Z.id.
  destruct (seq_ser_loop_succeeds (ser e c) (Z.of_nat (length d)) d eq_refl
              (fun p Hp => sbase_ser_total e c d p Hwf Hs Hd Hp) (length d) 0%nat []) as (s & E); try lia.
  rewrite E. eauto.
Qed.
