(* C11 Tier 1 - sudoku: the program posted by solve_sudoku (as modelled in
   Sudoku.v, for every n) admits exactly the grids that obey Rules_sudoku. *)
From Coq Require Import ZArith List Bool Arith Lia.
From Cspuz Require Import Lib.PyErr Core.Expr Core.Program Puzzle.PuzzleBase Puzzle.SatAbs
     Puzzle.Rules_sudoku Puzzle.Sudoku.
Import ListNotations.
Local Open Scope nat_scope.

Lemma zmem_same x l : zmem x l = zmem_ x l.
Proof. induction l; simpl; congruence. Qed.
Lemma distinct_same l : distinct l = zdistinct l.
Proof. induction l; simpl; [reflexivity|]. rewrite zmem_same, IHl. reflexivity. Qed.

Lemma forallb_ext_in {A} (f g : A -> bool) l :
  (forall x, In x l -> f x = g x) -> forallb f l = forallb g l.
Proof.
  induction l as [|a r IH]; simpl; intros H; [reflexivity|].
  rewrite (H a (or_introl eq_refl)), IH; auto.
Qed.
Lemma forallb_flat_map {A B} (f : B -> bool) (g : A -> list B) l :
  forallb f (flat_map g l) = forallb (fun x => forallb f (g x)) l.
Proof. induction l; simpl; [reflexivity|]. rewrite forallb_app, IHl. reflexivity. Qed.
Lemma forallb_map {A B} (f : B -> bool) (g : A -> B) l :
  forallb f (map g l) = forallb (fun x => f (g x)) l.
Proof. induction l; simpl; congruence. Qed.
Lemma forallb_and {A} (f g : A -> bool) l :
  forallb (fun x => f x && g x) l = forallb f l && forallb g l.
Proof.
  induction l as [|a r IH]; simpl; [reflexivity|]. rewrite IH.
  destruct (f a), (g a), (forallb f r), (forallb g r); reflexivity.
Qed.

Section Sem.
  Variable en : env.

  Lemma all_some_ints {A} (g : A -> Z) l :
    all_some (map (fun x => Some (VI (g x))) l) = Some (map (fun x => VI (g x)) l).
  Proof. induction l; simpl; [reflexivity|]. rewrite IHl. reflexivity. Qed.
  Lemma as_ints_ints {A} (g : A -> Z) l :
    as_ints (map (fun x => VI (g x)) l) = Some (map g l).
  Proof. induction l; simpl; [reflexivity|]. rewrite IHl. reflexivity. Qed.

  (* alldifferent over a list of integer variables *)
  Lemma holds_alldiff {A} (ix : A -> nat) lo hi l :
    holds no_graph en (BNode ALLDIFF (map (fun x => IVar (ix x) lo hi) l)) =
    zdistinct (map (fun x => ei en (ix x)) l).
  Proof.
    unfold holds. simpl. rewrite map_map. simpl.
    rewrite (all_some_ints (fun x => ei en (ix x))). rewrite as_ints_ints. simpl.
    rewrite distinct_same. destruct (zdistinct _); reflexivity.
  Qed.

  Lemma holds_eq_const i lo hi c :
    holds no_graph en (BNode EQ [IVar i lo hi; PyInt c]) = (ei en i =? c)%Z.
  Proof. unfold holds. simpl. destruct (ei en i =? c)%Z; reflexivity. Qed.

  Lemma in_bounds_repeat lo hi m k :
    in_bounds_from en k (repeat (DInt lo hi) m) =
    forallb (fun i => ((lo <=? ei en i) && (ei en i <=? hi))%Z) (seq k m).
  Proof. revert k; induction m; intros k; simpl; [reflexivity|]. rewrite IHm. reflexivity. Qed.
End Sem.

Lemma getz_map_seq (f : nat -> Z) N i : i < N -> getz (map f (seq 0 N)) i = f i.
Proof.
  intros H. unfold getz. rewrite nth_indep with (d' := f 0) by (rewrite map_length, seq_length; assumption).
  rewrite map_nth. rewrite seq_nth by assumption. reflexivity.
Qed.

Lemma map_getz_seq (l : list Z) : map (getz l) (seq 0 (length l)) = l.
Proof.
  induction l as [|a r IH]; simpl; [reflexivity|]. f_equal.
  rewrite <- seq_shift, map_map. exact IH.
Qed.

Lemma cells_in h w y x : In (y, x) (cells h w) -> y < h /\ x < w.
Proof.
  unfold cells. rewrite in_flat_map. intros [y' [Hy Hx]]. apply in_map_iff in Hx.
  destruct Hx as [x' [E Hx]]. inversion E; subst. apply in_seq in Hy. apply in_seq in Hx. lia.
Qed.

Lemma reads_all_int st en N lo hi :
  vars st = repeat (DInt lo hi) N -> reads st en (seq 0 N) = map (ei en) (seq 0 N).
Proof.
  intros Hv. unfold reads. apply map_ext_in. intros i Hi. apply in_seq in Hi.
  unfold read_var. rewrite Hv. rewrite (nth_error_nth' _ (DInt lo hi)) by (rewrite repeat_length; lia).
  rewrite nth_repeat. reflexivity.
Qed.

(* the heart: on the reading of an arbitrary assignment, the rules say exactly
   "domains respected and every posted constraint holds" *)
Lemma sudoku_core n clues en st :
  solve_sudoku_model [[Z.of_nat n]; clues] = Ok st ->
  rules_sudoku [[Z.of_nat n]; clues] (map (ei en) (seq 0 ((n * n) * (n * n)))) =
  in_bounds en st && satisfies no_graph en st.
Proof.
  unfold solve_sudoku_model, rules_sudoku.
  replace (dim [[Z.of_nat n]; clues] 0) with n by (unfold dim, zn, getz, sec; simpl; rewrite Nat2Z.id; reflexivity).
  change (sec [[Z.of_nat n]; clues] 1) with clues.
  set (size := n * n). set (N := size * size).
  destruct (Nat.eqb size 0) eqn:E0; [discriminate|]. intros H. inversion H; subst st; clear H.
  unfold in_bounds, satisfies. simpl vars. simpl Program.cons.
  set (ans := map (ei en) (seq 0 N)).
  assert (Hget : forall i, i < N -> getz ans i = ei en i) by (intros; apply getz_map_seq; assumption).
  assert (Hat : forall y x, y < size -> x < size -> at2 ans size y x = ei en (y * size + x)).
  { intros y x Hy Hx. unfold at2. apply Hget. unfold N. nia. }
  (* length *)
  replace (Nat.eqb (length ans) N) with true
    by (unfold ans; rewrite map_length, seq_length; symmetry; apply Nat.eqb_refl).
  (* range = in_bounds *)
  rewrite in_bounds_repeat.
  replace (forallb (fun v : Z => ((1 <=? v) && (v <=? Z.of_nat size))%Z) ans)
    with (forallb (fun i => ((1 <=? ei en i) && (ei en i <=? Z.of_nat size))%Z) (seq 0 N))
    by (unfold ans; rewrite forallb_map; reflexivity).
  unfold sudoku_constraints. fold size. fold N.
  rewrite !forallb_app, forallb_flat_map, forallb_map, forallb_flat_map.
  set (R := forallb _ (seq 0 N)).
  (* rows and columns *)
  replace (forallb (fun x => forallb (holds no_graph en)
                      [BNode ALLDIFF (map (fun x0 => sudoku_cell size x x0) (seq 0 size));
                       BNode ALLDIFF (map (fun y => sudoku_cell size y x) (seq 0 size))]) (seq 0 size))
    with (forallb (fun y => zdistinct (map (fun x => at2 ans size y x) (seq 0 size))) (seq 0 size) &&
          forallb (fun x => zdistinct (map (fun y => at2 ans size y x) (seq 0 size))) (seq 0 size)).
  2:{ rewrite <- forallb_and. apply forallb_ext_in. intros i Hi. apply in_seq in Hi. simpl forallb.
      unfold sudoku_cell.
      rewrite (holds_alldiff en (fun x => i * size + x)), (holds_alldiff en (fun y => y * size + i)).
      rewrite andb_true_r. f_equal; f_equal; apply map_ext_in; intros j Hj; apply in_seq in Hj; apply Hat; lia. }
  (* boxes *)
  replace (forallb (fun x => holds no_graph en (let '(by_, bx) := x in
             BNode ALLDIFF (map (fun '(dy, dx) => sudoku_cell size (by_ * n + dy) (bx * n + dx)) (cells n n))))
             (cells n n))
    with (forallb (fun '(by_, bx) =>
             zdistinct (map (fun '(dy, dx) => at2 ans size (by_ * n + dy) (bx * n + dx)) (cells n n))) (cells n n)).
  2:{ apply forallb_ext_in. intros [by_ bx] Hb. apply cells_in in Hb.
      unfold sudoku_cell.
      rewrite (map_ext (fun '(dy, dx) => IVar ((by_ * n + dy) * size + (bx * n + dx)) 1 (Z.of_nat size))
                       (fun p => IVar ((fun '(dy, dx) => (by_ * n + dy) * size + (bx * n + dx)) p) 1 (Z.of_nat size)))
        by (intros [dy dx]; reflexivity).
      rewrite (holds_alldiff en (fun '(dy, dx) => (by_ * n + dy) * size + (bx * n + dx))).
      f_equal. apply map_ext_in. intros [dy dx] Hd. apply cells_in in Hd. apply Hat; unfold size; nia. }
  (* clues *)
  replace (forallb (fun x => forallb (holds no_graph en)
             (if (1 <=? getz clues x)%Z then [BNode EQ [IVar x 1 (Z.of_nat size); PyInt (getz clues x)]] else []))
             (seq 0 N))
    with (forallb (fun i => ((getz clues i <? 1)%Z || (getz ans i =? getz clues i)%Z)) (seq 0 N)).
  2:{ apply forallb_ext_in. intros i Hi. apply in_seq in Hi.
      rewrite Hget by lia. rewrite Z.ltb_antisym.
      destruct (1 <=? getz clues i)%Z; simpl; [|reflexivity].
      rewrite holds_eq_const. rewrite andb_true_r. reflexivity. }
  simpl. destruct R; simpl; [|reflexivity].
  rewrite <- !andb_assoc. reflexivity.
Qed.

Theorem sudoku_exact n clues st ans :
  solve_sudoku_model [[Z.of_nat n]; clues] = Ok st ->
  ((exists en, model_of no_graph en st /\ reads st en (seq 0 ((n * n) * (n * n))) = ans)
   <-> rules_sudoku [[Z.of_nat n]; clues] ans = true).
Proof.
  intros Hm.
  assert (Hv : vars st = repeat (DInt 1 (Z.of_nat (n * n))) ((n * n) * (n * n))).
  { unfold solve_sudoku_model in Hm.
    replace (dim [[Z.of_nat n]; clues] 0) with n in Hm
      by (unfold dim, zn, getz, sec; simpl; rewrite Nat2Z.id; reflexivity).
    destruct (Nat.eqb (n * n) 0); [discriminate|]. inversion Hm; reflexivity. }
  split.
  - intros [en [[Hb Hs] Hr]]. rewrite (reads_all_int st en _ _ _ Hv) in Hr. subst ans.
    rewrite (sudoku_core n clues en st Hm), Hb, Hs. reflexivity.
  - intros Hr.
    assert (Hlen : length ans = (n * n) * (n * n)).
    { unfold rules_sudoku in Hr.
      replace (dim [[Z.of_nat n]; clues] 0) with n in Hr
        by (unfold dim, zn, getz, sec; simpl; rewrite Nat2Z.id; reflexivity).
      repeat (apply andb_true_iff in Hr; destruct Hr as [Hr _]). apply Nat.eqb_eq in Hr. exact Hr. }
    set (en := {| eb := fun _ => false; ei := getz ans |}).
    assert (Ha : map (ei en) (seq 0 ((n * n) * (n * n))) = ans) by (rewrite <- Hlen; apply map_getz_seq).
    exists en. rewrite (reads_all_int st en _ _ _ Hv). split; [|exact Ha].
    rewrite <- Ha in Hr. rewrite (sudoku_core n clues en st Hm) in Hr.
    apply andb_true_iff in Hr. exact Hr.
Qed.

(* the hypothesis is satisfiable: the model posts a program for every n >= 1 *)
Example sudoku_model_total n clues : 1 <= n -> exists st, solve_sudoku_model [[Z.of_nat n]; clues] = Ok st.
Proof.
  intros H. unfold solve_sudoku_model.
  replace (dim [[Z.of_nat n]; clues] 0) with n by (unfold dim, zn, getz, sec; simpl; rewrite Nat2Z.id; reflexivity).
  destruct (Nat.eqb (n * n) 0) eqn:E; [apply Nat.eqb_eq in E; nia|]. eauto.
Qed.
