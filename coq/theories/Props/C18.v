(* C18 — SegmentationBuilder2D only ever produces valid room partitions.
   Model: Generator/Segmentation.v (tied to cspuz/generator/segmentation.py by
   harness/pC18.py on every run).  The "never modifies the value it was applied
   to" half of the property is about Python aliasing; it is TESTED by the
   harness and is not a theorem here. *)
From Coq Require Import ZArith List.
From Cspuz Require Import Lib.PyErr Generator.Segmentation Generator.SegInv Generator.SegExample.
Import ListNotations.

(* initial() (allow_unmet_constraints_first = False), whatever the draws and
   however many rounds it needs: if it returns, the value satisfies Inv *)
Theorem initial_inv : forall cfg ib draws fuel r d',
  allow_unmet cfg = false ->
  match ib with
  | None => (0 < height cfg)%Z /\ (0 < width cfg)%Z
  | Some b => WInv cfg b
  end ->
  initial cfg ib draws fuel = Ok (r, d') -> Inv cfg r.
Proof. exact initial_Inv. Qed.
Print Assumptions initial_inv.

(* every update proposed for a valid value leads to a valid value *)
Theorem step_inv : forall cfg bs ds u,
  Inv cfg bs -> proposed cfg bs ds u -> Inv cfg (apply_update bs u).
Proof. exact step_Inv. Qed.
Print Assumptions step_inv.

(* also outside the bounds (the states initial() walks through): a partition
   into connected blocks stays one *)
Theorem step_winv : forall cfg bs ds u,
  WInv cfg bs -> proposed cfg bs ds u -> WInv cfg (apply_update bs u).
Proof. exact step_WInv. Qed.
Print Assumptions step_winv.

(* every value along any finite sequence of proposed updates *)
Theorem walk_inv : forall cfg steps bs,
  Inv cfg bs -> valid_walk cfg bs steps -> Forall (Inv cfg) (walk_values bs (map snd steps)).
Proof. exact walk_Inv. Qed.
Print Assumptions walk_inv.

(* non-vacuity: 3x3 board, 2..4 blocks of size 1..5; initial() returns ex_b0 and
   a split, a move and a merge are then proposed in turn *)
Theorem inv_nonvacuous :
  (exists rest, initial ex_cfg None ex_draws 10 = Ok (ex_b0, rest)) /\
  valid_walk ex_cfg ex_b0 ex_steps /\
  last (walk_values ex_b0 (map snd ex_steps)) [] = ex_final /\
  Forall (Inv ex_cfg) (walk_values ex_b0 (map snd ex_steps)).
Proof.
  split; [exact ex_initial|]. split; [exact ex_walk|]. split; [exact ex_last|].
  destruct ex_initial as [rest H].
  apply walk_Inv; [|exact ex_walk].
  apply (initial_Inv ex_cfg None ex_draws 10 ex_b0 rest); [reflexivity | split; reflexivity | exact H].
Qed.
Print Assumptions inv_nonvacuous.
