(* C11 Tier 1 - model of cspuz/puzzle/yajilin.py::solve_yajilin(height, width, problem), all board shapes:
       grid_frame = BoolGridFrame(solver, height - 1, width - 1)   # horizontal (height, width-1), vertical (height-1, width)
       is_passed = graph.active_edges_single_cycle(solver, grid_frame)       # shape (height, width): one entry per cell
       black_cell = solver.bool_array((height, width))
       graph.active_vertices_not_adjacent(solver, black_cell)     # ~(a[1:, :] & a[:-1, :]), ~(a[:, 1:] & a[:, :-1])
       solver.add_answer_key(grid_frame); solver.add_answer_key(black_cell)
       for y in range(height): for x in range(width):
           if problem[y][x] != "..":
               ensure(~is_passed[y, x]); ensure(~black_cell[y, x])
               "^n": ensure(count_true(black_cell[0:y, x]) == n)       "vn": ... black_cell[y+1:height, x]
               "<n": ensure(count_true(black_cell[y, 0:x]) == n)       ">n": ... black_cell[y, x+1:width]
               ("??" and every other two-or-more-letter string: nothing more)
           else: ensure(is_passed[y, x] != black_cell[y, x])
   Variable ids, with h = height - 1, w = width - 1, N = frame_n h w (the segments), P = height * width:
       horizontal 0 .., vertical height*w .. N-1      (the ids of PuzzleBase.lattice height width)
       the single-cycle helper (model of property C06, Graph/Cycle.v::active_edges_single_cycle on the frame,
       auxiliary-variable route as in CycleFrameBase.v): is_passed N .. N+P-1, ranks N+P .. N+2P-1, root flags N+2P .. N+3P-1
       black_cell N+3P .. N+4P-1
   The answer keys are the frame and black_cell.  The grid form of graph.active_vertices_not_adjacent posts the two
   shifted-slice conjunctions written out below (property C08 proves them equivalent to independence in the grid
   graph; Heyawake.v models the same call).
   The problem uses the encoding of Rules_yajilin.v ([[h; w]; kind; num]; kind 0 = "..", 1 "^", 2 "v", 3 "<", 4 ">",
   every other kind = a clue cell without number such as "??"); every integer is a legal number (int() also reads
   negative numbers; they make the program unsatisfiable).
   Malformed inputs: height < 1 or width < 1 is rejected with ValueError (the Python raises ValueError from
   Array2D.__init__ / the single-cycle helper for every such pair); a kind list shorter than height * width is
   rejected with IndexError (the Python raises IndexError at the first missing row / cell, after everything else
   was posted; the plug-in's malformed problems only drop trailing cells / rows, so that the flat list is too
   short exactly when some problem[y][x] is missing).  Cells that are not strings or whose number does not parse
   (TypeError / ValueError in the Python) cannot be written in the encoding and are outside the model.
   No proofs here. *)
From Coq Require Import ZArith List Bool Arith.
From Cspuz Require Import Lib.PyErr Core.Expr Core.Program Graph.GraphModel Graph.Cycle
     Puzzle.PuzzleBase Puzzle.ModelBase Puzzle.CycleFrameBase.
Import ListNotations.
Local Open Scope nat_scope.

(* id of the first black_cell variable on a board of H x W cells: the frame of (H-1) x (W-1) cells, then three
   variables per lattice point *)
Definition yj_base (H W : nat) : nat := frame_n (H - 1) (W - 1) + (H * W + (H * W + H * W)).
Definition yj_black (H W : nat) (c : nat * nat) : nat := yj_base H W + cidx W c.
(* id of is_passed[y, x] *)
Definition yj_passed (H W : nat) (c : nat * nat) : nat := frame_pid (H - 1) (W - 1) (fst c) (snd c).

Definition yj_nand (H W : nat) (a b : nat * nat) : expr :=
  BNode NOT [BNode AND [BVar (yj_black H W a); BVar (yj_black H W b)]].
Definition yajilin_not_adjacent (H W : nat) : list expr :=
  map (fun '(y, x) => yj_nand H W (S y, x) (y, x)) (cells (H - 1) W) ++
  map (fun '(y, x) => yj_nand H W (y, S x) (y, x)) (cells H (W - 1)).

(* the cells an arrow of kind k at (y, x) points at, in slice order *)
Definition yj_arrow_cells (H W : nat) (k : Z) (y x : nat) : option (list (nat * nat)) :=
  if (k =? 1)%Z then Some (map (fun y' => (y', x)) (seq 0 y))
  else if (k =? 2)%Z then Some (map (fun y' => (y', x)) (seq (S y) (H - S y)))
  else if (k =? 3)%Z then Some (map (fun x' => (y, x')) (seq 0 x))
  else if (k =? 4)%Z then Some (map (fun x' => (y, x')) (seq (S x) (W - S x)))
  else None.

Definition yj_cell (H W : nat) (kind num : list Z) (c : nat * nat) : list expr :=
  let '(y, x) := c in
  let k := at2 kind W y x in
  if (k =? 0)%Z then [BNode XOR [BVar (yj_passed H W c); BVar (yj_black H W c)]]
  else
    [BNode NOT [BVar (yj_passed H W c)]; BNode NOT [BVar (yj_black H W c)]] ++
    match yj_arrow_cells H W k y x with
    | Some cs => [BNode EQ [ct_vars (map (yj_black H W) cs); PyInt (at2 num W y x)]]
    | None => []
    end.

Definition yajilin_cells (H W : nat) (kind num : list Z) : list expr :=
  flat_map (yj_cell H W kind num) (cells H W).

(* solver.add_answer_key(array): one call of Solver.add_answer_key per entry *)
Fixpoint yj_add_keys (st : state) (l : list expr) : res state :=
  match l with
  | [] => Ok st
  | e :: r => match add_answer_key st e with Ok s => yj_add_keys s r | Err er => Err er end
  end.

Definition solve_yajilin_model (pb : problem) : res state :=
  let H := dim pb 0 in let W := dim pb 1 in
  if ((getz (sec pb 0) 0 <? 1) || (getz (sec pb 0) 1 <? 1))%Z then Err ValueError
  else
  let h := H - 1 in let w := W - 1 in
  let '(sa, hor) := bool_array empty_state (S h * w) in
  let '(sb, ver) := bool_array sa (h * S w) in
  match active_edges_single_cycle sb (AFrame h w hor ver) None false with
  | Err e => Err e
  | Ok (st1, _) =>
      let '(st2, black) := bool_array st1 (H * W) in
      match yj_add_keys (ensure st2 (yajilin_not_adjacent H W)) (hor ++ ver) with
      | Err e => Err e
      | Ok st3 =>
      match yj_add_keys st3 black with
      | Err e => Err e
      | Ok st4 =>
          if Nat.ltb (length (sec pb 1)) (H * W) then Err IndexError
          else Ok (ensure st4 (yajilin_cells H W (sec pb 1) (sec pb 2)))
      end end
  end.
