"""C11 plug-in: slitherlink (solve_slitherlink(height, width, problem))."""
import c11lib as L

NAME = "slitherlink"
MODULE = "cspuz.puzzle.slitherlink"
FUNC = "solve_slitherlink"
LOOP = True
VALUES = [-1, 0, 1, 2, 3, 4]
TIER1 = ("Slitherlink", "solve_slitherlink_model")
TIER1_PRIM = ("SlitherlinkPrim", "solve_slitherlink_model_prim")


def call(mod, pb):
    return mod.solve_slitherlink(pb["h"], pb["w"], pb["grid"])


def ncand(pb):
    return 2 ** L.n_loop_edges(pb['h'] + 1, pb['w'] + 1)


def encode(pb):
    return [[pb["h"], pb["w"]], L.flat(pb["grid"])]


def families(tier, rng):
    full = [(1, 1), (1, 2), (2, 1), (1, 3), (3, 1)] + ([(2, 2)] if tier == "thorough" else [])
    for (h, w) in full:
        for g in L.all_grids(h, w, VALUES):
            yield {"h": h, "w": w, "grid": g}
    if tier != "thorough":
        for g in L.sample(rng, L.all_grids(2, 2, VALUES), 150):
            yield {"h": 2, "w": 2, "grid": g}
    for (h, w) in [(1, 4), (4, 1)] + ([(2, 3), (3, 2)] if tier == "thorough" else []):
        for _ in range(40 if tier == "thorough" else 20):
            yield {"h": h, "w": w, "grid": L.random_grid(rng, h, w, VALUES, 0.4)}


def tier2(tier, rng):
    for (h, w) in [(1, 1)]:
        for g in L.all_grids(h, w, VALUES):
            yield {"h": h, "w": w, "grid": g}
    for (h, w) in [(1, 2), (2, 1)]:
        for g in L.sample(rng, L.all_grids(h, w, VALUES), 36 if tier == "thorough" else 6):
            yield {"h": h, "w": w, "grid": g}


def tier1_problems(tier, rng):
    """program-capture tie: every clue grid of the boards with <= 3 cells (values -1..4 and the out-of-range 5 on 1x1 / 1x2 /
    2x1), a sample of all grids on the boards with 4..6 cells (both orientations), random grids on larger and non-square
    boards (up to 7x7, 1xN, Nx1) with clue values at and beyond the boundaries (-3, -2, 5, 6, 9), boards without cells
    (height = 0 or width = 0: accepted by the Python), and malformed problems: a negative dimension (ValueError), trailing
    clue cells / rows missing (IndexError)"""
    th = tier == "thorough"
    wide = VALUES + [5]
    for (h, w) in [(1, 1), (1, 2), (2, 1)]:
        for g in L.all_grids(h, w, wide):
            yield {"h": h, "w": w, "grid": g}
    for (h, w) in [(1, 3), (3, 1)]:
        for g in L.all_grids(h, w, VALUES):
            yield {"h": h, "w": w, "grid": g}
    for (h, w) in [(2, 2), (1, 4), (4, 1), (1, 5), (5, 1), (2, 3), (3, 2), (1, 6), (6, 1)]:
        for g in L.sample(rng, L.all_grids(h, w, VALUES), 120 if th else 12):
            yield {"h": h, "w": w, "grid": g}
    far = [-3, -2, -1, -1, 0, 1, 2, 3, 4, 5, 6, 9]
    for (h, w) in [(3, 3), (2, 4), (4, 2), (2, 5), (5, 2), (3, 4), (4, 3), (4, 4), (3, 6), (6, 3), (5, 5), (4, 6),
                   (6, 5), (7, 7), (1, 7), (7, 1), (1, 9), (8, 1), (2, 7), (7, 2)]:
        for p in [0.2, 0.6] * (3 if th else 1):
            yield {"h": h, "w": w, "grid": L.random_grid(rng, h, w, VALUES, p)}
        yield {"h": h, "w": w, "grid": [[rng.choice(far) for _ in range(w)] for _ in range(h)]}
    for (h, w) in [(0, 0), (0, 1), (1, 0), (0, 3), (3, 0), (0, 6), (5, 0)]:
        yield {"h": h, "w": w, "grid": [[] for _ in range(h)]}
    # malformed: a negative dimension -> ValueError (Array2D.__init__)
    for (h, w) in [(-1, 0), (0, -1), (-1, 2), (2, -1), (-1, -1), (-3, 1), (1, -2), (-1, -4), (-2, 0)]:
        yield {"h": h, "w": w, "grid": [[] for _ in range(max(h, 0))]}
    # malformed: trailing cells / rows missing -> IndexError (after the frame and the loop constraints were posted)
    for (h, w) in [(1, 1), (1, 3), (2, 2), (3, 2), (4, 4)]:
        g = L.random_grid(rng, h, w, VALUES, 0.5)
        yield {"h": h, "w": w, "grid": g[:-1] + [g[-1][:-1]]}
        yield {"h": h, "w": w, "grid": g[:-1]}
        yield {"h": h, "w": w, "grid": []}
