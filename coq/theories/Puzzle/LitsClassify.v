(* C11 Tier 1 - lits: four cells in row-major order, each with a neighbour among them, with exactly three adjacent
   pairs, are a translate of one of the 18 fixed tetrominoes other than the square (case analysis over the
   adjacency of the six pairs). *)
From Coq Require Import ZArith List Bool Arith Lia.
From Cspuz Require Import Puzzle.PuzzleBase Puzzle.Rules_lits Puzzle.LitsShapes.
Import ListNotations.
Local Open Scope nat_scope.

(* ------------------------------------------------------------------ classification *)

Lemma Dn_irrefl p : Dn p p = false.
Proof. unfold Dn, ceqb. cbn [fst snd]. destruct (Nat.eqb_spec (S (fst p)) (fst p)); [lia|reflexivity]. Qed.
Lemma Rt_irrefl p : Rt p p = false.
Proof. unfold Rt, ceqb. cbn [fst snd]. destruct (Nat.eqb_spec (S (snd p)) (snd p)); [lia|apply andb_false_r]. Qed.

Lemma dr_cases p q : lt_rm p q ->
  (Dn p q = true /\ Rt p q = false /\ Dn q p = false /\ Rt q p = false /\ fst q = S (fst p) /\ snd q = snd p) \/
  (Dn p q = false /\ Rt p q = true /\ Dn q p = false /\ Rt q p = false /\ fst q = fst p /\ snd q = S (snd p)) \/
  (Dn p q = false /\ Rt p q = false /\ Dn q p = false /\ Rt q p = false /\
   (fst q <> S (fst p) \/ snd q <> snd p) /\ (fst q <> fst p \/ snd q <> S (snd p))).
Proof.
  destruct p as [y x], q as [y' x']. unfold lt_rm, Dn, Rt, ceqb. cbn [fst snd]. intros H.
  assert (B1 : Nat.eqb (S y') y && Nat.eqb x' x = false).
  { destruct (Nat.eqb_spec (S y') y); [lia|reflexivity]. }
  assert (B2 : Nat.eqb y' y && Nat.eqb (S x') x = false).
  { destruct (Nat.eqb_spec y' y), (Nat.eqb_spec (S x') x); try reflexivity. lia. }
  rewrite B1, B2.
  destruct (Nat.eqb_spec (S y) y'), (Nat.eqb_spec x x'), (Nat.eqb_spec y y'), (Nat.eqb_spec (S x) x'); cbn [andb];
    first [ exfalso; lia
          | left; repeat split; (reflexivity || lia)
          | right; left; repeat split; (reflexivity || lia)
          | right; right; repeat split; (reflexivity || lia) ].
Qed.

Lemma cells4_eq (y1 x1 y2 x2 y3 x3 y4 x4 y1' x1' y2' x2' y3' x3' y4' x4' : nat) :
  y1 = y1' -> x1 = x1' -> y2 = y2' -> x2 = x2' -> y3 = y3' -> x3 = x3' -> y4 = y4' -> x4 = x4' ->
  [(y1, x1); (y2, x2); (y3, x3); (y4, x4)] = [(y1', x1'); (y2', x2'); (y3', x3'); (y4', x4')].
Proof. intros; subst; reflexivity. Qed.

Ltac lits_wit i a b :=
  exists a, b, (nth i tetrominoes ([], 0));
  split; [apply nth_In; simpl; lia|];
  split; [simpl; discriminate|];
  cbn [nth tetrominoes fst snd map]; unfold shift; cbn [fst snd]; apply cells4_eq; lia.
Ltac lits_try i :=
  lazymatch goal with
  | |- context [ [(?y1, ?x1); (_, ?x2); (_, ?x3); (_, ?x4)] ] =>
      first [ lits_wit i y1 x1 | lits_wit i y1 x3 | lits_wit i y1 x4 | lits_wit i y1 x2 ]
  end.
Ltac lits_search :=
  first [ lits_try 0 | lits_try 1 | lits_try 2 | lits_try 3 | lits_try 4 | lits_try 5 | lits_try 6 | lits_try 7
        | lits_try 8 | lits_try 9 | lits_try 10 | lits_try 11 | lits_try 12 | lits_try 13 | lits_try 14
        | lits_try 15 | lits_try 16 | lits_try 17 ].

Ltac lits_pair p q HL Hb Hc :=
  let A1 := fresh "A" in let A2 := fresh "A" in let A3 := fresh "A" in let A4 := fresh "A" in
  let E1 := fresh "E" in let E2 := fresh "E" in
  destruct (dr_cases p q HL) as [(A1 & A2 & A3 & A4 & E1 & E2)|[(A1 & A2 & A3 & A4 & E1 & E2)|(A1 & A2 & A3 & A4 & E1 & E2)]];
  rewrite ?A1, ?A2, ?A3, ?A4 in Hb; rewrite ?A1, ?A2, ?A3, ?A4 in Hc; clear A1 A2 A3 A4.

(* four cells in row-major order, each with a neighbour among them, exactly three adjacent pairs: a translate of
   one of the 18 tetrominoes that are not the square *)
Lemma classify p1 p2 p3 p4 :
  lt_rm p1 p2 -> lt_rm p1 p3 -> lt_rm p1 p4 -> lt_rm p2 p3 -> lt_rm p2 p4 -> lt_rm p3 p4 ->
  cond_b [p1; p2; p3; p4] = true -> pairs_n [p1; p2; p3; p4] = 3 ->
  exists a b ts, In ts tetrominoes /\ snd ts <> 4 /\ [p1; p2; p3; p4] = map (shift a b) (fst ts).
Proof.
  intros L12 L13 L14 L23 L24 L34 Hb Hc.
  unfold cond_b in Hb. unfold pairs_n in Hc. cbn [forallb map] in Hb, Hc.
  unfold nbcount in Hb. rewrite !upN_D, !leftN_R in Hb. unfold downN, rightN in Hb, Hc.
  cbn [existsb] in Hb, Hc.
  rewrite !Dn_irrefl, !Rt_irrefl in Hb, Hc.
  lits_pair p1 p2 L12 Hb Hc; lits_pair p1 p3 L13 Hb Hc; lits_pair p1 p4 L14 Hb Hc;
  lits_pair p2 p3 L23 Hb Hc; lits_pair p2 p4 L24 Hb Hc; lits_pair p3 p4 L34 Hb Hc;
  cbn in Hc; try discriminate Hc; cbn in Hb; try discriminate Hb; clear Hb Hc;
  destruct p1 as [y1 x1], p2 as [y2 x2], p3 as [y3 x3], p4 as [y4 x4]; unfold lt_rm in *; cbn [fst snd] in *;
  subst; try (exfalso; lia); lits_search.
Qed.

