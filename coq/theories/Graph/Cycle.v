(* C06 -- model of cspuz/graph.py::_active_edges_single_cycle,
   active_edges_single_cycle, _active_edges_single_path, active_edges_single_path,
   _from_grid_frame, Graph.line_graph, the primitive branch of
   _active_vertices_connected, and (locally) BoolGridFrame.__getitem__;
   plus the graph-theoretic specification (relational and executable).
   Definitions only, no proofs. *)
From Coq Require Import ZArith List Bool Arith.
From Cspuz Require Import Lib.PyErr Core.Expr Core.Program Core.Build Graph.GraphModel.
Import ListNotations.
Open Scope nat_scope.
Open Scope res_scope.

(* ------------------------------------------------------------------------ *)
(* small Python primitives                                                   *)

(* l[i] for a non-negative index *)
Definition py_nth {A} (l : list A) (i : nat) : res A :=
  match nth_error l i with Some x => Ok x | None => Err IndexError end.

(* a & b on scalars: BoolExpr.__and__ / __rand__ through _make_bool_expr; a
   NotImplemented result becomes TypeError *)
Definition py_and (a b : expr) : res expr :=
  match make_bool_expr AND [a; b] with Ok e => Ok e | Err _ => Err TypeError end.

(* for i in l: s = f i s   (first error wins) *)
Fixpoint for_each {S} (f : nat -> S -> res S) (l : list nat) (s : S) : res S :=
  match l with
  | [] => Ok s
  | i :: r => let* s' := f i s in for_each f r s'
  end.

(* ------------------------------------------------------------------------ *)
(* Graph.line_graph                                                          *)

(* for i in range(len(inc)): for j in range(i): (min, max) of the two edge ids *)
Fixpoint lg_pairs_go (prev rest : list nat) : list (nat * nat) :=
  match rest with
  | [] => []
  | x :: r => map (fun y => if x <? y then (x, y) else (y, x)) prev ++ lg_pairs_go (prev ++ [x]) r
  end.
Definition lg_pairs (g : graph) : list (nat * nat) :=
  flat_map (fun v => lg_pairs_go [] (map snd (incident g v))) (seq 0 (nv g)).

(* Python collects the pairs in a set, whose iteration order is unspecified:
   the model lists the set in lexicographic order without duplicates, and the
   harness compares the emitted edge operands as a set *)
Definition pair_eqb (a b : nat * nat) : bool := (fst a =? fst b) && (snd a =? snd b).
Definition pair_ltb (a b : nat * nat) : bool :=
  (fst a <? fst b) || ((fst a =? fst b) && (snd a <? snd b)).
Fixpoint set_insert (p : nat * nat) (l : list (nat * nat)) : list (nat * nat) :=
  match l with
  | [] => [p]
  | q :: r => if pair_eqb p q then l else if pair_ltb p q then p :: l else q :: set_insert p r
  end.
Definition to_set (l : list (nat * nat)) : list (nat * nat) :=
  fold_left (fun acc p => set_insert p acc) l [].
Definition line_graph (g : graph) : graph :=
  {| nv := length (edges g); edges := to_set (lg_pairs g) |}.

(* ------------------------------------------------------------------------ *)
(* _active_vertices_connected, use_graph_primitive=True, acyclic=False       *)

Definition flat_edges (es : list (nat * nat)) : list expr :=
  flat_map (fun e => [PyInt (Z.of_nat (fst e)); PyInt (Z.of_nat (snd e))]) es.

Definition avc_node (acts : list expr) (g : graph) : expr :=
  BNode G_AVC ([PyInt (Z.of_nat (nv g)); PyInt (Z.of_nat (length (edges g)))]
               ++ acts ++ flat_edges (edges g)).

Definition post_avc_primitive (st : state) (acts : list expr) (g : graph) : res state :=
  if negb (length acts =? nv g) then Err ValueError
  else Ok (ensure st [avc_node acts g]).

(* ------------------------------------------------------------------------ *)
(* _active_edges_single_cycle                                                *)

(* [is_active_edge[e] for j, e in graph.incident_edges[i]] *)
Definition edge_items (acts : list expr) (g : graph) (i : nat) : res (list expr) :=
  mapM (fun je => py_nth acts (snd je)) (incident g i).

(* degree = count_true([...]) *)
Definition degree_expr (acts : list expr) (g : graph) (i : nat) : res expr :=
  let* l := edge_items acts g i in count_true l.

(* [is_active_edge[e] & (rank[j] >= rank[i]) for j, e in graph.incident_edges[i]] *)
Definition ge_items (acts rank : list expr) (g : graph) (i : nat) : res (list expr) :=
  mapM (fun je =>
          let* a := py_nth acts (snd je) in
          let* rj := py_nth rank (fst je) in
          let* ri := py_nth rank i in
          py_and a (i_ge rj ri))
       (incident g i).

Definition cycle_step_prim (acts passed : list expr) (g : graph) (i : nat) (st : state)
  : res state :=
  let* deg := degree_expr acts g i in
  let* p := py_nth passed i in
  Ok (ensure st [i_eq deg (i_cond p (PyInt 2) (PyInt 0))]).

Definition cycle_step (acts passed rank root : list expr) (g : graph) (i : nat) (st : state)
  : res state :=
  let* deg := degree_expr acts g i in
  let* p := py_nth passed i in
  let st1 := ensure st [i_eq deg (i_cond p (PyInt 2) (PyInt 0))] in
  let* items := ge_items acts rank g i in
  let* cnt := count_true items in
  let* r := py_nth root i in
  Ok (ensure st1 [b_imp p (i_le cnt (i_cond r (PyInt 2) (PyInt 1)))]).

(* [prim] is use_graph_primitive after the `is None -> config` resolution *)
Definition post_cycle (st : state) (acts : list expr) (g : graph) (prim : bool)
  : res (state * list expr) :=
  let n := nv g in
  let '(st1, passed) := bool_array st n in
  if prim then
    let* st2 := for_each (cycle_step_prim acts passed g) (seq 0 n) st1 in
    let* st3 := post_avc_primitive st2 acts (line_graph g) in
    Ok (st3, passed)
  else
    let* '(st2, rank) := int_array st1 n 0%Z (Z.of_nat n - 1)%Z in
    let '(st3, root) := bool_array st2 n in
    let* st4 := for_each (cycle_step acts passed rank root g) (seq 0 n) st3 in
    let* cr := count_true root in
    Ok (ensure st4 [i_eq cr (PyInt 1)], passed).

(* ------------------------------------------------------------------------ *)
(* _active_edges_single_path                                                 *)

Definition path_step (acts passed : list expr) (g : graph) (i : nat) (s : state * list expr)
  : res (state * list expr) :=
  let '(st, endp) := s in
  let* deg := degree_expr acts g i in
  let* p := py_nth passed i in
  let st1 := ensure st [b_imp p (b_or (i_eq deg (PyInt 1)) (i_eq deg (PyInt 2)))] in
  let st2 := ensure st1 [b_imp (b_not p) (i_eq deg (PyInt 0))] in
  Ok (st2, endp ++ [i_eq deg (PyInt 1)]).

Definition post_path (st : state) (acts : list expr) (g : graph) (prim : bool)
  : res (state * list expr) :=
  let n := nv g in
  let '(st1, passed) := bool_array st n in
  if prim then
    let* '(st2, endp) := for_each (path_step acts passed g) (seq 0 n) (st1, []) in
    let* ce := count_true endp in
    let* fo := fold_or passed in
    (* count_true(is_endpoint) == fold_or(is_passed).cond(2, 0) *)
    let st3 := ensure st2 [i_eq ce (i_cond fo (PyInt 2) (PyInt 0))] in
    let* st4 := post_avc_primitive st3 acts (line_graph g) in
    Ok (st4, passed)
  else Err OtherError.      (* raise RuntimeError("TODO") *)

(* ------------------------------------------------------------------------ *)
(* BoolGridFrame.__getitem__ (local model) and _from_grid_frame              *)

(* horizontal : BoolArray2D of shape (h+1, w); vertical : shape (h, w+1) *)
Definition arr2_get (data : list expr) (hh ww y x : nat) : res expr :=
  if (y <? hh) && (x <? ww) then py_nth data (y * ww + x) else Err IndexError.

Definition frame_get (h w : nat) (hor ver : list expr) (y x : nat) : res expr :=
  if negb ((y <=? h * 2) && (x <=? w * 2)) then Err IndexError
  else if Nat.even y && Nat.odd x then arr2_get hor (S h) w (y / 2) (x / 2)
  else if Nat.odd y && Nat.even x then arr2_get ver h (S w) (y / 2) (x / 2)
  else Err IndexError.

Definition frame_cell (h w : nat) (hor ver : list expr) (yx : nat * nat)
  : res (list (expr * (nat * nat))) :=
  let '(y, x) := yx in
  let* a := if negb (y =? h)
            then let* e := frame_get h w hor ver (y * 2 + 1) (x * 2) in
                 Ok [(e, (y * S w + x, S y * S w + x))]
            else Ok [] in
  let* b := if negb (x =? w)
            then let* e := frame_get h w hor ver (y * 2) (x * 2 + 1) in
                 Ok [(e, (y * S w + x, y * S w + S x))]
            else Ok [] in
  Ok (a ++ b).

Definition from_grid_frame (h w : nat) (hor ver : list expr) : res (list expr * graph) :=
  let* cells := mapM (frame_cell h w hor ver) (list_prod (seq 0 (S h)) (seq 0 (S w))) in
  let all := concat cells in
  Ok (map fst all, {| nv := S h * S w; edges := map snd all |}).

(* ------------------------------------------------------------------------ *)
(* the public wrappers                                                       *)

Inductive edge_arg :=
  | AFrame (h w : nat) (hor ver : list expr)   (* a BoolGridFrame *)
  | ASeq (l : list expr)                        (* a list / tuple *)
  | AArr (l : list expr).                       (* a BoolArray1D *)

Inductive passed_result :=
  | P1 (l : list expr)                          (* BoolArray1D *)
  | P2 (h w : nat) (l : list expr).             (* BoolArray2D of shape (h, w) *)

Definition wrap (post : state -> list expr -> graph -> bool -> res (state * list expr))
           (st : state) (arg : edge_arg) (og : option graph) (prim : bool)
  : res (state * passed_result) :=
  match og with
  | None =>
      match arg with
      | AFrame h w hor ver =>
          let* '(es, g) := from_grid_frame h w hor ver in
          let* '(st', p) := post st es g prim in
          Ok (st', P2 (S h) (S w) p)            (* reshape((height + 1, width + 1)) *)
      | _ => Err TypeError
      end
  | Some g =>
      match arg with
      | AFrame _ _ _ _ => Err TypeError
      | ASeq l | AArr l =>
          let* '(st', p) := post st l g prim in Ok (st', P1 p)
      end
  end.

Definition active_edges_single_cycle := wrap post_cycle.
Definition active_edges_single_path := wrap post_path.

(* ------------------------------------------------------------------------ *)
(* specification                                                             *)

Definition all_vertices_ok : nat -> bool := fun _ => true.

Definition no_active (g : graph) (A : nat -> bool) : Prop :=
  forall k, k < length (edges g) -> A k = false.

(* all active edges lie in one component of the active-edge subgraph: any two
   vertices touched by an active edge are joined by a walk of active edges *)
Definition edge_connected (g : graph) (A : nat -> bool) : Prop :=
  forall u v, u < nv g -> v < nv g -> 0 < degree g A u -> 0 < degree g A v ->
              reach g all_vertices_ok A u v.

(* empty, or 2-regular and connected; two parallel active edges form a 2-cycle *)
Definition single_cycle (g : graph) (A : nat -> bool) : Prop :=
  no_active g A \/
  ((forall v, v < nv g -> degree g A v = 0 \/ degree g A v = 2) /\ edge_connected g A).

Definition visited (g : graph) (A : nat -> bool) (v : nat) : bool := 0 <? degree g A v.

Definition num_deg1 (g : graph) (A : nat -> bool) : nat :=
  length (filter (fun v => degree g A v =? 1) (seq 0 (nv g))).

(* a simple path with at least one edge: degrees at most 2, connected, exactly
   two vertices of degree 1 *)
Definition simple_path (g : graph) (A : nat -> bool) : Prop :=
  (forall v, v < nv g -> degree g A v <= 2) /\ edge_connected g A /\ num_deg1 g A = 2.

(* the documented convention: the empty edge set is admitted too *)
Definition single_path (g : graph) (A : nat -> bool) : Prop :=
  no_active g A \/ simple_path g A.

(* executable versions (extracted; proved equivalent in CycleProofs.v) *)
Definition no_active_b (g : graph) (A : nat -> bool) : bool :=
  forallb (fun k => negb (A k)) (seq 0 (length (edges g))).
Definition edge_connected_b (g : graph) (A : nat -> bool) : bool :=
  match filter (visited g A) (seq 0 (nv g)) with
  | [] => true
  | s :: _ as l => let c := component g all_vertices_ok A s in forallb (fun v => mem v c) l
  end.
Definition single_cycle_b (g : graph) (A : nat -> bool) : bool :=
  no_active_b g A ||
  (forallb (fun v => (degree g A v =? 0) || (degree g A v =? 2)) (seq 0 (nv g))
   && edge_connected_b g A).
Definition simple_path_b (g : graph) (A : nat -> bool) : bool :=
  forallb (fun v => degree g A v <=? 2) (seq 0 (nv g)) && edge_connected_b g A
  && (num_deg1 g A =? 2).
Definition single_path_b (g : graph) (A : nat -> bool) : bool :=
  no_active_b g A || simple_path_b g A.

(* ------------------------------------------------------------------------ *)
(* the defined meaning of Op.GRAPH_ACTIVE_VERTICES_CONNECTED on evaluated
   operands  [n; m] ++ n flags ++ 2m endpoints : the flagged vertices of the
   decoded graph are connected (trusted: the external solver implements it) *)

Fixpoint take_bools (n : nat) (l : list (option value)) : option (list bool * list (option value)) :=
  match n with
  | O => Some ([], l)
  | S k => match l with
           | Some (VB b) :: r =>
               match take_bools k r with Some (bs, r') => Some (b :: bs, r') | None => None end
           | _ => None
           end
  end.

Fixpoint take_pairs (m : nat) (l : list (option value)) : option (list (nat * nat)) :=
  match m with
  | O => match l with [] => Some [] | _ => None end
  | S k => match l with
           | Some (VI a) :: Some (VI b) :: r =>
               if (0 <=? a)%Z && (0 <=? b)%Z then
                 match take_pairs k r with
                 | Some es => Some ((Z.to_nat a, Z.to_nat b) :: es)
                 | None => None
                 end
               else None
           | _ => None
           end
  end.

Definition gsem_c06 (o : op) (vs : list (option value)) : option bool :=
  match o, vs with
  | G_AVC, Some (VI n) :: Some (VI m) :: rest =>
      if (0 <=? n)%Z && (0 <=? m)%Z then
        match take_bools (Z.to_nat n) rest with
        | Some (acts, rest') =>
            match take_pairs (Z.to_nat m) rest' with
            | Some es =>
                let g := {| nv := Z.to_nat n; edges := es |} in
                if wf_graph g then Some (connected_b g (fun v => nth v acts false)) else None
            | None => None
            end
        | None => None
        end
      else None
  | _, _ => None
  end.

(* the edge pattern chosen by an assignment of the caller's variables *)
Definition pattern (gsem : op -> list (option value) -> option bool) (en : env) (acts : list expr)
  : nat -> bool :=
  fun k => match nth_error acts k with Some e => holds gsem en e | None => false end.

(* run a posted program on a complete assignment (used by the harness only) *)
Definition run_program (en_b : list bool) (en_i : list Z) (st : state) : bool :=
  let en := {| eb := fun i => nth i en_b false; ei := fun i => nth i en_i 0%Z |} in
  in_bounds en st && satisfies gsem_c06 en st.
